package netann

// Harness for C20 (only authentic, fresh gossip changes the channel graph),
// unit netann: the validation predicates the gossiper relies on.
//
//   validateChannelAnn1 (via ValidateChannelAnn)     all four signatures, digest covers all fields
//   ValidateChannelUpdateAnn                          signature under the supplied key + field rules
//   ValidateNodeAnn                                   signature under the announced node id + address rules
//   (*ChannelAnnouncement1/ChannelUpdate1/NodeAnnouncement1).DataToSign    = BOLT-7 layout, injective
//
// Ideal cryptography (symbolic run only, through vReplace; the native replay
// runs the real btcec/ecdsa/sha256 code):
//
//   signature(digest, key)  = vHash("sig", 64, digest, key)           (UF, injective)
//   Verify(sig, digest, key) <=> sig == vHash("sig", 64, digest, key)
//   DoubleHashB(data)        = vHash("dsha", 32, len(data) || data padded to 192)   (UF, injective)
//   ParsePubKey(b)           = opaque handle for the 33 bytes b (always succeeds)
//
// A signature slot of a message is described by (signer key index, which
// message the signer signed, 64-byte xor mask). Natively the harness really
// signs that message's BOLT-7 serialisation with the fixed test private key
// and xors the mask into the 64 wire bytes, so that every model of the solver
// is a concrete wire message the real code can be run on.

import (
	"bytes"

	"github.com/btcsuite/btcd/btcec/v2"
	"github.com/btcsuite/btcd/btcec/v2/ecdsa"
	"github.com/btcsuite/btcd/chainhash/v2"
	"github.com/lightningnetwork/lnd/input"
	"github.com/lightningnetwork/lnd/lnwire"
)

// ---------------------------------------------------------------------------
// fixed test keys
// ---------------------------------------------------------------------------

// c20Pubs[i] is the compressed public key of the private key whose 32 bytes
// are all 0x10*(i+1)+1 (checked natively in c20Priv).
var c20Pubs = [4][33]byte{
	{0x03, 0x4f, 0x35, 0x5b, 0xdc, 0xb7, 0xcc, 0x0a, 0xf7, 0x28, 0xef, 0x3c, 0xce, 0xb9, 0x61, 0x5d, 0x90, 0x68, 0x4b, 0xb5, 0xb2, 0xca, 0x5f, 0x85, 0x9a, 0xb0, 0xf0, 0xb7, 0x04, 0x07, 0x58, 0x71, 0xaa},
	{0x02, 0x8d, 0x75, 0x00, 0xdd, 0x4c, 0x12, 0x68, 0x5d, 0x1f, 0x56, 0x8b, 0x4c, 0x2b, 0x50, 0x48, 0xe8, 0x53, 0x4b, 0x87, 0x33, 0x19, 0xf3, 0xa8, 0xda, 0xa6, 0x12, 0xb4, 0x69, 0x13, 0x2e, 0xc7, 0xf7},
	{0x03, 0x69, 0x30, 0xf4, 0x6d, 0xd0, 0xb1, 0x6d, 0x86, 0x6d, 0x59, 0xd1, 0x05, 0x4a, 0xa6, 0x32, 0x98, 0xb3, 0x57, 0x49, 0x9c, 0xd1, 0x86, 0x2e, 0xf1, 0x6f, 0x3f, 0x55, 0xf1, 0xca, 0xfc, 0xeb, 0x82},
	{0x02, 0xee, 0xc7, 0x24, 0x5d, 0x6b, 0x7d, 0x2c, 0xcb, 0x30, 0x38, 0x0b, 0xfb, 0xe2, 0xa3, 0x64, 0x8c, 0xd7, 0xa9, 0x42, 0x65, 0x3f, 0x5a, 0xa3, 0x40, 0xed, 0xce, 0xa1, 0xf2, 0x83, 0x68, 0x66, 0x19},
}

// c20Pub selects c20Pubs[i] (i < 4) without branching, so that a symbolic
// index gives one term per byte instead of four paths.
func c20Pub(i uint8) [33]byte {
	b0 := -(i & 1)
	b1 := -((i >> 1) & 1)
	var out [33]byte
	for j := 0; j < 33; j++ {
		out[j] = c20Pubs[0][j]&^b1&^b0 | c20Pubs[1][j]&^b1&b0 |
			c20Pubs[2][j]&b1&^b0 | c20Pubs[3][j]&b1&b0
	}
	return out
}

// c20Priv is only called natively.
func c20Priv(i uint8) *btcec.PrivateKey {
	var b [32]byte
	for j := range b {
		b[j] = 0x10*(i+1) + 1
	}
	priv, pub := btcec.PrivKeyFromBytes(b[:])
	if !bytes.Equal(pub.SerializeCompressed(), c20Pubs[i][:]) {
		panic("c20: public key table does not match the private keys")
	}
	return priv
}

// ---------------------------------------------------------------------------
// ideal crypto: replacements used by the symbolic run only
// ---------------------------------------------------------------------------

type c20IdealSig struct{ raw [64]byte }

func (s *c20IdealSig) Serialize() []byte { return s.raw[:] }

// Verify: the value verifies iff it is the unaltered signature F(digest, key, no corruption).
func (s *c20IdealSig) Verify(digest []byte, key *btcec.PublicKey) bool {
	want := vHash("sig", 64, digest, c20KeyBytes(key), []byte{0, 0})
	return bytes.Equal(want, s.raw[:])
}

// vC20ToSignature replaces (*lnwire.Sig).ToSignature: the 64 wire bytes are
// the signature value.
func vC20ToSignature(s *lnwire.Sig) (input.Signature, error) {
	x := &c20IdealSig{}
	copy(x.raw[:], s.RawBytes())
	return x, nil
}

type c20KeyEntry struct {
	p *btcec.PublicKey
	b []byte
}

var c20KeyTab []c20KeyEntry

// vC20ParsePubKey replaces btcec.ParsePubKey: an opaque handle for the bytes.
func vC20ParsePubKey(b []byte) (*btcec.PublicKey, error) {
	p := new(btcec.PublicKey)
	cp := make([]byte, len(b))
	copy(cp, b)
	c20KeyTab = append(c20KeyTab, c20KeyEntry{p, cp})
	return p, nil
}

func c20KeyBytes(p *btcec.PublicKey) []byte {
	for i := range c20KeyTab {
		if c20KeyTab[i].p == p {
			return c20KeyTab[i].b
		}
	}
	panic("c20: public key not produced by ParsePubKey")
}

const c20Pad = 192

// vC20DoubleHashB replaces chainhash.DoubleHashB: one collision-free function
// over byte strings of any length up to c20Pad (the engine's sha256 UF is one
// function per input length, which says nothing about two inputs of different
// lengths).
func vC20DoubleHashB(b []byte) []byte {
	if len(b) > c20Pad {
		panic("c20: message longer than the hash model's padding")
	}
	in := make([]byte, 2+c20Pad)
	in[0] = byte(len(b) >> 8)
	in[1] = byte(len(b))
	copy(in[2:], b)
	return vHash("dsha", 32, in)
}

func c20Ideal() {
	vReplace("(*github.com/lightningnetwork/lnd/lnwire.Sig).ToSignature", "github.com/lightningnetwork/lnd/netann.vC20ToSignature")
	vReplace("github.com/btcsuite/btcd/btcec/v2.ParsePubKey", "github.com/lightningnetwork/lnd/netann.vC20ParsePubKey")
	vReplace("github.com/btcsuite/btcd/chainhash/v2.DoubleHashB", "github.com/lightningnetwork/lnd/netann.vC20DoubleHashB")
	vInjective("sig")
	vInjective("dsha")
	vAssumption("ideal signatures: wire bytes are F(digest, key, corruption) for one collision-free F; they verify for (d, k) iff they equal F(d, k, none). Natively F is ECDSA under fixed test keys followed by the xor")
	vAssumption("ideal hash: chainhash.DoubleHashB is one collision-free function of the byte string")
	vAssumption("ParsePubKey/Sig.ToSignature succeed on every input in the symbolic run; natively a malformed key/signature is an error, which the oracle classes as 'does not verify' as well")
	c20KeyTab = nil
}

// c20Sign produces the 64 wire bytes of a signature by test key `signer` over
// `digest`, with byte number pos (< 64) xored with val afterwards.
//
// Symbolically the wire bytes are F(digest, key, (pos,val)) for ONE injective
// F: every (digest, key, corruption) gives its own 64-byte value, and only the
// uncorrupted one verifies (Dolev-Yao: the only values that verify are the
// ones the key holder issued). Natively F is ECDSA with the test key, xor.
func c20Sign(digest []byte, signer uint8, pos, val uint8) lnwire.Sig {
	var out []byte
	if vNative() {
		sig := ecdsa.Sign(c20Priv(signer), digest)
		ws, err := lnwire.NewSigFromSignature(sig)
		if err != nil {
			panic(err)
		}
		out = append([]byte{}, ws.RawBytes()...)
		out[pos] ^= val
	} else {
		k := c20Pub(signer)
		if val == 0 {
			pos = 0 // xor with 0 at any position is "unaltered"
		}
		out = vHash("sig", 64, digest, k[:], []byte{pos, val})
	}
	s, err := lnwire.NewSigFromWireECDSA(out)
	if err != nil {
		panic(err)
	}
	return s
}

// c20SigSlot is one signature slot of a message: who signed, what, and how the
// wire bytes were corrupted afterwards.
type c20SigSlot struct {
	signer   uint8 // index of the test key that produced the signature
	other    uint8 // 1: the signer signed the OTHER message (a different one), 0: this one
	pos, val uint8 // wire byte pos is xored with val
}

func c20Slot(name string) c20SigSlot {
	s := c20SigSlot{signer: vU8(name + ".signer"), other: vU8(name + ".other"), pos: vU8(name + ".pos"), val: vU8(name + ".val")}
	vAssume(s.signer < 4 && s.other < 2 && s.pos < 64)
	return s
}

// authentic is the property's notion: made by the owner of `key` over exactly
// this message and not altered since.
func (s c20SigSlot) authentic(key [33]byte) bool {
	k := c20Pub(s.signer)
	return s.other == 0 && s.val == 0 && bytes.Equal(k[:], key[:])
}

func (s c20SigSlot) make(dThis, dOther []byte) lnwire.Sig {
	m := -s.other // 0x00 or 0xff
	d := make([]byte, 32)
	for i := range d {
		d[i] = dThis[i]&^m | dOther[i]&m
	}
	return c20Sign(d, s.signer, s.pos, s.val)
}

// c20Key is a key field of a message: one of the test keys with byte number
// pos xored with val (a single-byte corruption; val == 0: a genuine key).
func c20Key(name string) [33]byte {
	i, pos, val := vU8(name+".idx"), vU8(name+".pos"), vU8(name+".val")
	vAssume(i < 4 && pos < 33)
	k := c20Pub(i)
	for j := range k {
		hit := byte((uint16(uint8(j)^pos) - 1) >> 8) // 0xff iff j == pos
		k[j] ^= val & hit
	}
	return k
}

// ---------------------------------------------------------------------------
// BOLT-7 reference serialisations (what a remote signer signs)
// ---------------------------------------------------------------------------

func c20U16(b []byte, v uint16) []byte { return append(b, byte(v>>8), byte(v)) }
func c20U32(b []byte, v uint32) []byte {
	return append(b, byte(v>>24), byte(v>>16), byte(v>>8), byte(v))
}
func c20U64(b []byte, v uint64) []byte {
	return append(c20U32(b, uint32(v>>32)), byte(v>>24), byte(v>>16), byte(v>>8), byte(v))
}
func c20Scid(b []byte, s lnwire.ShortChannelID) []byte {
	b = append(b, byte(s.BlockHeight>>16), byte(s.BlockHeight>>8), byte(s.BlockHeight))
	b = append(b, byte(s.TxIndex>>16), byte(s.TxIndex>>8), byte(s.TxIndex))
	return c20U16(b, s.TxPosition)
}

// feature vector shapes (a RawFeatureVector is a set; its serialisation is
// the shortest bit field containing the highest bit)
const c20NFeat = 4

func c20Features(shape int) (*lnwire.RawFeatureVector, []byte) {
	switch shape {
	case 0:
		return lnwire.NewRawFeatureVector(), []byte{0, 0}
	case 1:
		return lnwire.NewRawFeatureVector(1), []byte{0, 1, 0x02}
	case 2:
		return lnwire.NewRawFeatureVector(8), []byte{0, 2, 0x01, 0x00}
	}
	return lnwire.NewRawFeatureVector(0, 9), []byte{0, 2, 0x02, 0x01}
}

// ---------------------------------------------------------------------------
// channel_announcement
// ---------------------------------------------------------------------------

type c20Ann struct {
	feat   int
	chain  [32]byte
	scid   lnwire.ShortChannelID
	keys   [4][33]byte // node_id_1, node_id_2, bitcoin_key_1, bitcoin_key_2
	extra  []byte
}

func c20SymScid(name string) lnwire.ShortChannelID {
	s := lnwire.ShortChannelID{BlockHeight: vU32(name + ".block"), TxIndex: vU32(name + ".tx"), TxPosition: vU16(name + ".pos")}
	// wire width: block height and tx index are 3-byte fields; Decode cannot
	// produce larger values.
	vAssume(s.BlockHeight < 1<<24 && s.TxIndex < 1<<24)
	return s
}

func c20AnnRef(a *c20Ann) []byte {
	_, f := c20Features(a.feat)
	b := append([]byte{}, f...)
	b = append(b, a.chain[:]...)
	b = c20Scid(b, a.scid)
	for k := 0; k < 4; k++ {
		b = append(b, a.keys[k][:]...)
	}
	return append(b, a.extra...)
}

func c20AnnWire(a *c20Ann) *lnwire.ChannelAnnouncement1 {
	fv, _ := c20Features(a.feat)
	return &lnwire.ChannelAnnouncement1{
		Features:        fv,
		ChainHash:       a.chain,
		ShortChannelID:  a.scid,
		NodeID1:         a.keys[0],
		NodeID2:         a.keys[1],
		BitcoinKey1:     a.keys[2],
		BitcoinKey2:     a.keys[3],
		ExtraOpaqueData: a.extra,
	}
}

func c20AnnSame(a, b *c20Ann) bool {
	return a.feat == b.feat && a.chain == b.chain && a.scid == b.scid &&
		a.keys == b.keys && bytes.Equal(a.extra, b.extra)
}

// c20AnnOther builds the "other" announcement a signer may have signed
// instead: `how` picks the shape relation, all field values are fresh.
func c20AnnOther(a *c20Ann, how int) *c20Ann {
	o := &c20Ann{feat: a.feat}
	copy(o.chain[:], vBytes("o.chain", 32))
	o.scid = c20SymScid("o.scid")
	for k := 0; k < 4; k++ {
		copy(o.keys[k][:], vBytes("o.key", 33))
	}
	switch how {
	case 0: // same shape, any field values
		o.extra = vBytes("o.extra", len(a.extra))
	case 1: // one more byte of extra data
		o.extra = vBytes("o.extra", len(a.extra)+1)
	case 2: // another feature vector, extra data one byte shorter (if any)
		o.feat = (a.feat + 1 + vChoice("o.feat", c20NFeat-1)) % c20NFeat
		n := len(a.extra)
		if n > 0 {
			n--
		}
		o.extra = vBytes("o.extra", n)
	}
	return o
}

// VerifC20ChanAnn: ValidateChannelAnn(a) == nil  <=>  every one of the four
// signatures is authentic for the key it is paired with by BOLT-7
// (node_signature_1 <-> node_id_1, node_signature_2 <-> node_id_2,
// bitcoin_signature_1 <-> bitcoin_key_1, bitcoin_signature_2 <-> bitcoin_key_2).
func VerifC20ChanAnn() {
	c20Ideal()
	a := &c20Ann{feat: vChoice("feat", c20NFeat)}
	copy(a.chain[:], vBytes("chain", 32))
	a.scid = c20SymScid("scid")
	names := [4]string{"node1", "node2", "btc1", "btc2"}
	for k := 0; k < 4; k++ {
		a.keys[k] = c20Key(names[k])
	}
	a.extra = vBytes("extra", C20_EXTRA*vChoice("extra.len", 2))
	o := c20AnnOther(a, vChoice("other", 3))
	// "other" means a different message: it differs in at least one field.
	vAssume(!c20AnnSame(a, o))

	this, other := chainhash.DoubleHashB(c20AnnRef(a)), chainhash.DoubleHashB(c20AnnRef(o))
	var slot [4]c20SigSlot
	for k := 0; k < 4; k++ {
		slot[k] = c20Slot(names[k] + ".sig")
	}
	w := c20AnnWire(a)
	w.NodeSig1 = slot[0].make(this, other)
	w.NodeSig2 = slot[1].make(this, other)
	w.BitcoinSig1 = slot[2].make(this, other)
	w.BitcoinSig2 = slot[3].make(this, other)

	err := ValidateChannelAnn(w, nil)

	want := true
	for k := 0; k < 4; k++ {
		want = want && slot[k].authentic(a.keys[k])
	}
	vObserve("accepted", err == nil)
	if err == nil {
		vReach("accept")
	} else {
		vReach("reject")
	}
	vAssert((err == nil) == want, "channel_announcement accepted iff all four signatures are authentic for their paired keys")
}
