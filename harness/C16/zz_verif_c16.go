package paymentsdb

// Harness for C16: an outgoing payment is never paid twice nor beyond its
// amount; the reported status is truthful.
//
// Unit (real lnd code, executed symbolically): (*MPPayment).Registrable,
// setState, SentAmt, InFlightHTLCs, TerminalInfo, GetAttempt,
// NeedWaitAttempts, AllowMoreAttempts, Terminated, verifyAttempt,
// decidePaymentStatus, computePaymentStatusFromResolutions (SQL side of the
// status), PaymentStatus.initializable/updatable/removable,
// (*route.Route).ReceiverAmt/TotalFees/FinalHop, record.NewMPP/PaymentAddr/
// TotalMsat.
//
// NOT lnd code (harness code, mirrors of the in-memory effect of the store
// operations, listed in spec.json "assumptions"): c16DoRegister, c16DoResolve,
// c16DoFail, c16DoInit, c16DoDeleteFailed, c16DoDelete.
//
// The oracle never reads MPPayment.Status / MPPayment.State and never calls an
// lnd function: it works on the abstract description c16P of the payment
// (amounts, per-attempt state, MPP options, failure reason) from which the
// real structures are built, or - for post-states - on the raw Settle/Failure/
// FailureReason pointers of the real structure.

import (
	"database/sql"
	"errors"

	"github.com/lightningnetwork/lnd/lnwire"
	"github.com/lightningnetwork/lnd/record"
	"github.com/lightningnetwork/lnd/routing/route"
)

// c16MaxMsat is the total bitcoin supply in millisatoshi (21e6 BTC). No
// payment value or HTLC amount can exceed it; it is the stated numeric domain.
const c16MaxMsat = 2_100_000_000_000_000_000

// attempt states (concrete per path)
const (
	c16InFlight = 0
	c16Settled  = 1
	c16Failed   = 2
)

// attempt kinds (concrete per path)
const (
	c16Plain      = 0 // no MPP record, not blinded
	c16MPP        = 1 // MPP record (total, addr)
	c16Blinded    = 2 // blinded final hop with TotalAmtMsat
	c16BlindedMPP = 3 // blinded final hop that also carries an MPP record (malformed)
)

// c16A is the abstract description of one HTLC attempt.
type c16A struct {
	id   uint64
	st   int
	kind int
	amt  uint64 // amount the receiver gets (final hop AmtToForward)
	tot  uint64 // route total amount (amt + fees)
	fwd  uint64 // amount forwarded by the first hop (irrelevant to the property)
	mtot uint64 // MPP total_msat resp. blinded total_amt_msat
	addr [32]byte
}

// c16P is the abstract description of a payment.
type c16P struct {
	value  uint64
	atts   []c16A
	reason bool
	code   uint8
}

var c16Idx = [...]string{"0", "1", "2", "3", "4", "5"}

// c16Table is the table in the doc comment of decidePaymentStatus, transcribed
// row by row; index = inflight<<3 | settled<<2 | htlcFailed<<1 | paymentFailed.
var c16Table = [16]PaymentStatus{
	0b1111: StatusInFlight,
	0b1110: StatusInFlight,
	0b1101: StatusInFlight,
	0b1100: StatusInFlight,
	0b1011: StatusInFlight,
	0b1010: StatusInFlight,
	0b1001: StatusInFlight,
	0b1000: StatusInFlight,
	0b0111: StatusSucceeded,
	0b0110: StatusSucceeded,
	0b0101: StatusSucceeded,
	0b0100: StatusSucceeded,
	0b0011: StatusFailed,
	0b0010: StatusInFlight,
	0b0001: StatusFailed,
	0b0000: StatusInitiated,
}

func c16Row(inflight, settled, failed, payFailed bool) int {
	r := 0
	if inflight {
		r |= 8
	}
	if settled {
		r |= 4
	}
	if failed {
		r |= 2
	}
	if payFailed {
		r |= 1
	}
	return r
}

// c16Flags: the four variables of the table for an abstract payment.
func c16Flags(p c16P) (inflight, settled, failed bool, nInflight int) {
	for _, a := range p.atts {
		switch a.st {
		case c16InFlight:
			inflight = true
			nInflight++
		case c16Settled:
			settled = true
		case c16Failed:
			failed = true
		}
	}
	return
}

func c16Want(p c16P) PaymentStatus {
	inflight, settled, failed, _ := c16Flags(p)
	return c16Table[c16Row(inflight, settled, failed, p.reason)]
}

// c16Sent: amount that may have reached the receiver = settled + in flight.
// Every addition is under an overflow obligation (vOverflow), so the machine
// sum is the mathematical sum.
func c16Sent(p c16P) (sent, fees uint64) {
	for _, a := range p.atts {
		if a.st == c16Failed {
			continue
		}
		sent += a.amt
		fees += a.tot - a.amt
	}
	return
}

// c16RawStatus reads the raw pointers of a real payment (never Status/State)
// and looks the status up in the table; used for post-states.
func c16RawStatus(m *MPPayment) (PaymentStatus, bool) {
	var inflight, settled, failed bool
	for i := range m.HTLCs {
		switch {
		case m.HTLCs[i].Failure != nil:
			failed = true
		case m.HTLCs[i].Settle != nil:
			settled = true
		default:
			inflight = true
		}
	}
	return c16Table[c16Row(inflight, settled, failed, m.FailureReason != nil)], settled
}

// c16RawSent: sum over the raw real structure (post-states), overflow-checked.
func c16RawSent(m *MPPayment) uint64 {
	var sent uint64
	for i := range m.HTLCs {
		if m.HTLCs[i].Failure != nil {
			continue
		}
		hops := m.HTLCs[i].Route.Hops
		sent += uint64(hops[len(hops)-1].AmtToForward)
	}
	return sent
}

func c16Route(a c16A) route.Route {
	last := &route.Hop{
		ChannelID:    2,
		AmtToForward: lnwire.MilliSatoshi(a.amt),
	}
	switch a.kind {
	case c16MPP:
		last.MPP = record.NewMPP(lnwire.MilliSatoshi(a.mtot), a.addr)
	case c16Blinded:
		last.EncryptedData = []byte{1}
		last.TotalAmtMsat = lnwire.MilliSatoshi(a.mtot)
	case c16BlindedMPP:
		last.EncryptedData = []byte{1}
		last.TotalAmtMsat = lnwire.MilliSatoshi(a.mtot)
		last.MPP = record.NewMPP(lnwire.MilliSatoshi(a.mtot), a.addr)
	}
	first := &route.Hop{
		ChannelID:    1,
		AmtToForward: lnwire.MilliSatoshi(a.fwd),
	}
	return route.Route{
		TotalAmount: lnwire.MilliSatoshi(a.tot),
		Hops:        []*route.Hop{first, last},
	}
}

func c16Attempt(a c16A) HTLCAttempt {
	h := HTLCAttempt{
		HTLCAttemptInfo: HTLCAttemptInfo{
			AttemptID: a.id,
			Route:     c16Route(a),
		},
	}
	switch a.st {
	case c16Settled:
		h.Settle = &HTLCSettleInfo{}
	case c16Failed:
		h.Failure = &HTLCFailInfo{}
	}
	return h
}

// c16Build constructs the real payment the way fetchPayment (kv_store.go:875)
// and fetchPaymentWithCompleteData (sql_store.go) do: info, attempts, failure
// reason; Status/State are left for setState.
func c16Build(p c16P) *MPPayment {
	m := &MPPayment{
		SequenceNum: 1,
		Info:        &PaymentCreationInfo{Value: lnwire.MilliSatoshi(p.value)},
	}
	for _, a := range p.atts {
		m.HTLCs = append(m.HTLCs, c16Attempt(a))
	}
	if p.reason {
		r := FailureReason(p.code)
		m.FailureReason = &r
	}
	return m
}

// c16SymAtt draws one attempt. kinds = number of kinds to choose from.
func c16SymAtt(tag string, kinds int, fixKind int) c16A {
	var a c16A
	a.id = vU64("id" + tag)
	a.amt = vU64("amt" + tag)
	a.tot = vU64("tot" + tag)
	a.fwd = vU64("fwd" + tag)
	a.mtot = vU64("mtot" + tag)
	copy(a.addr[:], vBytes("addr"+tag, 32))
	// numeric domain: no amount exceeds the bitcoin supply; a route's total
	// amount includes the receiver amount plus fees (route.Route.TotalAmount
	// doc), the first hop forwards at most the total.
	vAssume(a.amt <= c16MaxMsat && a.tot <= c16MaxMsat && a.mtot <= c16MaxMsat)
	vAssume(a.amt <= a.tot && a.fwd <= a.tot)
	if kinds > 0 {
		a.kind = vChoice("kind"+tag, kinds)
	} else {
		a.kind = fixKind
	}
	return a
}

// c16Pre draws the symbolic pre-state: payment value, 0..maxN attempts each in
// one of the three states (maxN+1 in the deep variant), optional failure reason. anyKind: each attempt is
// plain / MPP / blinded; otherwise every attempt carries an MPP record (the
// kind is irrelevant to every operation except RegisterAttempt).
func c16Pre(maxN int, anyKind bool) c16P {
	var p c16P
	p.value = vU64("value")
	vAssume(p.value <= c16MaxMsat)
	// structural bound: deep=0 explores 0..maxN attempts, deep=1 exactly
	// maxN+1 attempts (thorough tier only; pinned through spec "shards").
	n := maxN + 1
	if vChoice("deep", 2) == 0 {
		n = vChoice("n", maxN+1)
	}
	for i := 0; i < n; i++ {
		var a c16A
		if anyKind {
			a = c16SymAtt(c16Idx[i], 3, 0)
		} else {
			a = c16SymAtt(c16Idx[i], 0, c16MPP)
		}
		a.st = vChoice("st"+c16Idx[i], 3)
		// attempt ids: both stores key attempts by id and return them
		// sorted by id (kv_store.go:985, SQL: ORDER BY attempt_index), so
		// ids are strictly increasing along the slice.
		if i > 0 {
			vAssume(p.atts[i-1].id < a.id)
		}
		p.atts = append(p.atts, a)
	}
	p.reason = vChoice("reason", 2) == 1
	if p.reason {
		p.code = vU8("reasonCode")
	}
	return p
}

func c16Config() {
	vOverflow("(*github.com/lightningnetwork/lnd/payments/db.MPPayment).SentAmt")
	vOverflow("(*github.com/lightningnetwork/lnd/payments/db.MPPayment).setState")
	vOverflow("github.com/lightningnetwork/lnd/payments/db.verifyAttempt")
	vOverflow("(*github.com/lightningnetwork/lnd/routing/route.Route).TotalFees")
	vOverflow("(*github.com/lightningnetwork/lnd/routing/route.Route).ReceiverAmt")
	vOverflow("github.com/lightningnetwork/lnd/payments/db.c16Sent")
	vOverflow("github.com/lightningnetwork/lnd/payments/db.c16RawSent")
	vAssumption("numeric domain: payment value, HTLC amounts, route totals, MPP/blinded totals <= 2.1e18 msat (bitcoin supply); receiver amount <= route total amount")
	vAssumption("attempt ids strictly increasing along MPPayment.HTLCs (both stores return attempts sorted by their unique id); a newly registered attempt id is larger than every existing one (ids come from the switch's monotonic sequencer)")
	vAssumption("routes have >= 1 hop (the router never registers an empty route; verifyAttempt dereferences FinalHop())")
	vAssumption("no attempt has both Settle and Failure set (updateHtlcKey / the SQL resolution column admit at most one resolution)")
	vAssumption("store operations are represented by their in-memory effect on MPPayment followed by setState, as fetchPayment does after every write (harness functions c16Do*)")
}

// ---------------------------------------------------------------------------
// Mirrors of the store operations (harness code, NOT lnd code).
// ---------------------------------------------------------------------------

// c16DoRegister mirrors KVStore.RegisterAttempt (kv_store.go:376-409) and
// SQLStore.RegisterAttempt (sql_store.go:1456-1550): fetch (setState already
// done), Registrable, verifyAttempt, store the attempt, fetch again.
func c16DoRegister(m *MPPayment, att *HTLCAttemptInfo) error {
	if err := m.Registrable(); err != nil {
		return err
	}
	if err := verifyAttempt(m, att); err != nil {
		return err
	}
	old := m.HTLCs
	m.HTLCs = append(m.HTLCs, HTLCAttempt{HTLCAttemptInfo: *att})
	if err := m.setState(); err != nil {
		// the re-fetch inside the transaction failed: the write is
		// rolled back (kvdb.Batch / ExecTx return the error)
		m.HTLCs = old
		return err
	}

	return nil
}

var errC16NoAttempt = errors.New("HTLC not registered")

// c16DoResolve mirrors KVStore.updateHtlcKey (kv_store.go:467-510) used by
// SettleAttempt/FailAttempt: updatable(), attempt exists, not yet resolved,
// record the resolution, fetch again.
func c16DoResolve(m *MPPayment, id uint64, settle bool) error {
	if err := m.Status.updatable(); err != nil {
		return err
	}
	a, err := m.GetAttempt(id)
	if err != nil {
		return errC16NoAttempt
	}
	if a.Failure != nil {
		return ErrAttemptAlreadyFailed
	}
	if a.Settle != nil {
		return ErrAttemptAlreadySettled
	}
	for i := range m.HTLCs {
		if m.HTLCs[i].AttemptID != id {
			continue
		}
		if settle {
			m.HTLCs[i].Settle = &HTLCSettleInfo{}
		} else {
			m.HTLCs[i].Failure = &HTLCFailInfo{}
		}
	}

	return m.setState()
}

// c16DoFail mirrors KVStore.Fail (kv_store.go:557-568) / SQLStore.Fail: the
// reason is recorded for any known payment, without a status gate.
func c16DoFail(m *MPPayment, reason FailureReason) error {
	m.FailureReason = &reason

	return m.setState()
}

// c16DoInit mirrors KVStore.InitPayment (kv_store.go:214-277) for an existing
// payment: initializable(), then new creation info, attempts and failure
// reason deleted.
func c16DoInit(m *MPPayment, value lnwire.MilliSatoshi) error {
	if err := m.Status.initializable(); err != nil {
		return err
	}
	m.Info = &PaymentCreationInfo{Value: value}
	m.HTLCs = nil
	m.FailureReason = nil

	return m.setState()
}

// c16DoDeleteFailed mirrors KVStore.DeletePayment(failedHtlcsOnly=true)
// (kv_store.go:1289-1340): removable(), then failed attempts are deleted.
func c16DoDeleteFailed(m *MPPayment) error {
	if err := m.Status.removable(); err != nil {
		return err
	}
	var keep []HTLCAttempt
	for i := range m.HTLCs {
		if m.HTLCs[i].Failure == nil {
			keep = append(keep, m.HTLCs[i])
		}
	}
	m.HTLCs = keep

	return m.setState()
}

// c16DoDelete mirrors the gate of KVStore.DeletePayment(failedHtlcsOnly=false).
func c16DoDelete(m *MPPayment) error {
	return m.Status.removable()
}

// ---------------------------------------------------------------------------
// Entry 1: status truthfulness (obligations 2 and 4 of DESIGN.md C16).
// ---------------------------------------------------------------------------

func c16ReachStatus(s PaymentStatus) {
	switch s {
	case StatusInitiated:
		vReach("initiated")
	case StatusInFlight:
		vReach("inflight")
	case StatusSucceeded:
		vReach("succeeded")
	case StatusFailed:
		vReach("failed")
	}
}

// VerifC16Status: for every multiset of up to C16_STATUS_N attempts
// (in flight / settled / failed, any amounts) and failure reason present or
// not: decidePaymentStatus, setState and the SQL status helper report exactly
// the documented table; the derived state is the arithmetic truth; the
// status predicates and the lifecycle decisions follow from it.
func VerifC16Status() {
	c16Config()
	p := c16Pre(C16_STATUS_N, false)
	m := c16Build(p)
	want := c16Want(p)
	inflight, settled, failed, nInflight := c16Flags(p)
	_ = failed
	sent, fees := c16Sent(p)

	// (2) decidePaymentStatus == documented table.
	st, err := decidePaymentStatus(m.HTLCs, m.FailureReason)
	vAssert(err == nil, "decidePaymentStatus: no error for any attempt multiset")
	vAssert(st == want, "decidePaymentStatus equals the documented truth table")
	vAssert(!(settled && st == StatusFailed), "a payment with a settled attempt is never reported Failed")
	vObserve("status", int(st))

	// SQL backend computes the status of SettleAttempt/FailAttempt/Init/
	// Delete from the resolution column through this helper.
	res := make([]sql.NullInt32, len(p.atts))
	for i, a := range p.atts {
		switch a.st {
		case c16Settled:
			res[i] = sql.NullInt32{Int32: int32(HTLCAttemptResolutionSettled), Valid: true}
		case c16Failed:
			res[i] = sql.NullInt32{Int32: int32(HTLCAttemptResolutionFailed), Valid: true}
		}
	}
	stSQL, err := computePaymentStatusFromResolutions(res, sql.NullInt32{Int32: int32(p.code), Valid: p.reason})
	vAssert(err == nil && stSQL == want, "SQL computePaymentStatusFromResolutions equals the documented truth table")

	// (4) setState: rejects sent > value, otherwise state is the truth.
	err = m.setState()
	if sent > p.value {
		vReach("sent-exceeds-total")
		vAssert(errors.Is(err, ErrSentExceedsTotal), "setState rejects sent > value with ErrSentExceedsTotal")
		return
	}
	vAssert(err == nil, "setState accepts sent <= value")
	if err != nil {
		return
	}
	vAssert(m.Status == want, "MPPayment.Status equals the documented truth table")
	vAssert(m.State != nil, "state attached")
	vAssert(uint64(m.State.RemainingAmt) == p.value-sent, "RemainingAmt = value - (settled + in flight)")
	vAssert(uint64(m.State.FeesPaid) == fees, "FeesPaid = fees of settled and in-flight attempts")
	vAssert(m.State.NumAttemptsInFlight == nInflight, "NumAttemptsInFlight counts unresolved attempts")
	vAssert(m.State.HasSettledHTLC == settled, "HasSettledHTLC iff some attempt is settled")
	vAssert(m.State.PaymentFailed == (p.reason && !settled), "PaymentFailed iff failure reason recorded and nothing settled")
	c16ReachStatus(m.Status)

	// TerminalInfo: a settled attempt wins over the failure reason.
	h, fr := m.TerminalInfo()
	vAssert((h != nil) == settled, "TerminalInfo returns a settle iff an attempt is settled")
	if h != nil {
		vAssert(h.Settle != nil && fr == nil, "TerminalInfo: the attempt returned is settled and no failure accompanies it")
	} else {
		vAssert((fr != nil) == p.reason, "TerminalInfo returns the failure reason iff recorded")
		if fr != nil {
			vAssert(uint8(*fr) == p.code, "TerminalInfo returns the recorded failure reason")
		}
	}

	// Status predicates (payment_status.go), documented function of status.
	vAssert((m.Status.updatable() == nil) == (want == StatusInitiated || want == StatusInFlight), "updatable iff Initiated or InFlight")
	vAssert((m.Status.initializable() == nil) == (want == StatusFailed), "initializable iff Failed")
	vAssert((m.Status.removable() == nil) == (want != StatusInFlight), "removable iff not InFlight")
	vAssert(m.Terminated() == (want == StatusSucceeded || want == StatusFailed), "Terminated iff Succeeded or Failed")
	if want == StatusSucceeded {
		vAssert(errors.Is(m.Status.initializable(), ErrAlreadyPaid), "re-initiating a succeeded payment is refused with ErrAlreadyPaid")
		vAssert(errors.Is(m.Status.updatable(), ErrPaymentAlreadySucceeded), "updating a succeeded payment is refused with ErrPaymentAlreadySucceeded")
	}

	// Lifecycle decisions derived from the state (payment.go:508, :621).
	allow, aerr := m.AllowMoreAttempts()
	if allow {
		vReach("allow-more")
		vAssert(aerr == nil && sent < p.value && !settled && !p.reason, "AllowMoreAttempts only with remaining amount, nothing settled, no failure reason")
	}
	wait, werr := m.NeedWaitAttempts()
	if p.value > 0 {
		// A zero-value payment is refused before it reaches the store
		// (lnrpc/routerrpc/router_backend.go:1055, :1182 "amount must be
		// specified"); with value 0 the remaining amount carries no
		// information.
		if werr != nil {
			vReach("wait-error")
			vAssert(want == StatusSucceeded && sent < p.value, "NeedWaitAttempts errors only for a succeeded payment that was under-paid")
		}
		if wait {
			vReach("wait")
			vAssert(inflight, "NeedWaitAttempts asks to wait only while an attempt is in flight")
		}
		if inflight && (settled || p.reason || sent == p.value) {
			vAssert(wait && werr == nil, "NeedWaitAttempts waits for in-flight attempts when no more can be sent")
		}
	}
}

// ---------------------------------------------------------------------------
// Entry 2: RegisterAttempt (obligation 1) - never beyond the amount, never
// after a settle or a payment-level failure, MPP options consistent.
// ---------------------------------------------------------------------------

func c16IsBlinded(k int) bool { return k == c16Blinded || k == c16BlindedMPP }
func c16HasMPP(k int) bool    { return k == c16MPP || k == c16BlindedMPP }

// c16Compatible: what the property calls "MPP/blinded options consistent"
// between a new attempt and one attempt still in flight.
func c16Compatible(n, h c16A) bool {
	if c16IsBlinded(n.kind) != c16IsBlinded(h.kind) {
		return false
	}
	if c16IsBlinded(n.kind) {
		return !c16HasMPP(n.kind) && !c16HasMPP(h.kind) && n.mtot == h.mtot
	}
	if c16HasMPP(n.kind) != c16HasMPP(h.kind) {
		return false
	}
	if !c16HasMPP(n.kind) {
		return true
	}
	return n.addr == h.addr && n.mtot == h.mtot
}

func c16RegisterBody(maxN int) {
	c16Config()
	p := c16Pre(maxN, true)
	sent, _ := c16Sent(p)
	// pre-state invariant: every payment handed to Registrable/verifyAttempt
	// comes out of fetchPayment, i.e. passed setState (sent <= value).
	vAssume(sent <= p.value)
	m := c16Build(p)
	err := m.setState()
	vAssert(err == nil, "fetch: setState accepts a payment with sent <= value")
	if err != nil {
		return
	}

	n := c16SymAtt("N", 4, 0)
	if len(p.atts) > 0 {
		vAssume(p.atts[len(p.atts)-1].id < n.id)
	}
	att := c16Attempt(n).HTLCAttemptInfo

	want := c16Want(p)
	_, settled, _, _ := c16Flags(p)

	err = c16DoRegister(m, &att)
	vObserve("admitted", err == nil)
	if err != nil {
		switch {
		case errors.Is(err, ErrValueExceedsAmt):
			vReach("refuse-exceeds")
		case errors.Is(err, ErrPaymentPendingSettled):
			vReach("refuse-settled")
		case errors.Is(err, ErrPaymentPendingFailed):
			vReach("refuse-failed-reason")
		case errors.Is(err, ErrPaymentAlreadySucceeded):
			vReach("refuse-succeeded")
		case errors.Is(err, ErrPaymentAlreadyFailed):
			vReach("refuse-failed")
		case errors.Is(err, ErrValueMismatch):
			vReach("refuse-value-mismatch")
		case errors.Is(err, ErrMPPayment), errors.Is(err, ErrNonMPPayment):
			vReach("refuse-mpp-mix")
		case errors.Is(err, ErrMPPPaymentAddrMismatch):
			vReach("refuse-addr-mismatch")
		case errors.Is(err, ErrMPPTotalAmountMismatch):
			vReach("refuse-total-mismatch")
		case errors.Is(err, ErrMixedBlindedAndNonBlindedPayments):
			vReach("refuse-blinded-mix")
		case errors.Is(err, ErrBlindedPaymentTotalAmountMismatch):
			vReach("refuse-blinded-total-mismatch")
		case errors.Is(err, ErrBlindedPaymentMissingTotalAmount):
			vReach("refuse-blinded-no-total")
		case errors.Is(err, ErrMPPRecordInBlindedPayment):
			vReach("refuse-mpp-in-blinded")
		case errors.Is(err, ErrSentExceedsTotal):
			// verifyAttempt let it through and only the re-fetch's
			// setState noticed (the transaction is rolled back then,
			// but the guard the property names is verifyAttempt)
			vAssert(false, "verifyAttempt admitted an attempt that makes sent exceed the payment value (only the re-fetch noticed)")
		default:
			vAssert(false, "unexpected error class from RegisterAttempt")
		}
		return
	}

	// ---- admitted ----
	switch n.kind {
	case c16Plain:
		vReach("admit-plain")
	case c16MPP:
		vReach("admit-mpp")
	case c16Blinded:
		vReach("admit-blinded")
	}
	// (1) never beyond the amount, in the integers: c16Sent and the addition
	// below carry overflow obligations / are bounded by 2*c16MaxMsat < 2^64.
	vAssert(sent+n.amt <= p.value, "admitted attempt keeps settled + in-flight + new amount within the payment value")
	vAssert(!settled, "no attempt is admitted once an attempt has settled")
	vAssert(!p.reason, "no attempt is admitted once the payment has a failure reason")
	vAssert(want == StatusInitiated || want == StatusInFlight, "attempts are admitted only while Initiated or InFlight")
	vAssert(n.kind != c16BlindedMPP, "a blinded attempt carrying an MPP record is never admitted")
	if n.kind == c16Blinded {
		vAssert(n.mtot != 0, "a blinded attempt without total amount is never admitted")
	}
	if n.kind == c16Plain {
		vAssert(n.amt == p.value, "a non-MPP attempt must carry the full payment value")
	}
	for _, h := range p.atts {
		if h.st != c16InFlight {
			continue
		}
		vAssert(c16Compatible(n, h), "admitted attempt's MPP/blinded options agree with every in-flight attempt")
	}
	// (4) the step preserves the invariant and the status is truthful.
	raw, _ := c16RawStatus(m)
	vAssert(raw == StatusInFlight && m.Status == StatusInFlight, "after an admitted attempt the payment is InFlight")
	vAssert(c16RawSent(m) == sent+n.amt, "the stored attempts account for exactly the admitted amount")
	vAssert(uint64(m.State.RemainingAmt) == p.value-sent-n.amt, "RemainingAmt after registration = value - sent - new amount")
	vAssert(len(m.HTLCs) == len(p.atts)+1, "exactly one attempt was added")
}

// VerifC16Register: N <= C16_REG_N existing attempts of any kind/state.
func VerifC16Register() { c16RegisterBody(C16_REG_N) }

// ---------------------------------------------------------------------------
// Entry 3: one step of any operation (obligations 3 and 4): succeeded is
// final, failed changes only through re-initiation, re-initiation only from
// failed, no attempt is resolved twice, the invariant is preserved.
// ---------------------------------------------------------------------------

const (
	c16EvRegister = iota
	c16EvSettle
	c16EvFailAttempt
	c16EvFail
	c16EvInit
	c16EvDeleteFailed
	c16EvDelete
	c16NumEv
)

func VerifC16Step() {
	c16Config()
	p := c16Pre(C16_STEP_N, false)
	sent, _ := c16Sent(p)
	vAssume(sent <= p.value) // pre-state passed setState (see Register)
	m := c16Build(p)
	err := m.setState()
	vAssert(err == nil, "fetch: setState accepts a payment with sent <= value")
	if err != nil {
		return
	}
	pre := c16Want(p)
	_, preSettled, _, _ := c16Flags(p)
	preLen := len(m.HTLCs)

	ev := vChoice("ev", c16NumEv)
	admitted := false
	switch ev {
	case c16EvRegister:
		n := c16SymAtt("N", 0, c16MPP)
		if len(p.atts) > 0 {
			vAssume(p.atts[len(p.atts)-1].id < n.id)
		}
		att := c16Attempt(n).HTLCAttemptInfo
		err = c16DoRegister(m, &att)
		admitted = err == nil
		if admitted {
			vReach("register")
			vAssert(sent+n.amt <= p.value && !preSettled && !p.reason, "register admitted only within the amount, nothing settled, no failure reason")
		}

	case c16EvSettle, c16EvFailAttempt:
		id := vU64("evID")
		// which attempt (if any) does the id name - decided on the abstract
		// description, independent of GetAttempt
		known, wasInFlight := false, false
		for _, a := range p.atts {
			if a.id == id {
				known = true
				wasInFlight = a.st == c16InFlight
			}
		}
		err = c16DoResolve(m, id, ev == c16EvSettle)
		admitted = err == nil
		if admitted {
			if ev == c16EvSettle {
				vReach("settle")
			} else {
				vReach("fail-attempt")
			}
			vAssert(known && wasInFlight, "only a registered, unresolved attempt can be settled or failed (no double settle)")
			vAssert(pre == StatusInFlight, "attempt outcomes are recorded only while the payment is InFlight")
			a, gerr := m.GetAttempt(id)
			vAssert(gerr == nil && a != nil, "the resolved attempt is still on the payment")
			if a != nil {
				vAssert((a.Settle != nil) == (ev == c16EvSettle) && (a.Failure != nil) == (ev == c16EvFailAttempt), "exactly the requested resolution was recorded on the named attempt")
			}
		} else if !known {
			vReach("unknown-attempt")
		} else if !wasInFlight {
			vReach("already-resolved")
		}

	case c16EvFail:
		err = c16DoFail(m, FailureReason(vU8("evReason")))
		admitted = err == nil
		vAssert(admitted, "recording a payment-level failure keeps the record loadable")
		vReach("fail-payment")

	case c16EvInit:
		nv := vU64("evValue")
		vAssume(nv <= c16MaxMsat)
		err = c16DoInit(m, lnwire.MilliSatoshi(nv))
		admitted = err == nil
		if admitted {
			vReach("reinit")
			vAssert(pre == StatusFailed, "re-initiation is admitted only for a failed payment")
		} else {
			switch pre {
			case StatusInitiated:
				vAssert(errors.Is(err, ErrPaymentExists), "initiated payment: re-initiation refused with ErrPaymentExists")
			case StatusInFlight:
				vAssert(errors.Is(err, ErrPaymentInFlight), "in-flight payment: re-initiation refused with ErrPaymentInFlight")
			case StatusSucceeded:
				vAssert(errors.Is(err, ErrAlreadyPaid), "succeeded payment: re-initiation refused with ErrAlreadyPaid")
			}
		}

	case c16EvDeleteFailed:
		err = c16DoDeleteFailed(m)
		admitted = err == nil
		if admitted {
			vReach("delete-failed-attempts")
			vAssert(pre != StatusInFlight, "failed attempts are deleted only when the payment is not InFlight")
		}

	case c16EvDelete:
		err = c16DoDelete(m)
		admitted = err == nil
		if admitted {
			vReach("delete")
			vAssert(pre != StatusInFlight, "a payment is deleted only when it is not InFlight")
		} else {
			vAssert(pre == StatusInFlight, "deleting a payment that is not InFlight is allowed")
		}
	}
	vObserve("admitted", admitted)

	if !admitted {
		// a refused operation leaves the stored payment untouched
		vAssert(len(m.HTLCs) == preLen, "a refused operation does not add or remove attempts")
		raw, _ := c16RawStatus(m)
		vAssert(raw == pre && m.Status == pre, "a refused operation does not change the status")
		return
	}

	// ---- post-state (the operation was applied and re-fetched) ----
	post, postSettled := c16RawStatus(m)
	vObserve("post", int(post))
	vAssert(m.Status == post, "reported status after the step equals the documented table")
	vAssert(!(postSettled && m.Status == StatusFailed), "a payment with a settled attempt is never reported Failed")
	// (3)
	if pre == StatusSucceeded {
		vReach("from-succeeded")
		vAssert(post == StatusSucceeded, "a succeeded payment never changes status")
	}
	if pre == StatusFailed && ev != c16EvInit {
		vReach("from-failed")
		vAssert(post == StatusFailed, "a failed payment changes status only through re-initiation")
	}
	if ev == c16EvInit {
		vAssert(post == StatusInitiated && len(m.HTLCs) == 0 && m.FailureReason == nil, "re-initiation starts from a clean Initiated payment")
	}
	// (4) invariant preserved: sent' <= value'
	vAssert(c16RawSent(m) <= uint64(m.Info.Value), "the step keeps settled + in-flight amounts within the payment value")
	vAssert(uint64(m.State.RemainingAmt) == uint64(m.Info.Value)-c16RawSent(m), "RemainingAmt is the truth after the step")
}
