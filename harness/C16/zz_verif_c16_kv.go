package paymentsdb

// C16, third unit: the REAL KVStore methods (NewKVStore/initKVStore,
// InitPayment, RegisterAttempt, SettleAttempt, FailAttempt, updateHtlcKey,
// Fail, DeletePayment, DeleteFailedAttempts, FetchPayment,
// FetchInFlightPayments, nextPaymentSequence, createPaymentIndexEntry,
// fetchPayment, fetchHtlcAttempts, fetchFailedHtlcKeys, fetchPaymentStatus and
// the whole codec below them: serialize/deserializePaymentCreationInfo,
// serialize/deserializeHTLCAttemptInfo, SerializeRoute/DeserializeRoute,
// serializeHop/deserializeHop incl. the MPP TLV record, the settle/fail info
// codecs, channeldb.ReadElement/WriteElement) executed symbolically on top of
// an in-memory fake of the kvdb backend (walletdb.DB, which lnd already has).
//
// The fake (c16kvDB) is harness code. It implements exactly what kv_store.go
// uses: Update / View / Batch, top-level and nested buckets, Get / Put /
// Delete / ForEach (in key order, as bbolt iterates), DeleteNestedBucket,
// CreateBucketIfNotExists, Sequence / SetSequence. Every other method of the
// walletdb interfaces is inherited from a nil embedded interface, i.e. calling
// it is a nil-dereference panic (= an obligation that fails). Write
// transactions are atomic BY ASSUMPTION: a transaction whose closure returns
// an error, or whose commit fails on a symbolic flag, leaves the store exactly
// as it was.
//
// Method: the pre-state is produced by the real API itself (InitPayment, then
// for every attempt RegisterAttempt and - according to the state chosen for it
// - FailAttempt straight away or SettleAttempt after all registrations, then
// optionally Fail), with symbolic payment value and attempt amounts. Every
// store state with sent <= value is the result of such a history (failing a
// failed attempt as early as possible only weakens the prefix constraints).
// Then ONE more operation with symbolic arguments is executed and judged.
//
// The oracle works on the abstract description c16P of the history, on the
// raw keys of the fake store (c16kvRaw: which of ai|si|fi<id> exist - no lnd
// code) and on the raw Settle / Failure / FailureReason pointers and route
// amounts of the payment the real FetchPayment returns; it never reads
// MPPayment.Status / State except to compare them with the table.

import (
	"bytes"
	"context"
	"encoding/binary"
	"errors"

	"github.com/btcsuite/btcwallet/walletdb"
	"github.com/lightningnetwork/lnd/kvdb"
	"github.com/lightningnetwork/lnd/lntypes"
	"github.com/lightningnetwork/lnd/lnwire"
	"github.com/lightningnetwork/lnd/record"
	"github.com/lightningnetwork/lnd/routing/route"
)

// ---------------------------------------------------------------------------
// fake kvdb backend
// ---------------------------------------------------------------------------

var errC16KVCommit = errors.New("c16 fake kvdb: injected commit failure")

// c16kvNode is one bucket: key/value pairs and nested buckets, each list kept
// in byte order of the keys. Byte slices are never modified in place.
type c16kvNode struct {
	keys, vals [][]byte
	subKeys    [][]byte
	subs       []*c16kvNode
	seq        uint64
}

func c16kvCopy(b []byte) []byte {
	c := make([]byte, len(b))
	copy(c, b)
	return c
}

func (n *c16kvNode) clone() *c16kvNode {
	c := &c16kvNode{seq: n.seq}
	c.keys = append([][]byte(nil), n.keys...)
	c.vals = append([][]byte(nil), n.vals...)
	c.subKeys = append([][]byte(nil), n.subKeys...)
	for _, s := range n.subs {
		c.subs = append(c.subs, s.clone())
	}
	return c
}

// c16kvLess: lexicographic byte order. Leading len%8 bytes one by one, the
// rest in big-endian 8-byte words (same order, one comparison per word; the
// attempt keys are a 2-byte prefix followed by the 8-byte big-endian id).
func c16kvLess(a, b []byte) bool {
	n := len(a)
	if len(b) < n {
		n = len(b)
	}
	i := 0
	for ; i < n%8; i++ {
		if a[i] != b[i] {
			return a[i] < b[i]
		}
	}
	for ; i+8 <= n; i += 8 {
		x, y := binary.BigEndian.Uint64(a[i:i+8]), binary.BigEndian.Uint64(b[i:i+8])
		if x != y {
			return x < y
		}
	}
	return len(a) < len(b)
}

func c16kvIndex(keys [][]byte, k []byte) int {
	for i := range keys {
		if bytes.Equal(keys[i], k) {
			return i
		}
	}
	return -1
}

// c16kvPos: position at which k has to be inserted to keep keys ordered.
func c16kvPos(keys [][]byte, k []byte) int {
	pos := 0
	for pos < len(keys) && c16kvLess(keys[pos], k) {
		pos++
	}
	return pos
}

func c16kvInsert(list [][]byte, pos int, v []byte) [][]byte {
	out := make([][]byte, 0, len(list)+1)
	out = append(out, list[:pos]...)
	out = append(out, v)
	out = append(out, list[pos:]...)
	return out
}

func c16kvRemove(list [][]byte, pos int) [][]byte {
	out := make([][]byte, 0, len(list))
	out = append(out, list[:pos]...)
	out = append(out, list[pos+1:]...)
	return out
}

type c16kvDB struct {
	kvdb.Backend // nil: every method not defined below panics

	top *c16kvNode // top-level buckets are the nested buckets of this node

	// failable: write transactions draw a symbolic commit-failure flag
	// (switched on for the operation under judgement only). injected
	// records that one of them fired.
	failable bool
	injected bool
	writeTxs int
}

type c16kvTx struct {
	kvdb.RwTx // nil: every method not defined below panics

	db *c16kvDB
	rw bool
}

type c16kvB struct {
	kvdb.RwBucket // nil: every method not defined below panics

	n  *c16kvNode
	tx *c16kvTx
}

func (d *c16kvDB) View(f func(tx walletdb.ReadTx) error, reset func()) error {
	reset()
	return f(&c16kvTx{db: d})
}

// write runs one atomic read-write transaction.
func (d *c16kvDB) write(f func(tx walletdb.ReadWriteTx) error) error {
	d.writeTxs++
	snap := d.top.clone()
	err := f(&c16kvTx{db: d, rw: true})
	if err == nil && d.failable && vBool("kvCommitFails") {
		d.injected = true
		err = errC16KVCommit
	}
	if err != nil {
		d.top = snap // rollback
		return err
	}
	return nil
}

func (d *c16kvDB) Update(f func(tx walletdb.ReadWriteTx) error, reset func()) error {
	reset()
	return d.write(f)
}

// Batch: bbolt's Batch is Update for a single caller (walletdb.BatchDB).
func (d *c16kvDB) Batch(f func(tx walletdb.ReadWriteTx) error) error {
	return d.write(f)
}

func (t *c16kvTx) top(key []byte) *c16kvB {
	if i := c16kvIndex(t.db.top.subKeys, key); i >= 0 {
		return &c16kvB{n: t.db.top.subs[i], tx: t}
	}
	return nil
}

func (t *c16kvTx) ReadBucket(key []byte) walletdb.ReadBucket {
	if b := t.top(key); b != nil {
		return b
	}
	return nil
}

func (t *c16kvTx) ReadWriteBucket(key []byte) walletdb.ReadWriteBucket {
	if b := t.top(key); b != nil {
		return b
	}
	return nil
}

func (t *c16kvTx) CreateTopLevelBucket(key []byte) (walletdb.ReadWriteBucket, error) {
	root := &c16kvB{n: t.db.top, tx: t}
	return root.CreateBucketIfNotExists(key)
}

func (b *c16kvB) Get(key []byte) []byte {
	if i := c16kvIndex(b.n.keys, key); i >= 0 {
		return b.n.vals[i]
	}
	return nil // unknown key, or the key of a nested bucket
}

func (b *c16kvB) Put(key, value []byte) error {
	if !b.tx.rw {
		return walletdb.ErrTxNotWritable
	}
	if len(key) == 0 {
		return walletdb.ErrKeyRequired
	}
	if c16kvIndex(b.n.subKeys, key) >= 0 {
		return walletdb.ErrIncompatibleValue
	}
	v := c16kvCopy(value)
	if i := c16kvIndex(b.n.keys, key); i >= 0 {
		vals := append([][]byte(nil), b.n.vals...)
		vals[i] = v
		b.n.vals = vals
		return nil
	}
	pos := c16kvPos(b.n.keys, key)
	b.n.keys = c16kvInsert(b.n.keys, pos, c16kvCopy(key))
	b.n.vals = c16kvInsert(b.n.vals, pos, v)
	return nil
}

func (b *c16kvB) Delete(key []byte) error {
	if !b.tx.rw {
		return walletdb.ErrTxNotWritable
	}
	if c16kvIndex(b.n.subKeys, key) >= 0 {
		return walletdb.ErrIncompatibleValue
	}
	i := c16kvIndex(b.n.keys, key)
	if i < 0 {
		return nil
	}
	b.n.keys = c16kvRemove(b.n.keys, i)
	b.n.vals = c16kvRemove(b.n.vals, i)
	return nil
}

// ForEach: keys and nested buckets (value nil) merged in key order.
func (b *c16kvB) ForEach(f func(k, v []byte) error) error {
	keys, vals, subKeys := b.n.keys, b.n.vals, b.n.subKeys
	i, j := 0, 0
	for i < len(keys) || j < len(subKeys) {
		if j >= len(subKeys) || (i < len(keys) && c16kvLess(keys[i], subKeys[j])) {
			if err := f(keys[i], vals[i]); err != nil {
				return err
			}
			i++
			continue
		}
		if err := f(subKeys[j], nil); err != nil {
			return err
		}
		j++
	}
	return nil
}

func (b *c16kvB) nested(key []byte) *c16kvB {
	if i := c16kvIndex(b.n.subKeys, key); i >= 0 {
		return &c16kvB{n: b.n.subs[i], tx: b.tx}
	}
	return nil
}

func (b *c16kvB) NestedReadBucket(key []byte) walletdb.ReadBucket {
	if s := b.nested(key); s != nil {
		return s
	}
	return nil
}

func (b *c16kvB) NestedReadWriteBucket(key []byte) walletdb.ReadWriteBucket {
	if s := b.nested(key); s != nil {
		return s
	}
	return nil
}

func (b *c16kvB) CreateBucketIfNotExists(key []byte) (walletdb.ReadWriteBucket, error) {
	if !b.tx.rw {
		return nil, walletdb.ErrTxNotWritable
	}
	if len(key) == 0 {
		return nil, walletdb.ErrBucketNameRequired
	}
	if s := b.nested(key); s != nil {
		return s, nil
	}
	if c16kvIndex(b.n.keys, key) >= 0 {
		return nil, walletdb.ErrIncompatibleValue
	}
	pos := c16kvPos(b.n.subKeys, key)
	s := &c16kvNode{}
	b.n.subKeys = c16kvInsert(b.n.subKeys, pos, c16kvCopy(key))
	subs := make([]*c16kvNode, 0, len(b.n.subs)+1)
	subs = append(subs, b.n.subs[:pos]...)
	subs = append(subs, s)
	subs = append(subs, b.n.subs[pos:]...)
	b.n.subs = subs
	return &c16kvB{n: s, tx: b.tx}, nil
}

func (b *c16kvB) DeleteNestedBucket(key []byte) error {
	if !b.tx.rw {
		return walletdb.ErrTxNotWritable
	}
	i := c16kvIndex(b.n.subKeys, key)
	if i < 0 {
		return walletdb.ErrBucketNotFound
	}
	b.n.subKeys = c16kvRemove(b.n.subKeys, i)
	subs := make([]*c16kvNode, 0, len(b.n.subs))
	subs = append(subs, b.n.subs[:i]...)
	subs = append(subs, b.n.subs[i+1:]...)
	b.n.subs = subs
	return nil
}

func (b *c16kvB) Sequence() uint64 { return b.n.seq }

func (b *c16kvB) SetSequence(v uint64) error {
	if !b.tx.rw {
		return walletdb.ErrTxNotWritable
	}
	b.n.seq = v
	return nil
}

// c16kvSame: two bucket trees hold the same keys, values and nested buckets.
func c16kvSame(a, b *c16kvNode) bool {
	if (a == nil) != (b == nil) {
		return false
	}
	if a == nil {
		return true
	}
	if len(a.keys) != len(b.keys) || len(a.subs) != len(b.subs) {
		return false
	}
	for i := range a.keys {
		if !bytes.Equal(a.keys[i], b.keys[i]) || !bytes.Equal(a.vals[i], b.vals[i]) {
			return false
		}
	}
	for i := range a.subs {
		if !bytes.Equal(a.subKeys[i], b.subKeys[i]) || !c16kvSame(a.subs[i], b.subs[i]) {
			return false
		}
	}
	return true
}

func (n *c16kvNode) sub(key []byte) *c16kvNode {
	if n == nil {
		return nil
	}
	if i := c16kvIndex(n.subKeys, key); i >= 0 {
		return n.subs[i]
	}
	return nil
}

// ---------------------------------------------------------------------------
// raw view of the store (harness code reading the fake; no lnd code)
// ---------------------------------------------------------------------------

type c16kvRawAtt struct {
	id                       uint64
	hasInfo, hasSet, hasFail bool
}

type c16kvRawPay struct {
	exists   bool // the payment bucket exists
	hasInfo  bool // creation info key
	hasSeq   bool // sequence key
	reason   bool // payment-level fail info key
	code     byte
	atts     []c16kvRawAtt
	badKey   bool // a key in the htlcs bucket that is not ai|si|fi + 8 bytes
	indexed  bool // the index bucket has an entry for the payment's sequence number
	nIndexes int  // entries of the index bucket
}

func c16kvRaw(d *c16kvDB, hash lntypes.Hash) c16kvRawPay {
	var r c16kvRawPay
	idx := d.top.sub([]byte("payments-index-bucket"))
	if idx != nil {
		r.nIndexes = len(idx.keys)
	}
	pb := d.top.sub([]byte("payments-root-bucket")).sub(hash[:])
	if pb == nil {
		return r
	}
	r.exists = true
	for i, k := range pb.keys {
		switch string(k) {
		case "payment-creation-info":
			r.hasInfo = true
		case "payment-sequence-key":
			r.hasSeq = true
			if idx != nil && c16kvIndex(idx.keys, pb.vals[i]) >= 0 {
				r.indexed = true
			}
		case "payment-fail-info":
			r.reason = true
			r.code = pb.vals[i][0]
		}
	}
	hb := pb.sub([]byte("payment-htlcs-bucket"))
	if hb == nil {
		return r
	}
	for _, k := range hb.keys {
		if len(k) != 10 {
			r.badKey = true
			continue
		}
		id := binary.BigEndian.Uint64(k[2:])
		at := -1
		for j := range r.atts {
			if r.atts[j].id == id {
				at = j
			}
		}
		if at < 0 {
			r.atts = append(r.atts, c16kvRawAtt{id: id})
			at = len(r.atts) - 1
		}
		switch string(k[:2]) {
		case "ai":
			r.atts[at].hasInfo = true
		case "si":
			r.atts[at].hasSet = true
		case "fi":
			r.atts[at].hasFail = true
		default:
			r.badKey = true
		}
	}
	return r
}

// c16kvRawStatus: the documented table applied to the raw keys.
func c16kvRawStatus(r c16kvRawPay) (PaymentStatus, bool) {
	var inflight, settled, failed bool
	for _, a := range r.atts {
		switch {
		case a.hasFail:
			failed = true
		case a.hasSet:
			settled = true
		default:
			inflight = true
		}
	}
	return c16Table[c16Row(inflight, settled, failed, r.reason)], settled
}

// ---------------------------------------------------------------------------
// payments, attempts
// ---------------------------------------------------------------------------

var (
	c16kvOther    = lntypes.Hash{0xc1, 0x7}
	c16kvAddr     = [32]byte{0xad, 0xd7}
	c16kvVertex   = route.Vertex{2, 0x16}
	c16kvSource   = route.Vertex{3, 0x16}
	c16kvPreimage = lntypes.Preimage{0x16, 0x16}
)

// c16kvMPPTotal: total_msat of every attempt's MPP record. Concrete, because
// the record encodes it as a truncated integer whose length depends on the
// value (symbolic slice lengths are outside the engine). verifyAttempt only
// compares it between attempts, never with the payment value.
const c16kvMPPTotal = 5_000_000

// c16kvInfo: a one-hop MPP attempt with symbolic receiver amount / route total.
func c16kvInfo(a c16A) *HTLCAttemptInfo {
	h := c16Hash
	return &HTLCAttemptInfo{
		AttemptID: a.id,
		Route: route.Route{
			TotalTimeLock: 144,
			TotalAmount:   lnwire.MilliSatoshi(a.tot),
			SourcePubKey:  c16kvSource,
			Hops: []*route.Hop{{
				PubKeyBytes:      c16kvVertex,
				ChannelID:        1,
				OutgoingTimeLock: 100,
				AmtToForward:     lnwire.MilliSatoshi(a.amt),
				MPP:              record.NewMPP(lnwire.MilliSatoshi(a.mtot), a.addr),
			}},
		},
		Hash: &h,
	}
}

func c16kvSymAtt(tag string) c16A {
	a := c16A{kind: c16MPP, mtot: c16kvMPPTotal, addr: c16kvAddr}
	a.amt = vU64("amt" + tag)
	a.tot = vU64("tot" + tag)
	// numeric domain as in c16SymAtt: bitcoin supply; the route total
	// includes the receiver amount.
	vAssume(a.amt <= c16MaxMsat && a.tot <= c16MaxMsat && a.amt <= a.tot)
	return a
}

// c16kvBuild: the payment described by p as an in-memory MPPayment, for the
// mirrors c16Do* (cross-check). Independent of the kv code.
func c16kvBuild(p c16P) *MPPayment {
	m := &MPPayment{
		SequenceNum: 1,
		Info:        &PaymentCreationInfo{PaymentIdentifier: c16Hash, Value: lnwire.MilliSatoshi(p.value)},
	}
	for _, a := range p.atts {
		h := HTLCAttempt{HTLCAttemptInfo: *c16kvInfo(a)}
		switch a.st {
		case c16Settled:
			h.Settle = &HTLCSettleInfo{}
		case c16Failed:
			h.Failure = &HTLCFailInfo{}
		}
		m.HTLCs = append(m.HTLCs, h)
	}
	if p.reason {
		r := FailureReason(p.code)
		m.FailureReason = &r
	}
	return m
}

// c16kvMatches: the payment returned by the real store is exactly the one
// described by q (value, reason, attempts with id / amounts / MPP record /
// resolution), attempts sorted by id.
func c16kvMatches(m *MPPayment, q c16P) bool {
	if m == nil || m.Info == nil || uint64(m.Info.Value) != q.value {
		return false
	}
	if m.Info.PaymentIdentifier != c16Hash {
		return false
	}
	if (m.FailureReason != nil) != q.reason {
		return false
	}
	if q.reason && uint8(*m.FailureReason) != q.code {
		return false
	}
	if len(m.HTLCs) != len(q.atts) {
		return false
	}
	for i := range m.HTLCs {
		if i > 0 && m.HTLCs[i-1].AttemptID >= m.HTLCs[i].AttemptID {
			return false
		}
	}
	for _, a := range q.atts {
		found := false
		for i := range m.HTLCs {
			h := &m.HTLCs[i]
			if h.AttemptID != a.id {
				continue
			}
			found = true
			if len(h.Route.Hops) != 1 {
				return false
			}
			hop := h.Route.Hops[0]
			if uint64(hop.AmtToForward) != a.amt || uint64(h.Route.TotalAmount) != a.tot {
				return false
			}
			if hop.MPP == nil || uint64(hop.MPP.TotalMsat()) != a.mtot || hop.MPP.PaymentAddr() != a.addr {
				return false
			}
			if hop.PubKeyBytes != c16kvVertex || hop.ChannelID != 1 || h.Route.SourcePubKey != c16kvSource {
				return false
			}
			if (h.Settle != nil) != (a.st == c16Settled) || (h.Failure != nil) != (a.st == c16Failed) {
				return false
			}
			if h.Settle != nil && h.Settle.Preimage != c16kvPreimage {
				return false
			}
		}
		if !found {
			return false
		}
	}
	return true
}

// c16kvAgree: the payment returned by FetchPayment and the raw keys of the
// store tell the same story, and no attempt carries two resolutions.
func c16kvAgree(m *MPPayment, r c16kvRawPay) bool {
	if !r.exists || !r.hasInfo || !r.hasSeq || r.badKey {
		return false
	}
	if (m.FailureReason != nil) != r.reason || len(m.HTLCs) != len(r.atts) {
		return false
	}
	for _, a := range r.atts {
		if !a.hasInfo {
			return false
		}
		found := false
		for i := range m.HTLCs {
			if m.HTLCs[i].AttemptID != a.id {
				continue
			}
			found = true
			if (m.HTLCs[i].Settle != nil) != a.hasSet || (m.HTLCs[i].Failure != nil) != a.hasFail {
				return false
			}
		}
		if !found {
			return false
		}
	}
	return true
}

func c16kvNoDoubleResolution(r c16kvRawPay) bool {
	for _, a := range r.atts {
		if a.hasSet && a.hasFail {
			return false
		}
	}
	return true
}

// ---------------------------------------------------------------------------
// pre-state by a real history
// ---------------------------------------------------------------------------

type c16kvWorld struct {
	db *c16kvDB
	s  *KVStore
	p  c16P
}

func c16kvConfig() {
	c16Config()
	vOverflow("github.com/lightningnetwork/lnd/payments/db.c16kvHistory")
	// FetchInFlightPayments measures elapsed time for its progress log only;
	// symbolically time.Since is 0 (no log line), natively it is the real one.
	vNoop("time.Since")
	vAssumption("KV unit: in-memory fake of the kvdb backend (walletdb.DB): Update/View/Batch, nested buckets, Get/Put/Delete/ForEach in key order, DeleteNestedBucket, CreateBucketIfNotExists, Sequence/SetSequence; every other method panics; write transactions are atomic (rollback on error / on a symbolic commit failure); Batch = Update (single caller, no retry)")
	vAssumption("KV unit: pre-state produced by the real API (InitPayment, RegisterAttempt xN, FailAttempt / SettleAttempt, Fail); existing attempt ids any strictly increasing uint64; one-hop MPP routes with concrete keys, MPP total and payment address; symbolic payment value, receiver amounts, route totals, failure reason; id and amounts of the operation under judgement symbolic")
}

// c16kvHistory builds the pre-state through the real KVStore. The history's
// own steps are obligations too: each of them must be admitted.
func c16kvHistory(maxN int) *c16kvWorld {
	db := &c16kvDB{top: &c16kvNode{}}
	s, err := NewKVStore(db)
	vAssert(err == nil && s != nil, "history: the store is created on an empty database")
	if err != nil {
		return nil
	}
	ctx := context.Background()
	w := &c16kvWorld{db: db, s: s}
	w.p.value = vU64("value")
	vAssume(w.p.value <= c16MaxMsat)

	// structural bound: deep=0 explores 0..maxN attempts, deep=1 exactly
	// maxN+1 (thorough tier only; pinned through spec "shards").
	n := maxN + 1
	if vChoice("deep", 2) == 0 {
		n = vChoice("n", maxN+1)
	}

	_, err = s.FetchPayment(ctx, c16Hash)
	vAssert(errors.Is(err, ErrPaymentNotInitiated), "history: an unknown payment hash is reported as ErrPaymentNotInitiated")
	if vChoice("hist", 2) == 1 {
		// An earlier life of the same payment hash: initiated, one attempt
		// registered and failed, payment failed. The payment under judgement
		// is then its re-initiation (new sequence number, old attempts,
		// failure reason and index entry have to be gone).
		old := c16kvSymAtt("Old")
		old.id = vU64("idOld")
		ov := vU64("valueOld")
		vAssume(ov <= c16MaxMsat && old.amt <= ov)
		err = s.InitPayment(ctx, c16Hash, &PaymentCreationInfo{
			PaymentIdentifier: c16Hash, Value: lnwire.MilliSatoshi(ov),
		})
		vAssert(err == nil, "history: initiating an unknown payment hash is admitted")
		if err != nil {
			return nil
		}
		_, err = s.RegisterAttempt(ctx, c16Hash, c16kvInfo(old))
		vAssert(err == nil, "history: an attempt within the remaining amount is admitted while nothing is settled and the payment has no failure reason")
		if err != nil {
			return nil
		}
		_, err = s.FailAttempt(ctx, c16Hash, old.id, &HTLCFailInfo{Reason: HTLCFailUnreadable})
		vAssert(err == nil, "history: failing an in-flight attempt is admitted")
		if err != nil {
			return nil
		}
		_, err = s.Fail(ctx, c16Hash, FailureReasonNoRoute)
		vAssert(err == nil, "history: recording a payment-level failure on a known payment is admitted")
		if err != nil {
			return nil
		}
	}
	err = s.InitPayment(ctx, c16Hash, &PaymentCreationInfo{
		PaymentIdentifier: c16Hash, Value: lnwire.MilliSatoshi(w.p.value),
	})
	vAssert(err == nil, "history: initiating an unknown payment hash / re-initiating a failed payment is admitted")
	if err != nil {
		return nil
	}

	var sent uint64
	for i := 0; i < n; i++ {
		a := c16kvSymAtt(c16Idx[i])
		// attempt ids: any strictly increasing uint64 (the switch's
		// monotonic sequencer hands them out in registration order)
		a.id = vU64("id" + c16Idx[i])
		if i > 0 {
			vAssume(w.p.atts[i-1].id < a.id)
		}
		a.st = vChoice("st"+c16Idx[i], 3)
		// domain: the attempt fits into what is left (everything else about
		// it is in order: nothing settled, no failure reason, same MPP options)
		vAssume(sent+a.amt <= w.p.value)
		_, err = s.RegisterAttempt(ctx, c16Hash, c16kvInfo(a))
		vAssert(err == nil, "history: an attempt within the remaining amount is admitted while nothing is settled and the payment has no failure reason")
		if err != nil {
			return nil
		}
		if a.st == c16Failed {
			_, err = s.FailAttempt(ctx, c16Hash, a.id, &HTLCFailInfo{Reason: HTLCFailUnreadable, FailureSourceIndex: 1})
			vAssert(err == nil, "history: failing an in-flight attempt is admitted")
			if err != nil {
				return nil
			}
		} else {
			sent += a.amt
		}
		w.p.atts = append(w.p.atts, a)
	}
	for _, a := range w.p.atts {
		if a.st != c16Settled {
			continue
		}
		_, err = s.SettleAttempt(ctx, c16Hash, a.id, &HTLCSettleInfo{Preimage: c16kvPreimage})
		vAssert(err == nil, "history: settling an in-flight attempt is admitted")
		if err != nil {
			return nil
		}
	}
	if vChoice("reason", 2) == 1 {
		w.p.reason = true
		w.p.code = vU8("reasonCode")
		_, err = s.Fail(ctx, c16Hash, FailureReason(w.p.code))
		vAssert(err == nil, "history: recording a payment-level failure on a known payment is admitted")
		if err != nil {
			return nil
		}
	}
	return w
}

// ---------------------------------------------------------------------------
// entry: one real KVStore operation from any such pre-state
// ---------------------------------------------------------------------------

const (
	c16kvEvOther = c16NumEv + iota // operations on another (unknown) payment hash
	c16kvNumEv
)

func c16kvStep(maxN int) {
	c16kvConfig()
	w := c16kvHistory(maxN)
	if w == nil {
		return
	}
	p, s, db := w.p, w.s, w.db
	ctx := context.Background()
	sent, _ := c16Sent(p)
	pre := c16Want(p)
	preInFlight, preSettled, _, _ := c16Flags(p)

	// The pre-state as the real store reports it: exactly the history.
	m0, err := s.FetchPayment(ctx, c16Hash)
	vAssert(err == nil && m0 != nil, "KV: the payment is loadable after the history")
	if err != nil || m0 == nil {
		return
	}
	vAssert(c16kvMatches(m0, p), "KV: FetchPayment reports exactly the attempts, amounts, resolutions and failure reason of the history")
	vAssert(m0.Status == pre, "KV: reported status of the pre-state equals the documented table")
	raw0 := c16kvRaw(db, c16Hash)
	vAssert(c16kvAgree(m0, raw0) && c16kvNoDoubleResolution(raw0) && raw0.indexed && raw0.nIndexes == 1, "KV: stored keys of the pre-state agree with the reported payment; exactly one sequence index entry")

	// the same pre-state for the mirrors of VerifC16Step (cross-check)
	mk := c16kvBuild(p)
	vAssert(mk.setState() == nil, "fetch: setState accepts a payment with sent <= value")

	snap := db.top.clone()
	db.failable = true

	// grp (sharding only): 0 RegisterAttempt, 1 SettleAttempt / FailAttempt,
	// 2 Fail / InitPayment / DeleteFailedAttempts / DeletePayment / other hash.
	ev := c16EvRegister
	switch vChoice("grp", 3) {
	case 1:
		ev = c16EvSettle + vChoice("ev", 2)
	case 2:
		ev = c16EvFail + vChoice("ev", c16kvNumEv-c16EvFail)
	}
	var (
		kvErr   error
		mp      *MPPayment // payment returned by the operation, if any
		q       = p        // expected post-state when admitted
		exact   = true     // q is the exact expected effect
		crossOK = true     // the mirror is comparable (fresh attempt id)
		evID    uint64
		nAtt    c16A
	)
	q.atts = append([]c16A(nil), p.atts...)
	known, wasInFlight := false, false

	switch ev {
	case c16EvRegister:
		nAtt = c16kvSymAtt("N")
		nAtt.id = vU64("evID")
		evID = nAtt.id
		if vChoice("nmpp", 2) == 1 {
			// an MPP record whose total differs from every existing attempt's
			nAtt.mtot = c16kvMPPTotal + 1
		}
		for _, a := range p.atts {
			if a.id == evID {
				known = true
			}
		}
		att := c16kvInfo(nAtt)
		mp, err = s.RegisterAttempt(ctx, c16Hash, att)
		kvErr = c16DoRegister(mk, att)
		q.atts = append(q.atts, nAtt)
		// an id that is already in use: the kv store overwrites the attempt
		// info (NOTES.md observation 1); judged by the general obligations
		// only, not by the exact effect / the mirror
		exact, crossOK = !known, !known
	case c16EvSettle, c16EvFailAttempt:
		evID = vU64("evID")
		for i, a := range p.atts {
			if a.id == evID {
				known, wasInFlight = true, a.st == c16InFlight
				if ev == c16EvSettle {
					q.atts[i].st = c16Settled
				} else {
					q.atts[i].st = c16Failed
				}
			}
		}
		if ev == c16EvSettle {
			mp, err = s.SettleAttempt(ctx, c16Hash, evID, &HTLCSettleInfo{Preimage: c16kvPreimage})
		} else {
			mp, err = s.FailAttempt(ctx, c16Hash, evID, &HTLCFailInfo{Reason: HTLCFailInternal})
		}
		kvErr = c16DoResolve(mk, evID, ev == c16EvSettle)
	case c16EvFail:
		r := FailureReason(vU8("evReason"))
		mp, err = s.Fail(ctx, c16Hash, r)
		kvErr = c16DoFail(mk, r)
		q.reason, q.code = true, uint8(r)
	case c16EvInit:
		nv := vU64("evValue")
		vAssume(nv <= c16MaxMsat)
		err = s.InitPayment(ctx, c16Hash, &PaymentCreationInfo{
			PaymentIdentifier: c16Hash, Value: lnwire.MilliSatoshi(nv),
		})
		kvErr = c16DoInit(mk, lnwire.MilliSatoshi(nv))
		q = c16P{value: nv}
	case c16EvDeleteFailed:
		err = s.DeleteFailedAttempts(ctx, c16Hash)
		kvErr = c16DoDeleteFailed(mk)
		q.atts = nil
		for _, a := range p.atts {
			if a.st != c16Failed {
				q.atts = append(q.atts, a)
			}
		}
	case c16EvDelete:
		err = s.DeletePayment(ctx, c16Hash, false)
		kvErr = c16DoDelete(mk)
	case c16kvEvOther:
		c16kvOtherHash(w, snap)
		return
	}
	db.failable = false // only the operation under judgement may fail to commit
	admitted := err == nil
	vObserve("admitted", admitted)
	crossAdmit := func() {
		if crossOK && !db.injected {
			vAssert((kvErr == nil) == admitted, "KV store and the kv mirror of VerifC16Step agree on whether the operation is admitted")
		}
	}

	raw := c16kvRaw(db, c16Hash)
	post, postSettled := c16kvRawStatus(raw)
	vObserve("post", int(post))
	vAssert(c16kvNoDoubleResolution(raw), "KV: no attempt ends up with both a settle and a failure record")

	if !admitted {
		vAssert(mp == nil, "KV: a refused operation returns no payment")
		vAssert(c16kvSame(db.top.sub(paymentsRootBucket), snap.sub(paymentsRootBucket)) &&
			c16kvSame(db.top.sub(paymentsIndexBucket), snap.sub(paymentsIndexBucket)),
			"KV: a refused operation leaves every stored key unchanged")
		m1, ferr := s.FetchPayment(ctx, c16Hash)
		vAssert(ferr == nil && m1 != nil && c16kvMatches(m1, p) && m1.Status == pre, "KV: a refused operation does not change the reported payment")
		if db.injected {
			vReach("commit-failed")
			return
		}
		switch ev {
		case c16EvInit:
			switch pre {
			case StatusInitiated:
				vAssert(errors.Is(err, ErrPaymentExists), "initiated payment: re-initiation refused with ErrPaymentExists")
			case StatusInFlight:
				vAssert(errors.Is(err, ErrPaymentInFlight), "in-flight payment: re-initiation refused with ErrPaymentInFlight")
			case StatusSucceeded:
				vAssert(errors.Is(err, ErrAlreadyPaid), "succeeded payment: re-initiation refused with ErrAlreadyPaid")
			default:
				vAssert(false, "KV InitPayment: re-initiation of a failed payment is admitted")
			}
		case c16EvDelete, c16EvDeleteFailed:
			vAssert(pre == StatusInFlight, "deleting a payment that is not InFlight is allowed")
		case c16EvFail:
			vAssert(false, "KV Fail: recording a payment-level failure on a known payment is admitted")
		case c16EvSettle, c16EvFailAttempt:
			switch {
			case pre != StatusInitiated && pre != StatusInFlight:
				vReach("resolve-terminal")
			case !known:
				vReach("unknown-attempt")
			case !wasInFlight:
				vReach("already-resolved")
				vAssert(errors.Is(err, ErrAttemptAlreadySettled) || errors.Is(err, ErrAttemptAlreadyFailed), "KV: resolving a resolved attempt is refused with ErrAttemptAlreadySettled / ErrAttemptAlreadyFailed")
			default:
				vAssert(false, "KV: settling / failing an in-flight attempt of an updatable payment is admitted")
			}
		case c16EvRegister:
			if preSettled || p.reason || (pre != StatusInitiated && pre != StatusInFlight) {
				vReach("register-refused-terminal")
			} else if nAtt.mtot != c16kvMPPTotal && preInFlight {
				vAssert(errors.Is(err, ErrMPPTotalAmountMismatch), "KV RegisterAttempt: an MPP total that differs from an in-flight attempt's is refused with ErrMPPTotalAmountMismatch")
				vReach("register-refused-mpp")
			} else {
				vAssert(sent+nAtt.amt > p.value, "KV RegisterAttempt: an attempt that fits is admitted")
				vAssert(errors.Is(err, ErrValueExceedsAmt), "KV RegisterAttempt: an attempt beyond the payment value is refused with ErrValueExceedsAmt")
				vReach("register-refused-exceeds")
			}
		}
		vReach("refused")
		crossAdmit()
		return
	}

	// ---- admitted ----
	switch ev {
	case c16EvRegister:
		if known {
			vReach("register-dup-id")
		} else {
			vReach("register")
		}
		vAssert(sent+nAtt.amt <= p.value, "KV RegisterAttempt: admitted attempt keeps settled + in-flight + new amount within the payment value")
		vAssert(!preSettled && !p.reason, "KV RegisterAttempt: nothing admitted after a settle or a payment-level failure")
		vAssert(pre == StatusInitiated || pre == StatusInFlight, "KV RegisterAttempt: admitted only while Initiated or InFlight")
		vAssert(nAtt.mtot == c16kvMPPTotal || !preInFlight, "KV RegisterAttempt: admitted attempt's MPP options agree with every in-flight attempt")
	case c16EvSettle, c16EvFailAttempt:
		if ev == c16EvSettle {
			vReach("settle")
		} else {
			vReach("fail-attempt")
		}
		vAssert(known && wasInFlight, "KV: only a registered, unresolved attempt can be settled or failed (no double resolution)")
		vAssert(pre == StatusInFlight, "KV: attempt outcomes are recorded only while the payment is InFlight")
	case c16EvFail:
		vReach("fail-payment")
	case c16EvInit:
		vReach("reinit")
		vAssert(pre == StatusFailed, "KV InitPayment: re-initiation is admitted only for a failed payment")
		vAssert(raw.exists && post == StatusInitiated && len(raw.atts) == 0 && !raw.reason, "KV InitPayment: re-initiation starts from a clean Initiated payment")
		vAssert(raw.indexed && raw.nIndexes == 1, "KV InitPayment: the old sequence index entry is replaced by the new one")
	case c16EvDeleteFailed:
		vReach("delete-failed-attempts")
		vAssert(pre != StatusInFlight, "KV DeleteFailedAttempts: only when the payment is not InFlight")
	case c16EvDelete:
		vReach("delete")
		vAssert(pre != StatusInFlight, "KV DeletePayment: only when the payment is not InFlight")
		vAssert(!raw.exists && raw.nIndexes == 0, "KV DeletePayment: the payment bucket and its index entry are gone")
		_, ferr := s.FetchPayment(ctx, c16Hash)
		vAssert(errors.Is(ferr, ErrPaymentNotInitiated), "KV: fetching a deleted payment reports ErrPaymentNotInitiated")
		_, serr := s.SettleAttempt(ctx, c16Hash, 2, &HTLCSettleInfo{})
		vAssert(errors.Is(serr, ErrPaymentNotInitiated), "KV: settling on a deleted payment reports ErrPaymentNotInitiated")
		_, rerr := s.Fail(ctx, c16Hash, FailureReasonError)
		vAssert(errors.Is(rerr, ErrPaymentNotInitiated), "KV: failing a deleted payment reports ErrPaymentNotInitiated")
		crossAdmit()
		return
	}

	// (3) status transitions, on the raw keys
	if pre == StatusSucceeded {
		vReach("from-succeeded")
		vAssert(post == StatusSucceeded, "KV: a succeeded payment never changes status")
	}
	if pre == StatusFailed && ev != c16EvInit {
		vReach("from-failed")
		vAssert(post == StatusFailed, "KV: a failed payment changes status only through re-initiation")
	}

	// (2)/(4) truthful report and invariant through the real fetch path
	m1, ferr := s.FetchPayment(ctx, c16Hash)
	vAssert(ferr == nil && m1 != nil, "KV: the payment is loadable after the step")
	if ferr != nil || m1 == nil {
		return
	}
	vAssert(c16kvAgree(m1, raw), "KV: the reported attempts / resolutions / failure reason are exactly the stored keys")
	vAssert(m1.Status == post, "KV: reported status after the step equals the documented table")
	vAssert(!(postSettled && m1.Status == StatusFailed), "KV: a payment with a settled attempt is never reported Failed")
	postSent := c16RawSent(m1)
	vAssert(postSent <= uint64(m1.Info.Value), "KV: the step keeps settled + in-flight amounts within the payment value")
	vAssert(uint64(m1.State.RemainingAmt) == uint64(m1.Info.Value)-postSent, "KV: RemainingAmt is the truth after the step")
	if exact {
		vAssert(c16kvMatches(m1, q), "KV: the admitted operation has exactly its documented effect on the stored payment (and on nothing else)")
	}
	if ev != c16EvInit && ev != c16EvDeleteFailed {
		vAssert(mp != nil && mp.Status == post && len(mp.HTLCs) == len(m1.HTLCs) && c16RawSent(mp) == postSent,
			"KV: the payment returned by the operation is the stored one")
	}
	fl, lerr := s.FetchInFlightPayments(ctx)
	vAssert(lerr == nil && (len(fl) == 1) == (post == StatusInitiated || post == StatusInFlight), "KV: FetchInFlightPayments lists the payment iff it is Initiated or InFlight")

	crossAdmit()
	if crossOK {
		kvPost, _ := c16RawStatus(mk)
		vAssert(kvPost == post && c16RawSent(mk) == postSent && len(mk.HTLCs) == len(m1.HTLCs), "KV store and the kv mirror agree on the resulting payment (status, amounts, attempts)")
	}
}

// c16kvOtherHash: operations that name a payment hash the store does not know
// are refused with ErrPaymentNotInitiated (initiation is admitted) and never
// touch the known payment.
func c16kvOtherHash(w *c16kvWorld, snap *c16kvNode) {
	s, db := w.s, w.db
	ctx := context.Background()
	pay := func(n *c16kvNode) *c16kvNode { return n.sub(paymentsRootBucket).sub(c16Hash[:]) }
	op2 := vChoice("op2", 6)
	db.failable = op2 == 5 // the refusals below do not depend on the commit
	switch op2 {
	case 0:
		a := c16kvSymAtt("N")
		a.id = vU64("evID")
		_, err := s.RegisterAttempt(ctx, c16kvOther, c16kvInfo(a))
		vAssert(errors.Is(err, ErrPaymentNotInitiated), "KV: registering on an unknown payment hash reports ErrPaymentNotInitiated")
	case 1:
		_, err := s.SettleAttempt(ctx, c16kvOther, vU64("evID"), &HTLCSettleInfo{})
		vAssert(errors.Is(err, ErrPaymentNotInitiated), "KV: settling on an unknown payment hash reports ErrPaymentNotInitiated")
	case 2:
		_, err := s.FailAttempt(ctx, c16kvOther, vU64("evID"), &HTLCFailInfo{})
		vAssert(errors.Is(err, ErrPaymentNotInitiated), "KV: failing an attempt of an unknown payment hash reports ErrPaymentNotInitiated")
	case 3:
		_, err := s.Fail(ctx, c16kvOther, FailureReason(vU8("evReason")))
		vAssert(errors.Is(err, ErrPaymentNotInitiated), "KV: failing an unknown payment hash reports ErrPaymentNotInitiated")
	case 4:
		err := s.DeletePayment(ctx, c16kvOther, vBool("failedOnly"))
		vAssert(err != nil, "KV: deleting an unknown payment hash is refused")
	case 5:
		nv := vU64("evValue")
		err := s.InitPayment(ctx, c16kvOther, &PaymentCreationInfo{
			PaymentIdentifier: c16kvOther, Value: lnwire.MilliSatoshi(nv),
		})
		if db.injected {
			vAssert(err != nil, "KV: a failed commit is reported")
		} else {
			vAssert(err == nil, "KV: initiating an unknown payment hash is admitted")
			m, ferr := s.FetchPayment(ctx, c16kvOther)
			vAssert(ferr == nil && m != nil && m.Status == StatusInitiated && uint64(m.Info.Value) == nv && len(m.HTLCs) == 0, "KV: a newly initiated payment is Initiated with the given value")
			vReach("other-init")
		}
	}
	vAssert(c16kvSame(pay(db.top), pay(snap)), "KV: an operation on another payment hash leaves the payment untouched")
	if op2 != 5 {
		vAssert(c16kvSame(db.top.sub(paymentsRootBucket), snap.sub(paymentsRootBucket)) &&
			c16kvSame(db.top.sub(paymentsIndexBucket), snap.sub(paymentsIndexBucket)),
			"KV: a refused operation on an unknown payment hash leaves every stored key unchanged")
		_, ferr := s.FetchPayment(ctx, c16kvOther)
		vAssert(errors.Is(ferr, ErrPaymentNotInitiated), "KV: the unknown payment hash stays unknown")
	}
	vReach("other-hash")
}

// VerifC16KVStep: one real KVStore operation from any pre-state with up to
// C16_KV_N attempts (C16_KV_N+1 in the deep variant).
func VerifC16KVStep() { c16kvStep(C16_KV_N) }
