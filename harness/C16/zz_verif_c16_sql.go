package paymentsdb

// C16, second unit: the REAL SQLStore methods (InitPayment, RegisterAttempt,
// SettleAttempt, FailAttempt, Fail, DeleteFailedAttempts, DeletePayment,
// FetchPayment and everything below them: computePaymentStatusFromDB,
// fetchPaymentWithCompleteData, the batch loaders, the sql converters,
// insertRouteHops) executed symbolically on top of an in-memory fake of the
// sqlc query layer (interface BatchedSQLQueries, which lnd already has).
//
// The fake (c16SQL) is harness code: it implements the semantics of the SQL
// statements in sqldb/sqlc/queries/payments.sql and the constraints of
// sqldb/sqlc/migrations/000010_payments.up.sql that matter here (unique
// payment identifier, unique attempt index, resolution primary key / foreign
// key, cascading deletes, transaction rollback on error). Attempts are
// returned in insertion order (the query orders by attempt_time; all times in
// the harness are equal).

import (
	"bytes"
	"context"
	"database/sql"
	"errors"

	"github.com/btcsuite/btcd/btcec/v2"
	"github.com/lightningnetwork/lnd/lntypes"
	"github.com/lightningnetwork/lnd/lnwire"
	"github.com/lightningnetwork/lnd/sqldb"
	"github.com/lightningnetwork/lnd/sqldb/sqlc"
)

type c16SQLAttempt struct {
	row  sqlc.FetchHtlcAttemptsForPaymentsRow // attempt columns + resolution columns (LEFT JOIN)
	hops []sqlc.FetchHopsForAttemptsRow       // hop columns + mpp/amp/blinded columns (LEFT JOIN)
}

type c16SQL struct {
	pay    []sqlc.Payment
	atts   []c16SQLAttempt
	nextID int64
}

var (
	errC16Unique = errors.New("fake sql: UNIQUE constraint failed")
	errC16FK     = errors.New("fake sql: FOREIGN KEY constraint failed")
	errC16Unused = errors.New("fake sql: query not used by the harness")
)

type c16Result int64

func (r c16Result) LastInsertId() (int64, error) { return 0, nil }
func (r c16Result) RowsAffected() (int64, error) { return int64(r), nil }

func (f *c16SQL) id() int64 {
	f.nextID++
	return f.nextID
}

// ExecTx: run the body; on error restore the snapshot (rollback).
func (f *c16SQL) ExecTx(ctx context.Context, _ sqldb.TxOptions,
	body func(SQLQueries) error, reset func()) error {

	pay := append([]sqlc.Payment(nil), f.pay...)
	atts := append([]c16SQLAttempt(nil), f.atts...)
	reset()
	if err := body(f); err != nil {
		f.pay, f.atts = pay, atts
		return err
	}

	return nil
}

func c16In(ids []int64, id int64) bool {
	for _, x := range ids {
		if x == id {
			return true
		}
	}
	return false
}

// ---- reads ----

func (f *c16SQL) FetchPayment(_ context.Context, ident []byte) (sqlc.FetchPaymentRow, error) {
	for _, p := range f.pay {
		if bytes.Equal(p.PaymentIdentifier, ident) {
			return sqlc.FetchPaymentRow{Payment: p}, nil
		}
	}
	return sqlc.FetchPaymentRow{}, sql.ErrNoRows
}

func (f *c16SQL) FetchHtlcAttemptsForPayments(_ context.Context, ids []int64) ([]sqlc.FetchHtlcAttemptsForPaymentsRow, error) {
	var out []sqlc.FetchHtlcAttemptsForPaymentsRow
	for _, a := range f.atts {
		if c16In(ids, a.row.PaymentID) {
			out = append(out, a.row)
		}
	}
	return out, nil
}

func (f *c16SQL) FetchHtlcAttemptResolutionsForPayments(_ context.Context, ids []int64) ([]sqlc.FetchHtlcAttemptResolutionsForPaymentsRow, error) {
	var out []sqlc.FetchHtlcAttemptResolutionsForPaymentsRow
	for _, a := range f.atts {
		if c16In(ids, a.row.PaymentID) {
			out = append(out, sqlc.FetchHtlcAttemptResolutionsForPaymentsRow{
				PaymentID: a.row.PaymentID, ResolutionType: a.row.ResolutionType,
			})
		}
	}
	return out, nil
}

func (f *c16SQL) FetchHopsForAttempts(_ context.Context, idx []int64) ([]sqlc.FetchHopsForAttemptsRow, error) {
	var out []sqlc.FetchHopsForAttemptsRow
	for _, a := range f.atts {
		if c16In(idx, a.row.AttemptIndex) {
			out = append(out, a.hops...)
		}
	}
	return out, nil
}

func (f *c16SQL) FetchPaymentLevelFirstHopCustomRecords(context.Context, []int64) ([]sqlc.PaymentFirstHopCustomRecord, error) {
	return nil, nil
}
func (f *c16SQL) FetchRouteLevelFirstHopCustomRecords(context.Context, []int64) ([]sqlc.PaymentAttemptFirstHopCustomRecord, error) {
	return nil, nil
}
func (f *c16SQL) FetchHopLevelCustomRecords(context.Context, []int64) ([]sqlc.PaymentHopCustomRecord, error) {
	return nil, nil
}
func (f *c16SQL) FilterPayments(context.Context, sqlc.FilterPaymentsParams) ([]sqlc.FilterPaymentsRow, error) {
	return nil, errC16Unused
}
func (f *c16SQL) FilterPaymentsDesc(context.Context, sqlc.FilterPaymentsDescParams) ([]sqlc.FilterPaymentsDescRow, error) {
	return nil, errC16Unused
}
func (f *c16SQL) FetchPaymentsByIDs(context.Context, []int64) ([]sqlc.FetchPaymentsByIDsRow, error) {
	return nil, errC16Unused
}
func (f *c16SQL) FetchNonTerminalPayments(context.Context, sqlc.FetchNonTerminalPaymentsParams) ([]sqlc.FetchNonTerminalPaymentsRow, error) {
	return nil, errC16Unused
}
func (f *c16SQL) CountPayments(context.Context) (int64, error) { return int64(len(f.pay)), nil }
func (f *c16SQL) FetchPaymentDuplicates(context.Context, int64) ([]sqlc.PaymentDuplicate, error) {
	return nil, nil
}

// ---- writes ----

func (f *c16SQL) InsertPaymentIntent(context.Context, sqlc.InsertPaymentIntentParams) (int64, error) {
	return f.id(), nil
}

func (f *c16SQL) InsertPayment(_ context.Context, arg sqlc.InsertPaymentParams) (int64, error) {
	for _, p := range f.pay {
		if bytes.Equal(p.PaymentIdentifier, arg.PaymentIdentifier) {
			return 0, errC16Unique
		}
	}
	id := f.id()
	f.pay = append(append([]sqlc.Payment(nil), f.pay...), sqlc.Payment{
		ID: id, AmountMsat: arg.AmountMsat, CreatedAt: arg.CreatedAt,
		PaymentIdentifier: arg.PaymentIdentifier,
	})
	return id, nil
}

func (f *c16SQL) InsertPaymentFirstHopCustomRecord(context.Context, sqlc.InsertPaymentFirstHopCustomRecordParams) error {
	return nil
}

func (f *c16SQL) InsertHtlcAttempt(_ context.Context, arg sqlc.InsertHtlcAttemptParams) (int64, error) {
	known := false
	for _, p := range f.pay {
		if p.ID == arg.PaymentID {
			known = true
		}
	}
	if !known {
		return 0, errC16FK
	}
	for _, a := range f.atts {
		if a.row.AttemptIndex == arg.AttemptIndex {
			return 0, errC16Unique
		}
	}
	id := f.id()
	f.atts = append(append([]c16SQLAttempt(nil), f.atts...), c16SQLAttempt{
		row: sqlc.FetchHtlcAttemptsForPaymentsRow{
			ID: id, AttemptIndex: arg.AttemptIndex, PaymentID: arg.PaymentID,
			SessionKey: arg.SessionKey, AttemptTime: arg.AttemptTime,
			PaymentHash: arg.PaymentHash, FirstHopAmountMsat: arg.FirstHopAmountMsat,
			RouteTotalTimeLock: arg.RouteTotalTimeLock, RouteTotalAmount: arg.RouteTotalAmount,
			RouteSourceKey: arg.RouteSourceKey,
		},
	})
	return id, nil
}

func (f *c16SQL) InsertRouteHop(_ context.Context, arg sqlc.InsertRouteHopParams) (int64, error) {
	for i := range f.atts {
		if f.atts[i].row.AttemptIndex != arg.HtlcAttemptIndex {
			continue
		}
		id := f.id()
		n := append([]c16SQLAttempt(nil), f.atts...)
		n[i].hops = append(append([]sqlc.FetchHopsForAttemptsRow(nil), n[i].hops...), sqlc.FetchHopsForAttemptsRow{
			ID: id, HtlcAttemptIndex: arg.HtlcAttemptIndex, HopIndex: arg.HopIndex,
			PubKey: arg.PubKey, Scid: arg.Scid, OutgoingTimeLock: arg.OutgoingTimeLock,
			AmtToForward: arg.AmtToForward, MetaData: arg.MetaData,
		})
		f.atts = n
		return id, nil
	}
	return 0, errC16FK
}

// c16Hop applies fn to the hop row with the given id (copy on write).
func (f *c16SQL) c16Hop(hopID int64, fn func(h *sqlc.FetchHopsForAttemptsRow)) error {
	for i := range f.atts {
		for j := range f.atts[i].hops {
			if f.atts[i].hops[j].ID != hopID {
				continue
			}
			n := append([]c16SQLAttempt(nil), f.atts...)
			hs := append([]sqlc.FetchHopsForAttemptsRow(nil), n[i].hops...)
			fn(&hs[j])
			n[i].hops = hs
			f.atts = n
			return nil
		}
	}
	return errC16FK
}

func (f *c16SQL) InsertRouteHopMpp(_ context.Context, arg sqlc.InsertRouteHopMppParams) error {
	return f.c16Hop(arg.HopID, func(h *sqlc.FetchHopsForAttemptsRow) {
		h.MppPaymentAddr = arg.PaymentAddr
		h.MppTotalMsat = sql.NullInt64{Int64: arg.TotalMsat, Valid: true}
	})
}

func (f *c16SQL) InsertRouteHopAmp(_ context.Context, arg sqlc.InsertRouteHopAmpParams) error {
	return f.c16Hop(arg.HopID, func(h *sqlc.FetchHopsForAttemptsRow) {
		h.AmpRootShare, h.AmpSetID = arg.RootShare, arg.SetID
		h.AmpChildIndex = sql.NullInt32{Int32: arg.ChildIndex, Valid: true}
	})
}

func (f *c16SQL) InsertRouteHopBlinded(_ context.Context, arg sqlc.InsertRouteHopBlindedParams) error {
	return f.c16Hop(arg.HopID, func(h *sqlc.FetchHopsForAttemptsRow) {
		h.EncryptedData, h.BlindingPoint = arg.EncryptedData, arg.BlindingPoint
		h.BlindedPathTotalAmt = arg.BlindedPathTotalAmt
	})
}

func (f *c16SQL) InsertPaymentAttemptFirstHopCustomRecord(context.Context, sqlc.InsertPaymentAttemptFirstHopCustomRecordParams) error {
	return nil
}
func (f *c16SQL) InsertPaymentHopCustomRecord(context.Context, sqlc.InsertPaymentHopCustomRecordParams) error {
	return nil
}

// c16Resolve: INSERT INTO payment_htlc_attempt_resolutions - primary key
// attempt_index (at most one resolution), foreign key to the attempt.
func (f *c16SQL) c16Resolve(idx int64, fn func(r *sqlc.FetchHtlcAttemptsForPaymentsRow)) error {
	for i := range f.atts {
		if f.atts[i].row.AttemptIndex != idx {
			continue
		}
		if f.atts[i].row.ResolutionType.Valid {
			return errC16Unique
		}
		n := append([]c16SQLAttempt(nil), f.atts...)
		fn(&n[i].row)
		f.atts = n
		return nil
	}
	return errC16FK
}

func (f *c16SQL) SettleAttempt(_ context.Context, arg sqlc.SettleAttemptParams) error {
	return f.c16Resolve(arg.AttemptIndex, func(r *sqlc.FetchHtlcAttemptsForPaymentsRow) {
		r.ResolutionType = sql.NullInt32{Int32: arg.ResolutionType, Valid: true}
		r.ResolutionTime = sql.NullTime{Time: arg.ResolutionTime, Valid: true}
		r.SettlePreimage = arg.SettlePreimage
	})
}

func (f *c16SQL) FailAttempt(_ context.Context, arg sqlc.FailAttemptParams) error {
	return f.c16Resolve(arg.AttemptIndex, func(r *sqlc.FetchHtlcAttemptsForPaymentsRow) {
		r.ResolutionType = sql.NullInt32{Int32: arg.ResolutionType, Valid: true}
		r.ResolutionTime = sql.NullTime{Time: arg.ResolutionTime, Valid: true}
		r.FailureSourceIndex, r.HtlcFailReason, r.FailureMsg = arg.FailureSourceIndex, arg.HtlcFailReason, arg.FailureMsg
	})
}

func (f *c16SQL) FailPayment(_ context.Context, arg sqlc.FailPaymentParams) (sql.Result, error) {
	n := append([]sqlc.Payment(nil), f.pay...)
	cnt := 0
	for i := range n {
		if bytes.Equal(n[i].PaymentIdentifier, arg.PaymentIdentifier) {
			n[i].FailReason = arg.FailReason
			cnt++
		}
	}
	f.pay = n
	return c16Result(cnt), nil
}

func (f *c16SQL) DeletePayment(_ context.Context, id int64) error {
	var pay []sqlc.Payment
	for _, p := range f.pay {
		if p.ID != id {
			pay = append(pay, p)
		}
	}
	var atts []c16SQLAttempt
	for _, a := range f.atts {
		if a.row.PaymentID != id { // ON DELETE CASCADE
			atts = append(atts, a)
		}
	}
	f.pay, f.atts = pay, atts
	return nil
}

func (f *c16SQL) DeleteFailedAttempts(_ context.Context, id int64) error {
	var atts []c16SQLAttempt
	for _, a := range f.atts {
		if a.row.PaymentID == id && a.row.ResolutionType.Valid && a.row.ResolutionType.Int32 == 2 {
			continue
		}
		atts = append(atts, a)
	}
	f.atts = atts
	return nil
}

// ---------------------------------------------------------------------------

var c16Hash = lntypes.Hash{0xc1, 0x6}

// c16SQLLoad fills the fake with the rows a payment described by p has.
func c16SQLLoad(p c16P) *c16SQL {
	f := &c16SQL{nextID: 100}
	pay := sqlc.Payment{ID: 1, AmountMsat: int64(p.value), PaymentIdentifier: c16Hash[:]}
	if p.reason {
		pay.FailReason = sql.NullInt32{Int32: int32(p.code), Valid: true}
	}
	f.pay = []sqlc.Payment{pay}
	pub := make([]byte, 33)
	for _, a := range p.atts {
		r := sqlc.FetchHtlcAttemptsForPaymentsRow{
			ID: f.id(), AttemptIndex: int64(a.id), PaymentID: 1,
			SessionKey: make([]byte, 32), PaymentHash: c16Hash[:],
			RouteTotalAmount: int64(a.tot), RouteSourceKey: pub,
		}
		switch a.st {
		case c16Settled:
			r.ResolutionType = sql.NullInt32{Int32: int32(HTLCAttemptResolutionSettled), Valid: true}
			r.SettlePreimage = make([]byte, 32)
		case c16Failed:
			r.ResolutionType = sql.NullInt32{Int32: int32(HTLCAttemptResolutionFailed), Valid: true}
		}
		first := sqlc.FetchHopsForAttemptsRow{
			ID: f.id(), HtlcAttemptIndex: int64(a.id), HopIndex: 0, PubKey: pub,
			Scid: "1", AmtToForward: int64(a.fwd),
		}
		last := sqlc.FetchHopsForAttemptsRow{
			ID: f.id(), HtlcAttemptIndex: int64(a.id), HopIndex: 1, PubKey: pub,
			Scid: "2", AmtToForward: int64(a.amt),
		}
		switch a.kind {
		case c16MPP:
			addr := a.addr
			last.MppPaymentAddr = addr[:]
			last.MppTotalMsat = sql.NullInt64{Int64: int64(a.mtot), Valid: true}
		case c16Blinded:
			last.EncryptedData = []byte{1}
			last.BlindedPathTotalAmt = sql.NullInt64{Int64: int64(a.mtot), Valid: true}
		}
		f.atts = append(f.atts, c16SQLAttempt{row: r, hops: []sqlc.FetchHopsForAttemptsRow{first, last}})
	}
	return f
}

// c16SQLRaw: status (documented table), settled flag and sent amount read
// straight from the rows of the fake.
func c16SQLRaw(f *c16SQL) (exists bool, st PaymentStatus, anySettled bool, sent uint64, value uint64, n int) {
	if len(f.pay) == 0 {
		return false, 0, false, 0, 0, 0
	}
	var inflight, settled, failed bool
	for _, a := range f.atts {
		n++
		switch {
		case !a.row.ResolutionType.Valid:
			inflight = true
		case a.row.ResolutionType.Int32 == 1:
			settled = true
		default:
			failed = true
		}
		if a.row.ResolutionType.Valid && a.row.ResolutionType.Int32 == 2 {
			continue
		}
		sent += uint64(a.hops[len(a.hops)-1].AmtToForward)
	}
	st = c16Table[c16Row(inflight, settled, failed, f.pay[0].FailReason.Valid)]
	return true, st, settled, sent, uint64(f.pay[0].AmountMsat), n
}

// VerifC16SQLStep: one real SQLStore operation from any pre-state with up to
// C16_SQL_N attempts.
func VerifC16SQLStep() {
	c16Config()
	vOverflow("github.com/lightningnetwork/lnd/payments/db.c16SQLRaw")
	vAssumption("SQL unit: in-memory fake of the sqlc query layer (BatchedSQLQueries) with the semantics of queries/payments.sql and the constraints of migration 000010; single payment hash; attempt ids concrete 1..N, new attempt id N+1")
	// grp 0: RegisterAttempt (existing attempts of any kind); grp 1: the
	// other operations (existing attempts all carry an MPP record: their
	// kind is irrelevant to those operations).
	ev := c16EvRegister
	if vChoice("grp", 2) == 1 {
		ev = 1 + vChoice("ev", c16NumEv-1)
	}
	p := c16Pre(C16_SQL_N, ev == c16EvRegister)
	for i := range p.atts {
		p.atts[i].id = uint64(i + 1)
	}
	sent, _ := c16Sent(p)
	vAssume(sent <= p.value) // pre-state is loadable (setState passes), see VerifC16Register
	f := c16SQLLoad(p)
	s := &SQLStore{
		cfg: &SQLStoreConfig{QueryCfg: &sqldb.QueryConfig{MaxBatchSize: 250, MaxPageSize: 100}},
		db:  f,
	}
	ctx := context.Background()
	pre := c16Want(p)
	_, preSettled, _, _ := c16Flags(p)
	preN := len(p.atts)

	// the same pre-state as the kv store would load it, for the backend
	// cross-check at the end of the switch
	mk := c16Build(p)
	vAssert(mk.setState() == nil, "fetch: setState accepts a payment with sent <= value")

	var err, kvErr error
	var n c16A
	evID := uint64(0)
	switch ev {
	case c16EvRegister:
		n = c16SymAtt("N", 4, 0)
		n.id = uint64(preN + 1)
		att := c16Attempt(n).HTLCAttemptInfo
		h := c16Hash
		att.Hash = &h
		// a cached session key, so that SessionKey() does not derive the
		// public key (elliptic-curve code is outside the engine)
		att.cachedSessionKey = &btcec.PrivateKey{}
		_, err = s.RegisterAttempt(ctx, c16Hash, &att)
		kvErr = c16DoRegister(mk, &att)
	case c16EvSettle:
		evID = vU64("evID")
		vAssume(evID < 1<<62)
		_, err = s.SettleAttempt(ctx, c16Hash, evID, &HTLCSettleInfo{})
		kvErr = c16DoResolve(mk, evID, true)
	case c16EvFailAttempt:
		evID = vU64("evID")
		vAssume(evID < 1<<62)
		_, err = s.FailAttempt(ctx, c16Hash, evID, &HTLCFailInfo{Reason: HTLCFailInternal})
		kvErr = c16DoResolve(mk, evID, false)
	case c16EvFail:
		r := FailureReason(vU8("evReason") & 7)
		_, err = s.Fail(ctx, c16Hash, r)
		kvErr = c16DoFail(mk, r)
	case c16EvInit:
		nv := vU64("evValue")
		vAssume(nv <= c16MaxMsat)
		err = s.InitPayment(ctx, c16Hash, &PaymentCreationInfo{
			PaymentIdentifier: c16Hash, Value: lnwire.MilliSatoshi(nv),
		})
		kvErr = c16DoInit(mk, lnwire.MilliSatoshi(nv))
	case c16EvDeleteFailed:
		err = s.DeleteFailedAttempts(ctx, c16Hash)
		kvErr = c16DoDeleteFailed(mk)
	case c16EvDelete:
		err = s.DeletePayment(ctx, c16Hash, false)
		kvErr = c16DoDelete(mk)
	}
	admitted := err == nil
	vObserve("admitted", admitted)
	// backend cross-check, stated after the property obligations of each
	// branch: the SQL store (real code) and the in-memory effect of the kv
	// store operation (harness mirror) agree.
	crossAdmit := func() {
		vAssert((kvErr == nil) == admitted, "SQL store and kv mirror agree on whether the operation is admitted")
	}

	exists, post, postSettled, postSent, postValue, postN := c16SQLRaw(f)
	vObserve("post", int(post))

	if !admitted {
		vAssert(exists && post == pre && postN == preN && postSent == sent && postValue == p.value, "a refused operation leaves the stored payment unchanged (rollback)")
		if ev == c16EvInit {
			switch pre {
			case StatusInitiated:
				vAssert(errors.Is(err, ErrPaymentExists), "initiated payment: re-initiation refused with ErrPaymentExists")
			case StatusInFlight:
				vAssert(errors.Is(err, ErrPaymentInFlight), "in-flight payment: re-initiation refused with ErrPaymentInFlight")
			case StatusSucceeded:
				vAssert(errors.Is(err, ErrAlreadyPaid), "succeeded payment: re-initiation refused with ErrAlreadyPaid")
			}
		}
		if ev == c16EvDelete || ev == c16EvDeleteFailed {
			vAssert(pre == StatusInFlight, "deleting a payment that is not InFlight is allowed")
		}
		vReach("refused")
		crossAdmit()
		return
	}

	switch ev {
	case c16EvRegister:
		vReach("register")
		vAssert(sent+n.amt <= p.value, "SQL RegisterAttempt: admitted attempt keeps settled + in-flight + new amount within the payment value")
		vAssert(!preSettled && !p.reason, "SQL RegisterAttempt: nothing admitted after a settle or a payment-level failure")
		vAssert(pre == StatusInitiated || pre == StatusInFlight, "SQL RegisterAttempt: admitted only while Initiated or InFlight")
		vAssert(n.kind != c16BlindedMPP && (n.kind != c16Blinded || n.mtot != 0) && (n.kind != c16Plain || n.amt == p.value), "SQL RegisterAttempt: malformed attempt never admitted")
		for _, h := range p.atts {
			if h.st == c16InFlight {
				vAssert(c16Compatible(n, h), "SQL RegisterAttempt: MPP/blinded options agree with every in-flight attempt")
			}
		}
		vAssert(postN == preN+1 && postSent == sent+n.amt && post == StatusInFlight, "SQL RegisterAttempt: exactly the admitted attempt was stored")
	case c16EvSettle, c16EvFailAttempt:
		if ev == c16EvSettle {
			vReach("settle")
		} else {
			vReach("fail-attempt")
		}
		known, wasInFlight := false, false
		for _, a := range p.atts {
			if a.id == evID {
				known, wasInFlight = true, a.st == c16InFlight
			}
		}
		vAssert(known && wasInFlight, "SQL: only a registered, unresolved attempt can be settled or failed")
		vAssert(pre == StatusInFlight, "SQL: attempt outcomes are recorded only while the payment is InFlight")
		vAssert(postN == preN, "SQL: resolving an attempt does not add or remove attempts")
	case c16EvFail:
		vReach("fail-payment")
		vAssert(exists && f.pay[0].FailReason.Valid, "SQL Fail: the reason is recorded")
	case c16EvInit:
		vReach("reinit")
		vAssert(pre == StatusFailed, "SQL InitPayment: re-initiation is admitted only for a failed payment")
		vAssert(exists && post == StatusInitiated && postN == 0 && !f.pay[0].FailReason.Valid, "SQL InitPayment: re-initiation starts from a clean Initiated payment")
	case c16EvDeleteFailed:
		vReach("delete-failed-attempts")
		vAssert(pre != StatusInFlight, "SQL DeleteFailedAttempts: only when the payment is not InFlight")
	case c16EvDelete:
		vReach("delete")
		vAssert(pre != StatusInFlight, "SQL DeletePayment: only when the payment is not InFlight")
		vAssert(!exists, "SQL DeletePayment: the payment is gone")
		_, ferr := s.FetchPayment(ctx, c16Hash)
		vAssert(errors.Is(ferr, ErrPaymentNotInitiated), "SQL: fetching a deleted payment reports ErrPaymentNotInitiated")
		_, serr := s.SettleAttempt(ctx, c16Hash, 1, &HTLCSettleInfo{})
		vAssert(errors.Is(serr, ErrPaymentNotInitiated), "SQL: settling on a deleted payment reports ErrPaymentNotInitiated")
		crossAdmit()
		return
	}

	// (3) status transitions, on the rows
	if pre == StatusSucceeded {
		vReach("from-succeeded")
		vAssert(post == StatusSucceeded, "SQL: a succeeded payment never changes status")
	}
	if pre == StatusFailed && ev != c16EvInit {
		vReach("from-failed")
		vAssert(post == StatusFailed, "SQL: a failed payment changes status only through re-initiation")
	}
	// (4) invariant and truthful report through the real fetch path
	vAssert(postSent <= postValue, "SQL: the step keeps settled + in-flight amounts within the payment value")
	m, ferr := s.FetchPayment(ctx, c16Hash)
	vAssert(ferr == nil && m != nil, "SQL: the payment is loadable after the step")
	if m != nil {
		vAssert(m.Status == post, "SQL: reported status after the step equals the documented table")
		vAssert(!(postSettled && m.Status == StatusFailed), "SQL: a payment with a settled attempt is never reported Failed")
		vAssert(uint64(m.State.RemainingAmt) == postValue-postSent, "SQL: RemainingAmt is the truth after the step")
		vAssert(len(m.HTLCs) == postN, "SQL: every stored attempt is reported")
	}

	crossAdmit()
	kvPost, _ := c16RawStatus(mk)
	vAssert(kvPost == post && c16RawSent(mk) == postSent && len(mk.HTLCs) == postN, "SQL store and kv mirror agree on the resulting payment (status, amounts, attempts)")
}
