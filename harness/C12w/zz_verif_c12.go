package contractcourt

// Harness for C12: going on chain before HTLC deadlines and disposing of every
// HTLC exactly once.
//
// Unit (real lnd code, executed as-is): (*ChannelArbitrator).shouldGoOnChain,
// checkCommitChainActions, checkLocalChainActions, checkRemoteDanglingActions,
// checkRemoteChainActions, checkRemoteDiffActions, constructChainActions,
// isPreimageAvailable, updateActiveHTLCs, newHtlcSet,
// (*CommitSet).toActiveHTLCSets, ChainActionMap.Merge.
//
// Fakes (behind interfaces / function-valued config fields lnd already has,
// the same fakes run in native replay): cfg.PreimageDB (WitnessBeacon),
// cfg.Registry, cfg.IsForwardedHTLC, cfg.Clock.

import (
	"context"
	"time"

	"github.com/lightningnetwork/lnd/channeldb"
	"github.com/lightningnetwork/lnd/fn/v2"
	"github.com/lightningnetwork/lnd/graph/db/models"
	"github.com/lightningnetwork/lnd/htlcswitch/hop"
	"github.com/lightningnetwork/lnd/invoices"
	"github.com/lightningnetwork/lnd/lntypes"
	"github.com/lightningnetwork/lnd/lnwire"
)

// ---------------------------------------------------------------- fakes ----

// c12Beacon: preimage cache. Whether the preimage of a hash is cached is an
// arbitrary (symbolic) function of the hash: bit (hash[0] mod 8) of mask. The
// same hash always gets the same answer.
type c12Beacon struct{ mask uint8 }

func (b *c12Beacon) SubscribeUpdates(lnwire.ShortChannelID, *channeldb.HTLC,
	*hop.Payload, []byte) (*WitnessSubscription, error) {

	return nil, nil
}

func (b *c12Beacon) LookupPreimage(h lntypes.Hash) (lntypes.Preimage, bool) {
	return lntypes.Preimage{}, (b.mask>>(h[0]&7))&1 == 1
}

func (b *c12Beacon) AddPreimages(...lntypes.Preimage) error { return nil }

// c12Registry: invoice registry. Per hash (bit hash[0] mod 8): no invoice,
// invoice without a known preimage (hodl invoice) or invoice with preimage.
// noneCreated switches the "not found" error to ErrNoInvoicesCreated.
type c12Registry struct {
	found, withPre uint8
	noneCreated    bool
}

func (r *c12Registry) LookupInvoice(_ context.Context,
	h lntypes.Hash) (invoices.Invoice, error) {

	bit := h[0] & 7
	if r.noneCreated {
		return invoices.Invoice{}, invoices.ErrNoInvoicesCreated
	}
	if (r.found>>bit)&1 == 0 {
		return invoices.Invoice{}, invoices.ErrInvoiceNotFound
	}
	var inv invoices.Invoice
	if (r.withPre>>bit)&1 == 1 {
		inv.Terms.PaymentPreimage = &lntypes.Preimage{}
	}

	return inv, nil
}

func (r *c12Registry) NotifyExitHopHtlc(lntypes.Hash, lnwire.MilliSatoshi,
	uint32, int32, models.CircuitKey, chan<- interface{},
	lnwire.CustomRecords, invoices.Payload) (invoices.HtlcResolution, error) {

	return nil, nil
}

func (r *c12Registry) HodlUnsubscribeAll(chan<- interface{}) {}

// c12Clock: fixed "now".
type c12Clock struct{ now time.Time }

func (c *c12Clock) Now() time.Time                         { return c.now }
func (c *c12Clock) TickAfter(time.Duration) <-chan time.Time { return nil }

// ---------------------------------------------------------------- world ----

const (
	c12L  = 0 // our commitment
	c12R  = 1 // the peer's current commitment
	c12RP = 2 // the peer's pending commitment
)

var c12Keys = [3]HtlcSetKey{LocalHtlcSet, RemoteHtlcSet, RemotePendingHtlcSet}

type c12Slot struct {
	on bool // concrete on every path (vChoice)
	h  channeldb.HTLC
}

type c12World struct {
	n        int
	slots    [3][2][]c12Slot // [commitment][0 offered / 1 received][k]
	rpExists bool            // concrete on every path
	dom      bool            // conjunction of the domain assumptions
	height   uint32
	inDelta  uint32
	outDelta uint32
	pdb      uint8
	invFound uint8
	invPre   uint8
	invNone  bool
	fwdMask  uint16
	upNs     int64 // node up time in ns
	grace    time.Duration
	arb      *ChannelArbitrator
}

var (
	c12CS = [3]string{"L", "R", "P"}
	c12DS = [2]string{"out", "in"}
	c12KS = [4]string{"0", "1", "2", "3"}
)

func c12Name(c, d, k int, field string) string {
	return c12CS[c] + "." + c12DS[d] + c12KS[k] + "." + field
}

// known is the definition of "the node knows the preimage of hash h0".
func (w *c12World) known(h0 uint8) bool {
	bit := h0 & 7
	cached := (w.pdb>>bit)&1 == 1
	invoice := !w.invNone && (w.invFound>>bit)&1 == 1 &&
		(w.invPre>>bit)&1 == 1

	return cached || invoice
}

// forwarded: the fake IsForwardedHTLC, an arbitrary function of the index.
func (w *c12World) forwarded(idx uint64) bool {
	return (w.fwdMask>>(idx&15))&1 == 1
}

// c12PastCutoff: height >= expiry - delta, in unbounded arithmetic.
func c12PastCutoff(height, expiry, delta uint32) bool {
	return uint64(height)+uint64(delta) >= uint64(expiry)
}

// offeredDue: the property's go-on-chain condition for an HTLC we offered.
func (w *c12World) offeredDue(h *channeldb.HTLC) bool {
	return c12PastCutoff(w.height, h.RefundTimeout, w.outDelta) &&
		(w.forwarded(h.HtlcIndex) || w.upNs > int64(w.grace))
}

// receivedDue: ... and for an HTLC we received.
func (w *c12World) receivedDue(h *channeldb.HTLC) bool {
	return c12PastCutoff(w.height, h.RefundTimeout, w.inDelta) &&
		w.known(h.RHash[0])
}

// c12Family: a family of presence shapes. A shape says how many offered and
// received HTLCs each of the three commitments carries (0..n each) and whether
// a pending remote commitment exists at all (it may exist and be empty).
type c12Family struct {
	n       int  // slots per (commitment, direction)
	maxFill int  // at most this many HTLC slots filled in total
	needTwo bool // only shapes with some (commitment, direction) holding 2
	parts   int  // number of shards the family is split into
}

type c12Shape struct {
	cnt      [3][2]int
	rpExists bool
}

// c12PickShape enumerates the family (concretely) and selects one shape by a
// concrete case split: vChoice("part") x vChoice("shape").
func c12PickShape(f c12Family) c12Shape {
	var all []c12Shape
	total := 1
	for i := 0; i < 6; i++ {
		total *= f.n + 1
	}
	for v := 0; v < total; v++ {
		var sh c12Shape
		x, fill, two := v, 0, false
		for c := 0; c < 3; c++ {
			for d := 0; d < 2; d++ {
				sh.cnt[c][d] = x % (f.n + 1)
				x /= f.n + 1
				fill += sh.cnt[c][d]
				two = two || sh.cnt[c][d] >= 2
			}
		}
		if fill > f.maxFill || (f.needTwo && !two) {
			continue
		}
		sh.rpExists = true
		all = append(all, sh)
		if sh.cnt[c12RP][0] == 0 && sh.cnt[c12RP][1] == 0 {
			sh.rpExists = false
			all = append(all, sh)
		}
	}
	// order by number of HTLCs (cost grows with it) so that dealing the
	// shapes round-robin gives shards of similar size
	var sorted []c12Shape
	for fill := 0; fill <= f.maxFill; fill++ {
		for _, sh := range all {
			n := 0
			for c := 0; c < 3; c++ {
				n += sh.cnt[c][0] + sh.cnt[c][1]
			}
			if n == fill {
				sorted = append(sorted, sh)
			}
		}
	}
	part := vChoice("part", f.parts)
	j := vChoice("shape", (len(sorted)+f.parts-1)/f.parts)
	i := j*f.parts + part
	if i >= len(sorted) {
		vAssume(false)
	}

	return sorted[i]
}

// c12NewWorld builds the symbolic world. Shape (which slots hold an HTLC,
// whether a pending remote commitment exists) is a
// concrete case split (vChoice); indexes, expiries, output indexes (their sign
// = dust or not), hashes,
// height, deltas, preimage knowledge, forwarded bits, up time and grace period
// are symbolic.
func c12NewWorld(f c12Family) *c12World {
	sh := c12PickShape(f)
	n := f.n
	w := &c12World{n: n, dom: true, rpExists: sh.rpExists}
	w.height = vU32("height")
	w.inDelta = vU32("inDelta")
	w.outDelta = vU32("outDelta")
	w.pdb = vU8("preimageCache")
	w.invFound = vU8("invoiceFound")
	w.invPre = vU8("invoiceWithPreimage")
	w.invNone = vBool("noInvoicesCreated")
	w.fwdMask = vU16("forwardedMask")

	for c := 0; c < 3; c++ {
		for d := 0; d < 2; d++ {
			for k := 0; k < n; k++ {
				var s c12Slot
				// slots of one (commitment, direction) are
				// interchangeable: they are filled from the front.
				s.on = k < sh.cnt[c][d]
				s.h.Incoming = d == 1
				s.h.Amt = lnwire.MilliSatoshi(1000)
				if s.on {
					s.h.HtlcIndex = vU64(c12Name(c, d, k, "idx"))
					s.h.RefundTimeout = vU32(c12Name(c, d, k, "expiry"))
					s.h.OutputIndex = vI32(c12Name(c, d, k, "outputIndex"))
					s.h.RHash[0] = vU8(c12Name(c, d, k, "hash"))
					// Domain: expiry - delta does not wrap (expiries
					// are absolute block heights, the deltas small
					// configured block counts).
					if d == 0 {
						w.dom = w.dom && s.h.RefundTimeout >= w.outDelta
					} else {
						w.dom = w.dom && s.h.RefundTimeout >= w.inDelta
					}
				}
				w.slots[c][d] = append(w.slots[c][d], s)
			}
		}
	}

	// Domain: HTLC indexes are distinct within one commitment and direction;
	// the same (index, direction) denotes the same HTLC (hash, expiry) on
	// every commitment. Only the output index (dust or not) may differ.
	for d := 0; d < 2; d++ {
		for c1 := 0; c1 < 3; c1++ {
			for k1 := 0; k1 < n; k1++ {
				a := &w.slots[c1][d][k1]
				if !a.on {
					continue
				}
				for k2 := k1 + 1; k2 < n; k2++ {
					b := &w.slots[c1][d][k2]
					if b.on {
						w.dom = w.dom && a.h.HtlcIndex != b.h.HtlcIndex
					}
				}
				for c2 := c1 + 1; c2 < 3; c2++ {
					for k2 := 0; k2 < n; k2++ {
						b := &w.slots[c2][d][k2]
						if b.on {
							w.dom = w.dom && (a.h.HtlcIndex != b.h.HtlcIndex ||
								(a.h.RefundTimeout == b.h.RefundTimeout &&
									a.h.RHash[0] == b.h.RHash[0]))
						}
					}
				}
			}
		}
	}

	// Clock: the node has been up for upNs nanoseconds (any value, also
	// negative: wall clocks can step back) when the block arrives.
	up := vI64("upTimeNs")
	g := vI64("gracePeriodNs")
	w.dom = w.dom && g >= 0 && g < 1<<62 && up > -(1<<62) && up < 1<<62
	w.grace = time.Duration(g)
	w.upNs = up
	c12Up = time.Duration(up)
	start := time.Unix(1_700_000_000, 0)
	now := start
	if vNative() {
		now = start.Add(time.Duration(up))
	}

	var cfg ChannelArbitratorConfig
	cfg.IncomingBroadcastDelta = w.inDelta
	cfg.OutgoingBroadcastDelta = w.outDelta
	cfg.PreimageDB = &c12Beacon{mask: w.pdb}
	cfg.Registry = &c12Registry{
		found: w.invFound, withPre: w.invPre, noneCreated: w.invNone,
	}
	cfg.PaymentsExpirationGracePeriod = w.grace
	cfg.IsForwardedHTLC = func(_ lnwire.ShortChannelID, idx uint64) bool {
		return w.forwarded(idx)
	}
	cfg.Clock = &c12Clock{now: now}

	w.arb = &ChannelArbitrator{
		cfg:            cfg,
		startTimestamp: start,
		activeHTLCs:    make(map[HtlcSetKey]htlcSet),
		unmergedSet:    make(map[HtlcSetKey]htlcSet),
	}

	return w
}

// htlcs returns the HTLCs present on commitment c (offered first).
func (w *c12World) htlcs(c int) []channeldb.HTLC {
	var r []channeldb.HTLC
	for d := 0; d < 2; d++ {
		for k := range w.slots[c][d] {
			if w.slots[c][d][k].on {
				r = append(r, w.slots[c][d][k].h)
			}
		}
	}

	return r
}

// onCommit: is there an HTLC (idx, direction d) on commitment c?
func (w *c12World) onCommit(c, d int, idx uint64) bool {
	r := false
	for k := range w.slots[c][d] {
		s := &w.slots[c][d][k]
		if s.on {
			r = r || s.h.HtlcIndex == idx
		}
	}

	return r
}

// dustOn: the HTLC (idx, d) is on c with a negative output index.
func (w *c12World) dustOn(c, d int, idx uint64) bool {
	r := false
	for k := range w.slots[c][d] {
		s := &w.slots[c][d][k]
		if s.on {
			r = r || (s.h.HtlcIndex == idx && s.h.OutputIndex < 0)
		}
	}

	return r
}

// vC12TimeSub replaces (time.Time).Sub in the symbolic run only: there
// Clock.Now().Sub(startTimestamp) simply IS the symbolic up time. Native
// replay runs the real Sub on start and start.Add(up), which returns up
// exactly (|up| < 2^62 ns). The real implementation verifies its result
// through Add/Equal, whose 64-bit multiplications/divisions by 1e9 would push
// every query to the slow solver portfolio.
var c12Up time.Duration

func vC12TimeSub(t, u time.Time) time.Duration { return c12Up }

func c12Config() {
	vUnwind(100000) // concrete loops only: the shape enumeration visits its inner blocks 3^6 x 6 times (the bound counts block visits per frame)
	vReplace("(time.Time).Sub", "github.com/lightningnetwork/lnd/contractcourt.vC12TimeSub")
	if C12_MERGE {
		vMerge("(*github.com/lightningnetwork/lnd/contractcourt.ChannelArbitrator).shouldGoOnChain")
		vMerge("(*github.com/lightningnetwork/lnd/contractcourt.ChannelArbitrator).isPreimageAvailable")
	}
	vAssumption("expiry >= broadcast delta for every HTLC (expiry - delta does not wrap)")
	vAssumption("HTLC indexes distinct per commitment and direction; the same (index, direction) carries the same hash and expiry on every commitment")
	vAssumption("fakes: PreimageDB / Registry answer as an arbitrary function of hash[0] mod 8 (never an unexpected DB error); IsForwardedHTLC an arbitrary function of index mod 16; Clock: Now()-startTimestamp is an arbitrary duration in (-2^62, 2^62) ns, grace period in [0, 2^62) ns")
}

func c12Count(m ChainActionMap, a ChainAction, idx uint64, incoming bool) int {
	n := 0
	for _, h := range m[a] {
		if h.HtlcIndex == idx && h.Incoming == incoming {
			n++
		}
	}

	return n
}

// ------------------------------------------------- (1) go-on-chain decision

// c12GoOnChain: no commitment confirmed, a new block arrives (chainTrigger).
// This is exactly what stateStep(StateDefault) evaluates; a non-empty map is
// the decision to force close.
func c12GoOnChain(f c12Family) {
	c12Config()
	w := c12NewWorld(f)
	c := w.arb
	vAssume(w.dom)

	// The link's view as delivered through notifyContractUpdate.
	c.unmergedSet[LocalHtlcSet] = newHtlcSet(w.htlcs(c12L))
	c.unmergedSet[RemoteHtlcSet] = newHtlcSet(w.htlcs(c12R))
	if w.rpExists {
		c.unmergedSet[RemotePendingHtlcSet] = newHtlcSet(w.htlcs(c12RP))
	}
	c.updateActiveHTLCs()

	actions, err := c.checkLocalChainActions(
		w.height, chainTrigger, c.activeHTLCs, false,
	)
	vAssert(err == nil, "go: no error")

	offeredDue, receivedDue, danglingDue := false, false, false
	nOut, nIn := 0, 0
	for k := range w.slots[c12L][0] {
		s := &w.slots[c12L][0][k]
		if s.on {
			nOut++
			offeredDue = offeredDue || w.offeredDue(&s.h)
		}
	}
	for k := range w.slots[c12L][1] {
		s := &w.slots[c12L][1][k]
		if s.on {
			nIn++
			receivedDue = receivedDue || w.receivedDue(&s.h)
		}
	}
	for cc := c12R; cc <= c12RP; cc++ {
		for k := range w.slots[cc][0] {
			s := &w.slots[cc][0][k]
			if s.on {
				danglingDue = danglingDue ||
					(!w.onCommit(c12L, 0, s.h.HtlcIndex) &&
						w.offeredDue(&s.h) && !w.known(s.h.RHash[0]))
			}
		}
	}
	want := offeredDue || receivedDue || danglingDue
	goes := len(actions) != 0

	vAssert(!want || goes, "go: force close is decided once an offered HTLC (forwarded, or own after the grace period) or a claimable received HTLC is within its broadcast delta")
	vAssert(!goes || want, "go: force close is decided only for a due offered HTLC or a due received HTLC with known preimage (never for a received HTLC that cannot be claimed)")

	local := len(actions[HtlcTimeoutAction]) + len(actions[HtlcOutgoingWatchAction]) +
		len(actions[HtlcIncomingWatchAction]) + len(actions[HtlcIncomingDustFinalAction])
	switch {
	case !goes:
		vReach("stay")
	case len(actions[HtlcTimeoutAction]) > 0:
		vReach("go-offered-timeout")
	case nOut == 0 && nIn > 0 && local > 0:
		vReach("go-received-claimable")
	case local == 0 && len(actions[HtlcFailDanglingAction])+len(actions[HtlcFailDustAction]) > 0:
		vReach("go-dangling-only")
	}
}

// quick: one slot per (commitment, direction), at most 3 HTLCs in total.
// thorough: one slot each with at most C12_FULLFILL HTLCs in total (6 = all
// shapes), and two slots per (commitment, direction) with at most C12_N2FILL
// HTLCs in total (only the shapes that contain a pair).
var (
	c12Quick = c12Family{n: 1, maxFill: 3, parts: C12_QPARTS}
	c12Full1 = c12Family{n: 1, maxFill: C12_FULLFILL, parts: C12_TPARTS}
	c12Two   = c12Family{n: 2, maxFill: C12_N2FILL, needTwo: true, parts: C12_TPARTS}
)

func VerifC12GoOnChain()     { c12GoOnChain(c12Quick) }
func VerifC12GoOnChainFull() { c12GoOnChain(c12Full1) }
func VerifC12GoOnChainN2()   { c12GoOnChain(c12Two) }

// ------------------------------------- (2) disposition once K has confirmed

func c12Confirmed(f c12Family, chainTrig bool) {
	c12Config()
	w := c12NewWorld(f)
	c := w.arb

	k := vChoice("confirmed", 3)
	if k == c12RP && !w.rpExists {
		vAssume(false)
	}

	trigger := transitionTrigger(vU8("trigger"))
	if chainTrig {
		w.dom = w.dom && trigger == chainTrigger
	} else {
		// every trigger with which a confirmed commit set is evaluated
		// by stateStep, except the block-epoch trigger (separate entry).
		w.dom = w.dom && trigger != chainTrigger && trigger <= breachCloseTrigger
	}

	// Domain (BOLT-2 update ordering): an HTLC we offered reaches the peer's
	// commitment(s) before ours and leaves ours first, so an offered HTLC on
	// our commitment is also on whichever remote commitment confirmed.
	if k != c12L {
		for i := range w.slots[c12L][0] {
			s := &w.slots[c12L][0][i]
			if s.on {
				w.dom = w.dom && w.onCommit(k, 0, s.h.HtlcIndex)
			}
		}
	}
	vAssume(w.dom)

	// Insertion order of the sets (the engine ranges over maps in insertion
	// order; Go's order is random).
	sets := make(map[HtlcSetKey][]channeldb.HTLC)
	order := 0
	if k == c12L && w.slots[c12R][0][0].on && w.slots[c12RP][0][0].on {
		// only then can the order matter (the dangling set is keyed by
		// HTLC index and the later set overwrites the earlier one)
		order = vChoice("setOrder", 2)
	}
	if order == 0 {
		sets[LocalHtlcSet] = w.htlcs(c12L)
		sets[RemoteHtlcSet] = w.htlcs(c12R)
		if w.rpExists {
			sets[RemotePendingHtlcSet] = w.htlcs(c12RP)
		}
	} else {
		if w.rpExists {
			sets[RemotePendingHtlcSet] = w.htlcs(c12RP)
		}
		sets[RemoteHtlcSet] = w.htlcs(c12R)
		sets[LocalHtlcSet] = w.htlcs(c12L)
	}
	cs := &CommitSet{ConfCommitKey: fn.Some(c12Keys[k]), HtlcSets: sets}

	actions, err := c.constructChainActions(cs, w.height, trigger)
	vAssert(err == nil, "conf: no error")

	c12CheckDisposition(w, k, actions)
}

const (
	c12MsgOutRes   = "conf: an offered HTLC with an output on the confirmed commitment gets exactly one outgoing resolver and is never failed back upstream"
	c12MsgOutDust  = "conf: an offered HTLC that is dust on the confirmed commitment is failed back exactly once (FailDust) and gets no resolver"
	c12MsgDangling = "conf: an offered HTLC that is only on a non-confirmed commitment is failed back exactly once unless its preimage is known (then not at all) and gets no resolver"
	c12MsgInRes    = "conf: a received HTLC with an output on the confirmed commitment gets exactly one incoming resolver"
	c12MsgInOther  = "conf: a received dust HTLC is closed out exactly once without resolver; a received HTLC not on the confirmed commitment gets no action; received HTLCs are never failed back"
	c12MsgNoExtra  = "conf: every entry of the action map is an HTLC of the commit set and a resolver entry is the HTLC as it is on the confirmed commitment (with an output)"
)

func c12CheckDisposition(w *c12World, k int, actions ChainActionMap) {
	okOutRes, okOutDust, okDangling := true, true, true
	okInRes, okInOther, okNoExtra := true, true, true

	// (a) every HTLC known on any commitment gets exactly its disposition
	for c := 0; c < 3; c++ {
		for d := 0; d < 2; d++ {
			for i := range w.slots[c][d] {
				s := &w.slots[c][d][i]
				if !s.on {
					continue
				}
				idx, inc := s.h.HtlcIndex, d == 1
				onK := w.onCommit(k, d, idx)
				dustK := w.dustOn(k, d, idx)
				known := w.known(s.h.RHash[0])

				nTimeout := c12Count(actions, HtlcTimeoutAction, idx, inc)
				nOutWatch := c12Count(actions, HtlcOutgoingWatchAction, idx, inc)
				nClaim := c12Count(actions, HtlcClaimAction, idx, inc)
				nInWatch := c12Count(actions, HtlcIncomingWatchAction, idx, inc)
				nFailDust := c12Count(actions, HtlcFailDustAction, idx, inc)
				nFailDangling := c12Count(actions, HtlcFailDanglingAction, idx, inc)
				nDustFinal := c12Count(actions, HtlcIncomingDustFinalAction, idx, inc)
				nNone := c12Count(actions, NoAction, idx, inc)

				outRes := nTimeout + nOutWatch
				inRes := nClaim + nInWatch
				failBack := nFailDust + nFailDangling
				other := nDustFinal + nNone

				if d == 0 {
					okOutRes = okOutRes && (!(onK && !dustK) ||
						(outRes == 1 && inRes == 0 && failBack == 0 && other == 0))
					okOutDust = okOutDust && (!(onK && dustK) ||
						(nFailDust == 1 && nFailDangling == 0 &&
							outRes == 0 && inRes == 0 && other == 0))
					okDangling = okDangling && (onK ||
						(outRes == 0 && inRes == 0 && other == 0 &&
							((known && failBack == 0) || (!known && failBack == 1))))
				} else {
					okInRes = okInRes && (!(onK && !dustK) ||
						(inRes == 1 && outRes == 0 && other == 0 && failBack == 0))
					okInOther = okInOther && (!(onK && dustK) ||
						(nDustFinal == 1 && nNone == 0 && inRes == 0 && outRes == 0)) &&
						(onK || (inRes == 0 && outRes == 0 && other == 0)) &&
						failBack == 0
				}
			}
		}
	}

	// (b) nothing else is in any list; resolver entries carry the HTLC as it
	// is on the confirmed commitment (its output index there).
	for a := ChainAction(0); a <= HtlcFailDanglingAction; a++ {
		for _, h := range actions[a] {
			d := 0
			if h.Incoming {
				d = 1
			}
			okNoExtra = okNoExtra && (w.onCommit(c12L, d, h.HtlcIndex) ||
				w.onCommit(c12R, d, h.HtlcIndex) ||
				w.onCommit(c12RP, d, h.HtlcIndex))

			switch a {
			case HtlcTimeoutAction, HtlcOutgoingWatchAction,
				HtlcIncomingWatchAction, HtlcClaimAction:

				same := false
				for i := range w.slots[k][d] {
					s := &w.slots[k][d][i]
					if s.on {
						same = same || (s.h.HtlcIndex == h.HtlcIndex &&
							s.h.OutputIndex == h.OutputIndex &&
							s.h.RefundTimeout == h.RefundTimeout &&
							s.h.RHash[0] == h.RHash[0])
					}
				}
				okNoExtra = okNoExtra && same && h.OutputIndex >= 0
				if d == 0 {
					vReach("resolver-offered")
				} else {
					vReach("resolver-received")
				}
			case HtlcFailDustAction:
				vReach("fail-dust")
			case HtlcFailDanglingAction:
				vReach("fail-dangling")
			case HtlcIncomingDustFinalAction:
				vReach("received-dust-final")
			}
		}
	}

	vAssert(okOutRes, c12MsgOutRes)
	vAssert(okOutDust, c12MsgOutDust)
	vAssert(okDangling, c12MsgDangling)
	vAssert(okInRes, c12MsgInRes)
	vAssert(okInOther, c12MsgInOther)
	vAssert(okNoExtra, c12MsgNoExtra)
}

func VerifC12Confirmed()     { c12Confirmed(c12Quick, false) }
func VerifC12ConfirmedFull() { c12Confirmed(c12Full1, false) }
func VerifC12ConfirmedN2()   { c12Confirmed(c12Two, false) }

// VerifC12ConfirmedChainTrigger: the same disposition obligations when the
// confirmed commit set is evaluated with chainTrigger (restart in
// StateContractClosed, see NOTES.md).
func VerifC12ConfirmedChainTrigger() {
	c12Confirmed(c12Family{n: 1, maxFill: 2, parts: 1}, true)
}
