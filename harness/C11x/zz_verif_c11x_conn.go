package brontide

// Extension C11x of C11: the net.Conn layer on top of the Machine —
// (*Conn).Write (single-record path), (*Conn).Flush, (*Conn).WriteMessage,
// (*Conn).ClearPendingSend — with a writer that accepts an arbitrary prefix of
// what it is offered and then times out. harness/C11 drives (*Machine).Flush
// directly; callers that use the plain net.Conn interface (watchtower client /
// server, the peer's handshake-time writes) go through Conn.Write, and resume
// an interrupted write with Conn.Flush ("It is safe to call this method again
// iff a timeout error is returned").
//
// Unit (real lnd code): (*Conn).Write, (*Conn).Flush, (*Conn).WriteMessage,
// (*Conn).ClearPendingSend, (*Machine).WriteMessage / Flush / releaseBuffers,
// (*cipherState).Encrypt.
// Fakes: c11xNet (net.Conn whose Write is the symbolic writer; every other
// method of the embedded nil interface panics = obligation "not called").
// Idealised: ChaCha20-Poly1305 (engine model of harness/C11).

import (
	"bytes"
	"net"

	"golang.org/x/crypto/chacha20poly1305"
)

func c11xRefNonce(n uint64) []byte {
	nb := make([]byte, 12)
	for i := 0; i < 8; i++ {
		nb[4+i] = byte(n >> (8 * uint(i)))
	}
	return nb
}

func c11xRefSeal(key [32]byte, n uint64, ad, pt []byte) []byte {
	a, err := chacha20poly1305.New(key[:])
	if err != nil {
		panic(err)
	}
	return a.Seal(nil, c11xRefNonce(n), pt, ad)
}

func c11xArr32(name string) [32]byte {
	var a [32]byte
	copy(a[:], vBytes(name, 32))
	return a
}

type c11xErr struct{}

func (c11xErr) Error() string { return "c11x: write timeout" }

// c11xNet: the underlying connection. While `faulty` it accepts an arbitrary
// number n in [0, len(b)] of bytes per call and fails when n < len(b) (io.Writer
// contract) or, by choice, after a complete write; afterwards it accepts
// everything.
type c11xNet struct {
	net.Conn
	got    []byte
	faulty bool
	failed int
	calls  int
}

func (w *c11xNet) Write(b []byte) (int, error) {
	w.calls++
	if !w.faulty {
		w.got = append(w.got, b...)
		return len(b), nil
	}
	n := vChoice("w.n", len(b)+1)
	timeout := n == len(b) && vChoice("w.timeout", 2) == 1
	w.got = append(w.got, b[:n]...)
	if n < len(b) || timeout {
		w.failed++
		return n, c11xErr{}
	}
	return n, nil
}

func c11xConn() (c *Conn, w *c11xNet, key [32]byte, n uint64) {
	vAssumption("send cipher state at a message boundary: even nonce < 1000, keyed by the real InitializeKeyWithSalt (invariant re-established by C11's step obligations)")
	key = c11xArr32("key")
	salt := c11xArr32("salt")
	m := &Machine{}
	m.sendCipher.InitializeKeyWithSalt(salt, key)
	n = vU64("sendNonce")
	vAssume(n < keyRotationInterval-4 && n&1 == 0)
	m.sendCipher.nonce = n
	w = &c11xNet{faulty: true}
	c = &Conn{conn: w, noise: m}
	return c, w, key, n
}

func c11xWire(key [32]byte, n uint64, msg []byte) []byte {
	var l [2]byte
	l[0] = byte(len(msg) >> 8)
	l[1] = byte(len(msg))
	hdr := c11xRefSeal(key, n, nil, l[:])
	body := c11xRefSeal(key, n+1, nil, msg)
	return append(append([]byte{}, hdr...), body...)
}

// VerifC11xConnWrite: one Conn.Write over a faulty connection, resumed with
// Conn.Flush (at most `resumes` more faulty calls, then the connection
// recovers), followed by a second message. What arrives on the wire must be
// exactly the two records BOLT-8 prescribes, the plaintext counts must add up
// to the payload length, and a second message is refused while the first is
// unflushed.
func VerifC11xConnWrite()     { c11xConnWrite(3, 1) }
func VerifC11xConnWriteDeep() { c11xConnWrite(5, 2) }

func c11xConnWrite(np, resumes int) {
	c, w, key, n := c11xConn()
	p := vChoice("p", np)
	msg := vBytes("msg", p)
	wire := c11xWire(key, n, msg)

	sum, err := c.Write(msg)
	vAssert(sum >= 0 && sum <= p, "Write returns a count within the payload length")
	vAssert((err == nil) == (w.failed == 0), "Write fails exactly when the connection failed")
	vAssert(len(w.got) <= len(wire) && bytes.Equal(w.got, wire[:len(w.got)]), "bytes on the wire are a prefix of the record")

	for i := 0; err != nil && i <= resumes; i++ {
		vReach("write-interrupted")
		vAssert(err == error(c11xErr{}), "the connection's error is returned")
		// a new message is refused while the interrupted one is pending
		if i == 0 && len(w.got) < len(wire) {
			e2 := c.WriteMessage(vBytes("other", 1))
			vAssert(e2 == ErrMessageNotFlushed, "WriteMessage refuses while an interrupted Write is pending")
		}
		if i == resumes {
			w.faulty = false
		}
		before := len(w.got)
		var nn int
		nn, err = c.Flush()
		vAssert(nn >= 0, "count never negative")
		sum += nn
		vAssert(len(w.got) >= before, "resume only appends")
		vAssert(len(w.got) <= len(wire) && bytes.Equal(w.got, wire[:len(w.got)]), "the resumed flush continues the record where the connection stopped")
		vAssert(sum <= p, "running sum of counts never exceeds the payload length")
		if err == nil {
			vReach("resumed-complete")
		}
	}
	vAssert(err == nil, "the write completes once the connection accepts everything")
	vAssert(bytes.Equal(w.got, wire), "the wire carries exactly Seal(len) || Seal(msg)")
	vAssert(sum == p, "plaintext counts add up to len(msg)")

	// second message on the recovered connection: next two nonces, nothing of
	// the first message repeated or lost
	w.faulty = false
	msg2 := vBytes("msg2", 1)
	n2, err2 := c.Write(msg2)
	vAssert(err2 == nil && n2 == 1, "next Write succeeds")
	wire2 := c11xWire(key, n+2, msg2)
	vAssert(bytes.Equal(w.got, append(append([]byte{}, wire...), wire2...)), "second record follows the first unaltered, with the next nonces")
	vReach("two-records")
}

// VerifC11xClear: ClearPendingSend after an interrupted write drops the
// pending record (the connection is to be torn down): nothing more of it is
// written by a later Flush, and buffers are returned exactly once.
func VerifC11xClear() {
	c, w, key, n := c11xConn()
	p := vChoice("p", 3)
	msg := vBytes("msg", p)
	wire := c11xWire(key, n, msg)
	_, err := c.Write(msg)
	vAssert(bytes.Equal(w.got, wire[:len(w.got)]), "prefix")
	if err == nil {
		vReach("complete")
		vAssert(c.noise.pooledHeaderBuf == nil && c.noise.pooledBodyBuf == nil, "buffers released after a complete write")
		return
	}
	vReach("interrupted")
	vAssert(c.noise.nextHeaderSend != nil || c.noise.nextBodySend != nil || len(w.got) == len(wire), "an interrupted Write keeps the unsent rest")
	vAssert(len(w.got) == len(wire) || (c.noise.pooledHeaderBuf != nil && c.noise.pooledBodyBuf != nil), "pooled buffers stay owned by the Machine while bytes are pending")
	c.ClearPendingSend()
	vAssert(c.noise.pooledHeaderBuf == nil && c.noise.pooledBodyBuf == nil && c.noise.nextHeaderSend == nil && c.noise.nextBodySend == nil, "ClearPendingSend releases everything")
	before := len(w.got)
	w.faulty = false
	nn, e := c.Flush()
	vAssert(nn == 0 && e == nil && len(w.got) == before, "Flush after ClearPendingSend is a no-op")
}
