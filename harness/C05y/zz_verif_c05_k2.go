package lnwallet

// Harness for C05-K2: HTLC resolutions for a confirmed commitment (ours or
// the counterparty's), structural / integer conditions only.
//
// Unit executed symbolically (real lnd code): extractHtlcResolutions,
// newOutgoingHtlcResolution, newIncomingHtlcResolution, HtlcIsDust,
// HtlcTimeoutFee / HtlcSuccessFee, HtlcSecondLevelInputSequence,
// HtlcSigHashType, HtlcSignDetails, sweepSigHash, genHtlcScript /
// genSegwitV0HtlcScript, SecondLevelHtlcScript, CreateHtlcTimeoutTx /
// CreateHtlcSuccessTx, input.ParseSignature (real DER parser on a fixed
// signature), input.SenderHtlcSpendTimeout / ReceiverHtlcSpendRedeem (witness
// assembly), txscript.NewTxSigHashes / NewCannedPrevOutputFetcher,
// wire.MsgTx.TxHash (double SHA-256 uninterpreted).
// Fakes: input.Signer (SignOutputRaw records what it is asked to sign and
// returns a marker signature). Opaque key/script model: zz_verif_c05_vm.go.
// Channel types: legacy, tweakless, anchors, zero-fee anchors, script-enforced
// lease (taproot: K1 only).
//
// Oracle (BOLT-3 "HTLC-Timeout and HTLC-Success Transactions", BOLT-5
// "HTLC Output Handling"): for one HTLC of a confirmed commitment
//   * a dust HTLC (amount < dust limit of the commitment's owner + fee of the
//     second-level tx its owner would need) has no output and gets no
//     resolution; a non-dust one gets exactly one, offered -> timeout
//     (outgoing) resolution, received -> success (incoming) resolution;
//   * their commitment: we spend the output directly: claim outpoint =
//     (commitment txid, output index), sign descriptor output = that output
//     (BOLT-3 offered/received script from the right keys, amount in whole
//     satoshi), signed with our HTLC base point + per-commitment tweak, CSV 1
//     for anchors else 0, expiry = cltv_expiry;
//   * our commitment: a second-level tx: version 2, locktime = cltv_expiry
//     (timeout) / 0 (success), single input = that output with sequence 1 for
//     anchors else 0, single output of amount - fee(feerate, weight by type)
//     paying the second-level script(revocation key, our delayed key, OUR
//     to_self_delay[, lease iff we are the initiator of a leased channel]);
//     witness = <> <peer sig|sighash> <our sig|ALL> <> <htlc script>, peer
//     sighash SINGLE|ANYONECANPAY for anchors else ALL; our signature is
//     requested over exactly this tx, input 0, the HTLC script and the spent
//     output; afterwards claim outpoint = (second-level txid, 0) with a sign
//     descriptor for that output under our delay base point + tweak, CSV = our
//     to_self_delay; sign details (for re-signing) iff anchors.
// Script-interpreter validity and real signatures are outside.

import (
	"bytes"

	"github.com/btcsuite/btcd/btcec/v2"
	"github.com/btcsuite/btcd/btcutil/v2"
	"github.com/btcsuite/btcd/txscript/v2"
	"github.com/btcsuite/btcd/wire/v2"
	"github.com/lightningnetwork/lnd/channeldb"
	"github.com/lightningnetwork/lnd/chanstate"
	"github.com/lightningnetwork/lnd/fn/v2"
	"github.com/lightningnetwork/lnd/input"
	"github.com/lightningnetwork/lnd/keychain"
	"github.com/lightningnetwork/lnd/lntypes"
	"github.com/lightningnetwork/lnd/lnwallet/chainfee"
	"github.com/lightningnetwork/lnd/lnwire"
)

// ---- fake signer ----

type c05Sig struct{ b []byte }

func (s *c05Sig) Serialize() []byte                    { return s.b }
func (s *c05Sig) Verify([]byte, *btcec.PublicKey) bool { return false }

type c05Signer struct {
	input.Signer
	n    int
	tx   *wire.MsgTx
	desc input.SignDescriptor
}

var c05OurSig = []byte{0x30, 0x06, 0x02, 0x01, 0x07, 0x02, 0x01, 0x09}

func (s *c05Signer) SignOutputRaw(tx *wire.MsgTx, d *input.SignDescriptor) (input.Signature, error) {
	s.n++
	s.tx, s.desc = tx, *d
	return &c05Sig{b: c05OurSig}, nil
}

// the counterparty's HTLC signature as stored in LocalCommitment.Htlcs[].Signature:
// a minimal valid DER signature (r = 1, s = 1)
var c05PeerSig = []byte{0x30, 0x06, 0x02, 0x01, 0x01, 0x02, 0x01, 0x01}

var c05K2Types = []uint64{
	0,
	1 << 1,
	1<<1 | c05AnchorBit,
	1<<1 | c05AnchorBit | c05ZeroFeeBit,
	1<<1 | c05AnchorBit | c05ZeroFeeBit | c05LeaseBit,
}

func c05SameOut(a, b *wire.TxOut) bool {
	return a != nil && b != nil && a.Value == b.Value && bytes.Equal(a.PkScript, b.PkScript)
}

func VerifC05Resolution() {
	vmConfig()
	vOverflow("(github.com/lightningnetwork/lnd/lnwallet/chainfee.SatPerKWeight).FeeForWeight")
	vOverflow("github.com/lightningnetwork/lnd/lnwallet.c05RefFee")

	ctRaw := c05K2Types[vChoice("chanType", len(c05K2Types))]
	ct := channeldb.ChannelType(ctRaw)
	ourCommit := vChoice("whoseCommit", 2) == 0
	incoming := vChoice("incoming", 2) == 1
	outIdx := vChoice("outputIndex", 3)
	whose := lntypes.Remote
	if ourCommit {
		whose = lntypes.Local
	}
	anchors := ctRaw&c05AnchorBit != 0
	lease := ctRaw&c05LeaseBit != 0
	fromInitiator := vBool("isCommitFromInitiator")

	key := func(n string) keychain.KeyDescriptor { return keychain.KeyDescriptor{PubKey: vmKey(n)} }
	dustLocal, dustRemote := int64(vU32("localDustLimit")), int64(vU32("remoteDustLimit"))
	vAssume(dustLocal >= 354 && dustRemote >= 354) // BOLT-2 minimum dust limit
	localCfg := &channeldb.ChannelConfig{
		CommitmentParams: chanstate.CommitmentParams{DustLimit: btcutil.Amount(dustLocal), CsvDelay: vU16("localCsvDelay")},
		HtlcBasePoint:    key("localHtlcBase"),
		DelayBasePoint:   key("localDelayBase"),
	}
	remoteCfg := &channeldb.ChannelConfig{
		CommitmentParams: chanstate.CommitmentParams{DustLimit: btcutil.Amount(dustRemote), CsvDelay: vU16("remoteCsvDelay")},
		HtlcBasePoint:    key("remoteHtlcBase"),
		DelayBasePoint:   key("remoteDelayBase"),
	}
	keyRing := &CommitmentKeyRing{
		CommitPoint:       vmKey("commitPoint"),
		LocalHtlcKeyTweak: vBytes("localHtlcKeyTweak", 32),
		LocalHtlcKey:      vmKey("localHtlcKey"),
		RemoteHtlcKey:     vmKey("remoteHtlcKey"),
		ToLocalKey:        vmKey("toLocalKey"),
		ToRemoteKey:       vmKey("toRemoteKey"),
		RevocationKey:     vmKey("revocationKey"),
	}
	cs := &chanstate.OpenChannel{ChanType: ct, IsInitiator: fromInitiator == ourCommit}

	feeRaw := vU64("feePerKw")
	vAssume(feeRaw <= 0xffffffff) // feerate_per_kw is a u32
	feePerKw := chainfee.SatPerKWeight(feeRaw)
	leaseExpiry := vU32("leaseExpiry")
	commitHeight := vU32("commitTxHeight")

	// the HTLC (amount: 32-bit satoshi part + sub-satoshi remainder)
	sub := vU16("htlcSubSat")
	vAssume(sub < 1000)
	amtMsat := uint64(vU32("htlcSat"))*1000 + uint64(sub)
	h := channeldb.HTLC{
		Amt:           lnwire.MilliSatoshi(amtMsat),
		RefundTimeout: vU32("cltvExpiry"),
		OutputIndex:   int32(outIdx),
		Incoming:      incoming,
		HtlcIndex:     vU64("htlcIndex"),
		Signature:     c05PeerSig,
	}
	copy(h.RHash[:], vBytes("paymentHash", 32))

	// BOLT-3 script of this HTLC on this commitment, from the key ring.
	var wantWS []byte
	switch {
	case ourCommit && !incoming: // we offered
		wantWS, _ = input.SenderHTLCScript(keyRing.LocalHtlcKey, keyRing.RemoteHtlcKey, keyRing.RevocationKey, h.RHash[:], anchors)
	case ourCommit && incoming: // we received
		wantWS, _ = input.ReceiverHTLCScript(h.RefundTimeout, keyRing.RemoteHtlcKey, keyRing.LocalHtlcKey, keyRing.RevocationKey, h.RHash[:], anchors)
	case !ourCommit && incoming: // they offered
		wantWS, _ = input.SenderHTLCScript(keyRing.RemoteHtlcKey, keyRing.LocalHtlcKey, keyRing.RevocationKey, h.RHash[:], anchors)
	default: // they received
		wantWS, _ = input.ReceiverHTLCScript(h.RefundTimeout, keyRing.LocalHtlcKey, keyRing.RemoteHtlcKey, keyRing.RevocationKey, h.RHash[:], anchors)
	}
	wantPk, _ := input.WitnessScriptHash(wantWS)
	amtSat := int64(amtMsat / 1000)

	// the confirmed commitment transaction: three outputs, the HTLC's at outIdx
	commitTx := wire.NewMsgTx(2)
	var fund wire.OutPoint
	copy(fund.Hash[:], vBytes("fundingTxid", 32))
	commitTx.AddTxIn(&wire.TxIn{PreviousOutPoint: fund, Sequence: vU32("commitSequence")})
	commitTx.LockTime = vU32("commitLockTime")
	for j := 0; j < 3; j++ {
		if j == outIdx {
			commitTx.AddTxOut(&wire.TxOut{Value: amtSat, PkScript: wantPk})
			continue
		}
		pk := append([]byte{txscript.OP_0, txscript.OP_DATA_32}, vBytes("otherScript"+string(rune('0'+j)), 32)...)
		commitTx.AddTxOut(&wire.TxOut{Value: int64(vU32("otherValue" + string(rune('0'+j)))), PkScript: pk})
	}
	commitTxid := commitTx.TxHash()

	signer := &c05Signer{}
	res, err := extractHtlcResolutions(
		feePerKw, whose, signer, []channeldb.HTLC{h}, keyRing, localCfg, remoteCfg,
		commitTx, commitHeight, ct, fromInitiator, leaseExpiry, cs,
		fn.None[CommitAuxLeaves](), fn.None[AuxContractResolver](),
	)
	vAssert(err == nil && res != nil, "resolutions are extracted")
	if err != nil || res == nil {
		return
	}

	// ---- oracle ----
	ownerDust, ownerCsv := uint64(dustRemote), uint32(remoteCfg.CsvDelay)
	if ourCommit {
		ownerDust, ownerCsv = uint64(dustLocal), uint32(localCfg.CsvDelay)
	}
	// second-level tx the OWNER of the commitment needs: timeout for HTLCs the
	// owner offered, success for HTLCs the owner received
	ownerOffered := ourCommit != incoming
	fee := c05RefFee(ctRaw, feeRaw, ownerOffered)
	if uint64(amtSat) < ownerDust+fee {
		vAssert(len(res.IncomingHTLCs) == 0 && len(res.OutgoingHTLCs) == 0, "a dust HTLC has no output and gets no resolution")
		vReach("dust")
		return
	}
	if incoming {
		vAssert(len(res.IncomingHTLCs) == 1 && len(res.OutgoingHTLCs) == 0, "a received HTLC gets exactly one incoming (success) resolution")
	} else {
		vAssert(len(res.IncomingHTLCs) == 0 && len(res.OutgoingHTLCs) == 1, "an offered HTLC gets exactly one outgoing (timeout) resolution")
	}
	if (incoming && len(res.IncomingHTLCs) != 1) || (!incoming && len(res.OutgoingHTLCs) != 1) {
		return
	}
	var (
		tx       *wire.MsgTx
		details  *input.SignDetails
		csv      uint32
		claim    wire.OutPoint
		sweep    input.SignDescriptor
		expiryOK = true
	)
	if incoming {
		r := &res.IncomingHTLCs[0]
		tx, details, csv, claim, sweep = r.SignedSuccessTx, r.SignDetails, r.CsvDelay, r.ClaimOutpoint, r.SweepSignDesc
	} else {
		r := &res.OutgoingHTLCs[0]
		tx, details, csv, claim, sweep = r.SignedTimeoutTx, r.SignDetails, r.CsvDelay, r.ClaimOutpoint, r.SweepSignDesc
		expiryOK = r.Expiry == h.RefundTimeout
	}
	vAssert(expiryOK, "outgoing resolution: expiry = cltv_expiry of the HTLC")
	wantSeq := uint32(0)
	if anchors {
		wantSeq = 1
	}
	htlcOut := commitTx.TxOut[outIdx]

	if !ourCommit {
		// ---- their commitment: direct spend ----
		vAssert(tx == nil && details == nil, "their commitment: no second-level transaction")
		vAssert(claim.Hash == commitTxid && claim.Index == uint32(outIdx), "their commitment: claim outpoint = (commitment txid, HTLC output index)")
		vAssert(csv == wantSeq, "their commitment: CSV 1 with anchors, 0 without")
		vAssert(c05SameOut(sweep.Output, htlcOut) && bytes.Equal(sweep.WitnessScript, wantWS),
			"their commitment: sign descriptor output = the HTLC output of the commitment (BOLT-3 script for the direction, whole-satoshi amount)")
		vAssert(vmKeyEq(sweep.KeyDesc.PubKey, localCfg.HtlcBasePoint.PubKey) && bytes.Equal(sweep.SingleTweak, keyRing.LocalHtlcKeyTweak) &&
			sweep.DoubleTweak == nil && sweep.HashType == txscript.SigHashAll,
			"their commitment: signed with our HTLC base point + per-commitment tweak, SIGHASH_ALL")
		vAssert(signer.n == 0, "their commitment: nothing is signed at resolution time")
		if incoming {
			vReach("remote-incoming")
		} else {
			vReach("remote-outgoing")
		}
		return
	}

	// ---- our commitment: second-level transaction ----
	vAssert(tx != nil, "our commitment: a second-level transaction is built")
	if tx == nil {
		return
	}
	wantLock := uint32(0)
	if !incoming {
		wantLock = h.RefundTimeout
	}
	vAssert(tx.Version == 2 && tx.LockTime == wantLock && len(tx.TxIn) == 1 && len(tx.TxOut) == 1,
		"second level: version 2, locktime = cltv_expiry (timeout) / 0 (success), one input, one output")
	if len(tx.TxIn) != 1 || len(tx.TxOut) != 1 {
		return
	}
	in, out := tx.TxIn[0], tx.TxOut[0]
	vAssert(in.PreviousOutPoint.Hash == commitTxid && in.PreviousOutPoint.Index == uint32(outIdx) && in.Sequence == wantSeq,
		"second level: spends (commitment txid, HTLC output index) with sequence 1 for anchors else 0")
	var wantSecondWS []byte
	if lease && fromInitiator {
		wantSecondWS, _ = input.LeaseSecondLevelHtlcScript(keyRing.RevocationKey, keyRing.ToLocalKey, ownerCsv, leaseExpiry)
	} else {
		wantSecondWS, _ = input.SecondLevelHtlcScript(keyRing.RevocationKey, keyRing.ToLocalKey, ownerCsv)
	}
	wantSecondPk, _ := input.WitnessScriptHash(wantSecondWS)
	vObserve("secondLevelValue", uint64(out.Value))
	vAssert(out.Value == amtSat-int64(fee), "second level: output value = HTLC whole satoshis - fee(feerate, weight by channel type)")
	vAssert(bytes.Equal(out.PkScript, wantSecondPk),
		"second level: output script = second-level script(revocation key, our delayed key, our to_self_delay[, lease for the lease initiator])")

	// witness: <> <peer sig|sighash> <our sig|ALL> <> <htlc script>
	peerHash := byte(txscript.SigHashAll)
	if anchors {
		peerHash = byte(txscript.SigHashSingle | txscript.SigHashAnyOneCanPay)
	}
	w := in.Witness
	vAssert(len(w) == 5, "second level: five witness elements")
	if len(w) == 5 {
		vAssert(len(w[0]) == 0 && len(w[3]) == 0 &&
			bytes.Equal(w[1], append(append([]byte{}, c05PeerSig...), peerHash)) &&
			bytes.Equal(w[2], append(append([]byte{}, c05OurSig...), byte(txscript.SigHashAll))) &&
			bytes.Equal(w[4], wantWS),
			"second level: witness = <> <peer sig|SINGLE+ANYONECANPAY for anchors else ALL> <our sig|ALL> <> <BOLT-3 HTLC script>")
	}
	vAssert(signer.n == 1 && signer.tx == tx && signer.desc.InputIndex == 0 &&
		c05SameOut(signer.desc.Output, htlcOut) && bytes.Equal(signer.desc.WitnessScript, wantWS) &&
		vmKeyEq(signer.desc.KeyDesc.PubKey, localCfg.HtlcBasePoint.PubKey) &&
		bytes.Equal(signer.desc.SingleTweak, keyRing.LocalHtlcKeyTweak) && signer.desc.HashType == txscript.SigHashAll,
		"second level: our signature is requested once, over this tx, input 0, the HTLC script and output, with our HTLC base point + tweak")
	if anchors {
		vAssert(details != nil && byte(details.SigHashType) == peerHash && details.PeerSig != nil &&
			bytes.Equal(details.PeerSig.Serialize(), c05PeerSig) && c05SameOut(details.SignDesc.Output, htlcOut),
			"anchors: sign details kept for re-signing (peer sig, SINGLE|ANYONECANPAY, the HTLC output)")
	} else {
		vAssert(details == nil, "no sign details without anchors")
	}

	// the output of the second-level tx is what is swept after the delay
	vAssert(claim.Hash == tx.TxHash() && claim.Index == 0, "claim outpoint = (second-level txid, 0)")
	vAssert(csv == ownerCsv, "CSV delay = our to_self_delay (the commitment owner's)")
	vAssert(c05SameOut(sweep.Output, out) && bytes.Equal(sweep.WitnessScript, wantSecondWS),
		"sweep descriptor output = the second-level output (script and amount)")
	vAssert(vmKeyEq(sweep.KeyDesc.PubKey, localCfg.DelayBasePoint.PubKey) &&
		bytes.Equal(sweep.SingleTweak, input.SingleTweakBytes(keyRing.CommitPoint, localCfg.DelayBasePoint.PubKey)) &&
		sweep.DoubleTweak == nil && sweep.HashType == txscript.SigHashAll,
		"sweep descriptor: our delay base point + per-commitment tweak, SIGHASH_ALL")
	if incoming {
		vReach("local-incoming")
	} else {
		vReach("local-outgoing")
	}
	if lease && fromInitiator {
		vReach("lease-initiator")
	}
}
