package lnwallet

// Harness for C05-K1: the second-level HTLC transactions.
//
// Unit executed symbolically (real lnd code):
//   lnwallet.CreateHtlcTimeoutTx, lnwallet.CreateHtlcSuccessTx,
//   lnwallet.HtlcSecondLevelInputSequence, lnwallet.HtlcTimeoutFee,
//   lnwallet.HtlcSuccessFee, lnwallet.SecondLevelHtlcScript (the channel-type
//   switch), chainfee.SatPerKWeight.FeeForWeight, the ChannelType predicates,
//   wire.NewMsgTx/AddTxIn/AddTxOut.
//
// Opaque script model (DESIGN 3.5; listed in spec.json "assumptions"): the
// script *templates* input.WitnessScriptHash, input.SecondLevelHtlcScript,
// input.LeaseSecondLevelHtlcScript and input.TaprootSecondLevelScriptTree are
// uninterpreted functions of their arguments (zz_verif_c05_model.go); natively
// the real builders run on real secp256k1 keys. Script validity is outside.
//
// Oracle: BOLT-3 "HTLC-Timeout and HTLC-Success Transactions" and "Fee
// Calculation": version 2; locktime 0 for success, cltv_expiry for timeout;
// one input spending (commitment txid, htlc output index) with sequence 0, or
// 1 for option_anchors; one output of (htlc amount in whole satoshi) minus
// (feerate_per_kw * weight / 1000 rounded down), weight 663/703 without and
// 666/706 with option_anchors, fee 0 for zero-fee-htlc-tx anchors and for
// simple taproot channels; the output script is the second-level script for
// (revocation key, local delayed key, to_self_delay) - with the additional
// lease CLTV only for the initiator of a script-enforced lease.

import (
	"bytes"

	"github.com/btcsuite/btcd/btcutil/v2"
	"github.com/btcsuite/btcd/wire/v2"
	"github.com/lightningnetwork/lnd/channeldb"
	"github.com/lightningnetwork/lnd/input"
	"github.com/lightningnetwork/lnd/lnwallet/chainfee"
	"github.com/lightningnetwork/lnd/lnwire"
)

// channel type bits written out (chanstate/channel_type.go) so that the
// oracle does not use the predicates under test.
const (
	c05AnchorBit  = uint64(1) << 3
	c05ZeroFeeBit = uint64(1) << 5
	c05LeaseBit   = uint64(1) << 6
	c05TaprootBit = uint64(1) << 10
	c05FinalBit   = uint64(1) << 12
)

// 21e6 BTC in millisatoshi: no HTLC exceeds the money supply.
const c05MaxMsat = uint64(2_100_000_000_000_000_000)

// c05RefFee is the BOLT-3 fee of a second-level transaction.
func c05RefFee(ct uint64, feePerKw uint64, timeout bool) uint64 {
	if ct&c05ZeroFeeBit != 0 || ct&c05TaprootBit != 0 {
		return 0
	}
	var weight uint64
	switch {
	case timeout && ct&c05AnchorBit == 0:
		weight = 663
	case timeout:
		weight = 666
	case ct&c05AnchorBit == 0:
		weight = 703
	default:
		weight = 706
	}
	return feePerKw * weight / 1000
}

// c05RefScript builds the expected output script directly from the template
// the BOLT prescribes for the channel type.
func c05RefScript(ct uint64, initiator bool, k c05Keys2, csv, lease uint32) []byte {
	switch {
	case ct&c05TaprootBit != 0:
		var opts []input.TaprootScriptOpt
		if ct&c05FinalBit != 0 {
			opts = append(opts, input.WithProdScripts())
		}
		tree, err := input.TaprootSecondLevelScriptTree(k.rev, k.delay, csv, input.NoneTapLeaf(), opts...)
		if err != nil {
			return nil
		}
		return tree.PkScript()
	case ct&c05LeaseBit != 0 && initiator:
		ws, err := input.LeaseSecondLevelHtlcScript(k.rev, k.delay, csv, lease)
		if err != nil {
			return nil
		}
		pk, _ := input.WitnessScriptHash(ws)
		return pk
	default:
		ws, err := input.SecondLevelHtlcScript(k.rev, k.delay, csv)
		if err != nil {
			return nil
		}
		pk, _ := input.WitnessScriptHash(ws)
		return pk
	}
}

func c05SecondLevel(timeout bool) {
	c05Config()
	vOverflow("(github.com/lightningnetwork/lnd/lnwallet/chainfee.SatPerKWeight).FeeForWeight")
	vOverflow("github.com/lightningnetwork/lnd/lnwallet.c05RefFee")

	// Any combination of channel-type bits (a superset of the seven types
	// lnd creates).
	ctRaw := vU64("chanType")
	ct := channeldb.ChannelType(ctRaw)
	// feerate_per_kw is a u32 in update_fee / open_channel.
	feeRaw := vU64("feePerKw")
	vAssume(feeRaw <= 0xffffffff)
	feePerKw := chainfee.SatPerKWeight(feeRaw)
	// amount_msat of update_add_htlc, at most the money supply.
	amtMsat := vU64("htlcMsat")
	vAssume(amtMsat <= c05MaxMsat)
	initiator := vBool("isCommitFromInitiator")
	cltv, csv, lease := vU32("cltvExpiry"), vU32("csvDelay"), vU32("leaseExpiry")
	var op wire.OutPoint
	copy(op.Hash[:], vBytes("commitTxid", 32))
	op.Index = vU32("htlcOutputIndex")
	k := c05Keys2{rev: c05Key("revocationKey"), delay: c05Key("delayKey")}

	var (
		fee btcutil.Amount
		tx  *wire.MsgTx
		err error
	)
	amtSat := lnwire.MilliSatoshi(amtMsat).ToSatoshis()
	if timeout {
		fee = HtlcTimeoutFee(ct, feePerKw)
		tx, err = CreateHtlcTimeoutTx(
			ct, initiator, op, amtSat-fee, cltv, csv, lease, k.rev, k.delay, input.NoneTapLeaf(),
		)
	} else {
		fee = HtlcSuccessFee(ct, feePerKw)
		tx, err = CreateHtlcSuccessTx(
			ct, initiator, op, amtSat-fee, csv, lease, k.rev, k.delay, input.NoneTapLeaf(),
		)
	}
	vObserve("fee", uint64(fee))
	wantFee := c05RefFee(ctRaw, feeRaw, timeout)
	vAssert(fee >= 0 && uint64(fee) == wantFee, "second-level fee = feerate*weight/1000 for the channel type (0 for zero-fee/taproot)")

	vAssert(err == nil && tx != nil, "second-level transaction is built")
	if err != nil || tx == nil {
		return
	}
	vAssert(tx.Version == 2, "version 2")
	if timeout {
		vAssert(tx.LockTime == cltv, "timeout tx: locktime = cltv expiry")
	} else {
		vAssert(tx.LockTime == 0, "success tx: locktime = 0")
	}
	vAssert(len(tx.TxIn) == 1 && len(tx.TxOut) == 1, "one input, one output")
	if len(tx.TxIn) != 1 || len(tx.TxOut) != 1 {
		return
	}
	in, out := tx.TxIn[0], tx.TxOut[0]
	vAssert(in.PreviousOutPoint.Hash == op.Hash && in.PreviousOutPoint.Index == op.Index,
		"input spends (commitment txid, htlc output index)")
	wantSeq := uint32(0)
	if ctRaw&c05AnchorBit != 0 {
		wantSeq = 1
	}
	vObserve("sequence", in.Sequence)
	vAssert(in.Sequence == wantSeq, "input sequence: 1 with anchors, 0 without")
	vAssert(HtlcSecondLevelInputSequence(ct) == wantSeq, "HtlcSecondLevelInputSequence: 1 with anchors, 0 without")
	vObserve("value", uint64(out.Value))
	vAssert(out.Value == int64(amtMsat/1000)-int64(wantFee), "output value = HTLC satoshis - second-level fee")
	want := c05RefScript(ctRaw, initiator, k, csv, lease)
	vAssert(want != nil && bytes.Equal(out.PkScript, want),
		"output script = second-level script(revocation key, delay key, csv[, lease for the lease initiator])")

	switch {
	case ctRaw&c05TaprootBit != 0:
		vReach("taproot")
	case ctRaw&c05ZeroFeeBit != 0:
		vReach("zero-fee")
	case ctRaw&c05AnchorBit != 0:
		vReach("anchors-with-fee")
	default:
		vReach("legacy")
	}
	if ctRaw&c05LeaseBit != 0 && ctRaw&c05TaprootBit == 0 && initiator {
		vReach("lease-initiator")
	}
}

// VerifC05TimeoutTx: HtlcTimeoutFee + CreateHtlcTimeoutTx.
func VerifC05TimeoutTx() { c05SecondLevel(true) }

// VerifC05SuccessTx: HtlcSuccessFee + CreateHtlcSuccessTx.
func VerifC05SuccessTx() { c05SecondLevel(false) }
