package lnwallet

// Opaque key / script model for the C05-K2 harness (DESIGN 3.5).
//
// Symbolically a public key is an empty *btcec.PublicKey whose identity is a
// vector of 32 symbolic bytes kept in a side table. Every function of package
// input that builds a script with txscript.ScriptTemplate (text/template +
// reflect) or does elliptic-curve arithmetic is replaced (vReplace) by an ideal
// function of its arguments:
//   * all witness scripts are ONE uninterpreted function "wscript" of a fixed
//     170-byte layout (template tag, up to four key identities, payment hash,
//     two 32-bit numbers, a flag) that is assumed injective: two witness
//     scripts are equal iff they are the same template applied to equal
//     arguments (the real templates embed every argument, so they are
//     injective in them; equal identities <-> equal keys);
//   * P2WSH / P2WKH programs are injective ideal hashes of the witness script /
//     key identity;
//   * key tweaks (TweakPubKey, DeriveRevocationPubkey, SingleTweakBytes,
//     PrivKeyFromBytes -> public point) are uninterpreted functions of the
//     identities involved.
// Natively (replay) vReplace is a no-op: keys are real secp256k1 keys derived
// from the same 32 bytes and all the real lnd / btcd code runs.

import (
	"bytes"
	"crypto/sha256"

	"github.com/btcsuite/btcd/btcec/v2"
	"github.com/btcsuite/btcd/btcutil/v2"
	"github.com/btcsuite/btcd/txscript/v2"
	"github.com/lightningnetwork/lnd/channeldb"
	"github.com/lightningnetwork/lnd/lntypes"
	"github.com/lightningnetwork/lnd/lnwallet/chainfee"
)

type vmKeyEnt struct {
	k  *btcec.PublicKey
	id []byte
}

var vmKeyTab []vmKeyEnt

// vmKey returns a fresh key named by 32 input bytes.
func vmKey(name string) *btcec.PublicKey {
	id := vBytes(name, 32)
	if vNative() {
		h := sha256.Sum256(id)
		_, pub := btcec.PrivKeyFromBytes(h[:])
		return pub
	}
	return vmNewKey(id)
}

func vmNewKey(id []byte) *btcec.PublicKey {
	k := new(btcec.PublicKey)
	vmKeyTab = append(vmKeyTab, vmKeyEnt{k: k, id: id})
	return k
}

var vmZero32 = make([]byte, 32)

// vmKeyID: the identity bytes of a model key (symbolic runs only).
func vmKeyID(k *btcec.PublicKey) []byte {
	if k == nil {
		return vmZero32
	}
	for _, e := range vmKeyTab {
		if e.k == k {
			return e.id
		}
	}
	panic("verif model: key that the harness did not create")
}

// vmKeyEq compares two public keys: curve points natively, identities
// symbolically.
func vmKeyEq(a, b *btcec.PublicKey) bool {
	if a == nil || b == nil {
		return a == b
	}
	if vNative() {
		return a.IsEqual(b)
	}
	return bytes.Equal(vmKeyID(a), vmKeyID(b))
}

func vmU32(v uint32) []byte {
	return []byte{byte(v >> 24), byte(v >> 16), byte(v >> 8), byte(v)}
}

// witness-script template tags
const (
	vmTagToSelf = iota + 1
	vmTagLeaseToSelf
	vmTagToRemoteConfirmed
	vmTagLeaseToRemoteConfirmed
	vmTagAnchor
	vmTagSenderHTLC
	vmTagReceiverHTLC
	vmTagSecondLevel
	vmTagLeaseSecondLevel
)

// vmScript: the single ideal witness-script function.
func vmScript(tag byte, k0, k1, k2 *btcec.PublicKey, hash []byte, a, b uint32, flag bool) []byte {
	if hash == nil {
		hash = vmZero32
	}
	if len(hash) != 32 {
		panic("verif model: payment hash must be 32 bytes")
	}
	f := byte(0)
	if flag {
		f = 1
	}
	return vHash("wscript", 48, []byte{tag}, vmKeyID(k0), vmKeyID(k1), vmKeyID(k2), vmZero32,
		hash, vmU32(a), vmU32(b), []byte{f})
}

// ---- replacements for package input ----

func vmWitnessScriptHash(witnessScript []byte) ([]byte, error) {
	if len(witnessScript) != 48 {
		panic("verif model: witness script not produced by the model")
	}
	return append([]byte{txscript.OP_0, txscript.OP_DATA_32}, vHash("sha256", 32, witnessScript)...), nil
}

func vmCommitScriptUnencumbered(key *btcec.PublicKey) ([]byte, error) {
	return append([]byte{txscript.OP_0, txscript.OP_DATA_20}, vHash("hash160", 20, vmKeyID(key))...), nil
}

func vmCommitScriptToSelf(csvTimeout uint32, selfKey, revokeKey *btcec.PublicKey) ([]byte, error) {
	return vmScript(vmTagToSelf, selfKey, revokeKey, nil, nil, csvTimeout, 0, false), nil
}

func vmLeaseCommitScriptToSelf(selfKey, revokeKey *btcec.PublicKey, csvTimeout, leaseExpiry uint32) ([]byte, error) {
	return vmScript(vmTagLeaseToSelf, selfKey, revokeKey, nil, nil, csvTimeout, leaseExpiry, false), nil
}

func vmCommitScriptToRemoteConfirmed(key *btcec.PublicKey) ([]byte, error) {
	return vmScript(vmTagToRemoteConfirmed, key, nil, nil, nil, 0, 0, false), nil
}

func vmLeaseCommitScriptToRemoteConfirmed(key *btcec.PublicKey, leaseExpiry uint32) ([]byte, error) {
	return vmScript(vmTagLeaseToRemoteConfirmed, key, nil, nil, nil, 0, leaseExpiry, false), nil
}

func vmCommitScriptAnchor(key *btcec.PublicKey) ([]byte, error) {
	return vmScript(vmTagAnchor, key, nil, nil, nil, 0, 0, false), nil
}

func vmSenderHTLCScript(senderHtlcKey, receiverHtlcKey, revocationKey *btcec.PublicKey,
	paymentHash []byte, confirmedSpend bool) ([]byte, error) {

	return vmScript(vmTagSenderHTLC, senderHtlcKey, receiverHtlcKey, revocationKey, paymentHash, 0, 0, confirmedSpend), nil
}

func vmReceiverHTLCScript(cltvExpiry uint32, senderHtlcKey, receiverHtlcKey, revocationKey *btcec.PublicKey,
	paymentHash []byte, confirmedSpend bool) ([]byte, error) {

	return vmScript(vmTagReceiverHTLC, senderHtlcKey, receiverHtlcKey, revocationKey, paymentHash, cltvExpiry, 0, confirmedSpend), nil
}

func vmSecondLevelHtlcScript(revocationKey, delayKey *btcec.PublicKey, csvDelay uint32) ([]byte, error) {
	return vmScript(vmTagSecondLevel, revocationKey, delayKey, nil, nil, csvDelay, 0, false), nil
}

func vmLeaseSecondLevelHtlcScript(revocationKey, delayKey *btcec.PublicKey, csvDelay, cltvExpiry uint32) ([]byte, error) {
	return vmScript(vmTagLeaseSecondLevel, revocationKey, delayKey, nil, nil, csvDelay, cltvExpiry, false), nil
}

func vmSingleTweakBytes(commitPoint, basePoint *btcec.PublicKey) []byte {
	return vHash("singletweak", 32, vmKeyID(commitPoint), vmKeyID(basePoint))
}

func vmTweakPubKey(basePoint, commitPoint *btcec.PublicKey) *btcec.PublicKey {
	return vmNewKey(vHash("tweakpubkey", 32, vmKeyID(basePoint), vmKeyID(commitPoint)))
}

func vmDeriveRevocationPubkey(revokeBase, commitPoint *btcec.PublicKey) *btcec.PublicKey {
	return vmNewKey(vHash("revocationpubkey", 32, vmKeyID(revokeBase), vmKeyID(commitPoint)))
}

// vmPrivKeyFromBytes: the private key stays an opaque pointer, the public
// point is an ideal function of the secret.
func vmPrivKeyFromBytes(pk []byte) (*btcec.PrivateKey, *btcec.PublicKey) {
	return new(btcec.PrivateKey), vmNewKey(vHash("scalarbasemult", 32, pk))
}

// vmHtlcIsDust forces a case split on the result of the REAL HtlcIsDust (the
// self-replacement makes the engine run the original body): without it the
// engine merges "if HtlcIsDust(..) {continue}; numHTLCs++" into an ite, the
// commitment weight becomes symbolic and every later query contains
// feePerKw * weight (symbolic x symbolic).
var vmSink int

func vmHtlcIsDust(chanType channeldb.ChannelType, incoming bool, whoseCommit lntypes.ChannelParty,
	feePerKw chainfee.SatPerKWeight, htlcAmt, dustLimit btcutil.Amount) bool {

	const real = "github.com/lightningnetwork/lnd/lnwallet.HtlcIsDust"
	vReplace(real, real)
	d := HtlcIsDust(chanType, incoming, whoseCommit, feePerKw, htlcAmt, dustLimit)
	vReplace(real, "github.com/lightningnetwork/lnd/lnwallet.vmHtlcIsDust")
	if d {
		vmSink++
		return true
	}
	vmSink--
	return false
}

func vmConfig() {
	vmKeyTab = nil
	vReplace("github.com/lightningnetwork/lnd/lnwallet.HtlcIsDust", "github.com/lightningnetwork/lnd/lnwallet.vmHtlcIsDust")
	const in = "github.com/lightningnetwork/lnd/input."
	const me = "github.com/lightningnetwork/lnd/lnwallet."
	for _, f := range []string{
		"WitnessScriptHash", "CommitScriptUnencumbered", "CommitScriptToSelf", "LeaseCommitScriptToSelf",
		"CommitScriptToRemoteConfirmed", "LeaseCommitScriptToRemoteConfirmed", "CommitScriptAnchor",
		"SenderHTLCScript", "ReceiverHTLCScript", "SecondLevelHtlcScript", "LeaseSecondLevelHtlcScript",
		"SingleTweakBytes", "TweakPubKey", "DeriveRevocationPubkey",
	} {
		vReplace(in+f, me+"vm"+f)
	}
	vReplace("github.com/btcsuite/btcd/btcec/v2.PrivKeyFromBytes", me+"vmPrivKeyFromBytes")
	vInjective("wscript")
	vInjective("sha256")
	vInjective("hash160")
	vAssumption("opaque script model: the script builders of package input (WitnessScriptHash, CommitScriptUnencumbered, CommitScriptToSelf, LeaseCommitScriptToSelf, CommitScriptToRemoteConfirmed, LeaseCommitScriptToRemoteConfirmed, CommitScriptAnchor, SenderHTLCScript, ReceiverHTLCScript, SecondLevelHtlcScript, LeaseSecondLevelHtlcScript) are one injective ideal function of (template, key identities, payment hash, numbers, flag); P2WSH/P2WKH programs are injective ideal hashes")
	vAssumption("opaque key model: public keys are 32-byte identities; input.TweakPubKey, DeriveRevocationPubkey, SingleTweakBytes and btcec.PrivKeyFromBytes are uninterpreted functions of the identities/secret (native replay: real secp256k1 keys derived from the same bytes, real derivations)")
}
