package lnwallet

// Opaque key / script model shared by the C05 harnesses (DESIGN 3.5).
//
// Symbolically a public key is an empty *btcec.PublicKey whose identity is a
// vector of 32 symbolic bytes kept in a side table; the script *templates* of
// package input are replaced (vReplace) by ideal hashes of their arguments, so
// two scripts are provably equal iff they are the same template applied to
// equal arguments and nothing is assumed otherwise. Natively (replay) vReplace
// is a no-op: keys are real secp256k1 keys derived from the same 32 bytes and
// the real script builders of package input run.

import (
	"crypto/sha256"

	"github.com/btcsuite/btcd/btcec/v2"
	"github.com/btcsuite/btcd/txscript/v2"
	"github.com/lightningnetwork/lnd/input"
)

type c05Keys2 struct{ rev, delay *btcec.PublicKey }

type c05KeyEnt struct {
	k  *btcec.PublicKey
	id []byte
}

var c05KeyTab []c05KeyEnt

// c05Key returns a fresh key named by 32 input bytes.
func c05Key(name string) *btcec.PublicKey {
	id := vBytes(name, 32)
	if vNative() {
		// a valid curve point, injective in id for all practical purposes
		h := sha256.Sum256(id)
		_, pub := btcec.PrivKeyFromBytes(h[:])
		return pub
	}
	return c05NewKey(id)
}

func c05NewKey(id []byte) *btcec.PublicKey {
	k := new(btcec.PublicKey)
	c05KeyTab = append(c05KeyTab, c05KeyEnt{k: k, id: id})
	return k
}

// c05KeyID: the identity bytes of a model key (symbolic runs only).
func c05KeyID(k *btcec.PublicKey) []byte {
	for _, e := range c05KeyTab {
		if e.k == k {
			return e.id
		}
	}
	if k == nil {
		return []byte("nil-key")
	}
	panic("c05: key that the harness did not create")
}

func c05U32(v uint32) []byte {
	return []byte{byte(v >> 24), byte(v >> 16), byte(v >> 8), byte(v)}
}

func vC05SecondLevelHtlcScript(revocationKey, delayKey *btcec.PublicKey,
	csvDelay uint32) ([]byte, error) {

	return vHash("input.SecondLevelHtlcScript", 40,
		c05KeyID(revocationKey), c05KeyID(delayKey), c05U32(csvDelay)), nil
}

func vC05LeaseSecondLevelHtlcScript(revocationKey, delayKey *btcec.PublicKey,
	csvDelay, cltvExpiry uint32) ([]byte, error) {

	return vHash("input.LeaseSecondLevelHtlcScript", 40,
		c05KeyID(revocationKey), c05KeyID(delayKey), c05U32(csvDelay), c05U32(cltvExpiry)), nil
}

func vC05TaprootSecondLevelScriptTree(revokeKey, delayKey *btcec.PublicKey,
	csvDelay uint32, auxLeaf input.AuxTapLeaf,
	opts ...input.TaprootScriptOpt) (*input.SecondLevelScriptTree, error) {

	// the only option that exists is WithProdScripts
	prod := []byte{byte(len(opts))}
	aux := []byte{0}
	if auxLeaf.IsSome() {
		aux[0] = 1
	}
	leaf := vHash("input.TaprootSecondLevelTapLeaf", 40, c05KeyID(delayKey), c05U32(csvDelay), prod, aux)
	outKey := vHash("input.TaprootSecondLevelScriptTree.TaprootKey", 32, c05KeyID(revokeKey), leaf)

	return &input.SecondLevelScriptTree{
		ScriptTree: input.ScriptTree{
			InternalKey:   revokeKey,
			TaprootKey:    c05NewKey(outKey),
			TapscriptRoot: vHash("taphash", 32, leaf),
		},
		SuccessTapLeaf: txscript.TapLeaf{
			LeafVersion: txscript.BaseLeafVersion,
			Script:      leaf,
		},
		AuxLeaf: auxLeaf,
	}, nil
}

func vC05PayToTaprootScript(taprootKey *btcec.PublicKey) ([]byte, error) {
	return append([]byte{txscript.OP_1, txscript.OP_DATA_32}, c05KeyID(taprootKey)...), nil
}

// vC05WitnessScriptHash: P2WSH program of a witness script (sha256 as an ideal
// hash; the real function assembles it with text/template, which needs
// reflect).
func vC05WitnessScriptHash(witnessScript []byte) ([]byte, error) {
	return append([]byte{txscript.OP_0, txscript.OP_DATA_32}, vHash("sha256", 32, witnessScript)...), nil
}

func c05Config() {
	c05KeyTab = nil
	const in = "github.com/lightningnetwork/lnd/input."
	const me = "github.com/lightningnetwork/lnd/lnwallet."
	vReplace(in+"SecondLevelHtlcScript", me+"vC05SecondLevelHtlcScript")
	vReplace(in+"LeaseSecondLevelHtlcScript", me+"vC05LeaseSecondLevelHtlcScript")
	vReplace(in+"TaprootSecondLevelScriptTree", me+"vC05TaprootSecondLevelScriptTree")
	vReplace(in+"PayToTaprootScript", me+"vC05PayToTaprootScript")
	vReplace(in+"WitnessScriptHash", me+"vC05WitnessScriptHash")
	vAssumption("opaque script model: input.SecondLevelHtlcScript, LeaseSecondLevelHtlcScript, TaprootSecondLevelScriptTree, PayToTaprootScript, WitnessScriptHash are ideal hashes of (key identities, delays, flags); public keys are opaque 32-byte identities (native replay: real secp256k1 keys, real script builders)")
}
