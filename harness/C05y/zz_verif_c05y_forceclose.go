package lnwallet

// Harness for C05y: the CALLER of the local close summary builder,
// (*LightningChannel).ForceClose, when the in-memory local commitment chain is
// AHEAD of what is durable (between ReceiveNewCommitment - tip = tail+1 in
// lc.commitChains.Local, nothing persisted - and RevokeCurrentCommitment).
//
// Unit executed symbolically (real lnd code): (*LightningChannel).ForceClose,
// defaultForceCloseConfig, (*OpenChannel).HasChanStatus / Snapshot,
// getSignedCommitTx / GetSignedCommitTx (non-taproot branch: real DER parser
// on a fixed peer signature, input.NewTxSigHashesV0Only, input.SpendMultiSig),
// NewLocalForceCloseSummary, input.ComputeCommitmentPoint,
// DeriveCommitmentKeys, CommitScriptToSelf, extractHtlcResolutions /
// newOutgoingHtlcResolution (our commitment, offered HTLC),
// NewAnchorResolution.
// Fakes: shachain.Producer (AtIndex records the index and returns the ideal
// secret sec(index)), input.Signer (records every (tx, descriptor), returns a
// marker signature). Opaque key / script model: zz_verif_c05_vm.go (unchanged
// copy from C05): point(secret), key tweaks and scripts are ideal functions;
// the native replay runs the real ones on real secp256k1 keys.
//
// Scenario: channelState.LocalCommitment is the durable commitment at height
// h (symbolic) whose transaction carries a to_local output and 0..1 offered
// HTLC, both built from the keys of per-commitment point point(sec(h)). The
// in-memory chain lc.commitChains.Local holds the tail at h and - symbolic
// flag - a tip at h+1 (a commitment the peer signed that is not yet durable).
//
// Oracle (BOLT-5 "Unilateral Close Handling: Local Commitment Transaction",
// BOLT-3 key derivation): whatever the in-memory chain holds,
//   * the transaction returned for broadcast is the durable commitment
//     transaction (same inputs / outputs / locktime, only the funding witness
//     added);
//   * the revocation producer is asked exactly once, for index h = the height
//     of THAT transaction;
//   * the to_local output is found: CommitResolution != nil, it points at
//     (txid, index) of that output, value and script are that output's, the
//     witness script is to_local(delayed key(h), revocation key(h), our
//     to_self_delay), signed with our delay base point + tweak of point(sec(h));
//   * the HTLC, when present, gets one outgoing resolution whose timeout tx
//     spends that output of the durable transaction, signed under the HTLC
//     script / tweak of point(sec(h)); the swept second-level output is under
//     delay base point + tweak of point(sec(h)).

import (
	"bytes"

	"github.com/btcsuite/btcd/btcutil/v2"
	"github.com/btcsuite/btcd/chainhash/v2"
	"github.com/btcsuite/btcd/txscript/v2"
	"github.com/btcsuite/btcd/wire/v2"
	"github.com/lightningnetwork/lnd/channeldb"
	"github.com/lightningnetwork/lnd/chanstate"
	"github.com/lightningnetwork/lnd/input"
	"github.com/lightningnetwork/lnd/keychain"
	"github.com/lightningnetwork/lnd/lntypes"
	"github.com/lightningnetwork/lnd/lnwire"
	"github.com/lightningnetwork/lnd/shachain"
)

// ---- fake revocation producer: sec(i) is an ideal function of i ----

func c05ySecret(i uint64) []byte {
	return vHash("c05ysec", 32, []byte{byte(i >> 56), byte(i >> 48), byte(i >> 40), byte(i >> 32),
		byte(i >> 24), byte(i >> 16), byte(i >> 8), byte(i)})
}

type c05yProducer struct {
	shachain.Producer
	asked []uint64
}

func (p *c05yProducer) AtIndex(i uint64) (*chainhash.Hash, error) {
	p.asked = append(p.asked, i)
	var h chainhash.Hash
	copy(h[:], c05ySecret(i))
	return &h, nil
}

// ---- fake signer that keeps every request ----

type c05yReq struct {
	tx   *wire.MsgTx
	desc input.SignDescriptor
}

type c05ySigner struct {
	input.Signer
	reqs []c05yReq
}

func (s *c05ySigner) SignOutputRaw(tx *wire.MsgTx, d *input.SignDescriptor) (input.Signature, error) {
	s.reqs = append(s.reqs, c05yReq{tx: tx, desc: *d})
	return &c05Sig{b: c05OurSig}, nil
}

// non-taproot channel types: legacy, tweakless, anchors
var c05yTypes = []uint64{0, 1 << 1, 1<<1 | c05AnchorBit}

func VerifC05yForceClose() {
	vmConfig()
	vInjective("c05ysec")

	ctRaw := c05yTypes[vChoice("chanType", len(c05yTypes))]
	ct := channeldb.ChannelType(ctRaw)
	anchors := ctRaw&c05AnchorBit != 0
	withHtlc := vChoice("withHtlc", 2) == 1
	tipAhead := vBool("tipAhead")

	// durable height: commitment numbers are 48-bit (BOLT-3 obscured
	// commitment number); h+1 must exist as well
	h := vU64("durableHeight")
	vAssume(h < 1<<48-1)

	key := func(n string) keychain.KeyDescriptor { return keychain.KeyDescriptor{PubKey: vmKey(n)} }
	dustLocal, dustRemote := int64(vU32("localDustLimit")), int64(vU32("remoteDustLimit"))
	vAssume(dustLocal >= 354 && dustRemote >= 354) // BOLT-2 minimum dust limit
	feeRaw := vU64("feePerKw")
	vAssume(feeRaw <= 0xffffffff) // feerate_per_kw is a u32

	prod := &c05yProducer{}
	cs := &chanstate.OpenChannel{
		ChanType:    ct,
		IsInitiator: vBool("isInitiator"),
		IdentityPub: vmKey("remoteIdentity"),
		Capacity:    btcutil.Amount(vU32("capacity")),
		LocalChanCfg: channeldb.ChannelConfig{
			CommitmentParams:    chanstate.CommitmentParams{DustLimit: btcutil.Amount(dustLocal), CsvDelay: vU16("localCsvDelay")},
			MultiSigKey:         key("localMultiSig"),
			RevocationBasePoint: key("localRevocationBase"),
			PaymentBasePoint:    key("localPaymentBase"),
			DelayBasePoint:      key("localDelayBase"),
			HtlcBasePoint:       key("localHtlcBase"),
		},
		RemoteChanCfg: channeldb.ChannelConfig{
			CommitmentParams:    chanstate.CommitmentParams{DustLimit: btcutil.Amount(dustRemote), CsvDelay: vU16("remoteCsvDelay")},
			MultiSigKey:         key("remoteMultiSig"),
			RevocationBasePoint: key("remoteRevocationBase"),
			PaymentBasePoint:    key("remotePaymentBase"),
			DelayBasePoint:      key("remoteDelayBase"),
			HtlcBasePoint:       key("remoteHtlcBase"),
		},
		RevocationProducer: prod,
	}
	copy(cs.FundingOutpoint.Hash[:], vBytes("fundingTxid", 32))
	cs.FundingOutpoint.Index = uint32(vU16("fundingIndex"))

	// ---- keys of the DURABLE commitment: per-commitment point of height h ----
	commitPoint := input.ComputeCommitmentPoint(c05ySecret(h))
	toLocalKey := input.TweakPubKey(cs.LocalChanCfg.DelayBasePoint.PubKey, commitPoint)
	revKey := input.DeriveRevocationPubkey(cs.RemoteChanCfg.RevocationBasePoint.PubKey, commitPoint)
	localHtlcKey := input.TweakPubKey(cs.LocalChanCfg.HtlcBasePoint.PubKey, commitPoint)
	remoteHtlcKey := input.TweakPubKey(cs.RemoteChanCfg.HtlcBasePoint.PubKey, commitPoint)
	csv := uint32(cs.LocalChanCfg.CsvDelay)
	toLocalWS, _ := input.CommitScriptToSelf(csv, toLocalKey, revKey)
	toLocalPk, _ := input.WitnessScriptHash(toLocalWS)

	// the offered HTLC (non-dust on our commitment: it has an output)
	sub := vU16("htlcSubSat")
	vAssume(sub < 1000)
	amtMsat := uint64(vU32("htlcSat"))*1000 + uint64(sub)
	amtSat := int64(amtMsat / 1000)
	htlc := channeldb.HTLC{
		Amt:           lnwire.MilliSatoshi(amtMsat),
		RefundTimeout: vU32("cltvExpiry"),
		Incoming:      false,
		HtlcIndex:     vU64("htlcIndex"),
		Signature:     c05PeerSig,
	}
	copy(htlc.RHash[:], vBytes("paymentHash", 32))
	htlcWS, _ := input.SenderHTLCScript(localHtlcKey, remoteHtlcKey, revKey, htlc.RHash[:], anchors)
	htlcPk, _ := input.WitnessScriptHash(htlcWS)
	fee := c05RefFee(ctRaw, feeRaw, true)
	if withHtlc {
		// BOLT-3 "Trimmed Outputs": the HTLC is on the transaction
		vAssume(uint64(amtSat) >= uint64(dustLocal)+fee)
	}

	// ---- the durable commitment transaction: to_local at toLocalIdx, the
	// HTLC (or a foreign output) next to it, a third foreign output ----
	toLocalIdx := vChoice("toLocalIndex", 3)
	htlcIdx := (toLocalIdx + 1) % 3
	toLocalVal := int64(vU32("toLocalValue"))
	commitTx := wire.NewMsgTx(2)
	commitTx.AddTxIn(&wire.TxIn{PreviousOutPoint: cs.FundingOutpoint, Sequence: vU32("commitSequence")})
	commitTx.LockTime = vU32("commitLockTime")
	for j := 0; j < 3; j++ {
		switch {
		case j == toLocalIdx:
			commitTx.AddTxOut(&wire.TxOut{Value: toLocalVal, PkScript: toLocalPk})
		case j == htlcIdx && withHtlc:
			commitTx.AddTxOut(&wire.TxOut{Value: amtSat, PkScript: htlcPk})
		default:
			pk := append([]byte{txscript.OP_0, txscript.OP_DATA_32}, vBytes("otherScript"+string(rune('0'+j)), 32)...)
			// to_remote / anchors / other outputs never carry our
			// to_local script (different template / keys)
			vAssume(!bytes.Equal(pk, toLocalPk))
			commitTx.AddTxOut(&wire.TxOut{Value: int64(vU32("otherValue" + string(rune('0'+j)))), PkScript: pk})
		}
	}
	durableTxid := commitTx.TxHash()
	htlc.OutputIndex = int32(htlcIdx)

	cs.LocalCommitment = channeldb.ChannelCommitment{
		CommitHeight: h,
		FeePerKw:     btcutil.Amount(feeRaw),
		CommitFee:    btcutil.Amount(vU32("commitFee")),
		CommitTx:     commitTx,
		CommitSig:    c05PeerSig,
	}
	if withHtlc {
		cs.LocalCommitment.Htlcs = []channeldb.HTLC{htlc}
	}
	cs.RemoteCommitment = channeldb.ChannelCommitment{CommitHeight: vU64("remoteHeight"), CommitTx: wire.NewMsgTx(2)}

	// ---- the in-memory chain: tail = h, optionally a tip at h+1 ----
	lch := newCommitmentChain()
	lch.addCommitment(&commitment{height: h, whoseCommit: lntypes.Local, txn: commitTx})
	if tipAhead {
		tipTx := wire.NewMsgTx(2)
		tipTx.AddTxIn(&wire.TxIn{PreviousOutPoint: cs.FundingOutpoint})
		lch.addCommitment(&commitment{height: h + 1, whoseCommit: lntypes.Local, txn: tipTx})
	}
	rch := newCommitmentChain()
	rch.addCommitment(&commitment{height: cs.RemoteCommitment.CommitHeight, whoseCommit: lntypes.Remote})

	signer := &c05ySigner{}
	fundingWS := vBytes("fundingWitnessScript", 71)
	lc := &LightningChannel{
		Signer:        signer,
		channelState:  cs,
		currentHeight: h,
		commitChains:  lntypes.Dual[*commitmentChain]{Local: lch, Remote: rch},
		signDesc: &input.SignDescriptor{
			KeyDesc:       cs.LocalChanCfg.MultiSigKey,
			WitnessScript: fundingWS,
			Output:        &wire.TxOut{Value: int64(cs.Capacity), PkScript: vBytes("fundingPkScript", 34)},
			HashType:      txscript.SigHashAll,
		},
	}
	// lc.currentHeight stays at the durable height until
	// RevokeCurrentCommitment increments it (ReceiveNewCommitment only adds
	// the tip to the chain).
	if vNative() {
		lc.log = walletLog
	}

	sum, err := lc.ForceClose()
	vAssert(err == nil && sum != nil, "ForceClose builds a summary")
	if err != nil || sum == nil {
		return
	}

	// ---- oracle ----
	// (1) the transaction broadcast is the durable commitment
	ctx := sum.CloseTx
	vAssert(ctx != nil, "a close transaction is returned")
	if ctx == nil {
		return
	}
	vAssert(ctx.TxHash() == durableTxid && len(ctx.TxOut) == 3 && len(ctx.TxIn) == 1 &&
		ctx.TxIn[0].PreviousOutPoint == cs.FundingOutpoint && ctx.LockTime == commitTx.LockTime,
		"the transaction returned for broadcast is the durable commitment transaction")
	vAssert(len(ctx.TxIn) == 1 && len(ctx.TxIn[0].Witness) == 4 &&
		bytes.Equal(ctx.TxIn[0].Witness[3], fundingWS),
		"the funding input carries the 2-of-2 witness (<> sig sig script)")
	vAssert(len(signer.reqs) >= 1 && signer.reqs[0].tx == ctx && vmKeyEq(signer.reqs[0].desc.KeyDesc.PubKey, cs.LocalChanCfg.MultiSigKey.PubKey),
		"our funding signature is requested over the returned transaction with the multisig key")
	vAssert(sum.ChanSnapshot.ChannelCommitment.CommitHeight == h, "snapshot names the durable height")

	// (2) the revocation producer is asked for the durable height
	vAssert(len(prod.asked) == 1, "the revocation producer is asked exactly once")
	if len(prod.asked) >= 1 {
		vObserve("askedIndex", prod.asked[0])
		vAssert(prod.asked[0] == h, "per-commitment secret requested for the DURABLE commit height")
	}

	// (3) our to_local output
	vAssert(sum.ContractResolutions.IsSome(), "resolutions are present")
	res := sum.ContractResolutions.UnwrapOr(ContractResolutions{})
	cr := res.CommitResolution
	vAssert(cr != nil, "our to_local output on the durable commitment is found")
	if cr != nil {
		d := cr.SelfOutputSignDesc
		vAssert(cr.SelfOutPoint.Hash == durableTxid && cr.SelfOutPoint.Index == uint32(toLocalIdx) &&
			c05SameOut(d.Output, commitTx.TxOut[toLocalIdx]) && cr.MaturityDelay == csv,
			"commit resolution = the to_local output of the durable commitment (outpoint, value, script, our to_self_delay)")
		vAssert(bytes.Equal(d.WitnessScript, toLocalWS),
			"to_local witness script from the keys of the durable height")
		vAssert(vmKeyEq(d.KeyDesc.PubKey, cs.LocalChanCfg.DelayBasePoint.PubKey) &&
			bytes.Equal(d.SingleTweak, input.SingleTweakBytes(commitPoint, cs.LocalChanCfg.DelayBasePoint.PubKey)) &&
			d.DoubleTweak == nil && d.HashType == txscript.SigHashAll,
			"to_local: our delay base point + tweak of the per-commitment point of the durable height")
	}

	// (4) the HTLC
	hr := res.HtlcResolutions
	vAssert(hr != nil, "HTLC resolutions are present")
	if hr == nil {
		return
	}
	if !withHtlc {
		vAssert(len(hr.IncomingHTLCs) == 0 && len(hr.OutgoingHTLCs) == 0 && len(signer.reqs) == 1,
			"no HTLC: no resolution, only the commitment is signed")
	} else {
		vAssert(len(hr.IncomingHTLCs) == 0 && len(hr.OutgoingHTLCs) == 1, "the offered HTLC gets one outgoing resolution")
		if len(hr.OutgoingHTLCs) != 1 {
			return
		}
		r := &hr.OutgoingHTLCs[0]
		tx := r.SignedTimeoutTx
		vAssert(tx != nil && len(tx.TxIn) == 1 && len(tx.TxOut) == 1, "a timeout transaction is built")
		if tx == nil || len(tx.TxIn) != 1 || len(tx.TxOut) != 1 {
			return
		}
		in := tx.TxIn[0]
		vAssert(in.PreviousOutPoint.Hash == durableTxid && in.PreviousOutPoint.Index == uint32(htlcIdx) &&
			tx.LockTime == htlc.RefundTimeout && r.Expiry == htlc.RefundTimeout,
			"timeout tx spends the HTLC output of the durable commitment, locktime = cltv_expiry")
		vAssert(tx.TxOut[0].Value == amtSat-int64(fee), "timeout tx value = HTLC whole satoshis - fee")
		secondWS, _ := input.SecondLevelHtlcScript(revKey, toLocalKey, csv)
		secondPk, _ := input.WitnessScriptHash(secondWS)
		vAssert(bytes.Equal(tx.TxOut[0].PkScript, secondPk),
			"timeout tx pays the second-level script of the keys of the durable height")
		vAssert(len(in.Witness) == 5 && bytes.Equal(in.Witness[4], htlcWS),
			"timeout tx witness ends with the HTLC script of the durable height")
		vAssert(len(signer.reqs) == 2, "two signatures: commitment, timeout tx")
		if len(signer.reqs) == 2 {
			q := signer.reqs[1]
			vAssert(q.tx == tx && c05SameOut(q.desc.Output, commitTx.TxOut[htlcIdx]) && bytes.Equal(q.desc.WitnessScript, htlcWS) &&
				vmKeyEq(q.desc.KeyDesc.PubKey, cs.LocalChanCfg.HtlcBasePoint.PubKey) &&
				bytes.Equal(q.desc.SingleTweak, input.SingleTweakBytes(commitPoint, cs.LocalChanCfg.HtlcBasePoint.PubKey)),
				"timeout tx signed over the HTLC output with our HTLC base point + tweak of the durable height's point")
		}
		s := r.SweepSignDesc
		vAssert(r.ClaimOutpoint.Hash == tx.TxHash() && r.ClaimOutpoint.Index == 0 && r.CsvDelay == csv &&
			c05SameOut(s.Output, tx.TxOut[0]) && bytes.Equal(s.WitnessScript, secondWS) &&
			vmKeyEq(s.KeyDesc.PubKey, cs.LocalChanCfg.DelayBasePoint.PubKey) &&
			bytes.Equal(s.SingleTweak, input.SingleTweakBytes(commitPoint, cs.LocalChanCfg.DelayBasePoint.PubKey)),
			"second-level output swept with our delay base point + tweak of the durable height's point")
	}

	switch {
	case tipAhead && withHtlc:
		vReach("tip-ahead-htlc")
	case tipAhead:
		vReach("tip-ahead")
	case withHtlc:
		vReach("in-sync-htlc")
	default:
		vReach("in-sync")
	}
	if anchors {
		vReach("anchors")
	}
}
