package lnwallet

// Harness for C01, stage 1b: the single balance-delta evaluation that both the
// signer (SignNextCommitment) and the verifier (ReceiveNewCommitment) use.
//
// Units executed symbolically (real lnd code): (*LightningChannel).computeView,
// evaluateHTLCView, fetchHTLCView, fetchParent, (*updateLog).lookupHtlc /
// appendHtlc / appendUpdate, commitmentChain.tip, paymentDescriptor helpers,
// lntypes.Dual, fn.Filter / fn.Set / fn.Last, HtlcIsDust + fee helpers,
// CommitWeight.
//
// One *objective scenario* (two parties A=0 and B=1, the log of updates each of
// them sent, the tip of the commitment chain of one of them) is turned into the
// two LightningChannel objects the two peers would hold (logs, height pairs,
// balances, dust limits and opener flag mirrored), the commitment is evaluated
// by both, and the results are compared with each other (mirror) and with a
// reference written from BOLT-2's balance rules (conservation).

import (
	"errors"

	"github.com/btcsuite/btcd/btcutil/v2"
	"github.com/lightningnetwork/lnd/chanstate"
	"github.com/lightningnetwork/lnd/fn/v2"
	"github.com/lightningnetwork/lnd/lntypes"
	"github.com/lightningnetwork/lnd/lnwallet/chainfee"
	"github.com/lightningnetwork/lnd/lnwire"
)

const (
	c01KAdd = iota
	c01KSettle
	c01KFail
	c01KFeeUpdate
	c01KMalformed
	c01NKinds
)

// c01Ent is one update a party sent.
type c01Ent struct {
	kind    int    // concrete (vChoice)
	parent  int    // concrete: position in the OTHER party's log of the Add this settle/fail removes
	amt     uint64 // msat (Add); feerate in sat/kw (FeeUpdate)
	timeout uint32
	hash    [32]byte
	// commit heights per commitment chain (index 0: A's chain, 1: B's chain):
	// height of the commitment that first included the add / the removal, 0 =
	// not yet included on that chain.
	addH [2]uint64
	rmvH [2]uint64
}

type c01Scn struct {
	ct       uint64    // channel type (concrete)
	opener   int       // 0 = A opened the channel, 1 = B
	chain    int       // whose commitment is being built: 0 = A's, 1 = B's
	bal      [2]uint64 // balances of A and B on the tip of that chain (msat, after fee and anchors)
	fee      int64     // commit fee of the tip (sat)
	feePerKw int64     // fee rate of the tip
	height   uint64    // height of the tip
	dust     [2]int64  // dust limits A and B ask for their own commitment
	reserve  [2]int64
	capacity int64
	// the same for the chain that is NOT being built (must not influence
	// the result)
	otherBal      [2]uint64
	otherFee      int64
	otherFeePerKw int64
	otherHeight   uint64
	logs          [2][]c01Ent
}

// Concrete, pairwise different counters so that a mix-up between log index and
// HTLC index or between the two logs does not go unnoticed.
var c01LogBase = [2]uint64{7, 20}
var c01HtlcBase = [2]uint64{3, 11}

func c01IsRemoval(k int) bool { return k == c01KSettle || k == c01KFail || k == c01KMalformed }

// c01HtlcIdx: HTLC index (per-sender counter) of the i-th entry of log q, which
// must be an Add.
func c01HtlcIdx(s *c01Scn, q, i int) uint64 {
	n := uint64(0)
	for j := 0; j < i; j++ {
		if s.logs[q][j].kind == c01KAdd {
			n++
		}
	}
	return c01HtlcBase[q] + n
}

// c01Remover: position in log 1-q of the settle/fail that removes Add i of log
// q, or -1.
func c01Remover(s *c01Scn, q, i int) int {
	for j, e := range s.logs[1-q] {
		if c01IsRemoval(e.kind) && e.parent == i {
			return j
		}
	}
	return -1
}

// c01Shape draws the shape of the two logs (concrete case split) and their
// symbolic contents, and states the representation invariant of the logs.
func c01Shape(s *c01Scn, maxN int, kinds int) {
	names := [2]string{"A", "B"}
	digits := [4]string{"0", "1", "2", "3"}
	for q := 0; q < 2; q++ {
		n := vChoice("len"+names[q], maxN+1)
		s.logs[q] = make([]c01Ent, n)
		for i := 0; i < n; i++ {
			s.logs[q][i].kind = vChoice("kind"+names[q]+digits[i], kinds)
		}
	}
	for q := 0; q < 2; q++ {
		for i := range s.logs[q] {
			e := &s.logs[q][i]
			switch {
			case c01IsRemoval(e.kind):
				// I1a: a settle/fail refers to an Add present in
				// the other party's log (SettleHTLC/FailHTLC/
				// Receive* look the parent up and refuse
				// otherwise) ...
				if len(s.logs[1-q]) == 0 {
					vAssume(false)
				}
				e.parent = vChoice("parent"+names[q]+digits[i], len(s.logs[1-q]))
				if s.logs[1-q][e.parent].kind != c01KAdd {
					vAssume(false)
				}
				// ... and an Add has at most one pending removal
				// (htlcHasModification guard).
				for j := 0; j < i; j++ {
					if c01IsRemoval(s.logs[q][j].kind) && s.logs[q][j].parent == e.parent {
						vAssume(false)
					}
				}
			case e.kind == c01KFeeUpdate:
				// only the opener sends update_fee (UpdateFee /
				// ReceiveUpdateFee refuse otherwise)
				if s.opener != q {
					vAssume(false)
				}
			}
		}
	}
	c01Fill(s)
}

// c01Fill draws the symbolic contents of the entries of a given shape and
// states the representation invariant of the logs.
func c01Fill(s *c01Scn) {
	names := [2]string{"A", "B"}
	digits := [4]string{"0", "1", "2", "3"}
	for q := 0; q < 2; q++ {
		for i := range s.logs[q] {
			e := &s.logs[q][i]
			pfx := "e" + names[q] + digits[i]
			e.addH[0], e.addH[1] = vU64(pfx+".addH.A"), vU64(pfx+".addH.B")
			e.rmvH[0], e.rmvH[1] = vU64(pfx+".rmvH.A"), vU64(pfx+".rmvH.B")
			switch {
			case e.kind == c01KAdd:
				e.amt = vU64(pfx + ".amt")
				// amounts: up to 2 x the largest channel
				vAssume(e.amt <= c01MaxMsat)
				e.timeout = vU32(pfx + ".timeout")
				vAssume(e.rmvH[0] == 0 && e.rmvH[1] == 0) // Adds carry no remove height
			case e.kind == c01KFeeUpdate:
				e.amt = vU64(pfx + ".feePerKw")
				vAssume(e.amt <= uint64(c01MaxFeePerKw)) // uint32 on the wire
				// setCommitHeight sets both heights of a fee update together
				vAssume(e.rmvH[0] == e.addH[0] && e.rmvH[1] == e.addH[1])
			default:
				vAssume(e.addH[0] == 0 && e.addH[1] == 0) // removals carry no add height
			}
			// I2: a height is 0 (not yet on that chain) or the height
			// of a commitment that exists on that chain.
			hX, hY := s.height, s.otherHeight
			if s.chain == 1 {
				hX, hY = hY, hX
			}
			vAssume(e.addH[0] <= hX && e.rmvH[0] <= hX)
			vAssume(e.addH[1] <= hY && e.rmvH[1] <= hY)
		}
	}
	// I1b: the Add a settle/fail refers to is already part of the chain the
	// removal is evaluated on (a peer may only remove an HTLC that is
	// irrevocably committed; fetchParent returns an error otherwise).
	for q := 0; q < 2; q++ {
		for i := range s.logs[q] {
			e := &s.logs[q][i]
			if c01IsRemoval(e.kind) {
				p := &s.logs[1-q][e.parent]
				vAssume(p.addH[0] != 0 && p.addH[1] != 0)
				// the removal entry carries the amount of its parent
				// (SettleHTLC/FailHTLC/Receive* copy it)
				e.amt = p.amt
			}
		}
	}
}

func c01Scalars(s *c01Scn) {
	s.bal[0], s.bal[1] = vU64("bal.A"), vU64("bal.B")
	s.otherBal[0], s.otherBal[1] = vU64("otherBal.A"), vU64("otherBal.B")
	vAssume(s.bal[0] <= c01MaxMsat && s.bal[1] <= c01MaxMsat)
	vAssume(s.otherBal[0] <= c01MaxMsat && s.otherBal[1] <= c01MaxMsat)
	s.fee, s.otherFee = vI64("fee"), vI64("otherFee")
	// a commit fee never exceeds the capacity
	vAssume(s.fee >= 0 && s.fee <= int64(c01MaxMsat/1000))
	vAssume(s.otherFee >= 0 && s.otherFee <= int64(c01MaxMsat/1000))
	s.feePerKw, s.otherFeePerKw = vI64("feePerKw"), vI64("otherFeePerKw")
	vAssume(s.feePerKw >= 0 && s.feePerKw <= c01MaxFeePerKw)
	vAssume(s.otherFeePerKw >= 0 && s.otherFeePerKw <= c01MaxFeePerKw)
	s.height, s.otherHeight = vU64("height"), vU64("otherHeight")
	// 48-bit state hint: heights beyond cannot be encoded
	vAssume(s.height < 1<<48 && s.otherHeight < 1<<48)
	s.dust[0], s.dust[1] = vI64("dust.A"), vI64("dust.B")
	vAssume(s.dust[0] >= 0 && s.dust[0] <= c01MaxSat && s.dust[1] >= 0 && s.dust[1] <= c01MaxSat)
}

func c01Party(p, self int) lntypes.ChannelParty {
	if p == self {
		return lntypes.Local
	}
	return lntypes.Remote
}

// c01Chan builds the LightningChannel object party p holds in the scenario.
func c01Chan(s *c01Scn, p int) *LightningChannel {
	o := 1 - p
	st := &chanstate.OpenChannel{
		ChanType:    chanstate.ChannelType(s.ct),
		IsInitiator: s.opener == p,
		Capacity:    btcutil.Amount(s.capacity),
	}
	st.LocalChanCfg.DustLimit = btcutil.Amount(s.dust[p])
	st.RemoteChanCfg.DustLimit = btcutil.Amount(s.dust[o])
	st.LocalChanCfg.ChanReserve = btcutil.Amount(s.reserve[p])
	st.RemoteChanCfg.ChanReserve = btcutil.Amount(s.reserve[o])

	mk := func(bal [2]uint64, fee, feePerKw int64, height uint64, chain int) *commitment {
		return &commitment{
			height:       height,
			whoseCommit:  c01Party(chain, p),
			ourBalance:   lnwire.MilliSatoshi(bal[p]),
			theirBalance: lnwire.MilliSatoshi(bal[o]),
			fee:          btcutil.Amount(fee),
			feePerKw:     chainfee.SatPerKWeight(feePerKw),
			dustLimit:    btcutil.Amount(s.dust[chain]),
		}
	}
	built := mk(s.bal, s.fee, s.feePerKw, s.height, s.chain)
	other := mk(s.otherBal, s.otherFee, s.otherFeePerKw, s.otherHeight, 1-s.chain)
	chains := lntypes.Dual[*commitmentChain]{Local: newCommitmentChain(), Remote: newCommitmentChain()}
	chains.GetForParty(c01Party(s.chain, p)).addCommitment(built)
	chains.GetForParty(c01Party(1-s.chain, p)).addCommitment(other)

	logs := [2]*updateLog{}
	for q := 0; q < 2; q++ {
		l := newUpdateLog(c01LogBase[q], c01HtlcBase[q])
		for i := range s.logs[q] {
			e := &s.logs[q][i]
			pd := &paymentDescriptor{
				Amount:   lnwire.MilliSatoshi(e.amt),
				LogIndex: l.logIndex,
				addCommitHeights: lntypes.Dual[uint64]{
					Local: e.addH[p], Remote: e.addH[o],
				},
				removeCommitHeights: lntypes.Dual[uint64]{
					Local: e.rmvH[p], Remote: e.rmvH[o],
				},
			}
			switch e.kind {
			case c01KAdd:
				pd.EntryType = Add
				pd.HtlcIndex = l.htlcCounter
				pd.Timeout = e.timeout
				pd.RHash = e.hash
				l.appendHtlc(pd)
			case c01KSettle, c01KFail, c01KMalformed:
				pd.EntryType = Settle
				if e.kind == c01KFail {
					pd.EntryType = Fail
				}
				if e.kind == c01KMalformed {
					pd.EntryType = MalformedFail
				}
				pd.ParentIndex = c01HtlcIdx(s, 1-q, e.parent)
				l.appendUpdate(pd)
			case c01KFeeUpdate:
				pd.EntryType = FeeUpdate
				pd.Amount = lnwire.NewMSatFromSatoshis(btcutil.Amount(e.amt))
				l.appendUpdate(pd)
			}
		}
		logs[q] = l
	}

	return &LightningChannel{
		channelState: st,
		commitChains: chains,
		updateLogs:   lntypes.Dual[*updateLog]{Local: logs[p], Remote: logs[o]},
		log:          walletLog,
		Capacity:     btcutil.Amount(s.capacity),
	}
}

// c01ViewRef is the reference: BOLT-2's balance rules applied to the objective
// scenario in plain signed integers. No operation can wrap: every intermediate
// value is a sum of at most 3+2N terms (two balances, the tip fee in msat, the
// amounts) each of absolute value <= 2e12 by the stated domain, N <= 3, i.e.
// < 2e13 << 2^63.
type c01ViewRef struct {
	bal      [2]int64 // balances of A and B before the commit fee is charged
	tipSum   int64    // sum of the HTLCs contained in the tip commitment
	newSum   int64    // sum of the HTLCs contained in the new commitment
	feePerKw int64    // fee rate of the new commitment
	live     [2][]int // positions of the Adds that remain, per sender
	untrim   int64    // number of untrimmed HTLC outputs
}

func c01RefView(s *c01Scn) c01ViewRef {
	var r c01ViewRef
	X := s.chain
	r.bal[0], r.bal[1] = int64(s.bal[0]), int64(s.bal[1])
	// the fee of the previous commitment goes back to the opener before
	// the new fee is charged
	r.bal[s.opener] = r.bal[s.opener] + s.fee*1000
	r.feePerKw = s.feePerKw
	for q := 0; q < 2; q++ {
		for i := range s.logs[q] {
			e := &s.logs[q][i]
			if e.kind == c01KFeeUpdate && q == s.opener {
				r.feePerKw = int64(e.amt)
			}
			if e.kind != c01KAdd {
				continue
			}
			amt := int64(e.amt)
			// effect on: offerer's balance, recipient's balance, HTLC
			// sum of the tip (kept in locals so that the symbolic
			// conditions below merge instead of forking the path)
			var dOff, dRcp, dTip int64
			j := c01Remover(s, q, i)
			if j < 0 {
				// stays (or becomes) pending
				r.newSum = r.newSum + amt
				r.live[q] = append(r.live[q], i)
				if e.addH[X] != 0 {
					dTip = amt
				} else {
					// newly offered: leaves the offerer's balance
					dOff = -amt
				}
			} else {
				rm := &s.logs[1-q][j]
				settle := rm.kind == c01KSettle
				if rm.rmvH[X] != 0 {
					// resolved by an earlier commitment of this chain
				} else if settle {
					// in the tip (I1b); fulfilled by the new
					// commitment: the recipient (the remover) is paid
					dTip = amt
					dRcp = amt
				} else {
					// failed: back to the offerer
					dTip = amt
					dOff = amt
				}
			}
			r.bal[q] = r.bal[q] + dOff
			r.bal[1-q] = r.bal[1-q] + dRcp
			r.tipSum = r.tipSum + dTip
		}
	}
	// untrimmed outputs on X's commitment at the new fee rate
	var untrim int64
	for q := 0; q < 2; q++ {
		for _, i := range r.live[q] {
			if !c01RefDust(s.ct, q == X, r.feePerKw, s.logs[q][i].amt, s.dust[X]) {
				untrim = untrim + 1
			}
		}
	}
	r.untrim = untrim
	return r
}

type c01ViewOut struct {
	ours, theirs lnwire.MilliSatoshi
	weight       lntypes.WeightUnit
	view         *HtlcView
	err          error
}

func c01Eval(s *c01Scn, p int, lc *LightningChannel) c01ViewOut {
	whose := c01Party(s.chain, p)
	view := lc.fetchHTLCView(lc.updateLogs.Remote.logIndex, lc.updateLogs.Local.logIndex)
	var o c01ViewOut
	o.ours, o.theirs, o.weight, o.view, o.err = lc.computeView(
		view, whose, true, fn.None[chainfee.SatPerKWeight](),
	)
	return o
}

func c01ViewCfg() {
	vMerge("github.com/lightningnetwork/lnd/lnwallet.HtlcIsDust")
	vMerge("github.com/lightningnetwork/lnd/lnwallet.CommitWeight")
	vMerge("github.com/lightningnetwork/lnd/lnwallet.c01RefDust")
	vAssumption("C01 view: log representation invariant assumed, not proven inductive (I1 a removal's parent Add exists in the other log, has at most one removal and is committed on both chains; I2 heights are 0 or <= tip height; removal entries carry their parent's amount; only the opener's log has fee updates)")
	vAssumption("C01 view: amounts and balances <= 2e12 msat, tip fee <= 2e9 sat, fee rates <= 2^32, heights < 2^48, dust limits <= 21e6 BTC; log and HTLC indexes concrete; channel type one of the seven lnd negotiates (concrete case split)")
}

func c01SameHtlcs(x, y []*paymentDescriptor) bool {
	if len(x) != len(y) {
		return false
	}
	ok := true
	for i := range x {
		ok = ok && x[i].HtlcIndex == y[i].HtlcIndex && x[i].Amount == y[i].Amount &&
			x[i].Timeout == y[i].Timeout && x[i].RHash == y[i].RHash && x[i].isAdd() && y[i].isAdd()
	}
	return ok
}

// c01CheckView evaluates the scenario on both sides and states conservation
// and the mirror obligation.
func c01CheckView(s *c01Scn) {
	ref := c01RefView(s)
	A, B := c01Chan(s, 0), c01Chan(s, 1)
	ra := c01Eval(s, 0, A)
	rb := c01Eval(s, 1, B)

	// --- agreement on failure ---
	wantErr := ref.bal[0] < 0 || ref.bal[1] < 0
	vObserve("errA", ra.err != nil)
	vObserve("errB", rb.err != nil)
	vAssert((ra.err != nil) == (rb.err != nil), "mirror: both sides accept or both refuse the view")
	vAssert((ra.err != nil) == wantErr, "view refused iff a balance would become negative")
	if ra.err != nil || rb.err != nil {
		vAssert(ra.err == nil || errors.Is(ra.err, ErrBelowChanReserve), "refusal is ErrBelowChanReserve")
		vReach("below-reserve")
		return
	}

	// --- mirror ---
	vObserve("oursA", uint64(ra.ours))
	vObserve("theirsA", uint64(ra.theirs))
	vAssert(ra.ours == rb.theirs && ra.theirs == rb.ours, "mirror: the two sides compute swapped balances")
	vAssert(ra.weight == rb.weight && ra.view.FeePerKw == rb.view.FeePerKw &&
		ra.view.NextHeight == rb.view.NextHeight && ra.view.NextHeight == s.height+1,
		"mirror: same commitment weight, fee rate and next height (= tip+1)")
	la, lb := ra.view.Updates, rb.view.Updates
	vAssert(c01SameHtlcs(la.Local, lb.Remote) && c01SameHtlcs(la.Remote, lb.Local),
		"mirror: same pending HTLCs per direction in the same order")

	// --- conservation to the millisatoshi ---
	var sumNew uint64
	for _, h := range la.Local {
		sumNew += uint64(h.Amount)
	}
	for _, h := range la.Remote {
		sumNew += uint64(h.Amount)
	}
	before := s.bal[0] + s.bal[1] + uint64(s.fee)*1000 + uint64(ref.tipSum)
	vAssert(uint64(ra.ours)+uint64(ra.theirs)+sumNew == before,
		"conservation: ours' + theirs' + pending HTLCs = ours + theirs + tip fee + HTLCs of the tip")
	vAssert(int64(ra.ours) == ref.bal[0] && int64(ra.theirs) == ref.bal[1],
		"balances move only by added (offerer pays), settled (recipient is paid) and failed (offerer is refunded) HTLCs; tip fee back to the opener")
	vAssert(int64(ra.view.FeePerKw) == ref.feePerKw, "fee rate = last update_fee of the opener, else the tip's")

	// the filtered view contains exactly the Adds without removal, in order
	okList := true
	for q := 0; q < 2; q++ {
		got := la.Local
		if q == 1 {
			got = la.Remote
		}
		if len(got) != len(ref.live[q]) {
			okList = false
			continue
		}
		for k, i := range ref.live[q] {
			okList = okList && got[k].HtlcIndex == c01HtlcIdx(s, q, i) && uint64(got[k].Amount) == s.logs[q][i].amt
		}
	}
	vAssert(okList, "pending HTLC lists contain exactly the unresolved Adds in log order")

	// weight: BOLT-3
	wantW := int64(724)
	if s.ct&c01BitTaproot != 0 {
		wantW = 968
	} else if s.ct&c01BitAnchors != 0 {
		wantW = 1124
	}
	vAssert(int64(ra.weight) == wantW+172*ref.untrim, "weight = base + 172 per untrimmed HTLC (BOLT-3 trimming at the new fee rate, dust limit of the commitment's owner)")

	// --- the heights of everything evaluated are now locked in on that chain
	okH := true
	for p, lc := range [2]*LightningChannel{A, B} {
		whose := c01Party(s.chain, p)
		for _, l := range [2]*updateLog{lc.updateLogs.Local, lc.updateLogs.Remote} {
			for e := l.Front(); e != nil; e = e.Next() {
				pd := e.Value
				if pd.isAdd() || pd.EntryType == FeeUpdate {
					okH = okH && pd.addCommitHeights.GetForParty(whose) != 0
				}
				if !pd.isAdd() {
					okH = okH && pd.removeCommitHeights.GetForParty(whose) != 0
				}
			}
		}
	}
	vAssert(okH, "after the evaluation every update has its add/remove height set on the chain")

	vReach("ok")
	if ref.untrim > 0 {
		vReach("untrimmed")
	}
	if ref.newSum != ref.tipSum {
		vReach("htlc-set-changed")
	}
}

// c01TypeOf: the seven channel types lnd negotiates.
func c01TypeOf(i int) uint64 {
	// legacy, tweakless, anchors, zero-fee-htlc anchors, script-enforced
	// lease, taproot staging, taproot final
	const tweak, anchors, zero, lease, tap, fin = 1 << 1, 1 << 3, 1 << 5, 1 << 6, 1 << 10, 1 << 12
	types := [7]uint64{
		0, tweak, tweak | anchors, tweak | anchors | zero,
		tweak | anchors | zero | lease, tweak | anchors | zero | tap,
		tweak | anchors | zero | tap | fin,
	}
	return types[i]
}

// c01View: the opener is A without loss of generality: the scenario space is
// closed under renaming the two parties (logs, balances, dust limits, chain
// swapped), and every run builds and evaluates the objects of BOTH parties, so
// the pair of lnd objects of a scenario opened by B is the pair (B', A') of the
// renamed scenario opened by A (up to the concrete log/HTLC counters).
func c01View(maxN int, kinds int, types []int) {
	c01ViewCfg()
	var s c01Scn
	s.ct = c01TypeOf(types[vChoice("type", len(types))])
	s.opener = 0
	s.chain = vChoice("chain", 2)
	c01Scalars(&s)
	c01Shape(&s, maxN, kinds)
	c01CheckView(&s)
}

// VerifC01View1: up to 1 update per side (Add/Settle/Fail/FeeUpdate/MalformedFail);
// legacy, zero-fee-htlc anchors, taproot final.
func VerifC01View1() { c01View(1, c01NKinds, []int{0, 3, 6}) }

// VerifC01View1All: the same for all seven channel types.
func VerifC01View1All() { c01View(1, c01NKinds, []int{0, 1, 2, 3, 4, 5, 6}) }

// VerifC01View: up to 2 updates per side (Add/Settle/Fail/FeeUpdate), legacy
// channel (the type whose second-level fees differ between the two HTLC
// directions), both chains.
func VerifC01View() { c01View(2, c01KFeeUpdate+1, []int{0}) }

// VerifC01View2Picked: three hand-picked shapes with 2 updates per side (quick
// tier's slice of VerifC01View): four Adds; two Adds resolved by a Settle and a
// Fail; two fee updates against two Adds.
func VerifC01View2Picked() {
	c01ViewCfg()
	var s c01Scn
	s.ct = c01TypeOf(0)
	s.opener = 0
	pick := vChoice("pick", 3)
	s.chain = pick % 2
	c01Scalars(&s)
	A, S, F, U := c01KAdd, c01KSettle, c01KFail, c01KFeeUpdate
	shapes := [3][2][]c01Ent{
		{{{kind: A}, {kind: A}}, {{kind: A}, {kind: A}}},
		{{{kind: A}, {kind: A}}, {{kind: S, parent: 1}, {kind: F, parent: 0}}},
		{{{kind: U}, {kind: U}}, {{kind: A}, {kind: A}}},
	}
	s.logs = shapes[pick]
	c01Fill(&s)
	c01CheckView(&s)
}
