package lnwallet

// Harness for C01, stage 3a: the HTLC signature jobs of one commitment.
//
// Units executed symbolically (real lnd code):
//   signer    A: (*LightningChannel).fetchCommitmentView(Remote) [fetchHTLCView,
//                computeView, createUnsignedCommitmentTx, InPlaceCommitSort, the
//                fee-floor check, populateHtlcIndexes / locateOutputIndex],
//                genRemoteHtlcSigJobs, (*commitment).toDiskCommit,
//                CreateHtlcTimeoutTx / CreateHtlcSuccessTx, SecondLevelHtlcScript,
//                HtlcTimeoutFee / HtlcSuccessFee, HtlcSigHashType,
//                HtlcSecondLevelInputSequence, NewAuxSigJob, wire.MsgTx.TxHash;
//   verifier  B: fetchCommitmentView(Local) [as above], genHtlcSigValidationJobs
//                and every VerifyJob.SigHash closure it returns,
//                lnwire.Sig.ForceSchnorr / ToSignature (on fixed signatures);
//   package input: SenderHTLCScriptTaproot / ReceiverHTLCScriptTaproot /
//                TaprootSecondLevelScriptTree with their tree constructors (they
//                decide WHICH tap leaf is signed: htlcType), the methods of
//                HtlcScriptTree / SecondLevelScriptTree.
//
// One objective scenario (parties A and B; B's commitment chain tip; up to two
// pending, untrimmed HTLCs offered by A and/or B) is turned into the two
// mirrored LightningChannel struct literals of the view harness
// (zz_verif_c01_view.go) plus the two CommitmentBuilders / key rings of the
// transaction harness (zz_verif_c01_tx.go). A builds B's next commitment as its
// REMOTE commitment and generates the sign jobs; B builds the same commitment as
// its LOCAL one and generates the verification jobs for as many signatures as A
// produced. The sigPool is not used: the jobs are inspected directly.
//
// Ideal signatures: a sign job "signs" the BIP-143 / BIP-341 digest computed
// exactly as lnwallet/btcwallet.SignOutputRaw does from (job.Tx,
// SignDesc.WitnessScript, SignDesc.Output, SignDesc.HashType, InputIndex); the
// verifier's digest is whatever its SigHash closure returns. The digest
// functions txscript.CalcWitnessSigHash / CalcTapscriptSignaturehash are
// uninterpreted functions of every transaction field they commit to (version,
// locktime, outpoint, sequence, output value and script, hash type, script code
// / tap leaf, amount, spent script): the i-th signature verifies iff the two
// sides built identical signing inputs. Natively (replay) the real digest
// functions, real scripts and real secp256k1 keys are used.

import (
	"bytes"

	"github.com/btcsuite/btcd/btcec/v2"
	"github.com/btcsuite/btcd/btcutil/v2"
	"github.com/btcsuite/btcd/chainhash/v2"
	"github.com/btcsuite/btcd/txscript/v2"
	"github.com/btcsuite/btcd/wire/v2"
	"github.com/lightningnetwork/lnd/chanstate"
	"github.com/lightningnetwork/lnd/fn/v2"
	"github.com/lightningnetwork/lnd/input"
	"github.com/lightningnetwork/lnd/lntypes"
	"github.com/lightningnetwork/lnd/lnwallet/chainfee"
	"github.com/lightningnetwork/lnd/lnwire"
)

const (
	c01sBitZeroFee = uint64(1) << 5
	c01sBitLease   = uint64(1) << 6
)

// ---------------------------------------------------------------------------
// derived keys (taproot output keys): identity = ideal hash
// ---------------------------------------------------------------------------

type c01sKeyEnt struct {
	k  *btcec.PublicKey
	id []byte
}

var c01sKeyTab []c01sKeyEnt

// HTLC base points of A and B (the keys the sign descriptors name).
var c01sBase [2]*btcec.PublicKey

func c01sInitKeys() {
	c01InitKeys()
	c01sKeyTab = nil
	for i := range c01sBase {
		if vNative() {
			var seed [32]byte
			seed[31] = byte(i + 1)
			seed[0] = 0x43
			_, pub := btcec.PrivKeyFromBytes(seed[:])
			c01sBase[i] = pub
		} else {
			c01sBase[i] = new(btcec.PublicKey)
		}
	}
}

// c01sKID: 32-byte identity of a key of the ideal world.
func c01sKID(k *btcec.PublicKey) []byte {
	for _, e := range c01sKeyTab {
		if e.k == k {
			return e.id
		}
	}
	id := make([]byte, 32)
	id[31] = c01KB(k)[0]
	return id
}

// ---------------------------------------------------------------------------
// ideal leaves / trees / second-level scripts / digests (symbolic runs only)
// ---------------------------------------------------------------------------

// All witness scripts and tap leaves are ONE uninterpreted function "wscript"
// of a fixed layout (template tag, three key identities, payment hash, two
// numbers, a flag) that is assumed injective: two scripts are equal iff they
// are the same template applied to equal arguments (the real templates embed
// every argument). P2WSH programs, tapscript roots, tap-leaf hashes and
// taproot output keys are injective ideal hashes. (The per-template functions
// of the transaction harness allow collisions BETWEEN templates; here a
// collision between an offered and a received HTLC script would make
// locateOutputIndex claim one output twice.)
const (
	c01sTagToSelf = iota + 1
	c01sTagLeaseToSelf
	c01sTagToRemoteConfirmed
	c01sTagLeaseToRemoteConfirmed
	c01sTagAnchor
	c01sTagSenderHTLC
	c01sTagReceiverHTLC
	c01sTagSecondLevel
	c01sTagLeaseSecondLevel
	c01sTagTapSenderTimeout
	c01sTagTapSenderSuccess
	c01sTagTapReceiverTimeout
	c01sTagTapReceiverSuccess
	c01sTagTapSecondLevel
	c01sTagTapToLocal
	c01sTagTapToRemote
	c01sTagTapAnchor
)

var c01sZero32 = make([]byte, 32)

func c01sScript(tag byte, k0, k1, k2 *btcec.PublicKey, hash []byte, a, b uint32, flag byte) []byte {
	if hash == nil {
		hash = c01sZero32
	}
	if len(hash) != 32 {
		panic("c01s: payment hash must be 32 bytes")
	}
	id := func(k *btcec.PublicKey) []byte {
		if k == nil {
			return c01sZero32
		}
		return c01sKID(k)
	}
	return vHash("wscript", 40, []byte{tag}, id(k0), id(k1), id(k2), hash, c01U32(a), c01U32(b), []byte{flag})
}

func c01sOpt(opts []input.TaprootScriptOpt) byte { return byte(len(opts)) }

// ---- segwit v0 ----

func c01sWitnessScriptHash(witnessScript []byte) ([]byte, error) {
	return append([]byte{txscript.OP_0, txscript.OP_DATA_32}, vHash("p2wsh", 32, witnessScript)...), nil
}

func c01sCommitScriptToSelf(csvTimeout uint32, selfKey, revokeKey *btcec.PublicKey) ([]byte, error) {
	return c01sScript(c01sTagToSelf, selfKey, revokeKey, nil, nil, csvTimeout, 0, 0), nil
}

func c01sLeaseCommitScriptToSelf(selfKey, revokeKey *btcec.PublicKey, csvTimeout, leaseExpiry uint32) ([]byte, error) {
	return c01sScript(c01sTagLeaseToSelf, selfKey, revokeKey, nil, nil, csvTimeout, leaseExpiry, 0), nil
}

func c01sCommitScriptUnencumbered(key *btcec.PublicKey) ([]byte, error) {
	return append([]byte{txscript.OP_0, txscript.OP_DATA_20}, vHash("hash160", 20, c01sKID(key))...), nil
}

func c01sCommitScriptToRemoteConfirmed(key *btcec.PublicKey) ([]byte, error) {
	return c01sScript(c01sTagToRemoteConfirmed, key, nil, nil, nil, 0, 0, 0), nil
}

func c01sLeaseCommitScriptToRemoteConfirmed(key *btcec.PublicKey, leaseExpiry uint32) ([]byte, error) {
	return c01sScript(c01sTagLeaseToRemoteConfirmed, key, nil, nil, nil, 0, leaseExpiry, 0), nil
}

func c01sCommitScriptAnchor(key *btcec.PublicKey) ([]byte, error) {
	return c01sScript(c01sTagAnchor, key, nil, nil, nil, 0, 0, 0), nil
}

func c01sSenderHTLCScript(senderHtlcKey, receiverHtlcKey, revocationKey *btcec.PublicKey,
	paymentHash []byte, confirmedSpend bool) ([]byte, error) {

	return c01sScript(c01sTagSenderHTLC, senderHtlcKey, receiverHtlcKey, revocationKey, paymentHash, 0, 0, c01Bool(confirmedSpend)[0]), nil
}

func c01sReceiverHTLCScript(cltvExpiry uint32, senderHtlcKey, receiverHtlcKey,
	revocationKey *btcec.PublicKey, paymentHash []byte, confirmedSpend bool) ([]byte, error) {

	return c01sScript(c01sTagReceiverHTLC, senderHtlcKey, receiverHtlcKey, revocationKey, paymentHash, cltvExpiry, 0, c01Bool(confirmedSpend)[0]), nil
}

func c01sSecondLevelHtlcScript(revocationKey, delayKey *btcec.PublicKey, csvDelay uint32) ([]byte, error) {
	return c01sScript(c01sTagSecondLevel, revocationKey, delayKey, nil, nil, csvDelay, 0, 0), nil
}

func c01sLeaseSecondLevelHtlcScript(revocationKey, delayKey *btcec.PublicKey,
	csvDelay, cltvExpiry uint32) ([]byte, error) {

	return c01sScript(c01sTagLeaseSecondLevel, revocationKey, delayKey, nil, nil, csvDelay, cltvExpiry, 0), nil
}

// ---- taproot: leaves ----

func c01sSenderHTLCTapLeafTimeout(senderHtlcKey, receiverHtlcKey *btcec.PublicKey,
	opts ...input.TaprootScriptOpt) (txscript.TapLeaf, error) {

	return txscript.NewBaseTapLeaf(c01sScript(c01sTagTapSenderTimeout, senderHtlcKey, receiverHtlcKey, nil, nil, 0, 0, c01sOpt(opts))), nil
}

func c01sSenderHTLCTapLeafSuccess(receiverHtlcKey *btcec.PublicKey, paymentHash []byte,
	opts ...input.TaprootScriptOpt) (txscript.TapLeaf, error) {

	return txscript.NewBaseTapLeaf(c01sScript(c01sTagTapSenderSuccess, receiverHtlcKey, nil, nil, paymentHash, 0, 0, c01sOpt(opts))), nil
}

func c01sReceiverHtlcTapLeafTimeout(senderHtlcKey *btcec.PublicKey, cltvExpiry uint32,
	opts ...input.TaprootScriptOpt) (txscript.TapLeaf, error) {

	return txscript.NewBaseTapLeaf(c01sScript(c01sTagTapReceiverTimeout, senderHtlcKey, nil, nil, nil, cltvExpiry, 0, c01sOpt(opts))), nil
}

func c01sReceiverHtlcTapLeafSuccess(receiverHtlcKey, senderHtlcKey *btcec.PublicKey,
	paymentHash []byte, opts ...input.TaprootScriptOpt) (txscript.TapLeaf, error) {

	return txscript.NewBaseTapLeaf(c01sScript(c01sTagTapReceiverSuccess, receiverHtlcKey, senderHtlcKey, nil, paymentHash, 0, 0, c01sOpt(opts))), nil
}

func c01sTaprootSecondLevelTapLeaf(delayKey *btcec.PublicKey, csvDelay uint32,
	opts ...input.TaprootScriptOpt) (txscript.TapLeaf, error) {

	return txscript.NewBaseTapLeaf(c01sScript(c01sTagTapSecondLevel, delayKey, nil, nil, nil, csvDelay, 0, c01sOpt(opts))), nil
}

// ---- taproot: trees ----

// the tree is represented by a single node whose "script" is the ideal root
// of (up to three) leaf scripts
func c01sAssembleTaprootScriptTree(leaves ...txscript.TapLeaf) *txscript.IndexedTapScriptTree {
	if len(leaves) == 0 || len(leaves) > 3 {
		panic("c01s: tapscript tree of 1..3 leaves expected")
	}
	parts := [][]byte{{byte(len(leaves))}}
	for i := 0; i < 3; i++ {
		if i < len(leaves) {
			if len(leaves[i].Script) != 40 {
				panic("c01s: leaf not produced by the model")
			}
			parts = append(parts, []byte{byte(leaves[i].LeafVersion)}, leaves[i].Script)
		} else {
			parts = append(parts, []byte{0}, make([]byte, 40))
		}
	}
	root := vHash("tapscripttree", 32, parts...)
	t := &txscript.IndexedTapScriptTree{
		RootNode:       txscript.NewBaseTapLeaf(root),
		LeafProofIndex: make(map[chainhash.Hash]int),
	}
	for _, l := range leaves {
		t.LeafMerkleProofs = append(t.LeafMerkleProofs, txscript.TapscriptProof{TapLeaf: l})
	}
	return t
}

// only ever applied to the root node of an ideal tree
func c01sTapLeafHash(l txscript.TapLeaf) chainhash.Hash {
	if len(l.Script) != 32 {
		panic("c01s: TapHash of something that is not an ideal tree root")
	}
	var h chainhash.Hash
	copy(h[:], vHash("taproothash", 32, l.Script))
	return h
}

func c01sComputeTaprootOutputKey(pubKey *btcec.PublicKey, scriptRoot []byte) *btcec.PublicKey {
	k := new(btcec.PublicKey)
	c01sKeyTab = append(c01sKeyTab, c01sKeyEnt{k: k,
		id: vHash("taprootoutputkey", 32, c01sKID(pubKey), scriptRoot)})
	return k
}

func c01sTreePkScript(s *input.ScriptTree) []byte {
	return append([]byte{txscript.OP_1, txscript.OP_DATA_32}, c01sKID(s.TaprootKey)...)
}

// commitment-level trees (to_local, to_remote, anchors): internal key = the
// NUMS point (to_local, to_remote) resp. the anchor key; one ideal leaf
func c01sCommitTree(internal *btcec.PublicKey, leaf []byte) input.ScriptTree {
	root := vHash("tapscripttree", 32, []byte{1}, []byte{byte(txscript.BaseLeafVersion)}, leaf,
		[]byte{0}, make([]byte, 40), []byte{0}, make([]byte, 40))
	return input.ScriptTree{
		InternalKey:   internal,
		TapscriptRoot: root,
		TaprootKey:    c01sComputeTaprootOutputKey(internal, root),
	}
}

func c01sNewLocalCommitScriptTree(csvTimeout uint32, selfKey, revokeKey *btcec.PublicKey,
	auxLeaf input.AuxTapLeaf, opts ...input.TaprootScriptOpt) (*input.CommitScriptTree, error) {

	leaf := c01sScript(c01sTagTapToLocal, selfKey, revokeKey, nil, nil, csvTimeout, 0, c01sOpt(opts))
	return &input.CommitScriptTree{ScriptTree: c01sCommitTree(nil, leaf)}, nil
}

func c01sNewRemoteCommitScriptTree(remoteKey *btcec.PublicKey, auxLeaf input.AuxTapLeaf,
	opts ...input.TaprootScriptOpt) (*input.CommitScriptTree, error) {

	leaf := c01sScript(c01sTagTapToRemote, remoteKey, nil, nil, nil, 0, 0, c01sOpt(opts))
	return &input.CommitScriptTree{ScriptTree: c01sCommitTree(nil, leaf)}, nil
}

func c01sNewAnchorScriptTree(anchorKey *btcec.PublicKey) (*input.AnchorScriptTree, error) {
	leaf := c01sScript(c01sTagTapAnchor, anchorKey, nil, nil, nil, 0, 0, 0)
	return &input.AnchorScriptTree{ScriptTree: c01sCommitTree(anchorKey, leaf)}, nil
}

func c01sU64(v uint64) []byte {
	return []byte{byte(v >> 56), byte(v >> 48), byte(v >> 40), byte(v >> 32),
		byte(v >> 24), byte(v >> 16), byte(v >> 8), byte(v)}
}

// c01sTxFields: every field of a transaction a digest can commit to.
func c01sTxFields(tx *wire.MsgTx) [][]byte {
	parts := [][]byte{c01U32(uint32(tx.Version)), c01U32(tx.LockTime), {byte(len(tx.TxIn))}}
	for _, in := range tx.TxIn {
		parts = append(parts, in.PreviousOutPoint.Hash[:], c01U32(in.PreviousOutPoint.Index), c01U32(in.Sequence))
	}
	parts = append(parts, []byte{byte(len(tx.TxOut))})
	for _, o := range tx.TxOut {
		parts = append(parts, c01sU64(uint64(o.Value)), o.PkScript)
	}
	return parts
}

// ideal BIP-143 digest. For a one-input one-output transaction SIGHASH_ALL and
// SIGHASH_SINGLE|ANYONECANPAY commit to the same fields, all of which are
// arguments here.
func c01sCalcWitnessSigHash(script []byte, sigHashes *txscript.TxSigHashes, hType txscript.SigHashType,
	tx *wire.MsgTx, idx int, amt int64) ([]byte, error) {

	parts := c01sTxFields(tx)
	parts = append(parts, []byte{byte(hType), byte(idx)}, script, c01sU64(uint64(amt)))
	return vHash("bip143digest", 32, parts...), nil
}

// ideal BIP-341 script-path digest.
func c01sCalcTapscriptSignaturehash(sigHashes *txscript.TxSigHashes, hType txscript.SigHashType,
	tx *wire.MsgTx, idx int, prevOutFetcher txscript.PrevOutputFetcher, tapLeaf txscript.TapLeaf,
	sigHashOpts ...txscript.TaprootSigHashOption) ([]byte, error) {

	prev := prevOutFetcher.FetchPrevOutput(tx.TxIn[idx].PreviousOutPoint)
	parts := c01sTxFields(tx)
	parts = append(parts, []byte{byte(hType), byte(idx), byte(tapLeaf.LeafVersion), byte(len(sigHashOpts))},
		tapLeaf.Script, c01sU64(uint64(prev.Value)), prev.PkScript)
	return vHash("bip341digest", 32, parts...), nil
}

func c01sNewTxSigHashes(tx *wire.MsgTx, inputFetcher txscript.PrevOutputFetcher) *txscript.TxSigHashes {
	return &txscript.TxSigHashes{}
}

func c01sNewTxSigHashesV0Only(tx *wire.MsgTx) *txscript.TxSigHashes {
	return &txscript.TxSigHashes{}
}

func c01sCfg() {
	const in = "github.com/lightningnetwork/lnd/input."
	const me = "github.com/lightningnetwork/lnd/lnwallet."
	const ts = "github.com/btcsuite/btcd/txscript/v2."
	// leaf builders of package input -> ideal
	for _, f := range []string{
		"WitnessScriptHash", "CommitScriptToSelf", "LeaseCommitScriptToSelf", "CommitScriptUnencumbered",
		"CommitScriptToRemoteConfirmed", "LeaseCommitScriptToRemoteConfirmed", "CommitScriptAnchor",
		"SenderHTLCScript", "ReceiverHTLCScript", "SecondLevelHtlcScript", "LeaseSecondLevelHtlcScript",
		"SenderHTLCTapLeafTimeout", "SenderHTLCTapLeafSuccess", "ReceiverHtlcTapLeafTimeout",
		"ReceiverHtlcTapLeafSuccess", "TaprootSecondLevelTapLeaf",
		"NewLocalCommitScriptTree", "NewRemoteCommitScriptTree", "NewAnchorScriptTree",
	} {
		vReplace(in+f, me+"c01s"+f)
	}
	// The taproot HTLC / second-level tree constructors of package input
	// (SenderHTLCScriptTaproot, ReceiverHTLCScriptTaproot,
	// TaprootSecondLevelScriptTree) are NOT replaced: they run on the ideal
	// leaves and decide which leaf is signed (htlcType).
	vReplace(ts+"AssembleTaprootScriptTree", me+"c01sAssembleTaprootScriptTree")
	vReplace("("+ts+"TapLeaf).TapHash", me+"c01sTapLeafHash")
	vReplace(ts+"ComputeTaprootOutputKey", me+"c01sComputeTaprootOutputKey")
	vReplace("(*"+in+"ScriptTree).PkScript", me+"c01sTreePkScript")
	// digests
	vReplace(ts+"CalcWitnessSigHash", me+"c01sCalcWitnessSigHash")
	vReplace(ts+"CalcTapscriptSignaturehash", me+"c01sCalcTapscriptSignaturehash")
	vReplace(ts+"NewTxSigHashes", me+"c01sNewTxSigHashes")
	vReplace(in+"NewTxSigHashesV0Only", me+"c01sNewTxSigHashesV0Only")
	for _, uf := range []string{"wscript", "p2wsh", "hash160", "tapscripttree", "taproothash", "taprootoutputkey"} {
		vInjective(uf)
	}

	vMerge(me + "HtlcIsDust")
	vMerge(me + "CommitWeight")
	vMerge(me + "c01RefDust")
	vAssumption("C01 htlc sigs: ideal signatures: txscript.CalcWitnessSigHash / CalcTapscriptSignaturehash are uninterpreted functions of all transaction fields, hash type, script code / tap leaf, amount and spent script; a signature verifies iff signer and verifier computed the same digest for the same key; the signer computes its digest from (job.Tx, SignDesc) as lnwallet/btcwallet.SignOutputRaw does")
	vAssumption("C01 htlc sigs: ideal scripts: every witness script / tap leaf builder of package input (commitment outputs, anchors, offered/received HTLC, second level, their lease and taproot variants) is ONE injective uninterpreted function of (template, key identities, payment hash, numbers, flags); P2WSH / P2WKH programs, tapscript roots (txscript.AssembleTaprootScriptTree, TapLeaf.TapHash) and taproot output keys (txscript.ComputeTaprootOutputKey) are injective ideal hashes; the real HTLC / second-level tree constructors of package input run on the ideal leaves; the Bitcoin script interpreter is never run")
	vAssumption("C01 htlc sigs: the key rings of the two sides are given (same owner-relative keys, swapped local/remote HTLC keys): DeriveCommitmentKeys is outside; pre-state as in the view harness (log invariant, value invariant I3) with every pending HTLC new on the commitment and untrimmed, both main outputs present, fee rate >= 253 sat/kw")
}

// ---------------------------------------------------------------------------
// scenario
// ---------------------------------------------------------------------------

type c01sScn struct {
	vs c01Scn   // logs and the tip of B's chain (view harness)
	ts c01TxScn // config values of the builders (transaction harness)
}

// shapes: number of pending HTLCs offered by A / by B
var c01sShapes = [5][2]int{{1, 0}, {0, 1}, {1, 1}, {2, 0}, {0, 2}}

const c01sX = 1 // the commitment is B's

var c01sFeeRates = [3]int64{2500, 253, 50_000} // sat/kw

const (
	// lnd accepts dust limits in [354, 1062] sat only (VerifyConstraints in
	// lnwallet/reservation.go: DustLimitForSize(UnknownWitnessSize) = 354 sat
	// <= dust <= 3 x that; BOLT-2 has the same lower bound). The lower bound
	// makes every untrimmed HTLC worth more than a 330-sat anchor, so that the
	// anchors sort before the HTLC outputs.
	c01sMinDust = int64(354)          // sat
	c01sMaxDust = int64(50_000)       // sat
	c01sMaxAmt  = uint64(100_000_000) // msat per HTLC
)

func c01sScenario(s *c01sScn, types, openers, shapes, rates []int) {
	vs, ts := &s.vs, &s.ts
	vs.ct = c01TypeOf(types[vChoice("type", len(types))])
	vs.opener = openers[vChoice("opener", len(openers))]
	vs.chain = c01sX

	// Commitment-level numbers that do not enter the HTLC signatures are
	// concrete: the tip of B's chain pays 3e6 sat to A and 2e6 sat to B with
	// a fee of 10 000 sat; the other chain is empty. (Their symbolic
	// treatment is the subject of the view / transaction entries.)
	vs.bal[0], vs.bal[1] = 3_000_000_000, 2_000_000_000
	vs.fee = 10_000
	anch := uint64(0)
	if vs.ct&c01BitAnchors != 0 {
		anch = 2 * 330 * 1000
	}
	// I3 for the tip: balances + tip fee (+ anchors) = capacity, to the msat
	vs.capacity = int64((vs.bal[0] + vs.bal[1] + uint64(vs.fee)*1000 + anch) / 1000)
	// The fee rate is a concrete case split (the second-level fee arithmetic
	// is verified for every fee rate in VerifC01Dust): the relay floor, a
	// typical and a high rate. With a symbolic rate the fee-floor assertion
	// of fetchCommitmentView (nested floors of msat/sat conversions) costs
	// 6-10 s of solver time per path. Channel types with zero-fee second-level
	// transactions are run at the first rate of the list only: the rate then
	// enters nothing but the commit fee.
	if vs.ct&c01sBitZeroFee != 0 {
		rates = rates[:1]
	}
	vs.feePerKw = c01sFeeRates[rates[vChoice("feerate", len(rates))]]
	vs.height = vU64("height")
	// SetStateNumHint refuses heights above 2^48-1
	vAssume(vs.height < 1<<48-1)
	vs.dust[0], vs.dust[1] = vI64("dust.A"), vI64("dust.B")
	vAssume(vs.dust[0] >= c01sMinDust && vs.dust[0] <= c01sMaxDust && vs.dust[1] >= c01sMinDust && vs.dust[1] <= c01sMaxDust)

	sh := c01sShapes[shapes[vChoice("shape", len(shapes))]]
	for q := 0; q < 2; q++ {
		vs.logs[q] = make([]c01Ent, sh[q])
		for i := range vs.logs[q] {
			vs.logs[q][i].kind = c01KAdd
		}
	}
	c01Fill(vs)
	names := [2]string{"A", "B"}
	digits := [2]string{"0", "1"}
	for q := 0; q < 2; q++ {
		for i := range vs.logs[q] {
			e := &vs.logs[q][i]
			copy(e.hash[:], vBytes("e"+names[q]+digits[i]+".hash", 32))
			vAssume(e.amt <= c01sMaxAmt)
			// the HTLC is new on B's chain
			vAssume(e.addH[c01sX] == 0)
		}
	}

	ts.ct, ts.opener, ts.chain = vs.ct, vs.opener, vs.chain
	ts.dust = vs.dust
	ts.capacity = vs.capacity
	ts.csv[0], ts.csv[1] = vU16("csv.A"), vU16("csv.B")
	ts.thaw = vU32("thawHeight")
	copy(ts.obf[:], vBytes("obfuscator", StateHintSize))
}

// c01sNonDust: every HTLC is untrimmed. The case split is made on the very
// HtlcIsDust calls the two sides make, so that the number of HTLC outputs is a
// constant on the path (see c01SplitOnDust).
func c01sNonDust(s *c01sScn) {
	vs := &s.vs
	for q := 0; q < 2; q++ {
		for i := range vs.logs[q] {
			e := &vs.logs[q][i]
			sat := lnwire.MilliSatoshi(e.amt).ToSatoshis()
			for p := 0; p < 2; p++ {
				d := HtlcIsDust(
					chanstate.ChannelType(vs.ct), q != p, c01Party(c01sX, p),
					chainfee.SatPerKWeight(vs.feePerKw), sat, btcutil.Amount(vs.dust[c01sX]),
				)
				if d {
					vAssume(false)
				}
			}
			r := c01RefDust(vs.ct, q == c01sX, vs.feePerKw, e.amt, vs.dust[c01sX])
			if r {
				vAssume(false)
			}
		}
	}
}

// c01sChan: the LightningChannel of party p with its commitment builder.
func c01sChan(s *c01sScn, p int) *LightningChannel {
	lc := c01Chan(&s.vs, p)
	cb := c01Builder(&s.ts, p)
	cb.chanState.LocalChanCfg.HtlcBasePoint.PubKey = c01sBase[p]
	cb.chanState.RemoteChanCfg.HtlcBasePoint.PubKey = c01sBase[1-p]
	lc.channelState = cb.chanState
	lc.commitBuilder = cb
	return lc
}

// single tweaks of the two parties' HTLC keys for this commitment (constructed
// at run time: package-level initialisers are not evaluated by the engine)
var c01sTweak [2][]byte

func c01sInitTweaks() {
	for p := range c01sTweak {
		t := make([]byte, 32)
		for i := range t {
			t[i] = byte(0xa1 + 0x11*p)
		}
		c01sTweak[p] = t
	}
}

func c01sRing(s *c01sScn, p int) *CommitmentKeyRing {
	r := c01Ring(&s.ts, p)
	r.LocalHtlcKeyTweak = c01sTweak[p]
	return r
}

func c01sView(lc *LightningChannel, whose lntypes.ChannelParty, ring *CommitmentKeyRing) (*commitment, error) {
	return lc.fetchCommitmentView(
		whose, lc.updateLogs.Local.logIndex, lc.updateLogs.Local.htlcCounter,
		lc.updateLogs.Remote.logIndex, lc.updateLogs.Remote.htlcCounter, ring,
	)
}

// c01sLease: what SignNextCommitment / ReceiveNewCommitment pass as leaseExpiry.
func c01sLease(ct uint64, thaw uint32) uint32 {
	if ct&c01sBitLease != 0 {
		return thaw
	}
	return 0
}

// c01sSignDigest: the digest lnwallet/btcwallet.SignOutputRaw signs for a job.
func c01sSignDigest(j *SignJob) []byte {
	d := &j.SignDesc
	if d.SignMethod == input.TaprootScriptSpendSignMethod {
		leaf := txscript.TapLeaf{LeafVersion: txscript.BaseLeafVersion, Script: d.WitnessScript}
		fetcher := txscript.NewCannedPrevOutputFetcher(d.Output.PkScript, d.Output.Value)
		h, err := txscript.CalcTapscriptSignaturehash(d.SigHashes, d.HashType, j.Tx, d.InputIndex, fetcher, leaf)
		if err != nil {
			return nil
		}
		return h
	}
	h, err := txscript.CalcWitnessSigHash(d.WitnessScript, d.SigHashes, d.HashType, j.Tx, d.InputIndex, d.Output.Value)
	if err != nil {
		return nil
	}
	return h
}

// ---------------------------------------------------------------------------
// reference: BOLT-3 (+ lnd's taproot / lease rules), against the input API
// ---------------------------------------------------------------------------

// c01sExpectHtlc: output script of the HTLC on B's commitment and the script
// the second-level signature commits to (segwit v0: the witness script; taproot:
// the 2-of-2 leaf, i.e. the timeout leaf of an offered and the success leaf of a
// received HTLC).
func c01sExpectHtlc(ct uint64, q int, e *c01Ent) (pk, ws []byte) {
	sender, receiver := c01Keys[c01KHtlcA], c01Keys[c01KHtlcB]
	if q == 1 {
		sender, receiver = receiver, sender
	}
	revoke := c01Keys[c01KRevoke]
	confirmed := ct&c01BitAnchors != 0
	opts := c01TapOpts(ct)
	offered := q == c01sX
	switch {
	case ct&c01BitTaproot != 0 && offered:
		t, _ := input.SenderHTLCScriptTaproot(sender, receiver, revoke, e.hash[:], lntypes.Local, input.NoneTapLeaf(), opts...)
		ws, _ = t.WitnessScriptForPath(input.ScriptPathTimeout)
		return t.PkScript(), ws
	case ct&c01BitTaproot != 0:
		t, _ := input.ReceiverHTLCScriptTaproot(e.timeout, sender, receiver, revoke, e.hash[:], lntypes.Local, input.NoneTapLeaf(), opts...)
		ws, _ = t.WitnessScriptForPath(input.ScriptPathSuccess)
		return t.PkScript(), ws
	case offered:
		ws, _ = input.SenderHTLCScript(sender, receiver, revoke, e.hash[:], confirmed)
	default:
		ws, _ = input.ReceiverHTLCScript(e.timeout, sender, receiver, revoke, e.hash[:], confirmed)
	}
	pk, _ = input.WitnessScriptHash(ws)
	return pk, ws
}

// c01sExpectSecond: output script of the second-level transactions of B's
// commitment: revocation key, B's delayed key, the to_self_delay of B's
// commitment (stored in B's own config), plus the lease expiry iff B opened a
// script-enforced-lease channel.
func c01sExpectSecond(s *c01sScn) []byte {
	ct := s.vs.ct
	rev, delay := c01Keys[c01KRevoke], c01Keys[c01KDelay]
	csv := uint32(s.ts.csv[c01sX])
	switch {
	case ct&c01BitTaproot != 0:
		t, err := input.TaprootSecondLevelScriptTree(rev, delay, csv, input.NoneTapLeaf(), c01TapOpts(ct)...)
		if err != nil {
			return nil
		}
		return t.PkScript()
	case ct&c01sBitLease != 0 && s.vs.opener == c01sX:
		return c01P2WSH(input.LeaseSecondLevelHtlcScript(rev, delay, csv, s.ts.thaw))
	default:
		return c01P2WSH(input.SecondLevelHtlcScript(rev, delay, csv))
	}
}

// c01sJobIs: the sign job is BOLT-3's second-level transaction of HTLC e
// (offered by q) spending output j.OutputIndex of the commitment.
func c01sJobIs(s *c01sScn, j *SignJob, commit *wire.MsgTx, txid chainhash.Hash, second []byte, q int, e *c01Ent) bool {
	ct := s.vs.ct
	if j.Tx == nil || len(j.Tx.TxIn) != 1 || len(j.Tx.TxOut) != 1 || j.SignDesc.Output == nil ||
		j.OutputIndex < 0 || int(j.OutputIndex) >= len(commit.TxOut) {
		return false
	}
	offered := q == c01sX
	pk, ws := c01sExpectHtlc(ct, q, e)
	sat := int64(e.amt / 1000)
	spent := commit.TxOut[j.OutputIndex]
	in, out := j.Tx.TxIn[0], j.Tx.TxOut[0]
	wantLock, wantSeq, wantHash := uint32(0), uint32(0), txscript.SigHashAll
	if offered {
		// HTLC-timeout
		wantLock = e.timeout
	}
	if ct&c01BitAnchors != 0 {
		wantSeq = 1
		wantHash = txscript.SigHashSingle | txscript.SigHashAnyOneCanPay
	}
	ok := spent.Value == sat && bytes.Equal(spent.PkScript, pk)
	ok = ok && j.Tx.Version == 2 && j.Tx.LockTime == wantLock
	ok = ok && in.PreviousOutPoint.Hash == txid && in.PreviousOutPoint.Index == uint32(j.OutputIndex) && in.Sequence == wantSeq
	ok = ok && out.Value == sat-c01RefHtlcFee(ct, offered, s.vs.feePerKw) && bytes.Equal(out.PkScript, second)
	ok = ok && j.SignDesc.HashType == wantHash && j.SignDesc.InputIndex == 0
	ok = ok && bytes.Equal(j.SignDesc.WitnessScript, ws)
	ok = ok && j.SignDesc.Output.Value == sat && bytes.Equal(j.SignDesc.Output.PkScript, pk)
	ok = ok && (j.SignDesc.SignMethod == input.TaprootScriptSpendSignMethod) == (ct&c01BitTaproot != 0)
	return ok
}

// ---------------------------------------------------------------------------
// the check
// ---------------------------------------------------------------------------

// the i-th well-formed signature (r = i+1, s = 1): the verifier side only
// parses it; r identifies the signature a verification job carries
func c01sFixedSig(i int) []byte {
	b := make([]byte, 64)
	b[31], b[63] = byte(i+1), 1
	return b
}

func c01sCheck(s *c01sScn) {
	vs := &s.vs
	ct := vs.ct
	c01sNonDust(s)

	// ---- validity of the pre-state (reference first, fork-free) ----
	ref := c01RefView(vs)
	n := int64(len(vs.logs[0]) + len(vs.logs[1]))
	fee := c01RefCommitFee(ct, vs.feePerKw, n)
	vAssume(ref.bal[0] >= 0 && ref.bal[1] >= 0)
	vAssume(ref.bal[vs.opener] >= fee*1000)
	var after [2]int64
	after[0], after[1] = ref.bal[0], ref.bal[1]
	after[vs.opener] = after[vs.opener] - fee*1000
	// both main outputs present
	vAssume(after[0]/1000 >= vs.dust[c01sX] && after[1]/1000 >= vs.dust[c01sX])
	// arithmetic facts for fetchCommitmentView's fee-floor assertion (integer
	// reasoning, discharged once and then available to every later query):
	// the outputs leave at least the BOLT-3 fee, and that fee is at least
	// 250 sat/kw on the BOLT-3 weight (which bounds the real weight)
	outSum := after[0]/1000 + after[1]/1000
	if ct&c01BitAnchors != 0 {
		outSum = outSum + 660
	}
	for q := 0; q < 2; q++ {
		for i := range vs.logs[q] {
			outSum = outSum + int64(vs.logs[q][i].amt/1000)
		}
	}
	vLemma(outSum+fee <= vs.capacity, "outputs + fee never exceed the capacity")
	vLemma(fee*4 >= c01RefCommitFee(ct, 1000, n), "the BOLT-3 fee at >= 253 sat/kw is at least 250 sat/kw on the BOLT-3 weight")

	A, B := c01sChan(s, 0), c01sChan(s, 1)
	ringA, ringB := c01sRing(s, 0), c01sRing(s, 1)

	// ---- both sides build B's next commitment ----
	viewA, errA := c01sView(A, lntypes.Remote, ringA)
	viewB, errB := c01sView(B, lntypes.Local, ringB)
	vObserve("errA", errA != nil)
	vObserve("errB", errB != nil)
	vAssert(errA == nil && errB == nil, "both sides build the commitment (fetchCommitmentView)")
	if errA != nil || errB != nil {
		return
	}
	txidA, txidB := viewA.txn.TxHash(), viewB.txn.TxHash()
	vLemma(txidA == txidB, "both sides build the identical commitment transaction (same txid)")

	// ---- signer ----
	jobs, auxJobs, _, err := genRemoteHtlcSigJobs(
		ringA, A.channelState, c01sLease(ct, s.ts.thaw), viewA, fn.None[AuxLeafStore](),
	)
	vAssert(err == nil, "genRemoteHtlcSigJobs succeeds")
	if err != nil {
		return
	}
	vObserve("jobs", len(jobs))
	vAssert(int64(len(jobs)) == n && len(auxJobs) == len(jobs), "one sign job per untrimmed HTLC")
	if int64(len(jobs)) != n {
		return
	}
	// SignNextCommitment sends the signatures in the order of the output index
	if len(jobs) == 2 && jobs[0].OutputIndex > jobs[1].OutputIndex {
		jobs[0], jobs[1] = jobs[1], jobs[0]
	}
	if len(jobs) == 2 {
		vAssert(jobs[0].OutputIndex != jobs[1].OutputIndex, "two HTLCs spend two different outputs")
	}

	// ---- verifier: as many signatures as the signer produced ----
	sigs := make([]lnwire.Sig, len(jobs))
	for i := range sigs {
		var e error
		if ct&c01BitTaproot != 0 {
			sigs[i], e = lnwire.NewSigFromSchnorrRawSignature(c01sFixedSig(i))
		} else {
			sigs[i], e = lnwire.NewSigFromWireECDSA(c01sFixedSig(i))
		}
		if e != nil {
			panic(e)
		}
	}
	vjobs, _, err := genHtlcSigValidationJobs(
		B.channelState, viewB, ringB, sigs, c01sLease(ct, s.ts.thaw),
		fn.None[AuxLeafStore](), fn.None[AuxSigner](), fn.None[[]byte](),
	)
	vAssert(err == nil, "genHtlcSigValidationJobs accepts the number of signatures the signer sent")
	if err != nil {
		return
	}
	vAssert(len(vjobs) == len(jobs), "one verification job per sign job")
	if len(vjobs) != len(jobs) {
		return
	}

	// ---- agreement: the i-th signature verifies ----
	second := c01sExpectSecond(s)
	vAssert(second != nil, "reference second-level script")
	for i := range jobs {
		j := &jobs[i]
		dS := c01sSignDigest(j)
		// the verification job that carries the i-th signature (the
		// signatures are sent in the order of the sign jobs)
		var vj *VerifyJob
		for k := range vjobs {
			if vjobs[k].Sig != nil && bytes.Equal(vjobs[k].Sig.Serialize(), sigs[i].ToSignatureBytes()) {
				vj = &vjobs[k]
			}
		}
		vAssert(vj != nil, "the i-th signature is checked by some verification job")
		if vj == nil {
			continue
		}
		dV, e := vj.SigHash()
		vAssert(e == nil && dS != nil, "digests are computed")
		vAssert(bytes.Equal(dS, dV), "the i-th HTLC signature verifies: signer and verifier build identical signing inputs (second-level tx, hash type, script, amount)")
		// the key: A's HTLC key for this commitment
		vAssert(j.SignDesc.KeyDesc.PubKey == c01sBase[0] && bytes.Equal(j.SignDesc.SingleTweak, c01sTweak[0]) &&
			j.SignDesc.DoubleTweak == nil && vj.PubKey == c01Keys[c01KHtlcA],
			"signed with / verified against the signer's HTLC key of this commitment")

		// ---- the signer's job is BOLT-3's transaction for one of the HTLCs ----
		is := false
		for q := 0; q < 2; q++ {
			for k := range vs.logs[q] {
				is = is || c01sJobIs(s, j, viewA.txn, txidA, second, q, &vs.logs[q][k])
			}
		}
		vAssert(is, "the sign job is the BOLT-3 HTLC-timeout (offered by the owner) / HTLC-success (received) transaction of a pending HTLC: outpoint, locktime, sequence, value after fee, second-level script (csv of the owner, lease expiry iff the owner is the initiator), sighash type, witness script")
	}
	// every HTLC is signed for
	covered := true
	for q := 0; q < 2; q++ {
		for k := range vs.logs[q] {
			c := false
			for i := range jobs {
				c = c || c01sJobIs(s, &jobs[i], viewA.txn, txidA, second, q, &vs.logs[q][k])
			}
			covered = covered && c
		}
	}
	vAssert(covered, "every pending untrimmed HTLC has its sign job")
	if len(jobs) == 2 {
		o0, o1 := viewA.txn.TxOut[jobs[0].OutputIndex], viewA.txn.TxOut[jobs[1].OutputIndex]
		if o0.Value == o1.Value && bytes.Equal(o0.PkScript, o1.PkScript) {
			// BOLT-3: identical outputs are ordered by cltv expiry
			vAssert(jobs[0].Tx.LockTime <= jobs[1].Tx.LockTime, "identical HTLC outputs: signatures in the order of the cltv expiry")
		}
	}

	vReach("signed")
	if len(vs.logs[c01sX]) > 0 {
		vReach("timeout-tx")
	}
	if len(vs.logs[1-c01sX]) > 0 {
		vReach("success-tx")
	}
	if n == 2 {
		vReach("two-htlcs")
	}
	if ct&c01sBitLease != 0 && vs.opener == c01sX {
		vReach("lease-owner-is-initiator")
	}
	if ct&c01sBitLease != 0 && vs.opener != c01sX {
		vReach("lease-owner-not-initiator")
	}
	if len(vs.logs[0]) == 1 && len(vs.logs[1]) == 1 && vs.logs[0][0].amt/1000 > vs.logs[1][0].amt/1000 {
		// A assembles its own HTLC first, B's first on the sorted transaction
		vReach("sorted-order-differs-from-signer-order")
	}
	if len(vs.logs[c01sX]) == 2 && vs.logs[c01sX][0].amt/1000 == vs.logs[c01sX][1].amt/1000 &&
		vs.logs[c01sX][0].hash == vs.logs[c01sX][1].hash && vs.logs[c01sX][0].timeout != vs.logs[c01sX][1].timeout {
		vReach("cltv-tie")
	}
}

func c01HtlcSigs(types, openers, shapes, rates []int) {
	c01sCfg()
	c01sInitKeys()
	c01sInitTweaks()
	var s c01sScn
	c01sScenario(&s, types, openers, shapes, rates)
	c01sCheck(&s)
}

// Channel types: 0 legacy, 1 tweakless, 2 anchors, 3 zero-fee-htlc anchors,
// 4 script-enforced lease, 5 taproot staging, 6 taproot final. Shapes (HTLCs
// offered by A, by B; the commitment is B's, so A's are success, B's timeout
// transactions): 0 = (1,0), 1 = (0,1), 2 = (1,1), 3 = (2,0), 4 = (0,2).
// Fee rates: 0 = 2500, 1 = 253, 2 = 50 000 sat/kw.

// VerifC01HtlcSigs (thorough; sharded by type and opener): all seven channel
// types, either party as opener, all five shapes, 2500 sat/kw.
func VerifC01HtlcSigs() {
	c01HtlcSigs([]int{0, 1, 2, 3, 4, 5, 6}, []int{0, 1}, []int{0, 1, 2, 3, 4}, []int{0})
}

// VerifC01HtlcSigsRates (thorough; sharded by type): the three channel types
// whose second-level transactions pay a fee, at the relay floor and at a high
// fee rate; opener A, up to one HTLC per direction.
func VerifC01HtlcSigsRates() {
	c01HtlcSigs([]int{0, 1, 2}, []int{0}, []int{0, 1, 2}, []int{1, 2})
}

// Quick tier: legacy (second-level fees differ per direction) with all five
// shapes; script-enforced lease with either opener and taproot final, one HTLC
// in either direction.
func VerifC01HtlcSigsLegacy() {
	c01HtlcSigs([]int{0}, []int{0}, []int{0, 1, 2, 3, 4}, []int{0})
}

func VerifC01HtlcSigsLease() {
	c01HtlcSigs([]int{4}, []int{0, 1}, []int{0, 1}, []int{0})
}

func VerifC01HtlcSigsTaproot() {
	c01HtlcSigs([]int{6}, []int{1}, []int{0, 1}, []int{0})
}
