package lnwallet

// Harness for C01, stage 2: construction of the commitment transaction.
//
// Units executed symbolically (real lnd code):
//   (*CommitmentBuilder).createUnsignedCommitmentTx, CreateCommitTx, addHTLC,
//   genHtlcScript, genSegwitV0HtlcScript, GenTaprootHtlcScript,
//   CommitScriptToSelf, CommitScriptToRemote, CommitScriptAnchors,
//   SetStateNumHint, DefaultCommitSort, HtlcIsDust + fee helpers, CommitWeight,
//   fundingTxIn, wire.NewMsgTx/AddTxIn/AddTxOut, blockchain.CheckTransactionSanity,
//   and, in the sort entry, InPlaceCommitSort / sortableCommitOutputSlice.
//
// Ideal scripts: the leaf script builders of package input (SenderHTLCScript,
// ReceiverHTLCScript, CommitScriptToSelf, ..., WitnessScriptHash, the taproot
// script-tree constructors and (*ScriptTree).PkScript) are replaced (vReplace)
// by uninterpreted functions (vHash) of their arguments: two scripts are equal
// iff they are built by the same template from equal arguments; nothing is
// assumed about different arguments. Which template and which key goes where
// is decided by real lnd code. Natively (replay) the real builders run with
// real secp256k1 keys.

import (
	"bytes"

	"github.com/btcsuite/btcd/btcec/v2"
	"github.com/btcsuite/btcd/btcutil/v2"
	"github.com/btcsuite/btcd/wire/v2"
	"github.com/lightningnetwork/lnd/chanstate"
	"github.com/lightningnetwork/lnd/fn/v2"
	"github.com/lightningnetwork/lnd/input"
	"github.com/lightningnetwork/lnd/lntypes"
	"github.com/lightningnetwork/lnd/lnwallet/chainfee"
	"github.com/lightningnetwork/lnd/lnwire"
)

// ---------------------------------------------------------------------------
// keys
// ---------------------------------------------------------------------------

const (
	c01KDelay   = iota // to_local key of the commitment's owner
	c01KPay            // to_remote key (the non-owner's payment key)
	c01KRevoke         // revocation key of this commitment
	c01KHtlcA          // A's HTLC key for this commitment
	c01KHtlcB          // B's HTLC key
	c01KFundA          // A's funding (multisig) key
	c01KFundB          // B's funding key
	c01NKeys
)

var c01Keys [c01NKeys]*btcec.PublicKey

func c01InitKeys() {
	for i := range c01Keys {
		if vNative() {
			// real keys for the real script builders
			var seed [32]byte
			seed[31] = byte(i + 1)
			seed[0] = 0x42
			_, pub := btcec.PrivKeyFromBytes(seed[:])
			c01Keys[i] = pub
		} else {
			// opaque: only the identity of the key matters
			c01Keys[i] = new(btcec.PublicKey)
		}
	}
}

// c01KB: the identity of a key as bytes (ideal world only).
func c01KB(k *btcec.PublicKey) []byte {
	for i, kk := range c01Keys {
		if kk == k {
			return []byte{byte(i)}
		}
	}
	return []byte{0xff}
}

func c01U32(v uint32) []byte { return []byte{byte(v >> 24), byte(v >> 16), byte(v >> 8), byte(v)} }
func c01Bool(b bool) []byte {
	if b {
		return []byte{1}
	}
	return []byte{0}
}

// ---------------------------------------------------------------------------
// ideal script builders (replace functions of package input)
// ---------------------------------------------------------------------------

func c01SenderHTLCScript(senderHtlcKey, receiverHtlcKey, revocationKey *btcec.PublicKey,
	paymentHash []byte, confirmedSpend bool) ([]byte, error) {

	return vHash("SenderHTLCScript", 40, c01KB(senderHtlcKey), c01KB(receiverHtlcKey),
		c01KB(revocationKey), paymentHash, c01Bool(confirmedSpend)), nil
}

func c01ReceiverHTLCScript(cltvExpiry uint32, senderHtlcKey, receiverHtlcKey,
	revocationKey *btcec.PublicKey, paymentHash []byte, confirmedSpend bool) ([]byte, error) {

	return vHash("ReceiverHTLCScript", 40, c01U32(cltvExpiry), c01KB(senderHtlcKey),
		c01KB(receiverHtlcKey), c01KB(revocationKey), paymentHash, c01Bool(confirmedSpend)), nil
}

func c01WitnessScriptHash(witnessScript []byte) ([]byte, error) {
	return vHash("WitnessScriptHash", 34, witnessScript), nil
}

func c01CommitScriptToSelf(csvTimeout uint32, selfKey, revokeKey *btcec.PublicKey) ([]byte, error) {
	return vHash("CommitScriptToSelf", 40, c01U32(csvTimeout), c01KB(selfKey), c01KB(revokeKey)), nil
}

func c01LeaseCommitScriptToSelf(selfKey, revokeKey *btcec.PublicKey, csvTimeout, leaseExpiry uint32) ([]byte, error) {
	return vHash("LeaseCommitScriptToSelf", 40, c01KB(selfKey), c01KB(revokeKey), c01U32(csvTimeout), c01U32(leaseExpiry)), nil
}

func c01CommitScriptUnencumbered(key *btcec.PublicKey) ([]byte, error) {
	return vHash("CommitScriptUnencumbered", 22, c01KB(key)), nil
}

func c01CommitScriptToRemoteConfirmed(key *btcec.PublicKey) ([]byte, error) {
	return vHash("CommitScriptToRemoteConfirmed", 40, c01KB(key)), nil
}

func c01LeaseCommitScriptToRemoteConfirmed(key *btcec.PublicKey, leaseExpiry uint32) ([]byte, error) {
	return vHash("LeaseCommitScriptToRemoteConfirmed", 40, c01KB(key), c01U32(leaseExpiry)), nil
}

func c01CommitScriptAnchor(key *btcec.PublicKey) ([]byte, error) {
	return vHash("CommitScriptAnchor", 40, c01KB(key)), nil
}

// taproot: the script tree is represented by its (ideal) root; PkScript hashes
// the root.
func c01SenderHTLCScriptTaproot(senderHtlcKey, receiverHtlcKey, revokeKey *btcec.PublicKey,
	payHash []byte, whoseCommit lntypes.ChannelParty, auxLeaf input.AuxTapLeaf,
	opts ...input.TaprootScriptOpt) (*input.HtlcScriptTree, error) {

	root := vHash("SenderHTLCScriptTaproot", 32, c01KB(senderHtlcKey), c01KB(receiverHtlcKey),
		c01KB(revokeKey), payHash, []byte{byte(len(opts))})
	return &input.HtlcScriptTree{ScriptTree: input.ScriptTree{TapscriptRoot: root}}, nil
}

func c01ReceiverHTLCScriptTaproot(cltvExpiry uint32, senderHtlcKey, receiverHtlcKey,
	revocationKey *btcec.PublicKey, payHash []byte, whoseCommit lntypes.ChannelParty,
	auxLeaf input.AuxTapLeaf, opts ...input.TaprootScriptOpt) (*input.HtlcScriptTree, error) {

	root := vHash("ReceiverHTLCScriptTaproot", 32, c01U32(cltvExpiry), c01KB(senderHtlcKey),
		c01KB(receiverHtlcKey), c01KB(revocationKey), payHash, []byte{byte(len(opts))})
	return &input.HtlcScriptTree{ScriptTree: input.ScriptTree{TapscriptRoot: root}}, nil
}

func c01NewLocalCommitScriptTree(csvTimeout uint32, selfKey, revokeKey *btcec.PublicKey,
	auxLeaf input.AuxTapLeaf, opts ...input.TaprootScriptOpt) (*input.CommitScriptTree, error) {

	root := vHash("NewLocalCommitScriptTree", 32, c01U32(csvTimeout), c01KB(selfKey),
		c01KB(revokeKey), []byte{byte(len(opts))})
	return &input.CommitScriptTree{ScriptTree: input.ScriptTree{TapscriptRoot: root}}, nil
}

func c01NewRemoteCommitScriptTree(remoteKey *btcec.PublicKey, auxLeaf input.AuxTapLeaf,
	opts ...input.TaprootScriptOpt) (*input.CommitScriptTree, error) {

	root := vHash("NewRemoteCommitScriptTree", 32, c01KB(remoteKey), []byte{byte(len(opts))})
	return &input.CommitScriptTree{ScriptTree: input.ScriptTree{TapscriptRoot: root}}, nil
}

func c01NewAnchorScriptTree(anchorKey *btcec.PublicKey) (*input.AnchorScriptTree, error) {
	root := vHash("NewAnchorScriptTree", 32, c01KB(anchorKey))
	return &input.AnchorScriptTree{ScriptTree: input.ScriptTree{TapscriptRoot: root}}, nil
}

func c01TreePkScript(s *input.ScriptTree) []byte {
	return vHash("PayToTaprootScript", 34, s.TapscriptRoot)
}

func c01ScriptCfg() {
	const in = "github.com/lightningnetwork/lnd/input."
	const me = "github.com/lightningnetwork/lnd/lnwallet."
	vReplace(in+"SenderHTLCScript", me+"c01SenderHTLCScript")
	vReplace(in+"ReceiverHTLCScript", me+"c01ReceiverHTLCScript")
	vReplace(in+"WitnessScriptHash", me+"c01WitnessScriptHash")
	vReplace(in+"CommitScriptToSelf", me+"c01CommitScriptToSelf")
	vReplace(in+"LeaseCommitScriptToSelf", me+"c01LeaseCommitScriptToSelf")
	vReplace(in+"CommitScriptUnencumbered", me+"c01CommitScriptUnencumbered")
	vReplace(in+"CommitScriptToRemoteConfirmed", me+"c01CommitScriptToRemoteConfirmed")
	vReplace(in+"LeaseCommitScriptToRemoteConfirmed", me+"c01LeaseCommitScriptToRemoteConfirmed")
	vReplace(in+"CommitScriptAnchor", me+"c01CommitScriptAnchor")
	vReplace(in+"SenderHTLCScriptTaproot", me+"c01SenderHTLCScriptTaproot")
	vReplace(in+"ReceiverHTLCScriptTaproot", me+"c01ReceiverHTLCScriptTaproot")
	vReplace(in+"NewLocalCommitScriptTree", me+"c01NewLocalCommitScriptTree")
	vReplace(in+"NewRemoteCommitScriptTree", me+"c01NewRemoteCommitScriptTree")
	vReplace(in+"NewAnchorScriptTree", me+"c01NewAnchorScriptTree")
	vReplace("(*github.com/lightningnetwork/lnd/input.ScriptTree).PkScript", me+"c01TreePkScript")
	vAssumption("C01 tx: ideal scripts: the leaf script builders of package input and WitnessScriptHash/PayToTaprootScript are uninterpreted functions of their arguments (keys by identity); the Bitcoin script interpreter is never run")
}

// ---------------------------------------------------------------------------
// scenario
// ---------------------------------------------------------------------------

type c01Htlc struct {
	amt     uint64
	timeout uint32
	hash    [32]byte
	idx     uint64
}

type c01TxScn struct {
	ct       uint64
	opener   int
	chain    int       // whose commitment (owner)
	bal      [2]uint64 // balances of A and B before the commit fee, after anchors (msat)
	feePerKw int64
	height   uint64
	dust     [2]int64
	csv      [2]uint16 // to_self_delay each party imposes on the OTHER party's commitment: csv[p] is in p's own ChannelConfig
	thaw     uint32
	capacity int64
	obf      [StateHintSize]byte
	htlcs    [2][]c01Htlc // offered by A / by B, pending on the new commitment
}

func c01TxScalars(s *c01TxScn) {
	s.bal[0], s.bal[1] = vU64("bal.A"), vU64("bal.B")
	vAssume(s.bal[0] <= c01MaxMsat && s.bal[1] <= c01MaxMsat)
	s.feePerKw = vI64("feePerKw")
	vAssume(s.feePerKw >= 0 && s.feePerKw <= c01MaxFeePerKw)
	s.height = vU64("height")
	s.dust[0], s.dust[1] = vI64("dust.A"), vI64("dust.B")
	vAssume(s.dust[0] >= 0 && s.dust[0] <= c01MaxSat && s.dust[1] >= 0 && s.dust[1] <= c01MaxSat)
	s.csv[0], s.csv[1] = vU16("csv.A"), vU16("csv.B")
	s.thaw = vU32("thawHeight")
	ob := vBytes("obfuscator", StateHintSize)
	copy(s.obf[:], ob)
}

func c01TxHtlcs(s *c01TxScn, maxN int, symHash bool) {
	names := [2]string{"A", "B"}
	digits := [4]string{"0", "1", "2", "3"}
	var sum uint64
	for q := 0; q < 2; q++ {
		n := vChoice("n"+names[q], maxN+1)
		s.htlcs[q] = make([]c01Htlc, n)
		for i := 0; i < n; i++ {
			h := &s.htlcs[q][i]
			pfx := "h" + names[q] + digits[i]
			h.amt = vU64(pfx + ".amt")
			vAssume(h.amt <= c01MaxMsat)
			h.timeout = vU32(pfx + ".timeout")
			if symHash {
				copy(h.hash[:], vBytes(pfx+".hash", 32))
			} else {
				// same payment hash for all: duplicates possible
				h.hash[0] = 0x77
			}
			h.idx = c01HtlcBase[q] + uint64(i)
			sum += h.amt
		}
	}
	// I3: the balances before the commit fee, the pending HTLCs and (anchor
	// channels) the two anchors the opener paid for at funding time add up
	// to the capacity, to the millisatoshi.
	capSat := vI64("capacity")
	vAssume(capSat >= 0 && capSat <= int64(c01MaxMsat/1000))
	s.capacity = capSat
	anch := uint64(0)
	if s.ct&c01BitAnchors != 0 {
		anch = 2 * 330 * 1000
	}
	vAssume(s.bal[0]+s.bal[1]+sum+anch == uint64(capSat)*1000)
}

func c01Cfg(s *c01TxScn, p int) chanstate.ChannelConfig {
	var c chanstate.ChannelConfig
	c.DustLimit = btcutil.Amount(s.dust[p])
	c.CsvDelay = s.csv[p]
	if p == 0 {
		c.MultiSigKey.PubKey = c01Keys[c01KFundA]
	} else {
		c.MultiSigKey.PubKey = c01Keys[c01KFundB]
	}
	return c
}

// c01Builder: the CommitmentBuilder of party p.
func c01Builder(s *c01TxScn, p int) *CommitmentBuilder {
	st := &chanstate.OpenChannel{
		ChanType:      chanstate.ChannelType(s.ct),
		IsInitiator:   s.opener == p,
		Capacity:      btcutil.Amount(s.capacity),
		ThawHeight:    s.thaw,
		LocalChanCfg:  c01Cfg(s, p),
		RemoteChanCfg: c01Cfg(s, 1-p),
	}
	st.FundingOutpoint.Hash[0] = 0x11
	st.FundingOutpoint.Index = 1
	return &CommitmentBuilder{
		chanState:    st,
		obfuscator:   s.obf,
		auxLeafStore: fn.None[AuxLeafStore](),
	}
}

// c01Ring: the key ring party p derives for the commitment of s.chain: same
// owner-relative keys on both sides, "local"/"remote" HTLC keys from p's
// perspective.
func c01Ring(s *c01TxScn, p int) *CommitmentKeyRing {
	r := &CommitmentKeyRing{
		ToLocalKey:    c01Keys[c01KDelay],
		ToRemoteKey:   c01Keys[c01KPay],
		RevocationKey: c01Keys[c01KRevoke],
	}
	if p == 0 {
		r.LocalHtlcKey, r.RemoteHtlcKey = c01Keys[c01KHtlcA], c01Keys[c01KHtlcB]
	} else {
		r.LocalHtlcKey, r.RemoteHtlcKey = c01Keys[c01KHtlcB], c01Keys[c01KHtlcA]
	}
	return r
}

func c01TxView(s *c01TxScn, p int) *HtlcView {
	mk := func(q int) []*paymentDescriptor {
		var l []*paymentDescriptor
		for i := range s.htlcs[q] {
			h := &s.htlcs[q][i]
			l = append(l, &paymentDescriptor{
				EntryType: Add,
				Amount:    lnwire.MilliSatoshi(h.amt),
				Timeout:   h.timeout,
				RHash:     h.hash,
				HtlcIndex: h.idx,
			})
		}
		return l
	}
	return &HtlcView{
		NextHeight: s.height,
		FeePerKw:   chainfee.SatPerKWeight(s.feePerKw),
		Updates:    lntypes.Dual[[]*paymentDescriptor]{Local: mk(p), Remote: mk(1 - p)},
	}
}

type c01TxOut struct {
	tx   *unsignedCommitmentTx
	view *HtlcView
	err  error
}

func c01Build(s *c01TxScn, p int) c01TxOut {
	cb := c01Builder(s, p)
	view := c01TxView(s, p)
	var o c01TxOut
	o.view = view
	o.tx, o.err = cb.createUnsignedCommitmentTx(
		lnwire.MilliSatoshi(s.bal[p]), lnwire.MilliSatoshi(s.bal[1-p]),
		c01Party(s.chain, p), chainfee.SatPerKWeight(s.feePerKw), s.height,
		view, view, c01Ring(s, p), &commitment{},
	)
	return o
}

// c01CountOut: number of outputs equal to (value, script, cltv).
func c01CountOut(t *unsignedCommitmentTx, value int64, script []byte, cltv uint32) int {
	n := 0
	for i, o := range t.txn.TxOut {
		if o.Value == value && bytes.Equal(o.PkScript, script) && t.cltvs[i] == cltv {
			n++
		}
	}
	return n
}

// c01SameOutputs: the two transactions have the same multiset of
// (value, script, cltv) outputs.
func c01SameOutputs(a, b *unsignedCommitmentTx) bool {
	if len(a.txn.TxOut) != len(b.txn.TxOut) || len(a.cltvs) != len(a.txn.TxOut) || len(b.cltvs) != len(b.txn.TxOut) {
		return false
	}
	ok := true
	for i, o := range a.txn.TxOut {
		ok = ok && c01CountOut(a, o.Value, o.PkScript, a.cltvs[i]) == c01CountOut(b, o.Value, o.PkScript, a.cltvs[i])
	}
	return ok
}

// c01ExpectScripts: BOLT-3's assignment of templates and keys, written
// independently of lnwallet/commitment.go, in terms of the ideal builders.
type c01Expect struct {
	toLocal, toRemote, anchorOwner, anchorOther []byte
}

// The expectations below are written against the API of package input: in the
// ideal world these calls are the uninterpreted builders above, natively they
// are the real ones.
func c01P2WSH(script []byte, _ error) []byte {
	h, _ := input.WitnessScriptHash(script)
	return h
}

func c01TapOpts(ct uint64) []input.TaprootScriptOpt {
	var opts []input.TaprootScriptOpt
	if ct&c01BitTapFinal != 0 {
		opts = append(opts, input.WithProdScripts())
	}
	return opts
}

func c01ExpectScripts(s *c01TxScn) c01Expect {
	var e c01Expect
	X := s.chain
	ownerIsOpener := s.opener == X
	taproot := s.ct&c01BitTaproot != 0
	anchors := s.ct&c01BitAnchors != 0
	lease := s.ct&(1<<6) != 0
	opts := c01TapOpts(s.ct)
	delay, pay, revoke := c01Keys[c01KDelay], c01Keys[c01KPay], c01Keys[c01KRevoke]
	// the owner's to_local output is delayed by the to_self_delay the
	// OTHER party asked for, which lnd stores in the owner's own config
	csv := uint32(s.csv[X])
	fund := [2]*btcec.PublicKey{c01Keys[c01KFundA], c01Keys[c01KFundB]}
	switch {
	case taproot:
		t, _ := input.NewLocalCommitScriptTree(csv, delay, revoke, input.NoneTapLeaf(), opts...)
		e.toLocal = t.PkScript()
	case lease && ownerIsOpener:
		// script-enforced lease: every output paying the OPENER is
		// additionally locked until the lease expires
		e.toLocal = c01P2WSH(input.LeaseCommitScriptToSelf(delay, revoke, csv, s.thaw))
	default:
		e.toLocal = c01P2WSH(input.CommitScriptToSelf(csv, delay, revoke))
	}
	switch {
	case lease && !ownerIsOpener:
		// to_remote pays the opener iff the owner is not the opener
		e.toRemote = c01P2WSH(input.LeaseCommitScriptToRemoteConfirmed(pay, s.thaw))
	case taproot:
		t, _ := input.NewRemoteCommitScriptTree(pay, input.NoneTapLeaf(), opts...)
		e.toRemote = t.PkScript()
	case anchors:
		e.toRemote = c01P2WSH(input.CommitScriptToRemoteConfirmed(pay))
	default:
		e.toRemote, _ = input.CommitScriptUnencumbered(pay)
	}
	if taproot {
		// taproot anchors: keyed by the to_local / to_remote keys
		a1, _ := input.NewAnchorScriptTree(delay)
		a2, _ := input.NewAnchorScriptTree(pay)
		e.anchorOwner, e.anchorOther = a1.PkScript(), a2.PkScript()
	} else if anchors {
		e.anchorOwner = c01P2WSH(input.CommitScriptAnchor(fund[X]))
		e.anchorOther = c01P2WSH(input.CommitScriptAnchor(fund[1-X]))
	}
	return e
}

// c01ExpectHtlcScript: BOLT-3: an HTLC offered by the commitment's owner gets
// the "offered HTLC" script (lnd: sender script), otherwise the "received HTLC"
// script; keys: HTLC keys of offerer (sender) and recipient, revocation key.
func c01ExpectHtlcScript(s *c01TxScn, q int, h *c01Htlc) []byte {
	sender, receiver := c01Keys[c01KHtlcA], c01Keys[c01KHtlcB]
	if q == 1 {
		sender, receiver = receiver, sender
	}
	revoke := c01Keys[c01KRevoke]
	taproot := s.ct&c01BitTaproot != 0
	confirmed := s.ct&c01BitAnchors != 0
	opts := c01TapOpts(s.ct)
	offered := q == s.chain
	// the taproot builders record (for signing purposes only) whether the
	// caller looks at its own commitment; the output script does not depend
	// on it
	whose := lntypes.Local
	switch {
	case taproot && offered:
		t, _ := input.SenderHTLCScriptTaproot(sender, receiver, revoke, h.hash[:], whose, input.NoneTapLeaf(), opts...)
		return t.PkScript()
	case taproot:
		t, _ := input.ReceiverHTLCScriptTaproot(h.timeout, sender, receiver, revoke, h.hash[:], whose, input.NoneTapLeaf(), opts...)
		return t.PkScript()
	case offered:
		return c01P2WSH(input.SenderHTLCScript(sender, receiver, revoke, h.hash[:], confirmed))
	default:
		return c01P2WSH(input.ReceiverHTLCScript(h.timeout, sender, receiver, revoke, h.hash[:], confirmed))
	}
}

func c01TxCfg() {
	c01ScriptCfg()
	vMerge("github.com/lightningnetwork/lnd/lnwallet.HtlcIsDust")
	vMerge("github.com/lightningnetwork/lnd/lnwallet.CommitWeight")
	vMerge("github.com/lightningnetwork/lnd/lnwallet.c01RefDust")
	// the sort is verified on its own (VerifC01Sort): here the outputs stay in
	// construction order and every statement below is order-independent
	// (natively the real sort runs)
	vNoop("github.com/lightningnetwork/lnd/lnwallet.InPlaceCommitSort")
	vAssumption("C01 tx: pre-state invariant I3 assumed (balances before fee + pending HTLCs + 660 sat of anchors for anchor channels = capacity, to the msat); amounts/balances <= 2e12 msat, capacity <= 2e9 sat, fee rate <= 2^32, dust limits <= 21e6 BTC; HTLC indexes concrete")
	vAssumption("C01 tx: InPlaceCommitSort is skipped in the construction entries (outputs compared as multisets) and verified separately in VerifC01Sort")
}

var c01Sink int

// c01SplitOnDust makes the trimming status of every HTLC a case split of the
// exploration BEFORE the transaction is built (lnd's third loop over the HTLCs
// forks on it anyway), so that the number of untrimmed HTLCs, and with it the
// weight the fee rate is multiplied by, is a constant on every path instead
// of a symbolic factor.
func c01SplitOnDust(s *c01TxScn) {
	for q := 0; q < 2; q++ {
		for i := range s.htlcs[q] {
			h := &s.htlcs[q][i]
			// A's view of the commitment of s.chain: the very call
			// createUnsignedCommitmentTx makes
			d := HtlcIsDust(
				chanstate.ChannelType(s.ct), q == 1, c01Party(s.chain, 0),
				chainfee.SatPerKWeight(s.feePerKw),
				lnwire.MilliSatoshi(h.amt).ToSatoshis(), btcutil.Amount(s.dust[s.chain]),
			)
			if d {
				c01Sink++
			} else {
				c01Sink--
			}
			// the same for the reference predicate (BOLT-3 rule), which
			// agrees with lnd's (also proven in VerifC01Dust)
			r := c01RefDust(s.ct, q == s.chain, s.feePerKw, h.amt, s.dust[s.chain])
			vAssert(d == r, "HtlcIsDust equals BOLT-3 trimming rule")
			if r {
				c01Sink++
			} else {
				c01Sink--
			}
		}
	}
}

// c01CheckTx builds the commitment of s.chain on both sides and checks it.
func c01CheckTx(s *c01TxScn) {
	c01SplitOnDust(s)
	X := s.chain

	// ---- reference: BOLT-3 fee and trimming ----
	var untrim int64
	var trimmedSat, htlcSat int64
	for q := 0; q < 2; q++ {
		for i := range s.htlcs[q] {
			h := &s.htlcs[q][i]
			if !c01RefDust(s.ct, q == X, s.feePerKw, h.amt, s.dust[X]) {
				untrim = untrim + 1
				htlcSat = htlcSat + int64(h.amt/1000)
			} else {
				trimmedSat = trimmedSat + int64(h.amt/1000)
			}
		}
	}
	fee := c01RefCommitFee(s.ct, s.feePerKw, untrim)
	op := s.opener
	canPay := fee <= int64(s.bal[op]/1000)
	// balances after the fee (msat)
	var after [2]uint64
	after[0], after[1] = s.bal[0], s.bal[1]
	if canPay {
		after[op] = s.bal[op] - uint64(fee)*1000
	} else {
		after[op] = 0
	}
	ownerSat, otherSat := int64(after[X]/1000), int64(after[1-X]/1000)
	hasLocal := ownerSat >= s.dust[X]
	hasRemote := otherSat >= s.dust[X]
	anchors := s.ct&c01BitAnchors != 0

	// what BOLT-3 puts on the transaction
	nOut := 0
	wantTotal := htlcSat
	if hasLocal {
		nOut++
		wantTotal = wantTotal + ownerSat
	}
	if hasRemote {
		nOut++
		wantTotal = wantTotal + otherSat
	}
	if anchors && (hasLocal || untrim > 0) {
		nOut++
		wantTotal = wantTotal + 330
	}
	if anchors && (hasRemote || untrim > 0) {
		nOut++
		wantTotal = wantTotal + 330
	}
	// the only refusals: nothing left to put on the transaction, or the
	// opener cannot pay the fee and outputs plus the nominal fee exceed the
	// capacity
	wantRefuse := (nOut == 0 && untrim == 0) || wantTotal+fee > s.capacity
	// arithmetic fact (integer reasoning; discharged once, then available to
	// every later query): with I3, when the opener pays the whole fee the
	// outputs and the fee fit into the capacity
	vLemma(!canPay || wantTotal+fee <= s.capacity, "when the opener can afford the fee, outputs + fee never exceed the capacity")

	ra := c01Build(s, 0)
	rb := c01Build(s, 1)
	vObserve("errA", ra.err != nil)
	vObserve("errB", rb.err != nil)
	vAssert((ra.err != nil) == (rb.err != nil), "mirror: both sides build the commitment or both refuse")
	vAssert((ra.err != nil) == wantRefuse, "the commitment is refused iff it would have no outputs or outputs + fee exceed the capacity")
	if ra.err != nil || rb.err != nil {
		vReach("refused")
		return
	}
	ta, tb := ra.tx, rb.tx

	// ---- (mirror) ----
	vAssert(ta.ourBalance == tb.theirBalance && ta.theirBalance == tb.ourBalance && ta.fee == tb.fee,
		"mirror: swapped balances after fee, same fee")
	vAssert(c01SameOutputs(ta, tb), "mirror: both sides build the same outputs (value, script, cltv)")
	vAssert(ta.txn.LockTime == tb.txn.LockTime && ta.txn.Version == tb.txn.Version &&
		len(ta.txn.TxIn) == 1 && len(tb.txn.TxIn) == 1 &&
		ta.txn.TxIn[0].Sequence == tb.txn.TxIn[0].Sequence &&
		ta.txn.TxIn[0].PreviousOutPoint == tb.txn.TxIn[0].PreviousOutPoint,
		"mirror: same version, locktime, sequence and funding input")

	// ---- fee to the opener only ----
	vObserve("fee", int64(ta.fee))
	vAssert(int64(ta.fee) == fee, "commit fee = BOLT-3 fee for the untrimmed HTLCs")
	vAssert(uint64(ta.ourBalance) == after[0] && uint64(ta.theirBalance) == after[1],
		"the fee is charged to the opener only (its whole balance if it cannot afford the fee); the other balance is untouched")

	// ---- outputs ----
	e := c01ExpectScripts(s)
	okMain := true
	if hasLocal {
		okMain = okMain && c01CountOut(ta, ownerSat, e.toLocal, 0) >= 1
	}
	if hasRemote {
		okMain = okMain && c01CountOut(ta, otherSat, e.toRemote, 0) >= 1
	}
	vAssert(okMain, "to_local / to_remote outputs present with the balance in sat and the BOLT-3 script iff not below the owner's dust limit")
	if anchors {
		okAnch := true
		if hasLocal || untrim > 0 {
			okAnch = okAnch && c01CountOut(ta, 330, e.anchorOwner, 0) >= 1
		}
		if hasRemote || untrim > 0 {
			okAnch = okAnch && c01CountOut(ta, 330, e.anchorOther, 0) >= 1
		}
		vAssert(okAnch, "anchor outputs (330 sat) present for a party iff it has a main output or there are untrimmed HTLCs")
	}
	okHtlc := true
	for q := 0; q < 2; q++ {
		for i := range s.htlcs[q] {
			h := &s.htlcs[q][i]
			dust := c01RefDust(s.ct, q == X, s.feePerKw, h.amt, s.dust[X])
			sc := c01ExpectHtlcScript(s, q, h)
			// number of pending HTLCs that are indistinguishable
			// from this one on the transaction
			same := 0
			for q2 := 0; q2 < 2; q2++ {
				for i2 := range s.htlcs[q2] {
					h2 := &s.htlcs[q2][i2]
					if !c01RefDust(s.ct, q2 == X, s.feePerKw, h2.amt, s.dust[X]) &&
						h2.amt/1000 == h.amt/1000 && h2.timeout == h.timeout &&
						bytes.Equal(c01ExpectHtlcScript(s, q2, h2), sc) {
						same++
					}
				}
			}
			got := c01CountOut(ta, int64(h.amt/1000), sc, h.timeout)
			okHtlc = okHtlc && (dust || got >= same)
		}
	}
	vAssert(okHtlc, "every untrimmed HTLC has its own output of amt.ToSatoshis() with the BOLT-3 offered/received script and its cltv")
	vAssert(int64(len(ta.txn.TxOut)) == int64(nOut)+untrim, "no other outputs")

	// ---- value ----
	var total int64
	for _, o := range ta.txn.TxOut {
		total += o.Value
	}
	vAssert(total+int64(ta.fee) <= s.capacity, "outputs + fee <= capacity")
	vAssert(total == wantTotal, "sum of outputs = balances in sat that are not trimmed + untrimmed HTLCs in sat + anchors")

	// ---- state hint (BOLT-3): 48 bits of height xor obfuscator in locktime/sequence ----
	var ob uint64
	for _, b := range s.obf {
		ob = ob<<8 | uint64(b)
	}
	seq, lt := ta.txn.TxIn[0].Sequence, ta.txn.LockTime
	vAssert(seq>>24 == 0x80 && lt>>24 == 0x20 &&
		(uint64(seq&0xffffff)<<24|uint64(lt&0xffffff))^ob == s.height,
		"locktime/sequence encode the obscured commitment number (upper bytes 0x20 / 0x80)")

	vReach("built")
	if untrim > 0 {
		vReach("htlc-output")
	}
	if trimmedSat > 0 {
		vReach("htlc-trimmed")
	}
	if !canPay {
		vReach("opener-cannot-pay")
	}
}

func c01Tx(maxN, maxTotal int, types []int) {
	c01TxCfg()
	c01InitKeys()
	var s c01TxScn
	s.ct = c01TypeOf(types[vChoice("type", len(types))])
	s.opener = 0 // WLOG, see c01View
	s.chain = vChoice("chain", 2)
	c01TxScalars(&s)
	vAssume(s.height < 1<<48) // SetStateNumHint refuses larger heights
	c01TxHtlcs(&s, maxN, true)
	if len(s.htlcs[0])+len(s.htlcs[1]) > maxTotal {
		vAssume(false)
	}
	c01CheckTx(&s)
}

// VerifC01Tx1: at most one pending HTLC (either direction); legacy,
// zero-fee-htlc anchors, taproot final.
func VerifC01Tx1() { c01Tx(1, 1, []int{0, 3, 6}) }

// VerifC01Tx1All: the same for all seven channel types.
func VerifC01Tx1All() { c01Tx(1, 1, []int{0, 1, 2, 3, 4, 5, 6}) }

// VerifC01Tx2: up to one pending HTLC per direction (payment hashes arbitrary,
// may coincide); legacy, zero-fee-htlc anchors, taproot final.
func VerifC01Tx2() { c01Tx(1, 2, []int{0, 3, 6}) }

// ---------------------------------------------------------------------------
// the canonical output order
// ---------------------------------------------------------------------------

// c01LessEq: BOLT-3 output ordering extended by lnd's cltv tie-break: by value,
// then script (lexicographic), then cltv.
func c01LessEq(v1 int64, s1 []byte, c1 uint32, v2 int64, s2 []byte, c2 uint32) bool {
	if v1 != v2 {
		return v1 < v2
	}
	if cmp := bytes.Compare(s1, s2); cmp != 0 {
		return cmp < 0
	}
	return c1 <= c2
}

// c01Sort: DefaultCommitSort on n arbitrary outputs. The result is a
// permutation of the (output, cltv) pairs and is ordered; since the order is
// total up to completely identical triples, the sorted sequence is a function
// of the multiset alone, which is what lets the two peers (who assemble the
// outputs in different orders) arrive at the same transaction.
func c01Sort(n int) {
	vAssumption("C01 sort: n arbitrary outputs: any int64 value, 2-byte (one 1-byte) arbitrary scripts, any cltv")
	digits := [6]string{"0", "1", "2", "3", "4", "5"}
	tx := wire.NewMsgTx(2)
	var op wire.OutPoint
	op.Hash[0] = 0x11
	tx.AddTxIn(wire.NewTxIn(&op, nil, nil))
	vals := make([]int64, n)
	scripts := make([][]byte, n)
	cl := make([]uint32, n)
	cltvs := make([]uint32, n)
	idx := make([]input.HtlcIndex, n)
	for i := 0; i < n; i++ {
		vals[i] = vI64("o" + digits[i] + ".value")
		ln := 2
		if i == 2 {
			ln = 1
		}
		scripts[i] = vBytes("o"+digits[i]+".script", ln)
		cl[i] = vU32("o" + digits[i] + ".cltv")
		cltvs[i] = cl[i]
		tx.AddTxOut(wire.NewTxOut(vals[i], scripts[i]))
	}
	err := DefaultCommitSort(tx, cltvs, idx)
	vAssert(err == nil, "DefaultCommitSort does not fail")
	vAssert(len(tx.TxOut) == n && len(cltvs) == n && len(tx.TxIn) == 1, "sorting keeps the number of outputs")
	if len(tx.TxOut) != n || len(cltvs) != n {
		return
	}
	sorted := true
	for i := 0; i+1 < n; i++ {
		a, b := tx.TxOut[i], tx.TxOut[i+1]
		sorted = sorted && c01LessEq(a.Value, a.PkScript, cltvs[i], b.Value, b.PkScript, cltvs[i+1])
	}
	vAssert(sorted, "outputs are ordered by value, then script, then cltv")
	perm := true
	for i := 0; i < n; i++ {
		before, after := 0, 0
		for j := 0; j < n; j++ {
			if vals[j] == vals[i] && bytes.Equal(scripts[j], scripts[i]) && cl[j] == cl[i] {
				before++
			}
			o := tx.TxOut[j]
			if o.Value == vals[i] && bytes.Equal(o.PkScript, scripts[i]) && cltvs[j] == cl[i] {
				after++
			}
		}
		perm = perm && before == after
	}
	vAssert(perm, "the sorted (output, cltv) pairs are a permutation of the given ones")
	vReach("sorted")
	if n >= 2 && vals[0] == vals[1] && bytes.Equal(scripts[0], scripts[1]) && cl[0] != cl[1] {
		vReach("cltv-tie-break")
	}
}

// VerifC01Sort3 / VerifC01Sort4: 3 resp. 4 outputs.
func VerifC01Sort3() { c01Sort(3) }
func VerifC01Sort4() { c01Sort(4) }
