package lnwallet

// Harness for C01, stage 1a: the integer kernels every commitment construction
// goes through.
//
// Units executed symbolically (real lnd code): HtlcIsDust, HtlcTimeoutFee,
// HtlcSuccessFee, CommitWeight, (chainfee.SatPerKWeight).FeeForWeight,
// (lnwire.MilliSatoshi).ToSatoshis, lnwire.NewMSatFromSatoshis and the
// ChannelType predicates.
//
// The oracle is written from BOLT-3 ("Trimmed Outputs", "Fee Calculation",
// "Expected Weight of HTLC-timeout and HTLC-success Transactions") with the
// numbers of the specification as literals.

import (
	"github.com/btcsuite/btcd/btcutil/v2"
	"github.com/lightningnetwork/lnd/chanstate"
	"github.com/lightningnetwork/lnd/lntypes"
	"github.com/lightningnetwork/lnd/lnwallet/chainfee"
	"github.com/lightningnetwork/lnd/lnwire"
)

const (
	// update_fee carries feerate_per_kw as a uint32.
	c01MaxFeePerKw = int64(1) << 32

	// 2 x the largest channel lnd funds (10 BTC = 1e12 msat): the largest
	// value a sum of two amounts of one channel can take.
	c01MaxMsat = uint64(2_000_000_000_000)

	// 21e6 BTC in satoshi.
	c01MaxSat = int64(2_100_000_000_000_000)

	// BOLT-2: max_accepted_htlcs <= 483 for each side.
	c01MaxHtlcs = int64(2 * 483)
)

// Bits of chanstate.ChannelType written as literals (persisted enum).
const (
	c01BitAnchors  = uint64(1) << 3
	c01BitZeroFee  = uint64(1) << 5
	c01BitTaproot  = uint64(1) << 10
	c01BitTapFinal = uint64(1) << 12
)

// c01RefHtlcFee: BOLT-3 second-level fee of an HTLC on a commitment.
// offeredByOwner: the HTLC was offered by the party that holds (can broadcast)
// this commitment -> it is spent by an HTLC-timeout tx, otherwise by an
// HTLC-success tx. BOLT-3 weights: timeout 663 / success 703,
// option_anchors 666 / 706, zero-fee-htlc-tx (and lnd's taproot channels) 0.
func c01RefHtlcFee(ct uint64, offeredByOwner bool, feePerKw int64) int64 {
	if ct&c01BitZeroFee != 0 || ct&c01BitTaproot != 0 {
		return 0
	}
	w := int64(703)
	if offeredByOwner {
		w = 663
	}
	if ct&c01BitAnchors != 0 {
		w = w + 3
	}
	return feePerKw * w / 1000
}

// c01RefDust: BOLT-3 trimmed outputs: an HTLC output is not produced if its
// amount minus the second-level fee is below the dust limit of the
// commitment's owner.
func c01RefDust(ct uint64, offeredByOwner bool, feePerKw int64, amtMsat uint64, dust int64) bool {
	sat := int64(amtMsat / 1000)
	return sat-c01RefHtlcFee(ct, offeredByOwner, feePerKw) < dust
}

// c01RefCommitFee: BOLT-3 fee calculation: base weight 724 (1124 with
// option_anchors; lnd's taproot commitment: 968) + 172 per untrimmed HTLC.
func c01RefCommitFee(ct uint64, feePerKw int64, n int64) int64 {
	if ct&c01BitTaproot != 0 {
		return feePerKw * (968 + 172*n) / 1000
	}
	if ct&c01BitAnchors != 0 {
		return feePerKw * (1124 + 172*n) / 1000
	}
	return feePerKw * (724 + 172*n) / 1000
}

func c01DustOverflowCfg() {
	vOverflow("github.com/lightningnetwork/lnd/lnwallet.HtlcIsDust")
	vOverflow("github.com/lightningnetwork/lnd/lnwallet.HtlcTimeoutFee")
	vOverflow("github.com/lightningnetwork/lnd/lnwallet.HtlcSuccessFee")
	vOverflow("github.com/lightningnetwork/lnd/lnwallet.CommitWeight")
	vOverflow("(github.com/lightningnetwork/lnd/lnwallet/chainfee.SatPerKWeight).FeeForWeight")
	vOverflow("(github.com/lightningnetwork/lnd/lnwire.MilliSatoshi).ToSatoshis")
	vOverflow("github.com/lightningnetwork/lnd/lnwire.NewMSatFromSatoshis")
	vOverflow("github.com/lightningnetwork/lnd/lnwallet.c01RefHtlcFee")
	vOverflow("github.com/lightningnetwork/lnd/lnwallet.c01RefDust")
	vOverflow("github.com/lightningnetwork/lnd/lnwallet.c01RefCommitFee")
	vOverflow("github.com/lightningnetwork/lnd/lnwallet.c01CommitFeeOf")
}

// VerifC01Dust: for EVERY 64-bit channel type, fee rate up to 2^32 sat/kw,
// amount up to 2e12 msat and dust limit up to 21e6 BTC:
//   - mirror law: the two parties, looking at the same commitment with mirrored
//     (incoming, whoseCommit) arguments, agree on whether the HTLC is trimmed;
//   - the verdict equals BOLT-3's rule;
//   - no arithmetic instruction in the kernels wraps.
func VerifC01Dust() {
	c01DustOverflowCfg()
	vAssumption("C01 dust kernel: channel type any uint64, 0 <= feePerKw <= 2^32 (update_fee carries uint32), amount <= 2e12 msat (2 x 10 BTC), 0 <= dust limit <= 21e6 BTC")
	ct := vU64("chanType")
	incoming := vBool("incoming")
	whose := lntypes.ChannelParty(vU8("whoseCommit"))
	vAssume(whose <= 1) // lntypes.ChannelParty has two values
	fee := vI64("feePerKw")
	vAssume(fee >= 0 && fee <= c01MaxFeePerKw)
	amt := vU64("amtMsat")
	vAssume(amt <= c01MaxMsat)
	dust := vI64("dustLimit")
	vAssume(dust >= 0 && dust <= c01MaxSat)

	sat := lnwire.MilliSatoshi(amt).ToSatoshis()

	// my view
	mine := HtlcIsDust(
		chanstate.ChannelType(ct), incoming, whose,
		chainfee.SatPerKWeight(fee), sat, btcutil.Amount(dust),
	)
	// the peer's view of the same commitment: what is incoming for me is
	// outgoing for them, my commitment is their "remote" commitment. The
	// dust limit is the one of the commitment's owner on both sides.
	theirs := HtlcIsDust(
		chanstate.ChannelType(ct), !incoming, whose.CounterParty(),
		chainfee.SatPerKWeight(fee), sat, btcutil.Amount(dust),
	)
	vObserve("mine", mine)
	vObserve("theirs", theirs)
	vAssert(mine == theirs, "dust mirror law: both parties agree whether an HTLC is trimmed on a given commitment")

	// owner of the commitment = me iff whoseCommit is Local; I offered iff
	// !incoming.
	offeredByOwner := (whose == lntypes.Local) == !incoming
	want := c01RefDust(ct, offeredByOwner, fee, amt, dust)
	vAssert(mine == want, "HtlcIsDust equals BOLT-3 trimming rule (amount - second-level fee < dust limit of the owner)")

	if mine {
		vReach("dust")
	} else {
		vReach("not-dust")
	}
	if ct&c01BitZeroFee != 0 {
		vReach("zero-fee")
	}
	if mine != c01RefDust(ct, !offeredByOwner, fee, amt, dust) {
		// the amount lies between the two second-level fees: the case a
		// swapped incoming/whoseCommit bit gets wrong
		vReach("between-fees")
	}
}

func c01CommitFeeOf(ct chanstate.ChannelType, feePerKw chainfee.SatPerKWeight, n int64) (btcutil.Amount, lnwire.MilliSatoshi) {
	// the expression of computeView / createUnsignedCommitmentTx
	w := CommitWeight(ct) + lntypes.WeightUnit(172*n)
	fee := feePerKw.FeeForWeight(w)
	return fee, lnwire.NewMSatFromSatoshis(fee)
}

// VerifC01CommitFee: commitment fee for up to 966 untrimmed HTLCs: equals
// BOLT-3's formula, and nothing wraps (including the conversion of the fee to
// msat that is subtracted from the opener's balance).
func VerifC01CommitFee() {
	c01DustOverflowCfg()
	vAssumption("C01 commit fee kernel: channel type any uint64, 0 <= feePerKw <= 2^32, 0 <= untrimmed HTLCs <= 966 (2 x 483, BOLT-2 max_accepted_htlcs)")
	ct := vU64("chanType")
	fee := vI64("feePerKw")
	vAssume(fee >= 0 && fee <= c01MaxFeePerKw)
	n := vI64("numHtlcs")
	vAssume(n >= 0 && n <= c01MaxHtlcs)
	got, gotMsat := c01CommitFeeOf(chanstate.ChannelType(ct), chainfee.SatPerKWeight(fee), n)
	want := c01RefCommitFee(ct, fee, n)
	vObserve("fee", int64(got))
	vAssert(int64(got) == want, "commit fee equals BOLT-3 (base weight + 172 per untrimmed HTLC) * feerate / 1000")
	vAssert(uint64(gotMsat) == uint64(want)*1000, "commit fee in msat is exact")
	if ct&c01BitTaproot != 0 {
		vReach("taproot")
	} else if ct&c01BitAnchors != 0 {
		vReach("anchors")
	} else {
		vReach("legacy")
	}
}
