package routing

// Harness for C19, item 2: soundness of the edge unifier.
//
// Unit: (*edgeUnifier).getEdge / getEdgeNetwork / getEdgeLocal,
// calcCappedInboundFee, (*unifiedEdge).amtInRange, newUnifiedEdge,
// (*models.CachedEdgePolicy).ComputeFee, (*models.InboundFee).CalcFee.
//
// n parallel channels between one pair of nodes, every policy field symbolic.
// findPath calls getEdge(netAmtReceived, hints, nextOutFee) where
// netAmtReceived is what the "to" node must be left with after its inbound
// fee (= the amount it forwards + its outbound fee, nextOutFee). The amount the
// channel then has to carry is netAmtReceived + inbound fee of that channel,
// the inbound fee being limited from below by -nextOutFee (node fee floored at
// zero). Whatever edge comes back must be able to carry exactly that amount.

import (
	"github.com/btcsuite/btcd/btcutil/v2"
	"github.com/lightningnetwork/lnd/graph/db/models"
	"github.com/lightningnetwork/lnd/lnwire"
	"github.com/lightningnetwork/lnd/routing/route"
)

const (
	c19MaxSupply = 2_100_000_000_000_000 // 21e6 BTC in satoshi: no channel is larger
)

type c19Chan struct {
	chanID           uint64
	hasMax, disabled bool
	delta            uint16
	min, max         uint64
	base, rate       uint64
	capSat           int64
	ibase, irate     int32
	bw               uint64 // local channels: bandwidth hint
	bwKnown          bool
	// reference quantities (exact arithmetic), filled in by c19UnifierInputs
	amt     uint64 // amount the channel has to carry
	nodeFee int64  // outbound fee on amt + capped inbound fee
	inRange bool   // min_htlc <= amt <= max_htlc, amt <= capacity
}

// c19Hints is a bandwidthHints fake: a fixed table channel -> (bandwidth, known).
type c19Hints struct {
	ch []c19Chan
}

func (h *c19Hints) availableChanBandwidth(channelID uint64,
	amount lnwire.MilliSatoshi) (lnwire.MilliSatoshi, bool) {

	for i := range h.ch {
		if h.ch[i].chanID == channelID {
			return lnwire.MilliSatoshi(h.ch[i].bw), h.ch[i].bwKnown
		}
	}
	return 0, false
}

func (h *c19Hints) isCustomHTLCPayment() bool { return false }

func c19ChanInput(j int, inbound bool) (c19Chan, *unifiedEdge) {
	c := c19Chan{
		chanID:   uint64(1001 + j),
		hasMax:   vBool("hasMaxHTLC"),
		disabled: vBool("isDisabled"),
		delta:    vU16("timeLockDelta"),
		min:      vU64("minHTLC"),
		max:      vU64("maxHTLC"),
		base:     vU64("feeBase"),
		rate:     vU64("feeRate"),
		capSat:   vI64("capacitySat"),
		ibase:    vI32("inboundBase"),
		irate:    vI32("inboundRate"),
		bw:       vU64("bandwidth"),
		bwKnown:  vBool("bandwidthKnown"),
	}
	if !inbound {
		// entries with several parallel channels: no inbound fees (the
		// general inbound fee is covered with one channel)
		c.ibase, c.irate = 0, 0
	}
	// --- stated domain ---
	vAssume(c.base <= 0xffffffff)                          // fee_base_msat is a uint32 on the wire
	vAssume(c.rate <= 1_000_000)                           // proportional fee up to 100 %
	vAssume(c.irate <= c19InRate && c.irate >= -c19InRate) // inbound rate domain
	vAssume(c.capSat >= 0 && c.capSat <= c19MaxSupply)     // 0 = capacity unknown
	var to route.Vertex
	to[0] = 2
	pol := &models.CachedEdgePolicy{
		ChannelID:                 c.chanID,
		HasMaxHTLC:                c.hasMax,
		IsDisabled:                c.disabled,
		TimeLockDelta:             c.delta,
		MinHTLC:                   lnwire.MilliSatoshi(c.min),
		MaxHTLC:                   lnwire.MilliSatoshi(c.max),
		FeeBaseMSat:               lnwire.MilliSatoshi(c.base),
		FeeProportionalMillionths: lnwire.MilliSatoshi(c.rate),
		ToNodePubKey:              func() route.Vertex { return to },
	}
	e := newUnifiedEdge(
		pol, btcutil.Amount(c.capSat),
		models.InboundFee{Base: c.ibase, Rate: c.irate},
		defaultHopPayloadSize, nil,
	)
	return c, e
}

// c19ChanAmt is the amount channel c has to carry so that the node it enters
// is left with `net` after charging c's inbound fee, the node fee (inbound +
// nextOut) being floored at zero.
func c19ChanAmt(c c19Chan, net, nextOut uint64) uint64 {
	f := c19InFee(c19Pol{ibase: c.ibase, irate: c.irate}, net)
	if f < -int64(nextOut) {
		f = -int64(nextOut)
	}
	return uint64(int64(net) + f)
}

// c19NodeFee is the total the forwarding node asks for when channel c is used:
// outbound fee on the carried amount plus the (capped) inbound fee.
func c19NodeFee(c c19Chan, net, nextOut uint64) int64 {
	amt := c19ChanAmt(c, net, nextOut)
	of := c19OutFee(c19Pol{base: c.base, rate: c.rate}, amt)
	return int64(of) + (int64(amt) - int64(net))
}

// c19InRange: min_htlc <= amt <= max_htlc (if announced) and amt <= capacity
// (if known).
func c19InRange(c c19Chan, amt uint64) bool {
	if c.capSat > 0 && amt > uint64(c.capSat)*1000 {
		return false
	}
	if c.hasMax && amt > c.max {
		return false
	}
	return amt >= c.min
}

func c19UnifierConfig() {
	vOverflow("github.com/lightningnetwork/lnd/routing.calcCappedInboundFee")
	vOverflow("(*github.com/lightningnetwork/lnd/routing.unifiedEdge).amtInRange")
	vOverflow("github.com/lightningnetwork/lnd/lnwire.NewMSatFromSatoshis")
	vOverflow("(*github.com/lightningnetwork/lnd/graph/db/models.CachedEdgePolicy).ComputeFee")
	vOverflow("(*github.com/lightningnetwork/lnd/graph/db/models.InboundFee).CalcFee")
	vOverflow("github.com/lightningnetwork/lnd/routing.c19OutFee")
	vOverflow("github.com/lightningnetwork/lnd/routing.c19InFee")
	vOverflow("github.com/lightningnetwork/lnd/routing.c19ChanAmt")
	vOverflow("github.com/lightningnetwork/lnd/routing.c19NodeFee")
	vOverflow("github.com/lightningnetwork/lnd/routing.c19InRange")
	vMerge("(*github.com/lightningnetwork/lnd/routing.unifiedEdge).amtInRange")
	vMerge("github.com/lightningnetwork/lnd/routing.c19InRange")
	vAssumption("unifier: netAmtReceived <= 20 BTC (amount <= 10 BTC plus its outbound fee), nextOutFee <= netAmtReceived (findPath: netAmountReceived = amountToSend + outboundFee), fee_base_msat < 2^32, fee rate <= 1e6 ppm, |inbound fee rate| <= C19_INRATE ppm, inbound base any int32, min/max HTLC any uint64, capacity 0 (unknown) .. 21e6 BTC, bandwidth hint any uint64 or unknown, not a custom-HTLC payment")
}

func c19UnifierInputs(n int, inbound bool) ([]c19Chan, *edgeUnifier, uint64, uint64) {
	u := &edgeUnifier{}
	var chans []c19Chan
	for j := 0; j < n; j++ {
		c, e := c19ChanInput(j, inbound)
		chans = append(chans, c)
		u.edges = append(u.edges, e)
	}
	net := vU64("netAmtReceived")
	nextOut := vU64("nextOutFee")
	vAssume(net <= 2*c19MaxChan)
	vAssume(nextOut <= net)
	// The reference quantities are computed before the unit runs: their
	// exactness obligations (no wrap in net + inbound fee, ...) are then
	// established facts about the very terms the unifier builds.
	for j := range chans {
		chans[j].amt = c19ChanAmt(chans[j], net, nextOut)
		chans[j].nodeFee = c19NodeFee(chans[j], net, nextOut)
		chans[j].inRange = c19InRange(chans[j], chans[j].amt)
	}
	return chans, u, net, nextOut
}

// c19Same: the returned edge carries channel c's own fee policy, range and
// inbound fee (route construction computes the fees from these).
func c19Same(r *unifiedEdge, c c19Chan) bool {
	p := r.policy
	return uint64(p.FeeBaseMSat) == c.base && uint64(p.FeeProportionalMillionths) == c.rate &&
		uint64(p.MinHTLC) == c.min && uint64(p.MaxHTLC) == c.max && p.HasMaxHTLC == c.hasMax &&
		p.IsDisabled == c.disabled &&
		r.inboundFees.Base == c.ibase && r.inboundFees.Rate == c.irate
}

// VerifC19UnifierNetwork1: one channel between two remote nodes, inbound fee
// symbolic. VerifC19UnifierNetwork<n>NoInbound: n parallel channels without
// inbound fees, everything else symbolic (then all channels carry the same
// amount and the synthetic policy has to dominate every usable channel's
// outbound fee and delta).
func VerifC19UnifierNetwork1()          { c19UnifierNetwork(1, true) }
func VerifC19UnifierNetwork2NoInbound() { c19UnifierNetwork(2, false) }
func VerifC19UnifierNetwork3NoInbound() { c19UnifierNetwork(3, false) }

func c19UnifierNetwork(n int, inbound bool) {
	c19UnifierConfig()
	chans, u, net, nextOut := c19UnifierInputs(n, inbound)
	u.localChan = false

	r := u.getEdge(lnwire.MilliSatoshi(net), &c19Hints{ch: chans}, lnwire.MilliSatoshi(nextOut))
	if r == nil {
		vReach("no-edge")
		return
	}
	vReach("edge")
	j := -1
	for k := 0; k < n; k++ {
		if r.policy.ChannelID == chans[k].chanID {
			j = k
		}
	}
	vAssert(j >= 0, "returned edge is one of the channels of the pair")
	if j < 0 {
		return
	}
	c := chans[j]
	amt := c.amt
	vObserve("chan", c.chanID)
	vAssert(c19Same(r, c), "returned edge carries the fee policy, HTLC range and inbound fee of its channel")
	vAssert(!c.disabled, "returned network edge is not disabled")
	vAssert(amt >= c.min, "amount carried is at least the channel's min_htlc")
	vAssert(!c.hasMax || amt <= c.max, "amount carried is at most the channel's max_htlc")
	vAssert(c.capSat == 0 || amt <= uint64(c.capSat)*1000, "amount carried is at most the channel's capacity")
	// non-strict forwarding: the forwarding node may use any usable
	// channel of the pair; the synthetic policy must cover each of them
	fee := c.nodeFee
	vAssert(r.policy.TimeLockDelta >= c.delta, "synthetic time-lock delta covers the chosen channel")
	isSome := false
	for k := 0; k < n; k++ {
		e := chans[k]
		usable := !e.disabled && e.inRange
		vAssert(!usable || r.policy.TimeLockDelta >= e.delta, "synthetic time-lock delta is the maximum over the usable channels")
		vAssert(!usable || fee >= e.nodeFee, "chosen channel demands the maximum node fee over the usable channels")
		if !inbound {
			vAssert(!usable || uint64(r.policy.ComputeFee(lnwire.MilliSatoshi(amt))) >= c19OutFee(c19Pol{base: e.base, rate: e.rate}, amt),
				"no inbound fees: the fee computed from the returned policy covers every usable channel's outbound fee")
		}
		isSome = isSome || (usable && r.policy.TimeLockDelta == e.delta)
	}
	vAssert(isSome, "synthetic time-lock delta is the delta of a usable channel")
}

// VerifC19UnifierLocal1 / VerifC19UnifierLocal<n>NoInbound: the same for
// channels of the sender itself to one peer (first hop).
func VerifC19UnifierLocal1()          { c19UnifierLocal(1, true) }
func VerifC19UnifierLocal2NoInbound() { c19UnifierLocal(2, false) }
func VerifC19UnifierLocal3NoInbound() { c19UnifierLocal(3, false) }

func c19UnifierLocal(n int, inbound bool) {
	c19UnifierConfig()
	chans, u, net, nextOut := c19UnifierInputs(n, inbound)
	u.localChan = true

	r := u.getEdge(lnwire.MilliSatoshi(net), &c19Hints{ch: chans}, lnwire.MilliSatoshi(nextOut))
	if r == nil {
		vReach("no-edge")
		return
	}
	vReach("edge")
	j := -1
	for k := 0; k < n; k++ {
		if r.policy.ChannelID == chans[k].chanID {
			j = k
		}
	}
	vAssert(j >= 0, "returned edge is one of the sender's channels to the peer")
	if j < 0 {
		return
	}
	c := chans[j]
	amt := c.amt
	vObserve("chan", c.chanID)
	vAssert(c19Same(r, c) && r.policy.TimeLockDelta == c.delta, "returned local edge carries the policy and inbound fee of its channel")
	vAssert(amt >= c.min, "local: amount sent is at least the channel's min_htlc")
	vAssert(!c.hasMax || amt <= c.max, "local: amount sent is at most the channel's max_htlc")
	vAssert(c.capSat == 0 || amt <= uint64(c.capSat)*1000, "local: amount sent is at most the channel's capacity")
	vAssert(!c.bwKnown || amt <= c.bw, "local: amount sent is within the channel's available bandwidth")
}
