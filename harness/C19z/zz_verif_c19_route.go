package routing

// Harness for C19, item 1: route construction.
//
// Unit: routing.newRoute (non-blinded), route.NewRouteFromHops,
// (*route.Route).HopFee / TotalFees / ReceiverAmt,
// (*models.CachedEdgePolicy).ComputeFee, (*models.InboundFee).CalcFee.
//
// A path of L unified edges e[0..L-1] with symbolic policies is handed to the
// real newRoute. Edge e[i] leads from node i-1 (node -1 = the sender) to node
// i; node i (i < L-1) forwards from channel e[i] to channel e[i+1] and
// therefore charges the *outbound* policy of e[i+1] and the *inbound* fee of
// e[i]. The returned route is then judged hop by hop with the acceptance rule
// every forwarding node applies (BOLT #7 fee, inbound-fee extension, BOLT #2
// cltv_expiry_delta) — written here from the rule, not from newRoute.

import (
	"github.com/lightningnetwork/lnd/graph/db/models"
	"github.com/lightningnetwork/lnd/lnwire"
	"github.com/lightningnetwork/lnd/routing/route"
)

const (
	c19MaxChan = 1_000_000_000_000 // 10 BTC in msat (funding.MaxBtcFundingAmountWumbo)
	c19MaxL    = 4
	c19InRate  = C19_INRATE // bound on |inbound fee rate| in ppm
)

// c19Pol is the harness's own record of what one channel direction demands.
type c19Pol struct {
	chanID uint64
	toNode route.Vertex
	// outbound policy of the channel (charged by the node the channel leaves)
	base, rate uint64
	delta      uint16
	// inbound fee of the channel (charged by the node the channel enters)
	ibase, irate int32
}

// c19OutFee is the BOLT #7 forwarding fee: fee_base_msat +
// amount_to_forward * fee_proportional_millionths / 1000000 (rounded down).
func c19OutFee(p c19Pol, amtToForward uint64) uint64 {
	return p.base + amtToForward*p.rate/1000000
}

// c19InFee is the inbound fee (may be negative = discount) on the amount that
// leaves the node including the outbound fee: base + rate * amt / 1000000,
// rounded towards zero; the rate is limited to +-1000 %.
func c19InFee(p c19Pol, amt uint64) int64 {
	r := int64(p.irate)
	switch {
	case r > 10_000_000:
		r = 10_000_000
	case r < -10_000_000:
		r = -10_000_000
	}
	// rate*amt/1e6 rounded towards zero, written as rate*(amt div 1e6) +
	// rate*(amt mod 1e6)/1e6: both summands carry the sign of the rate, so
	// truncation commutes with the sum and the value is the exact quotient
	// in the integers, while no intermediate product can leave int64.
	a := int64(amt)
	f := int64(p.ibase)
	f += r * (a / 1000000)
	f += r * (a % 1000000) / 1000000
	return f
}

// c19Demand is what a node asks for forwarding `out` msat from channel `in` to
// channel `next`; a negative total is a demand of zero (the node fee is
// floored at zero per node).
func c19Demand(in, next c19Pol, out uint64) uint64 {
	of := c19OutFee(next, out)
	d := int64(of) + c19InFee(in, out+of)
	if d < 0 {
		d = 0
	}
	return uint64(d)
}

// c19Accepts is the decision of the forwarding node between channel `in` and
// channel `next` as far as fee and time lock are concerned (the same two rules
// htlcswitch.(*channelLink).CheckHtlcForward enforces: the incoming HTLC must
// not be smaller than the outgoing one, the difference must cover outbound fee
// + inbound fee, and incoming expiry - outgoing expiry >= cltv_expiry_delta of
// the outgoing channel).
func c19Accepts(in, next c19Pol, inAmt, outAmt uint64, inTL, outTL uint32) (feeOK, tlOK bool) {
	of := c19OutFee(next, outAmt)
	want := int64(of) + c19InFee(in, outAmt+of)
	feeOK = inAmt >= outAmt && int64(inAmt)-int64(outAmt) >= want
	tlOK = inTL >= outTL && uint64(inTL)-uint64(outTL) >= uint64(next.delta)
	return
}

func c19Vertex(i int) route.Vertex {
	var v route.Vertex
	v[0] = 2
	v[1] = byte(i + 1)
	v[32] = vU8("nodeid")
	return v
}

func c19EdgeInput(i int) (c19Pol, *unifiedEdge) {
	p := c19Pol{
		chanID: vU64("chanID"),
		toNode: c19Vertex(i),
		base:   vU64("feeBase"),
		rate:   vU64("feeRate"),
		delta:  vU16("timeLockDelta"),
		ibase:  vI32("inboundBase"),
		irate:  vI32("inboundRate"),
	}
	// --- stated domain ---
	vAssume(p.base <= 0xffffffff) // fee_base_msat is a uint32 on the wire
	vAssume(p.rate <= 1_000_000)  // proportional fee up to 100 %
	vAssume(p.irate <= c19InRate && p.irate >= -c19InRate)
	to := p.toNode
	pol := &models.CachedEdgePolicy{
		ChannelID:                 p.chanID,
		TimeLockDelta:             p.delta,
		FeeBaseMSat:               lnwire.MilliSatoshi(p.base),
		FeeProportionalMillionths: lnwire.MilliSatoshi(p.rate),
		// the remaining fields are not read by newRoute; they are the
		// subject of the unifier harness
		MinHTLC:      lnwire.MilliSatoshi(vU64("minHTLC")),
		MaxHTLC:      lnwire.MilliSatoshi(vU64("maxHTLC")),
		HasMaxHTLC:   vBool("hasMaxHTLC"),
		IsDisabled:   false,
		ToNodePubKey: func() route.Vertex { return to },
	}
	e := newUnifiedEdge(
		pol, 0, models.InboundFee{Base: p.ibase, Rate: p.irate},
		defaultHopPayloadSize, nil,
	)
	return p, e
}

func c19RouteConfig() {
	// newRoute's own additions (fee = outbound + inbound, amount + fee, time
	// lock + delta) are not put under overflow obligations: each has an
	// identical twin in the reference below which is, and the results are
	// asserted equal. (An overflow obligation inside newRoute would be
	// reported first and, being unconfirmable by native replay, would hide
	// the replayable assertion failure behind it.)
	vOverflow("(*github.com/lightningnetwork/lnd/graph/db/models.CachedEdgePolicy).ComputeFee")
	vOverflow("(*github.com/lightningnetwork/lnd/graph/db/models.InboundFee).CalcFee")
	vOverflow("(*github.com/lightningnetwork/lnd/routing/route.Route).HopFee")
	vOverflow("(*github.com/lightningnetwork/lnd/routing/route.Route).TotalFees")
	vOverflow("github.com/lightningnetwork/lnd/routing.c19OutFee")
	vOverflow("github.com/lightningnetwork/lnd/routing.c19InFee")
	vOverflow("github.com/lightningnetwork/lnd/routing.c19Demand")
	vOverflow("github.com/lightningnetwork/lnd/routing.c19Accepts")
	vOverflow("github.com/lightningnetwork/lnd/routing.c19RouteBody")
	// pure accessors: explored once per call and merged (no path fork)
	vMerge("(*github.com/lightningnetwork/lnd/routing/route.Route).HopFee")
	vMerge("(*github.com/lightningnetwork/lnd/routing/route.Route).TotalFees")
	vMerge("(*github.com/lightningnetwork/lnd/routing/route.Route).ReceiverAmt")
	vAssumption("route construction: every amount carried by a channel of the route <= 10 BTC (max wumbo channel; findPath enforces amt <= capacity/max_htlc per channel), fee_base_msat < 2^32 (wire width), fee rate <= 1e6 ppm, |inbound fee rate| <= C19_INRATE ppm, inbound base any int32, time-lock deltas any uint16, height < 2^31")
}

// VerifC19Route<L>: a path of L edges (L-1 forwarding nodes).
func VerifC19Route1() { c19RouteConfig(); c19RouteBody(1) }
func VerifC19Route2() { c19RouteConfig(); c19RouteBody(2) }
func VerifC19Route3() { c19RouteConfig(); c19RouteBody(3) }
func VerifC19Route4() { c19RouteConfig(); c19RouteBody(4) }

func c19RouteBody(L int) {
	var (
		pol   [c19MaxL]c19Pol
		edges []*unifiedEdge
	)
	for i := 0; i < L; i++ {
		p, e := c19EdgeInput(i)
		pol[i] = p
		edges = append(edges, e)
	}
	var source route.Vertex
	source[0] = 3
	source[32] = vU8("sourceid")

	amt := vU64("amt")
	height := vU32("height")
	finalDelta := vU16("finalCltvDelta")
	vAssume(amt <= c19MaxChan) // payment amount up to the maximum channel size
	vAssume(height < 1<<31)    // block height

	// Reference accounting, in the direction pathfinding accumulates it:
	// x[i] = amount carried by channel e[i], t[i] = expiry of the HTLC on
	// channel e[i]. The domain is restricted to routes on which every
	// channel carries at most c19MaxChan (a channel cannot carry more than
	// its capacity, and findPath's amtInRange enforces it per edge).
	var (
		x [c19MaxL]uint64
		t [c19MaxL]uint32
	)
	x[L-1] = amt
	t[L-1] = height + uint32(finalDelta)
	for i := L - 2; i >= 0; i-- {
		x[i] = x[i+1] + c19Demand(pol[i], pol[i+1], x[i+1])
		vAssume(x[i] <= c19MaxChan)
		t[i] = t[i+1] + uint32(pol[i+1].delta)
	}

	rt, err := newRoute(source, edges, height, finalHopParams{
		amt:       lnwire.MilliSatoshi(amt),
		totalAmt:  lnwire.MilliSatoshi(amt),
		cltvDelta: finalDelta,
	}, nil)
	if err != nil {
		vAssert(false, "newRoute fails on a well-formed path")
		return
	}
	vReach("route")
	vObserve("totalAmount", uint64(rt.TotalAmount))
	vObserve("totalTimeLock", rt.TotalTimeLock)

	// --- connected over the given channels, in order ---
	vAssert(len(rt.Hops) == L, "one hop per path edge")
	vAssert(rt.SourcePubKey == source, "route starts at the source")
	for i := 0; i < L; i++ {
		vAssert(rt.Hops[i].ChannelID == pol[i].chanID, "hop uses the channel of its path edge")
		vAssert(rt.Hops[i].PubKeyBytes == pol[i].toNode, "hop is addressed to the node its channel leads to")
	}

	// --- every forwarding node accepts (fee and time lock) ---
	for i := 0; i < L-1; i++ {
		inAmt, inTL := uint64(rt.TotalAmount), rt.TotalTimeLock
		if i > 0 {
			inAmt, inTL = uint64(rt.Hops[i-1].AmtToForward), rt.Hops[i-1].OutgoingTimeLock
		}
		outAmt, outTL := uint64(rt.Hops[i].AmtToForward), rt.Hops[i].OutgoingTimeLock
		feeOK, tlOK := c19Accepts(pol[i], pol[i+1], inAmt, outAmt, inTL, outTL)
		vAssert(feeOK, "forwarding node is left at least the fee its policy demands (outbound + inbound, floored at zero)")
		vAssert(tlOK, "expiry gap at a forwarding node is at least its time-lock delta")
		if i == 0 && int64(c19OutFee(pol[i+1], outAmt))+c19InFee(pol[i], outAmt+c19OutFee(pol[i+1], outAmt)) < 0 {
			vReach("negative-node-fee")
		}
	}
	// --- the final node accepts ---
	{
		inAmt, inTL := uint64(rt.TotalAmount), rt.TotalTimeLock
		if L > 1 {
			inAmt, inTL = uint64(rt.Hops[L-2].AmtToForward), rt.Hops[L-2].OutgoingTimeLock
		}
		last := rt.Hops[L-1]
		vAssert(uint64(last.AmtToForward) == amt, "final hop payload carries the payment amount")
		vAssert(inAmt >= uint64(last.AmtToForward), "final node receives at least the payment amount")
		vAssert(inTL >= last.OutgoingTimeLock, "final HTLC expiry is at least the expiry in the final payload")
		vAssert(uint64(last.OutgoingTimeLock) >= uint64(height)+uint64(finalDelta), "final expiry is at least height + final CLTV delta")
	}

	// --- the route's figures are exactly the ones pathfinding accounted
	// for (fee limit and CLTV limit are checked on those) ---
	vAssert(uint64(rt.TotalAmount) == x[0], "total amount = receiver amount + sum of the demanded node fees")
	vAssert(rt.TotalTimeLock == t[0], "total time lock = height + final delta + sum of the forwarding deltas")
	for i := 0; i < L-1; i++ {
		vAssert(uint64(rt.Hops[i].AmtToForward) == x[i+1], "amount to forward = amount carried by the next channel")
		vAssert(rt.Hops[i].OutgoingTimeLock == t[i+1], "outgoing time lock = expiry on the next channel")
	}

	// --- per-hop figures add up to the totals ---
	vAssert(uint64(rt.ReceiverAmt()) == amt, "ReceiverAmt is the payment amount")
	vAssert(rt.TotalAmount >= rt.ReceiverAmt(), "total amount is not below the receiver amount")
	var sum uint64
	for i := 0; i < L; i++ {
		sum += uint64(rt.HopFee(i))
	}
	vAssert(sum == uint64(rt.TotalFees()), "sum of HopFee over all hops = TotalFees")
	vAssert(uint64(rt.ReceiverAmt())+uint64(rt.TotalFees()) == uint64(rt.TotalAmount), "receiver amount + total fees = total amount")
	vAssert(uint64(rt.HopFee(L-1)) == 0, "no fee for the final hop")
}

// VerifC19Compose: the amount the search range-checks for an edge is the amount
// the route sends over it. findPath (processEdge / getEdge*) works with
//
//	netAmountReceived = amountToSend(next edge) + outboundFee(next edge)
//	amountToSend      = netAmountReceived + calcCappedInboundFee(edge, netAmountReceived, outboundFee)
//
// and tests amtInRange / bandwidth / fee limit on amountToSend. Here the two
// real helpers (ComputeFee, calcCappedInboundFee) are combined exactly in that
// way for the first edge of a 2-edge path and compared with what the real
// newRoute puts on that edge. (The combination itself, two additions, is the
// only part of processEdge restated here.)
func VerifC19Compose() {
	c19RouteConfig()
	vOverflow("github.com/lightningnetwork/lnd/routing.calcCappedInboundFee")
	vOverflow("github.com/lightningnetwork/lnd/routing.VerifC19Compose")
	var pol [2]c19Pol
	var edges []*unifiedEdge
	for i := 0; i < 2; i++ {
		p, e := c19EdgeInput(i)
		pol[i] = p
		edges = append(edges, e)
	}
	var source route.Vertex
	source[0] = 3
	amt := vU64("amt")
	height := vU32("height")
	finalDelta := vU16("finalCltvDelta")
	vAssume(amt <= c19MaxChan)
	vAssume(height < 1<<31)
	x0 := amt + c19Demand(pol[0], pol[1], amt)
	vAssume(x0 <= c19MaxChan)

	outboundFee := edges[1].policy.ComputeFee(lnwire.MilliSatoshi(amt))
	net := lnwire.MilliSatoshi(amt) + outboundFee
	inb := calcCappedInboundFee(edges[0], net, outboundFee)
	amountToSend := lnwire.MilliSatoshi(uint64(int64(net) + inb))

	rt, err := newRoute(source, edges, height, finalHopParams{
		amt:       lnwire.MilliSatoshi(amt),
		totalAmt:  lnwire.MilliSatoshi(amt),
		cltvDelta: finalDelta,
	}, nil)
	if err != nil {
		vAssert(false, "newRoute fails on a well-formed path")
		return
	}
	vReach("route")
	vAssert(rt.TotalAmount == amountToSend, "amount on the first edge = netAmountReceived + capped inbound fee (what the search range-checks)")
	vAssert(rt.TotalFees() == amountToSend-lnwire.MilliSatoshi(amt), "total fees = the search's amountToSend - amt (what the fee limit is checked on)")
}
