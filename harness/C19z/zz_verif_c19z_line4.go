package routing

// Harness C19z (staging, extension of C19 item 3): the real routing.findPath +
// newRoute on the FOUR-hop line S -> A -> B -> C -> T (5 nodes, 3 forwarding
// nodes), so that inbound-fee interactions between CONSECUTIVE forwarding
// nodes are reachable in findPath's backward search: B may give an inbound
// discount on A->B that is larger than its outbound fee on B->C (node fee
// floored at zero, the clamp `minInboundFee := -toNodeDist.outboundFee`), the
// next node C may charge a positive inbound fee on B->C, and A charges a fee
// upstream. Everything but the fakes and the judgement is the C19 harness
// (c19fpGraph, c19fpHints, c19fpConfig, c19fpPayable, c19fpCarries,
// c19Accepts, c19Demand of zz_verif_c19_findpath.go / zz_verif_c19_route.go,
// copied unchanged); the body is c19fpBody with the channel table below, one
// restriction set (none) and the payment data concrete.
//
// Symbolic ("bases" reduction of C19, proportional rates 0): fee limit, base
// fee of A (on A->B), inbound base fee of B (on A->B), inbound base fee of C
// (on B->C) [set c19zCore]; plus base fees of B and C, inbound base fee of A
// (on S->A), the source's bandwidth and the CLTV limit [set c19zWide].
// Concrete: amount 1e9 msat, min_htlc 1000, max_htlc 5e9 msat, capacity 6e6
// sat, proportional rates 0 (outbound and inbound), time-lock deltas 52/64/76,
// final delta 80, height 800000, (Core) bandwidth 4e9 msat, CLTV limit 2016,
// base fees of B and C 1200 / 1300 msat, inbound base fee of A 300 msat.

import (
	"github.com/btcsuite/btcd/btcutil/v2"
	"github.com/lightningnetwork/lnd/lnwire"
	"github.com/lightningnetwork/lnd/routing/route"
)

const (
	c19zC = 5 // third forwarding node (1..4 = S, A, B, T of the C19 harness)

	c19zCore = 1
	c19zWide = 2
)

// c19zChanInput builds channel k (id 100+k) from -> to of the 4-hop line.
func c19zChanInput(k, from, to, set int) c19fpChan {
	c := c19fpChan{
		id: uint64(100 + k), from: from, to: to,
		pol: c19Pol{
			chanID: uint64(100 + k), toNode: c19fpNode(to),
			base: uint64(1000 + 100*k), rate: 0,
			delta: uint16(40 + 12*k),
			ibase: int32(300 - 400*k), irate: 0,
		},
		min: 1000, max: 5_000_000_000, capSat: 6_000_000, bw: 4_000_000_000,
	}
	wide := set&c19zWide != 0
	// outbound base fee of a forwarding node (the source's own policy is
	// not charged): A's always, B's and C's in the wide set
	if from == c19fpA || (wide && from != c19fpS) {
		c.pol.base = vU64("feeBase")
		vAssume(c.pol.base <= 0xffffffff) // fee_base_msat is a uint32 on the wire
	}
	// inbound base fee of the node the channel enters (any int32): B's on
	// A->B and C's on B->C always, A's on S->A in the wide set; the exit
	// hop's is not used
	if to == c19fpB || to == c19zC || (wide && to == c19fpA) {
		c.pol.ibase = vI32("inboundBase")
	}
	if wide && from == c19fpS {
		c.bw = vU64("bandwidth")
	}
	return c
}

func c19zBody(set int) {
	c19fpConfig()
	rs := c19fpRestr{}
	chans := []c19fpChan{
		c19zChanInput(0, c19fpS, c19fpA, set),
		c19zChanInput(1, c19fpA, c19fpB, set),
		c19zChanInput(2, c19fpB, c19zC, set),
		c19zChanInput(3, c19zC, c19fpT, set),
	}
	paths := [][]int{{0, 1, 2, 3}}

	// --- payment ---
	amt := uint64(1_000_000_000)
	feeLimit := vU64("feeLimit")
	height := uint32(800_000)
	finalDelta := uint16(80)
	cltvLimit := uint32(2016) // as the user states it: relative to the current height, final delta included
	if set&c19zWide != 0 {
		cltvLimit = vU32("cltvLimit")
	}
	// routing.ValidateCLTVLimit: the limit is not below the final delta
	vAssume(cltvLimit >= uint32(finalDelta))

	source, target := c19fpNode(c19fpS), c19fpNode(c19fpT)
	restr := &RestrictParams{
		ProbabilitySource: func(from, to route.Vertex,
			_ lnwire.MilliSatoshi, _ btcutil.Amount) float64 {

			if rs.ignFrom != 0 && from == c19fpNode(rs.ignFrom) &&
				to == c19fpNode(rs.ignTo) {

				return 0
			}
			return c19fpProb
		},
		FeeLimit:           lnwire.MilliSatoshi(feeLimit),
		OutgoingChannelIDs: rs.out,
		// payment_session.go / router_backend.go: the final delta is
		// subtracted before the limit is handed to path finding
		CltvLimit:    cltvLimit - uint32(finalDelta),
		DestFeatures: lnwire.NewFeatureVector(nil, nil),
	}
	if rs.lastHop != 0 {
		lh := c19fpNode(rs.lastHop)
		restr.LastHop = &lh
	}
	cfg := &PathFindingConfig{
		AttemptCost:    100_000, // DefaultAttemptCost = 100 sat
		AttemptCostPPM: 0,
		MinProbability: DefaultMinRouteProbability,
	}
	finalHtlcExpiry := int32(height) + int32(finalDelta)

	path, _, err := findPath(
		&graphParams{
			graph:          &c19fpGraph{ch: chans},
			bandwidthHints: &c19fpHints{ch: chans},
		},
		restr, cfg, source, source, target, lnwire.MilliSatoshi(amt), 0,
		finalHtlcExpiry,
	)
	if err != nil {
		vReach("no-path")
		vAssert(err == errNoPathFound || err == errInsufficientBalance,
			"findPath fails with something else than no-path / insufficient balance")
		// weak liveness: nothing in the topology was payable
		for _, p := range paths {
			var pc []c19fpChan
			for _, k := range p {
				pc = append(pc, chans[k])
			}
			vAssert(!c19fpPayable(rs, pc, amt, feeLimit, finalDelta, cltvLimit),
				"findPath returns no path although a path of the topology satisfies every constraint")
		}
		return
	}
	vReach("path")
	n := len(path)
	vObserve("hops", n)
	vAssert(n >= 1 && n <= len(chans), "path has between one and all channels")
	if n < 1 {
		return
	}

	// --- connected over existing channel directions, source to target ---
	var pc []c19fpChan
	for i := 0; i < n; i++ {
		j := -1
		for k := range chans {
			if path[i].policy.ChannelID == chans[k].id {
				j = k
			}
		}
		vAssert(j >= 0, "path edge is a channel of the graph")
		if j < 0 {
			return
		}
		pc = append(pc, chans[j])
		vAssert(path[i].policy.ToNodePubKey() == c19fpNode(chans[j].to), "path edge leads to the node its channel enters")
	}
	vObserve("firstChan", pc[0].id)
	vAssert(pc[0].from == c19fpS, "path starts at the source")
	vAssert(pc[n-1].to == c19fpT, "path ends at the target")
	for i := 0; i+1 < n; i++ {
		vAssert(pc[i].to == pc[i+1].from, "consecutive path edges share a node")
	}
	vAssert(c19fpAllowed(rs, pc), "path respects the outgoing-channel / last-hop / ignored-pair restrictions")

	// --- the route the real newRoute builds from it ---
	rt, rerr := newRoute(source, path, height, finalHopParams{
		amt:       lnwire.MilliSatoshi(amt),
		totalAmt:  lnwire.MilliSatoshi(amt),
		cltvDelta: finalDelta,
	}, nil)
	if rerr != nil {
		vAssert(false, "newRoute fails on the path findPath returned")
		return
	}
	vObserve("totalAmount", uint64(rt.TotalAmount))
	vObserve("totalTimeLock", rt.TotalTimeLock)
	vAssert(len(rt.Hops) == n, "one hop per path edge")
	if len(rt.Hops) != n {
		return
	}

	// --- limits ---
	vAssert(uint64(rt.TotalFees()) <= feeLimit, "total fees of the route are within the fee limit")
	vAssert(rt.TotalTimeLock >= height && uint64(rt.TotalTimeLock)-uint64(height) <= uint64(cltvLimit),
		"total time lock of the route is within the CLTV limit")
	vAssert(uint64(rt.TotalAmount) >= amt && uint64(rt.TotalFees()) == uint64(rt.TotalAmount)-amt,
		"total fees = total amount - payment amount")

	// --- every channel can carry its amount; every forwarding node accepts ---
	for i := 0; i < n; i++ {
		inAmt, inTL := uint64(rt.TotalAmount), rt.TotalTimeLock
		if i > 0 {
			inAmt, inTL = uint64(rt.Hops[i-1].AmtToForward), rt.Hops[i-1].OutgoingTimeLock
		}
		c := pc[i]
		vAssert(inAmt >= c.min, "amount on a channel is at least its min_htlc")
		vAssert(inAmt <= c.max, "amount on a channel is at most its max_htlc")
		vAssert(c.capSat == 0 || inAmt <= uint64(c.capSat)*1000, "amount on a channel is at most its capacity (in millisatoshi)")
		if i == 0 {
			vAssert(inAmt <= c.bw, "amount on the first channel is within the local bandwidth")
		}
		outAmt, outTL := uint64(rt.Hops[i].AmtToForward), rt.Hops[i].OutgoingTimeLock
		if i < n-1 {
			feeOK, tlOK := c19Accepts(pc[i].pol, pc[i+1].pol, inAmt, outAmt, inTL, outTL)
			vAssert(feeOK, "forwarding node is left at least the fee its policy demands (outbound + inbound, floored at zero)")
			vAssert(tlOK, "expiry gap at a forwarding node is at least its time-lock delta")
			if i == 1 && n == 4 {
				// node B (between A->B and B->C): its inbound discount is
				// larger than its outbound fee (node fee floored at zero),
				// the next node C charges a positive inbound fee on B->C,
				// and the node upstream (A) is left a positive fee
				ofB := c19OutFee(pc[2].pol, outAmt)
				if int64(ofB)+c19InFee(pc[1].pol, outAmt+ofB) < 0 && inAmt == outAmt &&
					pc[2].pol.ibase > 0 && uint64(rt.TotalAmount) > inAmt {

					vReach("floored-then-inbound")
				}
			}
		} else {
			vAssert(outAmt == amt, "final hop payload carries the payment amount")
			vAssert(inAmt >= outAmt, "final node receives at least the payment amount")
			vAssert(inTL >= outTL && uint64(outTL) == uint64(height)+uint64(finalDelta),
				"final expiry = height + final CLTV delta and not above the incoming expiry")
		}
	}
}

// VerifC19zLine4Core: fee limit, A's base fee, B's and C's inbound base fees.
func VerifC19zLine4Core() { c19zBody(c19zCore) }

// VerifC19zLine4Wide: additionally B's and C's base fees, A's inbound base
// fee, the source's bandwidth and the CLTV limit.
func VerifC19zLine4Wide() { c19zBody(c19zCore | c19zWide) }
