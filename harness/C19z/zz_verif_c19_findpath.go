package routing

// Harness for C19, item 3: the real routing.findPath on tiny FIXED topologies
// with SYMBOLIC channel policies.
//
// Unit (real code, executed symbolically): findPath with its processEdge
// closure (fee limit, CLTV limit, probability, payload size), getOutgoingBalance,
// newNodeEdgeUnifier / addGraphPolicies / addPolicy, (*edgeUnifier).getEdge /
// getEdgeLocal / getEdgeNetwork, calcCappedInboundFee, amtInRange, edgeWeight,
// the distance heap (container/heap over distanceHeap), ComputeFee, CalcFee,
// lastHopPayloadSize / defaultHopPayloadSize / (*route.Hop).PayloadSize, and —
// on whatever path comes back — the real newRoute / NewRouteFromHops /
// TotalFees. Only getProbabilityBasedDist (float arithmetic on a symbolic
// integer) is evaluated through the engine model of models_c19b.go, which
// re-validates itself against the real body on concrete samples.
//
// Fakes, all behind interfaces / function-valued fields findPath already
// takes: c19fpGraph (routing.Graph: a fixed channel table), c19fpHints
// (bandwidthHints: bandwidth of the source's channels), the probability source
// (constant probability, 0 for an ignored node pair — the way
// lnrpc/routerrpc builds RestrictParams.ProbabilitySource from
// ignored_pairs).
//
// The judgement of a returned path is written from the property, not from
// findPath: the route built from it must stay within the fee limit and the
// CLTV limit, every channel must be able to carry its amount (min/max HTLC,
// capacity in millisatoshi, bandwidth on the first hop), every forwarding node
// must accept (c19Accepts of the route-construction harness), the path must be
// connected from source to target and respect the restrictions. If no path is
// returned, no path of the topology may satisfy all of that (weak liveness).

import (
	"context"

	"github.com/btcsuite/btcd/btcutil/v2"
	graphdb "github.com/lightningnetwork/lnd/graph/db"
	"github.com/lightningnetwork/lnd/graph/db/models"
	"github.com/lightningnetwork/lnd/lnwire"
	"github.com/lightningnetwork/lnd/routing/route"
)

const (
	c19fpProb = C19_FPPROB // constant per-hop success probability (concrete float)

	// node numbers
	c19fpS = 1 // source = self
	c19fpA = 2
	c19fpB = 3
	c19fpT = 4 // target

	// symbolic sets (reduction: see NOTES.md)
	c19fpFees  = 1 // amount, fee policies, inbound fees, HTLC ranges, capacities, bandwidth, fee limit, CLTV limit symbolic; time-lock data concrete
	c19fpLocks = 2 // time-lock deltas, height, final CLTV delta, CLTV limit, fee limit symbolic; amounts and fee policies concrete
	c19fpRates = 4 // with c19fpFees: proportional fee rates (outbound and inbound) symbolic too
	c19fpAll   = 7
	c19fpBases = 8 // reduced fee set: only base fees (outbound and inbound), the source's bandwidth, the fee limit and the CLTV limit symbolic; amount, HTLC ranges, capacities, rates and time-lock data concrete
)

func c19fpNode(i int) route.Vertex {
	var v route.Vertex
	v[0] = 2
	v[1] = byte(i)
	return v
}

// c19fpChan is the harness's record of one channel direction from -> to.
type c19fpChan struct {
	id       uint64
	from, to int
	pol      c19Pol // outbound policy of `from`, inbound fee of `to` (see zz_verif_c19_route.go)
	min, max uint64 // min_htlc / max_htlc in msat
	capSat   int64  // capacity in satoshi, 0 = unknown
	bw       uint64 // bandwidth hint in msat (channels of the source)
}

// c19fpGraph is a routing.Graph over a fixed table of channel directions.
type c19fpGraph struct {
	ch []c19fpChan
}

func (g *c19fpGraph) ForEachNodeDirectedChannel(_ context.Context,
	node route.Vertex, cb func(channel *graphdb.DirectedChannel) error,
	_ func()) error {

	for i := range g.ch {
		c := g.ch[i]
		switch node {
		case c19fpNode(c.to):
			// the channel seen from the node it enters: InPolicy is the
			// policy of the other node towards this one, InboundFee is this
			// node's inbound fee on the channel
			to := node
			err := cb(&graphdb.DirectedChannel{
				ChannelID:    c.id,
				OtherNode:    c19fpNode(c.from),
				Capacity:     btcutil.Amount(c.capSat),
				OutPolicySet: false,
				InPolicy: &models.CachedEdgePolicy{
					ChannelID:                 c.id,
					HasMaxHTLC:                true,
					TimeLockDelta:             c.pol.delta,
					MinHTLC:                   lnwire.MilliSatoshi(c.min),
					MaxHTLC:                   lnwire.MilliSatoshi(c.max),
					FeeBaseMSat:               lnwire.MilliSatoshi(c.pol.base),
					FeeProportionalMillionths: lnwire.MilliSatoshi(c.pol.rate),
					ToNodePubKey:              func() route.Vertex { return to },
				},
				InboundFee: lnwire.Fee{BaseFee: c.pol.ibase, FeeRate: c.pol.irate},
			})
			if err != nil {
				return err
			}
		case c19fpNode(c.from):
			// the channel seen from the node it leaves (only this direction
			// has a policy: InPolicy is nil)
			err := cb(&graphdb.DirectedChannel{
				ChannelID:    c.id,
				OtherNode:    c19fpNode(c.to),
				Capacity:     btcutil.Amount(c.capSat),
				OutPolicySet: true,
			})
			if err != nil {
				return err
			}
		}
	}
	return nil
}

func (g *c19fpGraph) FetchNodeFeatures(_ context.Context,
	_ route.Vertex) (*lnwire.FeatureVector, error) {

	return lnwire.NewFeatureVector(nil, nil), nil
}

// c19fpHints: bandwidth of the source's own channels.
type c19fpHints struct {
	ch []c19fpChan
}

func (h *c19fpHints) availableChanBandwidth(channelID uint64,
	_ lnwire.MilliSatoshi) (lnwire.MilliSatoshi, bool) {

	for i := range h.ch {
		if h.ch[i].id == channelID && h.ch[i].from == c19fpS {
			return lnwire.MilliSatoshi(h.ch[i].bw), true
		}
	}
	return 0, false
}

func (h *c19fpHints) isCustomHTLCPayment() bool { return false }

// c19fpRestr is one restriction set.
type c19fpRestr struct {
	out     []uint64 // OutgoingChannelIDs (nil = any)
	lastHop int      // LastHop node number (0 = any)
	ignFrom int      // ignored node pair (0 = none)
	ignTo   int
}

// c19fpChanInput builds channel k (id 100+k) from -> to. Quantities outside the
// symbolic set of the entry get fixed, pairwise different, non-trivial values
// (non-zero fees on the source's own channel included: charging them would be
// caught by the totals).
func c19fpChanInput(k, from, to, set int) c19fpChan {
	c := c19fpChan{
		id: uint64(100 + k), from: from, to: to,
		pol: c19Pol{
			chanID: uint64(100 + k), toNode: c19fpNode(to),
			base: uint64(1000 + 100*k), rate: uint64(2500 * (k + 1)),
			delta: uint16(40 + 12*k),
			ibase: int32(300 - 400*k), irate: int32(1500 - 2000*k),
		},
		min: 1000, max: 5_000_000_000, capSat: 6_000_000, bw: 4_000_000_000,
	}
	if set&c19fpFees != 0 {
		c.min = vU64("minHTLC")
		c.max = vU64("maxHTLC")
		c.capSat = vI64("capacitySat")
		// max_htlc is mandatory in channel updates lnd accepts; a channel
		// carries at most 10 BTC (c19MaxChan), capacity 0 = unknown
		vAssume(c.max <= c19MaxChan)
		vAssume(c.capSat >= 0 && c.capSat <= c19MaxSupply)
		if from == c19fpS {
			c.bw = vU64("bandwidth")
		} else {
			// the source's own policy is not charged: only forwarding
			// nodes get symbolic fee policies
			c.pol.base = vU64("feeBase")
			vAssume(c.pol.base <= 0xffffffff) // fee_base_msat is a uint32 on the wire
			if set&c19fpRates != 0 {
				c.pol.rate = vU64("feeRate")
				vAssume(c.pol.rate <= 1_000_000) // proportional fee up to 100 %
			}
		}
		if to != c19fpT {
			// inbound fee of a forwarding node (the exit hop's is not used)
			c.pol.ibase = vI32("inboundBase")
			if set&c19fpRates != 0 {
				c.pol.irate = vI32("inboundRate")
				vAssume(c.pol.irate <= c19InRate && c.pol.irate >= -c19InRate)
			}
		}
	}
	if set&c19fpBases != 0 {
		if from == c19fpS {
			c.bw = vU64("bandwidth")
		} else {
			c.pol.base = vU64("feeBase")
			vAssume(c.pol.base <= 0xffffffff) // fee_base_msat is a uint32 on the wire
		}
		if to != c19fpT {
			c.pol.ibase = vI32("inboundBase")
		}
	}
	if set&c19fpLocks != 0 && from != c19fpS {
		c.pol.delta = vU16("timeLockDelta")
	}
	return c
}

// c19fpTopology returns the channel table and the list of source->target
// paths (as indexes into the table) of topology t.
func c19fpTopology(t, set int) ([]c19fpChan, [][]int) {
	switch t {
	case 1: // S -> A -> T
		return []c19fpChan{
			c19fpChanInput(0, c19fpS, c19fpA, set),
			c19fpChanInput(1, c19fpA, c19fpT, set),
		}, [][]int{{0, 1}}
	case 2: // S -> A -> B -> T
		return []c19fpChan{
			c19fpChanInput(0, c19fpS, c19fpA, set),
			c19fpChanInput(1, c19fpA, c19fpB, set),
			c19fpChanInput(2, c19fpB, c19fpT, set),
		}, [][]int{{0, 1, 2}}
	default: // S -> A -> T and S -> B -> T
		return []c19fpChan{
			c19fpChanInput(0, c19fpS, c19fpA, set),
			c19fpChanInput(1, c19fpA, c19fpT, set),
			c19fpChanInput(2, c19fpS, c19fpB, set),
			c19fpChanInput(3, c19fpB, c19fpT, set),
		}, [][]int{{0, 1}, {2, 3}}
	}
}

// c19fpRestrictions: the restriction sets of topology t (index = vChoice).
func c19fpRestrictions(t int) []c19fpRestr {
	switch t {
	case 1:
		return []c19fpRestr{
			{},
			{out: []uint64{100}, lastHop: c19fpA},           // both satisfied by the only path
			{out: []uint64{777}},                            // no such outgoing channel
			{lastHop: c19fpB},                               // last hop is not B
			{ignFrom: c19fpA, ignTo: c19fpT},                // the only path is ignored
			{out: []uint64{100}, ignFrom: c19fpT, ignTo: c19fpA}, // reverse pair ignored: irrelevant
		}
	case 2:
		return []c19fpRestr{
			{},
			{out: []uint64{100}, lastHop: c19fpB},
			{lastHop: c19fpA},
			{ignFrom: c19fpA, ignTo: c19fpB},
		}
	default:
		return []c19fpRestr{
			{},
			{out: []uint64{102}},                              // must leave over S->B
			{lastHop: c19fpA},                                 // must arrive via A
			{ignFrom: c19fpB, ignTo: c19fpT},                  // B->T ignored
			{out: []uint64{100}, lastHop: c19fpB},             // contradictory
			{out: []uint64{100, 102}, ignFrom: c19fpS, ignTo: c19fpA}, // S->A ignored
		}
	}
}

// c19fpAllowed: does the path (channels in forward order) respect restriction r?
func c19fpAllowed(r c19fpRestr, p []c19fpChan) bool {
	if r.out != nil {
		ok := false
		for _, id := range r.out {
			ok = ok || id == p[0].id
		}
		if !ok {
			return false
		}
	}
	if r.lastHop != 0 && p[len(p)-1].from != r.lastHop {
		return false
	}
	for _, c := range p {
		if r.ignFrom != 0 && c.from == r.ignFrom && c.to == r.ignTo {
			return false
		}
	}
	return true
}

// c19fpCarries: channel c can carry x msat (min_htlc, max_htlc, capacity in
// millisatoshi if known, bandwidth if it is a channel of the source).
func c19fpCarries(c c19fpChan, x uint64) bool {
	ok := x >= c.min && x <= c.max
	ok = ok && (c.capSat == 0 || x <= uint64(c.capSat)*1000)
	ok = ok && (c.from != c19fpS || x <= c.bw)
	return ok
}

// c19fpPayable is the reference judgement of one path of the topology: the
// amounts every channel would have to carry (payment amount plus the node fees
// demanded downstream, c19Demand), each within its channel's limits, total fee
// within the fee limit, total time lock within the CLTV limit, restrictions
// respected.
func c19fpPayable(r c19fpRestr, p []c19fpChan, amt, feeLimit uint64,
	finalDelta uint16, cltvLimit uint32) bool {

	n := len(p)
	x := amt
	locks := uint64(finalDelta)
	ok := c19fpCarries(p[n-1], x)
	for i := n - 2; i >= 0; i-- {
		x = x + c19Demand(p[i].pol, p[i+1].pol, x)
		locks = locks + uint64(p[i+1].pol.delta)
		ok = ok && c19fpCarries(p[i], x)
	}
	ok = ok && x-amt <= feeLimit
	ok = ok && locks <= uint64(cltvLimit)
	return ok && c19fpAllowed(r, p)
}

func c19fpConfig() {
	// pure helpers: explored once per call and merged
	vMerge("(*github.com/lightningnetwork/lnd/routing.unifiedEdge).amtInRange")
	vMerge("(*github.com/lightningnetwork/lnd/routing/route.Hop).PayloadSize")
	vMerge("github.com/lightningnetwork/lnd/tlv.SizeTUint64")
	vMerge("github.com/lightningnetwork/lnd/tlv.VarIntSize")
	vMerge("(*github.com/lightningnetwork/lnd/routing/route.Route).TotalFees")
	vMerge("(*github.com/lightningnetwork/lnd/routing/route.Route).ReceiverAmt")
	vMerge("github.com/lightningnetwork/lnd/routing.c19fpCarries")
	vMerge("github.com/lightningnetwork/lnd/routing.c19fpPayable")
	// findPath only measures its own running time (start := time.Now(),
	// time.Since(start) in the deferred perf log); nothing depends on it
	vNoop("time.Now")
	vNoop("time.Since")
	// the reference arithmetic is exact on the domain
	vOverflow("github.com/lightningnetwork/lnd/routing.c19OutFee")
	vOverflow("github.com/lightningnetwork/lnd/routing.c19InFee")
	vOverflow("github.com/lightningnetwork/lnd/routing.c19Demand")
	vOverflow("github.com/lightningnetwork/lnd/routing.c19Accepts")
	vOverflow("github.com/lightningnetwork/lnd/routing.c19fpCarries")
	vOverflow("github.com/lightningnetwork/lnd/routing.c19fpPayable")
	vAssumption("findPath: source = self; single-shot payment (no MPP/AMP/blinded path, no route hints, no custom records); constant probability source C19_FPPROB per hop (0 for an ignored pair), AttemptCost 100 sat, AttemptCostPPM 0, time preference 0, MinProbability 0.01; every channel announces max_htlc <= 10 BTC; payment amount <= 10 BTC; fee_base_msat < 2^32, fee rate <= 1e6 ppm, |inbound rate| <= C19_INRATE ppm, inbound base any int32; height < 2^30; CLTV limit >= final CLTV delta (ValidateCLTVLimit)")
}

func c19fpBody(topo, set int) {
	c19fpConfig()
	restrs := c19fpRestrictions(topo)
	ri := vChoice("restr", len(restrs))
	rs := restrs[ri]
	chans, paths := c19fpTopology(topo, set)

	// --- payment ---
	amt := uint64(1_000_000_000)
	feeLimit := vU64("feeLimit")
	height := uint32(800_000)
	finalDelta := uint16(80)
	cltvLimit := vU32("cltvLimit") // as the user states it: relative to the current height, final delta included
	if set&c19fpFees != 0 {
		amt = vU64("amt")
		vAssume(amt <= c19MaxChan)
	}
	if set&c19fpLocks != 0 {
		height = vU32("height")
		finalDelta = vU16("finalCltvDelta")
		vAssume(height < 1<<30)
	}
	// routing.ValidateCLTVLimit: the limit is not below the final delta
	vAssume(cltvLimit >= uint32(finalDelta))

	source, target := c19fpNode(c19fpS), c19fpNode(c19fpT)
	restr := &RestrictParams{
		ProbabilitySource: func(from, to route.Vertex,
			_ lnwire.MilliSatoshi, _ btcutil.Amount) float64 {

			if rs.ignFrom != 0 && from == c19fpNode(rs.ignFrom) &&
				to == c19fpNode(rs.ignTo) {

				return 0
			}
			return c19fpProb
		},
		FeeLimit:           lnwire.MilliSatoshi(feeLimit),
		OutgoingChannelIDs: rs.out,
		// payment_session.go / router_backend.go: the final delta is
		// subtracted before the limit is handed to path finding
		CltvLimit:    cltvLimit - uint32(finalDelta),
		DestFeatures: lnwire.NewFeatureVector(nil, nil),
	}
	if rs.lastHop != 0 {
		lh := c19fpNode(rs.lastHop)
		restr.LastHop = &lh
	}
	cfg := &PathFindingConfig{
		AttemptCost:    100_000, // DefaultAttemptCost = 100 sat
		AttemptCostPPM: 0,
		MinProbability: DefaultMinRouteProbability,
	}
	finalHtlcExpiry := int32(height) + int32(finalDelta)

	path, _, err := findPath(
		&graphParams{
			graph:          &c19fpGraph{ch: chans},
			bandwidthHints: &c19fpHints{ch: chans},
		},
		restr, cfg, source, source, target, lnwire.MilliSatoshi(amt), 0,
		finalHtlcExpiry,
	)
	if err != nil {
		vReach("no-path")
		vAssert(err == errNoPathFound || err == errInsufficientBalance,
			"findPath fails with something else than no-path / insufficient balance")
		// weak liveness: nothing in the topology was payable
		for _, p := range paths {
			var pc []c19fpChan
			for _, k := range p {
				pc = append(pc, chans[k])
			}
			vAssert(!c19fpPayable(rs, pc, amt, feeLimit, finalDelta, cltvLimit),
				"findPath returns no path although a path of the topology satisfies every constraint")
		}
		return
	}
	vReach("path")
	n := len(path)
	vObserve("hops", n)
	vAssert(n >= 1 && n <= len(chans), "path has between one and all channels")
	if n < 1 {
		return
	}

	// --- connected over existing channel directions, source to target ---
	var pc []c19fpChan
	for i := 0; i < n; i++ {
		j := -1
		for k := range chans {
			if path[i].policy.ChannelID == chans[k].id {
				j = k
			}
		}
		vAssert(j >= 0, "path edge is a channel of the graph")
		if j < 0 {
			return
		}
		pc = append(pc, chans[j])
		vAssert(path[i].policy.ToNodePubKey() == c19fpNode(chans[j].to), "path edge leads to the node its channel enters")
	}
	vObserve("firstChan", pc[0].id)
	vAssert(pc[0].from == c19fpS, "path starts at the source")
	vAssert(pc[n-1].to == c19fpT, "path ends at the target")
	for i := 0; i+1 < n; i++ {
		vAssert(pc[i].to == pc[i+1].from, "consecutive path edges share a node")
	}
	vAssert(c19fpAllowed(rs, pc), "path respects the outgoing-channel / last-hop / ignored-pair restrictions")

	// --- the route the real newRoute builds from it ---
	rt, rerr := newRoute(source, path, height, finalHopParams{
		amt:       lnwire.MilliSatoshi(amt),
		totalAmt:  lnwire.MilliSatoshi(amt),
		cltvDelta: finalDelta,
	}, nil)
	if rerr != nil {
		vAssert(false, "newRoute fails on the path findPath returned")
		return
	}
	vObserve("totalAmount", uint64(rt.TotalAmount))
	vObserve("totalTimeLock", rt.TotalTimeLock)
	vAssert(len(rt.Hops) == n, "one hop per path edge")
	if len(rt.Hops) != n {
		return
	}

	// --- limits ---
	vAssert(uint64(rt.TotalFees()) <= feeLimit, "total fees of the route are within the fee limit")
	vAssert(rt.TotalTimeLock >= height && uint64(rt.TotalTimeLock)-uint64(height) <= uint64(cltvLimit),
		"total time lock of the route is within the CLTV limit")
	vAssert(uint64(rt.TotalAmount) >= amt && uint64(rt.TotalFees()) == uint64(rt.TotalAmount)-amt,
		"total fees = total amount - payment amount")

	// --- every channel can carry its amount; every forwarding node accepts ---
	for i := 0; i < n; i++ {
		inAmt, inTL := uint64(rt.TotalAmount), rt.TotalTimeLock
		if i > 0 {
			inAmt, inTL = uint64(rt.Hops[i-1].AmtToForward), rt.Hops[i-1].OutgoingTimeLock
		}
		c := pc[i]
		vAssert(inAmt >= c.min, "amount on a channel is at least its min_htlc")
		vAssert(inAmt <= c.max, "amount on a channel is at most its max_htlc")
		vAssert(c.capSat == 0 || inAmt <= uint64(c.capSat)*1000, "amount on a channel is at most its capacity (in millisatoshi)")
		if i == 0 {
			vAssert(inAmt <= c.bw, "amount on the first channel is within the local bandwidth")
		}
		outAmt, outTL := uint64(rt.Hops[i].AmtToForward), rt.Hops[i].OutgoingTimeLock
		if i < n-1 {
			feeOK, tlOK := c19Accepts(pc[i].pol, pc[i+1].pol, inAmt, outAmt, inTL, outTL)
			vAssert(feeOK, "forwarding node is left at least the fee its policy demands (outbound + inbound, floored at zero)")
			vAssert(tlOK, "expiry gap at a forwarding node is at least its time-lock delta")
			if i == 0 && int64(inAmt)-int64(outAmt) == 0 && c19InFee(pc[i].pol, outAmt+c19OutFee(pc[i+1].pol, outAmt)) < 0 {
				vReach("inbound-discount")
			}
		} else {
			vAssert(outAmt == amt, "final hop payload carries the payment amount")
			vAssert(inAmt >= outAmt, "final node receives at least the payment amount")
			vAssert(inTL >= outTL && uint64(outTL) == uint64(height)+uint64(finalDelta),
				"final expiry = height + final CLTV delta and not above the incoming expiry")
		}
	}
}

// Entries: VerifC19Find<topology><set>.
//
// Registered in spec.json: LineFees (quick: restriction set 0 only, thorough:
// all six), LineLocks, ParLocks (both tiers), Line3Locks (thorough). The other
// entries are kept for reference but are NOT registered, because they did not
// finish within the entry budget on this machine (see NOTES.md, "findPath
// extension"): LineRates / LineAll (symbolic rate x symbolic amount: solver
// gives up on the liveness obligation), Line3Fees / Line3Bases (chained fee
// arithmetic over two forwarding nodes: solver-unknown), ParFees / ParBases
// (hundreds of heap-order paths: budget), and consequently Line3All / ParAll.
func VerifC19FindLineFees()   { c19fpBody(1, c19fpFees) }
func VerifC19FindLineRates()  { c19fpBody(1, c19fpFees|c19fpRates) }
func VerifC19FindLineLocks()  { c19fpBody(1, c19fpLocks) }
func VerifC19FindLineAll()    { c19fpBody(1, c19fpAll) }
func VerifC19FindLine3Fees()  { c19fpBody(2, c19fpFees) }
func VerifC19FindLine3Locks() { c19fpBody(2, c19fpLocks) }
func VerifC19FindLine3All()   { c19fpBody(2, c19fpAll) }
func VerifC19FindLine3Bases() { c19fpBody(2, c19fpBases) }
func VerifC19FindParBases()   { c19fpBody(3, c19fpBases) }
func VerifC19FindParFees()    { c19fpBody(3, c19fpFees) }
func VerifC19FindParLocks()   { c19fpBody(3, c19fpLocks) }
func VerifC19FindParAll()     { c19fpBody(3, c19fpAll) }
