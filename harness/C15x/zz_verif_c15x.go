package invoices

// C15x — the SQL invoice store persists exactly what UpdateInvoice reports.
//
// Unit (real lnd code, executed symbolically): (*SQLStore).UpdateInvoice,
// (*SQLStore).LookupInvoice, fetchInvoice, getInvoiceByRef, fetchInvoiceData,
// fetchAmpState, getInvoiceHtlcs, getInvoiceFeatures, unmarshalInvoice,
// unmarshalInvoiceHTLC, every method of sqlInvoiceUpdater (AddHtlc, ResolveHtlc,
// AddAmpHtlcPreimage, UpdateInvoiceState, UpdateInvoiceAmtPaid, UpdateAmpState,
// Finalize) and, between them, invoices.UpdateInvoice with addHTLCs,
// cancelHTLCs, settleHodlInvoice, cancelInvoice and their helpers.
//
// The database is the in-memory fake c15xSQL (zz_verif_c15x_fake.go) behind
// lnd's BatchedSQLInvoiceQueries interface; the clock is a fake clock.Clock.
//
// Method: two invoices are inserted (rows, as InsertInvoice writes them); the
// first one is driven through a short history of real UpdateInvoice steps whose
// update descriptors have the shapes the registry produces (new HTLC recorded /
// completing the set / cancel one HTLC = MPP set timeout / SettleHodlInvoice /
// CancelInvoice) with symbolic circuit keys, amounts, heights, expiries, set
// ids and times. After EVERY step the oracle compares the invoice the real
// code returned with (a) what the real LookupInvoice reads back from the tables
// and (b) the raw rows.

import (
	"context"
	"database/sql"
	"math"
	"strconv"
	"time"

	"github.com/lightningnetwork/lnd/lntypes"
	"github.com/lightningnetwork/lnd/lnwire"
	"github.com/lightningnetwork/lnd/record"
	"github.com/lightningnetwork/lnd/sqldb/sqlc"
)

// ---------------------------------------------------------------------------
// strconv: decimal text of an integer, abstracted (symbolic run only)
// ---------------------------------------------------------------------------
//
// chan_id is "uint64 stored as text". Symbolically the decimal text produced by
// strconv.FormatUint/FormatInt is replaced by an abstract 9-byte text
// [sign][magnitude, big endian]: two texts are equal iff the numbers are, and
// ParseUint/ParseInt invert it with the range/sign errors of the real
// functions. The native replay runs the real strconv.

func c15xText(sign byte, m uint64) string {
	b := []byte{sign, byte(m >> 56), byte(m >> 48), byte(m >> 40), byte(m >> 32),
		byte(m >> 24), byte(m >> 16), byte(m >> 8), byte(m)}
	return string(b)
}

func c15xFormatUint(i uint64, base int) string { return c15xText(0, i) }

func c15xFormatInt(i int64, base int) string {
	if i < 0 {
		return c15xText(1, uint64(-i))
	}
	return c15xText(0, uint64(i))
}

func c15xMag(s string) uint64 {
	var v uint64
	for i := 1; i < 9; i++ {
		v = v<<8 | uint64(s[i])
	}
	return v
}

func c15xParseUint(s string, base int, bitSize int) (uint64, error) {
	if len(s) != 9 || s[0] != 0 {
		return 0, &strconv.NumError{Func: "ParseUint", Num: "?", Err: strconv.ErrSyntax}
	}
	return c15xMag(s), nil
}

func c15xParseInt(s string, base int, bitSize int) (int64, error) {
	if len(s) != 9 {
		return 0, &strconv.NumError{Func: "ParseInt", Num: "?", Err: strconv.ErrSyntax}
	}
	m := c15xMag(s)
	if s[0] == 0 && m <= math.MaxInt64 {
		return int64(m), nil
	}
	if s[0] != 0 && m <= 1<<63 {
		return -int64(m), nil
	}
	return 0, &strconv.NumError{Func: "ParseInt", Num: "?", Err: strconv.ErrRange}
}

// c15xZone replaces (*time.Location).lookup symbolically: the process runs in
// UTC (the tz database is read from the environment / files, which the engine
// does not execute). Only reached through InvoiceStateAMP.copy, which marshals
// the settle date of a settled AMP sub-invoice.
func c15xZone(l *time.Location, sec int64) (string, int, int64, int64, bool) {
	return "UTC", 0, math.MinInt64, math.MaxInt64, false
}

func c15xSetup() {
	me := "github.com/lightningnetwork/lnd/invoices."
	vReplace("(*time.Location).lookup", me+"c15xZone")
	vAssumption("the local time zone is UTC in the symbolic run ((*time.Location).lookup replaced); times are compared as instants")
	vReplace("strconv.FormatUint", me+"c15xFormatUint")
	vReplace("strconv.FormatInt", me+"c15xFormatInt")
	vReplace("strconv.ParseUint", me+"c15xParseUint")
	vReplace("strconv.ParseInt", me+"c15xParseInt")
	vAssumption("strconv.FormatUint/FormatInt/ParseUint/ParseInt (base 10, 64 bit) abstracted symbolically as an injective text encoding with exact round trip and the sign/range errors of the real functions; native replay runs the real strconv")
	vAssumption("fake SQL layer c15xSQL implements the statements of sqldb/sqlc/queries/{invoices,amp_invoices}.sql and the unique/primary/foreign keys of migrations 000001/000002; ExecTx is atomic (rollback on error)")
	vAssumption("HTLC ids are <= MaxInt64 (invoice_htlcs.htlc_id is BIGINT; schema comment: the id is a per-channel counter); channel ids are any uint64")
}

// chanText is the harness's own statement of the chan_id column format.
func c15xChanText(k CircuitKey) string {
	return strconv.FormatUint(k.ChanID.ToUint64(), 10)
}

// ---------------------------------------------------------------------------
// world
// ---------------------------------------------------------------------------

type c15xClock struct {
	t []time.Time
	n int
}

func (c *c15xClock) Now() time.Time {
	t := c.t[c.n]
	c.n++
	return t
}

func (c *c15xClock) TickAfter(time.Duration) <-chan time.Time { return nil }

type c15xWorld struct {
	f     *c15xSQL
	store *SQLStore
	clk   *c15xClock
	ctx   context.Context

	id1, id2 int64
	hash1    lntypes.Hash
	pre1     lntypes.Preimage
	addr1    [32]byte
	hodl     bool
	amp      bool

	keys []CircuitKey // circuit keys recorded on invoice 1 by successful steps
	sets [][32]byte   // their set ids (AMP)

	other CircuitKey // circuit key of the HTLC held by the other invoice

	// strictAmpIdx: compare the settle index / date of AMP sub-invoices also
	// when the step wrote the settled state of one set more than once or
	// onto an already settled set (see NOTES.md, CANDIDATE FINDING)
	strictAmpIdx bool
	resettled    bool // computed per step

	canceledOne bool // a single HTLC was canceled earlier (MPP/AMP set timeout)
}

const c15xT0 = int64(1_700_000_000)

func c15xNewWorld(amp bool, steps int) *c15xWorld {
	c15xSetup()

	w := &c15xWorld{
		f:   &c15xSQL{},
		ctx: context.Background(),
		amp: amp,
	}

	// invoice ids are autoincrement primary keys (positive); any two different ones
	w.id1 = vI64("invoiceID")
	w.id2 = vI64("otherInvoiceID")
	vAssume(w.id1 >= 1 && w.id2 >= 1 && w.id1 != w.id2)

	w.pre1 = lntypes.Preimage{0x11, 0x22}
	w.hash1 = w.pre1.Hash()
	w.addr1 = [32]byte{0xa1}
	pre2 := lntypes.Preimage{0x33}
	hash2 := pre2.Hash()
	addr2 := [32]byte{0xa2}

	if !amp {
		w.hodl = vChoice("hodl", 2) == 1
	}

	created := time.Unix(c15xT0, 0).UTC()
	row1 := sqlc.Invoice{
		ID: w.id1, Hash: w.hash1[:], AmountMsat: vI64("value"),
		CltvDelta: sqlInt32(40), Expiry: 3600, PaymentAddr: w.addr1[:],
		State: int16(ContractOpen), IsAmp: amp, IsHodl: w.hodl, CreatedAt: created,
	}
	// regular invoices store their preimage, hold and AMP invoices do not
	if !w.hodl && !amp {
		row1.Preimage = w.pre1[:]
	}
	row2 := sqlc.Invoice{
		ID: w.id2, Hash: hash2[:], Preimage: pre2[:], AmountMsat: 5000,
		CltvDelta: sqlInt32(40), Expiry: 3600, PaymentAddr: addr2[:],
		State: int16(ContractOpen), CreatedAt: created,
	}
	w.f.inv = []sqlc.Invoice{row1, row2}
	if amp {
		w.f.feat = []sqlc.InvoiceFeature{
			{Feature: int32(lnwire.TLVOnionPayloadRequired), InvoiceID: w.id1},
			{Feature: int32(lnwire.PaymentAddrRequired), InvoiceID: w.id1},
			{Feature: int32(lnwire.AMPRequired), InvoiceID: w.id1},
		}
	}

	// the other invoice holds one accepted HTLC (a partial MPP payment) under
	// any circuit key
	ok := CircuitKey{
		ChanID: lnwire.NewShortChanIDFromInt(vU64("otherChan")),
		HtlcID: vU64("otherHtlc"),
	}
	vAssume(ok.HtlcID <= math.MaxInt64)
	w.other = ok
	w.f.nextID = 1
	w.f.htlc = []sqlc.InvoiceHtlc{{
		ID: 1, ChanID: c15xChanText(ok), HtlcID: int64(ok.HtlcID), AmountMsat: 1000,
		TotalMppMsat: sqlInt64(5000), AcceptHeight: 100, AcceptTime: created,
		ExpiryHeight: 200, State: int16(HtlcStateAccepted), InvoiceID: w.id2,
	}}
	// settle index sequence: any value reached so far
	w.f.seq = vI64("settleSeq")
	vAssume(w.f.seq >= 0 && w.f.seq < math.MaxInt64-16)

	// the clock: one reading per step, non-decreasing whole seconds
	w.clk = &c15xClock{}
	last := c15xT0
	for i := 0; i < steps; i++ {
		s := vI64("now")
		vAssume(s >= last && s <= 4_000_000_000)
		last = s
		w.clk.t = append(w.clk.t, time.Unix(s, 0))
	}
	w.store = NewSQLStore(w.f, w.clk)

	return w
}

func sqlInt32(v int32) sql.NullInt32 { return sql.NullInt32{Int32: v, Valid: true} }
func sqlInt64(v int64) sql.NullInt64 { return sql.NullInt64{Int64: v, Valid: true} }

func c15xArr32(b []byte) [32]byte {
	var a [32]byte
	copy(a[:], b)
	return a
}

// ---------------------------------------------------------------------------
// oracle
// ---------------------------------------------------------------------------

func c15xPreEq(a, b *lntypes.Preimage) bool {
	if a == nil || b == nil {
		return a == nil && b == nil
	}
	return *a == *b
}

// compare: the invoice UpdateInvoice returned (ret) against what LookupInvoice
// reads back from the tables through the same reference (got).
func c15xCompare(ret, got *Invoice, ampIdx bool) {
	vAssert(got.State == ret.State, "read back: invoice state equals the returned one")
	vAssert(got.AmtPaid == ret.AmtPaid, "read back: amount paid equals the returned one")
	vAssert(got.SettleIndex == ret.SettleIndex, "read back: settle index equals the returned one")
	vAssert(got.SettleDate.Equal(ret.SettleDate), "read back: settle date equals the returned one")
	vAssert(c15xPreEq(got.Terms.PaymentPreimage, ret.Terms.PaymentPreimage),
		"read back: invoice preimage equals the returned one")
	vAssert(got.AddIndex == ret.AddIndex && got.Terms.Value == ret.Terms.Value &&
		got.HodlInvoice == ret.HodlInvoice, "read back: invoice identity unchanged")

	vAssert(len(got.Htlcs) == len(ret.Htlcs), "read back: same number of HTLCs as returned")
	for k, h := range ret.Htlcs {
		g, ok := got.Htlcs[k]
		vAssert(ok, "read back: every returned HTLC is stored under its circuit key")
		if !ok {
			continue
		}
		vAssert(g.State == h.State, "read back: HTLC state equals the returned one")
		vAssert(g.Amt == h.Amt, "read back: HTLC amount equals the returned one")
		vAssert(g.MppTotalAmt == h.MppTotalAmt, "read back: HTLC mpp total equals the returned one")
		vAssert(g.AcceptHeight == h.AcceptHeight && g.Expiry == h.Expiry,
			"read back: HTLC accept height and expiry equal the returned ones")
		vAssert(g.AcceptTime.Equal(h.AcceptTime), "read back: HTLC accept time equals the returned one")
		vAssert(g.ResolveTime.Equal(h.ResolveTime), "read back: HTLC resolve time equals the returned one")
		vAssert((g.AMP == nil) == (h.AMP == nil), "read back: HTLC AMP data present as returned")
		if g.AMP != nil && h.AMP != nil {
			vAssert(g.AMP.Record.SetID() == h.AMP.Record.SetID() &&
				g.AMP.Record.RootShare() == h.AMP.Record.RootShare() &&
				g.AMP.Record.ChildIndex() == h.AMP.Record.ChildIndex() &&
				g.AMP.Hash == h.AMP.Hash, "read back: AMP record and hash equal the returned ones")
			vAssert(c15xPreEq(g.AMP.Preimage, h.AMP.Preimage),
				"read back: AMP HTLC preimage equals the returned one")
		}
	}

	vAssert(len(got.AMPState) == len(ret.AMPState), "read back: same AMP sub-invoices as returned")
	for sid, rs := range ret.AMPState {
		gs, ok := got.AMPState[sid]
		vAssert(ok, "read back: every returned AMP sub-invoice is stored")
		if !ok {
			continue
		}
		vAssert(gs.State == rs.State, "read back: AMP sub-invoice state equals the returned one")
		vAssert(gs.AmtPaid == rs.AmtPaid, "read back: AMP sub-invoice amount paid equals the returned one")
		if ampIdx {
			vAssert(gs.SettleIndex == rs.SettleIndex, "read back: AMP sub-invoice settle index equals the returned one")
			vAssert(gs.SettleDate.Equal(rs.SettleDate), "read back: AMP sub-invoice settle date equals the returned one")
		}
		vAssert(len(gs.InvoiceKeys) == len(rs.InvoiceKeys), "read back: AMP sub-invoice has the returned circuit keys")
		for k := range rs.InvoiceKeys {
			_, ok := gs.InvoiceKeys[k]
			vAssert(ok, "read back: AMP sub-invoice has the returned circuit keys")
		}
	}
}

// rows: the raw table content against the returned invoice, with the harness's
// own statement of the column formats. before = tables before the step.
func (w *c15xWorld) checkRows(ret *Invoice, before c15xSnap, full bool) {
	f := w.f

	// the invoices row
	n := 0
	for _, r := range f.inv {
		if r.ID != w.id1 {
			continue
		}
		n++
		vAssert(r.State == int16(ret.State), "row: invoices.state is the returned state")
		vAssert(uint64(r.AmountPaidMsat) == uint64(ret.AmtPaid), "row: invoices.amount_paid_msat is the returned amount")
		if ret.State == ContractSettled {
			vAssert(r.SettleIndex.Valid && uint64(r.SettleIndex.Int64) == ret.SettleIndex,
				"row: a settled invoice has the returned settle index")
			vAssert(r.Preimage != nil, "row: a settled invoice stores its preimage")
		} else {
			vAssert(!r.SettleIndex.Valid && !r.SettledAt.Valid, "row: no settle index before settlement")
		}
	}
	vAssert(n == 1, "row: exactly one invoices row for the invoice")

	// one invoice_htlcs row per returned HTLC, carrying the returned data
	for k, h := range ret.Htlcs {
		m := 0
		for _, r := range f.htlc {
			if r.ChanID != c15xChanText(k) || uint64(r.HtlcID) != k.HtlcID {
				continue
			}
			m++
			vAssert(r.InvoiceID == w.id1, "row: HTLC row belongs to the invoice")
			vAssert(r.State == int16(h.State), "row: HTLC state is the returned state (canceled/settled in memory = canceled/settled in the table)")
			vAssert(uint64(r.AmountMsat) == uint64(h.Amt), "row: HTLC amount is the returned amount")
			vAssert(r.ResolveTime.Valid == (h.State != HtlcStateAccepted),
				"row: resolve_time set iff the HTLC is resolved")
			if r.ResolveTime.Valid {
				vAssert(r.ResolveTime.Time.Equal(h.ResolveTime), "row: resolve_time is the returned resolve time")
			}
			if h.AMP != nil {
				a := 0
				for _, ar := range f.ampH {
					if ar.HtlcID != r.ID {
						continue
					}
					a++
					sid := h.AMP.Record.SetID()
					vAssert(ar.InvoiceID == w.id1 && string(ar.SetID) == string(sid[:]),
						"row: AMP HTLC row belongs to the invoice and set")
					vAssert((ar.Preimage != nil) == (h.AMP.Preimage != nil), "row: AMP preimage stored iff returned")
					if ar.Preimage != nil && h.AMP.Preimage != nil {
						vAssert(string(ar.Preimage) == string(h.AMP.Preimage[:]), "row: AMP preimage is the returned one")
					}
				}
				vAssert(a == 1, "row: exactly one amp_sub_invoice_htlcs row per AMP HTLC")
			}
		}
		vAssert(m == 1, "row: exactly one invoice_htlcs row per returned HTLC")
	}
	if full {
		m := 0
		for _, r := range f.htlc {
			if r.InvoiceID == w.id1 {
				m++
			}
		}
		vAssert(m == len(ret.Htlcs), "row: no HTLC row of the invoice is missing from the returned invoice")
	}

	// AMP sub-invoice rows
	for sid, s := range ret.AMPState {
		m := 0
		for _, r := range f.sub {
			if string(r.SetID) != string(sid[:]) {
				continue
			}
			m++
			vAssert(r.InvoiceID == w.id1, "row: AMP sub-invoice belongs to the invoice")
			vAssert(r.State == int16(s.State), "row: AMP sub-invoice state is the returned state")
			vAssert(r.SettleIndex.Valid == (s.State == HtlcStateSettled), "row: AMP settle index set iff settled")
			if r.SettleIndex.Valid && (w.strictAmpIdx || !w.resettled) {
				vAssert(uint64(r.SettleIndex.Int64) == s.SettleIndex, "row: AMP settle index is the returned one")
			}
		}
		vAssert(m == 1, "row: exactly one amp_sub_invoices row per returned sub-invoice")
	}

	// frame: rows that existed before and are not HTLCs of the returned invoice
	// are untouched (other invoice, HTLC sets that were not fetched)
	for i, b := range before.htlc {
		in := false
		for k := range ret.Htlcs {
			if b.ChanID == c15xChanText(k) && uint64(b.HtlcID) == k.HtlcID {
				in = true
			}
		}
		if in {
			continue
		}
		r := f.htlc[i]
		vAssert(r.ID == b.ID && r.State == b.State && r.ResolveTime.Valid == b.ResolveTime.Valid &&
			r.AmountMsat == b.AmountMsat && r.InvoiceID == b.InvoiceID,
			"frame: HTLC rows outside the returned invoice are untouched")
	}
	for i, b := range before.inv {
		if b.ID == w.id1 {
			continue
		}
		r := f.inv[i]
		vAssert(r.ID == b.ID && r.State == b.State && r.AmountPaidMsat == b.AmountPaidMsat &&
			r.SettleIndex.Valid == b.SettleIndex.Valid, "frame: the other invoice's row is untouched")
	}
	for i, b := range before.sub {
		if _, ok := ret.AMPState[c15xArr32(b.SetID)]; ok {
			continue
		}
		r := f.sub[i]
		vAssert(r.State == b.State && r.SettleIndex.Valid == b.SettleIndex.Valid,
			"frame: AMP sub-invoices outside the returned invoice are untouched")
	}

	// every UPDATE statement of the step changed exactly one row
	for _, u := range f.upd {
		vAssert(u.matched == 1, "every UPDATE of a successful step changed exactly one row")
	}
}

func (w *c15xWorld) unchanged(before c15xSnap) {
	f := w.f
	vAssert(len(f.htlc) == len(before.htlc) && len(f.sub) == len(before.sub) &&
		len(f.ampH) == len(before.ampH) && f.seq == before.seq && len(f.events) == len(before.events),
		"refused step: nothing inserted")
	for i, b := range before.htlc {
		vAssert(f.htlc[i].State == b.State, "refused step: HTLC rows unchanged")
	}
	for i, b := range before.inv {
		vAssert(f.inv[i].State == b.State && f.inv[i].AmountPaidMsat == b.AmountPaidMsat,
			"refused step: invoice rows unchanged")
	}
}

// after runs the oracle for one UpdateInvoice call.
func (w *c15xWorld) after(ref InvoiceRef, ret *Invoice, err error, before c15xSnap, full bool) bool {
	if err != nil {
		vAssert(ret == nil || err == ErrInvoiceAlreadySettled, "refused step returns no invoice")
		w.unchanged(before)
		return false
	}
	vAssert(ret != nil, "successful step returns the invoice")
	if ret == nil {
		return false
	}
	got, lerr := w.store.LookupInvoice(w.ctx, ref)
	vAssert(lerr == nil, "the stored invoice can be read back")
	if lerr != nil {
		return false
	}
	// did the step write the settled state of a set twice, or onto a set that
	// was settled before?
	w.resettled = false
	for i, u := range w.f.upd {
		if u.kind != c15xUpdAmpState || u.state != int16(HtlcStateSettled) {
			continue
		}
		for j, o := range w.f.upd {
			if j < i && o.kind == c15xUpdAmpState && o.state == int16(HtlcStateSettled) &&
				string(o.setID) == string(u.setID) {

				w.resettled = true
			}
		}
		for _, b := range before.sub {
			if b.State == int16(HtlcStateSettled) && string(b.SetID) == string(u.setID) {
				w.resettled = true
			}
		}
	}
	c15xCompare(ret, &got, w.strictAmpIdx || !w.resettled)
	w.checkRows(ret, before, full)
	if w.resettled {
		vReach("amp-settled-state-written-again")
	}

	return true
}

// ---------------------------------------------------------------------------
// steps on a non-AMP invoice
// ---------------------------------------------------------------------------

func (w *c15xWorld) newKey() CircuitKey {
	k := CircuitKey{
		ChanID: lnwire.NewShortChanIDFromInt(vU64("chan")),
		HtlcID: vU64("htlc"),
	}
	// invoice_htlcs.htlc_id is BIGINT; HTLC ids are per-channel counters
	vAssume(k.HtlcID <= math.MaxInt64)

	return k
}

func (w *c15xWorld) knows(k CircuitKey) bool {
	for _, o := range w.keys {
		if o == k {
			return true
		}
	}
	return false
}

const (
	c15xOpAdd = iota
	c15xOpAddComplete
	c15xOpCancelHtlc
	c15xOpSettleHodl
	c15xOpCancelInvoice
	c15xNumOps
)

func (w *c15xWorld) step() {
	op := vChoice("op", c15xNumOps)
	ref := InvoiceRefByHash(w.hash1)
	before := w.f.snapshot()
	w.f.upd = nil

	var (
		desc  *InvoiceUpdateDesc
		key   CircuitKey
		added bool
	)
	switch op {
	case c15xOpAdd, c15xOpAddComplete:
		key = w.newKey()
		added = true
		desc = &InvoiceUpdateDesc{
			UpdateType: AddHTLCsUpdate,
			AddHtlcs: map[CircuitKey]*HtlcAcceptDesc{key: {
				AcceptHeight:  vI32("height"),
				Amt:           lnwire.MilliSatoshi(vU64("amt")),
				MppTotalAmt:   lnwire.MilliSatoshi(vU64("mppTotal")),
				Expiry:        vU32("expiry"),
				CustomRecords: make(record.CustomSet),
			}},
		}

	case c15xOpCancelHtlc:
		// MPP set timeout: cancel one HTLC recorded earlier, or an unknown one
		j := vChoice("which", len(w.keys)+1)
		if j < len(w.keys) {
			key = w.keys[j]
		} else {
			key = w.newKey()
		}
		desc = &InvoiceUpdateDesc{
			UpdateType:  CancelHTLCsUpdate,
			CancelHtlcs: map[CircuitKey]struct{}{key: {}},
		}

	case c15xOpSettleHodl:
		p := w.pre1
		if vChoice("wrongPreimage", 2) == 1 {
			p = lntypes.Preimage{0x99}
		}
		desc = &InvoiceUpdateDesc{
			UpdateType: SettleHodlInvoiceUpdate,
			State:      &InvoiceStateUpdateDesc{NewState: ContractSettled, Preimage: &p},
		}

	case c15xOpCancelInvoice:
		desc = &InvoiceUpdateDesc{
			UpdateType: CancelInvoiceUpdate,
			State:      &InvoiceStateUpdateDesc{NewState: ContractCanceled},
		}
	}

	var (
		stateBefore ContractState
		applied     bool
	)
	cb := func(inv *Invoice) (*InvoiceUpdateDesc, error) {
		stateBefore = inv.State
		switch op {
		case c15xOpAdd:
			// updateMpp / updateLegacy never add to a canceled invoice
			if inv.State == ContractCanceled {
				return nil, nil
			}

		case c15xOpAddComplete:
			// updateMpp / updateLegacy: never add to a canceled invoice;
			// a duplicate payment to an accepted / settled invoice is
			// recorded without a state change; a hold invoice is accepted,
			// any other one settled with the preimage it stores
			if inv.State == ContractCanceled {
				return nil, nil
			}
			if inv.State != ContractOpen {
				break
			}
			if inv.HodlInvoice {
				desc.State = &InvoiceStateUpdateDesc{NewState: ContractAccepted}
			} else {
				desc.State = &InvoiceStateUpdateDesc{
					NewState: ContractSettled,
					Preimage: inv.Terms.PaymentPreimage,
				}
			}

		case c15xOpCancelHtlc:
			// cancelSingleHtlc: nothing to do unless the invoice is open
			// and the HTLC still accepted
			if inv.State != ContractOpen {
				return nil, nil
			}
			h, ok := inv.Htlcs[key]
			if !ok {
				return nil, errC15xUnused
			}
			if h.State != HtlcStateAccepted {
				return nil, nil
			}
		}
		applied = true
		return desc, nil
	}

	ret, err := w.store.UpdateInvoice(w.ctx, ref, nil, cb)
	if op == c15xOpAdd && applied && stateBefore == ContractOpen && !w.knows(key) && key != w.other {
		vAssert(err == nil, "the store records a new HTLC (fresh circuit key) on an open invoice")
	}
	if !w.after(ref, ret, err, before, true) {
		vReach("refused")
		if added && key == w.other {
			vReach("refused-circuit-key-of-other-invoice")
		}
		return
	}

	if !applied {
		vAssert(len(w.f.upd) == 0 && len(w.f.htlc) == len(before.htlc), "no update descriptor: nothing written")
		vReach("no-update")
		return
	}

	h, recorded := ret.Htlcs[key]
	switch op {
	case c15xOpAdd, c15xOpAddComplete:
		vAssert(recorded, "an added HTLC is part of the returned invoice")
		if !recorded {
			return
		}
		w.keys = append(w.keys, key)
		switch {
		case op == c15xOpAdd && ret.State == ContractOpen:
			vReach("add-partial")
			if w.canceledOne {
				vReach("timeout-cancel-then-new-shard")
			}
		case op == c15xOpAdd && stateBefore == ContractSettled && h.State == HtlcStateSettled:
			vReach("add-duplicate-to-settled")
		case op == c15xOpAdd && stateBefore == ContractAccepted:
			vReach("add-duplicate-to-accepted")
		case op == c15xOpAddComplete && ret.State == ContractSettled:
			vReach("add-settle")
			if len(ret.Htlcs) >= 2 {
				vReach("add-settle-set")
			}
		case op == c15xOpAddComplete && ret.State == ContractAccepted:
			vReach("add-accept-hold")
		}

	case c15xOpCancelHtlc:
		vAssert(recorded && h.State == HtlcStateCanceled, "a canceled HTLC is returned as canceled")
		vReach("cancel-htlc")
		w.canceledOne = true

	case c15xOpSettleHodl:
		vReach("settle-hodl")

	case c15xOpCancelInvoice:
		vReach("cancel-invoice")
		if len(ret.Htlcs) > 0 {
			vReach("cancel-invoice-with-htlcs")
		}
	}
}

func c15xStepEntry(steps int) {
	w := c15xNewWorld(false, steps)
	for i := 0; i < steps; i++ {
		w.step()
	}
}

// VerifC15xStep2 / VerifC15xStep3: histories of 2 / 3 UpdateInvoice steps.
func VerifC15xStep2() { c15xStepEntry(2) }
func VerifC15xStep3() { c15xStepEntry(3) }

// ---------------------------------------------------------------------------
// steps on an AMP invoice
// ---------------------------------------------------------------------------

const (
	c15xAmpAdd = iota
	c15xAmpAddComplete
	c15xAmpCancelHtlc
	c15xAmpCancelInvoice
	c15xAmpCancelSet
	c15xAmpNumOps
)

// setID: any set id out of 256 (one symbolic byte), never the blank one.
func c15xSetID() [32]byte {
	var s [32]byte
	s[0] = vU8("set")
	s[31] = 0x5e
	return s
}

func (w *c15xWorld) ampStep() {
	op := vChoice("op", c15xAmpNumOps)
	before := w.f.snapshot()
	w.f.upd = nil

	var (
		desc  *InvoiceUpdateDesc
		key   CircuitKey
		sid   [32]byte
		share [32]byte
		ref   InvoiceRef
		hint  *SetID
		full  bool
	)
	switch op {
	case c15xAmpAdd, c15xAmpAddComplete, c15xAmpCancelSet:
		// an HTLC with MPP + AMP records arrives: ctx.invoiceRef() is by
		// payment address, the set id is the hint
		key = w.newKey()
		sid = c15xSetID()
		share[0] = byte(0x40 + len(w.keys))
		share[1] = 0x77
		ref = InvoiceRefByAddr(w.addr1)
		hint = (*SetID)(&sid)
		sharePre := lntypes.Preimage(share)
		desc = &InvoiceUpdateDesc{
			UpdateType: AddHTLCsUpdate,
			AddHtlcs: map[CircuitKey]*HtlcAcceptDesc{key: {
				AcceptHeight:  vI32("height"),
				Amt:           lnwire.MilliSatoshi(vU64("amt")),
				MppTotalAmt:   lnwire.MilliSatoshi(vU64("mppTotal")),
				Expiry:        vU32("expiry"),
				CustomRecords: make(record.CustomSet),
				AMP: &InvoiceHtlcAMPData{
					Record: *record.NewAMP(share, sid, vU32("child")),
					Hash:   sharePre.Hash(),
				},
			}},
		}

	case c15xAmpCancelHtlc:
		// AMP set timeout: the reference is InvoiceRefBySetID(set id)
		j := vChoice("which", len(w.keys)+1)
		if j < len(w.keys) {
			key, sid = w.keys[j], w.sets[j]
		} else {
			key, sid = w.newKey(), c15xSetID()
		}
		ref = InvoiceRefBySetID(sid)
		hint = (*SetID)(&sid)
		desc = &InvoiceUpdateDesc{
			UpdateType:  CancelHTLCsUpdate,
			CancelHtlcs: map[CircuitKey]struct{}{key: {}},
			SetID:       hint,
		}

	case c15xAmpCancelInvoice:
		ref = InvoiceRefByHash(w.hash1)
		full = true
		desc = &InvoiceUpdateDesc{
			UpdateType: CancelInvoiceUpdate,
			State:      &InvoiceStateUpdateDesc{NewState: ContractCanceled},
		}
	}

	var (
		stateBefore ContractState
		applied     bool
		settled     int
	)
	cb := func(inv *Invoice) (*InvoiceUpdateDesc, error) {
		stateBefore = inv.State
		switch op {
		case c15xAmpAdd, c15xAmpAddComplete, c15xAmpCancelSet:
			// updateMpp only accepts payments to open invoices
			if inv.State != ContractOpen {
				return nil, nil
			}
		}
		switch op {
		case c15xAmpAddComplete:
			// the set is complete: the preimages of the accepted HTLCs of
			// the set and of the new one (harness convention: the preimage
			// of an HTLC is its share, its hash the hash of that)
			pre := map[CircuitKey]lntypes.Preimage{key: lntypes.Preimage(share)}
			for k, h := range inv.HTLCSet(&sid, HtlcStateAccepted) {
				pre[k] = lntypes.Preimage(h.AMP.Record.RootShare())
			}
			settled = len(pre)
			desc.State = &InvoiceStateUpdateDesc{
				NewState:      ContractSettled,
				HTLCPreimages: pre,
				SetID:         &sid,
			}

		case c15xAmpCancelSet:
			// reconstructAMPPreimages failed: the invoice is canceled
			desc.UpdateType = CancelInvoiceUpdate
			desc.State = &InvoiceStateUpdateDesc{NewState: ContractCanceled, SetID: &sid}

		case c15xAmpCancelHtlc:
			if inv.State != ContractOpen {
				return nil, nil
			}
			h, ok := inv.Htlcs[key]
			if !ok {
				return nil, errC15xUnused
			}
			if h.State != HtlcStateAccepted {
				return nil, nil
			}
		}
		applied = true
		return desc, nil
	}

	ret, err := w.store.UpdateInvoice(w.ctx, ref, hint, cb)
	if op == c15xAmpAdd && applied && stateBefore == ContractOpen && !w.knows(key) && key != w.other {
		// (a set that already holds a settled HTLC refuses further HTLCs in
		// the update logic itself: ErrHTLCAlreadySettled, see C15 NOTES)
		freshSet := true
		for _, o := range w.sets {
			if o == sid {
				freshSet = false
			}
		}
		if freshSet {
			vAssert(err == nil, "the store records a new HTLC (fresh circuit key) on an open invoice")
		}
	}

	// read back through the same reference and the modifier UpdateInvoice used
	rref := ref
	if hint != nil {
		s := sid
		rref.setID = &s
		rref.refModifier = HtlcSetOnlyModifier
	}
	if !w.after(rref, ret, err, before, full) {
		vReach("refused")
		return
	}
	if !applied {
		vAssert(len(w.f.upd) == 0 && len(w.f.htlc) == len(before.htlc), "no update descriptor: nothing written")
		vReach("no-update")
		return
	}

	h, recorded := ret.Htlcs[key]
	switch op {
	case c15xAmpAdd, c15xAmpAddComplete:
		vAssert(recorded, "an added HTLC is part of the returned invoice")
		if !recorded {
			return
		}
		w.keys = append(w.keys, key)
		w.sets = append(w.sets, sid)
		if op == c15xAmpAdd {
			vReach("amp-add-partial")
			if len(ret.Htlcs) >= 2 {
				vReach("amp-add-partial-to-set")
			}
			if w.canceledOne {
				vReach("amp-timeout-cancel-then-new-shard")
			}
		} else {
			vAssert(h.State == HtlcStateSettled && ret.AMPState[sid].State == HtlcStateSettled,
				"a completed AMP set is returned settled")
			vReach("amp-settle")
			if settled >= 2 {
				vReach("amp-settle-set")
			}
		}

	case c15xAmpCancelHtlc:
		vAssert(recorded && h.State == HtlcStateCanceled, "a canceled HTLC is returned as canceled")
		vReach("amp-cancel-htlc")
		w.canceledOne = true

	case c15xAmpCancelInvoice:
		vReach("amp-cancel-invoice")
		if len(ret.Htlcs) > 0 {
			vReach("amp-cancel-invoice-with-htlcs")
		}

	case c15xAmpCancelSet:
		vReach("amp-cancel-set")
	}
}

func c15xAmpEntry(steps int, strict bool) {
	w := c15xNewWorld(true, steps)
	w.strictAmpIdx = strict
	for i := 0; i < steps; i++ {
		w.ampStep()
	}
}

// VerifC15xAmp2 / VerifC15xAmp3: histories of 2 / 3 UpdateInvoice steps on an AMP invoice.
func VerifC15xAmp2() { c15xAmpEntry(2, false) }
func VerifC15xAmp3() { c15xAmpEntry(3, false) }

// VerifC15xAmpSettleIndex: the same two-step histories with the settle index /
// settle date of the AMP sub-invoice compared in every case. Reports the
// CANDIDATE FINDING of NOTES.md on the unchanged tree (shards pin the history
// "one HTLC of a set recorded, the second one completes the set").
func VerifC15xAmpSettleIndex() { c15xAmpEntry(2, true) }
