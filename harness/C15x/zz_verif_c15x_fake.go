package invoices

// C15x — in-memory fake of the sqlc query layer behind SQLInvoiceQueries /
// BatchedSQLInvoiceQueries (interfaces lnd already has). Harness code.
//
// Every method implements the SQL statement of the same name in
// /repo/sqldb/sqlc/queries/invoices.sql and amp_invoices.sql over slices that
// hold the rows of the tables of migrations 000001_invoices / 000002_amp_invoices
// (columns = the sqlc row structs). Constraints that matter for the unit are
// enforced: invoice_htlcs UNIQUE(chan_id, htlc_id) and its foreign key to
// invoices, amp_sub_invoices PRIMARY KEY(set_id) / UNIQUE(set_id, invoice_id),
// the foreign keys of amp_sub_invoice_htlcs. An UPDATE ... WHERE that matches
// no row does nothing and reports 0 rows (or nothing at all for :exec
// queries), exactly like the database. ExecTx is a transaction: the body runs
// on the tables and an error restores the snapshot taken before.
//
// Besides the tables the fake keeps a log of the UPDATE statements executed
// (table, number of rows matched) for the oracle "every update of a successful
// step changed exactly one row". The log is not visible to lnd.

import (
	"bytes"
	"context"
	"database/sql"

	"github.com/lightningnetwork/lnd/sqldb"
	"github.com/lightningnetwork/lnd/sqldb/sqlc"
)

// c15xErr: errors of the fake. Constants of a string type, not package-level
// variables: the engine runs package initialisers lazily and best-effort and
// was seen to leave harness globals nil (see NOTES.md).
type c15xErr string

func (e c15xErr) Error() string { return string(e) }

const (
	errC15xUnique = c15xErr("c15x fake sql: UNIQUE constraint failed")
	errC15xFK     = c15xErr("c15x fake sql: FOREIGN KEY constraint failed")
	errC15xUnused = c15xErr("c15x fake sql: query not part of the unit")
)

type c15xResult int64

func (r c15xResult) LastInsertId() (int64, error) { return 0, nil }
func (r c15xResult) RowsAffected() (int64, error) { return int64(r), nil }

// kinds of UPDATE statements in the log
const (
	c15xUpdInvState = iota
	c15xUpdInvAmt
	c15xUpdHtlc
	c15xUpdAmpState
	c15xUpdAmpPreimage
)

type c15xUpd struct {
	kind    int
	matched int
	state   int16  // c15xUpdAmpState: the state written
	setID   []byte // c15xUpdAmpState: the set
}

// invoice_events rows (kind: 0 created, 1 canceled, 2 settled; amp: sub-invoice event)
type c15xEvent struct {
	kind      int
	amp       bool
	invoiceID int64
	setID     []byte
}

type c15xSQL struct {
	inv    []sqlc.Invoice
	feat   []sqlc.InvoiceFeature
	htlc   []sqlc.InvoiceHtlc
	sub    []sqlc.AmpSubInvoice
	ampH   []sqlc.AmpSubInvoiceHtlc
	seq    int64 // invoice_sequences('settle_index').current_value
	nextID int64 // autoincrement of invoice_htlcs.id
	events []c15xEvent

	upd []c15xUpd // oracle only
}

type c15xSnap struct {
	inv    []sqlc.Invoice
	htlc   []sqlc.InvoiceHtlc
	sub    []sqlc.AmpSubInvoice
	ampH   []sqlc.AmpSubInvoiceHtlc
	seq    int64
	nextID int64
	events []c15xEvent
}

func (f *c15xSQL) snapshot() c15xSnap {
	return c15xSnap{
		inv:    append([]sqlc.Invoice(nil), f.inv...),
		htlc:   append([]sqlc.InvoiceHtlc(nil), f.htlc...),
		sub:    append([]sqlc.AmpSubInvoice(nil), f.sub...),
		ampH:   append([]sqlc.AmpSubInvoiceHtlc(nil), f.ampH...),
		seq:    f.seq,
		nextID: f.nextID,
		events: append([]c15xEvent(nil), f.events...),
	}
}

func (f *c15xSQL) restore(s c15xSnap) {
	f.inv, f.htlc, f.sub, f.ampH = s.inv, s.htlc, s.sub, s.ampH
	f.seq, f.nextID, f.events = s.seq, s.nextID, s.events
}

// ExecTx runs the body as one transaction (rollback on error).
func (f *c15xSQL) ExecTx(_ context.Context, _ sqldb.TxOptions,
	body func(SQLInvoiceQueries) error, reset func()) error {

	snap := f.snapshot()
	reset()
	if err := body(f); err != nil {
		f.restore(snap)
		return err
	}

	return nil
}

// ---------------------------------------------------------------------------
// SELECTs
// ---------------------------------------------------------------------------

func (f *c15xSQL) GetInvoiceByHash(_ context.Context, hash []byte) (sqlc.Invoice, error) {
	for _, r := range f.inv {
		if bytes.Equal(r.Hash, hash) {
			return r, nil
		}
	}
	return sqlc.Invoice{}, sql.ErrNoRows
}

func (f *c15xSQL) GetInvoiceByAddr(_ context.Context, addr []byte) (sqlc.Invoice, error) {
	for _, r := range f.inv {
		if r.PaymentAddr != nil && bytes.Equal(r.PaymentAddr, addr) {
			return r, nil
		}
	}
	return sqlc.Invoice{}, sql.ErrNoRows
}

func (f *c15xSQL) GetInvoiceBySetID(_ context.Context, setID []byte) ([]sqlc.Invoice, error) {
	var out []sqlc.Invoice
	for _, r := range f.inv {
		for _, a := range f.sub {
			if a.InvoiceID == r.ID && bytes.Equal(a.SetID, setID) {
				out = append(out, r)
			}
		}
	}
	return out, nil
}

func (f *c15xSQL) GetInvoiceFeatures(_ context.Context, id int64) ([]sqlc.InvoiceFeature, error) {
	var out []sqlc.InvoiceFeature
	for _, r := range f.feat {
		if r.InvoiceID == id {
			out = append(out, r)
		}
	}
	return out, nil
}

func (f *c15xSQL) GetInvoiceHTLCs(_ context.Context, id int64) ([]sqlc.InvoiceHtlc, error) {
	var out []sqlc.InvoiceHtlc
	for _, r := range f.htlc {
		if r.InvoiceID == id {
			out = append(out, r)
		}
	}
	return out, nil
}

// no custom records are inserted by the harness (HTLCs carry an empty set)
func (f *c15xSQL) GetInvoiceHTLCCustomRecords(context.Context, int64) (
	[]sqlc.GetInvoiceHTLCCustomRecordsRow, error) {

	return nil, nil
}

func (f *c15xSQL) FetchAMPSubInvoices(_ context.Context,
	arg sqlc.FetchAMPSubInvoicesParams) ([]sqlc.AmpSubInvoice, error) {

	var out []sqlc.AmpSubInvoice
	for _, r := range f.sub {
		if r.InvoiceID != arg.InvoiceID {
			continue
		}
		if arg.SetID == nil || bytes.Equal(r.SetID, arg.SetID) {
			out = append(out, r)
		}
	}
	return out, nil
}

func (f *c15xSQL) FetchAMPSubInvoiceHTLCs(_ context.Context,
	arg sqlc.FetchAMPSubInvoiceHTLCsParams) ([]sqlc.FetchAMPSubInvoiceHTLCsRow, error) {

	var out []sqlc.FetchAMPSubInvoiceHTLCsRow
	for _, a := range f.ampH {
		if a.InvoiceID != arg.InvoiceID {
			continue
		}
		if arg.SetID != nil && !bytes.Equal(a.SetID, arg.SetID) {
			continue
		}
		for _, h := range f.htlc {
			if h.ID != a.HtlcID {
				continue
			}
			out = append(out, sqlc.FetchAMPSubInvoiceHTLCsRow{
				SetID: a.SetID, RootShare: a.RootShare, ChildIndex: a.ChildIndex,
				Hash: a.Hash, Preimage: a.Preimage,
				ID: h.ID, ChanID: h.ChanID, HtlcID: h.HtlcID, AmountMsat: h.AmountMsat,
				TotalMppMsat: h.TotalMppMsat, AcceptHeight: h.AcceptHeight,
				AcceptTime: h.AcceptTime, ExpiryHeight: h.ExpiryHeight, State: h.State,
				ResolveTime: h.ResolveTime, InvoiceID: h.InvoiceID,
			})
		}
	}
	return out, nil
}

// ---------------------------------------------------------------------------
// INSERTs
// ---------------------------------------------------------------------------

func (f *c15xSQL) hasInvoice(id int64) bool {
	for _, r := range f.inv {
		if r.ID == id {
			return true
		}
	}
	return false
}

func (f *c15xSQL) InsertInvoiceHTLC(_ context.Context,
	arg sqlc.InsertInvoiceHTLCParams) (int64, error) {

	if !f.hasInvoice(arg.InvoiceID) {
		return 0, errC15xFK
	}
	for _, r := range f.htlc {
		if r.HtlcID == arg.HtlcID && r.ChanID == arg.ChanID {
			return 0, errC15xUnique
		}
	}
	f.nextID++
	f.htlc = append(f.htlc, sqlc.InvoiceHtlc{
		ID: f.nextID, ChanID: arg.ChanID, HtlcID: arg.HtlcID, AmountMsat: arg.AmountMsat,
		TotalMppMsat: arg.TotalMppMsat, AcceptHeight: arg.AcceptHeight,
		AcceptTime: arg.AcceptTime, ExpiryHeight: arg.ExpiryHeight, State: arg.State,
		ResolveTime: arg.ResolveTime, InvoiceID: arg.InvoiceID,
	})
	return f.nextID, nil
}

func (f *c15xSQL) InsertInvoiceHTLCCustomRecord(context.Context,
	sqlc.InsertInvoiceHTLCCustomRecordParams) error {

	return errC15xUnused
}

func (f *c15xSQL) UpsertAMPSubInvoice(_ context.Context,
	arg sqlc.UpsertAMPSubInvoiceParams) (sql.Result, error) {

	if !f.hasInvoice(arg.InvoiceID) {
		return nil, errC15xFK
	}
	for _, r := range f.sub {
		if bytes.Equal(r.SetID, arg.SetID) {
			if r.InvoiceID == arg.InvoiceID {
				// ON CONFLICT (set_id, invoice_id) DO NOTHING
				return c15xResult(0), nil
			}
			// primary key set_id taken by another invoice
			return nil, &sqldb.ErrSQLUniqueConstraintViolation{DBError: errC15xUnique}
		}
	}
	f.sub = append(f.sub, sqlc.AmpSubInvoice{
		SetID: arg.SetID, State: arg.State, CreatedAt: arg.CreatedAt, InvoiceID: arg.InvoiceID,
	})
	return c15xResult(1), nil
}

func (f *c15xSQL) InsertAMPSubInvoiceHTLC(_ context.Context,
	arg sqlc.InsertAMPSubInvoiceHTLCParams) error {

	okSet, okHtlc := false, false
	for _, r := range f.sub {
		if bytes.Equal(r.SetID, arg.SetID) {
			okSet = true
		}
	}
	for _, r := range f.htlc {
		if r.ID == arg.HtlcID {
			okHtlc = true
		}
	}
	if !okSet || !okHtlc || !f.hasInvoice(arg.InvoiceID) {
		return errC15xFK
	}
	f.ampH = append(f.ampH, sqlc.AmpSubInvoiceHtlc{
		InvoiceID: arg.InvoiceID, SetID: arg.SetID, HtlcID: arg.HtlcID,
		RootShare: arg.RootShare, ChildIndex: arg.ChildIndex, Hash: arg.Hash,
		Preimage: arg.Preimage,
	})
	return nil
}

// ---------------------------------------------------------------------------
// UPDATEs
// ---------------------------------------------------------------------------

func (f *c15xSQL) logUpd(kind, matched int) {
	f.upd = append(f.upd, c15xUpd{kind: kind, matched: matched})
}

func (f *c15xSQL) UpdateInvoiceState(_ context.Context,
	arg sqlc.UpdateInvoiceStateParams) (sql.Result, error) {

	rows := append([]sqlc.Invoice(nil), f.inv...)
	n := 0
	for i := range rows {
		if rows[i].ID != arg.ID {
			continue
		}
		rows[i].State = arg.State
		if rows[i].Preimage == nil {
			rows[i].Preimage = arg.Preimage
		}
		if !rows[i].SettleIndex.Valid {
			rows[i].SettleIndex = arg.SettleIndex
		}
		if !rows[i].SettledAt.Valid {
			rows[i].SettledAt = arg.SettledAt
		}
		n++
	}
	f.inv = rows
	f.logUpd(c15xUpdInvState, n)
	return c15xResult(n), nil
}

func (f *c15xSQL) UpdateInvoiceAmountPaid(_ context.Context,
	arg sqlc.UpdateInvoiceAmountPaidParams) (sql.Result, error) {

	rows := append([]sqlc.Invoice(nil), f.inv...)
	n := 0
	for i := range rows {
		if rows[i].ID != arg.ID {
			continue
		}
		rows[i].AmountPaidMsat = arg.AmountPaidMsat
		n++
	}
	f.inv = rows
	f.logUpd(c15xUpdInvAmt, n)
	return c15xResult(n), nil
}

func (f *c15xSQL) NextInvoiceSettleIndex(context.Context) (int64, error) {
	f.seq++
	return f.seq, nil
}

func (f *c15xSQL) UpdateInvoiceHTLC(_ context.Context, arg sqlc.UpdateInvoiceHTLCParams) error {
	rows := append([]sqlc.InvoiceHtlc(nil), f.htlc...)
	n := 0
	for i := range rows {
		if rows[i].HtlcID != arg.HtlcID || rows[i].ChanID != arg.ChanID ||
			rows[i].InvoiceID != arg.InvoiceID {

			continue
		}
		rows[i].State = arg.State
		rows[i].ResolveTime = arg.ResolveTime
		n++
	}
	f.htlc = rows
	f.logUpd(c15xUpdHtlc, n)
	return nil
}

func (f *c15xSQL) UpdateAMPSubInvoiceState(_ context.Context,
	arg sqlc.UpdateAMPSubInvoiceStateParams) error {

	rows := append([]sqlc.AmpSubInvoice(nil), f.sub...)
	n := 0
	for i := range rows {
		if !bytes.Equal(rows[i].SetID, arg.SetID) {
			continue
		}
		rows[i].State = arg.State
		if !rows[i].SettleIndex.Valid {
			rows[i].SettleIndex = arg.SettleIndex
		}
		if !rows[i].SettledAt.Valid {
			rows[i].SettledAt = arg.SettledAt
		}
		n++
	}
	f.sub = rows
	f.upd = append(f.upd, c15xUpd{kind: c15xUpdAmpState, matched: n, state: arg.State, setID: arg.SetID})
	return nil
}

func (f *c15xSQL) UpdateAMPSubInvoiceHTLCPreimage(_ context.Context,
	arg sqlc.UpdateAMPSubInvoiceHTLCPreimageParams) (sql.Result, error) {

	// SELECT id FROM invoice_htlcs WHERE chan_id = $3 AND htlc_id = $4
	// (at most one row: UNIQUE(chan_id, htlc_id)); no row: NULL, matches nothing
	found, id := false, int64(0)
	for _, h := range f.htlc {
		if h.HtlcID == arg.HtlcID && h.ChanID == arg.ChanID {
			found, id = true, h.ID
		}
	}
	rows := append([]sqlc.AmpSubInvoiceHtlc(nil), f.ampH...)
	n := 0
	for i := range rows {
		if !found || rows[i].HtlcID != id || rows[i].InvoiceID != arg.InvoiceID ||
			!bytes.Equal(rows[i].SetID, arg.SetID) {

			continue
		}
		rows[i].Preimage = arg.Preimage
		n++
	}
	f.ampH = rows
	f.logUpd(c15xUpdAmpPreimage, n)
	return c15xResult(n), nil
}

// ---------------------------------------------------------------------------
// invoice_events
// ---------------------------------------------------------------------------

func (f *c15xSQL) OnInvoiceCreated(_ context.Context, a sqlc.OnInvoiceCreatedParams) error {
	f.events = append(f.events, c15xEvent{kind: 0, invoiceID: a.InvoiceID})
	return nil
}
func (f *c15xSQL) OnInvoiceCanceled(_ context.Context, a sqlc.OnInvoiceCanceledParams) error {
	f.events = append(f.events, c15xEvent{kind: 1, invoiceID: a.InvoiceID})
	return nil
}
func (f *c15xSQL) OnInvoiceSettled(_ context.Context, a sqlc.OnInvoiceSettledParams) error {
	f.events = append(f.events, c15xEvent{kind: 2, invoiceID: a.InvoiceID})
	return nil
}
func (f *c15xSQL) OnAMPSubInvoiceCreated(_ context.Context, a sqlc.OnAMPSubInvoiceCreatedParams) error {
	f.events = append(f.events, c15xEvent{kind: 0, amp: true, invoiceID: a.InvoiceID, setID: a.SetID})
	return nil
}
func (f *c15xSQL) OnAMPSubInvoiceCanceled(_ context.Context, a sqlc.OnAMPSubInvoiceCanceledParams) error {
	f.events = append(f.events, c15xEvent{kind: 1, amp: true, invoiceID: a.InvoiceID, setID: a.SetID})
	return nil
}
func (f *c15xSQL) OnAMPSubInvoiceSettled(_ context.Context, a sqlc.OnAMPSubInvoiceSettledParams) error {
	f.events = append(f.events, c15xEvent{kind: 2, amp: true, invoiceID: a.InvoiceID, setID: a.SetID})
	return nil
}

// ---------------------------------------------------------------------------
// queries outside the unit
// ---------------------------------------------------------------------------

func (f *c15xSQL) InsertInvoice(context.Context, sqlc.InsertInvoiceParams) (int64, error) {
	return 0, errC15xUnused
}
func (f *c15xSQL) InsertMigratedInvoice(context.Context, sqlc.InsertMigratedInvoiceParams) (int64, error) {
	return 0, errC15xUnused
}
func (f *c15xSQL) InsertInvoiceFeature(context.Context, sqlc.InsertInvoiceFeatureParams) error {
	return errC15xUnused
}
func (f *c15xSQL) FetchPendingInvoices(context.Context, sqlc.FetchPendingInvoicesParams) ([]sqlc.Invoice, error) {
	return nil, errC15xUnused
}
func (f *c15xSQL) FilterInvoicesBySettleIndex(context.Context, sqlc.FilterInvoicesBySettleIndexParams) ([]sqlc.Invoice, error) {
	return nil, errC15xUnused
}
func (f *c15xSQL) FilterInvoicesByAddIndex(context.Context, sqlc.FilterInvoicesByAddIndexParams) ([]sqlc.Invoice, error) {
	return nil, errC15xUnused
}
func (f *c15xSQL) FilterInvoicesForward(context.Context, sqlc.FilterInvoicesForwardParams) ([]sqlc.Invoice, error) {
	return nil, errC15xUnused
}
func (f *c15xSQL) FilterInvoicesReverse(context.Context, sqlc.FilterInvoicesReverseParams) ([]sqlc.Invoice, error) {
	return nil, errC15xUnused
}
func (f *c15xSQL) DeleteInvoice(context.Context, sqlc.DeleteInvoiceParams) (sql.Result, error) {
	return nil, errC15xUnused
}
func (f *c15xSQL) DeleteCanceledInvoices(context.Context) (sql.Result, error) {
	return nil, errC15xUnused
}
func (f *c15xSQL) InsertAMPSubInvoice(context.Context, sqlc.InsertAMPSubInvoiceParams) error {
	return errC15xUnused
}
func (f *c15xSQL) FetchSettledAMPSubInvoices(context.Context, sqlc.FetchSettledAMPSubInvoicesParams) ([]sqlc.FetchSettledAMPSubInvoicesRow, error) {
	return nil, errC15xUnused
}
func (f *c15xSQL) InsertKVInvoiceKeyAndAddIndex(context.Context, sqlc.InsertKVInvoiceKeyAndAddIndexParams) error {
	return errC15xUnused
}
func (f *c15xSQL) SetKVInvoicePaymentHash(context.Context, sqlc.SetKVInvoicePaymentHashParams) error {
	return errC15xUnused
}
func (f *c15xSQL) GetKVInvoicePaymentHashByAddIndex(context.Context, int64) ([]byte, error) {
	return nil, errC15xUnused
}
func (f *c15xSQL) ClearKVInvoiceHashIndex(context.Context) error { return errC15xUnused }

var _ BatchedSQLInvoiceQueries = (*c15xSQL)(nil)
