package htlcswitch

// Harness for C09, mechanism "Switch.handlePacketAdd picks a link only if its
// CheckHtlcForward returned nil": the link-selection part of the real
// (*Switch).handlePacketAdd with three parallel channels to the next peer.

import (
	"io"

	"github.com/lightningnetwork/lnd/fn/v2"
	"github.com/lightningnetwork/lnd/graph/db/models"
	"github.com/lightningnetwork/lnd/htlcswitch/hop"
	"github.com/lightningnetwork/lnd/lnwire"
)

type c09SelLink struct {
	*mockChannelLink
	verdict  *LinkError
	elig     bool
	peerKey  [33]byte
	received int
}

func (l *c09SelLink) CheckHtlcForward([32]byte, lnwire.MilliSatoshi, lnwire.MilliSatoshi, uint32, uint32,
	models.InboundFee, uint32, lnwire.ShortChannelID, lnwire.CustomRecords) *LinkError {

	return l.verdict
}
func (l *c09SelLink) EligibleToForward() bool { return l.elig }
func (l *c09SelLink) PeerPubKey() [33]byte    { return l.peerKey }
func (l *c09SelLink) handleSwitchPacket(p *htlcPacket) error {
	l.received++
	return nil
}

type c09Obf struct{}

func (c09Obf) EncryptFirstHop(lnwire.FailureMessage) (lnwire.OpaqueReason, error) {
	return lnwire.OpaqueReason{1}, nil
}
func (c09Obf) EncryptMalformedError(r lnwire.OpaqueReason) lnwire.OpaqueReason { return r }
func (c09Obf) IntermediateEncrypt(r lnwire.OpaqueReason) lnwire.OpaqueReason   { return r }
func (c09Obf) Type() hop.EncrypterType                                         { return hop.EncrypterTypeMock }
func (c09Obf) Encode(io.Writer) error                                          { return nil }
func (c09Obf) Decode(io.Reader) error                                          { return nil }
func (c09Obf) Reextract(hop.ErrorEncrypterExtracter) error                     { return nil }

// c09SelectOnce runs one forwarding decision. order permutes the insertion
// order of the three links into the switch's index maps (Go map iteration
// order is random natively; the engine iterates in insertion order).
func c09SelectOnce(order int, want int, elig [3]bool, accept [3]bool, amtOut uint64) (received [3]int, failed int) {
	var peer [33]byte
	peer[0] = 2
	peer[1] = 7
	s := &Switch{
		cfg: &Config{
			IsAlias:            func(lnwire.ShortChannelID) bool { return false },
			AllowCircularRoute: false,
			MaxFeeExposure:     lnwire.MilliSatoshi(500_000_000),
		},
		mailOrchestrator: newMailOrchestrator(&mailOrchConfig{}),
		linkIndex:        make(map[lnwire.ChannelID]ChannelLink),
		forwardingIndex:  make(map[lnwire.ShortChannelID]ChannelLink),
		interfaceIndex:   make(map[[33]byte]map[lnwire.ChannelID]ChannelLink),
		aliasToReal:      make(map[lnwire.ShortChannelID]lnwire.ShortChannelID),
		baseIndex:        make(map[lnwire.ShortChannelID]lnwire.ShortChannelID),
		bestHeight:       100,
	}
	var links [3]*c09SelLink
	for i := 0; i < 3; i++ {
		var cid lnwire.ChannelID
		cid[0] = byte(i + 1)
		l := &c09SelLink{
			mockChannelLink: &mockChannelLink{
				htlcSwitch:  s,
				chanID:      cid,
				shortChanID: lnwire.NewShortChanIDFromInt(uint64(i + 1)),
				eligible:    true,
			},
			elig:    elig[i],
			peerKey: peer,
		}
		if !accept[i] {
			l.verdict = NewLinkError(&lnwire.FailFeeInsufficient{})
		}
		links[i] = l
	}
	perms := [6][3]int{{0, 1, 2}, {0, 2, 1}, {1, 0, 2}, {1, 2, 0}, {2, 0, 1}, {2, 1, 0}}
	s.interfaceIndex[peer] = make(map[lnwire.ChannelID]ChannelLink)
	for _, i := range perms[order] {
		s.linkIndex[links[i].chanID] = links[i]
		s.forwardingIndex[links[i].shortChanID] = links[i]
		s.interfaceIndex[peer][links[i].chanID] = links[i]
	}
	// the incoming link (another peer)
	var inPeer [33]byte
	inPeer[0] = 3
	var inCid lnwire.ChannelID
	inCid[0] = 9
	inLink := &c09SelLink{
		mockChannelLink: &mockChannelLink{htlcSwitch: s, chanID: inCid, shortChanID: lnwire.NewShortChanIDFromInt(9), eligible: true},
		elig:            true, peerKey: inPeer,
	}
	s.linkIndex[inCid] = inLink
	s.forwardingIndex[inLink.shortChanID] = inLink
	s.interfaceIndex[inPeer] = map[lnwire.ChannelID]ChannelLink{inCid: inLink}

	htlc := &lnwire.UpdateAddHTLC{Amount: lnwire.MilliSatoshi(amtOut), Expiry: 500}
	pkt := &htlcPacket{
		incomingChanID:  inLink.shortChanID,
		incomingHTLCID:  1,
		outgoingChanID:  links[want].shortChanID,
		outgoingHop:     fn.NewLeft[lnwire.ShortChannelID, [33]byte](links[want].shortChanID),
		incomingAmount:  lnwire.MilliSatoshi(amtOut + 1000),
		amount:          lnwire.MilliSatoshi(amtOut),
		incomingTimeout: 600,
		outgoingTimeout: 500,
		obfuscator:      c09Obf{},
		htlc:            htlc,
	}
	err := s.handlePacketAdd(pkt, htlc)
	for i := range links {
		received[i] = links[i].received
	}
	failed = len(s.mailOrchestrator.unclaimedPackets[inLink.shortChanID])
	// handlePacketAdd returns the link failure as its error when it failed the HTLC back
	_, isLinkErr := err.(*LinkError)
	vAssert((err == nil && failed == 0) || (isLinkErr && failed == 1), "select: result is nil (forwarded) or the LinkError that was sent back")
	return received, failed
}

// VerifC09Select: an HTLC is handed to a link only if that link is eligible
// and its CheckHtlcForward returned nil; it is handed to exactly one link if
// such a link exists, and failed back (exactly one fail packet) otherwise.
func VerifC09Select() {
	order := vChoice("order", 6)
	want := vChoice("want", 3)
	var elig, accept [3]bool
	elig[0], elig[1], elig[2] = vBool("elig0"), vBool("elig1"), vBool("elig2")
	accept[0], accept[1], accept[2] = vBool("accept0"), vBool("accept1"), vBool("accept2")
	amt := vU64("amtOut")
	vAssume(amt >= 1_000_000 && amt <= 1_000_000_000) // non-dust, far below the fee-exposure threshold
	vAssumption("selection harness: three parallel mock links (real mockChannelLink with symbolic eligibility and CheckHtlcForward verdict), non-dust amount, circular routes disallowed, no aliases")
	rounds := 1
	if vNative() {
		rounds = 64 // Go map order and rand.Intn are random natively
	}
	for r := 0; r < rounds; r++ {
		got, failed := c09SelectOnce(order, want, elig, accept, amt)
		total := got[0] + got[1] + got[2]
		any := false
		for i := 0; i < 3; i++ {
			ok := elig[i] && accept[i]
			any = any || ok
			vAssert(got[i] == 0 || ok, "select: HTLC handed to a link that is not eligible or whose CheckHtlcForward rejected it")
		}
		vAssert(total <= 1, "select: HTLC handed to more than one link")
		if any {
			vReach("forwarded")
			vAssert(total == 1 && failed == 0, "select: an accepting link exists, so the HTLC is forwarded and not failed")
		} else {
			vReach("failed-back")
			vAssert(total == 0 && failed == 1, "select: no accepting link, so exactly one fail packet is sent back")
		}
	}
}
