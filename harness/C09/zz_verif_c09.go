package htlcswitch

// Harness for C09: forwarding policy decision of a channel link.
// Unit: (*channelLink).CheckHtlcForward / CheckHtlcTransit and everything they
// call (canSendHtlc, validateHtlcAmount, ExpectedFee, InboundFee.CalcFee,
// createFailureWithUpdate, failure constructors).

import (
	"errors"
	"math/big"

	"github.com/lightningnetwork/lnd/fn/v2"
	"github.com/lightningnetwork/lnd/graph/db/models"
	"github.com/lightningnetwork/lnd/lnwallet"
	"github.com/lightningnetwork/lnd/lnwire"
)

// c09K is the bandwidth of the fixed native test channel (see
// zz_verif_c09_setup_test.go); symbolically Bandwidth() is replaced by a
// function returning the same constant so that counterexamples replay.
const c09K = lnwire.MilliSatoshi(C09K_VALUE)

const c09MaxChan = 1_000_000_000_000 // 10 BTC in msat (funding.MaxBtcFundingAmountWumbo)

// vC09Chan is set by the native replay test to a real LightningChannel.
var vC09Chan *lnwallet.LightningChannel

var c09BW lnwire.MilliSatoshi

func vC09Bandwidth(l *channelLink) lnwire.MilliSatoshi { return c09BW }
func vC09Scid(l *channelLink) lnwire.ShortChannelID    { return lnwire.ShortChannelID{} }

const (
	c09Accept = iota
	c09FeeInsufficient
	c09BelowMin
	c09ExceedsMax
	c09TooSoon
	c09TooFar
	c09NoBandwidth
	c09IncorrectCltv
	c09NodeFailure
	c09Other
)

func c09Class(e *LinkError) int {
	if e == nil {
		return c09Accept
	}
	switch e.msg.(type) {
	case *lnwire.FailFeeInsufficient:
		return c09FeeInsufficient
	case *lnwire.FailAmountBelowMinimum:
		return c09BelowMin
	case *lnwire.FailTemporaryChannelFailure:
		if e.FailureDetail == OutgoingFailureHTLCExceedsMax {
			return c09ExceedsMax
		}
		if e.FailureDetail == OutgoingFailureInsufficientBalance {
			return c09NoBandwidth
		}
		return c09Other
	case *lnwire.FailExpiryTooSoon:
		return c09TooSoon
	case *lnwire.FailExpiryTooFar:
		return c09TooFar
	case *lnwire.FailIncorrectCltvExpiry:
		return c09IncorrectCltv
	case *lnwire.FailTemporaryNodeFailure:
		return c09NodeFailure
	}
	return c09Other
}

type c09In struct {
	pol                       models.ForwardingPolicy
	in, out                   lnwire.MilliSatoshi
	inTL, outTL, height       uint32
	rejectDelta, maxCltv      uint32
	inb                       models.InboundFee
	bw                        lnwire.MilliSatoshi
	updFails                  bool
}

// c09Rules evaluates every rule of the property in the plain formulas of
// BOLT-7/BOLT-4. Every arithmetic instruction here is under an overflow
// obligation (vOverflow), so on the stated domain the machine result is the
// mathematical one.
type c09Rules struct {
	feeOK, minOK, maxOK, soonOK, farOK, bwOK, gapOK, gapMaxOK bool
}

func c09Ref(x c09In) c09Rules { return c09RefX(x, true) }

// c09RefExact computes the inbound fee as rate*(a/1e6) + trunc(rate*(a%1e6)/1e6),
// which equals trunc(rate*a/1e6) in the integers (both summands have the sign
// of rate, so truncation commutes with the sum) and cannot wrap for
// |rate| <= 1e7 and a < 2^43.
func c09RefExact(x c09In) c09Rules { return c09RefX(x, true) }

func c09RefX(x c09In, split bool) c09Rules {
	var r c09Rules
	outFee := uint64(x.pol.BaseFee) + uint64(x.out)*uint64(x.pol.FeeRate)/1000000
	rate := int64(x.inb.Rate)
	if rate > 10_000_000 {
		rate = 10_000_000
	}
	if rate < -10_000_000 {
		rate = -10_000_000
	}
	a := int64(uint64(x.out) + outFee)
	// same formula as the definition; exact because every operation below is
	// under an overflow obligation (the unbounded-integer oracle c09RefBig runs
	// natively and confirms counterexamples that involve wrap-around).
	var inFee int64
	if split {
		inFee = int64(x.inb.Base) + rate*(a/1000000) + rate*(a%1000000)/1000000
	} else {
		inFee = int64(x.inb.Base) + rate*a/1000000
	}
	expected := inFee + int64(outFee)
	r.feeOK = x.in >= x.out && int64(x.in)-int64(x.out) >= expected
	r.minOK = x.out >= x.pol.MinHTLCOut
	r.maxOK = x.pol.MaxHTLC == 0 || x.out <= x.pol.MaxHTLC
	r.soonOK = uint64(x.outTL) > uint64(x.height)+uint64(x.rejectDelta)
	r.farOK = uint64(x.outTL) <= uint64(x.height)+uint64(x.maxCltv)
	r.bwOK = x.out <= x.bw
	r.gapOK = x.inTL >= x.outTL && uint64(x.inTL)-uint64(x.outTL) >= uint64(x.pol.TimeLockDelta)
	r.gapMaxOK = x.inTL < x.outTL || uint64(x.inTL)-uint64(x.outTL) <= uint64(x.maxCltv)
	return r
}

// c09RefBig is the same reference in unbounded integers; it only runs in
// native replay and confirms counterexamples that involve wrap-around.
func c09RefBig(x c09In) bool {
	B := func(v uint64) *big.Int { return new(big.Int).SetUint64(v) }
	I := func(v int64) *big.Int { return big.NewInt(v) }
	mil := I(1000000)
	outFee := new(big.Int).Add(B(uint64(x.pol.BaseFee)), new(big.Int).Quo(new(big.Int).Mul(B(uint64(x.out)), B(uint64(x.pol.FeeRate))), mil))
	rate := int64(x.inb.Rate)
	if rate > 10_000_000 {
		rate = 10_000_000
	}
	if rate < -10_000_000 {
		rate = -10_000_000
	}
	a := new(big.Int).Add(B(uint64(x.out)), outFee)
	inFee := new(big.Int).Add(I(int64(x.inb.Base)), new(big.Int).Quo(new(big.Int).Mul(I(rate), a), mil)) // Quo truncates
	expected := new(big.Int).Add(inFee, outFee)
	actual := new(big.Int).Sub(B(uint64(x.in)), B(uint64(x.out)))
	feeOK := x.in >= x.out && actual.Cmp(expected) >= 0
	sum := func(a, b uint32) uint64 { return uint64(a) + uint64(b) }
	return feeOK && x.out >= x.pol.MinHTLCOut && (x.pol.MaxHTLC == 0 || x.out <= x.pol.MaxHTLC) &&
		uint64(x.outTL) > sum(x.height, x.rejectDelta) && uint64(x.outTL) <= sum(x.height, x.maxCltv) &&
		x.out <= x.bw && x.inTL >= x.outTL && uint64(x.inTL-x.outTL) >= uint64(x.pol.TimeLockDelta) &&
		uint64(x.inTL-x.outTL) <= uint64(x.maxCltv)
}

func c09Inputs(inboundAny bool) c09In {
	var x c09In
	x.pol = models.ForwardingPolicy{
		MinHTLCOut:    lnwire.MilliSatoshi(vU64("minHTLC")),
		MaxHTLC:       lnwire.MilliSatoshi(vU64("maxHTLC")),
		BaseFee:       lnwire.MilliSatoshi(vU64("baseFee")),
		FeeRate:       lnwire.MilliSatoshi(vU64("feeRate")),
		TimeLockDelta: vU32("timeLockDelta"),
	}
	x.in = lnwire.MilliSatoshi(vU64("incomingAmt"))
	x.out = lnwire.MilliSatoshi(vU64("outgoingAmt"))
	x.inTL, x.outTL, x.height = vU32("incomingTimeout"), vU32("outgoingTimeout"), vU32("height")
	x.rejectDelta, x.maxCltv = vU32("outgoingCltvRejectDelta"), vU32("maxOutgoingCltvExpiry")
	x.inb = models.InboundFee{Base: vI32("inboundBase"), Rate: vI32("inboundRate")}
	x.updFails = vBool("fetchUpdateFails")
	// --- stated domain (property C09: "realistic domain") ---
	vAssume(x.in <= c09MaxChan && x.out <= c09MaxChan)   // amounts up to the maximum channel size
	vAssume(x.pol.BaseFee <= 0xffffffff)                 // base fee is a uint32 on the wire
	vAssume(x.pol.FeeRate <= 1_000_000)                  // proportional rate up to 100 %
	vAssume(x.height < 1<<31 && x.rejectDelta < 1<<31 && x.maxCltv < 1<<31) // block heights / configured deltas
	_ = inboundAny // inbound base and rate: any int32 (the code clamps the rate to +-1e7 ppm)
	return x
}

// c09RateRegion forks the path on the clamp region of the inbound rate, so
// that on each path the clamped rate is a plain term both in lnd's CalcFee and
// in the reference (the solver then compares like with like).
func c09RateRegion(rate int32) {
	r := int64(rate)
	if r > 10_000_000 {
		vReach("rate-clamped-high")
	} else if r < -10_000_000 {
		vReach("rate-clamped-low")
	} else {
		vReach("rate-in-range")
	}
}

func c09Link(x c09In) *channelLink {
	upd := &lnwire.ChannelUpdate1{}
	l := &channelLink{
		cfg: ChannelLinkConfig{
			FwrdingPolicy:           x.pol,
			OutgoingCltvRejectDelta: x.rejectDelta,
			MaxOutgoingCltvExpiry:   x.maxCltv,
			FailAliasUpdate: func(lnwire.ShortChannelID, bool) *lnwire.ChannelUpdate1 {
				return nil
			},
			FetchLastChannelUpdate: func(lnwire.ShortChannelID) (*lnwire.ChannelUpdate1, error) {
				if x.updFails {
					return nil, errors.New("no update")
				}
				return upd, nil
			},
			AuxTrafficShaper: fn.None[AuxTrafficShaper](),
		},
		channel: vC09Chan,
		log:     log,
	}
	return l
}

func c09Config() {
	vReplace("(*github.com/lightningnetwork/lnd/htlcswitch.channelLink).Bandwidth", "github.com/lightningnetwork/lnd/htlcswitch.vC09Bandwidth")
	vReplace("(*github.com/lightningnetwork/lnd/htlcswitch.channelLink).ShortChanID", "github.com/lightningnetwork/lnd/htlcswitch.vC09Scid")
	vOverflow("github.com/lightningnetwork/lnd/htlcswitch.ExpectedFee")
	vOverflow("(*github.com/lightningnetwork/lnd/graph/db/models.InboundFee).CalcFee")
	vOverflow("(*github.com/lightningnetwork/lnd/htlcswitch.channelLink).CheckHtlcForward")
	vOverflow("(*github.com/lightningnetwork/lnd/htlcswitch.channelLink).canSendHtlc")
	vOverflow("(*github.com/lightningnetwork/lnd/htlcswitch.channelLink).validateHtlcAmount")
	vOverflow("github.com/lightningnetwork/lnd/htlcswitch.c09RefX")
	vAssumption("amounts <= 10 BTC (max wumbo channel), base fee < 2^32 msat (wire width), fee rate <= 1e6 ppm, block height and configured CLTV deltas < 2^31")
	vAssumption("Bandwidth() replaced by the constant bandwidth of the native replay channel; (*channelLink).ShortChanID replaced by a constant; logger calls are no-ops")
}

func c09Check(x c09In, err *LinkError) {
	cls := c09Class(err)
	r := c09Ref(x)
	all := r.feeOK && r.minOK && r.maxOK && r.soonOK && r.farOK && r.bwOK && r.gapOK && r.gapMaxOK
	vObserve("class", cls)
	// (1) accept iff every rule holds
	vAssert((cls == c09Accept) == all, "accept iff all forwarding rules hold (exact arithmetic)")
	// (2) a reject names a rule that is actually violated
	switch cls {
	case c09Accept:
		vReach("accept")
	case c09FeeInsufficient:
		vReach("fee-insufficient")
		vAssert(!r.feeOK, "FeeInsufficient only when the fee rule is violated")
	case c09BelowMin:
		vReach("below-min")
		vAssert(!r.minOK, "AmountBelowMinimum only when out < min_htlc")
	case c09ExceedsMax:
		vReach("exceeds-max")
		vAssert(!r.maxOK, "TemporaryChannelFailure(ExceedsMax) only when out > max_htlc")
	case c09TooSoon:
		vReach("expiry-too-soon")
		vAssert(!r.soonOK, "ExpiryTooSoon only when outgoing expiry <= height+rejectDelta")
	case c09TooFar:
		vReach("expiry-too-far")
		vAssert(!r.farOK || !r.gapMaxOK, "ExpiryTooFar only when an expiry-too-far rule is violated")
	case c09NoBandwidth:
		vReach("no-bandwidth")
		vAssert(!r.bwOK, "TemporaryChannelFailure(InsufficientBalance) only when out > bandwidth")
	case c09IncorrectCltv:
		vReach("incorrect-cltv")
		vAssert(!r.gapOK, "IncorrectCltvExpiry only when the expiry gap is below the time-lock delta")
	case c09NodeFailure:
		vReach("node-failure")
		vAssert(x.updFails && !all, "TemporaryNodeFailure only when the channel update cannot be fetched for a reject")
	default:
		vAssert(false, "unexpected failure class")
	}
	if vNative() {
		vAssert((cls == c09Accept) == c09RefBig(x), "exact: verdict agrees with unbounded-integer arithmetic")
	}
}

// VerifC09Forward: the whole forwarding decision, inbound fee any int32 base/rate.
func VerifC09Forward() {
	c09Config()
	x := c09Inputs(false)
	x.bw = c09K
	c09BW = c09K
	c09RateRegion(x.inb.Rate)
	l := c09Link(x)
	var hash [32]byte
	err := l.CheckHtlcForward(hash, x.in, x.out, x.inTL, x.outTL, x.inb, x.height, lnwire.ShortChannelID{}, nil)
	c09Check(x, err)
}

// VerifC09ForwardAnyInbound: inbound rate any int32 (clamped by the code to
// +-1000 %).
func VerifC09ForwardAnyInbound() {
	vReplace("(*github.com/lightningnetwork/lnd/htlcswitch.channelLink).Bandwidth", "github.com/lightningnetwork/lnd/htlcswitch.vC09Bandwidth")
	vReplace("(*github.com/lightningnetwork/lnd/htlcswitch.channelLink).ShortChanID", "github.com/lightningnetwork/lnd/htlcswitch.vC09Scid")
	vOverflow("github.com/lightningnetwork/lnd/htlcswitch.c09RefX")
	vAssumption("amounts <= 10 BTC (max wumbo channel), base fee < 2^32 msat (wire width), fee rate <= 1e6 ppm, block height and configured CLTV deltas < 2^31; inbound rate any int32")
	x := c09Inputs(true)
	x.bw = c09K
	c09BW = c09K
	l := c09Link(x)
	var hash [32]byte
	err := l.CheckHtlcForward(hash, x.in, x.out, x.inTL, x.outTL, x.inb, x.height, lnwire.ShortChannelID{}, nil)
	cls := c09Class(err)
	r := c09RefExact(x)
	all := r.feeOK && r.minOK && r.maxOK && r.soonOK && r.farOK && r.bwOK && r.gapOK && r.gapMaxOK
	vObserve("class", cls)
	vAssert((cls == c09Accept) == all, "any-inbound: accept iff all forwarding rules hold (exact arithmetic, split reference)")
	if vNative() {
		vAssert((cls == c09Accept) == c09RefBig(x), "exact: verdict agrees with unbounded-integer arithmetic")
	}
}

// VerifC09Transit: locally initiated payments (no incoming HTLC).
func VerifC09Transit() {
	c09Config()
	x := c09Inputs(false)
	x.bw = c09K
	c09BW = c09K
	l := c09Link(x)
	var hash [32]byte
	err := l.CheckHtlcTransit(hash, x.out, x.outTL, x.height, nil)
	cls := c09Class(err)
	var r c09Rules
	r.minOK = x.out >= x.pol.MinHTLCOut
	r.maxOK = x.pol.MaxHTLC == 0 || x.out <= x.pol.MaxHTLC
	r.soonOK = uint64(x.outTL) > uint64(x.height)+uint64(x.rejectDelta)
	r.farOK = uint64(x.outTL) <= uint64(x.height)+uint64(x.maxCltv)
	r.bwOK = x.out <= x.bw
	all := r.minOK && r.maxOK && r.soonOK && r.farOK && r.bwOK
	vAssert((cls == c09Accept) == all, "transit: accept iff amount, expiry and bandwidth rules hold")
	switch cls {
	case c09Accept:
		vReach("accept")
	case c09BelowMin:
		vAssert(!r.minOK, "transit: AmountBelowMinimum only when out < min_htlc")
	case c09ExceedsMax:
		vAssert(!r.maxOK, "transit: ExceedsMax only when out > max_htlc")
	case c09TooSoon:
		vAssert(!r.soonOK, "transit: ExpiryTooSoon only when violated")
	case c09TooFar:
		vAssert(!r.farOK, "transit: ExpiryTooFar only when violated")
	case c09NoBandwidth:
		vAssert(!r.bwOK, "transit: InsufficientBalance only when out > bandwidth")
	case c09NodeFailure:
		vAssert(x.updFails && !all, "transit: TemporaryNodeFailure only when update fetch fails")
	default:
		vAssert(false, "transit: unexpected failure class")
	}
}

// VerifC09ForwardAnyBW: bandwidth arbitrary (solver-only: counterexamples that
// depend on the bandwidth value cannot be replayed natively).
func VerifC09ForwardAnyBW() {
	c09Config()
	x := c09Inputs(false)
	x.bw = lnwire.MilliSatoshi(vU64("bandwidth"))
	c09BW = x.bw
	l := c09Link(x)
	var hash [32]byte
	err := l.CheckHtlcForward(hash, x.in, x.out, x.inTL, x.outTL, x.inb, x.height, lnwire.ShortChannelID{}, nil)
	c09Check(x, err)
}

// VerifC09CalcFeeExact: the inbound-fee kernel alone. For every amount up to
// 2^41 msat (> 2 x the maximum channel size, the largest value out+outFee can
// take) and every int32 base/rate, CalcFee equals
// base + trunc(clamp(rate)*amt/1e6) computed without wrap-around.
func VerifC09CalcFeeExact() {
	vOverflow("github.com/lightningnetwork/lnd/htlcswitch.c09CalcFeeRef")
	amt := vU64("amt")
	vAssume(amt < 1<<41)
	f := models.InboundFee{Base: vI32("inboundBase"), Rate: vI32("inboundRate")}
	c09RateRegion(f.Rate)
	got := f.CalcFee(lnwire.MilliSatoshi(amt))
	want := c09CalcFeeRef(f, amt)
	vObserve("got", got)
	vAssert(got == want, "CalcFee equals base + trunc(rate*amt/1e6) in exact arithmetic")
	if vNative() {
		rate := int64(f.Rate)
		if rate > 10_000_000 {
			rate = 10_000_000
		}
		if rate < -10_000_000 {
			rate = -10_000_000
		}
		exact := new(big.Int).Mul(big.NewInt(rate), new(big.Int).SetUint64(amt))
		exact.Quo(exact, big.NewInt(1000000))
		exact.Add(exact, big.NewInt(int64(f.Base)))
		vAssert(exact.IsInt64() && exact.Int64() == got, "exact: CalcFee agrees with unbounded-integer arithmetic")
	}
}

func c09CalcFeeRef(f models.InboundFee, amt uint64) int64 {
	rate := int64(f.Rate)
	if rate > 10_000_000 {
		rate = 10_000_000
	}
	if rate < -10_000_000 {
		rate = -10_000_000
	}
	a := int64(amt)
	return int64(f.Base) + rate*(a/1000000) + rate*(a%1000000)/1000000
}
