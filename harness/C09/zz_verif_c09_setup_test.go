package htlcswitch

import (
	"testing"

	"github.com/btcsuite/btcd/btcutil/v2"
	"github.com/lightningnetwork/lnd/lnwire"
)

// vTestSetup builds a real channel so that (*channelLink).Bandwidth and
// ShortChanID run the real code during native replay.
func vTestSetup(t *testing.T) {
	alice, _, err := createTestChannel(
		t, alicePrivKey, bobPrivKey, 5*btcutil.SatoshiPerBitcoin,
		5*btcutil.SatoshiPerBitcoin, 0, 0, lnwire.NewShortChanIDFromInt(4),
	)
	if err != nil {
		t.Fatal(err)
	}
	vC09Chan = alice.channel
	t.Logf("VERIF-SETUP-PARAM C09K"+"_VALUE=%d", uint64(vC09Chan.AvailableBalance()))
}
