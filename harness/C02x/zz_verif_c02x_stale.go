package channeldb

// Extension C02x of C02 (also read by C06's "keeps this across
// serialisation" / release rule): the single-aspect writers of ChannelStateDB
//
//   MarkChannelConfirmationHeight, MarkChannelOpen, MarkChannelRealScid,
//   MarkChannelScidAliasNegotiated, ApplyChannelStatus (putChanStatus),
//   ClearChannelStatus, MarkChannelBorked, MarkChannelCloseConfirmationHeight
//
// are called by subsystems (funding manager, chain watcher, peer) that hold
// their OWN in-memory *OpenChannel, which can be arbitrarily stale with respect
// to what the link has persisted meanwhile (commit_sig / revoke_and_ack
// processed in between). Each of them must change exactly its aspect of the
// DURABLE channel and nothing else: in particular not roll back the
// commitments, the revocation producer/store state or the peer's commitment
// points to the caller's stale copy (a reload would then re-issue a revoked
// state / have lost a received secret).
//
// Unit (real lnd code): the eight methods as a whole (kvdb.Update ->
// fetchChanBucketRw -> fetchOpenChannel -> putOpenChannel, i.e. putChanInfo,
// putChanCommitments, putChanRevocationState and their codecs), then the reload
// a restart performs: fetchOpenChannel.
// Fake: c02fDB (in-memory kvdb backend of harness/C02).
// Symbolic: everything that distinguishes the durable state from the caller's
// stale copy: both commitments' heights, log/htlc indexes and balances, the
// peer's revocation store content (one bucket), whether the next revocation
// point is known, channel status bits, IsPending, short channel id, confirmed
// scid, confirmation height, channel type alias bit; and the arguments.

import (
	"bytes"

	"github.com/btcsuite/btcd/chainhash/v2"
	"github.com/btcsuite/btcd/wire/v2"
	graphdb "github.com/lightningnetwork/lnd/graph/db"
	"github.com/lightningnetwork/lnd/fn/v2"
	"github.com/lightningnetwork/lnd/lnwire"
	"github.com/lightningnetwork/lnd/shachain"
)

type c02xState struct {
	localH, remoteH                  uint64
	lIdx, rIdx, lHtlc, rHtlc         uint64
	lBal, rBal                       uint64
	storeRaw                         []byte
	hasNext                          bool
	status                           uint64
	pending                          bool
	scid, conf                       uint64
	confHeight                       uint32
	alias                            bool
}

func c02xDraw(tag string) c02xState {
	s := c02xState{
		localH: vU64(tag + ".localHeight"), remoteH: vU64(tag + ".remoteHeight"),
		lIdx: vU64(tag + ".localLogIndex"), rIdx: vU64(tag + ".remoteLogIndex"),
		lHtlc: vU64(tag + ".localHtlcIndex"), rHtlc: vU64(tag + ".remoteHtlcIndex"),
		lBal: vU64(tag + ".localBalance"), rBal: vU64(tag + ".remoteBalance"),
		hasNext: vBool(tag + ".hasNext"),
		status:  uint64(vU8(tag + ".status")),
		pending: vBool(tag + ".pending"),
		scid:    vU64(tag + ".scid"), conf: vU64(tag + ".confirmedScid"),
		confHeight: vU32(tag + ".confHeight"),
		alias:      vBool(tag + ".alias"),
	}
	// the peer's secret store: one bucket (index, hash) + the store index
	s.storeRaw = append([]byte{1}, vBytes(tag+".bucketIndex", 8)...)
	s.storeRaw = append(s.storeRaw, vBytes(tag+".bucketHash", 32)...)
	s.storeRaw = append(s.storeRaw, vBytes(tag+".storeIndex", 8)...)
	return s
}

func c02xChannel(s c02xState, cdb *ChannelStateDB) *OpenChannel {
	store, err := shachain.NewRevocationStoreFromBytes(bytes.NewReader(s.storeRaw))
	vAssert(err == nil && store != nil, "stale: the secret store is built")
	prod, err := shachain.NewRevocationProducerFromBytes(make([]byte, 32))
	vAssert(err == nil, "stale: the producer is built")
	ct := SingleFunderTweaklessBit | AnchorOutputsBit | ZeroHtlcTxFeeBit | NoFundingTxBit | ZeroConfBit
	if s.alias {
		ct |= ScidAliasFeatureBit
	}
	ch := &OpenChannel{
		ChanType:                ct,
		ChainHash:               chainhash.Hash{1, 2, 3},
		FundingOutpoint:         wire.OutPoint{Hash: chainhash.Hash{9, 8, 7}, Index: 1},
		ShortChannelID:          lnwire.NewShortChanIDFromInt(s.scid),
		IsPending:               s.pending,
		ConfirmationHeight:      s.confHeight,
		IdentityPub:             c02CurvePoint(1),
		RevocationProducer:      prod,
		RevocationStore:         store,
		RemoteCurrentRevocation: c02CurvePoint(0),
		LocalCommitment: ChannelCommitment{CommitHeight: s.localH, LocalLogIndex: s.lIdx, RemoteLogIndex: s.rIdx,
			LocalHtlcIndex: s.lHtlc, RemoteHtlcIndex: s.rHtlc, LocalBalance: lnwire.MilliSatoshi(s.lBal),
			RemoteBalance: lnwire.MilliSatoshi(s.rBal), CommitTx: c02fMkTx(1), CommitSig: []byte{1}},
		RemoteCommitment: ChannelCommitment{CommitHeight: s.remoteH, LocalLogIndex: s.lIdx, RemoteLogIndex: s.rIdx,
			LocalHtlcIndex: s.lHtlc, RemoteHtlcIndex: s.rHtlc, LocalBalance: lnwire.MilliSatoshi(s.lBal),
			RemoteBalance: lnwire.MilliSatoshi(s.rBal), CommitTx: c02fMkTx(2), CommitSig: []byte{2}},
		Db: cdb,
	}
	if s.hasNext {
		ch.RemoteNextRevocation = c02CurvePoint(1)
	}
	ch.SetConfirmedScidForStore(lnwire.NewShortChanIDFromInt(s.conf))
	ch.SetChannelStatusForStore(ChannelStatus(s.status))
	return ch
}

func c02xStoreBytes(ch *OpenChannel) []byte {
	var b bytes.Buffer
	vAssert(ch.RevocationStore.Encode(&b) == nil, "stale: the reloaded secret store encodes")
	return b.Bytes()
}

func VerifC02xStaleWriter() {
	c02Mode(false, false, false)
	db := &c02fDB{top: &c02fNode{}}
	cdb := &ChannelStateDB{backend: db, parent: &DB{}}

	// what the link persisted last (durable truth) ...
	d := c02xDraw("disk")
	// status bits of the real enum only (ChanStatusDefault..ChanStatusRemoteCloseInitiator: 7 bits)
	// ChanStatusRestored (bit 3) marks a channel restored from a static backup: it has no
	// commitments on disk at all (putChanCommitments / fetchChanCommitments skip them) and the
	// bit is never set or cleared on a live channel; outside this entry.
	vAssume(d.status < 128 && d.status&uint64(ChanStatusRestored) == 0)
	disk := c02xChannel(d, cdb)
	var kb bytes.Buffer
	vAssert(graphdb.WriteOutpoint(&kb, &disk.FundingOutpoint) == nil, "stale: outpoint key")
	bkt := db.top.mk(openChannelBucket).mk(disk.IdentityPub.SerializeCompressed()).mk(disk.ChainHash[:]).mk(kb.Bytes())
	vAssert(putOpenChannel(bkt, disk) == nil, "stale: the durable channel is written")

	// ... and the caller's own instance, read some time ago
	s := c02xDraw("stale")
	vAssume(s.status < 128 && s.status&uint64(ChanStatusRestored) == 0)
	stale := c02xChannel(s, cdb)

	op := vChoice("op", 8)
	arg64 := vU64("arg64")
	arg32 := vU32("arg32")
	argStatus := ChannelStatus(vU8("argStatus"))
	vAssume(argStatus < 128 && argStatus&ChanStatusRestored == 0)
	var err error
	switch op {
	case 0:
		err = cdb.MarkChannelConfirmationHeight(stale, arg32)
	case 1:
		err = cdb.MarkChannelOpen(stale, lnwire.NewShortChanIDFromInt(arg64))
	case 2:
		err = cdb.MarkChannelRealScid(stale, lnwire.NewShortChanIDFromInt(arg64))
	case 3:
		err = cdb.MarkChannelScidAliasNegotiated(stale)
	case 4:
		err = cdb.ApplyChannelStatus(stale, argStatus)
	case 5:
		err = cdb.ClearChannelStatus(stale, argStatus)
	case 6:
		err = cdb.MarkChannelBorked(stale)
	case 7:
		err = cdb.MarkChannelCloseConfirmationHeight(stale, fn.Some(arg32))
	}
	vAssert(err == nil, "stale: the writer succeeds on an existing channel")
	if err != nil {
		return
	}

	g, rerr := fetchOpenChannel(bkt, &disk.FundingOutpoint)
	vAssert(rerr == nil && g != nil, "stale: the channel reloads")
	if rerr != nil || g == nil {
		return
	}

	// the durable commitments / revocation state are those the link wrote, not the caller's copy
	lc, rc := &g.LocalCommitment, &g.RemoteCommitment
	vAssert(lc.CommitHeight == d.localH && rc.CommitHeight == d.remoteH,
		"stale: a single-aspect writer leaves both durable commitment heights untouched")
	vAssert(lc.LocalLogIndex == d.lIdx && lc.RemoteLogIndex == d.rIdx && lc.LocalHtlcIndex == d.lHtlc && lc.RemoteHtlcIndex == d.rHtlc &&
		uint64(lc.LocalBalance) == d.lBal && uint64(lc.RemoteBalance) == d.rBal,
		"stale: the durable local commitment is untouched")
	vAssert(rc.LocalLogIndex == d.lIdx && rc.RemoteLogIndex == d.rIdx && uint64(rc.LocalBalance) == d.lBal && uint64(rc.RemoteBalance) == d.rBal,
		"stale: the durable remote commitment is untouched")
	vAssert(bytes.Equal(c02xStoreBytes(g), d.storeRaw), "stale: the peer's received secrets are untouched")
	vAssert((g.RemoteNextRevocation != nil) == d.hasNext, "stale: the peer's next commitment point is untouched")

	// every aspect other than the one written keeps its durable value
	wantStatus, wantPending, wantScid, wantConf, wantConfH, wantAlias := ChannelStatus(d.status), d.pending, d.scid, d.conf, d.confHeight, d.alias
	switch op {
	case 0:
		wantConfH = arg32
	case 1:
		wantPending, wantScid = false, arg64
	case 2:
		wantConf = arg64
	case 3:
		wantAlias = true
	case 4:
		wantStatus |= argStatus
	case 5:
		wantStatus &^= argStatus
	case 6:
		wantStatus |= ChanStatusBorked
	}
	vAssert(g.ChannelStatusForStore() == wantStatus, "stale: durable status = durable status with exactly the requested bits changed")
	vAssert(g.IsPending == wantPending && g.ShortChannelID.ToUint64() == wantScid, "stale: pending flag / short channel id")
	vAssert(g.ZeroConfRealScid().ToUint64() == wantConf, "stale: confirmed scid")
	vAssert(g.ConfirmationHeight == wantConfH, "stale: confirmation height")
	vAssert(g.ChanType.HasScidAliasFeature() == wantAlias, "stale: alias feature bit")
	if op == 7 {
		vAssert(g.CloseConfirmationHeight == fn.Some(arg32), "stale: close confirmation height recorded")
	}
	if op == 4 || op == 5 || op == 6 {
		vAssert(stale.ChannelStatusForStore() == wantStatus, "stale: the caller's instance learns the durable status")
	}
	vReach("stale-writer-done")
	if d.localH != s.localH {
		vReach("stale-differs")
	}
}
