package routing

// Harness for C19 (staging C19y): route construction for payments to BLINDED
// paths.
//
// Unit (real code, executed symbolically): routing.newRoute with a non-nil
// BlindedPaymentPathSet, NewBlindedPaymentPathSet, (*BlindedPayment).Validate /
// deepCopy / toRouteHints, (*BlindedPaymentPathSet).ToRouteHints /
// FinalCLTVDelta / IntroNodeOnlyPath, NewBlindedEdge, IsBlindedRouteNUMSTargetKey,
// route.NewRouteFromHops, (*route.Route).HopFee / TotalFees / ReceiverAmt,
// ComputeFee, CalcFee.
//
// Shape: P+1 unblinded edges (symbolic policies, taken from the C19 route
// harness) lead from the sender to the introduction node; the blinded path is
// the introduction node alone (n = 0, the recipient IS the introduction node)
// or the introduction node followed by n = 1..2 blinded hops. The edges of the
// blinded part are NOT written by the harness: they are what the real
// ToRouteHints returns for the path set (plus the NUMS dummy hop that
// NewBlindedPaymentPathSet appends), turned into unified edges the way
// findPath does for additional edges (zero inbound fee, blinded payment
// attached).
//
// Oracle (BOLT #4 route blinding + the property): the blinded part behaves like
// ONE forwarding node (the introduction node) whose policy is the aggregate
// fee_base_msat / fee_proportional_millionths / cltv_expiry_delta of the
// blinded payment; for an introduction-node-only path the aggregate
// cltv_expiry_delta is the final CLTV delta of the recipient. Every figure is
// counted exactly once.

import (
	"bytes"

	"github.com/btcsuite/btcd/btcec/v2"
	sphinx "github.com/lightningnetwork/lightning-onion"
	"github.com/lightningnetwork/lnd/graph/db/models"
	"github.com/lightningnetwork/lnd/lnwire"
	"github.com/lightningnetwork/lnd/routing/route"
)

const c19yMaxL = 5

// c19yKey builds a public key value with the given x coordinate (y even). The
// code under test only serialises keys (route.NewVertex, copyPublicKey); it
// never checks curve membership, so no curve arithmetic is needed.
func c19yKey(x uint16) *btcec.PublicKey {
	var fx, fy btcec.FieldVal
	fx.SetInt(x)
	fy.SetInt(2)
	return btcec.NewPublicKey(&fx, &fy)
}

func c19yCipher(j int) []byte {
	return []byte{0xc0 + byte(j), 0x19, byte(j), 0x77}
}

func c19yConfig() {
	c19RouteConfig()
	vOverflow("github.com/lightningnetwork/lnd/routing.c19yBody")
	vAssumption("blinded route construction: blinded payment aggregate base fee any uint32, aggregate proportional fee <= 1e6 ppm, aggregate CltvExpiryDelta any uint16, total amount of the payment (MPP total) any uint64 >= shard amount; node keys of the blinded path are fixed values (only their serialisation is read)")
}

// VerifC19yIntro<P>: introduction-node-only blinded path, P forwarding nodes
// in front of the introduction node.
func VerifC19yIntro0() { c19yConfig(); c19yBody(0, 0) }
func VerifC19yIntro1() { c19yConfig(); c19yBody(1, 0) }

// VerifC19yBlinded<P><n>: n blinded hops behind the introduction node.
func VerifC19yBlinded01() { c19yConfig(); c19yBody(0, 1) }
func VerifC19yBlinded02() { c19yConfig(); c19yBody(0, 2) }
func VerifC19yBlinded11() { c19yConfig(); c19yBody(1, 1) }
func VerifC19yBlinded12() { c19yConfig(); c19yBody(1, 2) }

func c19yBody(P, n int) {
	L := P + 1 + n // hops of the route that must come back

	var (
		pol   [c19yMaxL]c19Pol
		edges []*unifiedEdge
	)

	intro := c19yKey(0x1001)
	introVertex := route.NewVertex(intro)

	// --- unblinded prefix: P+1 symbolic edges, the last enters the intro node
	for i := 0; i <= P; i++ {
		p, e := c19EdgeInput(i)
		if i == P {
			p.toNode = introVertex
			e.policy.ToNodePubKey = func() route.Vertex {
				return introVertex
			}
		}
		pol[i] = p
		edges = append(edges, e)
	}

	// --- the blinded payment as the recipient hands it out
	bpBase := vU32("blindedBaseFee")
	bpRate := vU32("blindedPropFee")
	bpDelta := vU16("blindedCltvDelta")
	vAssume(bpRate <= 1_000_000) // aggregate proportional fee up to 100 %

	blindingPoint := c19yKey(0x3001)
	var (
		bhops   []*sphinx.BlindedHopInfo
		bVertex [3]route.Vertex
	)
	bhops = append(bhops, &sphinx.BlindedHopInfo{
		BlindedNodePub: c19yKey(0x2000),
		CipherText:     c19yCipher(0),
	})
	for j := 1; j <= n; j++ {
		k := c19yKey(0x2000 + uint16(j))
		bVertex[j] = route.NewVertex(k)
		bhops = append(bhops, &sphinx.BlindedHopInfo{
			BlindedNodePub: k,
			CipherText:     c19yCipher(j),
		})
	}
	bp := &BlindedPayment{
		BlindedPath: &sphinx.BlindedPath{
			IntroductionPoint: intro,
			BlindingPoint:     blindingPoint,
			BlindedHops:       bhops,
		},
		BaseFee:             bpBase,
		ProportionalFeeRate: bpRate,
		CltvExpiryDelta:     bpDelta,
		HtlcMinimum:         1,
		HtlcMaximum:         c19MaxChan,
	}
	if err := bp.Validate(); err != nil {
		vAssert(false, "a well-formed blinded payment is rejected by Validate")
		return
	}
	set, err := NewBlindedPaymentPathSet([]*BlindedPayment{bp})
	if err != nil {
		vAssert(false, "NewBlindedPaymentPathSet fails on a well-formed blinded payment")
		return
	}
	hints, err := set.ToRouteHints()
	if err != nil {
		vAssert(false, "ToRouteHints fails on a well-formed blinded payment")
		return
	}

	// --- blinded edges: follow the chain of hint edges from the intro node
	// to the path-finding target, as findPath's additional edges are used.
	target := route.NewVertex(set.TargetPubKey())
	from := introVertex
	if n == 0 {
		vAssert(len(hints) == 0, "introduction-node-only path produces no hint edges")
		vAssert(target == introVertex, "target of an introduction-node-only path is the introduction node")
	} else {
		for k := 0; k <= n; k++ {
			hs := hints[from]
			if len(hs) != 1 {
				vAssert(false, "exactly one hint edge leaves every node of the blinded path")
				return
			}
			ae := hs[0]
			edges = append(edges, newUnifiedEdge(
				ae.EdgePolicy(), fakeHopHintCapacity,
				models.InboundFee{}, ae.IntermediatePayloadSize,
				ae.BlindedPayment(),
			))
			from = ae.EdgePolicy().ToNodePubKey()
		}
		vAssert(from == target, "hint edges end at the path-finding target")
	}

	// What the blinded part demands, from the blinded payment the recipient
	// gave (NOT from the hint edges): the introduction node forwards into the
	// blinded part for the aggregate fee and the aggregate CLTV delta; the
	// hops behind it ask for nothing on top.
	for j := 1; j <= n; j++ {
		pol[P+j] = c19Pol{toNode: bVertex[j]}
	}
	if n > 0 {
		pol[P+1].base = uint64(bpBase)
		pol[P+1].rate = uint64(bpRate)
		pol[P+1].delta = bpDelta
	}

	var source route.Vertex
	source[0] = 3
	source[32] = vU8("sourceid")

	amt := vU64("amt")
	totalAmt := vU64("totalAmt")
	height := vU32("height")
	vAssume(amt <= c19MaxChan)
	vAssume(totalAmt >= amt) // total of the (possibly multi-shard) payment
	vAssume(height < 1<<31)

	// expiry the recipient's final payload must carry: for an intro-only
	// path the blinded payment's CltvExpiryDelta is the recipient's final
	// delta; behind blinded hops it is part of the aggregate delta charged
	// at the introduction node and the final payload carries the height.
	finalTL := uint64(height)
	if n == 0 {
		finalTL += uint64(bpDelta)
	}

	// reference accounting (as in c19RouteBody)
	var (
		x [c19yMaxL]uint64
		t [c19yMaxL]uint64
	)
	x[L-1] = amt
	t[L-1] = finalTL
	for i := L - 2; i >= 0; i-- {
		x[i] = x[i+1] + c19Demand(pol[i], pol[i+1], x[i+1])
		vAssume(x[i] <= c19MaxChan)
		t[i] = t[i+1] + uint64(pol[i+1].delta)
	}

	rt, err := newRoute(source, edges, height, finalHopParams{
		amt:      lnwire.MilliSatoshi(amt),
		totalAmt: lnwire.MilliSatoshi(totalAmt),
		// router.go (NewRouteRequest): FinalExpiry of a blinded
		// payment = blindedPathSet.FinalCLTVDelta()
		cltvDelta: set.FinalCLTVDelta(),
	}, set)
	if err != nil {
		vAssert(false, "newRoute fails on a well-formed path to a blinded payment")
		return
	}
	vReach("route")
	vObserve("totalAmount", uint64(rt.TotalAmount))
	vObserve("totalTimeLock", rt.TotalTimeLock)

	vAssert(len(rt.Hops) == L, "one hop per real node of the path (dummy target hop removed)")
	vAssert(rt.SourcePubKey == source, "route starts at the source")
	last := rt.Hops[L-1]
	vObserve("finalTimeLock", last.OutgoingTimeLock)
	vObserve("finalTotalAmtMsat", uint64(last.TotalAmtMsat))

	// --- unblinded hops in front of the introduction node
	for i := 0; i < P; i++ {
		h := rt.Hops[i]
		vAssert(h.ChannelID == pol[i].chanID, "hop uses the channel of its path edge")
		vAssert(h.PubKeyBytes == pol[i].toNode, "hop is addressed to the node its channel leads to")
		vAssert(h.BlindingPoint == nil && len(h.EncryptedData) == 0 && h.TotalAmtMsat == 0,
			"no blinded-path data on a hop in front of the introduction node")
		vAssert(uint64(h.AmtToForward) == x[i+1], "amount to forward = amount carried by the next channel")
		vAssert(uint64(h.OutgoingTimeLock) == t[i+1], "outgoing time lock = expiry on the next channel")

		inAmt, inTL := uint64(rt.TotalAmount), rt.TotalTimeLock
		if i > 0 {
			inAmt, inTL = uint64(rt.Hops[i-1].AmtToForward), rt.Hops[i-1].OutgoingTimeLock
		}
		feeOK, tlOK := c19Accepts(pol[i], pol[i+1], inAmt, uint64(h.AmtToForward), inTL, h.OutgoingTimeLock)
		vAssert(feeOK, "unblinded forwarding node is left at least the fee its policy demands")
		vAssert(tlOK, "expiry gap at an unblinded forwarding node is at least its time-lock delta")
	}

	// --- the introduction node
	ih := rt.Hops[P]
	inAmt, inTL := uint64(rt.TotalAmount), rt.TotalTimeLock
	if P > 0 {
		inAmt, inTL = uint64(rt.Hops[P-1].AmtToForward), rt.Hops[P-1].OutgoingTimeLock
	}
	vAssert(ih.ChannelID == pol[P].chanID, "introduction node is reached over the channel of its path edge")
	vAssert(ih.PubKeyBytes == introVertex, "hop P is the introduction node")
	vAssert(ih.BlindingPoint != nil && ih.BlindingPoint.IsEqual(blindingPoint),
		"introduction node receives the blinding point of the path")
	vAssert(bytes.Equal(ih.EncryptedData, c19yCipher(0)), "introduction node receives its encrypted data")
	vAssert(uint64(inTL) == uint64(height)+uint64(bpDelta),
		"HTLC offered to the introduction node expires at height + the blinded path's total CLTV delta (counted exactly once)")
	if n > 0 {
		vAssert(ih.AmtToForward == 0 && ih.OutgoingTimeLock == 0 && ih.TotalAmtMsat == 0,
			"non-final hop inside the blinded part carries no amount / time lock / total amount")
		// the intro node forwards `amt` into the blinded part and charges
		// the aggregate policy (+ the inbound fee of the channel it is
		// reached over)
		feeOK, tlOK := c19Accepts(pol[P], pol[P+1], inAmt, uint64(last.AmtToForward), inTL, last.OutgoingTimeLock)
		vAssert(feeOK, "introduction node is left at least the aggregate fee of the blinded path")
		vAssert(tlOK, "expiry gap over the blinded path is at least its aggregate CLTV delta")
	}

	// --- blinded hops behind the introduction node
	for j := 1; j <= n; j++ {
		h := rt.Hops[P+j]
		vAssert(h.PubKeyBytes == bVertex[j], "blinded hop is addressed to the blinded node id of the path")
		vAssert(bytes.Equal(h.EncryptedData, c19yCipher(j)), "blinded hop receives its own encrypted data")
		vAssert(h.BlindingPoint == nil, "only the introduction node receives the blinding point")
		if j < n {
			vAssert(h.AmtToForward == 0 && h.OutgoingTimeLock == 0 && h.TotalAmtMsat == 0,
				"non-final hop inside the blinded part carries no amount / time lock / total amount")
		}
	}

	// --- the recipient
	vAssert(uint64(last.AmtToForward) == amt, "final hop payload carries the payment amount")
	vAssert(uint64(last.TotalAmtMsat) == totalAmt, "final blinded hop carries total_amount_msat of the payment")
	vAssert(last.MPP == nil, "no payment address record on a blinded final hop")
	vAssert(uint64(last.OutgoingTimeLock) == finalTL,
		"final expiry = height (+ the blinded payment's CltvExpiryDelta exactly once if the recipient is the introduction node)")
	vAssert(inAmt >= amt && uint64(inTL) >= uint64(last.OutgoingTimeLock), "blinded part receives at least what the recipient expects")

	// --- totals
	vAssert(uint64(rt.TotalAmount) == x[0], "total amount = amount + every node's demanded fee, the aggregate blinded fee exactly once")
	vAssert(uint64(rt.TotalTimeLock) == t[0], "total time lock = height + aggregate blinded CLTV delta (once) + deltas of the unblinded forwarding nodes")
	vAssert(uint64(rt.ReceiverAmt()) == amt, "ReceiverAmt is the payment amount")
	var sum uint64
	for i := 0; i < L; i++ {
		sum += uint64(rt.HopFee(i))
	}
	vAssert(sum == uint64(rt.TotalFees()), "sum of HopFee over all hops = TotalFees")
	vAssert(uint64(rt.ReceiverAmt())+uint64(rt.TotalFees()) == uint64(rt.TotalAmount), "receiver amount + total fees = total amount")
}
