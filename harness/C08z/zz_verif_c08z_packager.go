package channeldb

// Extension C08z of C08: the durable acknowledgement filters of forwarding
// packages — (*ChannelPackager).AddFwdPkg, AckAddHtlcs (-> ackAddHtlcsAtHeight)
// and AckSettleFails (-> ackSettleFailsAtHeight) over the in-memory kvdb of
// harness/C02. C08's mechanism rests on them: an ADD of a forwarding package is
// re-forwarded after a link restart exactly while its AckFilter bit is unset, a
// settle/fail is re-delivered exactly while its SettleFailFilter bit is unset,
// and a package is garbage collected once both filters are full. A batch of
// references (all AddAcks / SettleFailAcks of ONE commitment) must therefore
// set exactly the named bits: a lost bit re-forwards an HTLC that was already
// failed back (forwarder out of pocket), an extra bit loses a response.
//
// Symbolic: source channel id, package heights, the batch (1..3 references,
// each naming any package / index, duplicates allowed). Concrete: 1-2 packages
// of 2-3 adds and 2 settle/fails.

import (
	"bytes"

	"github.com/lightningnetwork/lnd/kvdb"
	"github.com/lightningnetwork/lnd/lnwire"
)

func c08zFilter(db *c02fDB, source lnwire.ShortChannelID, height uint64, key []byte) *PkgFilter {
	sk := makeLogKey(source.ToUint64())
	hk := makeLogKey(height)
	top := db.top.sub(fwdPackagesKey)
	vAssert(top != nil, "packager: the package root exists")
	sb := top.sub(sk[:])
	vAssert(sb != nil, "packager: the source bucket exists")
	hb := sb.sub(hk[:])
	vAssert(hb != nil, "packager: the height bucket exists")
	raw := hb.Get(key)
	vAssert(raw != nil, "packager: the filter is stored")
	f := &PkgFilter{}
	vAssert(f.Decode(bytes.NewReader(raw)) == nil, "packager: the filter decodes")
	return f
}

func VerifC08zPackagerAcks() {
	c02Mode(false, false, false)
	db := &c02fDB{top: &c02fNode{}}
	src := lnwire.NewShortChanIDFromInt(vU64("source"))
	p := NewChannelPackager(src)
	var h [2]uint64
	h[0], h[1] = vU64("height0"), vU64("height1")
	vAssume(h[0] != h[1])
	nPk := 1 + vChoice("morePkgs", 2)
	nAdd := 2 + vChoice("moreAdds", 2)
	const nSF = 2
	for i := 0; i < nPk; i++ {
		var adds, sfs []LogUpdate
		for j := 0; j < nAdd; j++ {
			adds = append(adds, LogUpdate{LogIndex: uint64(10*i + j), UpdateMsg: c02Update(c02KindAdd, 0)})
		}
		for j := 0; j < nSF; j++ {
			sfs = append(sfs, LogUpdate{LogIndex: uint64(10*i + j), UpdateMsg: c02Update(c02KindFulfill, 0)})
		}
		pkg := NewFwdPkg(src, h[i], adds, sfs)
		err := db.Update(func(tx kvdb.RwTx) error { return p.AddFwdPkg(tx, pkg) }, func() {})
		vAssert(err == nil, "packager: AddFwdPkg succeeds")
	}
	// a fresh package acknowledges nothing
	for i := 0; i < nPk; i++ {
		fa := c08zFilter(db, src, h[i], ackFilterKey)
		fs := c08zFilter(db, src, h[i], settleFailFilterKey)
		vAssert(fa.Count() == uint16(nAdd) && fs.Count() == nSF, "packager: filters are sized by the package")
		for x := 0; x < nAdd; x++ {
			vAssert(!fa.Contains(uint16(x)), "packager: a fresh package has no acked ADD")
		}
	}

	kind := vChoice("batchKind", 2) // 0: AckAddHtlcs, 1: AckSettleFails
	width := nAdd
	key := ackFilterKey
	if kind == 1 {
		width, key = nSF, settleFailFilterKey
	}
	k := 1 + vChoice("moreRefs", 3)
	var refPkg, refIdx [3]int
	var addRefs []AddRef
	var sfRefs []SettleFailRef
	for r := 0; r < k; r++ {
		refPkg[r] = vChoice("refPkg", nPk)
		refIdx[r] = vChoice("refIdx", width)
		if kind == 0 {
			addRefs = append(addRefs, AddRef{Height: h[refPkg[r]], Index: uint16(refIdx[r])})
		} else {
			sfRefs = append(sfRefs, SettleFailRef{Source: src, Height: h[refPkg[r]], Index: uint16(refIdx[r])})
		}
	}
	err := db.Update(func(tx kvdb.RwTx) error {
		if kind == 0 {
			return p.AckAddHtlcs(tx, addRefs...)
		}
		return p.AckSettleFails(tx, sfRefs...)
	}, func() {})
	vAssert(err == nil, "packager: the acknowledgement batch is accepted")

	multi := false
	for i := 0; i < nPk; i++ {
		f := c08zFilter(db, src, h[i], key)
		named := 0
		for x := 0; x < width; x++ {
			want := false
			for r := 0; r < k; r++ {
				if refPkg[r] == i && refIdx[r] == x {
					want = true
				}
			}
			if want {
				named++
			}
			vAssert(f.Contains(uint16(x)) == want, "packager: after a batch exactly the named entries of every package are acknowledged (none lost, none extra)")
		}
		if named >= 2 {
			multi = true
		}
		vAssert(f.IsFull() == (named == width), "packager: a filter is full exactly when every entry was named")
		// the other filter of the package is untouched
		other := settleFailFilterKey
		ow := nSF
		if kind == 1 {
			other, ow = ackFilterKey, nAdd
		}
		fo := c08zFilter(db, src, h[i], other)
		for x := 0; x < ow; x++ {
			vAssert(!fo.Contains(uint16(x)), "packager: the other filter of the package is untouched")
		}
	}
	vReach("batch-done")
	if multi {
		vReach("two-refs-one-package")
	}
	if nPk == 2 && k >= 2 && refPkg[0] != refPkg[1] {
		vReach("two-packages-one-batch")
	}
}
