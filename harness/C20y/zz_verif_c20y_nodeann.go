package discovery

// Harness for C20y (extension of C20: only authentic, fresh gossip changes the
// channel graph), unit discovery + graph: the REAL
//
//   (*AuthenticatedGossiper).handleNodeAnnouncement   (the whole method)
//   (*AuthenticatedGossiper).addNode, completeGossipResult
//   netann.ValidateNodeAnn / ValidateNodeAnnFields / ValidateNodeAnnSignature,
//   lnwire.ValidateDNSAddr, NodeAnnouncement1.DataToSign
//   models.NodeFromWireAnnouncement / NewV1Node
//   (*graph.Builder).IsStaleNode / AddNode / addNode / assertNodeAnnFreshness /
//   IsPublicNode           (cfg.Graph is a REAL graph.Builder from NewBuilder)
//   (*graphdb.ChannelGraph).HasV1Node, (*graphdb.VersionedGraph).IsPublicNode
//
// executed as one synchronous call on a gossiper built as a struct literal.
// Behind the interfaces lnd already has:
//
//   graphdb.Store (what ChannelGraph is built on)   c20yStore: answers HasV1Node
//        from the symbolic pre-state, RECORDS AddNode / IsPublicNode and answers
//        them symbolically (every other method is a nil-interface panic)
//   nMsg.peer (lnpeer.Peer)                         c20yPeer
//   nMsg.errPromise (actor.Promise)                 c20yPromise, records the completion
//
// One cut in the symbolic run: (*graphdb.ChannelGraph).AddNode = "db.AddNode,
// then graph cache (disabled here), then hand the node to the topology
// notification goroutine over an unbuffered channel" is replaced by its first
// step (the engine is single-threaded: the send would block). The native
// replay runs the real method on a Start()ed ChannelGraph.
//
// Ideal signatures exactly as in harness/C20 and C20x: the symbolic run
// replaces (*lnwire.Sig).ToSignature, btcec.ParsePubKey and
// chainhash.DoubleHashB; the native replay signs with four fixed test keys
// (RFC6979), applies the recorded corruption and runs the real functions.

import (
	"bytes"
	"context"
	"errors"
	"image/color"
	"net"
	"time"

	"github.com/btcsuite/btcd/btcec/v2"
	"github.com/btcsuite/btcd/btcec/v2/ecdsa"
	"github.com/btcsuite/btcd/chainhash/v2"
	"github.com/lightningnetwork/lnd/actor"
	"github.com/lightningnetwork/lnd/batch"
	"github.com/lightningnetwork/lnd/fn/v2"
	"github.com/lightningnetwork/lnd/graph"
	graphdb "github.com/lightningnetwork/lnd/graph/db"
	"github.com/lightningnetwork/lnd/graph/db/models"
	"github.com/lightningnetwork/lnd/input"
	"github.com/lightningnetwork/lnd/lnpeer"
	"github.com/lightningnetwork/lnd/lnwire"
)

// ---------------------------------------------------------------------------
// fixed test keys and ideal crypto (same construction as harness/C20, C20x)
// ---------------------------------------------------------------------------

// c20yPubs[i] is the compressed public key of the private key whose 32 bytes
// are all 0x10*(i+1)+1 (checked natively in c20yPriv).
var c20yPubs = [4][33]byte{
	{0x03, 0x4f, 0x35, 0x5b, 0xdc, 0xb7, 0xcc, 0x0a, 0xf7, 0x28, 0xef, 0x3c, 0xce, 0xb9, 0x61, 0x5d, 0x90, 0x68, 0x4b, 0xb5, 0xb2, 0xca, 0x5f, 0x85, 0x9a, 0xb0, 0xf0, 0xb7, 0x04, 0x07, 0x58, 0x71, 0xaa},
	{0x02, 0x8d, 0x75, 0x00, 0xdd, 0x4c, 0x12, 0x68, 0x5d, 0x1f, 0x56, 0x8b, 0x4c, 0x2b, 0x50, 0x48, 0xe8, 0x53, 0x4b, 0x87, 0x33, 0x19, 0xf3, 0xa8, 0xda, 0xa6, 0x12, 0xb4, 0x69, 0x13, 0x2e, 0xc7, 0xf7},
	{0x03, 0x69, 0x30, 0xf4, 0x6d, 0xd0, 0xb1, 0x6d, 0x86, 0x6d, 0x59, 0xd1, 0x05, 0x4a, 0xa6, 0x32, 0x98, 0xb3, 0x57, 0x49, 0x9c, 0xd1, 0x86, 0x2e, 0xf1, 0x6f, 0x3f, 0x55, 0xf1, 0xca, 0xfc, 0xeb, 0x82},
	{0x02, 0xee, 0xc7, 0x24, 0x5d, 0x6b, 0x7d, 0x2c, 0xcb, 0x30, 0x38, 0x0b, 0xfb, 0xe2, 0xa3, 0x64, 0x8c, 0xd7, 0xa9, 0x42, 0x65, 0x3f, 0x5a, 0xa3, 0x40, 0xed, 0xce, 0xa1, 0xf2, 0x83, 0x68, 0x66, 0x19},
}

// c20yPub selects c20yPubs[i] (i < 4) without branching (one term per byte).
func c20yPub(i uint8) [33]byte {
	b0 := -(i & 1)
	b1 := -((i >> 1) & 1)
	b01 := b0 & b1
	var out [33]byte
	for j := 0; j < 33; j++ {
		x0, x1, x2, x3 := c20yPubs[0][j], c20yPubs[1][j], c20yPubs[2][j], c20yPubs[3][j]
		out[j] = x0 ^ (x0^x1)&b0 ^ (x0^x2)&b1 ^ (x0^x1^x2^x3)&b01
	}
	return out
}

// c20yPriv is only called natively.
func c20yPriv(i uint8) *btcec.PrivateKey {
	var b [32]byte
	for j := range b {
		b[j] = 0x10*(i+1) + 1
	}
	priv, pub := btcec.PrivKeyFromBytes(b[:])
	if !bytes.Equal(pub.SerializeCompressed(), c20yPubs[i][:]) {
		panic("c20y: public key table does not match the private keys")
	}
	return priv
}

type c20yIdealSig struct{ raw [64]byte }

func (s *c20yIdealSig) Serialize() []byte { return s.raw[:] }

// c20ySigUF: representation of the injective F(digest, key, corruption) that
// stands for "ECDSA signature, then xor" (see harness/C20/NOTES.md).
var c20ySigUF bool

// Verify: the value verifies iff it is the unaltered F(digest, key, none).
func (s *c20yIdealSig) Verify(digest []byte, key *btcec.PublicKey) bool {
	kb := c20yKeyBytes(key)
	if c20ySigUF {
		want := vHash("sig", 64, digest, kb, []byte{0, 0})
		return bytes.Equal(want, s.raw[:])
	}
	d := s.raw[32] &^ 3
	for i := 0; i < 32; i++ {
		d |= s.raw[i] ^ digest[i]
	}
	k := c20yPub(s.raw[32] & 3)
	for i := 0; i < 33; i++ {
		d |= k[i] ^ kb[i]
	}
	for i := 33; i < 64; i++ {
		d |= s.raw[i]
	}
	return d == 0
}

// vC20yToSignature replaces (*lnwire.Sig).ToSignature in the symbolic run.
func vC20yToSignature(s *lnwire.Sig) (input.Signature, error) {
	x := &c20yIdealSig{}
	copy(x.raw[:], s.RawBytes())
	return x, nil
}

// vC20yToSignatureBytes replaces (*lnwire.Sig).ToSignatureBytes (the 64-byte ->
// DER re-encoding whose result ChanEdgePolicyFromWire stores as SigBytes): it
// scans the signature for its first non-zero byte, one path per position. The
// stored SigBytes are not part of any obligation here.
func vC20yToSignatureBytes(s *lnwire.Sig) []byte {
	return append([]byte{}, s.RawBytes()...)
}

type c20yKeyEntry struct {
	p *btcec.PublicKey
	b []byte
}

var c20yKeyTab []c20yKeyEntry

var c20yErrBadKey = errors.New("c20y: malformed public key")

// vC20yParsePubKey replaces btcec.ParsePubKey in the symbolic run: an opaque
// handle for the bytes; fails like the real one for a format byte other than
// 02/03 (in particular for the blank key of the zombie index). All other keys
// this harness ever parses are the four genuine test keys.
func vC20yParsePubKey(b []byte) (*btcec.PublicKey, error) {
	if c20yB(b[0] != 2)&c20yB(b[0] != 3) == 1 {
		return nil, c20yErrBadKey
	}
	p := new(btcec.PublicKey)
	cp := make([]byte, len(b))
	copy(cp, b)
	c20yKeyTab = append(c20yKeyTab, c20yKeyEntry{p, cp})
	return p, nil
}

func c20yKeyBytes(p *btcec.PublicKey) []byte {
	for i := range c20yKeyTab {
		if c20yKeyTab[i].p == p {
			return c20yKeyTab[i].b
		}
	}
	panic("c20y: public key not produced by ParsePubKey")
}

const c20yPad = 192

// vC20yDoubleHashB replaces chainhash.DoubleHashB: one collision-free function
// over byte strings of any length up to c20yPad.
func vC20yDoubleHashB(b []byte) []byte {
	if len(b) > c20yPad {
		panic("c20y: message longer than the hash model's padding")
	}
	in := make([]byte, 2+c20yPad)
	in[0] = byte(len(b) >> 8)
	in[1] = byte(len(b))
	copy(in[2:], b)
	return vHash("dsha", 32, in)
}

// c20ySign: the 64 wire bytes of a signature by test key `signer` over
// `digest`, with wire byte pos xored with val afterwards.
func c20ySign(digest []byte, signer uint8, pos, val uint8) lnwire.Sig {
	var out []byte
	if vNative() {
		sig := ecdsa.Sign(c20yPriv(signer), digest)
		ws, err := lnwire.NewSigFromSignature(sig)
		if err != nil {
			panic(err)
		}
		out = append([]byte{}, ws.RawBytes()...)
		out[pos] ^= val
	} else {
		k := c20yPub(signer)
		if val == 0 {
			pos = 0
		}
		if c20ySigUF {
			out = vHash("sig", 64, digest, k[:], []byte{pos, val})
		} else {
			out = make([]byte, 64)
			copy(out, digest)
			out[32], out[33], out[34] = signer, pos, val
		}
	}
	s, err := lnwire.NewSigFromWireECDSA(out)
	if err != nil {
		panic(err)
	}
	return s
}

// c20ySigSlot: who signed, what, and how the wire bytes were corrupted.
type c20ySigSlot struct {
	signer   uint8 // index of the test key that produced the signature
	other    uint8 // 1: the signer signed ANOTHER update, 0: this one
	pos, val uint8 // wire byte pos is xored with val
}

func c20ySlot(name string) c20ySigSlot {
	s := c20ySigSlot{signer: vU8(name + ".signer"), other: vU8(name + ".other"), pos: vU8(name + ".pos"), val: vU8(name + ".val")}
	vAssume(s.signer < 4 && s.other < 2 && s.pos < 64)
	return s
}

// authentic: made by the owner of `key` over exactly this message and not
// altered since.
func (s c20ySigSlot) authentic(key [33]byte) bool {
	k := c20yPub(s.signer)
	d := s.other | s.val
	for j := range k {
		d |= k[j] ^ key[j]
	}
	return d == 0
}

func (s c20ySigSlot) make(dThis, dOther []byte) lnwire.Sig {
	m := -s.other // 0x00 or 0xff
	d := make([]byte, 32)
	for i := range d {
		d[i] = dThis[i]&^m | dOther[i]&m
	}
	return c20ySign(d, s.signer, s.pos, s.val)
}

// c20yB turns a condition into a 0/1 byte (one pure diamond, which the
// symbolic run evaluates without splitting).
func c20yB(b bool) uint8 {
	r := uint8(0)
	if b {
		r = 1
	}
	return r
}

func c20yIdeal() {
	vReplace("(*github.com/lightningnetwork/lnd/lnwire.Sig).ToSignature", "github.com/lightningnetwork/lnd/discovery.vC20yToSignature")
	vReplace("github.com/btcsuite/btcd/btcec/v2.ParsePubKey", "github.com/lightningnetwork/lnd/discovery.vC20yParsePubKey")
	vReplace("github.com/btcsuite/btcd/chainhash/v2.DoubleHashB", "github.com/lightningnetwork/lnd/discovery.vC20yDoubleHashB")
	vReplace("(*github.com/lightningnetwork/lnd/lnwire.Sig).ToSignatureBytes", "github.com/lightningnetwork/lnd/discovery.vC20yToSignatureBytes")
	vReplace("(*github.com/lightningnetwork/lnd/graph/db.ChannelGraph).AddNode", "github.com/lightningnetwork/lnd/discovery.vC20yGraphAddNode")
	vInjective("sig")
	vInjective("dsha")
	vAssumption("ideal signatures: wire bytes are F(digest, key, corruption) for one collision-free F; they verify for (d, k) iff they equal F(d, k, none). Natively F is ECDSA under fixed test keys followed by the xor")
	vAssumption("ideal hash: chainhash.DoubleHashB is one collision-free function of the byte string")
	vAssumption("Sig.ToSignature succeeds on every input in the symbolic run; natively a malformed signature is an error, which the oracle classes as 'does not verify' as well")
	vAssumption("ParsePubKey fails iff the format byte is not 02/03 (announced node ids are the four genuine test keys)")
	vAssumption("(*graphdb.ChannelGraph).AddNode is cut to its first step db.AddNode in the symbolic run (graph cache disabled; the topology notification is a send to another goroutine)")
	c20yKeyTab = nil
	c20ySigUF = vChoice("sigmodel", 2) == 1
	vUnwind(512)
}

// ---------------------------------------------------------------------------
// node_announcement: BOLT-7 reference serialisation (what a remote signer signs)
// ---------------------------------------------------------------------------

func c20yU16(b []byte, v uint16) []byte { return append(b, byte(v>>8), byte(v)) }
func c20yU32(b []byte, v uint32) []byte {
	return append(b, byte(v>>24), byte(v>>16), byte(v>>8), byte(v))
}

const c20yNFeat = 3

func c20yFeatures(shape int) (*lnwire.RawFeatureVector, []byte) {
	switch shape {
	case 0:
		return lnwire.NewRawFeatureVector(), []byte{0, 0}
	case 1:
		return lnwire.NewRawFeatureVector(1), []byte{0, 1, 0x02}
	}
	return lnwire.NewRawFeatureVector(0, 9), []byte{0, 2, 0x02, 0x01}
}

type c20yNode struct {
	feat  int
	ts    uint32
	id    [33]byte
	rgb   [3]byte
	alias [32]byte
	addrs int // shape, see c20yAddrs
	ip    [4]byte
	port  uint16
	extra []byte
}

const c20yNAddr = 6

// c20yAddrs returns the address list of shape n, its BOLT-7 serialisation
// (without the length prefix) and whether BOLT-7 / lnd's field rules allow it
// (at most one DNS hostname, which must be non-empty ASCII letters, digits,
// '-' and '.', with a non-zero port).
func c20yAddrs(n *c20yNode) ([]net.Addr, []byte, bool) {
	tcp := &net.TCPAddr{IP: net.IP(n.ip[:]), Port: int(n.port)}
	tcpB := c20yU16(append([]byte{1}, n.ip[:]...), n.port)
	dns := func(h string) (net.Addr, []byte) {
		b := append([]byte{5, byte(len(h))}, h...)
		return &lnwire.DNSAddress{Hostname: h, Port: n.port}, c20yU16(b, n.port)
	}
	switch n.addrs {
	case 0:
		return nil, nil, true
	case 1:
		return []net.Addr{tcp}, tcpB, true
	case 2:
		d, b := dns("ln.example-1.org")
		return []net.Addr{tcp, d}, append(tcpB, b...), n.port != 0
	case 3:
		d1, b1 := dns("a.org")
		d2, b2 := dns("b.org")
		return []net.Addr{d1, d2}, append(b1, b2...), false
	case 4:
		d, b := dns("bad_host.org")
		return []net.Addr{d}, b, false
	}
	d, b := dns("")
	return []net.Addr{d}, b, false
}

func c20yNodeRef(n *c20yNode) []byte {
	_, f := c20yFeatures(n.feat)
	b := append([]byte{}, f...)
	b = c20yU32(b, n.ts)
	b = append(b, n.id[:]...)
	b = append(b, n.rgb[:]...)
	b = append(b, n.alias[:]...)
	_, ab, _ := c20yAddrs(n)
	b = c20yU16(b, uint16(len(ab)))
	b = append(b, ab...)
	return append(b, n.extra...)
}

func c20yNodeWire(n *c20yNode) *lnwire.NodeAnnouncement1 {
	fv, _ := c20yFeatures(n.feat)
	addrs, _, _ := c20yAddrs(n)
	return &lnwire.NodeAnnouncement1{
		Features:        fv,
		Timestamp:       n.ts,
		NodeID:          n.id,
		RGBColor:        color.RGBA{R: n.rgb[0], G: n.rgb[1], B: n.rgb[2]},
		Alias:           lnwire.NodeAlias(n.alias),
		Addresses:       addrs,
		ExtraOpaqueData: n.extra,
	}
}

// ---------------------------------------------------------------------------
// recording fakes
// ---------------------------------------------------------------------------

const (
	c20yUnknown = 0 // the node has no channel in the graph
	c20yKnown   = 1
	c20yDBErr   = 2 // the store lookup fails
)

// c20yStoreErr is a string-based error type (a package-level errors.New in a
// harness may be evaluated lazily as nil by the engine).
type c20yStoreErr string

func (e c20yStoreErr) Error() string { return string(e) }

const c20yErrStore = c20yStoreErr("c20y: graph store failure")

// c20yStore is the graphdb.Store behind the real ChannelGraph / Builder. The
// embedded interface is nil: any method the unit is not expected to use panics.
type c20yStore struct {
	graphdb.Store

	// pre-state
	state    int
	nodeTime time.Time // stored last update of the node (known)

	// recordings
	hasAsked  int
	hasKeysOK uint8 // every HasV1Node lookup was for wantKey
	wantKey   [33]byte
	added     []*models.Node
	addErr    error // what AddNode answered
	pubAsked  int
	pubKey    [33]byte
	pubVer    lnwire.GossipVersion
	pubAnswer uint8 // 0 public, 1 not public, 2 store error
}

func (s *c20yStore) HasV1Node(_ context.Context, pub [33]byte) (time.Time, bool, error) {
	s.hasAsked++
	s.hasKeysOK &= c20yB(pub == s.wantKey)
	switch s.state {
	case c20yKnown:
		return s.nodeTime, true, nil
	case c20yDBErr:
		return time.Time{}, false, c20yErrStore
	}
	return time.Time{}, false, nil
}

// AddNode and IsPublicNode draw their answer when asked (lazily), so that the
// symbolic run does not split on them for announcements rejected earlier.
func (s *c20yStore) AddNode(_ context.Context, node *models.Node, _ ...batch.SchedulerOption) error {
	s.added = append(s.added, node)
	if c20yLt("addErr", 2) == 1 {
		s.addErr = c20yErrStore
	}
	return s.addErr
}

func (s *c20yStore) IsPublicNode(_ context.Context, v lnwire.GossipVersion, pub [33]byte) (bool, error) {
	s.pubAsked++
	s.pubKey, s.pubVer = pub, v
	s.pubAnswer = c20yLt("isPublic", 3)
	switch s.pubAnswer {
	case 0:
		return true, nil
	case 1:
		return false, nil
	}
	return false, c20yErrStore
}

func c20yLt(name string, n uint8) uint8 {
	v := vU8(name)
	vAssume(v < n)
	return v
}

// c20yTheStore: the store of the current run, for the cut of
// (*graphdb.ChannelGraph).AddNode (whose db field is not reachable from here).
var c20yTheStore *c20yStore

// vC20yGraphAddNode replaces (*graphdb.ChannelGraph).AddNode in the symbolic
// run: its first step only (see the header).
func vC20yGraphAddNode(_ *graphdb.ChannelGraph, ctx context.Context, node *models.Node, op ...batch.SchedulerOption) error {
	return c20yTheStore.AddNode(ctx, node, op...)
}

type c20yPeer struct {
	lnpeer.Peer
	id *btcec.PublicKey
}

func (p *c20yPeer) PubKey() [33]byte              { return c20yPubs[3] }
func (p *c20yPeer) IdentityKey() *btcec.PublicKey { return p.id }

// c20yPromise records how the gossiper resolved the message (this is what
// ProcessRemoteAnnouncement's caller awaits).
type c20yPromise struct {
	calls int
	err   error
}

func (p *c20yPromise) Future() actor.Future[error] { return nil }
func (p *c20yPromise) Complete(r fn.Result[error]) bool {
	p.calls++
	if p.calls > 1 {
		return false
	}
	v, err := r.Unpack()
	if err != nil {
		v = err
	}
	p.err = v
	return true
}

// ---------------------------------------------------------------------------
// the entry
// ---------------------------------------------------------------------------

// c20yZeroUnix is time.Time{}.Unix(): what the stores report for a node that
// is only known through its channels (shell node, no announcement yet).
const c20yZeroUnix = -62135596800

// VerifC20yNodeAnn drives one node_announcement through the real
// handleNodeAnnouncement, into a real graph.Builder over a real
// graphdb.ChannelGraph over the fake store.
//
// Pre-state (symbolic): the node is unknown to the graph (no channel) / known
// with any stored last-update time (from "shell node" up to 2^40) / the store
// fails; what the store answers to AddNode and IsPublicNode.
// Message (symbolic): timestamp, which of the four test keys is the node id,
// colour, addresses (6 shapes incl. malformed DNS names / two DNS names, ip
// and port symbolic), features (3 shapes), extra bytes; who signed (any of 4
// test keys), what (this announcement or another one differing in at least
// one field), one signature byte corrupted or not; remote or local origin.
//
// Oracle:
//
//	store.AddNode called => timestamp != 0 AND the node is known (has a
//	    channel) AND the stored announcement is STRICTLY older AND the address
//	    list is well-formed AND the signature is authentic for exactly the
//	    announced node id AND the node handed over carries this
//	    announcement's fields AND freshness was asked for this node id;
//	relayed (returned for broadcast) => AddNode was called and succeeded AND
//	    the store said the node is public (asked for this node id, gossip v1)
//	    AND it is this message with its origin;
//	anything else: no AddNode, no relay; answered WITH an error where it is
//	    inauthentic / malformed / has timestamp 0 (stale, unknown node, store
//	    failure on lookup are skipped without error, as for any duplicate);
//	conversely an authentic, well-formed, fresh announcement of a known node is
//	    handed to the store exactly once, and relayed iff public.
func VerifC20yNodeAnn() {
	c20yIdeal()

	// --- the announcement ---------------------------------------------
	n := &c20yNode{ts: vU32("ts"), port: vU16("port")}
	n.feat, n.addrs = vChoice("feat", c20yNFeat), vChoice("addrs", c20yNAddr)
	idx := vU8("node.idx")
	vAssume(idx < 4)
	n.id = c20yPub(idx)
	copy(n.rgb[:], vBytes("rgb", 3))
	copy(n.ip[:], vBytes("ip", 4))
	// alias: concrete ("c20y", zero padded) with a symbolic first byte kept
	// non-zero (NodeAlias.String trims zero bytes: one path per byte otherwise)
	copy(n.alias[:], "c20y")
	n.alias[0] = vU8("alias0") | 1
	n.extra = vBytes("extra", C20Y_EXTRA*vChoice("extra.len", 2))

	// the OTHER announcement a signer may have signed instead: same shape,
	// differs in at least one of timestamp, node id, colour, alias byte, port
	// (an older announcement of this node, the announcement of another node)
	o := *n
	o.ts, o.port = vU32("o.ts"), vU16("o.port")
	oidx := vU8("o.node.idx")
	vAssume(oidx < 4)
	o.id = c20yPub(oidx)
	copy(o.rgb[:], vBytes("o.rgb", 3))
	o.alias[0] = vU8("o.alias0") | 1
	differs := c20yB(o.ts != n.ts) | c20yB(oidx != idx) | c20yB(o.rgb != n.rgb) | c20yB(o.alias[0] != n.alias[0])
	if n.addrs != 0 { // concrete: the port is on the wire
		differs |= c20yB(o.port != n.port)
	} else {
		o.port = n.port
	}
	vAssume(differs == 1)

	slot := c20ySlot("sig")
	w := c20yNodeWire(n)
	w.Signature = slot.make(chainhash.DoubleHashB(c20yNodeRef(n)), chainhash.DoubleHashB(c20yNodeRef(&o)))

	// --- the graph: real Builder over real ChannelGraph over the fake store
	st := &c20yStore{state: vChoice("state", 3), hasKeysOK: 1, wantKey: n.id}
	stored := vI64("stored.last")
	// whole seconds (the stores keep Unix seconds) from "no announcement
	// yet" (the zero time) up to 2^40; wire timestamps are 32 bit
	vAssume(stored >= c20yZeroUnix && stored < 1<<40)
	st.nodeTime = time.Unix(stored, 0)
	c20yTheStore = st
	cg, err := graphdb.NewChannelGraph(st, graphdb.WithUseGraphCache(false))
	if err != nil {
		panic(err)
	}
	if vNative() {
		// the goroutine that receives the topology notification
		if err := cg.Start(); err != nil {
			panic(err)
		}
	}
	builder, err := graph.NewBuilder(&graph.Config{Graph: cg})
	if err != nil {
		panic(err)
	}

	// --- the gossiper ---------------------------------------------------
	d := &AuthenticatedGossiper{cfg: &Config{Graph: builder}}
	src, err := btcec.ParsePubKey(c20yPubs[3][:])
	if err != nil {
		panic(err)
	}
	isRemote := vChoice("remote", 2) == 1
	peer := &c20yPeer{id: src}
	prom := &c20yPromise{}
	nMsg := &networkMsg{peer: peer, source: src, msg: w, isRemote: isRemote, errPromise: prom}

	// ================= the real code =================
	anns, ok := d.handleNodeAnnouncement(context.Background(), nMsg, w, nil)
	// =================================================

	// --- what the property says -----------------------------------------
	// Facts are 0/1 bytes combined with & | ^ (see harness/C20x).
	const T, F = uint8(1), uint8(0)
	_, _, addrsOKb := c20yAddrs(n)
	addrsOK := c20yB(addrsOKb)
	auth := c20yB(slot.authentic(n.id))
	nonzero := c20yB(n.ts != 0)
	fresh := F
	if st.state == c20yKnown { // concrete
		fresh = c20yB(stored < int64(n.ts))
	}
	good := nonzero & fresh & addrsOK & auth

	nAdded := len(st.added)
	relayed := len(anns) > 0
	refused := F // answered with an error
	if prom.calls == 1 && prom.err != nil {
		refused = T
	}

	vAssert(nAdded <= 1 && len(anns) <= 1 && prom.calls == 1 && st.pubAsked <= 1,
		"one node announcement causes at most one graph write and one relay, and is answered exactly once")

	// -- soundness ---------------------------------------------------------
	if nAdded == 1 {
		p := st.added[0]
		vAssert(nonzero == T, "node announcement with timestamp 0 was written to the graph")
		vAssert(st.state == c20yKnown, "node announcement written to the graph although the node has no known channel (or the lookup failed)")
		vAssert(fresh == T, "node announcement written to the graph although the stored one is not strictly older")
		vAssert(addrsOK == T, "node announcement with a malformed address list was written to the graph")
		vAssert(auth == T, "node announcement written to the graph although its signature is not authentic for the announced node id")
		vAssert(st.hasKeysOK&c20yB(st.hasAsked >= 1) == T, "freshness was looked up for another node than the announced one")
		same := c20yB(p.PubKeyBytes == n.id) & c20yB(p.LastUpdate.Unix() == int64(n.ts)) &
			c20yB(p.Version == lnwire.GossipVersion1) & c20yB(bytes.Equal(p.ExtraOpaqueData, n.extra)) &
			c20yB(len(p.Addresses) == len(w.Addresses))
		col := p.Color.UnwrapOr(color.RGBA{})
		same &= c20yB(col.R == n.rgb[0]) & c20yB(col.G == n.rgb[1]) & c20yB(col.B == n.rgb[2])
		vAssert(same == T, "the node handed to the graph differs from the signed announcement")
		vAssert(p.Features != nil && p.Features.RawFeatureVector == w.Features, "the node handed to the graph carries other features than the announcement")
	}
	if relayed {
		vAssert(nAdded == 1 && st.addErr == nil, "node announcement relayed although it was not written to the graph")
		vAssert(st.pubAsked == 1 && st.pubAnswer == 0 && st.pubKey == n.id && st.pubVer == lnwire.GossipVersion1,
			"node announcement relayed although the graph did not say that this node is public")
		vAssert(anns[0].msg == lnwire.Message(w) && anns[0].isRemote == isRemote && anns[0].source == src && anns[0].peer == lnpeer.Peer(peer),
			"something else than the announcement (or another origin) was relayed")
	}

	// -- rejected => answered with an error --------------------------------
	vAssert(nonzero|refused == T, "node announcement with timestamp 0 was not answered with an error")
	// (a => b written as a^1 | b)
	vAssert((nonzero&fresh&((addrsOK&auth)^1))^1|refused == T, "inauthentic / malformed node announcement of a known node was not answered with an error")

	// -- completeness ---------------------------------------------------------
	vAssert(good^1|c20yB(nAdded == 1) == T, "authentic, well-formed, fresh announcement of a known node was not written to the graph")
	if nAdded == 1 && st.addErr == nil {
		vAssert(st.pubAsked == 1, "the relay decision was taken without asking whether the node is public")
		vAssert(relayed == (st.pubAnswer == 0), "applied node announcement: relayed iff the node is public")
		vAssert(ok == (st.pubAnswer != 2) && (refused == T) == (st.pubAnswer == 2), "applied node announcement: answered without error unless the store failed")
	}
	if nAdded == 1 && st.addErr != nil {
		vAssert(refused == T && !ok, "store failure on AddNode was not answered with an error")
	}
	if nAdded == 0 {
		// skipped as stale / unknown / lookup failure: no error, "processed"
		skipped := nonzero & (fresh ^ 1)
		vAssert(skipped^1|(refused^1)&c20yB(ok) == T, "stale announcement / unknown node must be skipped without error")
	}

	// -- witnesses (branches on symbolic values only from here on) ---------
	vObserve("added", nAdded)
	vObserve("relayed", relayed)
	vObserve("ok", ok)
	switch {
	case nAdded == 1 && relayed:
		vReach("applied-relayed")
	case nAdded == 1 && st.addErr != nil:
		vReach("applied-store-error")
	case nAdded == 1 && st.pubAnswer == 1:
		vReach("applied-not-public")
	case nAdded == 1:
		vReach("applied-public-lookup-error")
	case n.ts == 0:
		vReach("reject-zero-timestamp")
	case st.state == c20yUnknown:
		vReach("ignored-unknown-node")
	case st.state == c20yDBErr:
		vReach("ignored-store-error")
	case fresh == F:
		vReach("ignored-stale")
	case addrsOK == F:
		vReach("reject-fields")
	default:
		vReach("reject-signature")
	}
}
