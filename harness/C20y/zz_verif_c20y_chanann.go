package discovery

// Harness for C20y, second entry: the REAL
//
//   (*AuthenticatedGossiper).handleChanAnnouncement     (gossip v1, the whole method
//        except processRejectedEdge and the re-injection of stashed updates)
//   (*AuthenticatedGossiper).validateFundingTransaction, makeFundingScript,
//   isPremature, handleBadPeer / ShouldDisconnect, newRejectCacheKey, completeGossipResult
//   netann.ValidateChannelAnn / validateChannelAnn1, ChannelAnnouncement1.DataToSign
//   lnwallet.FetchFundingTxWrapper / FetchFundingTx
//   chanvalidate.Validate, (*ShortChanIDChanLocator).Locate
//   models.NewV1Channel, NewV1ChannelAuthProof
//
// Behind the interfaces the gossiper already has: cfg.Graph (c20yCGraph:
// IsKnownEdge / AddEdge / MarkZombieEdge), cfg.ChainIO (c20yChain:
// GetBlockHash / GetBlock / GetUtxo with symbolic answers), cfg.ScidCloser,
// cfg.IsAlias, nMsg.peer, nMsg.errPromise. See zz_verif_c20y_nodeann.go for
// the ideal signatures.

import (
	"bytes"
	"context"
	"crypto/sha256"
	"errors"

	"github.com/btcsuite/btcd/btcec/v2"
	"github.com/btcsuite/btcd/chaincfg/v2"
	"github.com/btcsuite/btcd/chainhash/v2"
	"github.com/btcsuite/btcd/wire/v2"
	"github.com/lightninglabs/neutrino/cache/lru"
	"github.com/lightningnetwork/lnd/batch"
	"github.com/lightningnetwork/lnd/graph"
	"github.com/lightningnetwork/lnd/graph/db/models"
	"github.com/lightningnetwork/lnd/lnwallet"
	"github.com/lightningnetwork/lnd/lnwallet/btcwallet"
	"github.com/lightningnetwork/lnd/lnwire"
	"github.com/lightningnetwork/lnd/multimutex"
	"github.com/lightningnetwork/lnd/routing/route"
)

// ---------------------------------------------------------------------------
// channel_announcement: BOLT-7 reference serialisation
// ---------------------------------------------------------------------------

type c20yAnn struct {
	feat  int
	chain [32]byte
	scid  lnwire.ShortChannelID
	keys  [4][33]byte // node_id_1, node_id_2, bitcoin_key_1, bitcoin_key_2
	extra []byte
}

func c20ySymScid(name string) lnwire.ShortChannelID {
	s := lnwire.ShortChannelID{BlockHeight: vU32(name + ".block"), TxIndex: vU32(name + ".tx"), TxPosition: vU16(name + ".pos")}
	// wire width: block height and tx index are 3-byte fields
	vAssume(s.BlockHeight < 1<<24 && s.TxIndex < 1<<24)
	return s
}

func c20yAnnRef(a *c20yAnn) []byte {
	_, f := c20yFeatures(a.feat)
	b := append([]byte{}, f...)
	b = append(b, a.chain[:]...)
	s := a.scid
	b = append(b, byte(s.BlockHeight>>16), byte(s.BlockHeight>>8), byte(s.BlockHeight))
	b = append(b, byte(s.TxIndex>>16), byte(s.TxIndex>>8), byte(s.TxIndex))
	b = c20yU16(b, s.TxPosition)
	for k := 0; k < 4; k++ {
		b = append(b, a.keys[k][:]...)
	}
	return append(b, a.extra...)
}

func c20yAnnWire(a *c20yAnn) *lnwire.ChannelAnnouncement1 {
	fv, _ := c20yFeatures(a.feat)
	return &lnwire.ChannelAnnouncement1{
		Features:        fv,
		ChainHash:       a.chain,
		ShortChannelID:  a.scid,
		NodeID1:         a.keys[0],
		NodeID2:         a.keys[1],
		BitcoinKey1:     a.keys[2],
		BitcoinKey2:     a.keys[3],
		ExtraOpaqueData: a.extra,
	}
}

// c20yFundingRef: the BOLT-3 funding output script of two bitcoin keys,
// written independently of lnd: P2WSH of `2 <lesser key> <greater key> 2
// OP_CHECKMULTISIG`.
func c20yFundingRef(k1, k2 []byte) []byte {
	if bytes.Compare(k1, k2) > 0 {
		k1, k2 = k2, k1
	}
	ws := append([]byte{0x52, 0x21}, k1...)
	ws = append(ws, 0x21)
	ws = append(ws, k2...)
	ws = append(ws, 0x52, 0xae)
	h := sha256.Sum256(ws)
	return append([]byte{0x00, 0x20}, h[:]...)
}

// vC20yGenMultiSig / vC20yWitnessScriptHash replace input.GenMultiSigScript /
// input.WitnessScriptHash in the symbolic run (they go through
// txscript.ScriptTemplate = text/template + reflect, which the engine does
// not execute). The native replay runs the real ones.
func vC20yGenMultiSig(aPub, bPub []byte) ([]byte, error) {
	if len(aPub) != 33 || len(bPub) != 33 {
		return nil, c20yErrStore
	}
	if bytes.Compare(aPub, bPub) == 1 {
		aPub, bPub = bPub, aPub
	}
	ws := append([]byte{0x52, 0x21}, aPub...)
	ws = append(ws, 0x21)
	ws = append(ws, bPub...)
	return append(ws, 0x52, 0xae), nil
}

func vC20yWitnessScriptHash(ws []byte) ([]byte, error) {
	h := sha256.Sum256(ws)
	return append([]byte{0x00, 0x20}, h[:]...), nil
}

// vC20yContains replaces strings.Contains in the symbolic run (the runtime's
// assembly IndexByte has no Go body); the strings are concrete error texts.
func vC20yContains(s, sub string) bool {
	for i := 0; i+len(sub) <= len(s); i++ {
		if s[i:i+len(sub)] == sub {
			return true
		}
	}
	return false
}

// VerifC20yClosedIndex is VerifC20yChanAnn restricted to fully authentic
// remote announcements of an unknown channel, plus the obligation that the
// scid enters the closed-channel index only if the chain said "spent". It is
// NOT part of the green entries: see NOTES.md, CANDIDATE FINDING.
func VerifC20yClosedIndex() { c20yChanAnn(true) }

// ---------------------------------------------------------------------------
// recording fakes
// ---------------------------------------------------------------------------

type c20yCGraph struct {
	graph.ChannelGraphSource

	known bool // pre-state: the scid is a live or zombie edge

	knownAsked int
	knownScid  lnwire.ShortChannelID
	added      []*models.ChannelEdgeInfo
	addErr     error
	zombies    []uint64
}

func (g *c20yCGraph) IsKnownEdge(scid lnwire.ShortChannelID) bool {
	g.knownAsked++
	g.knownScid = scid
	return g.known
}

func (g *c20yCGraph) AddEdge(_ context.Context, e *models.ChannelEdgeInfo, _ ...batch.SchedulerOption) error {
	g.added = append(g.added, e)
	if c20yLt("addErr", 2) == 1 {
		g.addErr = c20yErrStore
	}
	return g.addErr
}

func (g *c20yCGraph) MarkZombieEdge(id uint64) error {
	g.zombies = append(g.zombies, id)
	return nil
}

// c20yChain is the lnwallet.BlockChainIO behind the gossiper: a chain whose
// block at the asked height either does not exist (hashAns 1: "not found",
// 2: another RPC error) or holds two transactions with two outputs each, all
// four outputs carrying `script` and `value`; the funding outpoint is unspent
// (utxoAns 0), spent (1) or the lookup fails (2).
type c20yChain struct {
	lnwallet.BlockChainIO

	script []byte
	value  int64

	hashAns, utxoAns uint8
	hashAsked        int
	hashHeight       int64
	blk              *wire.MsgBlock
	utxoAsked        int
	utxoOp           wire.OutPoint
	utxoScript       []byte
	utxoHint         uint32
}

type c20yChainErr string

func (e c20yChainErr) Error() string { return string(e) }

func (c *c20yChain) GetBlockHash(h int64) (*chainhash.Hash, error) {
	c.hashAsked++
	c.hashHeight = h
	c.hashAns = c20yLt("chain.hash", 3)
	switch c.hashAns {
	case 1:
		return nil, c20yChainErr("-5: Block not found")
	case 2:
		return nil, c20yChainErr("c20y: rpc connection refused")
	}
	return &chainhash.Hash{1}, nil
}

func (c *c20yChain) GetBlock(*chainhash.Hash) (*wire.MsgBlock, error) {
	c.blk = &wire.MsgBlock{}
	for i := 0; i < 2; i++ {
		tx := wire.NewMsgTx(2)
		tx.LockTime = uint32(i)
		tx.AddTxIn(&wire.TxIn{})
		for j := 0; j < 2; j++ {
			tx.AddTxOut(&wire.TxOut{Value: c.value, PkScript: c.script})
		}
		c.blk.Transactions = append(c.blk.Transactions, tx)
	}
	return c.blk, nil
}

func (c *c20yChain) GetUtxo(op *wire.OutPoint, pkScript []byte, hint uint32, _ <-chan struct{}) (*wire.TxOut, error) {
	c.utxoAsked++
	c.utxoOp, c.utxoScript, c.utxoHint = *op, pkScript, hint
	c.utxoAns = c20yLt("chain.utxo", 3)
	switch c.utxoAns {
	case 1:
		return nil, btcwallet.ErrOutputSpent
	case 2:
		return nil, c20yChainErr("c20y: rpc connection refused")
	}
	return &wire.TxOut{Value: c.value, PkScript: pkScript}, nil
}

type c20yCloser struct {
	ClosedChannelTracker
	closedAns   uint8
	closedAsked int
	closedScid  lnwire.ShortChannelID
	put         []lnwire.ShortChannelID
}

func (c *c20yCloser) IsClosedScid(_ context.Context, s lnwire.ShortChannelID) (bool, error) {
	c.closedAsked++
	c.closedScid = s
	c.closedAns = c20yLt("closed", 3)
	switch c.closedAns {
	case 1:
		return true, nil
	case 2:
		return false, c20yErrStore
	}
	return false, nil
}
func (c *c20yCloser) PutClosedScid(_ context.Context, s lnwire.ShortChannelID) error {
	c.put = append(c.put, s)
	return nil
}
func (c *c20yCloser) IsChannelPeer(*btcec.PublicKey) (bool, error) { return false, nil }

type c20yBanPeer struct {
	c20yPeer
	disconnected int
}

func (p *c20yBanPeer) Disconnect(error) { p.disconnected++ }

var c20yGenesisVal = chainhash.Hash{0x6f, 0xe2, 0x8c, 0x0a, 0xb6, 0xf1, 0xb3, 0x72, 0xc1, 0xa6, 0xa2, 0x46, 0xae, 0x63, 0xf7, 0x4f, 0x93, 0x1e, 0x83, 0x65, 0xe1, 0x5a, 0x08, 0x9c, 0x68, 0xd6, 0x19, 0x00, 0x00, 0x00, 0x00, 0x00}

// ---------------------------------------------------------------------------
// the entry
// ---------------------------------------------------------------------------

// VerifC20yChanAnn drives one gossip-v1 channel_announcement through the real
// handleChanAnnouncement.
//
// Oracle:
//
//	AddEdge called => our chain AND (remote: scid not an alias, not premature)
//	    AND the graph did not know the scid AND it is not in the closed index
//	    AND (remote) ALL FOUR signatures are authentic for the key BOLT-7
//	    pairs them with AND the funding output exists (block found, tx index
//	    and output index in range), pays to the 2-of-2 of the two announced
//	    bitcoin keys and is unspent (local alias scids skip the chain lookup)
//	    AND the edge handed over carries the announcement's scid, keys, chain,
//	    the proof iff remote, and the outpoint / value the chain reported;
//	relayed => AddEdge called and succeeded AND the announcement is remote
//	    (carries the proof) AND it is this message;
//	MarkZombieEdge => AddEdge not called AND the funding output is definitely
//	    missing / mismatching / spent (never on an RPC failure);
//	rejected for signatures / funding => answered with an error;
//	conversely a fully valid announcement is handed to AddEdge exactly once.
func VerifC20yChanAnn() { c20yChanAnn(false) }

func c20yChanAnn(c20yStrictClosed bool) {
	c20yIdeal()
	vReplace("github.com/lightningnetwork/lnd/input.GenMultiSigScript", "github.com/lightningnetwork/lnd/discovery.vC20yGenMultiSig")
	vReplace("github.com/lightningnetwork/lnd/input.WitnessScriptHash", "github.com/lightningnetwork/lnd/discovery.vC20yWitnessScriptHash")
	vReplace("strings.Contains", "github.com/lightningnetwork/lnd/discovery.vC20yContains")
	vGoInline("*")
	vInjective("sha256")
	vAssumption("symbolic run: input.GenMultiSigScript / WitnessScriptHash (txscript.ScriptTemplate: text/template + reflect) replaced by the BOLT-3 bytes; sha256 collision-free; the goroutine of FetchFundingTxWrapper runs synchronously")

	// --- the announcement ---------------------------------------------
	a := &c20yAnn{feat: vChoice("feat", 2)}
	a.chain = c20yGenesisVal
	cpos, cval := vU8("chain.pos"), vU8("chain.val")
	vAssume(cpos < 32)
	for j := range a.chain {
		hit := byte((uint16(uint8(j)^cpos) - 1) >> 8) // 0xff iff j == cpos
		a.chain[j] ^= cval & hit
	}
	chainOK := c20yB(cval == 0)
	a.scid = c20ySymScid("scid")
	i1, i2 := vU8("node1.idx"), vU8("node2.idx")
	vAssume(i1 < 4 && i2 < 4)
	a.keys[0], a.keys[1] = c20yPub(i1), c20yPub(i2)
	// bitcoin keys: concrete (both orders), so that the key sorting of the
	// funding script does not split the symbolic run
	b1, b2 := uint8(2), uint8(3)
	if vChoice("btc.swap", 2) == 1 {
		b1, b2 = 3, 2
	}
	a.keys[2], a.keys[3] = c20yPubs[b1], c20yPubs[b2]
	a.extra = vBytes("extra", C20Y_EXTRA*vChoice("extra.len", 2))

	// the OTHER announcement a signer may have signed: another scid and/or
	// other node ids
	o := *a
	o.scid = c20ySymScid("o.scid")
	o1, o2 := vU8("o.node1.idx"), vU8("o.node2.idx")
	vAssume(o1 < 4 && o2 < 4)
	o.keys[0], o.keys[1] = c20yPub(o1), c20yPub(o2)
	vAssume(o.scid != a.scid || o1 != i1 || o2 != i2)

	this, other := chainhash.DoubleHashB(c20yAnnRef(a)), chainhash.DoubleHashB(c20yAnnRef(&o))
	names := [4]string{"node1", "node2", "btc1", "btc2"}
	var slot [4]c20ySigSlot
	// Which signatures are free (any signer / this or the other message / a
	// corrupted byte): exactly one of the four (free.sig = 0..3; the other
	// three are then authentic), or all four (free.sig = 4: costs 3-6 minutes
	// of solver time per shard, thorough tier).
	free := vChoice("free.sig", 5)
	owner := [4]uint8{i1, i2, b1, b2}
	for k := 0; k < 4; k++ {
		if free == 4 || free == k {
			slot[k] = c20ySlot(names[k] + ".sig")
		} else {
			slot[k] = c20ySigSlot{signer: owner[k]}
		}
	}
	if c20yStrictClosed {
		vAssume(cval == 0)
		for k := 0; k < 4; k++ {
			vAssume(slot[k].other == 0 && slot[k].val == 0)
		}
		vAssume(slot[0].signer == i1 && slot[1].signer == i2 && slot[2].signer == b1 && slot[3].signer == b2)
	}
	w := c20yAnnWire(a)
	w.NodeSig1 = slot[0].make(this, other)
	w.NodeSig2 = slot[1].make(this, other)
	w.BitcoinSig1 = slot[2].make(this, other)
	w.BitcoinSig2 = slot[3].make(this, other)

	// --- the chain ------------------------------------------------------
	// what the outputs of the funding block pay to: the 2-of-2 of the
	// announced bitcoin keys with one byte of the script xored (0 = intact),
	// or the 2-of-2 of two OTHER keys
	pays := vChoice("pays", 2)
	var script []byte
	if pays == 0 {
		script = c20yFundingRef(a.keys[2][:], a.keys[3][:])
	} else {
		script = c20yFundingRef(c20yPubs[0][:], c20yPubs[b2][:])
	}
	paysOK := uint8(0)
	if pays == 0 {
		spos, sval := vU8("script.pos"), vU8("script.val")
		vAssume(spos < 34)
		for j := range script {
			hit := byte((uint16(uint8(j)^spos) - 1) >> 8)
			script[j] ^= sval & hit
		}
		paysOK = c20yB(sval == 0)
	}
	value := vI64("value")
	vAssume(value >= 0 && value <= 21_000_000*100_000_000)
	chain := &c20yChain{script: script, value: value}

	// --- the gossiper ---------------------------------------------------
	isRemote := vChoice("remote", 2) == 1
	isAlias := vChoice("alias", 2) == 1
	g := &c20yCGraph{known: vBool("known")}
	closer := &c20yCloser{}
	genesis := c20yGenesisVal
	d := &AuthenticatedGossiper{
		bestHeight: vU32("bestHeight"),
		cfg: &Config{
			ChainParams: &chaincfg.Params{GenesisHash: &genesis},
			Graph:       g,
			ChainIO:     chain,
			ScidCloser:  closer,
			IsAlias:     func(lnwire.ShortChannelID) bool { return isAlias },
		},
		prematureChannelUpdates: lru.NewCache[uint64, *cachedNetworkMsg](maxPrematureUpdates),
		futureMsgs:              newFutureMsgCache(maxFutureMessages),
		channelMtx:              multimutex.NewMutex[uint64](),
		recentRejects:           lru.NewCache[rejectCacheKey, *cachedReject](maxRejectedUpdates),
		banman:                  newBanman(DefaultBanThreshold),
	}
	src, err := btcec.ParsePubKey(c20yPubs[3][:])
	if err != nil {
		panic(err)
	}
	peer := &c20yBanPeer{c20yPeer: c20yPeer{id: src}}
	prom := &c20yPromise{}
	nMsg := &networkMsg{peer: peer, source: src, msg: w, isRemote: isRemote, errPromise: prom}

	// ================= the real code =================
	anns, _ := d.handleChanAnnouncement(context.Background(), nMsg, w)
	// =================================================

	// --- what the property says -----------------------------------------
	const T, F = uint8(1), uint8(0)
	remote, alias := c20yB(isRemote), c20yB(isAlias)
	premature := remote & c20yB(a.scid.BlockHeight > d.bestHeight)
	gate := chainOK & (remote&alias ^ 1) & (premature ^ 1) & (c20yB(g.known) ^ 1)
	allAuth := T
	for k := 0; k < 4; k++ {
		allAuth &= c20yB(slot[k].authentic(a.keys[k]))
	}
	sigOK := remote ^ 1 | allAuth
	skipChain := (remote ^ 1) & alias // only we can announce an alias scid
	found := c20yB(chain.hashAns == 0) & c20yB(a.scid.TxIndex < 2) & c20yB(a.scid.TxPosition < 2)
	fundingOK := found & paysOK & c20yB(chain.utxoAns == 0)

	nAdded, nZombie := len(g.added), len(g.zombies)
	relayed := len(anns) > 0
	parked := d.futureMsgs.Len() > 0
	refused := F
	if prom.calls == 1 && prom.err != nil {
		refused = T
	}
	vAssert(nAdded <= 1 && nZombie <= 1 && len(anns) <= 1 && prom.calls == 1 && len(closer.put) <= 1,
		"one channel announcement causes at most one graph operation and one relay, and is answered exactly once")

	// -- soundness ---------------------------------------------------------
	if nAdded == 1 {
		e := g.added[0]
		vAssert(gate == T, "channel added although it is for another chain / a remote alias / premature / already known")
		vAssert(g.knownAsked == 1 && g.knownScid == a.scid && closer.closedAsked == 1 && closer.closedScid == a.scid && closer.closedAns == 0,
			"channel added although it is in the closed index, or known/closed were asked for another scid")
		vAssert(sigOK == T, "remote channel announcement added although not all four signatures are authentic for their keys")
		vAssert(skipChain|fundingOK == T, "channel added although its funding output does not exist / does not pay to the 2-of-2 of the announced bitcoin keys / is spent")
		var zero route.Vertex
		same := c20yB(e.ChannelID == a.scid.ToUint64()) & c20yB(e.NodeKey1Bytes == a.keys[0]) & c20yB(e.NodeKey2Bytes == a.keys[1]) &
			c20yB(e.BitcoinKey1Bytes.UnwrapOr(zero) == a.keys[2]) & c20yB(e.BitcoinKey2Bytes.UnwrapOr(zero) == a.keys[3]) &
			c20yB(e.ChainHash == a.chain) & c20yB(e.Version == lnwire.GossipVersion1) & c20yB(bytes.Equal(e.ExtraOpaqueData, a.extra))
		vAssert(same == T, "the edge handed to the graph differs from the announcement")
		vAssert((e.AuthProof != nil) == isRemote, "a remote announcement is stored with its proof, a local one without")
		if !(isAlias && !isRemote) {
			want := c20yFundingRef(a.keys[2][:], a.keys[3][:])
			h0, h1 := chain.blk.Transactions[0].TxHash(), chain.blk.Transactions[1].TxHash()
			hashOK := c20yB(chain.utxoOp.Hash == h0)&c20yB(a.scid.TxIndex == 0) | c20yB(chain.utxoOp.Hash == h1)&c20yB(a.scid.TxIndex == 1)
			vAssert(chain.hashAsked == 1 && chain.hashHeight == int64(a.scid.BlockHeight) && chain.utxoAsked == 1, "the chain was asked for another block than the scid's")
			vAssert(hashOK&c20yB(chain.utxoOp.Index == uint32(a.scid.TxPosition))&c20yB(chain.utxoHint == a.scid.BlockHeight)&c20yB(bytes.Equal(chain.utxoScript, want)) == T,
				"the unspent check was made for another outpoint / script than the scid's and the announced keys'")
			vAssert(e.ChannelPoint == chain.utxoOp && int64(e.Capacity) == value, "the edge carries another outpoint / capacity than the chain reported")
		}
	}
	if relayed {
		vAssert(nAdded == 1 && g.addErr == nil && isRemote, "channel announcement relayed although it was not added to the graph or carries no proof")
		vAssert(anns[0].msg == lnwire.Message(w) && anns[0].isRemote == isRemote && anns[0].source == src, "something else than the announcement was relayed")
	}
	if nZombie == 1 {
		definite := c20yB(chain.hashAns == 1) | c20yB(chain.hashAns == 0)&((found^1)|(paysOK^1)|c20yB(chain.utxoAns == 1))
		vAssert(nAdded == 0 && g.zombies[0] == a.scid.ToUint64(), "zombie marking together with AddEdge, or of another channel")
		vAssert(gate&definite == T, "channel marked zombie although its funding output was not found to be missing / mismatching / spent")
	}
	if len(closer.put) == 1 {
		vAssert(chain.utxoAsked == 1 && chain.utxoAns != 0 && closer.put[0] == a.scid && nAdded == 0,
			"scid put into the closed index although the unspent check of its funding output succeeded or was never made")
		if c20yStrictClosed {
			// see NOTES.md, CANDIDATE FINDING: lnd puts the scid into the
			// closed index on ANY GetUtxo failure, not only "spent"
			vAssert(chain.utxoAns == 1, "scid put into the closed index (and the peer's ban score raised) although the chain did not say that the funding output is spent (the lookup failed)")
		}
	}
	if parked {
		vAssert(premature&chainOK&c20yB(nAdded == 0 && nZombie == 0 && !relayed) == T, "announcement parked for a future height although it is not premature, or it changed the graph")
	}

	// -- rejected => answered with an error --------------------------------
	live := gate & c20yB(closer.closedAns == 0)
	vAssert((chainOK^1|chainOK&remote&alias)^1|refused == T, "announcement for another chain / remote alias was not answered with an error")
	vAssert((live&(sigOK^1))^1|refused == T, "announcement with an inauthentic signature was not answered with an error")
	vAssert((live&sigOK&(skipChain^1)&(fundingOK^1))^1|refused == T, "announcement whose funding output is missing / mismatching / spent was not answered with an error")

	// -- completeness ---------------------------------------------------------
	vAssert((live&sigOK&(skipChain|fundingOK))^1|c20yB(nAdded == 1) == T, "fully valid channel announcement was not handed to the graph")
	if nAdded == 1 && g.addErr == nil {
		vAssert(relayed == isRemote && refused == F, "added announcement: relayed iff it carries the proof, answered without error")
	}

	// -- witnesses -----------------------------------------------------------
	vObserve("added", nAdded)
	vObserve("zombie", nZombie)
	vObserve("relayed", relayed)
	vObserve("parked", parked)
	switch {
	case nAdded == 1 && relayed:
		vReach("added-relayed")
	case nAdded == 1 && g.addErr != nil:
		vReach("added-store-error")
	case nAdded == 1:
		vReach("added-local")
	case chainOK == F:
		vReach("reject-chain")
	case isRemote && isAlias:
		vReach("reject-remote-alias")
	case parked:
		vReach("premature-parked")
	case g.known:
		vReach("ignored-known")
	case closer.closedAns == 1:
		vReach("reject-closed")
	case closer.closedAns == 2:
		vReach("reject-closed-lookup-error")
	case sigOK == F:
		vReach("reject-signature")
	case chain.hashAns == 1:
		vReach("reject-no-block")
	case chain.hashAns == 2:
		vReach("reject-rpc-error")
	case a.scid.TxIndex >= 2:
		vReach("reject-tx-index")
	case a.scid.TxPosition >= 2:
		vReach("reject-output-index")
	case paysOK == F:
		vReach("reject-wrong-script")
	case chain.utxoAns == 1:
		vReach("reject-spent")
	default:
		vReach("reject-utxo-error")
	}
}

var _ = errors.New
