package contractcourt

// C13, extension 1: what relaunchResolvers supplements after a restart in
// StateWaitingFullResolution.
//
// The resolvers restored from the log carry only a fragment of their HTLC
// (htlcTimeoutResolver: HtlcIndex; htlcSuccessResolver: RHash). After a
// restart relaunchResolvers looks the rest up by OUTPOINT in the persisted
// CommitSet and hands it to Supplement. Output indexes are per commitment
// transaction: the same index denotes different HTLCs on the local, the
// remote and the pending remote commitment. The obligation of this file:
// after the restart every live HTLC resolver carries exactly the HTLC that the
// CONFIRMED commitment has at the resolver's output index - the HTLC the
// resolver of the same contract carried in the uninterrupted run - also when
// another commitment of the CommitSet has a different HTLC at that index.
//
// World, fakes, restart model and the run-equivalence oracle (c13Check) are
// those of zz_verif_c13.go. New here: HTLC sets whose output indexes are
// symbolic and chosen per commitment (the solver decides which of them
// collide), the content oracle c13sCheck and the probes: the resolvers' own
// reporting functions (checkpointStageOne -> fail-back ResolutionMsg,
// processFinalHtlcFail / checkpointClaim -> PutFinalHtlcOutcome) are run on
// the live resolver objects of both runs and what they send upstream is
// compared.

import (
	"bytes"

	"github.com/btcsuite/btcd/chainhash/v2"
	"github.com/btcsuite/btcd/wire/v2"
	"github.com/lightningnetwork/lnd/channeldb"
	"github.com/lightningnetwork/lnd/graph/db/models"
	"github.com/lightningnetwork/lnd/lnwire"
)

// c13sHtlc: one HTLC, every field that survives encodeCommitSet symbolic
// (payment hash and onion blob: first byte).
func c13sHtlc(sc *c13Scenario, name string, incoming bool) channeldb.HTLC {
	h := channeldb.HTLC{
		Incoming:      incoming,
		Amt:           lnwire.MilliSatoshi(vU64(name + ".amt")),
		HtlcIndex:     vU64(name + ".idx"),
		LogIndex:      vU64(name + ".logidx"),
		RefundTimeout: vU32(name + ".expiry"),
	}
	h.RHash[0] = vU8(name + ".hash")
	h.OnionBlob[0] = vU8(name + ".onion")
	// Domain as in zz_verif_c13.go / C12: expiry - delta does not wrap.
	delta := sc.outDelta
	if incoming {
		delta = sc.inDelta
	}
	sc.dom = sc.dom && h.RefundTimeout >= delta && h.RefundTimeout < 1<<31

	return h
}

// c13sAt places an HTLC on one commitment transaction. The output index is
// symbolic and independent per commitment. Domain: a non-negative int32
// (no dust HTLCs in this entry: they have no resolver) different from 0, the
// index at which this harness puts the commit output (outputs of one
// transaction have distinct indexes).
func c13sAt(sc *c13Scenario, h channeldb.HTLC, name string) channeldb.HTLC {
	h.OutputIndex = vI32(name)
	sc.dom = sc.dom && h.OutputIndex >= 1

	return h
}

// c13sDistinct: outputs of one commitment transaction have distinct indexes;
// HTLCs of one direction have distinct HTLC indexes (update_add_htlc ids).
func c13sDistinct(sc *c13Scenario) {
	for c := range sc.htlcs {
		set := sc.htlcs[c]
		for i := range set {
			for j := i + 1; j < len(set); j++ {
				sc.dom = sc.dom &&
					set[i].OutputIndex != set[j].OutputIndex
				if set[i].Incoming == set[j].Incoming {
					sc.dom = sc.dom &&
						set[i].HtlcIndex != set[j].HtlcIndex
				}
			}
		}
	}
}

// c13sScenario: a force close (local / remote / pending remote commitment
// confirms) with HTLC outputs, no first stimulus.
//
//	shape 0: offered x and received y on L and R
//	shape 1: offered x on L, R and the pending remote commitment, offered z
//	         on the pending remote commitment only
//	shape 2: x and y on L, R and the pending remote commitment, z on the
//	         pending remote commitment only
//
// Every placement has its own symbolic output index.
func c13sScenario(shape int) *c13Scenario {
	const l, r, p = 0, 1, 2
	sc := &c13Scenario{dom: true}
	sc.first = c13FirstNone
	sc.closeKind = c13CloseLocal + vChoice("conf", 3)
	sc.hasCommit = true
	sc.inDelta = vU32("inDelta")
	sc.outDelta = vU32("outDelta")
	sc.preimages = vU8("preimageCache")
	sc.forwarded = vU16("forwardedMask")
	sc.dom = sc.dom && sc.inDelta < 1<<16 && sc.outDelta < 1<<16

	x := c13sHtlc(sc, "x", false)
	switch shape {
	case 0:
		y := c13sHtlc(sc, "y", true)
		sc.htlcs[l] = append(sc.htlcs[l],
			c13sAt(sc, x, "x.outL"), c13sAt(sc, y, "y.outL"))
		sc.htlcs[r] = append(sc.htlcs[r],
			c13sAt(sc, x, "x.outR"), c13sAt(sc, y, "y.outR"))

	case 1:
		z := c13sHtlc(sc, "z", false)
		sc.rpExists = true
		sc.htlcs[l] = append(sc.htlcs[l], c13sAt(sc, x, "x.outL"))
		sc.htlcs[r] = append(sc.htlcs[r], c13sAt(sc, x, "x.outR"))
		sc.htlcs[p] = append(sc.htlcs[p],
			c13sAt(sc, x, "x.outP"), c13sAt(sc, z, "z.outP"))

	case 2:
		y := c13sHtlc(sc, "y", true)
		z := c13sHtlc(sc, "z", false)
		sc.rpExists = true
		sc.htlcs[l] = append(sc.htlcs[l],
			c13sAt(sc, x, "x.outL"), c13sAt(sc, y, "y.outL"))
		sc.htlcs[r] = append(sc.htlcs[r],
			c13sAt(sc, x, "x.outR"), c13sAt(sc, y, "y.outR"))
		sc.htlcs[p] = append(sc.htlcs[p],
			c13sAt(sc, x, "x.outP"), c13sAt(sc, y, "y.outP"),
			c13sAt(sc, z, "z.outP"))
	}
	c13sDistinct(sc)
	if sc.closeKind == c13CloseRemotePending && !sc.rpExists {
		vAssume(false)
	}

	sc.spendHeight = vU32("spendHeight")
	sc.dom = sc.dom && sc.spendHeight < 1<<31
	for i := range sc.bestHeight {
		sc.bestHeight[i] = vU32("bestHeight")
		sc.dom = sc.dom && sc.bestHeight[i] < 1<<31
		if i > 0 {
			sc.dom = sc.dom && sc.bestHeight[i] >= sc.bestHeight[i-1]
		}
	}

	return sc
}

// runTrace is c13World.run, and records the log state every process start
// finds.
func (w *c13World) runTrace() (found []ArbitratorState) {
	for {
		found = append(found, w.state)
		crashed := w.life()
		w.perLife = append(w.perLife, w.effects)
		if !crashed {
			return found
		}
		w.lives++
		w.effects = 0
	}
}

// ------------------------------------------------------------- probes ----

// c13sObs: one live HTLC resolver: its identity, the HTLC it carries and
// what its reporting code sends upstream.
type c13sObs struct {
	key  []byte
	rtyp resolverType
	op   wire.OutPoint
	htlc channeldb.HTLC

	// outgoing: ResolutionMsg sent by the real checkpointStageOne
	msgs    int
	msgIdx  uint64
	msgFail bool

	// incoming: PutFinalHtlcOutcome calls made by the real
	// processFinalHtlcFail (contest resolver) and checkpointClaim
	finals     int
	failIdx    uint64 // reported as finally failed
	settleIdx  uint64 // reported as finally settled
	hasFail    bool
	hasSettle  bool
	notifyIdxs [2]uint64
	probeErrs  int
}

type c13sNotifier struct{ o *c13sObs }

func (n c13sNotifier) NotifyFinalHtlcEvent(k models.CircuitKey,
	info channeldb.FinalHtlcInfo) {

	if info.Settled {
		n.o.notifyIdxs[1] = k.HtlcID
	} else {
		n.o.notifyIdxs[0] = k.HtlcID
	}
}

// c13sWire redirects what the resolver sends out of the process to the
// observation record. The checkpoint is a no-op: the probe must not change
// the world that c13Check has judged.
func c13sWire(kit *contractResolverKit, o *c13sObs) {
	kit.DeliverResolutionMsg = func(msgs ...ResolutionMsg) error {
		for _, m := range msgs {
			o.msgs++
			o.msgIdx = m.HtlcIndex
			o.msgFail = m.Failure != nil && m.PreImage == nil
		}

		return nil
	}
	kit.PutFinalHtlcOutcome = func(_ lnwire.ShortChannelID, id uint64,
		settled bool) error {

		o.finals++
		if settled {
			o.settleIdx, o.hasSettle = id, true
		} else {
			o.failIdx, o.hasFail = id, true
		}

		return nil
	}
	kit.HtlcNotifier = c13sNotifier{o: o}
	kit.Checkpoint = func(ContractResolver,
		...*channeldb.ResolverReport) error {

		return nil
	}
}

func c13sProbeOutgoing(r *htlcTimeoutResolver, o *c13sObs) {
	o.op = r.HtlcPoint()
	o.htlc = r.htlc
	c13sWire(&r.contractResolverKit, o)
	// the second-level timeout transaction confirmed: fail back upstream
	if err := r.checkpointStageOne(chainhash.Hash{0x77}); err != nil {
		o.probeErrs++
	}
}

func c13sProbeIncoming(r *htlcSuccessResolver,
	contest *htlcIncomingContestResolver, o *c13sObs) {

	o.op = r.HtlcPoint()
	o.htlc = r.htlc
	c13sWire(&r.contractResolverKit, o)
	if contest != nil {
		// the HTLC timed out before we learnt the preimage
		if err := contest.processFinalHtlcFail(); err != nil {
			o.probeErrs++
		}
	}
	// the success path: our claim of the output confirmed
	op := r.HtlcPoint()
	if err := r.checkpointClaim(op, &chainhash.Hash{0x78}); err != nil {
		o.probeErrs++
	}
}

// probe: observations of all live HTLC resolvers of the running process.
func (w *c13World) probe() []*c13sObs {
	var out []*c13sObs
	if w.arb == nil {
		return out
	}
	for _, res := range w.arb.activeResolvers {
		o := &c13sObs{key: res.ResolverKey(), rtyp: c13TypeOf(res)}
		switch r := res.(type) {
		case *htlcTimeoutResolver:
			c13sProbeOutgoing(r, o)
		case *htlcOutgoingContestResolver:
			c13sProbeOutgoing(r.htlcTimeoutResolver, o)
		case *htlcSuccessResolver:
			c13sProbeIncoming(r, nil, o)
		case *htlcIncomingContestResolver:
			c13sProbeIncoming(r.htlcSuccessResolver, r, o)
		default:
			continue
		}
		out = append(out, o)
	}

	return out
}

// -------------------------------------------------------------- oracle ----

func c13sSameHtlc(a, b *channeldb.HTLC) bool {
	return a.HtlcIndex == b.HtlcIndex && a.Incoming == b.Incoming &&
		a.RHash == b.RHash && a.Amt == b.Amt &&
		a.RefundTimeout == b.RefundTimeout &&
		a.OutputIndex == b.OutputIndex && a.LogIndex == b.LogIndex &&
		a.OnionBlob[0] == b.OnionBlob[0]
}

// c13sReportsFor: what the probes must have sent upstream for HTLC g.
func c13sReportsFor(o *c13sObs, g *channeldb.HTLC) bool {
	if g.Incoming {
		ok := o.msgs == 0 && o.hasSettle && o.settleIdx == g.HtlcIndex &&
			o.notifyIdxs[1] == g.HtlcIndex
		if o.rtyp == resolverIncomingContest {
			ok = ok && o.finals == 2 && o.hasFail &&
				o.failIdx == g.HtlcIndex &&
				o.notifyIdxs[0] == g.HtlcIndex
		} else {
			ok = ok && o.finals == 1 && !o.hasFail
		}

		return ok
	}

	return o.finals == 0 && o.msgs == 1 && o.msgFail &&
		o.msgIdx == g.HtlcIndex
}

func (w *c13World) confSet() int {
	switch w.sc.closeKind {
	case c13CloseLocal:
		return 0
	case c13CloseRemotePending:
		return 2
	}

	return 1
}

// c13sMatchesConfirmed: the resolver carries, and reports upstream for, the
// HTLC that the confirmed commitment has at the resolver's outpoint. Stated
// on the scenario, independent of both runs.
func c13sMatchesConfirmed(w *c13World, obs []*c13sObs) bool {
	ok := true
	hash := w.commitHash()
	for _, o := range obs {
		found := false
		for i := range w.sc.htlcs[w.confSet()] {
			g := &w.sc.htlcs[w.confSet()][i]
			found = found || (o.op.Hash == hash &&
				o.op.Index == uint32(g.OutputIndex) &&
				c13sSameHtlc(&o.htlc, g) &&
				c13sReportsFor(o, g) &&
				(o.rtyp == resolverTimeout ||
					o.rtyp == resolverOutgoingContest) == !g.Incoming)
		}
		ok = ok && found && o.probeErrs == 0
	}

	return ok
}

// c13sCovered: every HTLC output of the confirmed commitment has a live
// resolver (none lost by the restart).
func c13sCovered(w *c13World, obs []*c13sObs) bool {
	ok := true
	for i := range w.sc.htlcs[w.confSet()] {
		g := &w.sc.htlcs[w.confSet()][i]
		found := false
		for _, o := range obs {
			found = found || o.op.Index == uint32(g.OutputIndex)
		}
		ok = ok && found
	}

	return ok
}

func c13sObsSubset(a, b []*c13sObs) bool {
	ok := true
	for _, x := range a {
		found := false
		for _, y := range b {
			found = found || (x.rtyp == y.rtyp &&
				bytes.Equal(x.key, y.key) && x.op == y.op &&
				c13sSameHtlc(&x.htlc, &y.htlc) &&
				x.msgs == y.msgs && x.msgIdx == y.msgIdx &&
				x.msgFail == y.msgFail && x.finals == y.finals &&
				x.hasFail == y.hasFail && x.failIdx == y.failIdx &&
				x.hasSettle == y.hasSettle &&
				x.settleIdx == y.settleIdx)
		}
		ok = ok && found
	}

	return ok
}

// c13sCollides: some live resolver's output index is, on ANOTHER commitment
// of the commit set, the output index of a DIFFERENT HTLC.
func c13sCollides(w *c13World, obs []*c13sObs) bool {
	hit := false
	for _, o := range obs {
		for c := range w.sc.htlcs {
			if c == w.confSet() {
				continue
			}
			for i := range w.sc.htlcs[c] {
				g := &w.sc.htlcs[c][i]
				hit = hit || (o.op.Index == uint32(g.OutputIndex) &&
					(g.HtlcIndex != o.htlc.HtlcIndex ||
						g.Incoming != o.htlc.Incoming))
			}
		}
	}

	return hit
}

const (
	c13sMsgRestart = "the stop after the last effect of the close handling makes the next process start in StateWaitingFullResolution"
	c13sMsgConf    = "every live HTLC resolver carries, and reports upstream for, exactly the HTLC (HtlcIndex, RHash, Amt, RefundTimeout, direction, ...) that the CONFIRMED commitment has at the resolver's output index"
	c13sMsgConfB   = "after a restart in StateWaitingFullResolution every relaunched HTLC resolver carries, and reports upstream for, exactly the HTLC that the CONFIRMED commitment has at the resolver's output index (also when another commitment of the commit set has a different HTLC at that index)"
	c13sMsgSame    = "after the restart the HTLC resolvers carry the same HTLCs and send the same fail-backs / final outcomes upstream as the resolvers of the uninterrupted run"
	c13sMsgCover   = "every HTLC output of the confirmed commitment has a live resolver, before and after the restart"
)

func c13Supp(shape int) {
	c13Config()
	sc := c13sScenario(shape)
	vAssume(sc.dom)

	// the uninterrupted run
	a := c13NewWorld(sc)
	a.runTrace()
	n := a.perLife[0]
	if n == 0 || a.state != StateWaitingFullResolution {
		vAssume(false)
	}

	// stop after the last effect = CommitState(StateWaitingFullResolution):
	// the only stop point of these runs after which a process starts in
	// StateWaitingFullResolution (the earlier ones are VerifC13ResumeHtlc's)
	b := c13NewWorld(sc, n-1)
	found := b.runTrace()
	vAssert(b.lives == 1 && len(found) == 2 &&
		found[1] == StateWaitingFullResolution, c13sMsgRestart)

	c13Check(a, b)

	oa, ob := a.probe(), b.probe()
	vObserve("resolvers", len(oa))
	vAssert(c13sMatchesConfirmed(a, oa), c13sMsgConf)
	vAssert(c13sMatchesConfirmed(b, ob), c13sMsgConfB)
	vAssert(c13sObsSubset(oa, ob) && c13sObsSubset(ob, oa), c13sMsgSame)
	vAssert(c13sCovered(a, oa) && c13sCovered(b, ob), c13sMsgCover)

	if len(ob) > 0 {
		vReach("supp-relaunched")
	}
	for _, o := range ob {
		switch o.rtyp {
		case resolverTimeout:
			vReach("supp-timeout")
		case resolverOutgoingContest:
			vReach("supp-outgoing-contest")
		case resolverIncomingContest:
			vReach("supp-incoming-contest")
		case resolverSuccess:
			vReach("supp-success")
		}
	}
	if c13sCollides(b, ob) {
		vReach("supp-index-collision")
	}
}

// VerifC13Supplement: shapes 0 and 1 (two HTLCs per commitment at most).
func VerifC13Supplement() { c13Supp(vChoice("shape", 2)) }

// VerifC13SupplementDeep: shape 2 (three commitments, up to three HTLCs).
func VerifC13SupplementDeep() { c13Supp(2) }
