package contractcourt

// C13, part 2: round trip of the briefcase codecs the restart depends on.
// What boltArbitratorLog writes (LogContractResolutions,
// InsertConfirmedCommitSet) is produced by these encoders and read back by
// the matching decoders after a restart; the bolt transaction code around
// them needs a kvdb backend and is outside.

import (
	"bytes"

	"github.com/btcsuite/btcd/wire/v2"
	"github.com/lightningnetwork/lnd/channeldb"
	"github.com/lightningnetwork/lnd/fn/v2"
	"github.com/lightningnetwork/lnd/input"
	"github.com/lightningnetwork/lnd/keychain"
	"github.com/lightningnetwork/lnd/lnwallet"
	"github.com/lightningnetwork/lnd/lnwire"
)

func c13SymHtlc(name string, withSig bool) channeldb.HTLC {
	h := channeldb.HTLC{
		Amt:           lnwire.MilliSatoshi(vU64(name + ".amt")),
		RefundTimeout: vU32(name + ".expiry"),
		OutputIndex:   vI32(name + ".outputIndex"),
		Incoming:      vBool(name + ".incoming"),
		HtlcIndex:     vU64(name + ".idx"),
		LogIndex:      vU64(name + ".logIdx"),
	}
	copy(h.RHash[:], vBytes(name+".hash", 32))
	h.OnionBlob[0] = vU8(name + ".onion0")
	h.OnionBlob[lnwire.OnionPacketSize-1] = vU8(name + ".onionN")
	if withSig {
		h.Signature = vBytes(name+".sigBytes", 3)
	}

	return h
}

func c13HtlcEq(x, y *channeldb.HTLC) bool {
	return x.Amt == y.Amt && x.RefundTimeout == y.RefundTimeout &&
		x.OutputIndex == y.OutputIndex && x.Incoming == y.Incoming &&
		x.HtlcIndex == y.HtlcIndex && x.LogIndex == y.LogIndex &&
		x.RHash == y.RHash && x.OnionBlob == y.OnionBlob &&
		bytes.Equal(x.Signature, y.Signature)
}

// VerifC13CodecCommitSet: decodeCommitSet(encodeCommitSet(cs)) == cs for a
// commit set with up to three HTLC sets of 0..2 HTLCs with arbitrary fields
// (five size patterns, each confirmed key).
func VerifC13CodecCommitSet() {
	keys := [3]HtlcSetKey{LocalHtlcSet, RemoteHtlcSet, RemotePendingHtlcSet}
	names := [3]string{"L", "R", "P"}
	hn := [2]string{".h0", ".h1"}
	conf := vChoice("confirmed", 3)
	cs := &CommitSet{
		ConfCommitKey: fn.Some(keys[conf]),
		HtlcSets:      make(map[HtlcSetKey][]channeldb.HTLC),
	}
	// sizes of the three sets (3 = the set is absent)
	shapes := [5][3]int{{2, 1, 3}, {0, 2, 1}, {1, 0, 2}, {1, 1, 1}, {3, 3, 3}}
	shape := shapes[vChoice("shape", 5)]
	withSig := vChoice("sig", 2) == 1
	present := 0
	for i := 0; i < 3; i++ {
		n := shape[i]
		if n == 3 {
			continue
		}
		present++
		var hs []channeldb.HTLC
		for k := 0; k < n; k++ {
			hs = append(hs, c13SymHtlc(names[i]+hn[k], withSig && k == 0))
		}
		cs.HtlcSets[keys[i]] = hs
	}

	var b bytes.Buffer
	err := encodeCommitSet(&b, cs)
	vAssert(err == nil, "codec: encodeCommitSet succeeds")
	got, err := decodeCommitSet(bytes.NewReader(b.Bytes()))
	vAssert(err == nil, "codec: decodeCommitSet reads what encodeCommitSet wrote")
	if err != nil {
		return
	}

	ok := got.ConfCommitKey == cs.ConfCommitKey && len(got.HtlcSets) == present
	for i := 0; i < 3; i++ {
		want, inW := cs.HtlcSets[keys[i]]
		have, inH := got.HtlcSets[keys[i]]
		ok = ok && inW == inH && len(want) == len(have)
		if inW && inH && len(want) == len(have) {
			for k := range want {
				ok = ok && c13HtlcEq(&want[k], &have[k])
			}
		}
	}
	vAssert(ok, "codec: the decoded commit set (confirmed key, which sets exist, every HTLC field) equals the encoded one")
	if present == 3 {
		vReach("three-sets")
	}
}

func c13SymSignDesc(name string) input.SignDescriptor {
	sd := input.SignDescriptor{
		KeyDesc: keychain.KeyDescriptor{
			KeyLocator: keychain.KeyLocator{
				Family: keychain.KeyFamily(vU32(name + ".family")),
				Index:  vU32(name + ".index"),
			},
		},
		Output: &wire.TxOut{
			Value:    vI64(name + ".value"),
			PkScript: vBytes(name+".pkScript", 4),
		},
	}
	if vChoice(name+".tweak", 2) == 1 {
		sd.SingleTweak = vBytes(name+".singleTweak", 32)
	}
	sd.WitnessScript = vBytes(name+".witnessScript", 5)
	sd.HashType = 1

	return sd
}

func c13SignDescEq(x, y *input.SignDescriptor) bool {
	return x.KeyDesc.Family == y.KeyDesc.Family &&
		x.KeyDesc.Index == y.KeyDesc.Index &&
		(x.KeyDesc.PubKey == nil) == (y.KeyDesc.PubKey == nil) &&
		bytes.Equal(x.SingleTweak, y.SingleTweak) &&
		(x.DoubleTweak == nil) == (y.DoubleTweak == nil) &&
		bytes.Equal(x.WitnessScript, y.WitnessScript) &&
		x.Output != nil && y.Output != nil &&
		x.Output.Value == y.Output.Value &&
		bytes.Equal(x.Output.PkScript, y.Output.PkScript) &&
		x.HashType == y.HashType
}

func c13SymOutPoint(name string) wire.OutPoint {
	var op wire.OutPoint
	copy(op.Hash[:], vBytes(name+".hash", 32))
	op.Index = vU32(name + ".index")

	return op
}

// VerifC13CodecResolutions: the per-resolution codecs used by
// LogContractResolutions / FetchContractResolutions and by the resolvers.
func VerifC13CodecResolutions() {
	// commit output
	c := lnwallet.CommitOutputResolution{
		SelfOutPoint:       c13SymOutPoint("commit.op"),
		SelfOutputSignDesc: c13SymSignDesc("commit.sd"),
		MaturityDelay:      vU32("commit.delay"),
	}
	var b bytes.Buffer
	vAssert(encodeCommitResolution(&b, &c) == nil, "codec: encodeCommitResolution succeeds")
	var c2 lnwallet.CommitOutputResolution
	err := decodeCommitResolution(bytes.NewReader(b.Bytes()), &c2)
	vAssert(err == nil && c2.SelfOutPoint == c.SelfOutPoint &&
		c2.MaturityDelay == c.MaturityDelay &&
		c13SignDescEq(&c.SelfOutputSignDesc, &c2.SelfOutputSignDesc),
		"codec: commit resolution round trip")

	// anchor
	a := lnwallet.AnchorResolution{
		AnchorSignDescriptor: c13SymSignDesc("anchor.sd"),
		CommitAnchor:         c13SymOutPoint("anchor.op"),
	}
	b.Reset()
	vAssert(encodeAnchorResolution(&b, &a) == nil, "codec: encodeAnchorResolution succeeds")
	var a2 lnwallet.AnchorResolution
	err = decodeAnchorResolution(bytes.NewReader(b.Bytes()), &a2)
	vAssert(err == nil && a2.CommitAnchor == a.CommitAnchor &&
		c13SignDescEq(&a.AnchorSignDescriptor, &a2.AnchorSignDescriptor),
		"codec: anchor resolution round trip")

	// breach
	br := BreachResolution{FundingOutPoint: c13SymOutPoint("breach.op")}
	b.Reset()
	vAssert(encodeBreachResolution(&b, &br) == nil, "codec: encodeBreachResolution succeeds")
	var br2 BreachResolution
	err = decodeBreachResolution(bytes.NewReader(b.Bytes()), &br2)
	vAssert(err == nil && br2.FundingOutPoint == br.FundingOutPoint,
		"codec: breach resolution round trip")

	// incoming HTLC
	in := lnwallet.IncomingHtlcResolution{
		CsvDelay:      vU32("in.csv"),
		ClaimOutpoint: c13SymOutPoint("in.op"),
		SweepSignDesc: c13SymSignDesc("in.sd"),
	}
	copy(in.Preimage[:], vBytes("in.preimage", 32))
	b.Reset()
	vAssert(encodeIncomingResolution(&b, &in) == nil, "codec: encodeIncomingResolution succeeds")
	var in2 lnwallet.IncomingHtlcResolution
	err = decodeIncomingResolution(bytes.NewReader(b.Bytes()), &in2)
	vAssert(err == nil && in2.Preimage == in.Preimage &&
		in2.SignedSuccessTx == nil && in2.CsvDelay == in.CsvDelay &&
		in2.ClaimOutpoint == in.ClaimOutpoint &&
		c13SignDescEq(&in.SweepSignDesc, &in2.SweepSignDesc),
		"codec: incoming HTLC resolution round trip")

	// outgoing HTLC
	out := lnwallet.OutgoingHtlcResolution{
		Expiry:        vU32("out.expiry"),
		CsvDelay:      vU32("out.csv"),
		ClaimOutpoint: c13SymOutPoint("out.op"),
		SweepSignDesc: c13SymSignDesc("out.sd"),
	}
	b.Reset()
	vAssert(encodeOutgoingResolution(&b, &out) == nil, "codec: encodeOutgoingResolution succeeds")
	var out2 lnwallet.OutgoingHtlcResolution
	err = decodeOutgoingResolution(bytes.NewReader(b.Bytes()), &out2)
	vAssert(err == nil && out2.Expiry == out.Expiry &&
		out2.SignedTimeoutTx == nil && out2.CsvDelay == out.CsvDelay &&
		out2.ClaimOutpoint == out.ClaimOutpoint &&
		c13SignDescEq(&out.SweepSignDesc, &out2.SweepSignDesc),
		"codec: outgoing HTLC resolution round trip")

	// absent sign details
	b.Reset()
	vAssert(encodeSignDetails(&b, nil) == nil, "codec: encodeSignDetails(nil) succeeds")
	sd, err := decodeSignDetails(bytes.NewReader(b.Bytes()))
	vAssert(err == nil && sd == nil, "codec: absent sign details round trip")
	vReach("codec-done")
}
