package contractcourt

// C13y: what a resolver's Checkpoint persists.
//
// Resolvers that a restarted process RESTORED from the bolt log get their
// Checkpoint closure from boltArbitratorLog.FetchUnresolvedContracts
// (-> b.checkpointContract, briefcase.go). One-step oracle over the real
// boltArbitratorLog on the fake kvdb of zz_verif_c13_bolt.go:
//
//	insert six resolvers (one of every type the log can hold) with the real
//	InsertUnresolvedContracts          -> a FRESH log reads back what was inserted
//	pick one (vChoice kind), give every persisted non-key field of the
//	restored object a new symbolic value (resolved flag, outputIncubating,
//	heights, preimage, ...), call its real Checkpoint(r, 0..1 report)
//	                                   -> a FRESH log reads back the checkpointed
//	                                      values, the report is in the store,
//	                                      the five other contracts are untouched
//	contest resolvers: real SwapContract(contest, inner resolver)
//	                                   -> a FRESH log reads the inner resolver
//	                                      (type changed, same values), rest untouched
//
// The oracle compares the decoded resolver objects FIELD BY FIELD with the
// values the harness drew (not Encode bytes against Encode bytes).

import (
	"bytes"

	"github.com/btcsuite/btcd/btcutil/v2"
	"github.com/btcsuite/btcd/wire/v2"
	"github.com/lightningnetwork/lnd/channeldb"
	"github.com/lightningnetwork/lnd/lnwallet"
)

const (
	c13yTimeout = iota
	c13ySuccess
	c13yOutContest
	c13yInContest
	c13yCommitSweep
	c13yBreach
	c13yNumKinds
)

// outpoint index (on the commitment c13CommitHash) of each resolver; the
// breach resolver is keyed by the channel point.
var c13yIndex = [c13yNumKinds]uint32{4, 5, 2, 3, 0, 0}

// c13yVals: every persisted field of the six resolver types (the union).
type c13yVals struct {
	// outgoing (timeout / outgoing contest)
	expiry    uint32
	htlcIndex uint64
	// incoming (success / incoming contest)
	preimage   [32]byte
	rhash      [32]byte
	htlcExpiry uint32 // incoming contest only
	// both HTLC kinds
	csv        uint32
	incubating bool
	// commit sweep
	maturity  uint32
	chanPoint wire.OutPoint
	// all
	value    int64  // sign descriptor output value
	height   uint32 // broadcastHeight / confirmHeight
	resolved bool
}

// c13ySym draws the values of one resolver. The two state flags are symbolic
// for the resolver under judgement and false for the bystanders (path count).
func c13ySym(name string, kind int, flags bool) c13yVals {
	var v c13yVals
	v.value = vI64(name + ".value")
	v.height = vU32(name + ".height")
	if flags {
		v.resolved = vBool(name + ".resolved")
	}
	switch kind {
	case c13yTimeout, c13yOutContest:
		v.expiry = vU32(name + ".expiry")
		v.htlcIndex = vU64(name + ".htlcIndex")
		v.csv = vU32(name + ".csv")
		if flags {
			v.incubating = vBool(name + ".incubating")
		}

	case c13ySuccess, c13yInContest:
		copy(v.preimage[:], vBytes(name+".preimage", 32))
		copy(v.rhash[:], vBytes(name+".rhash", 32))
		v.csv = vU32(name + ".csv")
		if flags {
			v.incubating = vBool(name + ".incubating")
		}
		if kind == c13yInContest {
			v.htlcExpiry = vU32(name + ".htlcExpiry")
		}

	case c13yCommitSweep:
		v.maturity = vU32(name + ".maturity")
		copy(v.chanPoint.Hash[:], vBytes(name+".chanPoint.hash", 32))
		v.chanPoint.Index = vU32(name + ".chanPoint.index")

	case c13yBreach:
		// the resolved flag is all a breach resolver persists
		v.value, v.height = 0, 0
	}

	return v
}

func c13yOp(kind int) wire.OutPoint {
	if kind == c13yBreach {
		return c13ChanPoint
	}

	return wire.OutPoint{Hash: c13CommitHash, Index: c13yIndex[kind]}
}

func c13yKey(kind int) []byte {
	k := newResolverID(c13yOp(kind))

	return k[:]
}

// c13yBuild constructs a resolver of the kind through lnd's constructor and
// gives its state fields the drawn values.
func c13yBuild(kind int, v *c13yVals, rcfg ResolverConfig) ContractResolver {
	switch kind {
	case c13yTimeout, c13yOutContest:
		res := lnwallet.OutgoingHtlcResolution{
			Expiry:        v.expiry,
			ClaimOutpoint: c13yOp(kind),
			SweepSignDesc: c13SignDesc(v.value),
			CsvDelay:      v.csv,
		}
		h := channeldb.HTLC{
			HtlcIndex:     v.htlcIndex,
			RefundTimeout: v.expiry,
			OutputIndex:   int32(c13yIndex[kind]),
		}
		if kind == c13yOutContest {
			oc := newOutgoingContestResolver(res, v.height, h, 0, rcfg)
			oc.outputIncubating = v.incubating
			oc.resolved.Store(v.resolved)

			return oc
		}
		t := newTimeoutResolver(res, v.height, h, 0, rcfg)
		t.outputIncubating = v.incubating
		t.resolved.Store(v.resolved)

		return t

	case c13ySuccess, c13yInContest:
		res := lnwallet.IncomingHtlcResolution{
			Preimage:      v.preimage,
			ClaimOutpoint: c13yOp(kind),
			SweepSignDesc: c13SignDesc(v.value),
			CsvDelay:      v.csv,
		}
		h := channeldb.HTLC{
			Incoming:      true,
			RHash:         v.rhash,
			RefundTimeout: v.htlcExpiry,
			OutputIndex:   int32(c13yIndex[kind]),
		}
		if kind == c13yInContest {
			ic := newIncomingContestResolver(res, v.height, h, 0, rcfg)
			ic.outputIncubating = v.incubating
			ic.resolved.Store(v.resolved)

			return ic
		}
		s := newSuccessResolver(res, v.height, h, 0, rcfg)
		s.outputIncubating = v.incubating
		s.resolved.Store(v.resolved)

		return s

	case c13yCommitSweep:
		sw := newCommitSweepResolver(lnwallet.CommitOutputResolution{
			SelfOutPoint:       c13yOp(kind),
			SelfOutputSignDesc: c13SignDesc(v.value),
			MaturityDelay:      v.maturity,
		}, v.height, v.chanPoint, rcfg)
		sw.resolved.Store(v.resolved)

		return sw
	}
	b := newBreachResolver(rcfg)
	b.resolved.Store(v.resolved)

	return b
}

// c13yApply: the restored resolver makes progress - every persisted field
// that is not part of its key takes the new value (Resolve itself changes the
// resolved flag, outputIncubating and, for an incoming contest, the preimage).
func c13yApply(r ContractResolver, v *c13yVals) {
	switch t := r.(type) {
	case *htlcOutgoingContestResolver:
		c13yApply(t.htlcTimeoutResolver, v)

	case *htlcIncomingContestResolver:
		t.htlcExpiry = v.htlcExpiry
		c13yApply(t.htlcSuccessResolver, v)

	case *htlcTimeoutResolver:
		t.htlcResolution.Expiry = v.expiry
		t.htlcResolution.CsvDelay = v.csv
		t.htlcResolution.SweepSignDesc = c13SignDesc(v.value)
		t.outputIncubating = v.incubating
		t.broadcastHeight = v.height
		t.htlc.HtlcIndex = v.htlcIndex
		t.resolved.Store(v.resolved)

	case *htlcSuccessResolver:
		t.htlcResolution.Preimage = v.preimage
		t.htlcResolution.CsvDelay = v.csv
		t.htlcResolution.SweepSignDesc = c13SignDesc(v.value)
		t.outputIncubating = v.incubating
		t.broadcastHeight = v.height
		t.htlc.RHash = v.rhash
		t.resolved.Store(v.resolved)

	case *commitSweepResolver:
		t.commitResolution.SelfOutputSignDesc = c13SignDesc(v.value)
		t.commitResolution.MaturityDelay = v.maturity
		t.confirmHeight = v.height
		t.chanPoint = v.chanPoint
		t.resolved.Store(v.resolved)

	case *breachResolver:
		t.resolved.Store(v.resolved)
	}
}

func c13yOutIs(t *htlcTimeoutResolver, op wire.OutPoint, v *c13yVals) bool {
	want := c13SignDesc(v.value)

	return t != nil && t.htlcResolution.Expiry == v.expiry &&
		t.htlcResolution.CsvDelay == v.csv &&
		t.htlcResolution.ClaimOutpoint == op &&
		t.htlcResolution.SignedTimeoutTx == nil &&
		t.htlcResolution.SignDetails == nil &&
		c13SignDescEq(&t.htlcResolution.SweepSignDesc, &want) &&
		t.outputIncubating == v.incubating &&
		t.IsResolved() == v.resolved &&
		t.broadcastHeight == v.height &&
		t.htlc.HtlcIndex == v.htlcIndex
}

func c13yInIs(s *htlcSuccessResolver, op wire.OutPoint, v *c13yVals) bool {
	want := c13SignDesc(v.value)

	return s != nil && s.htlcResolution.Preimage == v.preimage &&
		s.htlcResolution.CsvDelay == v.csv &&
		s.htlcResolution.ClaimOutpoint == op &&
		s.htlcResolution.SignedSuccessTx == nil &&
		s.htlcResolution.SignDetails == nil &&
		c13SignDescEq(&s.htlcResolution.SweepSignDesc, &want) &&
		s.outputIncubating == v.incubating &&
		s.IsResolved() == v.resolved &&
		s.broadcastHeight == v.height &&
		s.htlc.RHash == v.rhash
}

// c13yIs: the restored resolver r is of the wanted Go type, sits under the
// wanted key, has a Checkpoint closure and carries exactly the values v.
// asInner: a contest resolver has been swapped for its inner resolver.
func c13yIs(r ContractResolver, kind int, asInner bool, v *c13yVals) bool {
	op := c13yOp(kind)
	if !bytes.Equal(r.ResolverKey(), c13yKey(kind)) {
		return false
	}
	switch t := r.(type) {
	case *htlcTimeoutResolver:
		return (kind == c13yTimeout || (kind == c13yOutContest && asInner)) &&
			t.Checkpoint != nil && c13yOutIs(t, op, v)

	case *htlcOutgoingContestResolver:
		return kind == c13yOutContest && !asInner &&
			t.htlcTimeoutResolver != nil && t.Checkpoint != nil &&
			c13yOutIs(t.htlcTimeoutResolver, op, v)

	case *htlcSuccessResolver:
		return (kind == c13ySuccess || (kind == c13yInContest && asInner)) &&
			t.Checkpoint != nil && c13yInIs(t, op, v)

	case *htlcIncomingContestResolver:
		return kind == c13yInContest && !asInner &&
			t.htlcSuccessResolver != nil && t.Checkpoint != nil &&
			t.htlcExpiry == v.htlcExpiry &&
			c13yInIs(t.htlcSuccessResolver, op, v)

	case *commitSweepResolver:
		want := c13SignDesc(v.value)

		return kind == c13yCommitSweep && t.Checkpoint != nil &&
			t.commitResolution.SelfOutPoint == op &&
			t.commitResolution.MaturityDelay == v.maturity &&
			c13SignDescEq(&t.commitResolution.SelfOutputSignDesc, &want) &&
			t.IsResolved() == v.resolved &&
			t.confirmHeight == v.height && t.chanPoint == v.chanPoint

	case *breachResolver:
		return kind == c13yBreach && t.Checkpoint != nil &&
			t.IsResolved() == v.resolved
	}

	return false
}

// c13yFind: the contract a process finds under the key of `kind`.
func c13yFind(rs []ContractResolver, kind int) ContractResolver {
	var found ContractResolver
	key := c13yKey(kind)
	for _, r := range rs {
		if bytes.Equal(r.ResolverKey(), key) {
			found = r
		}
	}

	return found
}

// c13yLogIs: a FRESH log object over db hands out exactly six contracts, the
// one of kind k carrying vals[k] (subject swapped to its inner resolver if
// asInner).
func c13yLogIs(db *c13kvDB, cfg ChannelArbitratorConfig,
	vals *[c13yNumKinds]c13yVals, subject int, asInner bool) (
	[]ContractResolver, bool) {

	rs, err := c13bNewLog(db, cfg).FetchUnresolvedContracts()
	if err != nil || len(rs) != c13yNumKinds {
		return rs, false
	}
	ok := true
	for k := 0; k < c13yNumKinds; k++ {
		r := c13yFind(rs, k)
		if r == nil {
			return rs, false
		}
		ok = ok && c13yIs(r, k, asInner && k == subject, &vals[k])
	}

	return rs, ok
}

// c13yReports: the raw reports bucket of the store (what
// cfg.PutResolverReport = c13bPutReport wrote inside the transactions).
func c13yReports(db *c13kvDB) (keys, vals [][]byte) {
	i := c13kvIndex(db.top.subKeys, c13bReportsKey)
	if i < 0 {
		return nil, nil
	}

	return db.top.subs[i].keys, db.top.subs[i].vals
}

const (
	c13yMsgErr    = "checkpoint: InsertUnresolvedContracts / FetchUnresolvedContracts / Checkpoint / SwapContract succeed"
	c13yMsgInsert = "checkpoint: a fresh log reads back, for each of the six resolver types, exactly the resolver that InsertUnresolvedContracts was given (type, key, every persisted field incl. resolved flag and outputIncubating), with a Checkpoint closure"
	c13yMsgCkpt   = "checkpoint: after a restored resolver's Checkpoint a fresh log reads that resolver back with every persisted field as checkpointed - in particular IsResolved() and outputIncubating - and the other five contracts untouched"
	c13yMsgReport = "checkpoint: the report passed to Checkpoint is in the store (and nothing is if none was passed)"
	c13yMsgSwap   = "checkpoint: after SwapContract(contest, inner) a fresh log reads the inner resolver under the same key with the checkpointed values, the other five contracts and the reports untouched"
)

// VerifC13yCheckpoint: see the head of the file.
func VerifC13yCheckpoint() {
	vAssumption("fake kvdb backend (walletdb.DB) of zz_verif_c13_bolt.go under the real boltArbitratorLog; PutResolverReport = c13bPutReport writes (type, outcome, outpoint index byte) -> amount into the transaction it is given")
	vAssumption("resolver keys (outpoints) concrete and pairwise distinct; SignedTimeoutTx / SignedSuccessTx / SignDetails nil; sign descriptor: output value symbolic, keys/tweaks absent")
	kind := vChoice("kind", c13yNumKinds)
	nrep := vChoice("reports", 2)

	cfg := ChannelArbitratorConfig{PutResolverReport: c13bPutReport}
	cfg.ChanPoint = c13ChanPoint
	cfg.ShortChanID = c13ShortID

	// 1. six resolvers go into the log
	db := c13kvNew()
	log0 := c13bNewLog(db, cfg)
	rcfg := ResolverConfig{
		ChannelArbitratorConfig: cfg,
		Checkpoint:              log0.checkpointContract,
	}
	var v0 [c13yNumKinds]c13yVals
	var ins []ContractResolver
	for k := 0; k < c13yNumKinds; k++ {
		v0[k] = c13ySym("ins", k, k == kind)
		ins = append(ins, c13yBuild(k, &v0[k], rcfg))
	}
	vAssert(log0.InsertUnresolvedContracts(nil, ins...) == nil, c13yMsgErr)

	// a restarted process reads them
	rs1, ok := c13yLogIs(db, cfg, &v0, kind, false)
	vAssert(ok, c13yMsgInsert)
	ks, _ := c13yReports(db)
	vAssert(len(ks) == 0, c13yMsgReport)

	// 2. the restored resolver of the chosen kind makes progress and
	// checkpoints it through the closure the log installed
	subject := c13yFind(rs1, kind)
	v1 := v0
	v1[kind] = c13ySym("ckpt", kind, true)
	c13yApply(subject, &v1[kind])

	var checkpoint func(ContractResolver, ...*channeldb.ResolverReport) error
	switch t := subject.(type) {
	case *htlcTimeoutResolver:
		checkpoint = t.Checkpoint
	case *htlcSuccessResolver:
		checkpoint = t.Checkpoint
	case *htlcOutgoingContestResolver:
		checkpoint = t.Checkpoint
	case *htlcIncomingContestResolver:
		checkpoint = t.Checkpoint
	case *commitSweepResolver:
		checkpoint = t.Checkpoint
	case *breachResolver:
		checkpoint = t.Checkpoint
	}
	var reports []*channeldb.ResolverReport
	amt := vI64("report.amt")
	outcome := vU8("report.outcome")
	if nrep == 1 {
		reports = append(reports, &channeldb.ResolverReport{
			OutPoint:        c13yOp(kind),
			Amount:          btcutil.Amount(amt),
			ResolverType:    channeldb.ResolverTypeOutgoingHtlc,
			ResolverOutcome: channeldb.ResolverOutcome(outcome),
		})
	}
	vAssert(checkpoint(subject, reports...) == nil, c13yMsgErr)

	// a process started after that reads the checkpointed resolver
	rs2, ok := c13yLogIs(db, cfg, &v1, kind, false)
	vAssert(ok, c13yMsgCkpt)

	wantKey := []byte{
		byte(channeldb.ResolverTypeOutgoingHtlc), outcome,
		byte(c13yOp(kind).Index),
	}
	a := uint64(amt)
	wantVal := []byte{
		byte(a >> 56), byte(a >> 48), byte(a >> 40), byte(a >> 32),
		byte(a >> 24), byte(a >> 16), byte(a >> 8), byte(a),
	}
	repOK := func() bool {
		ks, vs := c13yReports(db)
		if nrep == 0 {
			return len(ks) == 0
		}

		return len(ks) == 1 && bytes.Equal(ks[0], wantKey) &&
			bytes.Equal(vs[0], wantVal)
	}
	vAssert(repOK(), c13yMsgReport)

	if v1[kind].resolved && !v0[kind].resolved {
		vReach("ckpt-marks-resolved")
	}
	if v1[kind].incubating && !v0[kind].incubating {
		vReach("ckpt-marks-incubating")
	}
	if nrep == 1 {
		vReach("ckpt-with-report")
	} else {
		vReach("ckpt-without-report")
	}

	// 3. a contest resolver gives way to its inner resolver
	if kind == c13yOutContest || kind == c13yInContest {
		old := c13yFind(rs2, kind)
		var inner ContractResolver
		switch t := old.(type) {
		case *htlcOutgoingContestResolver:
			inner = t.htlcTimeoutResolver
		case *htlcIncomingContestResolver:
			inner = t.htlcSuccessResolver
		}
		log2 := c13bNewLog(db, cfg)
		vAssert(log2.SwapContract(old, inner) == nil, c13yMsgErr)
		_, ok := c13yLogIs(db, cfg, &v1, kind, true)
		vAssert(ok && repOK(), c13yMsgSwap)
		vReach("ckpt-swap")
	}
	vReach("ckpt-done")
}
