package contractcourt

// Harness for C13: contract resolution survives restarts.
//
// Unit (real lnd code, executed as-is): NewChannelArbitrator, getStartState,
// progressStateMachineAfterRestart, relaunchResolvers, advanceState, stateStep,
// handleCoopCloseEvent, handleLocalForceCloseEvent, handleRemoteForceCloseEvent,
// handleContractBreach, handleBlockbeat, checkLegacyBreach, prepContractResolutions,
// abandonForwards, failIncomingDust, constructChainActions and the chain-action
// functions of C12, resolveContracts / launchResolvers up to (not including)
// the resolvers' own Launch/Resolve, the resolver constructors and - through
// the fake log - the resolvers' Encode / new...FromReader codecs and
// encodeCommitSet / decodeCommitSet.
//
// The durable world (arbitrator log, channel close status, what reached the
// switch) lives in c13World. Every call that changes the durable world or is
// visible outside the process is an "effect"; the process may stop right
// after any effect (c13World.tick panics with the sentinel c13Crash{}, which
// c13World.life recovers). After a stop a fresh ChannelArbitrator is built
// over the same world the way ChainArbitrator.Start does (open channel:
// IsPendingClose=false and the chain watcher re-delivers the close event;
// closed channel: IsPendingClose=true with the close type and height of the
// stored close summary and no chain events) and is driven again.

import (
	"bytes"
	"context"
	"errors"
	"io"
	"runtime"
	"time"

	"github.com/btcsuite/btcd/chainhash/v2"
	"github.com/btcsuite/btcd/wire/v2"
	"github.com/lightningnetwork/lnd/chainio"
	"github.com/lightningnetwork/lnd/chainntnfs"
	"github.com/lightningnetwork/lnd/channeldb"
	"github.com/lightningnetwork/lnd/chanstate"
	"github.com/lightningnetwork/lnd/fn/v2"
	"github.com/lightningnetwork/lnd/graph/db/models"
	"github.com/lightningnetwork/lnd/htlcswitch/hop"
	"github.com/lightningnetwork/lnd/input"
	"github.com/lightningnetwork/lnd/invoices"
	"github.com/lightningnetwork/lnd/kvdb"
	"github.com/lightningnetwork/lnd/lntypes"
	"github.com/lightningnetwork/lnd/lnwallet"
	"github.com/lightningnetwork/lnd/lnwallet/chainfee"
	"github.com/lightningnetwork/lnd/lnwire"
	"github.com/lightningnetwork/lnd/sweep"
)

// c13Crash is the sentinel with which the process "stops".
type c13Crash struct{}

const (
	c13FirstNone  = 0
	c13FirstUser  = 1 // force close requested by the user
	c13FirstBlock = 2 // a new block (chainTrigger)

	c13CloseNone          = 0
	c13CloseLocal         = 1
	c13CloseRemote        = 2
	c13CloseRemotePending = 3
	c13CloseBreach        = 4
	c13CloseCoop          = 5

	c13MaxLives = 3 // at most two stops
)

var (
	c13ChanPoint  = wire.OutPoint{Hash: chainhash.Hash{0xc1}, Index: 1}
	c13CommitHash = chainhash.Hash{0xc2}
	c13ShortID    = lnwire.NewShortChanIDFromInt(0x0102030405)
)

// ------------------------------------------------------------- scenario ----

// c13Scenario is everything both runs (uninterrupted / interrupted) share:
// the shape (concrete case split) and the symbolic values.
type c13Scenario struct {
	first, closeKind     int
	dataLoss             bool // ForceCloseChan fails with ErrForceCloseLocalDataLoss
	hasCommit, hasAnchor bool
	spendHeight          uint32              // height at which the closing tx confirmed
	bestHeight           [c13MaxLives]uint32 // best height at each process start
	htlcs                [3][]channeldb.HTLC // local / remote / remote pending
	rpExists             bool
	preimages            uint8  // preimage cache, bit hash[0]&7
	forwarded            uint16 // IsForwardedHTLC, bit idx&15
	inDelta, outDelta    uint32
	dom                  bool
}

// -------------------------------------------------------- durable world ----

type c13Stored struct {
	key  []byte
	rtyp resolverType
	raw  []byte
}

type c13Msg struct {
	idx    uint64
	fail   bool
	settle bool
}

type c13World struct {
	sc *c13Scenario

	// goroutine of the harness (native replay only), see ResolveContract
	gid uint64

	// stop control
	crashAt [c13MaxLives - 1]int
	lives   int   // number of stops so far
	effects int   // effects in the current life
	perLife []int // effects of the finished lives

	// arbitrator log
	scope     bool // the scope bucket exists
	state     ArbitratorState
	res       *ContractResolutions
	csRaw     []byte // encodeCommitSet output
	hasCS     bool
	contracts []c13Stored

	// channel database
	closed      bool
	closeType   channeldb.ClosureType
	closeHeight uint32
	broadcasted bool
	fullyClosed bool // ChainArbitrator.ResolveContract ran: log wiped, channel gone

	// outside world
	firstDone  bool
	msgs       []c13Msg
	finals     []uint64
	notified   int
	notifyBad  bool
	published  int
	forceClose int
	errs       int  // errors returned to the harness by the driven functions
	bootCC     bool // a restarted process found StateContractClosed in the log

	// the live process
	cfg ChannelArbitratorConfig
	arb *ChannelArbitrator
}

func (w *c13World) tick() {
	n := w.effects
	w.effects++
	if w.lives < len(w.crashAt) && n == w.crashAt[w.lives] {
		panic(c13Crash{})
	}
}

// ---------------------------------------------------- fake ArbitratorLog ----

func (w *c13World) CurrentState(kvdb.RTx) (ArbitratorState, error) {
	return w.state, nil
}

func (w *c13World) CommitState(s ArbitratorState) error {
	w.scope = true
	w.state = s
	w.tick()

	return nil
}

// c13TypeOf is the type switch of boltArbitratorLog.writeResolver.
func c13TypeOf(res ContractResolver) resolverType {
	var rType resolverType
	switch res.(type) {
	case *htlcTimeoutResolver:
		rType = resolverTimeout
	case *htlcSuccessResolver:
		rType = resolverSuccess
	case *htlcOutgoingContestResolver:
		rType = resolverOutgoingContest
	case *htlcIncomingContestResolver:
		rType = resolverIncomingContest
	case *commitSweepResolver:
		rType = resolverUnilateralSweep
	case *breachResolver:
		rType = resolverBreach
	}

	return rType
}

// c13Park flags a resolver object as resolved. This is NOT part of the model
// of the log: it is the cut at launchResolvers / resolveContract. A resolver
// handed to resolveContracts is skipped by launchResolvers and its
// resolveContract goroutine returns at once, in the symbolic run and in the
// native replay alike. The flag is set after the resolver has been encoded.
func c13Park(res ContractResolver) {
	switch r := res.(type) {
	case *anchorResolver:
		r.markResolved()
	case *commitSweepResolver:
		r.markResolved()
	case *breachResolver:
		r.markResolved()
	case *htlcTimeoutResolver:
		r.markResolved()
	case *htlcSuccessResolver:
		r.markResolved()
	case *htlcOutgoingContestResolver:
		r.markResolved()
	case *htlcIncomingContestResolver:
		r.markResolved()
	}
}

func (w *c13World) writeResolver(res ContractResolver) error {
	resKey := res.ResolverKey()
	if resKey == nil {
		return nil
	}
	var buf bytes.Buffer
	if err := res.Encode(&buf); err != nil {
		return err
	}
	s := c13Stored{key: resKey, rtyp: c13TypeOf(res), raw: buf.Bytes()}
	for i := range w.contracts {
		if bytes.Equal(w.contracts[i].key, resKey) {
			w.contracts[i] = s
			return nil
		}
	}
	w.contracts = append(w.contracts, s)

	return nil
}

func (w *c13World) InsertUnresolvedContracts(_ []*channeldb.ResolverReport,
	resolvers ...ContractResolver) error {

	w.scope = true
	for _, r := range resolvers {
		if err := w.writeResolver(r); err != nil {
			return err
		}
	}
	for _, r := range resolvers {
		c13Park(r)
	}
	w.tick()

	return nil
}

func (w *c13World) checkpoint(res ContractResolver,
	_ ...*channeldb.ResolverReport) error {

	w.scope = true
	if err := w.writeResolver(res); err != nil {
		return err
	}
	w.tick()

	return nil
}

func (w *c13World) FetchUnresolvedContracts() ([]ContractResolver, error) {
	resolverCfg := ResolverConfig{
		ChannelArbitratorConfig: w.cfg,
		Checkpoint:              w.checkpoint,
	}
	var contracts []ContractResolver
	for i := range w.contracts {
		s := &w.contracts[i]
		if len(s.key) != resolverIDLen {
			continue
		}
		var (
			res ContractResolver
			err error
		)
		r := bytes.NewReader(s.raw)
		switch s.rtyp {
		case resolverTimeout:
			res, err = newTimeoutResolverFromReader(r, resolverCfg)
		case resolverSuccess:
			res, err = newSuccessResolverFromReader(r, resolverCfg)
		case resolverOutgoingContest:
			res, err = newOutgoingContestResolverFromReader(r, resolverCfg)
		case resolverIncomingContest:
			res, err = newIncomingContestResolverFromReader(r, resolverCfg)
		case resolverUnilateralSweep:
			res, err = newCommitSweepResolverFromReader(r, resolverCfg)
		case resolverBreach:
			res, err = newBreachResolverFromReader(r, resolverCfg)
		}
		if err != nil {
			return nil, err
		}
		c13Park(res)
		contracts = append(contracts, res)
	}

	return contracts, nil
}

func (w *c13World) SwapContract(oldC, newC ContractResolver) error {
	w.scope = true
	oldKey := oldC.ResolverKey()
	for i := range w.contracts {
		if bytes.Equal(w.contracts[i].key, oldKey) {
			w.contracts = append(w.contracts[:i], w.contracts[i+1:]...)
			break
		}
	}
	if err := w.writeResolver(newC); err != nil {
		return err
	}
	w.tick()

	return nil
}

// c13Gid returns the id of the calling goroutine in the native replay and 0
// in the symbolic run.
func c13Gid() uint64 {
	if !vNative() {
		return 0
	}
	var b [64]byte
	n := runtime.Stack(b[:], false)
	var id uint64
	for _, c := range b[len("goroutine "):n] {
		if c < '0' || c > '9' {
			break
		}
		id = id*10 + uint64(c-'0')
	}

	return id
}

func (w *c13World) ResolveContract(res ContractResolver) error {
	// The cut at launchResolvers / resolveContract (c13Park) flags every
	// resolver as resolved. Since /repo's "fix: contractcourt: remove a
	// contract that is already resolved after a restart from the log" the
	// real resolveContract goroutine removes such a resolver from the log;
	// for a PARKED resolver that is an artifact of the cut, not behaviour of
	// the unit (symbolically resolveContract is a no-op). Asynchronous
	// resolver processing is outside this harness (zz_verif_c13_bolt.go runs
	// it): a call from another goroutine than the harness's changes nothing.
	// A synchronous call from the code under test is applied.
	if vNative() && c13Gid() != w.gid {
		return nil
	}
	w.scope = true
	key := res.ResolverKey()
	for i := range w.contracts {
		if bytes.Equal(w.contracts[i].key, key) {
			w.contracts = append(w.contracts[:i], w.contracts[i+1:]...)
			break
		}
	}
	w.tick()

	return nil
}

func (w *c13World) LogContractResolutions(c *ContractResolutions) error {
	w.scope = true
	cp := *c
	w.res = &cp
	w.tick()

	return nil
}

func (w *c13World) FetchContractResolutions() (*ContractResolutions, error) {
	if !w.scope {
		return nil, errScopeBucketNoExist
	}
	if w.res == nil {
		return nil, errNoResolutions
	}
	cp := *w.res

	return &cp, nil
}

func (w *c13World) InsertConfirmedCommitSet(c *CommitSet) error {
	var b bytes.Buffer
	if err := encodeCommitSet(&b, c); err != nil {
		return err
	}
	w.scope = true
	w.csRaw = b.Bytes()
	w.hasCS = true
	w.tick()

	return nil
}

func (w *c13World) FetchConfirmedCommitSet(kvdb.RTx) (*CommitSet, error) {
	if !w.scope {
		return nil, errScopeBucketNoExist
	}
	if !w.hasCS {
		return nil, errNoCommitSet
	}

	return decodeCommitSet(bytes.NewReader(w.csRaw))
}

func (w *c13World) FetchChainActions() (ChainActionMap, error) {
	if !w.scope {
		return nil, errScopeBucketNoExist
	}

	return nil, errNoActions
}

func (w *c13World) WipeHistory() error {
	w.scope = false
	w.state = StateDefault
	w.res = nil
	w.hasCS = false
	w.csRaw = nil
	w.contracts = nil
	w.tick()

	return nil
}

// ------------------------------------------------------ fake callbacks ----

type c13Channel struct{ w *c13World }

func (c *c13Channel) ForceCloseChan() (*wire.MsgTx, error) {
	if c.w.sc.dataLoss {
		return nil, lnwallet.ErrForceCloseLocalDataLoss
	}
	c.w.forceClose++
	c.w.tick()
	tx := wire.NewMsgTx(2)
	tx.AddTxIn(&wire.TxIn{PreviousOutPoint: c13ChanPoint})

	return tx, nil
}

func (c *c13Channel) NewAnchorResolutions() (*lnwallet.AnchorResolutions,
	error) {

	return &lnwallet.AnchorResolutions{}, nil
}

type c13Sweeper struct{}

func (c13Sweeper) SweepInput(input.Input, sweep.Params) (chan sweep.Result,
	error) {

	return make(chan sweep.Result, 1), nil
}

func (c13Sweeper) RelayFeePerKW() chainfee.SatPerKWeight { return 253 }

func (c13Sweeper) UpdateParams(wire.OutPoint, sweep.Params) (
	chan sweep.Result, error) {

	return make(chan sweep.Result, 1), nil
}

// The fakes below are never reached on the unchanged tree (every resolver is
// parked before resolveContracts sees it). They only make a changed tree that
// launches an un-parked resolver fail an obligation instead of crashing the
// native replay in a goroutine.
var errC13Outside = errors.New("c13: outside the unit")

type c13ChainIO struct{}

func (c13ChainIO) GetBestBlock() (*chainhash.Hash, int32, error) {
	return nil, 0, errC13Outside
}

func (c13ChainIO) GetUtxo(*wire.OutPoint, []byte, uint32,
	<-chan struct{}) (*wire.TxOut, error) {

	return nil, errC13Outside
}

func (c13ChainIO) GetBlockHash(int64) (*chainhash.Hash, error) {
	return nil, errC13Outside
}

func (c13ChainIO) GetBlock(*chainhash.Hash) (*wire.MsgBlock, error) {
	return nil, errC13Outside
}

func (c13ChainIO) GetBlockHeader(*chainhash.Hash) (*wire.BlockHeader, error) {
	return nil, errC13Outside
}

type c13Onion struct{}

func (c13Onion) ReconstructHopIterator(io.Reader, []byte,
	hop.ReconstructBlindingInfo) (hop.Iterator, error) {

	return nil, errC13Outside
}

type c13ChainNotifier struct{}

func (c13ChainNotifier) RegisterConfirmationsNtfn(*chainhash.Hash, []byte,
	uint32, uint32, ...chainntnfs.NotifierOption) (
	*chainntnfs.ConfirmationEvent, error) {

	return nil, errC13Outside
}

func (c13ChainNotifier) RegisterSpendNtfn(*wire.OutPoint, []byte,
	uint32) (*chainntnfs.SpendEvent, error) {

	return nil, errC13Outside
}

func (c13ChainNotifier) RegisterBlockEpochNtfn(
	*chainntnfs.BlockEpoch) (*chainntnfs.BlockEpochEvent, error) {

	return nil, errC13Outside
}

func (c13ChainNotifier) Start() error  { return nil }
func (c13ChainNotifier) Started() bool { return true }
func (c13ChainNotifier) Stop() error   { return nil }

type c13Notifier struct{}

func (c13Notifier) NotifyFinalHtlcEvent(models.CircuitKey,
	channeldb.FinalHtlcInfo) {
}

type c13Beacon struct{ mask uint8 }

func (b *c13Beacon) SubscribeUpdates(lnwire.ShortChannelID, *channeldb.HTLC,
	*hop.Payload, []byte) (*WitnessSubscription, error) {

	return nil, nil
}

func (b *c13Beacon) LookupPreimage(h lntypes.Hash) (lntypes.Preimage, bool) {
	return lntypes.Preimage{}, (b.mask>>(h[0]&7))&1 == 1
}

func (b *c13Beacon) AddPreimages(...lntypes.Preimage) error { return nil }

type c13Registry struct{}

func (r *c13Registry) LookupInvoice(context.Context,
	lntypes.Hash) (invoices.Invoice, error) {

	return invoices.Invoice{}, invoices.ErrInvoiceNotFound
}

func (r *c13Registry) NotifyExitHopHtlc(lntypes.Hash, lnwire.MilliSatoshi,
	uint32, int32, models.CircuitKey, chan<- interface{},
	lnwire.CustomRecords, invoices.Payload) (invoices.HtlcResolution, error) {

	return nil, nil
}

func (r *c13Registry) HodlUnsubscribeAll(chan<- interface{}) {}

type c13Clock struct{ now time.Time }

func (c *c13Clock) Now() time.Time                           { return c.now }
func (c *c13Clock) TickAfter(time.Duration) <-chan time.Time { return nil }

func (w *c13World) notifyResolved() {
	// ChainArbitrator.ResolveContract: wipes the log, marks the channel
	// fully closed. The property: only in StateFullyResolved and with no
	// unresolved contract left in the log.
	if w.state != StateFullyResolved || len(w.contracts) != 0 {
		w.notifyBad = true
	}
	// ... nor a contract the running process still works on (resolvers
	// never finish in this harness; the anchor resolver is stateless)
	if w.arb != nil {
		for _, res := range w.arb.activeResolvers {
			if res.ResolverKey() != nil {
				w.notifyBad = true
			}
		}
	}
	w.notified++
	w.fullyClosed = true
	w.tick()
}

func (w *c13World) deliver(msgs ...ResolutionMsg) error {
	for _, m := range msgs {
		w.msgs = append(w.msgs, c13Msg{
			idx: m.HtlcIndex, fail: m.Failure != nil,
			settle: m.PreImage != nil,
		})
	}
	w.tick()

	return nil
}

// ----------------------------------------------------------- processes ----

func (w *c13World) htlcSets() map[HtlcSetKey]htlcSet {
	sets := make(map[HtlcSetKey]htlcSet)
	sets[LocalHtlcSet] = newHtlcSet(w.sc.htlcs[0])
	sets[RemoteHtlcSet] = newHtlcSet(w.sc.htlcs[1])
	if w.sc.rpExists {
		sets[RemotePendingHtlcSet] = newHtlcSet(w.sc.htlcs[2])
	}

	return sets
}

// boot builds the arbitrator of a fresh process the way
// newActiveChannelArbitrator / loadPendingCloseChannels do and runs what
// Start + the first lines of channelAttendant run (Start itself launches the
// channelAttendant goroutine, whose event loop is outside the unit).
func (w *c13World) boot() *ChannelArbitrator {
	sc := w.sc
	start := time.Unix(1_700_000_000, 0)
	cfg := ChannelArbitratorConfig{
		ChanPoint:   c13ChanPoint,
		ShortChanID: c13ShortID,
		ChainEvents: &ChainEventSubscription{},
		PutResolverReport: func(kvdb.RwTx,
			*channeldb.ResolverReport) error {

			return nil
		},
		FetchHistoricalChannel: func() (*chanstate.OpenChannel, error) {
			return &chanstate.OpenChannel{
				ChanType:        channeldb.SingleFunderTweaklessBit,
				FundingOutpoint: c13ChanPoint,
			}, nil
		},
		FindOutgoingHTLCDeadline: func(channeldb.HTLC) fn.Option[int32] {
			return fn.None[int32]()
		},
		NotifyChannelResolved: w.notifyResolved,
	}
	cfg.ChainArbitratorConfig = ChainArbitratorConfig{
		IncomingBroadcastDelta: sc.inDelta,
		OutgoingBroadcastDelta: sc.outDelta,
		PublishTx: func(*wire.MsgTx, string) error {
			w.published++
			w.tick()

			return nil
		},
		DeliverResolutionMsg: w.deliver,
		PreimageDB:           &c13Beacon{mask: sc.preimages},
		Registry:             &c13Registry{},
		Sweeper:              c13Sweeper{},
		ChainIO:              c13ChainIO{},
		OnionProcessor:       c13Onion{},
		Notifier:             c13ChainNotifier{},
		SubscribeBreachComplete: func(*wire.OutPoint,
			chan struct{}) (bool, error) {

			return false, errC13Outside
		},
		IncubateOutputs: func(wire.OutPoint,
			fn.Option[lnwallet.OutgoingHtlcResolution],
			fn.Option[lnwallet.IncomingHtlcResolution],
			uint32, fn.Option[int32], ...IncubateOption) error {

			return errC13Outside
		},
		HtlcNotifier: c13Notifier{},
		IsForwardedHTLC: func(_ lnwire.ShortChannelID, idx uint64) bool {
			return (sc.forwarded>>(idx&15))&1 == 1
		},
		Clock: &c13Clock{now: start},
		PutFinalHtlcOutcome: func(_ lnwire.ShortChannelID, id uint64,
			settled bool) error {

			if !settled {
				w.finals = append(w.finals, id)
			}
			w.tick()

			return nil
		},
	}

	var sets map[HtlcSetKey]htlcSet
	if w.closed {
		// loadPendingCloseChannels
		cfg.IsPendingClose = true
		cfg.ClosingHeight = w.closeHeight
		cfg.CloseType = w.closeType
		sets = make(map[HtlcSetKey]htlcSet)
	} else {
		// newActiveChannelArbitrator
		cfg.Channel = &c13Channel{w: w}
		cfg.MarkCommitmentBroadcasted = func(*wire.MsgTx,
			lntypes.ChannelParty) error {

			w.broadcasted = true
			w.tick()

			return nil
		}
		cfg.MarkChannelClosed = func(s *channeldb.ChannelCloseSummary,
			_ ...channeldb.ChannelStatus) error {

			w.closed = true
			w.closeType = s.CloseType
			w.closeHeight = s.CloseHeight
			w.tick()

			return nil
		}
		sets = w.htlcSets()
	}

	if w.lives > 0 && w.state == StateContractClosed {
		w.bootCC = true
	}
	w.cfg = cfg
	arb := NewChannelArbitrator(cfg, sets, w)
	w.arb = arb

	// Start
	arb.startTimestamp = cfg.Clock.Now()
	state, err := arb.getStartState(nil)
	if err != nil {
		w.errs++
		return arb
	}
	arb.state = state.currentState

	// channelAttendant
	err = arb.progressStateMachineAfterRestart(
		int32(sc.bestHeight[w.lives]), state.commitSet,
	)
	if err != nil {
		w.errs++
	}

	return arb
}

func (w *c13World) commitSet(key HtlcSetKey) CommitSet {
	sets := make(map[HtlcSetKey][]channeldb.HTLC)
	sets[LocalHtlcSet] = w.sc.htlcs[0]
	sets[RemoteHtlcSet] = w.sc.htlcs[1]
	if w.sc.rpExists {
		sets[RemotePendingHtlcSet] = w.sc.htlcs[2]
	}

	return CommitSet{ConfCommitKey: fn.Some(key), HtlcSets: sets}
}

func c13SignDesc(value int64) input.SignDescriptor {
	return input.SignDescriptor{
		WitnessScript: []byte{0x51},
		Output:        &wire.TxOut{Value: value, PkScript: []byte{0x00, 0x14}},
	}
}

// c13LocalCloseTx is our commitment transaction as the chain watcher reports
// it; its txid is the commit hash of every local-close outpoint.
func c13LocalCloseTx() *wire.MsgTx {
	tx := wire.NewMsgTx(2)
	tx.AddTxIn(&wire.TxIn{PreviousOutPoint: c13ChanPoint})

	return tx
}

func (w *c13World) commitHash() chainhash.Hash {
	if w.sc.closeKind == c13CloseLocal {
		return c13LocalCloseTx().TxHash()
	}

	return c13CommitHash
}

func (w *c13World) commitRes() *lnwallet.CommitOutputResolution {
	if !w.sc.hasCommit {
		return nil
	}

	return &lnwallet.CommitOutputResolution{
		SelfOutPoint:       wire.OutPoint{Hash: w.commitHash(), Index: 0},
		SelfOutputSignDesc: c13SignDesc(100_000),
		MaturityDelay:      144,
	}
}

func (w *c13World) anchorRes() *lnwallet.AnchorResolution {
	if !w.sc.hasAnchor {
		return nil
	}

	return &lnwallet.AnchorResolution{
		AnchorSignDescriptor: c13SignDesc(330),
		CommitAnchor:         wire.OutPoint{Hash: w.commitHash(), Index: 1},
	}
}

func (w *c13World) summary(t channeldb.ClosureType) channeldb.ChannelCloseSummary {
	return channeldb.ChannelCloseSummary{
		ChanPoint:   c13ChanPoint,
		ShortChanID: c13ShortID,
		ClosingTXID: c13CommitHash,
		// chain_watcher.go / lnwallet.NewUnilateralCloseSummary:
		// CloseHeight = uint32(commitSpend.SpendingHeight)
		CloseHeight: w.sc.spendHeight,
		CloseType:   t,
		IsPending:   true,
	}
}

// deliverClose hands the close event to the handler channelAttendant calls.
func (w *c13World) deliverClose(arb *ChannelArbitrator) {
	sc := w.sc
	spend := &chainntnfs.SpendDetail{
		SpenderTxHash:  &c13CommitHash,
		SpendingHeight: int32(sc.spendHeight),
	}
	var err error
	switch sc.closeKind {
	case c13CloseCoop:
		s := w.summary(channeldb.CooperativeClose)
		err = arb.handleCoopCloseEvent(&CooperativeCloseInfo{
			ChannelCloseSummary: &s,
		})

	case c13CloseLocal:
		s := w.summary(channeldb.LocalForceClose)
		tx := c13LocalCloseTx()
		err = arb.handleLocalForceCloseEvent(&LocalUnilateralCloseInfo{
			SpendDetail: spend,
			LocalForceCloseSummary: &lnwallet.LocalForceCloseSummary{
				ChanPoint: c13ChanPoint,
				CloseTx:   tx,
				ContractResolutions: fn.Some(lnwallet.ContractResolutions{
					CommitResolution: w.commitRes(),
					AnchorResolution: w.anchorRes(),
					HtlcResolutions:  w.htlcRes(0),
				}),
			},
			ChannelCloseSummary: &s,
			CommitSet:           w.commitSet(LocalHtlcSet),
		})

	case c13CloseRemote, c13CloseRemotePending:
		key, c := RemoteHtlcSet, 1
		if sc.closeKind == c13CloseRemotePending {
			key, c = RemotePendingHtlcSet, 2
		}
		err = arb.handleRemoteForceCloseEvent(&RemoteUnilateralCloseInfo{
			UnilateralCloseSummary: &lnwallet.UnilateralCloseSummary{
				SpendDetail:         spend,
				ChannelCloseSummary: w.summary(channeldb.RemoteForceClose),
				CommitResolution:    w.commitRes(),
				AnchorResolution:    w.anchorRes(),
				HtlcResolutions:     w.htlcRes(c),
			},
			CommitSet: w.commitSet(key),
		})

	case c13CloseBreach:
		err = arb.handleContractBreach(&BreachCloseInfo{
			BreachResolution: &BreachResolution{
				FundingOutPoint: c13ChanPoint,
			},
			AnchorResolution: w.anchorRes(),
			CommitHash:       c13CommitHash,
			CommitSet:        w.commitSet(RemoteHtlcSet),
			CloseSummary:     w.summary(channeldb.BreachClose),
		})
	}
	if err != nil {
		w.errs++
	}
}

// htlcRes: the HTLC resolutions the chain watcher delivers for commitment c:
// one per HTLC with an output on that commitment.
func (w *c13World) htlcRes(c int) *lnwallet.HtlcResolutions {
	r := &lnwallet.HtlcResolutions{}
	for _, h := range w.sc.htlcs[c] {
		if h.OutputIndex < 0 {
			continue
		}
		op := wire.OutPoint{Hash: w.commitHash(), Index: uint32(h.OutputIndex)}
		if h.Incoming {
			r.IncomingHTLCs = append(r.IncomingHTLCs,
				lnwallet.IncomingHtlcResolution{
					ClaimOutpoint: op,
					SweepSignDesc: c13SignDesc(1000),
					CsvDelay:      144,
				})
		} else {
			r.OutgoingHTLCs = append(r.OutgoingHTLCs,
				lnwallet.OutgoingHtlcResolution{
					Expiry:        h.RefundTimeout,
					ClaimOutpoint: op,
					SweepSignDesc: c13SignDesc(1000),
					CsvDelay:      144,
				})
		}
	}

	return r
}

// drive is one process life: start, then whatever the outside world still
// has to deliver.
func (w *c13World) drive() {
	if w.fullyClosed {
		// not in FetchClosedChannels(pendingOnly) any more: no arbitrator
		return
	}
	sc := w.sc
	arb := w.boot()
	height := sc.bestHeight[w.lives]

	if !w.firstDone {
		switch sc.first {
		case c13FirstUser:
			// channelAttendant, case closeReq := <-c.forceCloseReqs
			if arb.state == StateDefault {
				_, _, err := arb.advanceState(height, userTrigger, nil)
				if err != nil {
					w.errs++
				}
			}

		case c13FirstBlock:
			beat := chainio.NewBeat(chainntnfs.BlockEpoch{
				Height: int32(height),
			})
			if err := arb.handleBlockbeat(beat); err != nil {
				w.errs++
			}
		}
		w.firstDone = true
	}

	// The chain watcher (re-)delivers the close event as long as the
	// channel is not marked closed; for a closed channel there is no
	// chain watcher.
	if sc.closeKind != c13CloseNone && !w.closed && !w.fullyClosed {
		w.deliverClose(arb)
	}
}

// life runs one process until it ends or stops.
func (w *c13World) life() (crashed bool) {
	defer func() {
		if r := recover(); r != nil {
			if _, ok := r.(c13Crash); ok {
				crashed = true
				return
			}
			panic(r)
		}
	}()
	w.drive()

	return false
}

func (w *c13World) run() {
	for {
		if !w.life() {
			w.perLife = append(w.perLife, w.effects)
			return
		}
		w.perLife = append(w.perLife, w.effects)
		w.lives++
		w.effects = 0
	}
}

// -------------------------------------------------------------- oracle ----

type c13Live struct {
	rtyp   int
	key    []byte
	anchor bool
}

// live: the resolvers the running process works on.
func (w *c13World) live() []c13Live {
	var r []c13Live
	if w.arb == nil {
		return r
	}
	for _, res := range w.arb.activeResolvers {
		if _, ok := res.(*anchorResolver); ok {
			r = append(r, c13Live{anchor: true})
			continue
		}
		r = append(r, c13Live{
			rtyp: int(c13TypeOf(res)), key: res.ResolverKey(),
		})
	}

	return r
}

func c13LiveSubset(a, b []c13Live) bool {
	ok := true
	for _, x := range a {
		found := false
		for _, y := range b {
			if x.anchor || y.anchor {
				found = found || (x.anchor && y.anchor)
				continue
			}
			found = found || (x.rtyp == y.rtyp && bytes.Equal(x.key, y.key))
		}
		ok = ok && found
	}

	return ok
}

func c13StoredSubset(a, b []c13Stored) bool {
	ok := true
	for _, x := range a {
		found := false
		for _, y := range b {
			found = found || (x.rtyp == y.rtyp && bytes.Equal(x.key, y.key) &&
				bytes.Equal(x.raw, y.raw))
		}
		ok = ok && found
	}

	return ok
}

func c13IdxSubset(a, b []uint64) bool {
	ok := true
	for _, x := range a {
		found := false
		for _, y := range b {
			found = found || x == y
		}
		ok = ok && found
	}

	return ok
}

func (w *c13World) failed() []uint64 {
	var r []uint64
	for _, m := range w.msgs {
		if m.fail {
			r = append(r, m.idx)
		}
	}

	return r
}

func c13SameRes(a, b *ContractResolutions) bool {
	if a == nil || b == nil {
		return a == nil && b == nil
	}

	return a.CommitHash == b.CommitHash &&
		(a.CommitResolution == nil) == (b.CommitResolution == nil) &&
		(a.AnchorResolution == nil) == (b.AnchorResolution == nil) &&
		(a.BreachResolution == nil) == (b.BreachResolution == nil) &&
		len(a.HtlcResolutions.IncomingHTLCs) == len(b.HtlcResolutions.IncomingHTLCs) &&
		len(a.HtlcResolutions.OutgoingHTLCs) == len(b.HtlcResolutions.OutgoingHTLCs)
}

func c13SameHtlcs(x, y []channeldb.HTLC) bool {
	if len(x) != len(y) {
		return false
	}
	ok := true
	for i := range x {
		ok = ok && x[i].HtlcIndex == y[i].HtlcIndex &&
			x[i].Incoming == y[i].Incoming &&
			x[i].RefundTimeout == y[i].RefundTimeout &&
			x[i].OutputIndex == y[i].OutputIndex &&
			x[i].RHash == y[i].RHash && x[i].Amt == y[i].Amt
	}

	return ok
}

// c13SameCS compares the stored commit sets as decoded by decodeCommitSet
// (encodeCommitSet ranges over a map: the bytes are not canonical).
func c13SameCS(a, b *c13World) bool {
	if a.hasCS != b.hasCS {
		return false
	}
	if !a.hasCS {
		return true
	}
	ca, errA := decodeCommitSet(bytes.NewReader(a.csRaw))
	cb, errB := decodeCommitSet(bytes.NewReader(b.csRaw))
	if errA != nil || errB != nil {
		return false
	}
	if ca.ConfCommitKey != cb.ConfCommitKey ||
		len(ca.HtlcSets) != len(cb.HtlcSets) {

		return false
	}
	ok := true
	for _, k := range []HtlcSetKey{
		LocalHtlcSet, RemoteHtlcSet, RemotePendingHtlcSet,
	} {
		ha, inA := ca.HtlcSets[k]
		hb, inB := cb.HtlcSets[k]
		if inA != inB {
			return false
		}
		ok = ok && c13SameHtlcs(ha, hb)
	}

	return ok
}

const (
	c13MsgState    = "resume: the interrupted-then-resumed run ends in the same ArbitratorState (and the same fully-closed status) as the uninterrupted run"
	c13MsgLog      = "resume: the arbitrator log (contract resolutions, confirmed commit set, unresolved contracts with their encoded state) is the same as after the uninterrupted run"
	c13MsgChanDB   = "resume: the channel's close status (closed, close type, close height) is the same as after the uninterrupted run"
	c13MsgFails    = "resume: exactly the same upstream HTLCs are failed back / finalised as in the uninterrupted run (duplicates allowed)"
	c13MsgContra   = "no contradictory upstream resolution: an HTLC that is failed back has no live outgoing resolver and is never settled"
	c13MsgNotify   = "NotifyChannelResolved (MarkChannelResolved) only in StateFullyResolved with no unresolved contract in the log or in the running process"
	c13MsgSync     = "when the process is idle the state in the log is the state of the running arbitrator"
	c13MsgNotifyEq = "resume: the channel is reported fully resolved iff the uninterrupted run reports it"
	c13MsgLive     = "resume: the running process works on exactly the resolvers of the uninterrupted run (none lost, none invented)"
	c13MsgLiveLog  = "every unresolved contract in the log is live in the running process"
	c13MsgErr      = "no step of the state machine returns an error"
)

func (w *c13World) liveCoversLog() bool {
	if w.fullyClosed || w.state != StateWaitingFullResolution {
		return true
	}
	var logged []c13Live
	for _, s := range w.contracts {
		logged = append(logged, c13Live{rtyp: int(s.rtyp), key: s.key})
	}

	return c13LiveSubset(logged, w.live())
}

func (w *c13World) inSync() bool {
	return w.fullyClosed || w.arb == nil || w.arb.state == w.state
}

// noContradiction: within one run.
func (w *c13World) noContradiction() bool {
	ok := true
	for _, m := range w.msgs {
		ok = ok && !(m.fail && m.settle)
		for _, n := range w.msgs {
			ok = ok && !(m.idx == n.idx && m.fail && n.settle)
		}
	}
	if w.arb == nil {
		return ok
	}
	for _, res := range w.arb.activeResolvers {
		var idx uint64
		switch r := res.(type) {
		case *htlcTimeoutResolver:
			idx = r.htlc.HtlcIndex
		case *htlcOutgoingContestResolver:
			idx = r.htlc.HtlcIndex
		default:
			continue
		}
		for _, m := range w.msgs {
			ok = ok && !(m.fail && m.idx == idx)
		}
	}

	return ok
}

func c13Check(a, b *c13World) {
	vAssert(a.errs == 0 && b.errs == 0, c13MsgErr)
	vAssert(!a.notifyBad && !b.notifyBad, c13MsgNotify)
	vAssert(a.inSync() && b.inSync(), c13MsgSync)
	vAssert(a.noContradiction() && b.noContradiction(), c13MsgContra)
	vAssert(a.liveCoversLog() && b.liveCoversLog(), c13MsgLiveLog)

	vAssert(a.state == b.state && a.fullyClosed == b.fullyClosed, c13MsgState)
	vAssert((a.notified > 0) == (b.notified > 0), c13MsgNotifyEq)
	vAssert(a.closed == b.closed && a.closeType == b.closeType &&
		a.closeHeight == b.closeHeight, c13MsgChanDB)
	if !a.fullyClosed && !b.fullyClosed {
		vAssert(c13SameRes(a.res, b.res) && c13SameCS(a, b) &&
			c13StoredSubset(a.contracts, b.contracts) &&
			c13StoredSubset(b.contracts, a.contracts), c13MsgLog)
		la, lb := a.live(), b.live()
		vAssert(c13LiveSubset(la, lb) && c13LiveSubset(lb, la), c13MsgLive)
	}
	fa, fb := a.failed(), b.failed()
	vAssert(c13IdxSubset(fa, fb) && c13IdxSubset(fb, fa) &&
		c13IdxSubset(a.finals, b.finals) && c13IdxSubset(b.finals, a.finals),
		c13MsgFails)
}

// --------------------------------------------------------------- entry ----

func c13Config() {
	//vMerge("(*github.com/lightningnetwork/lnd/contractcourt.ChannelArbitrator).shouldGoOnChain")
	//vMerge("(*github.com/lightningnetwork/lnd/contractcourt.ChannelArbitrator).isPreimageAvailable")
	vGoInline("(*github.com/lightningnetwork/lnd/contractcourt.ChannelArbitrator).launchResolvers$1")
	vNoop("(*github.com/lightningnetwork/lnd/contractcourt.ChannelArbitrator).resolveContract")
	vAssumption("fakes: ArbitratorLog (state, resolutions, commit set through the real encodeCommitSet/decodeCommitSet, unresolved contracts through the resolvers' real Encode / new...FromReader), ArbChannel, MarkCommitmentBroadcasted, MarkChannelClosed, PublishTx, DeliverResolutionMsg, PutFinalHtlcOutcome, NotifyChannelResolved, FetchHistoricalChannel (always found), Sweeper, HtlcNotifier, PreimageDB, Registry, Clock: all succeed")
	vAssumption("a stop = the process ends right after an effect (log write or externally visible callback); in-memory state is lost, the fake world persists")
	vAssumption("restart = NewChannelArbitrator + getStartState + progressStateMachineAfterRestart as in ChainArbitrator.Start/ChannelArbitrator.Start/channelAttendant; the chain watcher re-delivers the close event while the channel is not marked closed")
	vAssumption("close summary: CloseHeight == SpendingHeight (chain_watcher.go)")
	vAssumption("resolvers' Launch/Resolve are outside: every resolver handed to resolveContracts is flagged resolved by the fake log, so launchResolvers skips it")
}

// c13Htlc builds one HTLC. Index, expiry and payment hash are symbolic; the
// output index is concrete (dust or not is part of the shape).
func c13Htlc(sc *c13Scenario, name string, incoming bool) channeldb.HTLC {
	h := channeldb.HTLC{
		Incoming:      incoming,
		Amt:           lnwire.MilliSatoshi(1_000_000),
		HtlcIndex:     vU64(name + ".idx"),
		RefundTimeout: vU32(name + ".expiry"),
	}
	h.RHash[0] = vU8(name + ".hash")
	// Domain as in C12: expiry - delta does not wrap (expiries are absolute
	// block heights, the deltas small configured block counts).
	if incoming {
		sc.dom = sc.dom && h.RefundTimeout >= sc.inDelta &&
			h.RefundTimeout < 1<<31
		h.OutputIndex = 3
	} else {
		sc.dom = sc.dom && h.RefundTimeout >= sc.outDelta &&
			h.RefundTimeout < 1<<31
		h.OutputIndex = 2
	}
	// Domain: an HTLC is dust on every commitment or on none (see NOTES.md).
	if vChoice(name+".dust", 2) == 1 {
		h.OutputIndex = -1
	}

	return h
}

// c13AddHtlcs: shapes of the three HTLC sets, all compatible with the BOLT-2
// update order (an offered HTLC on our commitment is on the peer's too).
func c13AddHtlcs(sc *c13Scenario, shape int) {
	sc.inDelta = vU32("inDelta")
	sc.outDelta = vU32("outDelta")
	sc.preimages = vU8("preimageCache")
	sc.forwarded = vU16("forwardedMask")
	sc.dom = sc.dom && sc.inDelta < 1<<16 && sc.outDelta < 1<<16
	const (
		l, r, p = 0, 1, 2
	)
	switch shape {
	case 1: // offered, on L and R, no pending remote commitment
		h := c13Htlc(sc, "out", false)
		sc.htlcs[l] = append(sc.htlcs[l], h)
		sc.htlcs[r] = append(sc.htlcs[r], h)
	case 2: // offered, on L, R and the pending remote commitment
		h := c13Htlc(sc, "out", false)
		sc.rpExists = true
		sc.htlcs[l] = append(sc.htlcs[l], h)
		sc.htlcs[r] = append(sc.htlcs[r], h)
		sc.htlcs[p] = append(sc.htlcs[p], h)
	case 3: // offered, only on the pending remote commitment
		h := c13Htlc(sc, "out", false)
		sc.rpExists = true
		sc.htlcs[p] = append(sc.htlcs[p], h)
	case 4: // offered, removed from L already, still on R
		h := c13Htlc(sc, "out", false)
		sc.htlcs[r] = append(sc.htlcs[r], h)
	case 5: // received, on L and R
		h := c13Htlc(sc, "in", true)
		sc.htlcs[l] = append(sc.htlcs[l], h)
		sc.htlcs[r] = append(sc.htlcs[r], h)
	case 6: // one offered and one received, on L and R
		h := c13Htlc(sc, "out", false)
		g := c13Htlc(sc, "in", true)
		sc.htlcs[l] = append(sc.htlcs[l], h, g)
		sc.htlcs[r] = append(sc.htlcs[r], h, g)
	}
}

// c13QuickShapes: the HTLC shapes of the quick tier (offered on L and R,
// offered on the pending remote commitment only, received on L and R).
var c13QuickShapes = [3]int{1, 3, 5}

// htlcMode: 0 no HTLCs, 1 quick shapes, 2 all shapes.
func c13NewScenario(htlcMode int) *c13Scenario {
	withHtlcs := htlcMode != 0
	sc := &c13Scenario{dom: true}
	sc.closeKind = vChoice("close", 6)
	sc.first = vChoice("first", 3)
	if withHtlcs {
		// commit output present, no anchor (all four combinations are
		// covered without HTLCs); coop close with live HTLCs cannot happen
		sc.hasCommit = sc.closeKind != c13CloseBreach &&
			sc.closeKind != c13CloseNone
		if sc.closeKind == c13CloseCoop {
			vAssume(false)
		}
		if htlcMode == 1 {
			c13AddHtlcs(sc, c13QuickShapes[vChoice("htlcs", 3)])
		} else {
			c13AddHtlcs(sc, 1+vChoice("htlcs", 6))
		}
	} else {
		sc.hasCommit = vChoice("commitRes", 2) == 1
		sc.hasAnchor = vChoice("anchorRes", 2) == 1
		// our channel state is stale: ForceCloseChan refuses, the state
		// machine waits in StateBroadcastCommit for what confirms
		sc.dataLoss = sc.first == c13FirstUser &&
			vChoice("localDataLoss", 2) == 1
		if sc.closeKind == c13CloseCoop || sc.closeKind == c13CloseNone {
			if sc.hasCommit || sc.hasAnchor {
				vAssume(false)
			}
		}
		if sc.closeKind == c13CloseBreach && sc.hasCommit {
			vAssume(false)
		}
	}
	if sc.closeKind == c13CloseRemotePending && withHtlcs && !sc.rpExists {
		vAssume(false)
	}
	sc.spendHeight = vU32("spendHeight")
	sc.dom = sc.dom && sc.spendHeight < 1<<31
	for i := range sc.bestHeight {
		sc.bestHeight[i] = vU32("bestHeight")
		sc.dom = sc.dom && sc.bestHeight[i] < 1<<31
		// time moves forward across restarts
		if i > 0 {
			sc.dom = sc.dom && sc.bestHeight[i] >= sc.bestHeight[i-1]
		}
	}

	return sc
}

func c13NewWorld(sc *c13Scenario, crashAt ...int) *c13World {
	w := &c13World{sc: sc, gid: c13Gid()}
	for i := range w.crashAt {
		w.crashAt[i] = -1
	}
	copy(w.crashAt[:], crashAt)

	return w
}

// window: 0 = every stop point; 1 = only runs in which no restarted process
// finds StateContractClosed in the log; 2 = only runs in which one does (see
// NOTES.md, CANDIDATE FINDING).
func c13Resume(htlcMode, nCrash, window int) {
	c13Config()
	sc := c13NewScenario(htlcMode)
	vAssume(sc.dom)

	// the uninterrupted run
	a := c13NewWorld(sc)
	a.run()
	if a.perLife[0] == 0 {
		// nothing happened: nothing to interrupt
		vAssume(false)
	}

	// stop after the k1-th effect (every effect of the run is a stop point)
	k1 := vChoice("crash", a.perLife[0])
	b := c13NewWorld(sc, k1)
	b.run()
	vAssert(b.lives == 1, "the interrupted run stops exactly once")

	if nCrash == 2 {
		// ... and once more after the k2-th effect of the resumed process
		if b.perLife[1] == 0 {
			vAssume(false)
		}
		k2 := vChoice("crash", b.perLife[1])
		b = c13NewWorld(sc, k1, k2)
		b.run()
		vAssert(b.lives == 2, "the interrupted run stops exactly twice")
	}

	if (window == 1 && b.bootCC) || (window == 2 && !b.bootCC) {
		vAssume(false)
	}
	vObserve("finalState", uint8(a.state))
	vObserve("fullyClosed", a.fullyClosed)
	vObserve("effects", a.perLife[0])

	c13Check(a, b)

	switch {
	case a.fullyClosed:
		vReach("fully-resolved")
	case a.state == StateWaitingFullResolution:
		vReach("waiting-full-resolution")
	case a.state == StateCommitmentBroadcasted:
		vReach("commitment-broadcasted")
	}
	if len(a.failed()) > 0 {
		vReach("failed-back")
	}
	if len(a.finals) > 0 {
		vReach("incoming-dust-final")
	}
	for _, lv := range a.live() {
		if lv.anchor {
			continue
		}
		switch resolverType(lv.rtyp) {
		case resolverTimeout:
			vReach("resolver-timeout")
		case resolverOutgoingContest:
			vReach("resolver-outgoing-contest")
		case resolverIncomingContest:
			vReach("resolver-incoming-contest")
		}
	}
}

func VerifC13Resume()        { c13Resume(0, 1, 0) }
func VerifC13Resume2()       { c13Resume(0, 2, 0) }
func VerifC13ResumeHtlc()    { c13Resume(1, 1, 1) }
func VerifC13ResumeHtlcAll() { c13Resume(2, 1, 1) }
func VerifC13ResumeHtlc2()   { c13Resume(1, 2, 1) }

// VerifC13RestartContractClosed: the stop points after which the restarted
// process re-executes StateContractClosed with HTLCs in the commit set.
func VerifC13RestartContractClosed()    { c13Resume(1, 1, 2) }
func VerifC13RestartContractClosedAll() { c13Resume(2, 1, 2) }
