package contractcourt

// C13, extension 2: the REAL boltArbitratorLog (briefcase.go: CommitState,
// CurrentState, LogContractResolutions / FetchContractResolutions,
// InsertConfirmedCommitSet / FetchConfirmedCommitSet,
// InsertUnresolvedContracts, SwapContract, ResolveContract,
// checkpointContract, FetchUnresolvedContracts, WipeHistory and the codecs
// below them) over an in-memory fake of the kvdb backend (walletdb.DB, the
// interface lnd already has). In the fake the WRITE TRANSACTION is the atomic
// unit: a transaction whose closure fails leaves the store as it was, a
// committed one is durable, and the process may stop right after any commit.
//
// Two entries:
//
//   VerifC13BoltAtomic   one log method call on a populated log, a stop after
//                        any write transaction inside it: the log a restarted
//                        process reads is the pre-state or the post-state of
//                        the call, never something in between (SwapContract
//                        must delete the old and write the new resolver in
//                        one transaction); the post-state is what the call
//                        promises (read back through the real Fetch methods).
//
//   VerifC13BoltResume   the real ChannelArbitrator over that log for a
//   (+ ...RestartResolved) remote force close with one offered HTLC, driven
//                        from the close event to StateFullyResolved, INCLUDING
//                        the resolver phase (real resolveContract, real
//                        htlcOutgoingContestResolver.Resolve -> SwapContract,
//                        htlcTimeoutResolver.Launch/Resolve -> fail back,
//                        checkpoint, ResolveContract, resolution signal,
//                        NotifyChannelResolved -> WipeHistory). The stop index
//                        ranges over every committed write transaction of the
//                        log and every externally visible callback.
//
// The fake kvdb is adapted from /verif/harness/C16/zz_verif_c16_kv.go.

import (
	"bytes"
	"time"

	"github.com/btcsuite/btcd/btcutil/v2"
	"github.com/btcsuite/btcd/chainhash/v2"
	"github.com/btcsuite/btcd/wire/v2"
	"github.com/btcsuite/btcwallet/walletdb"
	"github.com/lightningnetwork/lnd/chainntnfs"
	"github.com/lightningnetwork/lnd/channeldb"
	"github.com/lightningnetwork/lnd/chanstate"
	"github.com/lightningnetwork/lnd/fn/v2"
	"github.com/lightningnetwork/lnd/input"
	"github.com/lightningnetwork/lnd/kvdb"
	"github.com/lightningnetwork/lnd/lntypes"
	"github.com/lightningnetwork/lnd/lnwallet"
	"github.com/lightningnetwork/lnd/lnwallet/chainfee"
	"github.com/lightningnetwork/lnd/lnwire"
	"github.com/lightningnetwork/lnd/sweep"
)

// ---------------------------------------------------------------------------
// fake kvdb backend
// ---------------------------------------------------------------------------

// c13kvNode is one bucket: key/value pairs and nested buckets, each list in
// byte order of the keys (bbolt iterates in key order). Byte slices are never
// modified in place.
type c13kvNode struct {
	keys, vals [][]byte
	subKeys    [][]byte
	subs       []*c13kvNode
}

func c13kvCopy(b []byte) []byte {
	c := make([]byte, len(b))
	copy(c, b)

	return c
}

func (n *c13kvNode) clone() *c13kvNode {
	c := &c13kvNode{}
	c.keys = append([][]byte(nil), n.keys...)
	c.vals = append([][]byte(nil), n.vals...)
	c.subKeys = append([][]byte(nil), n.subKeys...)
	for _, s := range n.subs {
		c.subs = append(c.subs, s.clone())
	}

	return c
}

func c13kvLess(a, b []byte) bool {
	n := len(a)
	if len(b) < n {
		n = len(b)
	}
	for i := 0; i < n; i++ {
		if a[i] != b[i] {
			return a[i] < b[i]
		}
	}

	return len(a) < len(b)
}

func c13kvIndex(keys [][]byte, k []byte) int {
	for i := range keys {
		if bytes.Equal(keys[i], k) {
			return i
		}
	}

	return -1
}

func c13kvPos(keys [][]byte, k []byte) int {
	pos := 0
	for pos < len(keys) && c13kvLess(keys[pos], k) {
		pos++
	}

	return pos
}

func c13kvInsert(list [][]byte, pos int, v []byte) [][]byte {
	out := make([][]byte, 0, len(list)+1)
	out = append(out, list[:pos]...)
	out = append(out, v)
	out = append(out, list[pos:]...)

	return out
}

func c13kvRemove(list [][]byte, pos int) [][]byte {
	out := make([][]byte, 0, len(list))
	out = append(out, list[:pos]...)
	out = append(out, list[pos+1:]...)

	return out
}

type c13kvDB struct {
	kvdb.Backend // nil: every method not defined below panics

	top *c13kvNode // top-level buckets are the nested buckets of this node

	// commits counts the committed write transactions; afterCommit (if
	// set) runs right after each commit - the process may stop there.
	commits     int
	afterCommit func()
}

type c13kvTx struct {
	kvdb.RwTx // nil: every method not defined below panics

	db *c13kvDB
	rw bool
}

type c13kvB struct {
	kvdb.RwBucket // nil: every method not defined below panics

	n  *c13kvNode
	tx *c13kvTx
}

func c13kvNew() *c13kvDB { return &c13kvDB{top: &c13kvNode{}} }

func (d *c13kvDB) fork() *c13kvDB {
	return &c13kvDB{top: d.top.clone(), commits: d.commits}
}

func (d *c13kvDB) View(f func(tx walletdb.ReadTx) error, reset func()) error {
	reset()

	return f(&c13kvTx{db: d})
}

// write runs one atomic read-write transaction.
func (d *c13kvDB) write(f func(tx walletdb.ReadWriteTx) error) error {
	snap := d.top.clone()
	if err := f(&c13kvTx{db: d, rw: true}); err != nil {
		d.top = snap // rollback

		return err
	}
	d.commits++
	if d.afterCommit != nil {
		d.afterCommit()
	}

	return nil
}

func (d *c13kvDB) Update(f func(tx walletdb.ReadWriteTx) error,
	reset func()) error {

	reset()

	return d.write(f)
}

// Batch: bbolt's Batch is Update for a single caller (walletdb.BatchDB).
func (d *c13kvDB) Batch(f func(tx walletdb.ReadWriteTx) error) error {
	return d.write(f)
}

func (t *c13kvTx) top(key []byte) *c13kvB {
	if i := c13kvIndex(t.db.top.subKeys, key); i >= 0 {
		return &c13kvB{n: t.db.top.subs[i], tx: t}
	}

	return nil
}

func (t *c13kvTx) ReadBucket(key []byte) walletdb.ReadBucket {
	if b := t.top(key); b != nil {
		return b
	}

	return nil
}

func (t *c13kvTx) ReadWriteBucket(key []byte) walletdb.ReadWriteBucket {
	if b := t.top(key); b != nil {
		return b
	}

	return nil
}

func (t *c13kvTx) CreateTopLevelBucket(key []byte) (walletdb.ReadWriteBucket,
	error) {

	root := &c13kvB{n: t.db.top, tx: t}

	return root.CreateBucketIfNotExists(key)
}

func (t *c13kvTx) DeleteTopLevelBucket(key []byte) error {
	root := &c13kvB{n: t.db.top, tx: t}

	return root.DeleteNestedBucket(key)
}

func (b *c13kvB) Get(key []byte) []byte {
	if i := c13kvIndex(b.n.keys, key); i >= 0 {
		return b.n.vals[i]
	}

	return nil // unknown key, or the key of a nested bucket
}

func (b *c13kvB) Put(key, value []byte) error {
	if !b.tx.rw {
		return walletdb.ErrTxNotWritable
	}
	if len(key) == 0 {
		return walletdb.ErrKeyRequired
	}
	if c13kvIndex(b.n.subKeys, key) >= 0 {
		return walletdb.ErrIncompatibleValue
	}
	v := c13kvCopy(value)
	if i := c13kvIndex(b.n.keys, key); i >= 0 {
		vals := append([][]byte(nil), b.n.vals...)
		vals[i] = v
		b.n.vals = vals

		return nil
	}
	pos := c13kvPos(b.n.keys, key)
	b.n.keys = c13kvInsert(b.n.keys, pos, c13kvCopy(key))
	b.n.vals = c13kvInsert(b.n.vals, pos, v)

	return nil
}

func (b *c13kvB) Delete(key []byte) error {
	if !b.tx.rw {
		return walletdb.ErrTxNotWritable
	}
	if c13kvIndex(b.n.subKeys, key) >= 0 {
		return walletdb.ErrIncompatibleValue
	}
	i := c13kvIndex(b.n.keys, key)
	if i < 0 {
		return nil
	}
	b.n.keys = c13kvRemove(b.n.keys, i)
	b.n.vals = c13kvRemove(b.n.vals, i)

	return nil
}

// ForEach: keys and nested buckets (value nil) merged in key order.
func (b *c13kvB) ForEach(f func(k, v []byte) error) error {
	keys, vals, subKeys := b.n.keys, b.n.vals, b.n.subKeys
	i, j := 0, 0
	for i < len(keys) || j < len(subKeys) {
		if j >= len(subKeys) ||
			(i < len(keys) && c13kvLess(keys[i], subKeys[j])) {

			if err := f(keys[i], vals[i]); err != nil {
				return err
			}
			i++

			continue
		}
		if err := f(subKeys[j], nil); err != nil {
			return err
		}
		j++
	}

	return nil
}

func (b *c13kvB) nested(key []byte) *c13kvB {
	if i := c13kvIndex(b.n.subKeys, key); i >= 0 {
		return &c13kvB{n: b.n.subs[i], tx: b.tx}
	}

	return nil
}

func (b *c13kvB) NestedReadBucket(key []byte) walletdb.ReadBucket {
	if s := b.nested(key); s != nil {
		return s
	}

	return nil
}

func (b *c13kvB) NestedReadWriteBucket(key []byte) walletdb.ReadWriteBucket {
	if s := b.nested(key); s != nil {
		return s
	}

	return nil
}

func (b *c13kvB) CreateBucketIfNotExists(key []byte) (
	walletdb.ReadWriteBucket, error) {

	if !b.tx.rw {
		return nil, walletdb.ErrTxNotWritable
	}
	if len(key) == 0 {
		return nil, walletdb.ErrBucketNameRequired
	}
	if s := b.nested(key); s != nil {
		return s, nil
	}
	if c13kvIndex(b.n.keys, key) >= 0 {
		return nil, walletdb.ErrIncompatibleValue
	}
	pos := c13kvPos(b.n.subKeys, key)
	s := &c13kvNode{}
	b.n.subKeys = c13kvInsert(b.n.subKeys, pos, c13kvCopy(key))
	subs := make([]*c13kvNode, 0, len(b.n.subs)+1)
	subs = append(subs, b.n.subs[:pos]...)
	subs = append(subs, s)
	subs = append(subs, b.n.subs[pos:]...)
	b.n.subs = subs

	return &c13kvB{n: s, tx: b.tx}, nil
}

func (b *c13kvB) DeleteNestedBucket(key []byte) error {
	if !b.tx.rw {
		return walletdb.ErrTxNotWritable
	}
	i := c13kvIndex(b.n.subKeys, key)
	if i < 0 {
		return walletdb.ErrBucketNotFound
	}
	b.n.subKeys = c13kvRemove(b.n.subKeys, i)
	subs := make([]*c13kvNode, 0, len(b.n.subs))
	subs = append(subs, b.n.subs[:i]...)
	subs = append(subs, b.n.subs[i+1:]...)
	b.n.subs = subs

	return nil
}

// c13kvSame: two bucket trees hold the same keys, values and nested buckets.
func c13kvSame(a, b *c13kvNode) bool {
	if len(a.keys) != len(b.keys) || len(a.subs) != len(b.subs) {
		return false
	}
	ok := true
	for i := range a.keys {
		ok = ok && bytes.Equal(a.keys[i], b.keys[i]) &&
			bytes.Equal(a.vals[i], b.vals[i])
	}
	for i := range a.subs {
		if !bytes.Equal(a.subKeys[i], b.subKeys[i]) {
			return false
		}
		ok = ok && c13kvSame(a.subs[i], b.subs[i])
	}

	return ok
}

// ---------------------------------------------------------------------------
// shared pieces
// ---------------------------------------------------------------------------

var (
	c13bChainHash  = chainhash.Hash{0xb1}
	c13bReportsKey = []byte("c13-resolver-reports")
)

// c13bPutReport is cfg.PutResolverReport: like
// ChannelStateDB.PutResolverReport it writes INSIDE the transaction it is
// given, so a report is durable iff the resolver write next to it is.
func c13bPutReport(tx kvdb.RwTx, r *channeldb.ResolverReport) error {
	b, err := tx.CreateTopLevelBucket(c13bReportsKey)
	if err != nil {
		return err
	}
	key := []byte{
		byte(r.ResolverType), byte(r.ResolverOutcome),
		byte(r.OutPoint.Index),
	}
	a := uint64(r.Amount)

	return b.Put(key, []byte{
		byte(a >> 56), byte(a >> 48), byte(a >> 40), byte(a >> 32),
		byte(a >> 24), byte(a >> 16), byte(a >> 8), byte(a),
	})
}

// c13bView: what a process reads from the log through the real Fetch methods.
type c13bView struct {
	state     ArbitratorState
	contracts []c13Stored
	resolved  []bool
	errs      int
}

func c13bRead(log *boltArbitratorLog) c13bView {
	var v c13bView
	st, err := log.CurrentState(nil)
	if err != nil {
		v.errs++
	}
	v.state = st
	rs, err := log.FetchUnresolvedContracts()
	if err != nil {
		v.errs++
	}
	for _, r := range rs {
		var buf bytes.Buffer
		if err := r.Encode(&buf); err != nil {
			v.errs++
		}
		v.contracts = append(v.contracts, c13Stored{
			key: r.ResolverKey(), rtyp: c13TypeOf(r), raw: buf.Bytes(),
		})
		v.resolved = append(v.resolved, r.IsResolved())
	}

	return v
}

// c13bSameView: same state, same contracts in the same (key) order.
func c13bSameView(a, b *c13bView) bool {
	if len(a.contracts) != len(b.contracts) {
		return false
	}
	ok := a.state == b.state
	for i := range a.contracts {
		x, y := &a.contracts[i], &b.contracts[i]
		ok = ok && x.rtyp == y.rtyp && bytes.Equal(x.key, y.key) &&
			bytes.Equal(x.raw, y.raw)
	}

	return ok
}

func (v *c13bView) has(key []byte, rtyp resolverType) bool {
	found := false
	for i := range v.contracts {
		found = found || (v.contracts[i].rtyp == rtyp &&
			bytes.Equal(v.contracts[i].key, key))
	}

	return found
}

func (v *c13bView) hasKey(key []byte) bool {
	found := false
	for i := range v.contracts {
		found = found || bytes.Equal(v.contracts[i].key, key)
	}

	return found
}

// ---------------------------------------------------------------------------
// entry 1: every log method is atomic with respect to a stop
// ---------------------------------------------------------------------------

const (
	c13bOpSwapOut = iota
	c13bOpSwapIn
	c13bOpResolve
	c13bOpInsert
	c13bOpCheckpoint
	c13bOpCommitState
	c13bOpLogResolutions
	c13bOpCommitSet
	c13bOpWipe
	c13bNumOps
)

type c13bFixture struct {
	cfg    ChannelArbitratorConfig
	x, y   channeldb.HTLC
	z      channeldb.HTLC
	height uint32
	res    ContractResolutions
	cs     CommitSet

	// symbolic arguments of the method call under judgement (drawn once:
	// the uninterrupted and the stopped call get the same arguments)
	reportAmt  uint32
	newState   ArbitratorState
	res2Hash1  uint8
	res2Anchor uint32
}

func c13bOutRes(h channeldb.HTLC) lnwallet.OutgoingHtlcResolution {
	return lnwallet.OutgoingHtlcResolution{
		Expiry: h.RefundTimeout,
		ClaimOutpoint: wire.OutPoint{
			Hash: c13CommitHash, Index: uint32(h.OutputIndex),
		},
		SweepSignDesc: c13SignDesc(1000),
		CsvDelay:      144,
	}
}

func c13bInRes(h channeldb.HTLC) lnwallet.IncomingHtlcResolution {
	return lnwallet.IncomingHtlcResolution{
		ClaimOutpoint: wire.OutPoint{
			Hash: c13CommitHash, Index: uint32(h.OutputIndex),
		},
		SweepSignDesc: c13SignDesc(1000),
		CsvDelay:      144,
	}
}

func c13bSymHtlc(name string, incoming bool, out int32) channeldb.HTLC {
	h := channeldb.HTLC{
		Incoming:      incoming,
		Amt:           lnwire.MilliSatoshi(vU64(name + ".amt")),
		HtlcIndex:     vU64(name + ".idx"),
		RefundTimeout: vU32(name + ".expiry"),
		OutputIndex:   out,
	}
	h.RHash[0] = vU8(name + ".hash")

	return h
}

// c13bPopulate writes, through the real log methods, what a remote force
// close with an offered HTLC x, a received HTLC y and a commit output leaves
// in the log in StateWaitingFullResolution.
func c13bPopulate(log *boltArbitratorLog, f *c13bFixture) (
	oc *htlcOutgoingContestResolver, ic *htlcIncomingContestResolver,
	sw *commitSweepResolver, errs int) {

	rcfg := ResolverConfig{
		ChannelArbitratorConfig: f.cfg,
		Checkpoint:              log.checkpointContract,
	}
	oc = newOutgoingContestResolver(
		c13bOutRes(f.x), f.height, f.x, 0, rcfg,
	)
	ic = newIncomingContestResolver(
		c13bInRes(f.y), f.height, f.y, 0, rcfg,
	)
	sw = newCommitSweepResolver(*f.res.CommitResolution, f.height,
		c13ChanPoint, rcfg)

	for _, err := range []error{
		log.LogContractResolutions(&f.res),
		log.InsertConfirmedCommitSet(&f.cs),
		log.CommitState(StateContractClosed),
		log.InsertUnresolvedContracts(nil, oc, ic, sw),
		log.CommitState(StateWaitingFullResolution),
	} {
		if err != nil {
			errs++
		}
	}

	return oc, ic, sw, errs
}

type c13bOpResult struct {
	errs int
	// expectations about the post-state, filled in by the op
	gone    [][]byte // resolver keys that must have left the log
	present []c13Stored
	state   ArbitratorState
	wiped   bool
}

func c13bEncoded(r ContractResolver) c13Stored {
	var buf bytes.Buffer
	_ = r.Encode(&buf)

	return c13Stored{key: r.ResolverKey(), rtyp: c13TypeOf(r), raw: buf.Bytes()}
}

// c13bApply runs log method `op` once on a log that c13bPopulate filled.
func c13bApply(op int, log *boltArbitratorLog, f *c13bFixture,
	oc *htlcOutgoingContestResolver, ic *htlcIncomingContestResolver,
	sw *commitSweepResolver) (r c13bOpResult) {

	r.state = StateWaitingFullResolution
	check := func(err error) {
		if err != nil {
			r.errs++
		}
	}
	rcfg := ResolverConfig{
		ChannelArbitratorConfig: f.cfg,
		Checkpoint:              log.checkpointContract,
	}
	switch op {
	case c13bOpSwapOut:
		// the contest resolver gives way to its timeout resolver
		check(log.SwapContract(oc, oc.htlcTimeoutResolver))
		r.present = append(r.present, c13bEncoded(oc.htlcTimeoutResolver))

	case c13bOpSwapIn:
		check(log.SwapContract(ic, ic.htlcSuccessResolver))
		r.present = append(r.present, c13bEncoded(ic.htlcSuccessResolver))

	case c13bOpResolve:
		check(log.ResolveContract(sw))
		r.gone = append(r.gone, sw.ResolverKey())

	case c13bOpInsert:
		// two more resolvers and a report in ONE call
		t := newTimeoutResolver(c13bOutRes(f.z), f.height, f.z, 0, rcfg)
		g := f.z
		g.OutputIndex++
		g.Incoming = true
		s := newSuccessResolver(c13bInRes(g), f.height, g, 0, rcfg)
		check(log.InsertUnresolvedContracts(
			[]*channeldb.ResolverReport{{
				OutPoint:        t.HtlcPoint(),
				Amount:          btcutil.Amount(f.reportAmt),
				ResolverType:    channeldb.ResolverTypeOutgoingHtlc,
				ResolverOutcome: channeldb.ResolverOutcomeFirstStage,
			}}, t, s,
		))
		r.present = append(r.present, c13bEncoded(t), c13bEncoded(s))

	case c13bOpCheckpoint:
		// a restored resolver checkpoints progress together with a
		// report (the Checkpoint closure FetchUnresolvedContracts
		// installs)
		rs, err := log.FetchUnresolvedContracts()
		check(err)
		for _, res := range rs {
			t, ok := res.(*htlcOutgoingContestResolver)
			if !ok {
				continue
			}
			t.outputIncubating = true
			t.htlc = f.x
			check(t.Checkpoint(t, &channeldb.ResolverReport{
				OutPoint:        t.HtlcPoint(),
				Amount:          btcutil.Amount(f.reportAmt),
				ResolverType:    channeldb.ResolverTypeOutgoingHtlc,
				ResolverOutcome: channeldb.ResolverOutcomeFirstStage,
			}))
			r.present = append(r.present, c13bEncoded(t))
		}

	case c13bOpCommitState:
		r.state = f.newState
		check(log.CommitState(r.state))

	case c13bOpLogResolutions:
		// a second, different set of resolutions (with an anchor)
		res := f.res
		res.CommitHash[1] = f.res2Hash1
		res.AnchorResolution = &lnwallet.AnchorResolution{
			AnchorSignDescriptor: c13SignDesc(330),
			CommitAnchor: wire.OutPoint{
				Hash: c13CommitHash, Index: f.res2Anchor,
			},
		}
		res.HtlcResolutions.OutgoingHTLCs = append(
			[]lnwallet.OutgoingHtlcResolution(nil), c13bOutRes(f.z),
		)
		f.res = res
		check(log.LogContractResolutions(&res))

	case c13bOpCommitSet:
		cs := CommitSet{
			ConfCommitKey: fn.Some(RemotePendingHtlcSet),
			HtlcSets: map[HtlcSetKey][]channeldb.HTLC{
				RemotePendingHtlcSet: {f.x, f.z},
			},
		}
		f.cs = cs
		check(log.InsertConfirmedCommitSet(&cs))

	case c13bOpWipe:
		check(log.WipeHistory())
		r.wiped = true
		r.state = StateDefault
	}

	return r
}

func c13bResEq(a, b *ContractResolutions) bool {
	if a == nil || b == nil {
		return false
	}
	ok := a.CommitHash == b.CommitHash &&
		(a.CommitResolution == nil) == (b.CommitResolution == nil) &&
		(a.AnchorResolution == nil) == (b.AnchorResolution == nil) &&
		(a.BreachResolution == nil) == (b.BreachResolution == nil) &&
		len(a.HtlcResolutions.IncomingHTLCs) ==
			len(b.HtlcResolutions.IncomingHTLCs) &&
		len(a.HtlcResolutions.OutgoingHTLCs) ==
			len(b.HtlcResolutions.OutgoingHTLCs)
	if !ok {
		return false
	}
	if a.CommitResolution != nil {
		x, y := a.CommitResolution, b.CommitResolution
		ok = ok && x.SelfOutPoint == y.SelfOutPoint &&
			x.MaturityDelay == y.MaturityDelay &&
			c13SignDescEq(&x.SelfOutputSignDesc, &y.SelfOutputSignDesc)
	}
	if a.AnchorResolution != nil {
		x, y := a.AnchorResolution, b.AnchorResolution
		ok = ok && x.CommitAnchor == y.CommitAnchor &&
			c13SignDescEq(&x.AnchorSignDescriptor,
				&y.AnchorSignDescriptor)
	}
	for i := range a.HtlcResolutions.IncomingHTLCs {
		x := &a.HtlcResolutions.IncomingHTLCs[i]
		y := &b.HtlcResolutions.IncomingHTLCs[i]
		ok = ok && x.ClaimOutpoint == y.ClaimOutpoint &&
			x.CsvDelay == y.CsvDelay && x.Preimage == y.Preimage &&
			c13SignDescEq(&x.SweepSignDesc, &y.SweepSignDesc)
	}
	for i := range a.HtlcResolutions.OutgoingHTLCs {
		x := &a.HtlcResolutions.OutgoingHTLCs[i]
		y := &b.HtlcResolutions.OutgoingHTLCs[i]
		ok = ok && x.ClaimOutpoint == y.ClaimOutpoint &&
			x.CsvDelay == y.CsvDelay && x.Expiry == y.Expiry &&
			c13SignDescEq(&x.SweepSignDesc, &y.SweepSignDesc)
	}

	return ok
}

func c13bCSEq(a, b *CommitSet) bool {
	if a == nil || b == nil {
		return false
	}
	if a.ConfCommitKey != b.ConfCommitKey ||
		len(a.HtlcSets) != len(b.HtlcSets) {

		return false
	}
	ok := true
	for _, k := range []HtlcSetKey{
		LocalHtlcSet, RemoteHtlcSet, RemotePendingHtlcSet,
	} {
		ha, inA := a.HtlcSets[k]
		hb, inB := b.HtlcSets[k]
		if inA != inB {
			return false
		}
		ok = ok && c13SameHtlcs(ha, hb)
	}

	return ok
}

const (
	c13bMsgSetup   = "bolt log: populating the log through its own methods succeeds"
	c13bMsgOpOK    = "bolt log: the method call succeeds"
	c13bMsgTxs     = "bolt log: the method call commits at least one write transaction"
	c13bMsgStopped = "bolt log: the stop after the chosen write transaction happens"
	c13bMsgAtomic  = "bolt log: after a stop at ANY write-transaction boundary inside a log method the store holds the pre-state or the post-state of the call, never something in between (SwapContract: old resolver deleted and new one written in one transaction)"
	c13bMsgAtomicV = "bolt log: after a stop inside a log method FetchUnresolvedContracts / CurrentState return the pre-state or the post-state of the call; a contract that is in both is never missing"
	c13bMsgPost    = "bolt log: read back through the real Fetch methods, the post-state is what the call promises (swap: old gone, new stored under its key with its Encode bytes; resolve: gone; insert / checkpoint: stored; state, resolutions and commit set: the values written; wipe: nothing left) and every other contract is untouched"
)

func c13bFixtureNew() *c13bFixture {
	f := &c13bFixture{
		cfg:    ChannelArbitratorConfig{PutResolverReport: c13bPutReport},
		x:      c13bSymHtlc("x", false, 2),
		y:      c13bSymHtlc("y", true, 3),
		z:      c13bSymHtlc("z", false, 4),
		height: vU32("broadcastHeight"),

		reportAmt:  vU32("report.amt"),
		newState:   ArbitratorState(vU8("newState")),
		res2Hash1:  vU8("res2.hash1"),
		res2Anchor: vU32("res2.anchorIndex"),
	}
	f.cfg.ChanPoint = c13ChanPoint
	f.cfg.ShortChanID = c13ShortID
	f.res = ContractResolutions{
		CommitHash: c13CommitHash,
		CommitResolution: &lnwallet.CommitOutputResolution{
			SelfOutPoint:       wire.OutPoint{Hash: c13CommitHash},
			SelfOutputSignDesc: c13SignDesc(100_000),
			MaturityDelay:      vU32("maturityDelay"),
		},
		HtlcResolutions: lnwallet.HtlcResolutions{
			IncomingHTLCs: []lnwallet.IncomingHtlcResolution{
				c13bInRes(f.y),
			},
			OutgoingHTLCs: []lnwallet.OutgoingHtlcResolution{
				c13bOutRes(f.x),
			},
		},
	}
	f.cs = CommitSet{
		ConfCommitKey: fn.Some(RemoteHtlcSet),
		HtlcSets: map[HtlcSetKey][]channeldb.HTLC{
			LocalHtlcSet:  {f.x, f.y},
			RemoteHtlcSet: {f.x, f.y},
		},
	}

	return f
}

func c13bNewLog(db *c13kvDB, cfg ChannelArbitratorConfig) *boltArbitratorLog {
	log, err := newBoltArbitratorLog(db, cfg, c13bChainHash, c13ChanPoint)
	vAssert(err == nil, "bolt log: newBoltArbitratorLog succeeds")

	return log
}

// VerifC13BoltAtomic: see the head of the file.
func VerifC13BoltAtomic() {
	vAssumption("fake kvdb backend (walletdb.DB): Update/View/Batch, top-level and nested buckets, Get/Put/Delete/ForEach in key order, DeleteNestedBucket, DeleteTopLevelBucket; a write transaction is atomic and durable once committed; PutResolverReport writes into the transaction it is given (as ChannelStateDB.PutResolverReport does)")
	vAssumption("a stop = the process ends right after a committed write transaction (a stop inside a transaction is a stop after the previous commit)")
	op := vChoice("op", c13bNumOps)
	f := c13bFixtureNew()

	// pre-state, written by the real methods
	base := c13kvNew()
	log0 := c13bNewLog(base, f.cfg)
	oc, ic, sw, errs := c13bPopulate(log0, f)
	vAssert(errs == 0, c13bMsgSetup)
	pre := c13bRead(log0)
	vAssert(pre.errs == 0 && len(pre.contracts) == 3 &&
		pre.state == StateWaitingFullResolution, c13bMsgSetup)
	preRes, preCS := f.res, f.cs

	// the uninterrupted call
	dbA := base.fork()
	logA := c13bNewLog(dbA, f.cfg)
	fa := *f
	want := c13bApply(op, logA, &fa, oc, ic, sw)
	vAssert(want.errs == 0, c13bMsgOpOK)
	n := dbA.commits - base.commits
	vAssert(n >= 1, c13bMsgTxs)
	post := c13bRead(logA)

	// what the call promises, read back through the real Fetch methods
	ok := post.errs == 0 && post.state == want.state
	for _, k := range want.gone {
		ok = ok && !post.hasKey(k)
	}
	for i := range want.present {
		found := false
		for j := range post.contracts {
			found = found || (post.contracts[j].rtyp == want.present[i].rtyp &&
				bytes.Equal(post.contracts[j].key, want.present[i].key) &&
				bytes.Equal(post.contracts[j].raw, want.present[i].raw))
		}
		ok = ok && found
	}
	if want.wiped {
		ok = ok && len(post.contracts) == 0 && len(dbA.top.subs) == 0
		_, err := logA.FetchContractResolutions()
		ok = ok && err == errScopeBucketNoExist
	} else {
		// untouched contracts stay; the number of contracts is right
		for i := range pre.contracts {
			p := &pre.contracts[i]
			touched := false
			for _, k := range want.gone {
				touched = touched || bytes.Equal(p.key, k)
			}
			for j := range want.present {
				touched = touched || bytes.Equal(p.key, want.present[j].key)
			}
			if !touched {
				ok = ok && post.has(p.key, p.rtyp)
			}
		}
		fresh := 0
		for j := range want.present {
			if !pre.hasKey(want.present[j].key) {
				fresh++
			}
		}
		ok = ok && len(post.contracts) ==
			len(pre.contracts)-len(want.gone)+fresh
		gotRes, err := logA.FetchContractResolutions()
		ok = ok && err == nil && c13bResEq(gotRes, &fa.res)
		gotCS, err := logA.FetchConfirmedCommitSet(nil)
		ok = ok && err == nil && c13bCSEq(gotCS, &fa.cs)
		if op != c13bOpLogResolutions {
			ok = ok && c13bResEq(gotRes, &preRes)
		}
		if op != c13bOpCommitSet {
			ok = ok && c13bCSEq(gotCS, &preCS)
		}
	}
	vAssert(ok, c13bMsgPost)

	// the same call, stopped right after its k-th write transaction
	k := vChoice("crashTx", n)
	dbB := base.fork()
	dbB.afterCommit = func() {
		if dbB.commits-base.commits == k+1 {
			panic(c13Crash{})
		}
	}
	logB := c13bNewLog(dbB, f.cfg)
	stopped := func() (crashed bool) {
		defer func() {
			if r := recover(); r != nil {
				if _, ok := r.(c13Crash); ok {
					crashed = true
					return
				}
				panic(r)
			}
		}()
		fb := *f
		c13bApply(op, logB, &fb, oc, ic, sw)

		return false
	}()
	vAssert(stopped, c13bMsgStopped)

	// a fresh process reads the log
	dbB.afterCommit = nil
	got := c13bRead(c13bNewLog(dbB, f.cfg))
	vAssert(c13kvSame(dbB.top, base.top) || c13kvSame(dbB.top, dbA.top),
		c13bMsgAtomic)
	inBoth := true
	for i := range pre.contracts {
		p := &pre.contracts[i]
		if post.hasKey(p.key) {
			inBoth = inBoth && got.hasKey(p.key)
		}
	}
	vAssert(got.errs == 0 && inBoth &&
		(c13bSameView(&got, &pre) || c13bSameView(&got, &post)),
		c13bMsgAtomicV)

	vObserve("writeTxs", n)
	vReach("bolt-op-done")
	if op == c13bOpSwapOut {
		vReach("bolt-swap")
	}
}

// ---------------------------------------------------------------------------
// entry 2: the arbitrator over the real bolt log, through the resolver phase
// ---------------------------------------------------------------------------

type c13bScenario struct {
	x           channeldb.HTLC
	spendHeight uint32
	bestHeight  [c13MaxLives]uint32
	expiryBlock uint32 // the block at which the contest resolver gives up
	outDelta    uint32
	inDelta     uint32
	forwarded   uint16
	preimages   uint8
	dom         bool
}

type c13bWorld struct {
	sc *c13bScenario

	// stop control: one counter over committed write transactions of the
	// log and externally visible callbacks
	crashAt  [c13MaxLives - 1]int
	lives    int
	effects  int
	perLife  []int
	txEffect []bool // per effect of the first life: was it a write tx?
	atTx     bool   // the stop happened right after a write transaction

	db  *c13kvDB
	log *boltArbitratorLog

	// channel database
	closed      bool
	closeType   channeldb.ClosureType
	closeHeight uint32
	fullyClosed bool

	// the chain
	height    uint32
	htlcSpent bool // our timeout sweep of the HTLC output confirmed

	// outside world
	msgs      []c13Msg
	notified  int
	notifyBad bool
	errs      int

	// what the restarted processes found
	lostAtBoot   bool // WaitingFullResolution, x not reported upstream, no resolver for x in the log
	bootResolved bool // a restored resolver had the resolved flag set
	bootWFR      bool

	// the live process
	cfg          ChannelArbitratorConfig
	arb          *ChannelArbitrator
	notifier     *c13bNotifier
	sweepOffered bool
}

func (w *c13bWorld) tick(isTx bool) {
	n := w.effects
	w.effects++
	if w.lives == 0 {
		w.txEffect = append(w.txEffect, isTx)
	}
	if w.lives < len(w.crashAt) && n == w.crashAt[w.lives] {
		w.atTx = isTx
		panic(c13Crash{})
	}
}

// c13bNotifier is the chain notifier of ONE process. Disarmed it refuses
// (that is what the resolver goroutines of the process see, which the harness
// does not drive); armed - only while the harness itself runs
// resolveContract - it delivers what the chain has to say.
type c13bNotifier struct {
	c13ChainNotifier
	w     *c13bWorld
	armed bool

	// patient: the resolver being driven blocks until the HTLC output is
	// spent (timeout resolver), so the chain moves on until the sweep it
	// offered confirms. The contest resolver only glances at the output
	// (non-blocking) before it waits for a block.
	patient bool
}

func (n *c13bNotifier) RegisterSpendNtfn(op *wire.OutPoint, _ []byte,
	_ uint32) (*chainntnfs.SpendEvent, error) {

	if !n.armed {
		return nil, errC13Outside
	}
	w := n.w
	// the sweeper publishes the timeout sweep it was offered; it confirms
	// in a later block
	if n.patient && w.sweepOffered {
		w.htlcSpent = true
	}
	ch := make(chan *chainntnfs.SpendDetail, 1)
	if w.htlcSpent {
		tx := wire.NewMsgTx(2)
		tx.AddTxIn(&wire.TxIn{
			PreviousOutPoint: *op,
			// timeout path of an offered HTLC on the remote
			// commitment: <sig> <> <script>
			Witness: wire.TxWitness{{0x30}, {}, {0x51}},
		})
		hash := chainhash.Hash{0x5e}
		ch <- &chainntnfs.SpendDetail{
			SpentOutPoint:     op,
			SpenderTxHash:     &hash,
			SpendingTx:        tx,
			SpenderInputIndex: 0,
			SpendingHeight:    int32(w.height),
		}
	}

	return &chainntnfs.SpendEvent{Spend: ch, Cancel: func() {}}, nil
}

func (n *c13bNotifier) RegisterBlockEpochNtfn(*chainntnfs.BlockEpoch) (
	*chainntnfs.BlockEpochEvent, error) {

	if !n.armed {
		return nil, errC13Outside
	}
	w := n.w
	// the chain advances to the block at which the HTLC is about to expire
	if w.height < w.sc.expiryBlock {
		w.height = w.sc.expiryBlock
	}
	n.patient = true
	ch := make(chan *chainntnfs.BlockEpoch, 1)
	ch <- &chainntnfs.BlockEpoch{Height: int32(w.height)}

	return &chainntnfs.BlockEpochEvent{Epochs: ch, Cancel: func() {}}, nil
}

type c13bChainIO struct {
	c13ChainIO
	w *c13bWorld
}

func (c c13bChainIO) GetBestBlock() (*chainhash.Hash, int32, error) {
	return &chainhash.Hash{}, int32(c.w.height), nil
}

type c13bSweeper struct{ w *c13bWorld }

func (s c13bSweeper) SweepInput(input.Input, sweep.Params) (
	chan sweep.Result, error) {

	s.w.sweepOffered = true

	return make(chan sweep.Result, 1), nil
}

func (c13bSweeper) RelayFeePerKW() chainfee.SatPerKWeight { return 253 }

func (c13bSweeper) UpdateParams(wire.OutPoint, sweep.Params) (
	chan sweep.Result, error) {

	return make(chan sweep.Result, 1), nil
}

func (w *c13bWorld) xKey() []byte {
	op := wire.OutPoint{Hash: c13CommitHash, Index: uint32(w.sc.x.OutputIndex)}
	key := newResolverID(op)

	return key[:]
}

func (w *c13bWorld) xReported() bool {
	found := false
	for _, m := range w.msgs {
		found = found || (m.idx == w.sc.x.HtlcIndex && (m.fail || m.settle))
	}

	return found
}

// notifyResolved is cfg.NotifyChannelResolved = ChainArbitrator.ResolveContract:
// MarkChanFullyClosed, then WipeHistory of the log.
func (w *c13bWorld) notifyResolved() {
	v := c13bRead(w.log)
	if v.errs != 0 || v.state != StateFullyResolved ||
		len(v.contracts) != 0 || !w.xReported() {

		w.notifyBad = true
	}
	w.notified++
	w.fullyClosed = true
	w.tick(false)
	if err := w.log.WipeHistory(); err != nil {
		w.errs++
	}
}

func (w *c13bWorld) boot() *ChannelArbitrator {
	sc := w.sc
	start := time.Unix(1_700_000_000, 0)
	if sc.bestHeight[w.lives] > w.height {
		w.height = sc.bestHeight[w.lives]
	}
	w.sweepOffered = false // the sweeper's inputs are in memory
	w.notifier = &c13bNotifier{w: w}

	cfg := ChannelArbitratorConfig{
		ChanPoint:         c13ChanPoint,
		ShortChanID:       c13ShortID,
		ChainEvents:       &ChainEventSubscription{},
		PutResolverReport: c13bPutReport,
		FetchHistoricalChannel: func() (*chanstate.OpenChannel, error) {
			return &chanstate.OpenChannel{
				ChanType:        channeldb.SingleFunderTweaklessBit,
				FundingOutpoint: c13ChanPoint,
			}, nil
		},
		FindOutgoingHTLCDeadline: func(channeldb.HTLC) fn.Option[int32] {
			return fn.None[int32]()
		},
		NotifyChannelResolved: w.notifyResolved,
	}
	cfg.ChainArbitratorConfig = ChainArbitratorConfig{
		ChainHash:              c13bChainHash,
		IncomingBroadcastDelta: sc.inDelta,
		OutgoingBroadcastDelta: sc.outDelta,
		PublishTx: func(*wire.MsgTx, string) error {
			w.tick(false)

			return nil
		},
		DeliverResolutionMsg: func(msgs ...ResolutionMsg) error {
			for _, m := range msgs {
				w.msgs = append(w.msgs, c13Msg{
					idx: m.HtlcIndex, fail: m.Failure != nil,
					settle: m.PreImage != nil,
				})
			}
			w.tick(false)

			return nil
		},
		PreimageDB:     &c13Beacon{mask: sc.preimages},
		Registry:       &c13Registry{},
		Sweeper:        c13bSweeper{w: w},
		ChainIO:        c13bChainIO{w: w},
		OnionProcessor: c13Onion{},
		Notifier:       w.notifier,
		SubscribeBreachComplete: func(*wire.OutPoint,
			chan struct{}) (bool, error) {

			return false, errC13Outside
		},
		IncubateOutputs: func(wire.OutPoint,
			fn.Option[lnwallet.OutgoingHtlcResolution],
			fn.Option[lnwallet.IncomingHtlcResolution],
			uint32, fn.Option[int32], ...IncubateOption) error {

			return errC13Outside
		},
		HtlcNotifier: c13Notifier{},
		IsForwardedHTLC: func(_ lnwire.ShortChannelID, idx uint64) bool {
			return (sc.forwarded>>(idx&15))&1 == 1
		},
		Clock: &c13Clock{now: start},
		PutFinalHtlcOutcome: func(lnwire.ShortChannelID, uint64,
			bool) error {

			w.tick(false)

			return nil
		},
	}

	sets := make(map[HtlcSetKey]htlcSet)
	if w.closed {
		// loadPendingCloseChannels
		cfg.IsPendingClose = true
		cfg.ClosingHeight = w.closeHeight
		cfg.CloseType = w.closeType
	} else {
		// newActiveChannelArbitrator. Domain of this entry: a process
		// that finds the channel still open starts before the HTLC
		// is due to go on chain (our own force close racing the
		// peer's commitment is VerifC13Resume*'s subject; the fake
		// channel cannot force close).
		vAssume(w.height < sc.x.RefundTimeout-sc.outDelta)
		cfg.Channel = &c13bChannel{}
		cfg.MarkCommitmentBroadcasted = func(*wire.MsgTx,
			lntypes.ChannelParty) error {

			w.tick(false)

			return nil
		}
		cfg.MarkChannelClosed = func(s *channeldb.ChannelCloseSummary,
			_ ...channeldb.ChannelStatus) error {

			w.closed = true
			w.closeType = s.CloseType
			w.closeHeight = s.CloseHeight
			w.tick(false)

			return nil
		}
		sets[LocalHtlcSet] = newHtlcSet([]channeldb.HTLC{sc.x})
		sets[RemoteHtlcSet] = newHtlcSet([]channeldb.HTLC{sc.x})
	}

	w.cfg = cfg
	w.log = c13bNewLog(w.db, cfg)

	// what does this process find in the log?
	if w.lives > 0 {
		v := c13bRead(w.log)
		if v.state == StateWaitingFullResolution {
			w.bootWFR = true
			if !w.xReported() && !v.hasKey(w.xKey()) {
				w.lostAtBoot = true
			}
		}
		for _, r := range v.resolved {
			if r {
				w.bootResolved = true
			}
		}
	}

	arb := NewChannelArbitrator(cfg, sets, w.log)
	// channelAttendant (outside the unit) is the receiver of this signal;
	// the harness plays its part after resolveContract returns
	arb.resolutionSignal = make(chan struct{}, 4)
	w.arb = arb

	// Start
	arb.startTimestamp = cfg.Clock.Now()
	state, err := arb.getStartState(nil)
	if err != nil {
		w.errs++

		return arb
	}
	arb.state = state.currentState

	// channelAttendant
	err = arb.progressStateMachineAfterRestart(
		int32(w.height), state.commitSet,
	)
	if err != nil {
		w.errs++
	}

	return arb
}

type c13bChannel struct{}

func (c *c13bChannel) ForceCloseChan() (*wire.MsgTx, error) {
	return nil, errC13Outside
}

func (c *c13bChannel) NewAnchorResolutions() (*lnwallet.AnchorResolutions,
	error) {

	return &lnwallet.AnchorResolutions{}, nil
}

// deliverClose: the peer's current commitment confirmed; we have no output
// of our own on it, one offered HTLC.
func (w *c13bWorld) deliverClose(arb *ChannelArbitrator) {
	sc := w.sc
	spend := &chainntnfs.SpendDetail{
		SpenderTxHash:  &c13CommitHash,
		SpendingHeight: int32(sc.spendHeight),
	}
	sets := map[HtlcSetKey][]channeldb.HTLC{
		LocalHtlcSet:  {sc.x},
		RemoteHtlcSet: {sc.x},
	}
	err := arb.handleRemoteForceCloseEvent(&RemoteUnilateralCloseInfo{
		UnilateralCloseSummary: &lnwallet.UnilateralCloseSummary{
			SpendDetail: spend,
			ChannelCloseSummary: channeldb.ChannelCloseSummary{
				ChanPoint:   c13ChanPoint,
				ShortChanID: c13ShortID,
				ClosingTXID: c13CommitHash,
				CloseHeight: sc.spendHeight,
				CloseType:   channeldb.RemoteForceClose,
				IsPending:   true,
			},
			HtlcResolutions: &lnwallet.HtlcResolutions{
				OutgoingHTLCs: []lnwallet.OutgoingHtlcResolution{
					c13bOutRes(sc.x),
				},
			},
		},
		CommitSet: CommitSet{
			ConfCommitKey: fn.Some(RemoteHtlcSet), HtlcSets: sets,
		},
	})
	if err != nil {
		w.errs++
	}
}

// pump: the harness in the role of the chain and of channelAttendant. Every
// unresolved live resolver is run by the REAL resolveContract (synchronously,
// with the chain notifier armed), then the resolution signals are consumed
// the way channelAttendant does.
func (w *c13bWorld) pump(arb *ChannelArbitrator) {
	// the goroutines the process started itself (resolveContract with a
	// refusing notifier) have ended
	arb.wg.Wait()
	live := append([]ContractResolver(nil), arb.activeResolvers...)
	for _, r := range live {
		if r.IsResolved() {
			continue
		}
		_, contest := r.(*htlcOutgoingContestResolver)
		w.notifier.patient = !contest
		w.notifier.armed = true
		arb.wg.Add(1)
		arb.resolveContract(r)
		w.notifier.armed = false
	}
	for {
		select {
		case <-arb.resolutionSignal:
			_, _, err := arb.advanceState(w.height, chainTrigger, nil)
			if err != nil {
				w.errs++
			}

			continue
		default:
		}

		break
	}
}

func (w *c13bWorld) drive() {
	if w.fullyClosed {
		return
	}
	arb := w.boot()
	if !w.closed {
		w.deliverClose(arb)
	}
	if w.fullyClosed {
		return
	}
	w.pump(arb)
}

func (w *c13bWorld) life() (crashed bool) {
	defer func() {
		if r := recover(); r != nil {
			if _, ok := r.(c13Crash); ok {
				crashed = true
				return
			}
			panic(r)
		}
	}()
	w.drive()

	return false
}

func (w *c13bWorld) run() {
	for {
		crashed := w.life()
		w.perLife = append(w.perLife, w.effects)
		if !crashed {
			return
		}
		w.lives++
		w.effects = 0
	}
}

func c13bNewWorld(sc *c13bScenario, crashAt ...int) *c13bWorld {
	w := &c13bWorld{sc: sc, db: c13kvNew()}
	for i := range w.crashAt {
		w.crashAt[i] = -1
	}
	copy(w.crashAt[:], crashAt)
	w.db.afterCommit = func() { w.tick(true) }

	return w
}

func c13bNewScenario() *c13bScenario {
	sc := &c13bScenario{dom: true}
	sc.inDelta = vU32("inDelta")
	sc.outDelta = vU32("outDelta")
	sc.preimages = vU8("preimageCache")
	sc.forwarded = vU16("forwardedMask")
	sc.dom = sc.dom && sc.inDelta < 1<<16 && sc.outDelta < 1<<16
	sc.x = c13bSymHtlc("x", false, 2)
	sc.dom = sc.dom && sc.x.RefundTimeout >= sc.outDelta &&
		sc.x.RefundTimeout >= 1 && sc.x.RefundTimeout < 1<<31
	sc.spendHeight = vU32("spendHeight")
	sc.dom = sc.dom && sc.spendHeight < 1<<31
	for i := range sc.bestHeight {
		sc.bestHeight[i] = vU32("bestHeight")
		sc.dom = sc.dom && sc.bestHeight[i] < 1<<31
		if i > 0 {
			sc.dom = sc.dom && sc.bestHeight[i] >= sc.bestHeight[i-1]
		}
	}
	// the block that makes the contest resolver hand over to the timeout
	// resolver: height >= expiry-1 (htlc_outgoing_contest_resolver.go)
	sc.expiryBlock = vU32("expiryBlock")
	sc.dom = sc.dom && sc.expiryBlock >= sc.x.RefundTimeout-1 &&
		sc.expiryBlock < 1<<31

	return sc
}

func c13bConfig() {
	vGoInline("(*github.com/lightningnetwork/lnd/contractcourt.ChannelArbitrator).launchResolvers$1")
	vGoInline("(*github.com/lightningnetwork/lnd/contractcourt.ChannelArbitrator).resolveContract")
	vAssumption("fake kvdb backend (walletdb.DB) under the real boltArbitratorLog: a write transaction is atomic and durable once committed; PutResolverReport writes into the transaction it is given")
	vAssumption("a stop = the process ends right after a committed write transaction of the log or right after an externally visible callback (MarkChannelClosed, DeliverResolutionMsg, MarkChanFullyClosed); the chain (height, the confirmed timeout sweep) persists")
	vAssumption("restart = newBoltArbitratorLog + NewChannelArbitrator + getStartState + progressStateMachineAfterRestart with the cfg ChainArbitrator builds; the harness plays channelAttendant for the resolution signal (advanceState with chainTrigger) and the chain notifier for the resolvers it drives through the real resolveContract; the resolveContract goroutines the process starts itself see a refusing notifier and end")
	vAssumption("chain: the HTLC is not claimed by the peer; once the timeout resolver has offered the output to the sweeper the timeout sweep confirms")
}

const (
	c13bMsgErr     = "bolt resume: no step of the state machine returns an error"
	c13bMsgTerm    = "bolt resume: the uninterrupted run ends fully resolved (log wiped)"
	c13bMsgLost    = "bolt resume: a process that starts in StateWaitingFullResolution finds a resolver in the log for every HTLC output not yet reported upstream (a stop between write transactions never loses the resolver of an unresolved HTLC)"
	c13bMsgNotify  = "bolt resume: NotifyChannelResolved only in StateFullyResolved, with no unresolved contract in the log and the HTLC failed back or settled upstream"
	c13bMsgSame    = "bolt resume: the stopped-and-resumed run reaches the same terminal outcome as the uninterrupted one (fully resolved iff, same upstream fail-backs, same log contents)"
	c13bMsgNoContr = "bolt resume: no upstream HTLC is both failed and settled"
)

func (w *c13bWorld) failed() []uint64 {
	var r []uint64
	for _, m := range w.msgs {
		if m.fail {
			r = append(r, m.idx)
		}
	}

	return r
}

func (w *c13bWorld) contradiction() bool {
	bad := false
	for _, m := range w.msgs {
		bad = bad || (m.fail && m.settle)
		for _, n := range w.msgs {
			bad = bad || (m.idx == n.idx && m.fail && n.settle)
		}
	}

	return bad
}

// window: 1 = only runs in which no restarted process finds a resolver with
// the resolved flag set in the log; 2 = only runs in which one does.
func c13bResume(window, nCrash int) {
	c13bConfig()
	sc := c13bNewScenario()
	vAssume(sc.dom)

	a := c13bNewWorld(sc)
	a.run()
	vAssert(a.errs == 0, c13bMsgErr)
	vAssert(a.fullyClosed && a.notified == 1 && !a.notifyBad &&
		len(a.db.top.subs) <= 1, c13bMsgTerm)
	n := a.perLife[0]

	k := vChoice("crash", n)
	b := c13bNewWorld(sc, k)
	b.run()
	vAssert(b.lives == 1, "the interrupted run stops exactly once")
	if nCrash == 2 {
		// ... and once more after the k2-th effect of the resumed process
		if b.perLife[1] == 0 {
			vAssume(false)
		}
		k2 := vChoice("crash", b.perLife[1])
		b = c13bNewWorld(sc, k, k2)
		b.run()
		vAssert(b.lives == 2, "the interrupted run stops exactly twice")
	}
	if (window == 1 && b.bootResolved) || (window == 2 && !b.bootResolved) {
		vAssume(false)
	}
	vObserve("effects", n)
	vObserve("stopAtTx", b.atTx)

	vAssert(b.errs == 0, c13bMsgErr)
	vAssert(!b.lostAtBoot, c13bMsgLost)
	vAssert(!b.notifyBad, c13bMsgNotify)
	vAssert(!a.contradiction() && !b.contradiction(), c13bMsgNoContr)
	fa, fb := a.failed(), b.failed()
	same := a.fullyClosed == b.fullyClosed &&
		(a.notified > 0) == (b.notified > 0) &&
		c13IdxSubset(fa, fb) && c13IdxSubset(fb, fa) &&
		a.closed == b.closed && a.closeType == b.closeType &&
		a.closeHeight == b.closeHeight
	if !a.fullyClosed && !b.fullyClosed {
		va, vb := c13bRead(a.log), c13bRead(b.log)
		same = same && c13bSameView(&va, &vb)
	}
	vAssert(same, c13bMsgSame)

	if b.fullyClosed {
		vReach("bolt-fully-resolved")
	}
	if b.atTx {
		vReach("bolt-stop-after-tx")
	}
	if b.bootWFR {
		vReach("bolt-restart-waiting-full-resolution")
	}
	if b.bootResolved {
		vReach("bolt-restart-resolved-flag")
	}
}

// VerifC13BoltResume: every stop point except those after which a restarted
// process finds a resolver with the resolved flag set in the log.
func VerifC13BoltResume() { c13bResume(1, 1) }

// VerifC13BoltResume2: two stops, the second anywhere in the resumed process.
func VerifC13BoltResume2() { c13bResume(1, 2) }

// VerifC13BoltRestartResolved: exactly those stop points.
func VerifC13BoltRestartResolved() { c13bResume(2, 1) }
