package chancloser

// Harness for C17x (cooperative close, legacy negotiation, message ORDER).
//
// Two real ChanCloser objects (created with the real NewChanCloser) are wired
// back to back. The harness is only the network and the two links: it owns
// one FIFO inbox per side, decides (vChoice) which enabled event happens next
// and passes the real messages the closers return.
//
// Events (the legal life cycle, see peer/brontide.go handleCloseMsg /
// handleLocalCloseReq / handleChanFlushed):
//   req X      the user asks X to close: X.ShutdownChan()        (X idle)
//   dlv X      the head of X's inbox is delivered: ReceiveShutdown or
//              ReceiveClosingSigned                              (inbox not empty)
//   flush X    X's link reports "flushed": X.BeginNegotiation()  (once, after X
//              has processed the peer's shutdown - the peer registers the
//              flush hook right after ReceiveShutdown)
// The wire is a FIFO per direction, so a shutdown always arrives before the
// closing_signed messages of the same sender.
//
// Real code executed: NewChanCloser, ShutdownChan, initChanShutdown,
// ReceiveShutdown, validateShutdownScript (+ lnwallet.ValidateUpfrontShutdown),
// BeginNegotiation, initFeeBaseline, ReceiveClosingSigned (incl. the
// closeAwaitingFlush cache and its replay), proposeCloseSigned,
// calcCompromiseFee, feeInAcceptableRange, ratchetFee, ClosingTx.

import (
	"bytes"

	"github.com/btcsuite/btcd/btcec/v2"
	"github.com/btcsuite/btcd/btcec/v2/ecdsa"
	"github.com/btcsuite/btcd/btcutil/v2"
	"github.com/btcsuite/btcd/chaincfg/v2"
	"github.com/btcsuite/btcd/wire/v2"
	"github.com/lightningnetwork/lnd/channeldb"
	"github.com/lightningnetwork/lnd/fn/v2"
	"github.com/lightningnetwork/lnd/input"
	"github.com/lightningnetwork/lnd/lntypes"
	"github.com/lightningnetwork/lnd/lnwallet"
	"github.com/lightningnetwork/lnd/lnwallet/chainfee"
	"github.com/lightningnetwork/lnd/lnwallet/types"
	"github.com/lightningnetwork/lnd/lnwire"
	"github.com/lightningnetwork/lnd/tlv"
)

const c17xMaxSat = btcutil.Amount(2_100_000_000_000_000)

// ---------------------------------------------------------------------------
// fakes behind the interfaces ChanCloser already has
// ---------------------------------------------------------------------------

// c17xChan is the fake chancloser.Channel: it signs every proposal with a
// fixed, well-formed ECDSA signature and records what it was asked to do.
type c17xChan struct {
	initiator           bool
	localBal, remoteBal btcutil.Amount

	signedFees   []btcutil.Amount
	signScripts  [][2][]byte // (local, remote) script of every proposal
	completed    []btcutil.Amount
	complScripts [][2][]byte
	broadcast    int
	coopMarked   []lntypes.ChannelParty
	shutdownSent []*channeldb.ShutdownInfo
	disabled     int
}

func c17xFixedSig() *ecdsa.Signature {
	var r, s btcec.ModNScalar
	r.SetInt(1)
	s.SetInt(1)
	return ecdsa.NewSignature(&r, &s)
}

func (m *c17xChan) ChannelPoint() wire.OutPoint {
	return wire.OutPoint{Index: 7}
}
func (m *c17xChan) LocalCommitmentBlob() fn.Option[tlv.Blob] { return fn.None[tlv.Blob]() }
func (m *c17xChan) FundingBlob() fn.Option[tlv.Blob]         { return fn.None[tlv.Blob]() }
func (m *c17xChan) MarkShutdownSent(i *channeldb.ShutdownInfo) error {
	m.shutdownSent = append(m.shutdownSent, i)
	return nil
}
func (m *c17xChan) IsInitiator() bool                         { return m.initiator }
func (m *c17xChan) ShortChanID() lnwire.ShortChannelID        { return lnwire.ShortChannelID{} }
func (m *c17xChan) ChanType() channeldb.ChannelType           { return 0 }
func (m *c17xChan) FundingTxOut() *wire.TxOut                 { return nil }
func (m *c17xChan) AbsoluteThawHeight() (uint32, error)       { return 0, nil }
func (m *c17xChan) LocalBalanceDust() (bool, btcutil.Amount)  { return false, 354 }
func (m *c17xChan) RemoteBalanceDust() (bool, btcutil.Amount) { return false, 354 }
func (m *c17xChan) CommitBalances() (btcutil.Amount, btcutil.Amount) {
	return m.localBal, m.remoteBal
}
func (m *c17xChan) CommitFee() btcutil.Amount { return 0 }
func (m *c17xChan) RemoteUpfrontShutdownScript() lnwire.DeliveryAddress {
	return lnwire.DeliveryAddress{}
}
func (m *c17xChan) MarkCoopBroadcasted(_ *wire.MsgTx, p lntypes.ChannelParty) error {
	m.coopMarked = append(m.coopMarked, p)
	return nil
}

func (m *c17xChan) CreateCloseProposal(fee btcutil.Amount, local, remote []byte,
	_ ...lnwallet.ChanCloseOpt) (input.Signature, *wire.MsgTx, btcutil.Amount, error) {

	m.signedFees = append(m.signedFees, fee)
	m.signScripts = append(m.signScripts, [2][]byte{local, remote})
	return c17xFixedSig(), nil, 0, nil
}

func (m *c17xChan) CompleteCooperativeClose(_, _ input.Signature, local, remote []byte, fee btcutil.Amount,
	_ ...lnwallet.ChanCloseOpt) (*wire.MsgTx, btcutil.Amount, error) {

	m.completed = append(m.completed, fee)
	m.complScripts = append(m.complScripts, [2][]byte{local, remote})
	return wire.NewMsgTx(2), 0, nil
}

func (m *c17xChan) signed(f btcutil.Amount) bool {
	ok := false
	for _, g := range m.signedFees {
		ok = ok || g == f
	}
	return ok
}

// c17xEst is a fake CoopFeeEstimator: the absolute fee for the closer's own
// fee rate is `ideal`, for the configured max fee rate `max`.
type c17xEst struct {
	idealRate  chainfee.SatPerKWeight
	ideal, max btcutil.Amount
}

func (e *c17xEst) EstimateFee(_ channeldb.ChannelType, _, _ *wire.TxOut, rate chainfee.SatPerKWeight) btcutil.Amount {
	if rate == e.idealRate {
		return e.ideal
	}
	return e.max
}

// ---------------------------------------------------------------------------
// the two-party network
// ---------------------------------------------------------------------------

type c17xMsg struct {
	shutdown bool
	sd       lnwire.Shutdown
	cs       lnwire.ClosingSigned
}

type c17xSide struct {
	name        string
	c           *ChanCloser // nil until the peer creates the closer (close request or first shutdown)
	ch          *c17xChan
	script      []byte
	ideal, cap_ btcutil.Amount
	explicitMax bool

	inbox       []c17xMsg            // messages travelling to this side, FIFO
	requested   bool                 // ShutdownChan was called here
	gotShutdown bool                 // the peer's shutdown has been processed => flush hook registered
	flushed     bool                 // BeginNegotiation has been called
	pending     int                  // closing_signed delivered before the flush and not answered yet
	early       lnwire.ClosingSigned // that message (kept by the harness, independent of the closer's cache)
	sentCS      int
	recvCS      int
	failed      bool
}

type c17xNet struct {
	a, b       *c17xSide
	params     *chaincfg.Params
	deliveries int // closing_signed deliveries (the "rounds" of the property)
}

func c17xFee(name string) btcutil.Amount {
	v := btcutil.Amount(vI64(name))
	// property domain: realistic fees, at least 100 sat; at most the money supply
	vAssume(v >= 100 && v <= c17xMaxSat)
	return v
}

func c17xConfig() {
	vOverflow("github.com/lightningnetwork/lnd/lnwallet/chancloser.calcCompromiseFee")
	vOverflow("github.com/lightningnetwork/lnd/lnwallet/chancloser.ratchetFee")
	vOverflow("github.com/lightningnetwork/lnd/lnwallet/chancloser.feeInAcceptableRange")
	vAssumption("C17x: fake chancloser.Channel (signs everything with a fixed well-formed ECDSA signature, records signed/completed fees and scripts, never fails, no thaw height, no upfront shutdown script, balances not dust); fake CoopFeeEstimator; no aux closer; non-taproot channel; one FIFO per direction; the flush notification of a side comes after that side processed the peer's shutdown")
}

// c17xCloser creates the closer the way peer.createChanCloser does.
func (n *c17xNet) c17xCloser(s *c17xSide, closer lntypes.ChannelParty) {
	ch := s.ch
	cfg := ChanCloseCfg{
		Channel: ch,
		BroadcastTx: func(*wire.MsgTx, string) error {
			ch.broadcast++
			return nil
		},
		DisableChannel: func(wire.OutPoint) error {
			ch.disabled++
			return nil
		},
		ChainParams: n.params,
		AuxCloser:   fn.None[AuxChanCloser](),
	}
	idealRate := chainfee.SatPerKWeight(253)
	cfg.FeeEstimator = &c17xEst{idealRate: idealRate, ideal: s.ideal, max: s.cap_}
	if s.explicitMax {
		// any rate != idealRate: the estimator maps it to the absolute cap
		cfg.MaxFee = chainfee.SatPerKWeight(1000)
	}
	s.c = NewChanCloser(
		cfg, DeliveryAddrWithKey{DeliveryAddress: s.script}, idealRate, 100, nil, closer,
	)
}

func (s *c17xSide) idle() bool { return s.c == nil || s.c.state == closeIdle }

func (s *c17xSide) finished() bool { return s.c != nil && s.c.state == closeFinished }

// event kinds
const (
	c17xReqA = iota
	c17xReqB
	c17xFlushA
	c17xFlushB
	c17xDlvA
	c17xDlvB
)

func (n *c17xNet) enabled(allowReqB bool) []int {
	var ev []int
	a, b := n.a, n.b
	if a.idle() && !a.requested && !a.gotShutdown {
		ev = append(ev, c17xReqA)
	}
	if allowReqB && b.idle() && !b.requested && !b.gotShutdown {
		ev = append(ev, c17xReqB)
	}
	if a.gotShutdown && !a.flushed {
		ev = append(ev, c17xFlushA)
	}
	if b.gotShutdown && !b.flushed {
		ev = append(ev, c17xFlushB)
	}
	if len(a.inbox) > 0 {
		ev = append(ev, c17xDlvA)
	}
	if len(b.inbox) > 0 {
		ev = append(ev, c17xDlvB)
	}
	return ev
}

// request: the user asks s to close the channel.
func (n *c17xNet) request(s, peer *c17xSide) bool {
	n.c17xCloser(s, lntypes.Local)
	s.requested = true
	msg, err := s.c.ShutdownChan()
	vAssert(err == nil && msg != nil, "ShutdownChan succeeds on an idle closer")
	if err != nil || msg == nil {
		return false
	}
	vAssert(s.c.state == closeShutdownInitiated, "after ShutdownChan the closer waits for the peer's shutdown")
	vAssert(bytes.Equal(msg.Address, s.script) && msg.ChannelID == s.c.cid, "our shutdown carries our delivery script and the channel id")
	peer.inbox = append(peer.inbox, c17xMsg{shutdown: true, sd: *msg})
	return true
}

// deliver the head of s's inbox.
func (n *c17xNet) deliver(s, peer *c17xSide, R int) bool {
	m := s.inbox[0]
	s.inbox = s.inbox[1:]

	if m.shutdown {
		if s.c == nil {
			// peer.fetchActiveChanCloser creates the closer on demand
			n.c17xCloser(s, lntypes.Remote)
		}
		wasIdle := s.c.state == closeIdle
		vAssert(wasIdle || s.c.state == closeShutdownInitiated, "a shutdown arrives only before the negotiation (FIFO wire)")
		resp, err := s.c.ReceiveShutdown(m.sd)
		vAssert(err == nil, "ReceiveShutdown accepts the honest peer's shutdown")
		if err != nil {
			return false
		}
		vAssert(s.c.state == closeAwaitingFlush, "after the peer's shutdown the closer awaits the flush")
		vAssert(bytes.Equal(s.c.remoteDeliveryScript, peer.script), "the peer's delivery script is recorded")
		vAssert(resp.IsSome() == wasIdle, "we answer with our own shutdown iff we had not sent one")
		if resp.IsSome() {
			vReach("shutdown-reply")
			out := resp.UnwrapOr(lnwire.Shutdown{})
			vAssert(bytes.Equal(out.Address, s.script) && out.ChannelID == s.c.cid, "our shutdown reply carries our delivery script")
			peer.inbox = append(peer.inbox, c17xMsg{shutdown: true, sd: out})
		} else {
			vReach("shutdown-after-shutdownchan")
		}
		s.gotShutdown = true
		return true
	}

	// closing_signed
	n.deliveries++
	if n.deliveries > R {
		vAssert(false, "negotiation terminates within the bounded number of closing_signed deliveries")
		return false
	}
	s.recvCS++
	vAssert(s.c != nil && s.gotShutdown, "closing_signed arrives after the sender's shutdown (FIFO wire)")
	if s.c == nil {
		return false
	}
	before := s.c.state
	nSigned := len(s.ch.signedFees)
	resp, err := s.c.ReceiveClosingSigned(m.cs)
	vAssert(err == nil, "no negotiation step fails between honest parties (ideal fees within the caps)")
	if err != nil {
		return false
	}
	if !s.flushed {
		// the link has not reported the flush yet: the offer must be kept
		// for BeginNegotiation, nothing is answered or signed now
		vReach("cached")
		s.pending++
		s.early = m.cs
		vAssert(s.pending == 1, "an honest peer has at most one unanswered offer outstanding")
		vAssert(before == closeAwaitingFlush && s.c.state == closeAwaitingFlush, "an early closing_signed leaves the closer in closeAwaitingFlush")
		vAssert(resp.IsNone() && len(s.ch.signedFees) == nSigned && len(s.ch.completed) == 0, "an early closing_signed is not answered before the flush")
		return true
	}
	if before == closeFinished {
		vReach("final-echo")
		vAssert(resp.IsNone() && s.c.state == closeFinished, "the echo of the agreed fee is ignored once finished")
		return true
	}
	vAssert(before == closeFeeNegotiation, "after the flush the closer negotiates")
	vAssert(resp.IsSome(), "every offer received during negotiation is answered")
	if resp.IsNone() {
		// keep running: the end-of-run oracle (deadlock) judges it as well
		return true
	}
	out := resp.UnwrapOr(lnwire.ClosingSigned{})
	n.answer(s, peer, m.cs, out)
	return true
}

// answer: obligations on the answer `out` of s to the peer's offer `in`, and
// hand it to the wire.
func (n *c17xNet) answer(s, peer *c17xSide, in, out lnwire.ClosingSigned) {
	vAssert(out.ChannelID == s.c.cid, "answer carries the channel id")
	vAssert(s.ch.signed(out.FeeSatoshis), "every fee we send was signed by us")
	if s.c.state == closeFinished {
		vAssert(out.FeeSatoshis == in.FeeSatoshis, "on acceptance the answer carries the peer's fee")
		vAssert(len(s.ch.completed) == 1 && s.ch.completed[0] == in.FeeSatoshis, "the close is completed once, at the fee the peer signed")
	} else {
		vAssert(s.c.state == closeFeeNegotiation, "a counter-offer keeps the closer negotiating")
		vAssert(out.FeeSatoshis != in.FeeSatoshis && len(s.ch.completed) == 0, "a counter-offer differs from the peer's fee and completes nothing")
	}
	s.sentCS++
	peer.inbox = append(peer.inbox, c17xMsg{cs: out})
}

// flush: the link of s reports that the channel is clean.
func (n *c17xNet) flush(s, peer *c17xSide) bool {
	vAssert(s.c != nil && s.c.state == closeAwaitingFlush, "the flush hook fires in closeAwaitingFlush")
	if s.c == nil {
		return false
	}
	hadCached := s.pending == 1
	cached := s.early
	resp, err := s.c.BeginNegotiation()
	s.flushed = true
	vAssert(err == nil, "BeginNegotiation succeeds")
	if err != nil {
		return false
	}
	vAssert(s.c.state == closeFeeNegotiation || s.c.state == closeFinished, "after BeginNegotiation the closer negotiates (or is done)")
	vAssert(s.c.idealFeeSat == s.ideal && s.c.maxFee == s.cap_, "fee baseline taken from the estimator")
	if s.ch.initiator {
		vReach("opener-first-offer")
		vAssert(!hadCached, "the non-opener never sends the first closing_signed")
		vAssert(resp.IsSome(), "the opener sends the first offer when flushed")
		if resp.IsNone() {
			return true
		}
		out := resp.UnwrapOr(lnwire.ClosingSigned{})
		vAssert(out.FeeSatoshis == s.ideal && s.ch.signed(s.ideal) && out.ChannelID == s.c.cid, "the first offer is the opener's ideal fee, signed")
		vAssert(s.c.state == closeFeeNegotiation, "the opener negotiates after its first offer")
		s.sentCS++
		peer.inbox = append(peer.inbox, c17xMsg{cs: out})
		return true
	}
	if !hadCached {
		vReach("non-opener-waits")
		vAssert(resp.IsNone() && s.c.state == closeFeeNegotiation && len(s.ch.signedFees) == 0, "the non-opener waits for the first offer")
		if resp.IsSome() {
			// an unsolicited offer still travels
			s.sentCS++
			peer.inbox = append(peer.inbox, c17xMsg{cs: resp.UnwrapOr(lnwire.ClosingSigned{})})
		}
		return true
	}
	vReach("cache-replayed")
	// the cached offer is consumed: answered now, exactly like an offer
	// received during the negotiation
	vAssert(resp.IsSome(), "a cached offer is answered by BeginNegotiation (not dropped, not cached again)")
	if resp.IsNone() {
		return true
	}
	s.pending = 0
	out := resp.UnwrapOr(lnwire.ClosingSigned{})
	n.answer(s, peer, cached, out)
	return true
}

func c17xSame(x, y [2][]byte) bool {
	return bytes.Equal(x[0], y[0]) && bytes.Equal(x[1], y[1])
}

// c17xRun drives the network. mode 0: the shutdown exchange runs in the usual
// order (A asks, B answers, A receives) and everything after is free; mode 1:
// A asks first (naming), then every interleaving incl. B asking as well.
func c17xRun(F btcutil.Amount, R int, mode int, explicitMax bool) {
	c17xConfig()
	idealA, idealB := c17xFee("idealA"), c17xFee("idealB")
	vAssume(idealA <= F && idealB <= F)
	// who opened the channel (pays the fee, sends the first offer)
	aOpens := vChoice("opener", 2) == 0

	capA, capB := idealA*3, idealB*3
	if explicitMax {
		// explicit cap of the opener, symbolic, at least its own ideal fee
		m := c17xFee("maxFee")
		if aOpens {
			capA = m
			vAssume(idealA <= capA)
		} else {
			capB = m
			vAssume(idealB <= capB)
		}
	}
	// "within each other's fee cap": the non-opener's ideal fee is within the
	// opener's cap
	if aOpens {
		vAssume(idealB <= capA)
	} else {
		vAssume(idealA <= capB)
	}
	// channel balances (sat), mirrored on the two sides
	balA, balB := btcutil.Amount(vI64("balA")), btcutil.Amount(vI64("balB"))
	vAssume(balA >= 0 && balB >= 0 && balA <= c17xMaxSat && balB <= c17xMaxSat)

	scriptA := []byte{0x00, 0x14, 1, 2, 3, 4, 5, 6, 7, 8, 9, 10, 11, 12, 13, 14, 15, 16, 17, 18, 19, 20}
	scriptB := []byte{0x00, 0x14, 20, 19, 18, 17, 16, 15, 14, 13, 12, 11, 10, 9, 8, 7, 6, 5, 4, 3, 2, 1}
	n := &c17xNet{
		params: &chaincfg.Params{Name: "verif", Bech32HRPSegwit: "bc"},
		a: &c17xSide{name: "A", script: scriptA, ideal: idealA, cap_: capA, explicitMax: explicitMax && aOpens,
			ch: &c17xChan{initiator: aOpens, localBal: balA, remoteBal: balB}},
		b: &c17xSide{name: "B", script: scriptB, ideal: idealB, cap_: capB, explicitMax: explicitMax && !aOpens,
			ch: &c17xChan{initiator: !aOpens, localBal: balB, remoteBal: balA}},
	}
	a, b := n.a, n.b

	// forced prefix
	forced := []int{c17xReqA}
	if mode == 0 {
		forced = []int{c17xReqA, c17xDlvB, c17xDlvA}
	}

	maxSteps := 6 + R + 2
	quiescent := false
	for step := 0; step < maxSteps; step++ {
		ev := n.enabled(mode == 1)
		if len(ev) == 0 {
			quiescent = true
			break
		}
		var e int
		if step < len(forced) {
			e = forced[step]
			ok := false
			for _, x := range ev {
				ok = ok || x == e
			}
			vAssert(ok, "harness: forced event is enabled")
			if !ok {
				return
			}
		} else if len(ev) == 1 {
			e = ev[0]
		} else {
			e = ev[vChoice("ev", len(ev))]
		}
		ok := true
		switch e {
		case c17xReqA:
			ok = n.request(a, b)
		case c17xReqB:
			vReach("simultaneous-shutdown")
			ok = n.request(b, a)
		case c17xFlushA:
			ok = n.flush(a, b)
		case c17xFlushB:
			ok = n.flush(b, a)
		case c17xDlvA:
			ok = n.deliver(a, b, R)
		case c17xDlvB:
			ok = n.deliver(b, a, R)
		}
		if !ok {
			return
		}
	}
	vAssert(quiescent, "harness: step bound large enough")
	if !quiescent {
		return
	}

	// nothing is in flight and no link event is outstanding: both closers
	// must be done, anything else is a deadlock
	vObserve("deliveries", n.deliveries)
	done := a.finished() && b.finished()
	vAssert(done, "no deadlock: with nothing in flight both closers are in closeFinished")
	if !done {
		return
	}
	vReach("agreed")
	chA, chB := a.ch, b.ch
	txA, errA := a.c.ClosingTx()
	txB, errB := b.c.ClosingTx()
	vAssert(errA == nil && errB == nil && txA != nil && txB != nil, "both closers hold the closing transaction")
	vAssert(len(chA.completed) == 1 && len(chB.completed) == 1 && chA.completed[0] == chB.completed[0], "both sides complete the close exactly once at the same fee")
	fee := chA.completed[0]
	vObserve("fee", int64(fee))
	vAssert(chA.signed(fee) && chB.signed(fee), "the agreed fee was signed by both sides")
	if aOpens {
		vAssert(fee <= capA, "the agreed fee is within the payer's cap")
	} else {
		vAssert(fee <= capB, "the agreed fee is within the payer's cap")
	}
	vAssert(chA.broadcast == 1 && chB.broadcast == 1, "each side broadcasts once")
	vAssert(a.pending == 0 && b.pending == 0, "no offer is left unanswered")

	// both sides built every proposal and the final transaction over the
	// same pair of delivery scripts (mirrored)
	wantA := [2][]byte{scriptA, scriptB}
	wantB := [2][]byte{scriptB, scriptA}
	okScripts := c17xSame(chA.complScripts[0], wantA) && c17xSame(chB.complScripts[0], wantB)
	for _, p := range chA.signScripts {
		okScripts = okScripts && c17xSame(p, wantA)
	}
	for _, p := range chB.signScripts {
		okScripts = okScripts && c17xSame(p, wantB)
	}
	vAssert(okScripts, "every proposal and the completed close use (own script, peer's script)")

	// shutdown bookkeeping: one shutdown persisted per side, the closing
	// party is the one that asked
	vAssert(len(chA.shutdownSent) == 1 && len(chB.shutdownSent) == 1 && chA.disabled == 1 && chB.disabled == 1, "each side sends exactly one shutdown and disables the channel once")
	vAssert(chA.shutdownSent[0].LocalInitiator.Val == a.requested && chB.shutdownSent[0].LocalInitiator.Val == b.requested, "the persisted shutdown info records who initiated")
	vAssert(bytes.Equal(chA.shutdownSent[0].DeliveryScript.Val, scriptA) && bytes.Equal(chB.shutdownSent[0].DeliveryScript.Val, scriptB), "the persisted shutdown info records the own delivery script")
	wantPartyA, wantPartyB := lntypes.Remote, lntypes.Remote
	if a.requested {
		wantPartyA = lntypes.Local
	}
	if b.requested {
		wantPartyB = lntypes.Local
	}
	vAssert(len(chA.coopMarked) == 1 && chA.coopMarked[0] == wantPartyA && len(chB.coopMarked) == 1 && chB.coopMarked[0] == wantPartyB, "the close is marked broadcast once with the closing party")
	la := a.c.LocalCloseOutput().UnwrapOr(types.CloseOutput{})
	ra := a.c.RemoteCloseOutput().UnwrapOr(types.CloseOutput{})
	vAssert(a.c.LocalCloseOutput().IsSome() && a.c.RemoteCloseOutput().IsSome() && la.Amt == balA && ra.Amt == balB && bytes.Equal(la.PkScript, scriptA) && bytes.Equal(ra.PkScript, scriptB), "A tracks both close outputs (balance, script)")

	if n.deliveries >= 5 {
		vReach("long")
	}
	if idealA == idealB {
		vReach("immediate")
	}
}

// quick: the usual shutdown exchange, then every order of {flush A, flush B,
// deliveries}; both roles.
func VerifC17xFlushOrder() { c17xRun(200, 9, 0, false) }

// quick: every order from the first close request on (incl. simultaneous
// shutdown and early flushes).
func VerifC17xLifeCycle() { c17xRun(200, 9, 1, false) }

// thorough
func VerifC17xFlushOrderThorough() { c17xRun(400, 16, 0, false) }
func VerifC17xFlushOrderMaxFee()   { c17xRun(200, 9, 0, true) }
func VerifC17xLifeCycleThorough()  { c17xRun(200, 9, 1, false) }
