package channeldb

// Harness for C04-K2b: the LOOKUP side of the revocation log after an upgrade.
//
// A channel that was opened by a pre-0.15 lnd and not migrated keeps its old
// revoked states in the deprecated bucket "revocation-log-key" (one legacy
// ChannelCommitment per height); every state revoked after the upgrade is
// written by putRevocationLog into the new bucket "revocation-log". Such a
// channel has BOTH buckets, and a given height may be in either.
//
// Unit executed symbolically (real lnd code, nothing modelled):
//   channeldb.fetchRevocationLogCompatible, fetchRevocationLog,
//   fetchOldRevocationLog, makeLogKey, deserializeChanCommit (ReadElements,
//   wire.MsgTx.Deserialize, DeserializeHtlcs), deserializeRevocationLog and
//   the tlv code underneath; writers used to populate the buckets: the real
//   putRevocationLog (new format) and the real serializeChanCommit under
//   makeLogKey(height) (what the pre-upgrade appendChannelLogEntry wrote);
//   VerifC04FindPrev additionally runs (*ChannelStateDB).FindPreviousState ->
//   kvdb.View -> fetchChanBucket (graphdb.WriteOutpoint, isOutpointClosed,
//   btcec SerializeCompressed) over a fake backend.
// Fakes (behind the interfaces lnd already has): kvdb.RBucket as in-memory
// key/value list + nested buckets by name; kvdb.Backend.View / kvdb.RTx.
//
// Oracle (property C04: "for every commitment the counterparty has revoked,
// using only what the node has persisted it recognises the state"): with up
// to two revoked heights, each symbolically stored in the new bucket, in the
// legacy bucket, in both or in neither (and each bucket existing or not), the
// lookup of ANY height q
//   - succeeds iff an entry for q exists in either bucket,
//   - returns the new-format entry (and no legacy commitment) when the new
//     bucket has one (new format preferred), with the content written there,
//   - otherwise returns the legacy commitment stored for q (and no new-format
//     entry), with the content written there - in particular when the new
//     bucket exists but has no entry for q,
//   - fails with ErrLogEntryNotFound only when neither bucket has an entry
//     (ErrNoPastDeltas when neither bucket exists at all), returning nothing.

import (
	"bytes"

	"github.com/btcsuite/btcd/btcec/v2"
	"github.com/btcsuite/btcd/btcutil/v2"
	"github.com/btcsuite/btcd/wire/v2"
	"github.com/lightningnetwork/lnd/kvdb"
	"github.com/lightningnetwork/lnd/lnwire"
)

// on-disk names of the two buckets (written out: they are the format).
var (
	c04NewLogName    = []byte("revocation-log")
	c04LegacyLogName = []byte("revocation-log-key")
)

// c04Node is an in-memory read bucket that only has nested buckets.
type c04Node struct {
	kvdb.RBucket
	names [][]byte
	subs  []kvdb.RBucket
}

func (n *c04Node) add(name []byte, b kvdb.RBucket) {
	n.names = append(n.names, append([]byte(nil), name...))
	n.subs = append(n.subs, b)
}

func (n *c04Node) NestedReadBucket(key []byte) kvdb.RBucket {
	for i := range n.names {
		if bytes.Equal(n.names[i], key) {
			return n.subs[i]
		}
	}
	return nil
}

func (n *c04Node) Get(key []byte) []byte { return nil }

// c04Tx / c04Backend: a read transaction over a tree of c04Node.
type c04Tx struct {
	kvdb.RTx
	top *c04Node
}

func (t *c04Tx) ReadBucket(key []byte) kvdb.RBucket { return t.top.NestedReadBucket(key) }

type c04Backend struct {
	kvdb.Backend
	tx *c04Tx
}

func (b *c04Backend) View(f func(tx kvdb.RTx) error, reset func()) error {
	reset()
	return f(b.tx)
}

type c04NewEnt struct {
	ourIdx, theirIdx uint32
	local, remote    uint64
	txid             [32]byte
}

type c04OldEnt struct {
	local, remote uint64
	feePerKw      int64
	logIdx        uint64
	txid          [32]byte
	nHtlcs        int
	htlcAmt       uint64
	htlcOut       int32
}

func c04CompatTx(sfx string) *wire.MsgTx {
	tx := wire.NewMsgTx(2)
	tx.LockTime = vU32("lockTime" + sfx)
	tx.AddTxIn(&wire.TxIn{Sequence: vU32("sequence" + sfx)})
	tx.AddTxOut(&wire.TxOut{Value: int64(vU32("out0Value" + sfx)), PkScript: []byte{0x00, 0x14}})
	return tx
}

// c04Compat: n revoked heights; viaDB: look up through FindPreviousState;
// legacyHtlcs: number of HTLCs in every legacy commitment; pinBal: the
// balances of new-format entries are restricted to one BigSize length class
// (5 bytes) - the codec over all classes is C04-K2's subject, here it only
// multiplies paths.
func c04Compat(n int, viaDB bool, legacyHtlcs int, pinBal bool) {
	newExists, oldExists := vBool("newBucketExists"), vBool("legacyBucketExists")
	var newB, oldB *c04Bucket
	if newExists {
		newB = &c04Bucket{}
	}
	if oldExists {
		oldB = &c04Bucket{}
	}

	var (
		heights      [2]uint64
		inNew, inOld [2]bool
		newEnt       [2]c04NewEnt
		oldEnt       [2]c04OldEnt
	)
	for i := 0; i < n; i++ {
		sfx := string(rune('0' + i))
		heights[i] = vU64("height" + sfx)
		inNew[i], inOld[i] = vBool("inNew"+sfx), vBool("inLegacy"+sfx)
		// an entry can only be in a bucket that exists
		vAssume((!inNew[i] || newExists) && (!inOld[i] || oldExists))
	}
	if n == 2 {
		vAssume(heights[0] != heights[1]) // one revoked state per height
	}

	for i := 0; i < n; i++ {
		sfx := string(rune('0' + i))
		if inNew[i] {
			e := &newEnt[i]
			e.ourIdx, e.theirIdx = uint32(vU16("newOurIdx"+sfx)), uint32(vU16("newTheirIdx"+sfx))
			e.local, e.remote = vU64("newLocalMsat"+sfx), vU64("newRemoteMsat"+sfx)
			vAssume(e.local <= c04MaxMsat && e.remote <= c04MaxMsat)
			if pinBal {
				c04Class(e.local, 2)
				c04Class(e.remote, 2)
			}
			tx := c04CompatTx("New" + sfx)
			e.txid = [32]byte(tx.TxHash())
			commit := &ChannelCommitment{
				CommitHeight:  heights[i],
				LocalBalance:  lnwire.MilliSatoshi(e.local),
				RemoteBalance: lnwire.MilliSatoshi(e.remote),
				CommitTx:      tx,
			}
			err := putRevocationLog(newB, commit, e.ourIdx, e.theirIdx, false)
			vAssert(err == nil, "setup: the new-format entry is written")
		}
		if inOld[i] {
			e := &oldEnt[i]
			e.local, e.remote = vU64("oldLocalMsat"+sfx), vU64("oldRemoteMsat"+sfx)
			e.feePerKw = int64(vU32("oldFeePerKw" + sfx))
			e.logIdx = vU64("oldLocalLogIndex" + sfx)
			tx := c04CompatTx("Old" + sfx)
			e.txid = [32]byte(tx.TxHash())
			commit := &ChannelCommitment{
				CommitHeight:  heights[i],
				LocalLogIndex: e.logIdx,
				LocalBalance:  lnwire.MilliSatoshi(e.local),
				RemoteBalance: lnwire.MilliSatoshi(e.remote),
				FeePerKw:      btcutil.Amount(e.feePerKw),
				CommitTx:      tx,
				CommitSig:     []byte{0x30, 0x06, 0x02, 0x01, 0x01, 0x02, 0x01, 0x01},
			}
			e.nHtlcs = legacyHtlcs
			for j := 0; j < legacyHtlcs; j++ {
				e.htlcAmt = vU64("oldHtlcMsat" + sfx)
				e.htlcOut = vI32("oldHtlcOutputIndex" + sfx)
				h := HTLC{
					Amt:           lnwire.MilliSatoshi(e.htlcAmt),
					RefundTimeout: vU32("oldHtlcExpiry" + sfx),
					OutputIndex:   e.htlcOut,
					Incoming:      vBool("oldHtlcIncoming" + sfx),
					Signature:     []byte{0x30, 0x06, 0x02, 0x01, 0x01, 0x02, 0x01, 0x01},
				}
				commit.Htlcs = append(commit.Htlcs, h)
			}
			// what the pre-upgrade appendChannelLogEntry did: the legacy
			// commitment encoding under the big-endian height
			var b bytes.Buffer
			err := serializeChanCommit(&b, commit)
			vAssert(err == nil, "setup: the legacy entry is serialised")
			key := makeLogKey(heights[i])
			_ = oldB.Put(key[:], b.Bytes())
		}
	}

	chanBucket := &c04Node{}
	if newExists {
		chanBucket.add(c04NewLogName, newB)
	}
	if oldExists {
		chanBucket.add(c04LegacyLogName, oldB)
	}

	// ---- the lookup ----
	q := vU64("queryHeight")
	var (
		rl  *RevocationLog
		old *ChannelCommitment
		err error
	)
	if !viaDB {
		rl, old, err = fetchRevocationLogCompatible(chanBucket, q)
	} else {
		// open-chan-bucket / node key / chain hash / channel point
		var gx, gy btcec.FieldVal
		gx.SetByteSlice([]byte{
			0x79, 0xBE, 0x66, 0x7E, 0xF9, 0xDC, 0xBB, 0xAC, 0x55, 0xA0, 0x62, 0x95, 0xCE, 0x87, 0x0B, 0x07,
			0x02, 0x9B, 0xFC, 0xDB, 0x2D, 0xCE, 0x28, 0xD9, 0x59, 0xF2, 0x81, 0x5B, 0x16, 0xF8, 0x17, 0x98})
		gy.SetByteSlice([]byte{
			0x48, 0x3A, 0xDA, 0x77, 0x26, 0xA3, 0xC4, 0x65, 0x5D, 0xA4, 0xFB, 0xFC, 0x0E, 0x11, 0x08, 0xA8,
			0xFD, 0x17, 0xB4, 0x48, 0xA6, 0x85, 0x54, 0x19, 0x9C, 0x47, 0xD0, 0x8F, 0xFB, 0x10, 0xD4, 0xB8})
		ch := &OpenChannel{IdentityPub: btcec.NewPublicKey(&gx, &gy)}
		ch.FundingOutpoint.Index = uint32(vU16("fundingIndex"))
		copy(ch.FundingOutpoint.Hash[:], vBytes("fundingTxid", 32))
		copy(ch.ChainHash[:], vBytes("chainHash", 32))

		var chanKey bytes.Buffer
		chanKey.Write(ch.FundingOutpoint.Hash[:])
		idx := ch.FundingOutpoint.Index
		chanKey.Write([]byte{byte(idx >> 24), byte(idx >> 16), byte(idx >> 8), byte(idx)})
		nodeKey := append([]byte{0x02}, gx.Bytes()[:]...)

		chainB, nodeB, openB, top := &c04Node{}, &c04Node{}, &c04Node{}, &c04Node{}
		chainB.add(chanKey.Bytes(), chanBucket)
		nodeB.add(ch.ChainHash[:], chainB)
		openB.add(nodeKey, nodeB)
		top.add(openChannelBucket, openB)
		db := &ChannelStateDB{backend: &c04Backend{tx: &c04Tx{top: top}}}
		rl, old, err = db.FindPreviousState(ch, q)
	}

	// ---- independent expectation ----
	wantNew, wantOld := -1, -1
	for i := 0; i < n; i++ {
		if heights[i] == q && inNew[i] {
			wantNew = i
		}
		if heights[i] == q && inOld[i] {
			wantOld = i
		}
	}

	switch {
	case wantNew >= 0:
		vAssert(err == nil, "a height stored in the new bucket is found")
		vAssert(rl != nil && old == nil, "new-format entry is returned (preferred), no legacy commitment")
		if err != nil || rl == nil {
			return
		}
		e := newEnt[wantNew]
		vAssert(uint32(rl.OurOutputIndex.Val) == e.ourIdx && uint32(rl.TheirOutputIndex.Val) == e.theirIdx &&
			rl.CommitTxHash.Val == e.txid,
			"the new-format entry returned is the one written at that height")
		vAssert(uint64(rl.OurBalance.ValOpt().UnwrapOr(BigSizeMilliSatoshi{}).Int()) == e.local &&
			uint64(rl.TheirBalance.ValOpt().UnwrapOr(BigSizeMilliSatoshi{}).Int()) == e.remote,
			"the new-format entry carries the balances written at that height")
		if wantOld >= 0 {
			vReach("both-new-preferred")
		} else {
			vReach("new-only")
		}

	case wantOld >= 0:
		vAssert(err == nil, "a height stored only in the legacy bucket is found (also when the new bucket exists)")
		vAssert(rl == nil && old != nil, "legacy commitment is returned, no new-format entry")
		if err != nil || old == nil {
			return
		}
		e := oldEnt[wantOld]
		vAssert(old.CommitHeight == q && uint64(old.LocalBalance) == e.local && uint64(old.RemoteBalance) == e.remote &&
			int64(old.FeePerKw) == e.feePerKw && old.LocalLogIndex == e.logIdx &&
			old.CommitTx != nil && [32]byte(old.CommitTx.TxHash()) == e.txid,
			"the legacy commitment returned is the one written at that height")
		vAssert(len(old.Htlcs) == e.nHtlcs, "the legacy commitment carries its HTLCs")
		if len(old.Htlcs) == 1 && e.nHtlcs == 1 {
			vAssert(uint64(old.Htlcs[0].Amt) == e.htlcAmt && old.Htlcs[0].OutputIndex == e.htlcOut,
				"legacy HTLC amount / output index as written")
		}
		if newExists {
			vReach("legacy-behind-new-bucket")
		} else {
			vReach("legacy-only")
		}

	default:
		vAssert(err != nil, "a height stored in neither bucket is not found")
		vAssert(rl == nil && old == nil, "nothing is returned for an unknown height")
		if !newExists && !oldExists {
			vAssert(err == ErrNoPastDeltas, "no revocation-log bucket at all: ErrNoPastDeltas")
			vReach("no-buckets")
		} else {
			vAssert(err == ErrLogEntryNotFound, "unknown height: ErrLogEntryNotFound")
			vReach("not-found")
		}
	}
	if err == ErrLogEntryNotFound {
		vAssert(wantNew < 0 && wantOld < 0, "ErrLogEntryNotFound only when neither bucket has the height")
	}
}

// VerifC04Compat1 / 2: fetchRevocationLogCompatible with 1 / 2 revoked heights.
func VerifC04Compat1() { c04Compat(1, false, 0, false) }
func VerifC04Compat2() { c04Compat(2, false, 0, true) }

// VerifC04CompatHtlc: legacy commitments carrying one HTLC, balances of every
// BigSize class (thorough).
func VerifC04CompatHtlc() { c04Compat(2, false, 1, false) }

// VerifC04FindPrev: the same obligation through ChannelStateDB.FindPreviousState.
func VerifC04FindPrev() { c04Compat(2, true, 0, true) }
