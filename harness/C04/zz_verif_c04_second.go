package contractcourt

// Harness for C04-K4: the breach arbitrator's reaction when the cheater takes a
// revoked HTLC output to the second level before the justice tx confirms.
//
// Unit executed symbolically (real lnd code): contractcourt.newRetributionInfo,
// makeBreachedOutput, updateBreachInfo, convertToSecondLevelRevoke,
// (*breachedOutput).CraftInputScript, input.IsHtlcSpendRevoke,
// input.StripTaprootAnnex, txscript.IsPayToTaproot,
// (input.StandardWitnessType).WitnessGenerator, input.HtlcSpendRevoke /
// TaprootHtlcSpendRevoke, wire.MsgTx.TxHash (double SHA-256 uninterpreted).
// Fakes: input.Signer (SignOutputRaw records what it is asked to sign).
// Model: the revocation key of the HTLC sign descriptor (EC derivation) is an
// ideal function of (revocation base point identity, commitment secret); its
// x coordinate is that identity (the real SerializeCompressed runs). Natively the real
// derivation runs on real secp256k1 keys.
//
// Oracle (property C04: "... a justice transaction whose witnesses are valid
// ... (and for the second-level output if the cheater first advances an
// HTLC). The output indexes and amounts recorded ... match the actual ...
// transaction"; BIP-143/341: the signature commits to the amount and script
// of the output being spent):
// the cheater's second-level transaction has 1..3 inputs and 1..3 outputs
// (HTLC-success/timeout transactions of anchor and taproot channels are signed
// SIGHASH_SINGLE|ANYONECANPAY: the cheater may aggregate several of them or
// add fee inputs/change outputs; input i is then bound to output i). If it
// spends the revoked HTLC output at input index i with a non-revocation
// witness, then afterwards that breached output
//   - is still in the set to be swept, nothing is counted as swept,
//   - points at outpoint (txid of the spending tx, i),
//   - has amount and pkScript (breachedOutput.amt, signDesc.Output) equal to
//     TxOut[i] of the spending tx - the output at the SAME index,
//   - has the second-level revoke witness type (taproot variant iff the HTLC
//     output was P2TR), witness script = the recorded second-level script,
//     tap tweak = the recorded second-level tap tweak, key material untouched,
//   - and the signer is then asked to sign exactly that (output, script).
// If it was spent with the revocation path (our own justice tx), the output
// is removed and its amount counted (as revoked funds for offered HTLCs).
// Other breached outputs are untouched.

import (
	"bytes"
	"crypto/sha256"

	"github.com/btcsuite/btcd/btcec/v2"
	"github.com/btcsuite/btcd/btcutil/v2"
	"github.com/btcsuite/btcd/txscript/v2"
	"github.com/btcsuite/btcd/wire/v2"
	"github.com/lightningnetwork/lnd/chainntnfs"
	"github.com/lightningnetwork/lnd/input"
	"github.com/lightningnetwork/lnd/keychain"
	"github.com/lightningnetwork/lnd/lnwallet"
)

// ---- key model ----

type c04bKeyEnt struct {
	k  *btcec.PublicKey
	id []byte
}

var (
	c04bKeyTab  []c04bKeyEnt
	c04bPrivTab []struct {
		k  *btcec.PrivateKey
		id []byte
	}
)

func c04bNewKey(id []byte) *btcec.PublicKey {
	k := new(btcec.PublicKey)
	c04bKeyTab = append(c04bKeyTab, c04bKeyEnt{k: k, id: id})
	return k
}

func c04bKey(name string) *btcec.PublicKey {
	id := vBytes(name, 32)
	if vNative() {
		h := sha256.Sum256(id)
		_, pub := btcec.PrivKeyFromBytes(h[:])
		return pub
	}
	return c04bNewKey(id)
}

func c04bPriv(name string) *btcec.PrivateKey {
	id := vBytes(name, 32)
	if vNative() {
		h := sha256.Sum256(id)
		priv, _ := btcec.PrivKeyFromBytes(h[:])
		return priv
	}
	k := new(btcec.PrivateKey)
	c04bPrivTab = append(c04bPrivTab, struct {
		k  *btcec.PrivateKey
		id []byte
	}{k, id})
	return k
}

func c04bKeyID(k *btcec.PublicKey) []byte {
	for _, e := range c04bKeyTab {
		if e.k == k {
			return e.id
		}
	}
	panic("verif model: key that the harness did not create")
}

func c04bPrivID(k *btcec.PrivateKey) []byte {
	for _, e := range c04bPrivTab {
		if e.k == k {
			return e.id
		}
	}
	panic("verif model: private key that the harness did not create")
}

// c04bRevokeID: the ideal revocation key identity for a sign descriptor.
func c04bRevokeID(signDesc *input.SignDescriptor) []byte {
	return vHash("revocationpubkey", 32,
		c04bKeyID(signDesc.KeyDesc.PubKey), c04bPrivID(signDesc.DoubleTweak))
}

// c04bDeriveRevokePubKey replaces input.deriveRevokePubKey symbolically: a
// key whose x coordinate is the ideal identity (y = 0, even), so that the real
// SerializeCompressed yields 0x02 || identity.
func c04bDeriveRevokePubKey(signDesc *input.SignDescriptor) (*btcec.PublicKey, error) {
	var x, y btcec.FieldVal
	x.SetByteSlice(c04bRevokeID(signDesc))
	return btcec.NewPublicKey(&x, &y), nil
}

// c04bRevokeKeyBytes: the serialised revocation key a revocation spend of the
// HTLC output carries as witness element 1.
func c04bRevokeKeyBytes(sd *input.SignDescriptor) []byte {
	if vNative() {
		return input.DeriveRevocationPubkey(sd.KeyDesc.PubKey, sd.DoubleTweak.PubKey()).SerializeCompressed()
	}
	return append([]byte{0x02}, c04bRevokeID(sd)...)
}

// ---- fake signer ----

type c04bSig struct{ b []byte }

func (s *c04bSig) Serialize() []byte                    { return s.b }
func (s *c04bSig) Verify([]byte, *btcec.PublicKey) bool { return false }

type c04bSigner struct {
	input.Signer
	n    int
	tx   *wire.MsgTx
	desc input.SignDescriptor
}

var c04bOurSig = []byte{0x30, 0x06, 0x02, 0x01, 0x07, 0x02, 0x01, 0x09}

func (s *c04bSigner) SignOutputRaw(tx *wire.MsgTx, d *input.SignDescriptor) (input.Signature, error) {
	s.n++
	s.tx, s.desc = tx, *d
	return &c04bSig{b: c04bOurSig}, nil
}

func c04bPkScript(name string, taproot bool) []byte {
	ver := byte(txscript.OP_0)
	if taproot {
		ver = txscript.OP_1
	}
	return append([]byte{ver, txscript.OP_DATA_32}, vBytes(name, 32)...)
}

func c04bSameOut(a, b *wire.TxOut) bool {
	return a != nil && b != nil && a.Value == b.Value && bytes.Equal(a.PkScript, b.PkScript)
}

// c04bSecond: nHtlc revoked HTLC outputs; the spending transaction has nIn
// inputs / nOut outputs.
func c04bSecond(nHtlc int) {
	c04bKeyTab, c04bPrivTab = nil, nil
	vReplace("github.com/lightningnetwork/lnd/input.deriveRevokePubKey",
		"github.com/lightningnetwork/lnd/contractcourt.c04bDeriveRevokePubKey")
	vAssumption("revocation key model: input.deriveRevokePubKey is an ideal function of (revocation base point identity, commitment secret), its compressed serialisation is 0x02||identity (native replay: real secp256k1 derivation)")

	taproot := vChoice("taproot", 2) == 1
	nIn := vChoice("nIn", 3) + 1
	nOut := vChoice("nOut", 3) + 1
	// kind of spend of HTLC 0: 0 = second-level (cheater), 1 = revocation (our justice tx)
	revokeSpend := vChoice("revokeSpend", 2) == 1
	annex := vBool("annex")

	// ---- the retribution as the wallet hands it over ----
	ret := &lnwallet.BreachRetribution{BreachHeight: vU32("breachHeight")}
	copy(ret.BreachTxHash[:], vBytes("breachTxid", 32))
	ret.RemoteOutpoint = wire.OutPoint{Hash: ret.BreachTxHash, Index: uint32(vU16("toLocalIndex"))}
	ret.RemoteOutputSignDesc = &input.SignDescriptor{
		KeyDesc:     keychain.KeyDescriptor{PubKey: c04bKey("revocationBase")},
		DoubleTweak: c04bPriv("commitSecret"),
		Output:      &wire.TxOut{Value: int64(vU32("toLocalValue")), PkScript: c04bPkScript("toLocalScript", taproot)},
		HashType:    txscript.SigHashAll,
	}
	type htlcIn struct {
		op      wire.OutPoint
		out     wire.TxOut
		second  []byte
		tweak   [32]byte
		inc     bool
		base    *btcec.PublicKey
		secret  *btcec.PrivateKey
		wscript []byte
	}
	hs := make([]htlcIn, nHtlc)
	for k := range hs {
		sfx := string(rune('0' + k))
		h := &hs[k]
		h.op = wire.OutPoint{Hash: ret.BreachTxHash, Index: uint32(vU16("htlcIndex" + sfx))}
		h.out = wire.TxOut{Value: int64(vU32("htlcValue" + sfx)), PkScript: c04bPkScript("htlcScript"+sfx, taproot)}
		h.second = vBytes("secondLevelScript"+sfx, 40)
		copy(h.tweak[:], vBytes("secondLevelTapTweak"+sfx, 32))
		h.inc = vBool("htlcIncoming" + sfx)
		h.base, h.secret = ret.RemoteOutputSignDesc.KeyDesc.PubKey, ret.RemoteOutputSignDesc.DoubleTweak
		h.wscript = vBytes("htlcWitnessScript"+sfx, 40)
		ret.HtlcRetributions = append(ret.HtlcRetributions, lnwallet.HtlcRetribution{
			SignDesc: input.SignDescriptor{
				KeyDesc:       keychain.KeyDescriptor{PubKey: h.base},
				DoubleTweak:   h.secret,
				WitnessScript: h.wscript,
				Output:        &wire.TxOut{Value: h.out.Value, PkScript: h.out.PkScript},
				HashType:      txscript.SigHashAll,
			},
			OutPoint:                 h.op,
			SecondLevelWitnessScript: h.second,
			SecondLevelTapTweak:      h.tweak,
			IsIncoming:               h.inc,
		})
	}
	if nHtlc == 2 {
		vAssume(hs[0].op.Index != hs[1].op.Index) // two different outputs of the revoked tx
	}
	vAssume(ret.RemoteOutpoint.Index != hs[0].op.Index)
	if nHtlc == 2 {
		vAssume(ret.RemoteOutpoint.Index != hs[1].op.Index)
	}
	var chanPoint wire.OutPoint
	copy(chanPoint.Hash[:], vBytes("fundingTxid", 32))

	info := newRetributionInfo(&chanPoint, ret)
	vAssert(len(info.breachedOutputs) == 1+nHtlc, "setup: to_local + every HTLC is a breached output")
	if len(info.breachedOutputs) != 1+nHtlc {
		return
	}

	// ---- the transaction that spends the HTLC output(s) ----
	// HTLC k is spent by input pos[k]; SIGHASH_SINGLE binds it to output pos[k]
	// (BOLT-3: with SIGHASH_ALL, i.e. without anchors, the tx is the plain
	// 1-in-1-out second-level tx, which is nIn = nOut = 1 here), so a valid
	// transaction has an output at that index.
	var pos [2]uint32
	pos[0] = vU32("spendInputIndex0")
	vAssume(pos[0] < uint32(nIn) && pos[0] < uint32(nOut))
	if nHtlc == 2 {
		pos[1] = vU32("spendInputIndex1")
		vAssume(pos[1] < uint32(nIn) && pos[1] < uint32(nOut) && pos[1] != pos[0])
	}
	spendTx := wire.NewMsgTx(2)
	spendTx.LockTime = vU32("spendLockTime")
	secondWitness := func(sfx string) wire.TxWitness {
		if taproot {
			// script path: <sigs...> <script> <control block> [annex]
			w := wire.TxWitness{vBytes("w0"+sfx, 64), vBytes("w1"+sfx, 64), vBytes("w2"+sfx, 40), vBytes("w3"+sfx, 65)}
			if annex {
				w = append(w, []byte{txscript.TaprootAnnexTag, 0x00})
			}
			return w
		}
		// <> <sig> <sig> <preimage or empty> <script>
		return wire.TxWitness{nil, vBytes("w1"+sfx, 72), vBytes("w2"+sfx, 72), vBytes("w3"+sfx, 32), vBytes("w4"+sfx, 40)}
	}
	revokeWitness := func(k int) wire.TxWitness {
		if taproot {
			w := wire.TxWitness{vBytes("rsig", 64)}
			if annex {
				w = append(w, []byte{txscript.TaprootAnnexTag, 0x00})
			}
			return w
		}
		sd := &info.breachedOutputs[1+k].signDesc
		return wire.TxWitness{vBytes("rsig", 72), c04bRevokeKeyBytes(sd), hs[k].wscript}
	}
	for j := 0; j < nIn; j++ {
		sfx := string(rune('0' + j))
		in := &wire.TxIn{Sequence: vU32("spendSequence" + sfx)}
		copy(in.PreviousOutPoint.Hash[:], vBytes("otherPrevTxid"+sfx, 32))
		in.PreviousOutPoint.Index = vU32("otherPrevIndex" + sfx)
		spendTx.AddTxIn(in)
	}
	for k := 0; k < nHtlc; k++ {
		in := spendTx.TxIn[pos[k]]
		in.PreviousOutPoint = hs[k].op
		if k == 0 && revokeSpend {
			in.Witness = revokeWitness(k)
		} else {
			in.Witness = secondWitness(string(rune('0' + k)))
		}
	}
	for j := 0; j < nOut; j++ {
		sfx := string(rune('0' + j))
		spendTx.AddTxOut(&wire.TxOut{
			Value:    int64(vU32("spendOutValue" + sfx)),
			PkScript: c04bPkScript("spendOutScript"+sfx, taproot),
		})
	}
	spendTxid := spendTx.TxHash()

	var spends []spend
	for k := 0; k < nHtlc; k++ {
		op := hs[k].op
		spends = append(spends, spend{index: 1 + k, detail: &chainntnfs.SpendDetail{
			SpentOutPoint: &op, SpenderTxHash: &spendTxid, SpendingTx: spendTx,
			SpenderInputIndex: pos[k], SpendingHeight: int32(vU32("spendHeight") >> 1),
		}})
	}

	toLocalBefore := info.breachedOutputs[0]
	total, revoked := updateBreachInfo(info, spends)

	// ---- oracle ----
	wantLen := 1 + nHtlc
	wantTotal, wantRevoked := btcutil.Amount(0), btcutil.Amount(0)
	if revokeSpend {
		wantLen--
		wantTotal = btcutil.Amount(hs[0].out.Value)
		if !hs[0].inc {
			wantRevoked = wantTotal
		}
	}
	vAssert(len(info.breachedOutputs) == wantLen, "outputs taken to the second level stay in the set; only outputs we swept are removed")
	vAssert(total == wantTotal && revoked == wantRevoked, "only funds swept by the revocation path are counted")
	if len(info.breachedOutputs) != wantLen {
		return
	}
	tl := &info.breachedOutputs[0]
	vAssert(tl.outpoint == toLocalBefore.outpoint && tl.amt == toLocalBefore.amt && tl.witnessType == toLocalBefore.witnessType &&
		c04bSameOut(tl.signDesc.Output, ret.RemoteOutputSignDesc.Output), "the unspent to_local breached output is untouched")

	wantWT := input.HtlcSecondLevelRevoke
	if taproot {
		wantWT = input.TaprootHtlcSecondLevelRevoke
	}
	next := 1
	for k := 0; k < nHtlc; k++ {
		if k == 0 && revokeSpend {
			vReach("revocation-spend-removed")
			continue
		}
		bo := &info.breachedOutputs[next]
		next++
		i := pos[k]
		out := spendTx.TxOut[i]
		vAssert(bo.outpoint.Hash == spendTxid && bo.outpoint.Index == i,
			"second level: breached output points at (spending txid, index of the spending input)")
		vAssert(int64(bo.amt) == out.Value && bo.signDesc.Output != nil && bo.signDesc.Output.Value == out.Value,
			"second level: amount = value of TxOut at the index of the spending input")
		vAssert(bo.signDesc.Output != nil && bytes.Equal(bo.signDesc.Output.PkScript, out.PkScript),
			"second level: pkScript = script of TxOut at the index of the spending input")
		vAssert(bo.witnessType == wantWT, "second level: witness type is the second-level revoke (taproot variant iff the HTLC output was P2TR)")
		vAssert(bytes.Equal(bo.signDesc.WitnessScript, hs[k].second), "second level: witness script = recorded second-level script")
		vAssert(bytes.Equal(bo.signDesc.TapTweak, hs[k].tweak[:]), "second level: tap tweak = recorded second-level tap tweak")
		vAssert(bo.signDesc.KeyDesc.PubKey == hs[k].base && bo.signDesc.DoubleTweak == hs[k].secret &&
			bo.signDesc.HashType == txscript.SigHashAll && bo.confHeight == ret.BreachHeight,
			"second level: revocation base point, commitment secret, sighash type and height hint unchanged")

		// what is signed when the justice tx for this output is built
		justice := wire.NewMsgTx(2)
		justice.AddTxIn(&wire.TxIn{PreviousOutPoint: bo.outpoint})
		justice.AddTxOut(&wire.TxOut{Value: out.Value, PkScript: []byte{0x00, 0x14}})
		signer := &c04bSigner{}
		script, err := bo.CraftInputScript(signer, justice, nil, nil, 0)
		vAssert(err == nil && script != nil, "second level: the justice witness is generated")
		if err == nil && script != nil {
			vAssert(signer.n == 1 && signer.tx == justice && c04bSameOut(signer.desc.Output, out),
				"second level: the signer is asked to sign for (amount, script) of TxOut at the index of the spending input")
			if taproot {
				vAssert(signer.desc.SignMethod == input.TaprootKeySpendSignMethod && bytes.Equal(signer.desc.TapTweak, hs[k].tweak[:]) &&
					len(script.Witness) == 1, "second level (taproot): key spend with the second-level tap tweak")
			} else {
				vAssert(len(script.Witness) == 3 && bytes.Equal(script.Witness[2], hs[k].second) &&
					len(script.Witness[1]) == 1 && script.Witness[1][0] == 1 &&
					bytes.Equal(signer.desc.WitnessScript, hs[k].second),
					"second level: witness <sig> <1> <second-level script>")
			}
		}
		if i != 0 {
			vReach("second-level-input-nonzero")
		} else {
			vReach("second-level-input-zero")
		}
		if nHtlc == 2 && !revokeSpend {
			vReach("aggregated")
		}
	}
	if taproot {
		vReach("taproot")
	} else {
		vReach("segwit-v0")
	}
}

// VerifC04SecondLevel1: one revoked HTLC output. VerifC04SecondLevel2: two,
// both spent by the same (aggregated) transaction.
func VerifC04SecondLevel1() { c04bSecond(1) }
func VerifC04SecondLevel2() { c04bSecond(2) }
