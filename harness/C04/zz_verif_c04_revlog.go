package channeldb

// Harness for C04-K2: what is persisted about a revoked remote commitment.
//
// Unit executed symbolically (real lnd code, nothing modelled):
//   channeldb.putRevocationLog, channeldb.fetchRevocationLog, makeLogKey,
//   chanstate.NewHTLCEntryFromHTLC, chanstate.SerializeRevocationLog /
//   DeserializeRevocationLog, SerializeHTLCEntries / DeserializeHTLCEntries,
//   htlcEntryToTlvStream, deserializeHtlcIndexCompatible, WriteTlvStream /
//   ReadTlvStream, the sparse pay-hash codec, and the real tlv stream /
//   record / BigSize / varint code underneath (tlv v1.4.0 as compiled into lnd),
//   wire.MsgTx.TxHash (double SHA-256 as an uninterpreted function).
// Fake (behind the interface lnd already has): kvdb.RwBucket as an in-memory
// key/value list (Put/Get only).
//
// Oracle (property C04: "using only what the node has persisted ... The output
// indexes and amounts recorded for that state match the actual revoked
// transaction"): after AdvanceCommitChainTail's putRevocationLog of the
// revoked remote commitment, fetchRevocationLog at that height returns
//   - our / their output index exactly as passed (no silent narrowing),
//   - the txid of the revoked commitment transaction,
//   - one entry per non-dust HTLC (OutputIndex >= 0), in order, whose payment
//     hash, expiry, output index, direction, HTLC index equal the HTLC's and
//     whose amount is the HTLC's amount in whole satoshi (= the value of its
//     output on the commitment transaction), dust HTLCs (OutputIndex < 0)
//     are the documented exception and are not recorded,
//   - both balances iff amount data is kept (noAmtData == false);
//   a state whose indexes do not fit is refused and nothing is written; on
//   the domain real commitments can reach (index <= 2*483+4) it is accepted;
//   no other height resolves to this entry.

import (
	"bytes"

	"github.com/btcsuite/btcd/btcutil/v2"
	"github.com/btcsuite/btcd/wire/v2"
	"github.com/lightningnetwork/lnd/kvdb"
	"github.com/lightningnetwork/lnd/lnwire"
)

// c04Bucket is an in-memory kvdb.RwBucket: only Put and Get are used by the
// unit; any other method dereferences the nil embedded interface and panics
// (which would be reported).
type c04Bucket struct {
	kvdb.RwBucket
	keys [][]byte
	vals [][]byte
}

func (b *c04Bucket) Put(key, value []byte) error {
	k := append([]byte(nil), key...)
	v := append([]byte(nil), value...)
	for i := range b.keys {
		if bytes.Equal(b.keys[i], k) {
			b.vals[i] = v
			return nil
		}
	}
	b.keys = append(b.keys, k)
	b.vals = append(b.vals, v)
	return nil
}

func (b *c04Bucket) Get(key []byte) []byte {
	for i := range b.keys {
		if bytes.Equal(b.keys[i], key) {
			return b.vals[i]
		}
	}
	return nil
}

// 21e6 BTC in millisatoshi.
const c04MaxMsat = uint64(2_100_000_000_000_000_000)

// Largest output index a commitment transaction can have: 483 HTLCs in each
// direction (BOLT-2 max_accepted_htlcs cap), to_local, to_remote, two anchors.
const c04MaxRealIndex = 2*483 + 4

// c04Class restricts a value to one BigSize length class when cls >= 0
// (0: 1 byte, 1: 3 bytes, 2: 5 bytes, 3: 9 bytes); cls < 0 leaves it free.
func c04Class(v uint64, cls int) {
	switch cls {
	case 0:
		vAssume(v < 0xfd)
	case 1:
		vAssume(v >= 0xfd && v <= 0xffff)
	case 2:
		vAssume(v > 0xffff && v <= 0xffffffff)
	case 3:
		vAssume(v > 0xffffffff)
	}
}

func c04HTLC(i int, amtCls, idxCls int) HTLC {
	sfx := string(rune('0' + i))
	var h HTLC
	copy(h.RHash[:], vBytes("rHash"+sfx, 32))
	amt := vU64("amtMsat" + sfx)
	vAssume(amt <= c04MaxMsat) // amount_msat never exceeds the money supply
	c04Class(amt/1000, amtCls)
	h.Amt = lnwire.MilliSatoshi(amt)
	h.RefundTimeout = vU32("refundTimeout" + sfx)
	h.OutputIndex = vI32("outputIndex" + sfx)
	h.Incoming = vBool("incoming" + sfx)
	h.HtlcIndex = vU64("htlcIndex" + sfx)
	c04Class(h.HtlcIndex, idxCls)
	h.LogIndex = vU64("logIndex" + sfx)
	return h
}

// c04RevLog: n HTLCs; cls pins BigSize length classes (sharding) or is -1.
func c04RevLog(n int, cls [6]int) {
	height := vU64("commitHeight")
	ourIdx, theirIdx := vU32("ourOutputIndex"), vU32("theirOutputIndex")
	noAmt := vBool("noAmtData")
	local, remote := vU64("localBalanceMsat"), vU64("remoteBalanceMsat")
	vAssume(local <= c04MaxMsat && remote <= c04MaxMsat)
	c04Class(local, cls[4])
	c04Class(remote, cls[5])

	// the revoked commitment transaction: its txid is what is recorded; a
	// symbolic lock-time / sequence (the state hint) makes the txid symbolic.
	tx := wire.NewMsgTx(2)
	tx.LockTime = vU32("commitLockTime")
	tx.AddTxIn(&wire.TxIn{Sequence: vU32("commitSequence")})
	tx.AddTxOut(&wire.TxOut{Value: int64(vU32("commitOut0Value")), PkScript: []byte{0x00, 0x14}})

	commit := &ChannelCommitment{
		CommitHeight:  height,
		LocalBalance:  lnwire.MilliSatoshi(local),
		RemoteBalance: lnwire.MilliSatoshi(remote),
		CommitTx:      tx,
	}
	for i := 0; i < n; i++ {
		commit.Htlcs = append(commit.Htlcs, c04HTLC(i, cls[2*i], cls[2*i+1]))
	}

	// independent expectation
	tooBig := ourIdx > 0xffff || theirIdx > 0xffff
	realistic := ourIdx <= 0xffff && theirIdx <= 0xffff // OutputIndexEmpty = 65535 is a legal "absent"
	var want []HTLC
	for i := range commit.Htlcs {
		h := commit.Htlcs[i]
		if h.OutputIndex > 0xffff {
			tooBig = true
		}
		if h.OutputIndex < -1 || h.OutputIndex > c04MaxRealIndex {
			realistic = false
		}
		if h.OutputIndex >= 0 {
			want = append(want, h)
		}
	}

	b := &c04Bucket{}
	err := putRevocationLog(b, commit, ourIdx, theirIdx, noAmt)

	if realistic {
		vAssert(err == nil, "a state whose output indexes are within what a commitment can have is recorded")
	}
	if err != nil {
		vAssert(tooBig, "a state is refused only when an output index does not fit")
		vAssert(len(b.keys) == 0, "a refused state writes nothing")
		vReach("refused")
		return
	}
	vAssert(len(b.keys) == 1, "exactly one log entry is written")

	rl, err := fetchRevocationLog(b, height)
	vAssert(err == nil, "the entry written at a height is found and decodes")
	if err != nil {
		return
	}
	vAssert(uint32(rl.OurOutputIndex.Val) == ourIdx, "recorded our output index = the index passed (no narrowing loss)")
	vAssert(uint32(rl.TheirOutputIndex.Val) == theirIdx, "recorded their output index = the index passed (no narrowing loss)")
	vAssert(rl.CommitTxHash.Val == [32]byte(tx.TxHash()), "recorded commit tx hash = txid of the revoked commitment")

	ourBal, theirBal := rl.OurBalance.ValOpt(), rl.TheirBalance.ValOpt()
	vAssert(ourBal.IsSome() == !noAmt && theirBal.IsSome() == !noAmt, "balances are present iff amount data is kept")
	if !noAmt {
		vAssert(uint64(ourBal.UnwrapOr(BigSizeMilliSatoshi{}).Int()) == local, "recorded our balance = local balance of the revoked remote commitment")
		vAssert(uint64(theirBal.UnwrapOr(BigSizeMilliSatoshi{}).Int()) == remote, "recorded their balance = remote balance of the revoked remote commitment")
		vReach("with-balances")
	} else {
		vReach("without-balances")
	}
	vAssert(rl.CustomBlob.ValOpt().IsNone(), "no custom blob appears from nowhere")

	vAssert(len(rl.HTLCEntries) == len(want), "one entry per non-dust HTLC")
	if len(rl.HTLCEntries) != len(want) {
		return
	}
	for i, e := range rl.HTLCEntries {
		h := want[i]
		vAssert(e.RHash.Val == SparsePayHash(h.RHash), "entry payment hash = the HTLC's")
		vAssert(e.RefundTimeout.Val == h.RefundTimeout, "entry expiry = the HTLC's")
		vAssert(int32(e.OutputIndex.Val) == h.OutputIndex, "entry output index = the HTLC's (no narrowing loss)")
		vAssert(e.Incoming.Val == h.Incoming, "entry direction = the HTLC's")
		vAssert(e.Amt.Val.Int() == btcutil.Amount(uint64(h.Amt)/1000), "entry amount = the HTLC's amount in whole satoshi")
		idx := e.HtlcIndex.ValOpt()
		vAssert(idx.IsSome(), "entry carries the HTLC index")
		if idx.IsSome() {
			var z HTLCEntry
			zi := z.HtlcIndex.Zero()
			vAssert(idx.UnwrapOr(zi.Val).Int() == h.HtlcIndex, "entry HTLC index = the HTLC's")
		}
		vAssert(e.CustomBlob.ValOpt().IsNone(), "no custom blob for an HTLC without custom records")
	}
	switch len(want) {
	case 0:
		vReach("no-entries")
	case 1:
		vReach("one-entry")
	default:
		vReach("two-entries")
	}
	if len(want) < n {
		vReach("dust-skipped")
	}
	for _, h := range want {
		if h.RHash == [32]byte{} {
			vReach("zero-hash")
		}
	}

	// no other height resolves to this entry
	other := vU64("otherHeight")
	if other != height {
		_, err := fetchRevocationLog(b, other)
		vAssert(err == ErrLogEntryNotFound, "a different height does not resolve to this entry")
		vReach("other-height")
	}
}

func c04Classes(n int) [6]int {
	cls := [6]int{-1, -1, -1, -1, -1, -1}
	if vChoice("pinClasses", 2) == 1 {
		for i := 0; i < 2*n; i++ {
			cls[i] = vChoice("cls"+string(rune('0'+i)), 4)
		}
		cls[4] = vChoice("cls4", 4)
		cls[5] = vChoice("cls5", 4)
	}
	return cls
}

// VerifC04RevLog0 / 1 / 2: a revoked commitment with 0, 1, 2 HTLCs.
func VerifC04RevLog0() { c04RevLog(0, c04Classes(0)) }
func VerifC04RevLog1() { c04RevLog(1, c04Classes(1)) }
func VerifC04RevLog2() { c04RevLog(2, c04Classes(2)) }
