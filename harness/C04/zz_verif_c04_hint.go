package lnwallet

// Harness for C04-K1: the state-number hint of a commitment transaction.
//
// Unit executed symbolically (real lnd code, nothing modelled):
//   lnwallet.SetStateNumHint, lnwallet.GetStateNumHint (+ encoding/binary,
//   wire.NewMsgTx / AddTxIn).
//
// The oracle is BOLT-3 ("Commitment Transaction": locktime = upper 8 bits 0x20,
// lower 24 bits the lower 24 bits of the obscured commitment number; sequence
// = upper 8 bits 0x80, lower 24 bits the upper 24 bits of the obscured
// commitment number) plus the property's "GetStateNumHint(revokedTx) ==
// height": the chain watcher maps a broadcast commitment to its height with
// exactly this function, so the round trip must be the identity for every
// 48-bit state number, every obfuscator and whatever the fields held before.

import (
	"github.com/btcsuite/btcd/wire/v2"
)

const c04MaxHint = uint64(1)<<48 - 1

// c04Obfuscator returns 6 symbolic bytes as the array type of the API plus
// their big-endian 48-bit value computed independently of encoding/binary.
func c04Obfuscator(name string) ([StateHintSize]byte, uint64) {
	b := vBytes(name, StateHintSize)
	var o [StateHintSize]byte
	var x uint64
	for i := 0; i < StateHintSize; i++ {
		o[i] = b[i]
		x = x<<8 | uint64(b[i])
	}
	return o, x
}

// VerifC04StateHint: Set then Get, any state number (also above the maximum),
// any obfuscator, any prior lock-time / sequence, 0, 1 or 2 inputs.
func VerifC04StateHint() {
	stateNum := vU64("stateNum")
	obf, obfInt := c04Obfuscator("obfuscator")
	priorLock, priorSeq, priorSeq2 := vU32("priorLockTime"), vU32("priorSequence"), vU32("priorSequence2")

	nIn := vChoice("numInputs", 3)
	tx := wire.NewMsgTx(2)
	tx.LockTime = priorLock
	if nIn >= 1 {
		tx.AddTxIn(&wire.TxIn{Sequence: priorSeq})
	}
	if nIn >= 2 {
		tx.AddTxIn(&wire.TxIn{Sequence: priorSeq2})
	}

	err := SetStateNumHint(tx, stateNum, obf)

	if stateNum > c04MaxHint || nIn != 1 {
		// Heights that do not fit the 48 bits (and transactions that are
		// not commitment-shaped) are refused and nothing is written.
		vAssert(err != nil, "state number above 2^48-1 (or tx without exactly one input) is refused")
		vAssert(tx.LockTime == priorLock, "refused call leaves the lock-time untouched")
		if nIn >= 1 {
			vAssert(tx.TxIn[0].Sequence == priorSeq, "refused call leaves the sequence untouched")
		}
		if stateNum > c04MaxHint {
			vReach("refused-too-large")
		} else {
			vReach("refused-input-count")
		}
		return
	}
	vAssert(err == nil, "every state number <= 2^48-1 is accepted")

	lock, seq := tx.LockTime, tx.TxIn[0].Sequence
	vObserve("locktime", lock)
	vObserve("sequence", seq)

	// BOLT-3 layout.
	obscured := stateNum ^ obfInt
	vAssert(lock>>24 == 0x20, "lock-time has the 0x20 top byte")
	vAssert(seq>>24 == 0x80, "sequence has the 0x80 top byte")
	vAssert(uint64(lock&0xffffff) == obscured&0xffffff, "lock-time low 24 bits = low 24 bits of the obscured number")
	vAssert(uint64(seq&0xffffff) == obscured>>24, "sequence low 24 bits = high 24 bits of the obscured number")
	// consensus reading of the two fields: the lock-time is a timestamp in the
	// past (>= 500e6, below 2^30), the sequence disables relative lock-time.
	vAssert(lock >= 500000000 && lock < 1<<30, "lock-time is a past timestamp, never a block height")
	vAssert(seq&(1<<31) != 0, "sequence has the relative-lock-time disable bit")

	// Round trip.
	got := GetStateNumHint(tx, obf)
	vObserve("decoded", got)
	vAssert(got == stateNum, "GetStateNumHint(SetStateNumHint(h)) == h")
	vReach("roundtrip")
	if stateNum >= 1<<40 {
		vReach("roundtrip-high")
	}
}

// VerifC04StateHintDecode: what the chain watcher does with a transaction it
// did not build: for ANY lock-time and sequence found on chain the decoded
// number fits 48 bits, depends only on the low 24 bits of each field, and
// re-encoding it reproduces those bits (the hint is a bijection between
// 48-bit numbers and the 2x24 hint bits, so two different heights can never
// look alike under one obfuscator).
func VerifC04StateHintDecode() {
	obf, obfInt := c04Obfuscator("obfuscator")
	lock, seq := vU32("lockTime"), vU32("sequence")
	tx := wire.NewMsgTx(2)
	tx.LockTime = lock
	tx.AddTxIn(&wire.TxIn{Sequence: seq})

	h := GetStateNumHint(tx, obf)
	vObserve("decoded", h)
	vAssert(h <= c04MaxHint, "decoded state number fits 48 bits")
	vAssert(h == (uint64(seq&0xffffff)<<24|uint64(lock&0xffffff))^obfInt, "decoded = (seq24 || lock24) xor obfuscator")

	tx2 := wire.NewMsgTx(2)
	tx2.AddTxIn(&wire.TxIn{})
	err := SetStateNumHint(tx2, h, obf)
	vAssert(err == nil, "a decoded number can be re-encoded")
	vAssert(tx2.LockTime&0xffffff == lock&0xffffff && tx2.TxIn[0].Sequence&0xffffff == seq&0xffffff,
		"re-encoding the decoded number reproduces the hint bits")

	// two transactions with different hint bits decode to different heights
	lockB, seqB := vU32("lockTimeB"), vU32("sequenceB")
	txB := wire.NewMsgTx(2)
	txB.LockTime = lockB
	txB.AddTxIn(&wire.TxIn{Sequence: seqB})
	hB := GetStateNumHint(txB, obf)
	if lockB&0xffffff != lock&0xffffff || seqB&0xffffff != seq&0xffffff {
		vAssert(hB != h, "different hint bits decode to different state numbers")
		vReach("distinct")
	} else {
		vAssert(hB == h, "bits outside the hint do not influence the decoded number")
		vReach("same")
	}
}
