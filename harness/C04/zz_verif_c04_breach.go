package lnwallet

// Harness for C04-K3: the breach retribution is bound to the outputs of the
// revoked commitment transaction.
//
// Pipeline executed symbolically (real lnd code unless listed in
// zz_verif_c04_model.go):
//   builder side ("what the cheater can broadcast")
//     DeriveCommitmentKeys(Remote) -> (*CommitmentBuilder).createUnsignedCommitmentTx
//     (HtlcIsDust, CommitWeight, fee deduction, CreateCommitTx, CommitScriptToSelf /
//     ToRemote / Anchors, addHTLC, genHtlcScript, SetStateNumHint, InPlaceCommitSort,
//     blockchain.CheckTransactionSanity) -> (*commitment).populateHtlcIndexes
//     (locateOutputIndex) -> toDiskCommit(Remote)
//   persistence side
//     findOutputIndexesFromRemote; the log entry is the one C04-K2 proves
//     fetchRevocationLog(putRevocationLog(commit, ours, theirs)) to be
//     (c04SpecRevLog below states exactly K2's post-condition)
//   punisher side
//     NewBreachRetribution (FindPreviousState and RevocationStore.LookUp through
//     fakes of chanstate.Store / shachain.Store), createBreachRetribution,
//     createHtlcRetribution, CommitScriptToRemote / ToSelf, SecondLevelHtlcScript.
//
// Oracle (property C04 + BOLT-3/BOLT-5): from the revealed per-commitment
// secret alone the node recognises the transaction (txid, state hint) and
// holds, for EVERY output of the revoked transaction that is not an anchor,
// exactly one sign descriptor whose outpoint index is that output, whose
// recorded script and amount are that output's script and amount, and whose
// witness script is the BOLT-3 template for that kind of output built from the
// keys BOLT-3 prescribes for the *remote* commitment (their delayed key, our
// payment key, revocation key from OUR revocation base point, their/our HTLC
// keys, to_self_delay / lease expiry of the right party, offered vs received
// HTLC by direction, cltv expiry, payment hash), signed with our revocation
// base point + the revealed secret (to_local, HTLCs) or our payment base point
// (to_remote). With and without the breach transaction supplied, with and
// without stored balances.

import (
	"bytes"
	"errors"

	"github.com/btcsuite/btcd/btcec/v2"
	"github.com/btcsuite/btcd/btcutil/v2"
	"github.com/btcsuite/btcd/chainhash/v2"
	"github.com/btcsuite/btcd/wire/v2"
	"github.com/lightningnetwork/lnd/channeldb"
	"github.com/lightningnetwork/lnd/chanstate"
	"github.com/lightningnetwork/lnd/fn/v2"
	"github.com/lightningnetwork/lnd/input"
	"github.com/lightningnetwork/lnd/keychain"
	"github.com/lightningnetwork/lnd/lntypes"
	"github.com/lightningnetwork/lnd/lnwallet/chainfee"
	"github.com/lightningnetwork/lnd/lnwire"
	"github.com/lightningnetwork/lnd/shachain"
	"github.com/lightningnetwork/lnd/tlv"
)

// ---- fakes behind interfaces lnd already has ----

// c04Store: chanstate.Store holding one revocation-log entry.
type c04Store struct {
	chanstate.Store
	height uint64
	log    *chanstate.RevocationLog
}

func (s *c04Store) FindPreviousState(_ *chanstate.OpenChannel,
	updateNum uint64) (*chanstate.RevocationLog, *chanstate.ChannelCommitment, error) {

	if updateNum != s.height {
		return nil, nil, channeldb.ErrLogEntryNotFound
	}
	return s.log, nil, nil
}

// c04ShaStore: shachain.Store holding one received per-commitment secret.
type c04ShaStore struct {
	shachain.Store
	height uint64
	secret chainhash.Hash
}

func (s *c04ShaStore) LookUp(i uint64) (*chainhash.Hash, error) {
	if i != s.height {
		return nil, errors.New("c04: secret not stored")
	}
	h := s.secret
	return &h, nil
}

// ---- channel types (bits of chanstate/channel_type.go written out) ----

const (
	c04Tweakless = uint64(1) << 1
	c04Anchors   = uint64(1) << 3
	c04ZeroFee   = uint64(1) << 5
	c04Lease     = uint64(1) << 6
)

// fee floor, a usual rate, a fee spike (sat per kilo-weight)
var c04FeeRates = []uint64{253, 2500, 100000}

var c04ChanTypes = []uint64{
	0,                             // legacy
	c04Tweakless,                  // static remote key
	c04Tweakless | c04Anchors,     // anchors with second-level fees
	c04Tweakless | c04Anchors | c04ZeroFee,            // zero-fee-htlc-tx anchors
	c04Tweakless | c04Anchors | c04ZeroFee | c04Lease, // script-enforced lease
}

// c04SpecRevLog is the post-condition of C04-K2 as a function: the log entry
// fetchRevocationLog returns after putRevocationLog(commit, ours, theirs,
// noAmt). ok=false when the state is refused (an index does not fit).
func c04SpecRevLog(commit *channeldb.ChannelCommitment, ourIdx, theirIdx uint32,
	noAmt bool) (*channeldb.RevocationLog, bool) {

	if ourIdx > 0xffff || theirIdx > 0xffff {
		return nil, false
	}
	rl := &channeldb.RevocationLog{
		OurOutputIndex:   tlv.NewPrimitiveRecord[tlv.TlvType0](uint16(ourIdx)),
		TheirOutputIndex: tlv.NewPrimitiveRecord[tlv.TlvType1](uint16(theirIdx)),
		CommitTxHash:     tlv.NewPrimitiveRecord[tlv.TlvType2, [32]byte](commit.CommitTx.TxHash()),
	}
	if !noAmt {
		rl.OurBalance = tlv.SomeRecordT(tlv.NewRecordT[tlv.TlvType3](tlv.NewBigSizeT(commit.LocalBalance)))
		rl.TheirBalance = tlv.SomeRecordT(tlv.NewRecordT[tlv.TlvType4](tlv.NewBigSizeT(commit.RemoteBalance)))
	}
	for _, h := range commit.Htlcs {
		if h.OutputIndex < 0 {
			continue
		}
		if h.OutputIndex > 0xffff {
			return nil, false
		}
		rl.HTLCEntries = append(rl.HTLCEntries, &channeldb.HTLCEntry{
			RHash:         tlv.NewRecordT[tlv.TlvType0](channeldb.NewSparsePayHash(h.RHash)),
			RefundTimeout: tlv.NewPrimitiveRecord[tlv.TlvType1](h.RefundTimeout),
			OutputIndex:   tlv.NewPrimitiveRecord[tlv.TlvType2](uint16(h.OutputIndex)),
			Incoming:      tlv.NewPrimitiveRecord[tlv.TlvType3](h.Incoming),
			Amt: tlv.NewRecordT[tlv.TlvType4](
				tlv.NewBigSizeT(btcutil.Amount(uint64(h.Amt) / 1000)),
			),
			HtlcIndex: tlv.SomeRecordT(tlv.NewRecordT[tlv.TlvType6](tlv.NewBigSizeT(h.HtlcIndex))),
		})
	}
	return rl, true
}

type c04Htlc struct {
	incoming bool
	amt      lnwire.MilliSatoshi
	timeout  uint32
	rHash    [32]byte
	htlcIdx  uint64
}

// c04RefSecondLevelFee: BOLT-3 fee of the second-level transaction the OWNER
// of the commitment (the remote party) needs for this HTLC: HTLC-timeout for
// HTLCs they offered (incoming to us), HTLC-success for HTLCs they received.
func c04RefSecondLevelFee(ct uint64, feePerKw uint64, theyOffered bool) uint64 {
	if ct&c04ZeroFee != 0 {
		return 0
	}
	var weight uint64
	switch {
	case theyOffered && ct&c04Anchors == 0:
		weight = 663
	case theyOffered:
		weight = 666
	case ct&c04Anchors == 0:
		weight = 703
	default:
		weight = 706
	}
	return feePerKw * weight / 1000
}

func c04P2WSH(ws []byte, err error) []byte {
	if err != nil {
		return nil
	}
	pk, err := input.WitnessScriptHash(ws)
	if err != nil {
		return nil
	}
	return pk
}

func c04SameOut(a *wire.TxOut, b *wire.TxOut) bool {
	return a != nil && b != nil && a.Value == b.Value && bytes.Equal(a.PkScript, b.PkScript)
}

// c04Msat: a millisatoshi amount = 32-bit satoshi part * 1000 + sub-satoshi
// remainder.
func c04Msat(name string) uint64 {
	rem := vU16(name + "SubSat")
	vAssume(rem < 1000)
	return uint64(vU32(name+"Sat"))*1000 + uint64(rem)
}

// c04Breach: nHtlc HTLCs on the revoked remote commitment.
//
// Shape (concrete case splits, pinned per shard in spec.json): channel type,
// who funded the channel, direction of each HTLC, and a value pattern that
// fixes which outputs exist and their BIP-69 order (the order is decided by
// symbolic amounts; leaving it free multiplies the paths by the number of
// permutations). Inside a pattern every amount, fee rate, dust limit, delay,
// expiry, hash, key and height is symbolic.
//
//	pattern 0  all outputs present, to_local > to_remote > htlc0 >= htlc1
//	pattern 1  all outputs present, to_local < to_remote < htlc0 <= htlc1
//	pattern 2  to_local trimmed (their balance below their dust limit)
//	pattern 3  to_remote trimmed (our balance below their dust limit)
//	pattern 4  every HTLC is dust
//	pattern 5  no restriction (any presence, any order)
func c04Breach(nHtlc int) {
	vmConfig()
	vOverflow("github.com/lightningnetwork/lnd/lnwallet.c04RefSecondLevelFee")

	ctRaw := c04ChanTypes[vChoice("chanType", len(c04ChanTypes))]
	ct := channeldb.ChannelType(ctRaw)
	isInit := vChoice("isInitiator", 2) == 1
	pattern := vChoice("pattern", 6)

	key := func(n string) keychain.KeyDescriptor { return keychain.KeyDescriptor{PubKey: vmKey(n)} }
	// Satoshi-valued inputs are 32-bit: 2^32-1 sat = 42.9 BTC, above the
	// largest channel lnd opens (10 BTC, funding.MaxBtcFundingAmountWumbo).
	dustLocal, dustRemote := int64(vU32("localDustLimit")), int64(vU32("remoteDustLimit"))
	// BOLT-2: dust_limit_satoshis >= 354.
	vAssume(dustLocal >= 354 && dustRemote >= 354)
	capacity := int64(vU32("capacity"))
	vAssume(capacity > 0)

	store := &c04Store{}
	sha := &c04ShaStore{}
	cs := &chanstate.OpenChannel{
		ChanType:    ct,
		IsInitiator: isInit,
		Capacity:    btcutil.Amount(capacity),
		ThawHeight:  vU32("thawHeight"),
		LocalChanCfg: channeldb.ChannelConfig{
			CommitmentParams:    chanstate.CommitmentParams{DustLimit: btcutil.Amount(dustLocal), CsvDelay: vU16("localCsvDelay")},
			MultiSigKey:         key("localMultiSig"),
			RevocationBasePoint: key("localRevocationBase"),
			PaymentBasePoint:    key("localPaymentBase"),
			DelayBasePoint:      key("localDelayBase"),
			HtlcBasePoint:       key("localHtlcBase"),
		},
		RemoteChanCfg: channeldb.ChannelConfig{
			CommitmentParams:    chanstate.CommitmentParams{DustLimit: btcutil.Amount(dustRemote), CsvDelay: vU16("remoteCsvDelay")},
			MultiSigKey:         key("remoteMultiSig"),
			RevocationBasePoint: key("remoteRevocationBase"),
			PaymentBasePoint:    key("remotePaymentBase"),
			DelayBasePoint:      key("remoteDelayBase"),
			HtlcBasePoint:       key("remoteHtlcBase"),
		},
		Db:              store,
		RevocationStore: sha,
	}
	copy(cs.FundingOutpoint.Hash[:], vBytes("fundingTxid", 32))
	cs.FundingOutpoint.Index = uint32(vU16("fundingIndex"))

	// the per-commitment secret of the revoked height
	secret := vBytes("revocationSecret", 32)
	nz := false
	for _, b := range secret {
		nz = nz || b != 0
	}
	vAssume(nz) // a secp256k1 secret is a non-zero scalar
	var secretHash chainhash.Hash
	copy(secretHash[:], secret)
	height := vU64("revokedHeight")
	vAssume(height <= 1<<48-1) // C04-K1: heights above are refused by SetStateNumHint

	// The fee rate is a concrete case split: with a symbolic rate the order of
	// the outputs after fee deduction needs 64-bit multiply/divide reasoning in
	// every query (measured: minutes per query). Value-level fee arithmetic
	// with a symbolic rate is C05-K1's / C01's subject.
	feeRaw := c04FeeRates[vChoice("feeRate", len(c04FeeRates))]
	feePerKw := chainfee.SatPerKWeight(feeRaw)
	ourBal, theirBal := c04Msat("ourBalance"), c04Msat("theirBalance")
	total := ourBal + theirBal

	var htlcs []c04Htlc
	view := &HtlcView{FeePerKw: feePerKw}
	for i := 0; i < nHtlc; i++ {
		sfx := string(rune('0' + i))
		h := c04Htlc{
			incoming: vChoice("htlcIncoming"+sfx, 2) == 1,
			amt:      lnwire.MilliSatoshi(c04Msat("htlc" + sfx)),
			timeout:  vU32("htlcExpiry" + sfx),
			htlcIdx:  vU64("htlcIndex" + sfx),
		}
		copy(h.rHash[:], vBytes("htlcHash"+sfx, 32))
		total += uint64(h.amt)
		htlcs = append(htlcs, h)
		pd := &paymentDescriptor{
			RHash:     h.rHash,
			Timeout:   h.timeout,
			Amount:    h.amt,
			HtlcIndex: h.htlcIdx,
			LogIndex:  uint64(i),
			EntryType: Add,
		}
		if h.incoming {
			view.Updates.Remote = append(view.Updates.Remote, pd)
		} else {
			view.Updates.Local = append(view.Updates.Local, pd)
		}
	}
	// channel invariant: balances + HTLCs (+ the two anchors, which the funder
	// pays for out of its balance) never exceed the capacity
	if ctRaw&c04Anchors != 0 {
		total += 2 * 330 * 1000
	}
	vAssume(total <= uint64(capacity)*1000)

	// ---- value pattern (see the function comment) ----
	{
		// upper bounds of the commitment fee (weight <= 1124 + 2*172) and of
		// a second-level fee (weight <= 706)
		slack := feeRaw*3 + 1
		dust := uint64(dustRemote)
		ourSat, theirSat := ourBal/1000, theirBal/1000
		hs := make([]uint64, nHtlc)
		for i := range hs {
			hs[i] = uint64(htlcs[i].amt) / 1000
		}
		desc := func(vals ...uint64) { // vals[0] > vals[1] > ..., last well above dust
			for i := 0; i+1 < len(vals); i++ {
				vAssume(vals[i] >= vals[i+1]+slack)
			}
			vAssume(vals[len(vals)-1] >= dust+slack)
		}
		htlcsDesc := func(floor bool) {
			for i := 0; i+1 < nHtlc; i++ {
				vAssume(hs[i] >= hs[i+1])
			}
			if floor && nHtlc > 0 {
				vAssume(hs[nHtlc-1] >= dust+slack)
			}
		}
		switch pattern {
		case 0:
			if nHtlc > 0 {
				desc(theirSat, ourSat, hs[0])
				htlcsDesc(true)
			} else {
				desc(theirSat, ourSat)
			}
		case 1:
			if nHtlc > 0 {
				desc(hs[0], ourSat, theirSat)
				for i := 0; i+1 < nHtlc; i++ {
					vAssume(hs[i] <= hs[i+1])
				}
			} else {
				desc(ourSat, theirSat)
			}
		case 2:
			vAssume(theirSat < dust)
			if nHtlc > 0 {
				desc(ourSat, hs[0])
				htlcsDesc(true)
			} else {
				desc(ourSat)
			}
		case 3:
			vAssume(ourSat < dust)
			if nHtlc > 0 {
				desc(theirSat, hs[0])
				htlcsDesc(true)
			} else {
				desc(theirSat)
			}
		case 4:
			vAssume(nHtlc > 0)
			desc(theirSat, ourSat)
			for i := range hs {
				vAssume(hs[i] < dust)
			}
		}
	}

	// ---------------- builder side ----------------
	_, commitPoint := btcec.PrivKeyFromBytes(secretHash[:])
	keyRing := DeriveCommitmentKeys(commitPoint, lntypes.Remote, ct, &cs.LocalChanCfg, &cs.RemoteChanCfg)

	cb := &CommitmentBuilder{chanState: cs}
	copy(cb.obfuscator[:], vBytes("obfuscator", StateHintSize))
	utx, err := cb.createUnsignedCommitmentTx(
		lnwire.MilliSatoshi(ourBal), lnwire.MilliSatoshi(theirBal), lntypes.Remote, feePerKw,
		height, view, view, keyRing, &commitment{},
	)
	if err != nil {
		// not a state the channel can be in (e.g. no output at all)
		vAssert(pattern >= 2, "a commitment with both balances and all HTLCs well above dust is built")
		vReach("builder-refused")
		return
	}
	tx := utx.txn
	c := &commitment{
		ourBalance:   utx.ourBalance,
		theirBalance: utx.theirBalance,
		txn:          tx,
		fee:          utx.fee,
		height:       height,
		feePerKw:     feePerKw,
		dustLimit:    cs.RemoteChanCfg.DustLimit,
		whoseCommit:  lntypes.Remote,
	}
	for _, pd := range view.Updates.Local {
		c.outgoingHTLCs = append(c.outgoingHTLCs, *pd)
	}
	for _, pd := range view.Updates.Remote {
		c.incomingHTLCs = append(c.incomingHTLCs, *pd)
	}
	if err := c.populateHtlcIndexes(ct, utx.cltvs); err != nil {
		vAssert(false, "every non-dust HTLC is located on the commitment transaction")
		return
	}
	disk := c.toDiskCommit(lntypes.Remote)
	cs.RemoteCommitment = *disk

	// ---------------- persistence side ----------------
	ourIdx, theirIdx, err := findOutputIndexesFromRemote(&secretHash, cs, fn.None[AuxLeafStore]())
	vAssert(err == nil, "findOutputIndexesFromRemote succeeds")
	if err != nil {
		return
	}
	hasOurs, hasTheirs := ourIdx != channeldb.OutputIndexEmpty, theirIdx != channeldb.OutputIndexEmpty
	sha.height, sha.secret = height, secretHash

	// ---------------- expectations (BOLT-3, remote commitment) ----------------
	txid := tx.TxHash()
	vAssert(GetStateNumHint(tx, cb.obfuscator) == height, "the broadcast transaction's state hint decodes to the revoked height")

	lc, rc := &cs.LocalChanCfg, &cs.RemoteChanCfg
	P := commitPoint
	theirDelayed := input.TweakPubKey(rc.DelayBasePoint.PubKey, P)
	revKey := input.DeriveRevocationPubkey(lc.RevocationBasePoint.PubKey, P)
	ourPay := lc.PaymentBasePoint.PubKey
	if ctRaw&c04Tweakless == 0 {
		ourPay = input.TweakPubKey(lc.PaymentBasePoint.PubKey, P)
	}
	theirHtlc := input.TweakPubKey(rc.HtlcBasePoint.PubKey, P)
	ourHtlc := input.TweakPubKey(lc.HtlcBasePoint.PubKey, P)
	theyInit := !isInit
	theirCsv := uint32(rc.CsvDelay)
	anchors := ctRaw&c04Anchors != 0
	lease := ctRaw&c04Lease != 0

	var wantTheirWS []byte
	if lease && theyInit {
		wantTheirWS, _ = input.LeaseCommitScriptToSelf(theirDelayed, revKey, theirCsv, cs.ThawHeight)
	} else {
		wantTheirWS, _ = input.CommitScriptToSelf(theirCsv, theirDelayed, revKey)
	}
	wantTheirPk := c04P2WSH(wantTheirWS, nil)
	var (
		wantOurWS, wantOurPk []byte
		wantOurDelay         uint32
	)
	switch {
	case lease && !theyInit:
		wantOurWS, _ = input.LeaseCommitScriptToRemoteConfirmed(ourPay, cs.ThawHeight)
		wantOurPk, wantOurDelay = c04P2WSH(wantOurWS, nil), 1
	case anchors:
		wantOurWS, _ = input.CommitScriptToRemoteConfirmed(ourPay)
		wantOurPk, wantOurDelay = c04P2WSH(wantOurWS, nil), 1
	default:
		wantOurPk, _ = input.CommitScriptUnencumbered(ourPay)
		wantOurWS = wantOurPk
	}
	var anchorPks [][]byte
	if anchors {
		anchorPks = append(anchorPks,
			c04P2WSH(input.CommitScriptAnchor(rc.MultiSigKey.PubKey)),
			c04P2WSH(input.CommitScriptAnchor(lc.MultiSigKey.PubKey)))
	}
	var wantSecondWS []byte
	if lease && theyInit {
		wantSecondWS, _ = input.LeaseSecondLevelHtlcScript(revKey, theirDelayed, theirCsv, cs.ThawHeight)
	} else {
		wantSecondWS, _ = input.SecondLevelHtlcScript(revKey, theirDelayed, theirCsv)
	}
	wantTweak := []byte(nil)
	if ctRaw&c04Tweakless == 0 {
		wantTweak = input.SingleTweakBytes(P, lc.PaymentBasePoint.PubKey)
	}

	// HTLCs expected in log order (outgoing first, then incoming), dust
	// trimmed by the BOLT-3 rule. Offered by them = incoming to us.
	var want []c04Htlc
	var wantWS [][]byte
	for pass := 0; pass < 2; pass++ {
		for _, h := range htlcs {
			if h.incoming != (pass == 1) {
				continue
			}
			fee := c04RefSecondLevelFee(ctRaw, feeRaw, h.incoming)
			if uint64(h.amt)/1000 < uint64(dustRemote)+fee {
				continue
			}
			var ws []byte
			if h.incoming {
				ws, _ = input.SenderHTLCScript(theirHtlc, ourHtlc, revKey, h.rHash[:], anchors)
			} else {
				ws, _ = input.ReceiverHTLCScript(h.timeout, ourHtlc, theirHtlc, revKey, h.rHash[:], anchors)
			}
			want = append(want, h)
			wantWS = append(wantWS, ws)
		}
	}

	breachHeight := vU32("breachHeight")

	// ---------------- punisher side: four ways to call it ----------------
	for variant := 0; variant < 4; variant++ {
		withSpendTx, noAmt := variant&1 == 0, variant&2 != 0

		rl, ok := c04SpecRevLog(disk, ourIdx, theirIdx, noAmt)
		vAssert(ok, "the revoked state is recorded (indexes fit)")
		if !ok {
			return
		}
		store.height, store.log = height, rl

		var spendTx *wire.MsgTx
		if withSpendTx {
			spendTx = tx.Copy()
		}
		br, err := NewBreachRetribution(cs, height, breachHeight, spendTx, fn.None[AuxLeafStore](), fn.None[AuxContractResolver]())

		if !withSpendTx && noAmt && (hasOurs || hasTheirs) {
			// documented: without the breach tx and without stored
			// balances the amounts are unknown
			vAssert(errors.Is(err, ErrRevLogDataMissing), "missing amount data is reported as ErrRevLogDataMissing")
			vReach("amount-data-missing")
			continue
		}
		vAssert(err == nil && br != nil, "a breach retribution is built for the revoked state")
		if err != nil || br == nil {
			return
		}

		// Conditions are grouped per descriptor (one solver obligation per
		// group; the violated group names the descriptor).
		vAssert(br.BreachTxHash == txid && br.RevokedStateNum == height && br.BreachHeight == breachHeight &&
			br.ChanType == ct && br.KeyRing != nil,
			"retribution names the txid of the revoked transaction, the state number, breach height, channel type")
		vAssert(br.RemoteDelay == theirCsv && br.LocalDelay == wantOurDelay,
			"RemoteDelay = to_self_delay imposed on the remote party; LocalDelay = 1 for anchor/lease to_remote, 0 otherwise")

		claimed := make([]int, len(tx.TxOut)) // how many descriptors claim each output
		claim := func(op wire.OutPoint) (*wire.TxOut, bool) {
			if op.Hash != txid || int(op.Index) >= len(tx.TxOut) {
				return nil, false
			}
			claimed[op.Index]++
			return tx.TxOut[op.Index], true
		}

		// to_local of the cheater: swept with the revocation key
		if d := br.RemoteOutputSignDesc; d != nil {
			out, ok := claim(br.RemoteOutpoint)
			vAssert(ok && c04SameOut(d.Output, out),
				"to_local: outpoint is an output of the revoked tx and the recorded script and amount are that output's")
			vAssert(d.Output != nil && bytes.Equal(d.Output.PkScript, wantTheirPk) && bytes.Equal(d.WitnessScript, wantTheirWS) &&
				vmKeyEq(d.KeyDesc.PubKey, lc.RevocationBasePoint.PubKey) && d.DoubleTweak != nil && d.SingleTweak == nil,
				"to_local: script = BOLT-3 to_local(their delayed key, revocation key, their to_self_delay[, lease]), signed with our revocation base point + revealed secret")
			vReach("to-local-punished")
		}
		// our own to_remote
		if d := br.LocalOutputSignDesc; d != nil {
			out, ok := claim(br.LocalOutpoint)
			vAssert(ok && c04SameOut(d.Output, out),
				"to_remote: outpoint is an output of the revoked tx and the recorded script and amount are that output's")
			vAssert(d.Output != nil && bytes.Equal(d.Output.PkScript, wantOurPk) && bytes.Equal(d.WitnessScript, wantOurWS) &&
				vmKeyEq(d.KeyDesc.PubKey, lc.PaymentBasePoint.PubKey) && bytes.Equal(d.SingleTweak, wantTweak) &&
				(d.SingleTweak == nil) == (wantTweak == nil) && d.DoubleTweak == nil,
				"to_remote: script = BOLT-3 to_remote(our payment key[, lease]), signed with our payment base point (tweaked unless static_remotekey)")
			vReach("to-remote-swept")
		}

		vAssert(len(br.HtlcRetributions) == len(want), "one HTLC retribution per non-dust HTLC of the revoked commitment")
		if len(br.HtlcRetributions) != len(want) {
			return
		}
		for i := range br.HtlcRetributions {
			r, h, ws := &br.HtlcRetributions[i], want[i], wantWS[i]
			out, ok := claim(r.OutPoint)
			vAssert(ok && c04SameOut(r.SignDesc.Output, out) && r.SignDesc.Output.Value == int64(uint64(h.amt)/1000),
				"htlc: outpoint is an output of the revoked tx, recorded script and amount are that output's, amount = the HTLC's whole satoshis")
			vAssert(r.IsIncoming == h.incoming && r.SignDesc.Output != nil &&
				bytes.Equal(r.SignDesc.Output.PkScript, c04P2WSH(ws, nil)) && bytes.Equal(r.SignDesc.WitnessScript, ws) &&
				vmKeyEq(r.SignDesc.KeyDesc.PubKey, lc.RevocationBasePoint.PubKey) && r.SignDesc.DoubleTweak != nil,
				"htlc: script = BOLT-3 offered/received HTLC(their/our htlc keys, revocation key, hash[, cltv]) by direction, signed with our revocation base point + revealed secret")
			vAssert(bytes.Equal(r.SecondLevelWitnessScript, wantSecondWS),
				"htlc: second-level script = BOLT-3 second level(revocation key, their delayed key, their to_self_delay[, lease])")
			if h.incoming {
				vReach("offered-htlc-punished")
			} else {
				vReach("received-htlc-punished")
			}
		}

		// completeness: every output that is not an anchor is claimed exactly
		// once (written without symbolic branches)
		for j, out := range tx.TxOut {
			isAnchor := false
			for _, a := range anchorPks {
				sameScript := bytes.Equal(out.PkScript, a)
				isAnchor = isAnchor || (out.Value == int64(AnchorSize) && sameScript)
			}
			vAssert((isAnchor && claimed[j] == 0) || (!isAnchor && claimed[j] == 1),
				"every non-anchor output of the revoked transaction is punished exactly once (anchors: never)")
		}
		if anchors {
			vReach("anchor-type")
		}
		if withSpendTx {
			vReach("with-spend-tx")
		} else {
			vReach("from-log-balances")
		}
	}
	if len(want) == 2 && want[0].rHash == want[1].rHash && want[0].amt/1000 == want[1].amt/1000 &&
		want[0].incoming == want[1].incoming {
		vReach("duplicate-htlcs")
	}
	if len(want) < nHtlc {
		vReach("dust-htlc-trimmed")
	}
	if !hasTheirs {
		vReach("to-local-trimmed")
	}
	if !hasOurs {
		vReach("to-remote-trimmed")
	}
}

// VerifC04Breach0/1/2: revoked remote commitment with 0, 1, 2 HTLCs.
func VerifC04Breach0() { c04Breach(0) }
func VerifC04Breach1() { c04Breach(1) }
func VerifC04Breach2() { c04Breach(2) }
