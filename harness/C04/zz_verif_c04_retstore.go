package contractcourt

// Harness for C04-K5: the breach arbitrator's RETRIBUTION STORE. Property C04:
// "... using only what the node has persisted ... builds a justice transaction
// whose witnesses are valid ... for the revoked to-local output, its own
// to-remote output and every non-dust HTLC output (and for the second-level
// output if the cheater first advances an HTLC) ... after any number of
// reloads". What the breach arbitrator persists at the hand-off from the
// chain watcher (RetributionStore.Add, the only write: handleBreachHandoff) is
// all a restarted node has (BreachArbitrator.start -> RetributionStore.ForAll).
//
// Unit executed symbolically (real lnd code): newRetributionInfo,
// makeBreachedOutput, (*RetributionStore).Add / ForAll / Remove / IsBreached,
// (*retributionInfo).Encode / Decode, (*breachedOutput).Encode / Decode,
// input.WriteSignDescriptor / ReadSignDescriptor (writeTxOut / readTxOut,
// wire.WriteVarBytes / ReadVarBytes, encoding/binary), graphdb.WriteOutpoint /
// ReadOutpoint, taprootBriefcaseFromRetInfo, applyTaprootRetInfo,
// newResolverID, (*taprootBriefcase).Encode / Decode with the ctrlBlocks /
// tapTweaks / htlcTapTweaks record codecs over the real tlv stream code,
// updateBreachInfo, convertToSecondLevelRevoke, input.IsHtlcSpendRevoke,
// (*breachedOutput).CraftInputScript, (StandardWitnessType).WitnessGenerator
// and the witness builders below it (CommitSpendNoDelay,
// CommitSpendToRemoteConfirmed, CommitSpendRevoke, Sender/ReceiverHtlcSpendRevoke,
// HtlcSpendRevoke, TaprootCommitRemoteSpend, TaprootCommitSpendRevoke,
// Sender/ReceiverHTLCScriptTaprootRevoke, TaprootHtlcSpendRevoke),
// btcec SerializeCompressed / PrivKeyFromBytes / PrivateKey.Serialize.
//
// Fakes: kvdb.Backend (in-memory bucket tree, write transaction atomic, keys in
// byte order; copied from /verif/harness/C13/zz_verif_c13_bolt.go), input.Signer
// (records what it is asked to sign).
// Model (symbolic run only, native replay runs the real curve code on real
// keys): a public key is a point whose x coordinate is its 32 identity bytes
// (y = 0, even), so the REAL SerializeCompressed gives 0x02||identity and
// btcec.ParsePubKey is replaced by its inverse on such strings;
// input.deriveRevokePubKey and input.TweakPubKeyWithTweak (EC arithmetic) are
// ideal functions of (serialised key, secret / tweak).
//
// Oracle. The retribution the wallet hands over (lnwallet.BreachRetribution,
// every field the justice transaction reads symbolic) is turned into the
// in-memory retributionInfo by the real newRetributionInfo, persisted with the
// real Add and reloaded by a FRESH store's ForAll over the same database. Then
//   (field level) every breached output of the reloaded retribution equals the
//     in-memory one in: amt, outpoint, witnessType, key locator + key, single /
//     double tweak (incl. nil-ness), witness script, output (value, pkScript),
//     sighash type, control block, tap tweak, second-level witness script,
//     second-level tap tweak, resolution blob; the retribution itself in commit
//     hash, channel point, chain hash, breach height, number and order of outputs;
//   (signer level) for every output CraftInputScript on the reloaded output
//     asks the signer to sign the same transaction with the same effective sign
//     descriptor (incl. SignMethod, which is not persisted but re-derived from
//     the witness type) and yields the same witness as on the in-memory output;
//   (second level) when the cheater then spends every revoked HTLC output with
//     his second-level transaction, updateBreachInfo on the RELOADED retribution
//     installs the second-level witness script / tap tweak that the wallet
//     supplied for THAT output, and field level + signer level equality with
//     the in-memory retribution after the same spends holds again.
// Store operations (VerifC04RetStoreOps): IsBreached reflects Add / Remove,
// two channels do not alias (each is reloaded once with its own data), Remove
// deletes exactly that channel's entries in both buckets.

import (
	"bytes"
	"crypto/sha256"
	"errors"

	"github.com/btcsuite/btcd/btcec/v2"
	"github.com/btcsuite/btcd/txscript/v2"
	"github.com/btcsuite/btcd/wire/v2"
	"github.com/btcsuite/btcwallet/walletdb"
	"github.com/decred/dcrd/dcrec/secp256k1/v4"
	"github.com/lightningnetwork/lnd/chainntnfs"
	"github.com/lightningnetwork/lnd/channeldb"
	"github.com/lightningnetwork/lnd/fn/v2"
	"github.com/lightningnetwork/lnd/input"
	"github.com/lightningnetwork/lnd/keychain"
	"github.com/lightningnetwork/lnd/kvdb"
	"github.com/lightningnetwork/lnd/lnwallet"
	"github.com/lightningnetwork/lnd/tlv"
)

// ---------------------------------------------------------------------------
// fake kvdb backend (adapted from /verif/harness/C13/zz_verif_c13_bolt.go; the
// key comparison is branch-free so that symbolic keys cost one fork, not one
// per byte)
// ---------------------------------------------------------------------------

type c04kvNode struct {
	keys, vals [][]byte
	subKeys    [][]byte
	subs       []*c04kvNode
}

func c04kvCopy(b []byte) []byte {
	c := make([]byte, len(b))
	copy(c, b)

	return c
}

func (n *c04kvNode) clone() *c04kvNode {
	c := &c04kvNode{}
	c.keys = append([][]byte(nil), n.keys...)
	c.vals = append([][]byte(nil), n.vals...)
	c.subKeys = append([][]byte(nil), n.subKeys...)
	for _, s := range n.subs {
		c.subs = append(c.subs, s.clone())
	}

	return c
}

// c04kvLess: byte order (bbolt iterates in key order).
func c04kvLess(a, b []byte) bool {
	n := len(a)
	if len(b) < n {
		n = len(b)
	}
	less, decided := false, false
	for i := 0; i < n; i++ {
		ne := a[i] != b[i]
		less = less || (!decided && ne && a[i] < b[i])
		decided = decided || ne
	}

	return less || (!decided && len(a) < len(b))
}

func c04kvIndex(keys [][]byte, k []byte) int {
	for i := range keys {
		if bytes.Equal(keys[i], k) {
			return i
		}
	}

	return -1
}

func c04kvPos(keys [][]byte, k []byte) int {
	pos := 0
	for pos < len(keys) && c04kvLess(keys[pos], k) {
		pos++
	}

	return pos
}

func c04kvInsert(list [][]byte, pos int, v []byte) [][]byte {
	out := make([][]byte, 0, len(list)+1)
	out = append(out, list[:pos]...)
	out = append(out, v)
	out = append(out, list[pos:]...)

	return out
}

func c04kvRemove(list [][]byte, pos int) [][]byte {
	out := make([][]byte, 0, len(list))
	out = append(out, list[:pos]...)
	out = append(out, list[pos+1:]...)

	return out
}

type c04kvDB struct {
	kvdb.Backend // nil: every method not defined below panics

	top *c04kvNode // top-level buckets are the nested buckets of this node
}

type c04kvTx struct {
	kvdb.RwTx // nil: every method not defined below panics

	db *c04kvDB
	rw bool
}

type c04kvB struct {
	kvdb.RwBucket // nil: every method not defined below panics

	n  *c04kvNode
	tx *c04kvTx
}

func c04kvNew() *c04kvDB { return &c04kvDB{top: &c04kvNode{}} }

func (d *c04kvDB) View(f func(tx walletdb.ReadTx) error, reset func()) error {
	reset()

	return f(&c04kvTx{db: d})
}

// Update runs one atomic read-write transaction.
func (d *c04kvDB) Update(f func(tx walletdb.ReadWriteTx) error,
	reset func()) error {

	reset()
	snap := d.top.clone()
	if err := f(&c04kvTx{db: d, rw: true}); err != nil {
		d.top = snap // rollback

		return err
	}

	return nil
}

func (t *c04kvTx) top(key []byte) *c04kvB {
	if i := c04kvIndex(t.db.top.subKeys, key); i >= 0 {
		return &c04kvB{n: t.db.top.subs[i], tx: t}
	}

	return nil
}

func (t *c04kvTx) ReadBucket(key []byte) walletdb.ReadBucket {
	if b := t.top(key); b != nil {
		return b
	}

	return nil
}

func (t *c04kvTx) ReadWriteBucket(key []byte) walletdb.ReadWriteBucket {
	if b := t.top(key); b != nil {
		return b
	}

	return nil
}

func (t *c04kvTx) CreateTopLevelBucket(key []byte) (walletdb.ReadWriteBucket,
	error) {

	root := &c04kvB{n: t.db.top, tx: t}

	return root.CreateBucketIfNotExists(key)
}

func (b *c04kvB) Get(key []byte) []byte {
	if i := c04kvIndex(b.n.keys, key); i >= 0 {
		return b.n.vals[i]
	}

	return nil // unknown key, or the key of a nested bucket
}

func (b *c04kvB) Put(key, value []byte) error {
	if !b.tx.rw {
		return walletdb.ErrTxNotWritable
	}
	if len(key) == 0 {
		return walletdb.ErrKeyRequired
	}
	if c04kvIndex(b.n.subKeys, key) >= 0 {
		return walletdb.ErrIncompatibleValue
	}
	v := c04kvCopy(value)
	if i := c04kvIndex(b.n.keys, key); i >= 0 {
		vals := append([][]byte(nil), b.n.vals...)
		vals[i] = v
		b.n.vals = vals

		return nil
	}
	pos := c04kvPos(b.n.keys, key)
	b.n.keys = c04kvInsert(b.n.keys, pos, c04kvCopy(key))
	b.n.vals = c04kvInsert(b.n.vals, pos, v)

	return nil
}

func (b *c04kvB) Delete(key []byte) error {
	if !b.tx.rw {
		return walletdb.ErrTxNotWritable
	}
	if c04kvIndex(b.n.subKeys, key) >= 0 {
		return walletdb.ErrIncompatibleValue
	}
	i := c04kvIndex(b.n.keys, key)
	if i < 0 {
		return nil
	}
	b.n.keys = c04kvRemove(b.n.keys, i)
	b.n.vals = c04kvRemove(b.n.vals, i)

	return nil
}

// ForEach: keys in byte order (the two retribution buckets have no nested
// buckets).
func (b *c04kvB) ForEach(f func(k, v []byte) error) error {
	keys, vals := b.n.keys, b.n.vals
	for i := range keys {
		if err := f(keys[i], vals[i]); err != nil {
			return err
		}
	}

	return nil
}

func (b *c04kvB) CreateBucketIfNotExists(key []byte) (
	walletdb.ReadWriteBucket, error) {

	if !b.tx.rw {
		return nil, walletdb.ErrTxNotWritable
	}
	if len(key) == 0 {
		return nil, walletdb.ErrBucketNameRequired
	}
	if i := c04kvIndex(b.n.subKeys, key); i >= 0 {
		return &c04kvB{n: b.n.subs[i], tx: b.tx}, nil
	}
	if c04kvIndex(b.n.keys, key) >= 0 {
		return nil, walletdb.ErrIncompatibleValue
	}
	pos := c04kvPos(b.n.subKeys, key)
	s := &c04kvNode{}
	b.n.subKeys = c04kvInsert(b.n.subKeys, pos, c04kvCopy(key))
	subs := make([]*c04kvNode, 0, len(b.n.subs)+1)
	subs = append(subs, b.n.subs[:pos]...)
	subs = append(subs, s)
	subs = append(subs, b.n.subs[pos:]...)
	b.n.subs = subs

	return &c04kvB{n: s, tx: b.tx}, nil
}

// raw: the value stored under key in top-level bucket name (nil if either is
// absent) - the harness's direct look at the database.
func (d *c04kvDB) raw(name, key []byte) []byte {
	i := c04kvIndex(d.top.subKeys, name)
	if i < 0 {
		return nil
	}
	j := c04kvIndex(d.top.subs[i].keys, key)
	if j < 0 {
		return nil
	}

	return d.top.subs[i].vals[j]
}

func (d *c04kvDB) count(name []byte) int {
	i := c04kvIndex(d.top.subKeys, name)
	if i < 0 {
		return 0
	}

	return len(d.top.subs[i].keys)
}

// ---------------------------------------------------------------------------
// key model
// ---------------------------------------------------------------------------

// c04rPub: a public key with 32 symbolic identity bytes. Symbolically the
// point (x = identity, y = 0): the real SerializeCompressed yields
// 0x02||identity. Natively a real secp256k1 key derived from the identity.
func c04rPub(name string) *btcec.PublicKey {
	id := vBytes(name, 32)
	if vNative() {
		h := sha256.Sum256(id)
		_, pub := btcec.PrivKeyFromBytes(h[:])

		return pub
	}
	// model restriction: the identity is a normalised field element (< P);
	// identity[0] != 0xff is sufficient.
	vAssume(id[0] != 0xff)
	var x, y btcec.FieldVal
	x.SetByteSlice(id)

	return btcec.NewPublicKey(&x, &y)
}

// c04rParsePubKey replaces btcec.ParsePubKey symbolically: the inverse of
// SerializeCompressed on model keys.
func c04rParsePubKey(b []byte) (*btcec.PublicKey, error) {
	if len(b) != 33 || b[0] != 0x02 {
		return nil, errors.New("verif model: not a serialised model key")
	}
	var x, y btcec.FieldVal
	x.SetByteSlice(b[1:])

	return btcec.NewPublicKey(&x, &y), nil
}

// c04rPriv: a private key (commitment secret) with 32 symbolic bytes.
func c04rPriv(name string) *btcec.PrivateKey {
	sec := vBytes(name, 32)
	if vNative() {
		h := sha256.Sum256(sec)
		priv, _ := btcec.PrivKeyFromBytes(h[:])

		return priv
	}
	// a commitment secret is a scalar below the group order N (a sha-chain
	// output >= N has probability 2^-128); sec[0] != 0xff is sufficient.
	vAssume(sec[0] != 0xff)
	priv, _ := btcec.PrivKeyFromBytes(sec)

	return priv
}

// c04rPrivKeyFromBytes replaces btcec.PrivKeyFromBytes symbolically: the real
// scalar parsing without the base-point multiplication for the public key
// (ReadSignDescriptor discards it).
func c04rPrivKeyFromBytes(b []byte) (*btcec.PrivateKey, *btcec.PublicKey) {
	return secp256k1.PrivKeyFromBytes(b), nil
}

func c04rSameKey(a, b *btcec.PublicKey) bool {
	if a == nil || b == nil {
		return a == nil && b == nil
	}

	return a.IsEqual(b)
}

func c04rSamePriv(a, b *btcec.PrivateKey) bool {
	if a == nil || b == nil {
		return a == nil && b == nil
	}

	return bytes.Equal(a.Serialize(), b.Serialize())
}

func c04rIdealKey(id []byte) *btcec.PublicKey {
	var x, y btcec.FieldVal
	x.SetByteSlice(id)

	return btcec.NewPublicKey(&x, &y)
}

// c04rDeriveRevokePubKey replaces input.deriveRevokePubKey symbolically.
func c04rDeriveRevokePubKey(sd *input.SignDescriptor) (*btcec.PublicKey, error) {
	if sd.KeyDesc.PubKey == nil {
		return nil, errors.New("cannot generate witness with nil KeyDesc pubkey")
	}

	return c04rIdealKey(vHash("revocationpubkey", 32,
		sd.KeyDesc.PubKey.SerializeCompressed(), sd.DoubleTweak.Serialize())), nil
}

// c04rTweakPubKeyWithTweak replaces input.TweakPubKeyWithTweak symbolically.
func c04rTweakPubKeyWithTweak(pub *btcec.PublicKey, tweak []byte) *btcec.PublicKey {
	return c04rIdealKey(vHash("tweakpubkey", 32, pub.SerializeCompressed(), tweak))
}

// ---------------------------------------------------------------------------
// fake signer
// ---------------------------------------------------------------------------

type c04rSig struct{ b []byte }

func (s *c04rSig) Serialize() []byte                    { return s.b }
func (s *c04rSig) Verify([]byte, *btcec.PublicKey) bool { return false }

type c04rSigner struct {
	input.Signer
	n    int
	tx   *wire.MsgTx
	desc input.SignDescriptor
}

var c04rOurSig = []byte{0x30, 0x06, 0x02, 0x01, 0x07, 0x02, 0x01, 0x09}

func (s *c04rSigner) SignOutputRaw(tx *wire.MsgTx, d *input.SignDescriptor) (input.Signature, error) {
	s.n++
	s.tx, s.desc = tx, *d

	return &c04rSig{b: c04rOurSig}, nil
}

// ---------------------------------------------------------------------------
// comparison
// ---------------------------------------------------------------------------

func c04rSameBytes(a, b []byte) bool {
	return (a == nil) == (b == nil) && bytes.Equal(a, b)
}

func c04rSameOut(a, b *wire.TxOut) bool {
	return a != nil && b != nil && a.Value == b.Value && bytes.Equal(a.PkScript, b.PkScript)
}

func c04rSameBlob(a, b fn.Option[tlv.Blob]) bool {
	if a.IsSome() != b.IsSome() {
		return false
	}

	return bytes.Equal(a.UnwrapOr(nil), b.UnwrapOr(nil))
}

// c04rSameDesc: the fields of a sign descriptor a signer / witness builder
// reads.
func c04rSameDesc(a, b *input.SignDescriptor, method bool) bool {
	ok := a.KeyDesc.Family == b.KeyDesc.Family && a.KeyDesc.Index == b.KeyDesc.Index &&
		c04rSameKey(a.KeyDesc.PubKey, b.KeyDesc.PubKey) &&
		c04rSameBytes(a.SingleTweak, b.SingleTweak) && c04rSamePriv(a.DoubleTweak, b.DoubleTweak) &&
		bytes.Equal(a.WitnessScript, b.WitnessScript) && c04rSameOut(a.Output, b.Output) &&
		a.HashType == b.HashType && bytes.Equal(a.ControlBlock, b.ControlBlock) &&
		bytes.Equal(a.TapTweak, b.TapTweak)
	if method {
		ok = ok && a.SignMethod == b.SignMethod && a.InputIndex == b.InputIndex
	}

	return ok
}

// c04rCompare: field level + signer level equality of the reloaded
// retribution got with the in-memory one want. tag prefixes the messages.
func c04rCompare(tag string, want, got *retributionInfo) {
	vAssert(got.commitHash == want.commitHash, tag+"commit hash of the breach transaction")
	vAssert(got.chanPoint == want.chanPoint, tag+"channel point")
	vAssert(got.chainHash == want.chainHash, tag+"chain hash")
	vAssert(got.breachHeight == want.breachHeight, tag+"breach height")
	vAssert(len(got.breachedOutputs) == len(want.breachedOutputs), tag+"number of breached outputs")
	if len(got.breachedOutputs) != len(want.breachedOutputs) {
		return
	}

	// one justice transaction skeleton spending all outputs
	justice := wire.NewMsgTx(2)
	for i := range want.breachedOutputs {
		justice.AddTxIn(&wire.TxIn{PreviousOutPoint: want.breachedOutputs[i].outpoint})
	}
	justice.AddTxOut(&wire.TxOut{Value: 1000, PkScript: []byte{0x00, 0x14}})

	for i := range want.breachedOutputs {
		w, g := &want.breachedOutputs[i], &got.breachedOutputs[i]

		vAssert(g.amt == w.amt, tag+"output: amount")
		vAssert(g.outpoint == w.outpoint, tag+"output: outpoint")
		vAssert(g.witnessType == w.witnessType, tag+"output: witness type")
		vAssert(g.signDesc.KeyDesc.Family == w.signDesc.KeyDesc.Family &&
			g.signDesc.KeyDesc.Index == w.signDesc.KeyDesc.Index, tag+"output: key locator")
		vAssert(c04rSameKey(g.signDesc.KeyDesc.PubKey, w.signDesc.KeyDesc.PubKey), tag+"output: public key")
		vAssert(c04rSameBytes(g.signDesc.SingleTweak, w.signDesc.SingleTweak), tag+"output: single tweak (incl. absence)")
		vAssert(c04rSamePriv(g.signDesc.DoubleTweak, w.signDesc.DoubleTweak), tag+"output: double tweak / commitment secret (incl. absence)")
		vAssert(bytes.Equal(g.signDesc.WitnessScript, w.signDesc.WitnessScript), tag+"output: witness script")
		vAssert(c04rSameOut(g.signDesc.Output, w.signDesc.Output), tag+"output: value and pkScript being spent")
		vAssert(g.signDesc.HashType == w.signDesc.HashType, tag+"output: sighash type")
		vAssert(bytes.Equal(g.signDesc.ControlBlock, w.signDesc.ControlBlock), tag+"output: taproot control block")
		vAssert(bytes.Equal(g.signDesc.TapTweak, w.signDesc.TapTweak), tag+"output: first-level tap tweak")
		vAssert(bytes.Equal(g.secondLevelWitnessScript, w.secondLevelWitnessScript), tag+"output: second-level witness script")
		vAssert(g.secondLevelTapTweak == w.secondLevelTapTweak, tag+"output: second-level tap tweak")
		vAssert(c04rSameBlob(g.resolutionBlob, w.resolutionBlob), tag+"output: resolution blob")

		// signer level: what the justice transaction builder does with it
		ws, gs := &c04rSigner{}, &c04rSigner{}
		wScript, wErr := w.CraftInputScript(ws, justice, nil, nil, i)
		gScript, gErr := g.CraftInputScript(gs, justice, nil, nil, i)
		vAssert(wErr == nil && wScript != nil, tag+"setup: the in-memory output yields a justice witness")
		vAssert(gErr == nil && gScript != nil, tag+"output: the reloaded output yields a justice witness")
		if wErr != nil || gErr != nil || wScript == nil || gScript == nil {
			continue
		}
		vAssert(ws.n == 1 && gs.n == 1 && gs.tx == ws.tx && c04rSameDesc(&gs.desc, &ws.desc, true),
			tag+"output: the signer is asked for the same signature (key, tweaks, script, output, sighash, sign method, control block, tap tweak, input index)")
		same := len(gScript.Witness) == len(wScript.Witness)
		if same {
			for j := range wScript.Witness {
				same = same && bytes.Equal(gScript.Witness[j], wScript.Witness[j])
			}
		}
		vAssert(same && bytes.Equal(gScript.SigScript, wScript.SigScript), tag+"output: same justice witness")
	}
}

// ---------------------------------------------------------------------------
// the retribution as the wallet hands it over
// ---------------------------------------------------------------------------

const (
	c04rLegacy    = 0 // to_remote P2WKH with tweaked key (CommitmentNoDelay)
	c04rTweakless = 1 // to_remote P2WKH, static key (CommitSpendNoDelayTweakless)
	c04rAnchors   = 2 // to_remote P2WSH with CSV 1 (CommitmentToRemoteConfirmed)
	c04rTaproot   = 3 // simple taproot (staging)
	c04rTapFinal  = 4 // simple taproot (final)
)

func c04rPkScript(name string, kind int, wkh bool) []byte {
	switch {
	case kind >= c04rTaproot:
		return append([]byte{txscript.OP_1, txscript.OP_DATA_32}, vBytes(name, 32)...)
	case wkh:
		return append([]byte{txscript.OP_0, txscript.OP_DATA_20}, vBytes(name, 20)...)
	}

	return append([]byte{txscript.OP_0, txscript.OP_DATA_32}, vBytes(name, 32)...)
}

// c04rHtlcSrc: what the harness put into HTLC k (the independent reference for
// the second-level step).
type c04rHtlcSrc struct {
	op     wire.OutPoint
	second []byte
	tweak  [32]byte
	first  []byte
}

// c04rRetribution builds a symbolic BreachRetribution of the given channel
// kind with to_remote (ours) / to_local (theirs) present or not and nHtlc HTLC
// outputs, the way lnwallet.NewBreachRetribution fills it in
// (createBreachRetribution / createHtlcRetribution).
func c04rRetribution(sfx string, kind int, hasLocal, hasRemote bool, nHtlc int) (
	*lnwallet.BreachRetribution, []c04rHtlcSrc) {

	taproot := kind >= c04rTaproot
	// sweepSigHash(chanType): SIGHASH_DEFAULT for taproot channels, SIGHASH_ALL
	// otherwise.
	hashType := txscript.SigHashAll
	if taproot {
		hashType = txscript.SigHashDefault
	}
	// maximum money supply; amounts are int64 satoshi >= 0
	amount := func(name string) int64 {
		v := vU64(name)
		vAssume(v <= 2_100_000_000_000_000)

		return int64(v)
	}

	ret := &lnwallet.BreachRetribution{BreachHeight: vU32("breachHeight" + sfx)}
	copy(ret.BreachTxHash[:], vBytes("breachTxid"+sfx, 32))
	copy(ret.ChainHash[:], vBytes("chainHash"+sfx, 32))
	switch kind {
	case c04rTaproot:
		ret.ChanType = channeldb.SimpleTaprootFeatureBit | channeldb.AnchorOutputsBit |
			channeldb.ZeroHtlcTxFeeBit | channeldb.SingleFunderTweaklessBit
	case c04rTapFinal:
		ret.ChanType = channeldb.SimpleTaprootFeatureBit | channeldb.TaprootFinalBit |
			channeldb.AnchorOutputsBit | channeldb.ZeroHtlcTxFeeBit |
			channeldb.SingleFunderTweaklessBit
	case c04rAnchors:
		ret.ChanType = channeldb.AnchorOutputsBit | channeldb.ZeroHtlcTxFeeBit |
			channeldb.SingleFunderTweaklessBit
	case c04rTweakless:
		ret.ChanType = channeldb.SingleFunderTweaklessBit
	}

	if hasLocal {
		// our to_remote output on their commitment
		ret.LocalOutpoint = wire.OutPoint{Hash: ret.BreachTxHash, Index: vU32("toRemoteIndex" + sfx)}
		sd := &input.SignDescriptor{
			KeyDesc: keychain.KeyDescriptor{
				KeyLocator: keychain.KeyLocator{
					Family: keychain.KeyFamily(vU32("paymentKeyFamily" + sfx)),
					Index:  vU32("paymentKeyIndex" + sfx),
				},
				PubKey: c04rPub("paymentBase" + sfx),
			},
			Output: &wire.TxOut{
				Value:    amount("toRemoteValue" + sfx),
				PkScript: c04rPkScript("toRemoteScript"+sfx, kind, kind <= c04rTweakless),
			},
			HashType: hashType,
		}
		switch kind {
		case c04rLegacy:
			sd.SingleTweak = vBytes("toRemoteSingleTweak"+sfx, 32)
			sd.WitnessScript = append([]byte(nil), sd.Output.PkScript...) // p2wkh: the pkScript
		case c04rTweakless:
			sd.WitnessScript = append([]byte(nil), sd.Output.PkScript...)
		case c04rAnchors:
			sd.WitnessScript = vBytes("toRemoteWitnessScript"+sfx, 37)
			ret.LocalDelay = 1
		default:
			sd.WitnessScript = vBytes("toRemoteWitnessScript"+sfx, 37)
			sd.SignMethod = input.TaprootScriptSpendSignMethod
			sd.ControlBlock = vBytes("toRemoteControlBlock"+sfx, 33)
			ret.LocalDelay = 1
			if vBool("toRemoteBlob" + sfx) {
				ret.LocalResolutionBlob = fn.Some[tlv.Blob](vBytes("toRemoteBlobBytes"+sfx, 5))
			}
		}
		ret.LocalOutputSignDesc = sd
	}
	if hasRemote {
		// their to_local output: revocation path
		ret.RemoteOutpoint = wire.OutPoint{Hash: ret.BreachTxHash, Index: vU32("toLocalIndex" + sfx)}
		sd := &input.SignDescriptor{
			KeyDesc: keychain.KeyDescriptor{
				KeyLocator: keychain.KeyLocator{
					Family: keychain.KeyFamily(vU32("revocationKeyFamily" + sfx)),
					Index:  vU32("revocationKeyIndex" + sfx),
				},
				PubKey: c04rPub("revocationBase" + sfx),
			},
			DoubleTweak:   c04rPriv("commitSecret" + sfx),
			WitnessScript: vBytes("toLocalWitnessScript"+sfx, 40),
			Output: &wire.TxOut{
				Value:    amount("toLocalValue" + sfx),
				PkScript: c04rPkScript("toLocalScript"+sfx, kind, false),
			},
			HashType: hashType,
		}
		if taproot {
			sd.SignMethod = input.TaprootScriptSpendSignMethod
			sd.ControlBlock = vBytes("toLocalControlBlock"+sfx, 65)
			if vBool("toLocalBlob" + sfx) {
				ret.RemoteResolutionBlob = fn.Some[tlv.Blob](vBytes("toLocalBlobBytes"+sfx, 5))
			}
		}
		ret.RemoteOutputSignDesc = sd
	}
	src := make([]c04rHtlcSrc, nHtlc)
	for k := 0; k < nHtlc; k++ {
		s := sfx + string(rune('0'+k))
		h := &src[k]
		h.op = wire.OutPoint{Hash: ret.BreachTxHash, Index: vU32("htlcIndex" + s)}
		h.second = vBytes("secondLevelScript"+s, 38)
		sd := input.SignDescriptor{
			KeyDesc: keychain.KeyDescriptor{
				KeyLocator: keychain.KeyLocator{
					Family: keychain.KeyFamily(vU32("htlcRevocationKeyFamily" + s)),
					Index:  vU32("htlcRevocationKeyIndex" + s),
				},
				PubKey: c04rPub("htlcRevocationBase" + s),
			},
			DoubleTweak:   c04rPriv("htlcCommitSecret" + s),
			WitnessScript: vBytes("htlcWitnessScript"+s, 41),
			Output: &wire.TxOut{
				Value:    amount("htlcValue" + s),
				PkScript: c04rPkScript("htlcScript"+s, kind, false),
			},
			HashType: hashType,
		}
		if taproot {
			// createHtlcRetribution: key spend with the script root as
			// tap tweak; second-level tap tweak only for taproot
			sd.SignMethod = input.TaprootKeySpendSignMethod
			h.first = vBytes("htlcTapTweak"+s, 32)
			sd.TapTweak = append([]byte(nil), h.first...)
			copy(h.tweak[:], vBytes("secondLevelTapTweak"+s, 32))
		}
		ret.HtlcRetributions = append(ret.HtlcRetributions, lnwallet.HtlcRetribution{
			SignDesc:                 sd,
			OutPoint:                 h.op,
			SecondLevelWitnessScript: append([]byte(nil), h.second...),
			SecondLevelTapTweak:      h.tweak,
			IsIncoming:               vBool("htlcIncoming" + s),
		})
	}

	// distinct outputs of the revoked transaction
	var idx []uint32
	if hasLocal {
		idx = append(idx, ret.LocalOutpoint.Index)
	}
	if hasRemote {
		idx = append(idx, ret.RemoteOutpoint.Index)
	}
	for k := range src {
		idx = append(idx, src[k].op.Index)
	}
	for i := range idx {
		for j := 0; j < i; j++ {
			vAssume(idx[i] != idx[j])
		}
	}

	return ret, src
}

func c04rConfig() {
	vUnwind(200)
	vReplace("github.com/btcsuite/btcd/btcec/v2.ParsePubKey",
		"github.com/lightningnetwork/lnd/contractcourt.c04rParsePubKey")
	vReplace("github.com/btcsuite/btcd/btcec/v2.PrivKeyFromBytes",
		"github.com/lightningnetwork/lnd/contractcourt.c04rPrivKeyFromBytes")
	vReplace("github.com/lightningnetwork/lnd/input.deriveRevokePubKey",
		"github.com/lightningnetwork/lnd/contractcourt.c04rDeriveRevokePubKey")
	vReplace("github.com/lightningnetwork/lnd/input.TweakPubKeyWithTweak",
		"github.com/lightningnetwork/lnd/contractcourt.c04rTweakPubKeyWithTweak")
	vAssumption("key model (K5): a public key is the point (x = 32 identity bytes < P, y = 0); the real SerializeCompressed runs on it, btcec.ParsePubKey is its inverse on 0x02||identity; commitment secrets are scalars < N; input.deriveRevokePubKey / TweakPubKeyWithTweak are ideal functions of (serialised key, secret / tweak); native replay: real secp256k1 keys and derivations")
}

// c04rReload: a fresh store over the same database, as BreachArbitrator.start
// does after a restart.
func c04rReload(db *c04kvDB) ([]*retributionInfo, error) {
	var all []*retributionInfo
	err := NewRetributionStore(db).ForAll(func(r *retributionInfo) error {
		all = append(all, r)

		return nil
	}, func() { all = nil })

	return all, err
}

// c04rSecondLevel: the cheater spends every revoked HTLC output with his own
// 1-in-1-out second-level transaction (K4 covers the other shapes); returns
// the spends for updateBreachInfo.
func c04rSecondLevel(info *retributionInfo, first int, src []c04rHtlcSrc, taproot bool) ([]spend, []*wire.MsgTx) {
	var (
		spends []spend
		txs    []*wire.MsgTx
	)
	for k := range src {
		s := string(rune('0' + k))
		tx := wire.NewMsgTx(2)
		in := &wire.TxIn{PreviousOutPoint: src[k].op, Sequence: vU32("spendSequence" + s)}
		if taproot {
			// script path: <sig> <sig> <script> <control block>
			in.Witness = wire.TxWitness{vBytes("w0"+s, 64), vBytes("w1"+s, 64), vBytes("w2"+s, 40), vBytes("w3"+s, 65)}
		} else {
			// <> <sig> <sig> <preimage> <script>
			in.Witness = wire.TxWitness{nil, vBytes("w1"+s, 72), vBytes("w2"+s, 72), vBytes("w3"+s, 32), vBytes("w4"+s, 40)}
		}
		tx.AddTxIn(in)
		v := vU64("spendOutValue" + s)
		vAssume(v <= 2_100_000_000_000_000)
		kind := c04rAnchors
		if taproot {
			kind = c04rTaproot
		}
		tx.AddTxOut(&wire.TxOut{Value: int64(v), PkScript: c04rPkScript("spendOutScript"+s, kind, false)})
		txid := tx.TxHash()
		op := src[k].op
		spends = append(spends, spend{index: first + k, detail: &chainntnfs.SpendDetail{
			SpentOutPoint: &op, SpenderTxHash: &txid, SpendingTx: tx,
			SpenderInputIndex: 0, SpendingHeight: int32(vU32("spendHeight"+s) >> 1),
		}})
		txs = append(txs, tx)
	}

	return spends, txs
}

// c04rRoundTrip: one channel; persist, restart, compare; then the second-level
// step on the reloaded retribution.
func c04rRoundTrip(maxHtlc int) {
	c04rConfig()

	kind := vChoice("kind", 5)
	outs := vChoice("commitOutputs", 3) // 0: to_remote + to_local, 1: to_local only, 2: to_remote only
	nHtlc := vChoice("nHtlc", maxHtlc+1)
	hasLocal, hasRemote := outs != 1, outs != 2
	taproot := kind >= c04rTaproot

	ret, src := c04rRetribution("", kind, hasLocal, hasRemote, nHtlc)
	var chanPoint wire.OutPoint
	copy(chanPoint.Hash[:], vBytes("fundingTxid", 32))
	chanPoint.Index = vU32("fundingIndex")

	want := newRetributionInfo(&chanPoint, ret)
	first := 0
	if hasLocal {
		first++
	}
	if hasRemote {
		first++
	}
	vAssert(len(want.breachedOutputs) == first+nHtlc, "setup: one breached output per commitment output and HTLC")
	if len(want.breachedOutputs) != first+nHtlc {
		return
	}

	db := c04kvNew()
	err := NewRetributionStore(db).Add(want)
	vAssert(err == nil, "the retribution is persisted")
	if err != nil {
		return
	}

	// ---- restart ----
	all, err := c04rReload(db)
	vAssert(err == nil, "after a restart the persisted retribution is reloaded without error")
	if err != nil {
		return
	}
	vAssert(len(all) == 1, "exactly the one persisted retribution is reloaded")
	if len(all) != 1 {
		return
	}
	got := all[0]
	c04rCompare("reloaded ", want, got)
	if len(got.breachedOutputs) != len(want.breachedOutputs) {
		return
	}
	vReach("reloaded")
	switch {
	case taproot && nHtlc > 0:
		vReach("taproot-htlc")
	case taproot:
		vReach("taproot-commit-only")
	case nHtlc > 0:
		vReach("segwit-v0-htlc")
	default:
		vReach("segwit-v0-commit-only")
	}
	if nHtlc == 0 {
		return
	}

	// ---- the cheater takes every HTLC to the second level ----
	spends, txs := c04rSecondLevel(want, first, src, taproot)
	wTotal, wRevoked := updateBreachInfo(want, spends)
	gTotal, gRevoked := updateBreachInfo(got, spends)
	vAssert(gTotal == wTotal && gRevoked == wRevoked && wTotal == 0, "second level: nothing is counted as swept, as in memory")
	vAssert(len(got.breachedOutputs) == first+nHtlc, "second level: every output stays in the reloaded set")
	if len(got.breachedOutputs) != first+nHtlc || len(want.breachedOutputs) != first+nHtlc {
		return
	}
	wantWT := input.HtlcSecondLevelRevoke
	if taproot {
		wantWT = input.TaprootHtlcSecondLevelRevoke
	}
	for k := range src {
		bo := &got.breachedOutputs[first+k]
		vAssert(bo.witnessType == wantWT, "second level (reloaded): witness type is the second-level revoke")
		vAssert(bo.outpoint.Hash == txs[k].TxHash() && bo.outpoint.Index == 0 &&
			c04rSameOut(bo.signDesc.Output, txs[k].TxOut[0]) && int64(bo.amt) == txs[k].TxOut[0].Value,
			"second level (reloaded): points at the cheater's second-level output")
		vAssert(bytes.Equal(bo.signDesc.WitnessScript, src[k].second),
			"second level (reloaded): witness script = the second-level script supplied for THIS output")
		if taproot {
			vAssert(bytes.Equal(bo.signDesc.TapTweak, src[k].tweak[:]),
				"second level (reloaded): tap tweak = the second-level tap tweak supplied for THIS output")
		}
	}
	c04rCompare("second level: reloaded ", want, got)
	vReach("second-level")
}

// VerifC04RetStore1: up to one HTLC. VerifC04RetStore2: up to two.
func VerifC04RetStore1() { c04rRoundTrip(1) }
func VerifC04RetStore2() { c04rRoundTrip(2) }

// ---------------------------------------------------------------------------
// store operations: two channels
// ---------------------------------------------------------------------------

// c04rStoreKey: the on-disk key of a channel in both retribution buckets
// (graphdb.WriteOutpoint: txid || big-endian output index), written out
// independently.
func c04rStoreKey(op *wire.OutPoint) []byte {
	k := append([]byte(nil), op.Hash[:]...)

	return append(k, byte(op.Index>>24), byte(op.Index>>16), byte(op.Index>>8), byte(op.Index))
}

func c04rIsBreached(db *c04kvDB, op *wire.OutPoint) bool {
	breached, err := NewRetributionStore(db).IsBreached(op)
	vAssert(err == nil, "IsBreached does not fail")

	return err == nil && breached
}

// c04rOps: channels A and B (each: their to_local + one HTLC; kind per
// channel), all store operations interleaved, a fresh store object for every
// call (the store has no state besides the database).
func c04rOps(kinds []int) {
	c04rConfig()

	kindA := kinds[vChoice("kindA", len(kinds))]
	kindB := kinds[vChoice("kindB", len(kinds))]
	retA, _ := c04rRetribution("A", kindA, false, true, 1)
	retB, _ := c04rRetribution("B", kindB, false, true, 1)
	var chanA, chanB wire.OutPoint
	copy(chanA.Hash[:], vBytes("fundingTxidA", 32))
	chanA.Index = vU32("fundingIndexA")
	copy(chanB.Hash[:], vBytes("fundingTxidB", 32))
	chanB.Index = vU32("fundingIndexB")
	vAssume(chanA != chanB) // two different channels
	wantA := newRetributionInfo(&chanA, retA)
	wantB := newRetributionInfo(&chanB, retB)
	keyA, keyB := c04rStoreKey(&chanA), c04rStoreKey(&chanB)
	tapA, tapB := 0, 0
	if kindA >= c04rTaproot {
		tapA = 1
	}
	if kindB >= c04rTaproot {
		tapB = 1
	}

	db := c04kvNew()
	vAssert(!c04rIsBreached(db, &chanA), "empty store: channel A is not breached")
	all, err := c04rReload(db)
	vAssert(err == nil && len(all) == 0, "empty store: nothing to reload")

	vAssert(NewRetributionStore(db).Add(wantA) == nil, "A is persisted")
	vAssert(c04rIsBreached(db, &chanA), "after Add(A): A is breached")
	vAssert(!c04rIsBreached(db, &chanB), "after Add(A): B is not breached")

	vAssert(NewRetributionStore(db).Add(wantB) == nil, "B is persisted")
	vAssert(c04rIsBreached(db, &chanA) && c04rIsBreached(db, &chanB), "after Add(A), Add(B): both are breached")
	vAssert(db.count(retributionBucket) == 2 && db.count(taprootRetributionBucket) == tapA+tapB,
		"two channels: one entry each, a taproot entry exactly for taproot channels")
	rawB, rawTapB := db.raw(retributionBucket, keyB), db.raw(taprootRetributionBucket, keyB)
	vAssert(rawB != nil && (rawTapB != nil) == (tapB == 1), "B's entries are stored under B's channel point")

	// ---- restart with both ----
	all, err = c04rReload(db)
	vAssert(err == nil && len(all) == 2, "restart: both retributions are reloaded, each once")
	if err != nil || len(all) != 2 {
		return
	}
	gotA, gotB := all[0], all[1]
	if gotA.chanPoint != chanA {
		gotA, gotB = gotB, gotA
		vReach("b-before-a")
	} else {
		vReach("a-before-b")
	}
	vAssert(gotA.chanPoint == chanA && gotB.chanPoint == chanB, "restart: one retribution per channel point")
	c04rCompare("two channels, A: reloaded ", wantA, gotA)
	c04rCompare("two channels, B: reloaded ", wantB, gotB)

	// ---- A is resolved ----
	vAssert(NewRetributionStore(db).Remove(&chanA) == nil, "Remove(A) succeeds")
	vAssert(!c04rIsBreached(db, &chanA), "after Remove(A): A is no longer breached")
	vAssert(c04rIsBreached(db, &chanB), "after Remove(A): B is still breached")
	vAssert(db.raw(retributionBucket, keyA) == nil, "after Remove(A): A's retribution entry is gone")
	vAssert(db.raw(taprootRetributionBucket, keyA) == nil, "after Remove(A): A's taproot entry is gone")
	vAssert(db.count(retributionBucket) == 1 && db.count(taprootRetributionBucket) == tapB,
		"after Remove(A): exactly B's entries remain")
	vAssert(bytes.Equal(db.raw(retributionBucket, keyB), rawB) && c04rSameBytes(db.raw(taprootRetributionBucket, keyB), rawTapB),
		"after Remove(A): B's entries are untouched")
	all, err = c04rReload(db)
	vAssert(err == nil && len(all) == 1, "after Remove(A): only B is reloaded")
	if err != nil || len(all) != 1 {
		return
	}
	c04rCompare("after Remove(A), B: reloaded ", wantB, all[0])

	// ---- B is resolved ----
	vAssert(NewRetributionStore(db).Remove(&chanB) == nil, "Remove(B) succeeds")
	vAssert(!c04rIsBreached(db, &chanA) && !c04rIsBreached(db, &chanB), "after Remove(A), Remove(B): nothing is breached")
	vAssert(db.count(retributionBucket) == 0 && db.count(taprootRetributionBucket) == 0, "after both removals both buckets are empty")
	all, err = c04rReload(db)
	vAssert(err == nil && len(all) == 0, "after both removals nothing is reloaded")
	if kindA >= c04rTaproot || kindB >= c04rTaproot {
		vReach("taproot")
	}
	if kindA < c04rTaproot || kindB < c04rTaproot {
		vReach("segwit-v0")
	}
	vReach("ops-done")
}

// VerifC04RetStoreOps: anchors / taproot. VerifC04RetStoreOpsAll: all five kinds.
func VerifC04RetStoreOps()    { c04rOps([]int{c04rAnchors, c04rTaproot}) }
func VerifC04RetStoreOpsAll() { c04rOps([]int{c04rLegacy, c04rTweakless, c04rAnchors, c04rTaproot, c04rTapFinal}) }
