package channeldb

import (
	"github.com/lightningnetwork/lnd/chainntnfs"
)

var c14pScript = []byte{0xa9, 0x14, 1, 2, 3, 4, 5, 6, 7, 8, 9, 10, 11, 12, 13, 14, 15, 16, 17, 18, 19, 20, 0x87}

func VerifC14Probe0() {
	vUnwind(300)
	vAssert(len(spendHintBucket) > 0, "x")
}

func VerifC14Probe1() {
	vUnwind(300)
	_, err := chainntnfs.NewConfRequest(nil, c14pScript)
	vAssert(err == nil, "x")
}

func VerifC14Probe2() {
	vUnwind(300)
	vNoop("github.com/btcsuite/btcd/chaincfg/v2.newHashFromStr")
	vNoop("github.com/btcsuite/btcd/chaincfg/v2.CustomSignetParams")
	vNoop("github.com/decred/dcrd/dcrec/secp256k1/v4.hexToFieldVal")
	vNoop("github.com/decred/dcrd/dcrec/secp256k1/v4.hexToModNScalar")
	_, err := chainntnfs.NewConfRequest(nil, c14pScript)
	vAssert(err == nil, "x")
}
