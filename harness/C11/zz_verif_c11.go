package brontide

// Harness for C11: the brontide transport delivers exactly the bytes sent, in
// order, or fails.
//
// Unit (real lnd code, executed symbolically by gosmt):
//   (*cipherState).Encrypt / Decrypt / rotateKey / InitializeKey(WithSalt)
//   (*Machine).WriteMessage / Flush / releaseBuffers / ReadHeader / ReadBody / ReadMessage
//
// Idealised (engine models, /verif/engine/models_c11.go): the ChaCha20-Poly1305
// workers (*chacha20poly1305).seal/.open and HKDF-SHA256 are uninterpreted
// functions; natively (replay) the real primitives run.
//
// Fakes: c11Writer (io.Writer accepting a symbolic number of bytes and
// optionally timing out), c11Sink (io.Writer accepting everything), c11Reader
// (io.Reader delivering the wire image in two segments split at an arbitrary
// position). They sit behind the io interfaces that Flush/Read* already take,
// so native replay runs the same fakes.
//
// The reference ("what BOLT-8 says goes on the wire") is c11RefSeal /
// c11RefHKDF below: it calls the AEAD/HKDF primitives directly with a nonce
// and arguments built independently of cipherState.

import (
	"bytes"
	"crypto/sha256"
	"io"

	"golang.org/x/crypto/chacha20poly1305"
	"golang.org/x/crypto/hkdf"
)

// ---------------------------------------------------------------- reference

// c11RefNonce is the 96-bit nonce of BOLT-8: 32 zero bits followed by the
// 64-bit little-endian counter.
func c11RefNonce(n uint64) []byte {
	nb := make([]byte, 12)
	for i := 0; i < 8; i++ {
		nb[4+i] = byte(n >> (8 * uint(i)))
	}
	return nb
}

// c11RefSeal = ChaCha20-Poly1305(key, nonce(n), ad, pt): ciphertext || tag.
func c11RefSeal(key [32]byte, n uint64, ad, pt []byte) []byte {
	a, err := chacha20poly1305.New(key[:])
	if err != nil {
		panic(err)
	}
	return a.Seal(nil, c11RefNonce(n), pt, ad)
}

// c11RefHKDF = HKDF-SHA256(salt = ck, ikm = k, info = ""), 64 bytes: ck' || k'.
func c11RefHKDF(salt, key [32]byte) (ck, k [32]byte) {
	h := hkdf.New(sha256.New, key[:], salt[:], nil)
	var out [64]byte
	if _, err := io.ReadFull(h, out[:]); err != nil {
		panic(err)
	}
	copy(ck[:], out[:32])
	copy(k[:], out[32:])
	return ck, k
}

// c11CipherKeyed: does c.cipher behave as the AEAD keyed with key? Decided on
// one Seal with an arbitrary nonce and one arbitrary byte.
func c11CipherKeyed(c *cipherState, key [32]byte) bool {
	pn := vBytes("probeNonce", 12)
	pp := vBytes("probePt", 1)
	got := c.cipher.Seal(nil, pn, pp, nil)
	ref, err := chacha20poly1305.New(key[:])
	if err != nil {
		panic(err)
	}
	return bytes.Equal(got, ref.Seal(nil, pn, pp, nil))
}

func c11Arr32(name string) [32]byte {
	var a [32]byte
	copy(a[:], vBytes(name, 32))
	return a
}

func c11Config() {
	vAssumption("cipherState invariant assumed for the pre-state of every step: nonce < 1000 (keyRotationInterval), cipher = ChaCha20-Poly1305 keyed with secretKey (state built by the real InitializeKeyWithSalt), nonceBuffer[0..3] = 0 (never written by any code), nonceBuffer[4..11] arbitrary; the step obligations re-establish it")
	vAssumption("send nonce is even at message boundaries (two Encrypt calls per message starting from 0; the rotation point 1000 is even)")
}

// ---------------------------------------------------------------- (1) nonce discipline

// c11Pre builds an arbitrary cipherState satisfying the invariant.
func c11Pre() (c *cipherState, key, salt [32]byte, n uint64) {
	key = c11Arr32("key")
	salt = c11Arr32("salt")
	c = &cipherState{}
	c.InitializeKeyWithSalt(salt, key)
	n = vU64("nonce")
	// invariant: InitializeKey sets 0; every step keeps nonce < 1000 (asserted
	// in c11CheckStep), so no reachable state has nonce >= 1000.
	vAssume(n < keyRotationInterval)
	c.nonce = n
	// bytes 4..11 hold whatever the previous call left there
	copy(c.nonceBuffer[4:], vBytes("staleNonceBuf", 8))
	return c, key, salt, n
}

// c11CheckStep: the transition relation of one Encrypt/Decrypt on
// (salt, key, nonce) demanded by BOLT-8.
func c11CheckStep(c *cipherState, key, salt [32]byte, n uint64) {
	vAssert(c.nonceBuffer[0] == 0 && c.nonceBuffer[1] == 0 && c.nonceBuffer[2] == 0 && c.nonceBuffer[3] == 0,
		"nonce buffer bytes 0..3 stay zero")
	if n+1 < keyRotationInterval {
		vReach("no-rotate")
		vAssert(c.nonce == n+1, "nonce advances by exactly one")
		vAssert(c.secretKey == key && c.salt == salt, "key and salt unchanged before the rotation point")
		vAssert(c11CipherKeyed(c, key), "AEAD instance still keyed with secretKey")
	} else {
		vReach("rotate")
		ck, k := c11RefHKDF(salt, key)
		vAssert(c.nonce == 0, "nonce restarts at 0 after the 1000th use")
		vAssert(c.salt == ck && c.secretKey == k, "rotation: (salt', key') = HKDF(salt, key)")
		vAssert(c11CipherKeyed(c, k), "AEAD instance re-keyed with the rotated key")
	}
	vAssert(c.nonce < keyRotationInterval, "invariant nonce < 1000 preserved")
	vObserve("nonceAfter", c.nonce)
}

// VerifC11NonceEncrypt: one Encrypt from any invariant state.
func VerifC11NonceEncrypt() {
	c11Config()
	c, key, salt, n := c11Pre()
	pt := vBytes("pt", vChoice("ptLen", 4))
	ad := vBytes("ad", 32*vChoice("adBlocks", 2)) // transport: no AD; handshake: 32-byte digest
	var dst []byte
	if vChoice("dstKind", 2) == 1 {
		dst = make([]byte, 0, 40) // caller-provided buffer, as WriteMessage does
	}
	out := c.Encrypt(ad, dst, pt)
	want := c11RefSeal(key, n, ad, pt)
	vAssert(bytes.Equal(out, want), "Encrypt output = ChaCha20-Poly1305(secretKey, 0^32||LE64(nonce), ad, pt)")
	c11CheckStep(c, key, salt, n)
}

// VerifC11NonceDecrypt: one Decrypt from any invariant state, on the
// ciphertext the peer's Encrypt produces in the same state.
func VerifC11NonceDecrypt() {
	c11Config()
	c, key, salt, n := c11Pre()
	pt := vBytes("pt", vChoice("ptLen", 4))
	ad := vBytes("ad", 32*vChoice("adBlocks", 2))
	ct := c11RefSeal(key, n, ad, pt)
	got, err := c.Decrypt(ad, nil, ct)
	vAssert(err == nil, "Decrypt accepts ChaCha20-Poly1305(secretKey, 0^32||LE64(nonce), ad, pt)")
	vAssert(err != nil || bytes.Equal(got, pt), "Decrypt returns the plaintext")
	c11CheckStep(c, key, salt, n)
}

// ---------------------------------------------------------------- (2) Flush accounting

type c11Err struct{}

func (c11Err) Error() string { return "c11: write timeout" }

// c11Writer accepts an arbitrary number n in [0, len(b)] of bytes per call and
// returns an error if n < len(b) (io.Writer contract) or if it chooses to time
// out after a complete write.
type c11Writer struct {
	got    []byte   // bytes accepted so far
	handed [][]byte // what each call was offered
	acc    []int    // what each call accepted
	failed bool
}

func (w *c11Writer) Write(b []byte) (int, error) {
	// io.Writer: 0 <= n <= len(p); every value is explored (case split, the
	// engine needs concrete slice bounds anyway)
	n := vChoice("w.n", len(b)+1)
	timeout := n == len(b) && vChoice("w.timeout", 2) == 1 // error after a complete write
	w.handed = append(w.handed, append([]byte(nil), b...))
	w.acc = append(w.acc, n)
	w.got = append(w.got, b[:n]...)
	if n < len(b) || timeout {
		w.failed = true
		return n, c11Err{}
	}
	return n, nil
}

// c11Sink accepts everything.
type c11Sink struct{ b []byte }

func (s *c11Sink) Write(b []byte) (int, error) {
	s.b = append(s.b, b...)
	return len(b), nil
}

// c11Sender: a Machine whose send side is in an arbitrary invariant state at a
// message boundary.
func c11Sender() (m *Machine, key, salt [32]byte, n uint64) {
	key = c11Arr32("key")
	salt = c11Arr32("salt")
	m = &Machine{}
	m.sendCipher.InitializeKeyWithSalt(salt, key)
	n = vU64("sendNonce")
	vAssume(n < keyRotationInterval && n&1 == 0)
	m.sendCipher.nonce = n
	return m, key, salt, n
}

// c11Wire: the two frames BOLT-8 prescribes for msg when the send nonce is n
// (n even, so both frames use the same key).
func c11Wire(key [32]byte, n uint64, msg []byte) (hdr, body []byte) {
	var l [2]byte
	l[0] = byte(len(msg) >> 8)
	l[1] = byte(len(msg))
	hdr = c11RefSeal(key, n, nil, l[:])
	body = c11RefSeal(key, n+1, nil, msg)
	return hdr, body
}

func c11Clamp(x, lo, hi int) int {
	if x < lo {
		return lo
	}
	if x > hi {
		return hi
	}
	return x
}

// c11MidFlush puts m (which has just buffered a message whose wire image is
// hdr||body) into the state reached after the writer accepted exactly s0
// bytes: header bytes first, body bytes only after the whole header.
func c11MidFlush(m *Machine, s0 int) {
	h0 := c11Clamp(s0, 0, encHeaderSize)
	m.nextHeaderSend = m.nextHeaderSend[h0:]
	m.nextBodySend = m.nextBodySend[s0-h0:]
}

// VerifC11FlushStep: one Flush call from every reachable mid-flush state with
// every writer behaviour. Summing the per-call equation nn = plain(s1)-plain(s0)
// over consecutive calls telescopes to "sum of returned counts = len(msg)"
// once everything is written.
func VerifC11FlushStep()     { c11FlushStep(4) }
func VerifC11FlushStepDeep() { c11FlushStep(7) }

func c11FlushStep(np int) {
	c11Config()
	m, key, _, n := c11Sender()
	p := vChoice("p", np)
	msg := vBytes("msg", p)
	err := m.WriteMessage(msg)
	vAssert(err == nil, "WriteMessage accepts a message when nothing is pending")
	hdr, body := c11Wire(key, n, msg)
	vAssert(bytes.Equal(m.nextHeaderSend, hdr), "buffered header = Seal(key, nonce, BE16(len))")
	vAssert(bytes.Equal(m.nextBodySend, body), "buffered body = Seal(key, nonce+1, msg)")
	vAssert(m.sendCipher.nonce == n+2 || (n+2 == keyRotationInterval && m.sendCipher.nonce == 0), "a message consumes exactly two nonces")
	wire := append(append([]byte{}, hdr...), body...)
	total := len(wire)
	vAssert(total == encHeaderSize+p+macSize, "wire image is 18 + len + 16 bytes")

	s0 := vChoice("sent", total+1)
	c11MidFlush(m, s0)

	w := &c11Writer{}
	nn, ferr := m.Flush(w)
	s1 := s0 + len(w.got)
	vObserve("s1", s1)
	vObserve("nn", nn)

	// what the writer was offered and what it accepted
	off := s0
	for i, h := range w.handed {
		var exp []byte
		if off < encHeaderSize {
			exp = wire[off:encHeaderSize]
		} else {
			exp = wire[off:]
		}
		vAssert(bytes.Equal(h, exp), "each Write is offered exactly the unsent rest of the current frame")
		off += w.acc[i]
	}
	vAssert(s1 <= total && bytes.Equal(w.got, wire[s0:s1]), "bytes accepted by the writer continue the wire image where it stopped")

	// returned count: payload bytes only
	plain := func(s int) int { return c11Clamp(s-encHeaderSize, 0, p) }
	vAssert(nn == plain(s1)-plain(s0), "Flush returns exactly the number of payload bytes newly accepted (no header, no MAC bytes)")

	released := m.pooledHeaderBuf == nil && m.pooledBodyBuf == nil && m.nextHeaderSend == nil && m.nextBodySend == nil
	if ferr == nil {
		vReach("flush-complete")
		vAssert(!w.failed, "nil only when no Write failed")
		vAssert(s1 == total, "nil only when the whole wire image has been written")
		vAssert(released, "buffers released once everything is written")
		// nothing pending: Flush is a no-op
		w2 := &c11Writer{}
		nn2, ferr2 := m.Flush(w2)
		vAssert(nn2 == 0 && ferr2 == nil && len(w2.handed) == 0, "Flush with nothing pending writes nothing and returns (0, nil)")
	} else {
		vReach("flush-interrupted")
		vAssert(w.failed && ferr == error(c11Err{}), "the writer's error is returned")
		vAssert(!released, "buffers are kept while Flush reports an error")
	}
	if !released {
		h1 := c11Clamp(s1, 0, encHeaderSize)
		vAssert(bytes.Equal(m.nextHeaderSend, wire[h1:encHeaderSize]) && bytes.Equal(m.nextBodySend, wire[encHeaderSize+(s1-h1):]),
			"pending slices are exactly the unsent rest")
	}
	if s1 < total {
		vAssert(!released, "buffers are released only when both are empty")
		// a new message is refused and burns no nonce
		nb := m.sendCipher.nonce
		e2 := m.WriteMessage(vBytes("msg2", 1))
		vAssert(e2 == ErrMessageNotFlushed, "WriteMessage refuses while anything is unflushed")
		vAssert(m.sendCipher.nonce == nb, "a refused WriteMessage consumes no nonce")
		h1 := c11Clamp(s1, 0, encHeaderSize)
		vAssert(bytes.Equal(m.nextHeaderSend, wire[h1:encHeaderSize]) && bytes.Equal(m.nextBodySend, wire[encHeaderSize+(s1-h1):]),
			"a refused WriteMessage leaves the pending message intact")
	}
}

// VerifC11FlushSum*: end to end, `calls` consecutive Flush calls after one
// WriteMessage; the direct statement of "sum of counts = len(msg)".
func VerifC11FlushSum2() { c11FlushSum(4, 2) }
func VerifC11FlushSum3() { c11FlushSum(7, 3) }
func VerifC11FlushSum4() { c11FlushSum(7, 4) }

func c11FlushSum(np, calls int) {
	c11Config()
	m, key, _, n := c11Sender()
	p := vChoice("p", np)
	msg := vBytes("msg", p)
	err := m.WriteMessage(msg)
	vAssert(err == nil, "WriteMessage accepts a message when nothing is pending")
	hdr, body := c11Wire(key, n, msg)
	wire := append(append([]byte{}, hdr...), body...)
	w := &c11Writer{}
	sum := 0
	done := false
	for i := 0; i < calls && !done; i++ {
		nn, ferr := m.Flush(w)
		vAssert(nn >= 0, "count never negative")
		sum += nn
		vAssert(sum <= p, "running sum never exceeds the payload length")
		vAssert(len(w.got) <= len(wire) && bytes.Equal(w.got, wire[:len(w.got)]), "writer has received a prefix of header||body")
		if ferr == nil {
			done = true
		}
	}
	vObserve("sum", sum)
	if done {
		vReach("sum-complete")
		vAssert(bytes.Equal(w.got, wire), "after a nil return the writer has received exactly header||body")
		vAssert(sum == p, "sum of returned counts = payload length")
		// the next message is accepted
		e2 := m.WriteMessage(vBytes("msg2", 1))
		vAssert(e2 == nil, "next message accepted after a complete flush")
	} else {
		vReach("sum-incomplete")
		vAssert(sum == c11Clamp(len(w.got)-encHeaderSize, 0, p), "partial sum = payload bytes delivered so far")
	}
}

// VerifC11WriteLimits: length limit of WriteMessage: 65536 bytes are refused
// without side effect; 65535 bytes (first and last byte arbitrary, the rest
// zero) are accepted, framed with length 0xffff and read back identical.
func VerifC11WriteLimits() {
	c11Config()
	m, key, salt, n := c11Sender()
	big := make([]byte, 65536)
	err := m.WriteMessage(big)
	vAssert(err == ErrMaxMessageLengthExceeded, "WriteMessage refuses 65536 bytes")
	vAssert(m.sendCipher.nonce == n && m.nextHeaderSend == nil && m.nextBodySend == nil, "a refused oversize message changes nothing")
	vReach("oversize-refused")

	max := big[:65535]
	max[0], max[65534] = vU8("first"), vU8("last")
	wire := c11Send(m, max)
	hdr, body := c11Wire(key, n, max)
	vAssert(len(wire) == encHeaderSize+65535+macSize && bytes.Equal(wire[:encHeaderSize], hdr) && bytes.Equal(wire[encHeaderSize:], body),
		"65535-byte message: wire image = Seal(0xffff) || Seal(msg)")
	r := c11Receiver(key, salt, n)
	got, rerr := r.ReadMessage(&c11Reader{data: wire})
	vAssert(rerr == nil && bytes.Equal(got, max), "65535-byte message is read back identical")
	vReach("max-size-ok")
}

// ---------------------------------------------------------------- (3) read side

// c11Reader delivers data, never letting one Read cross position split
// (the stream arrives in two segments), then io.EOF.
type c11Reader struct {
	data  []byte
	pos   int
	split int
}

func (r *c11Reader) Read(b []byte) (int, error) {
	if r.pos >= len(r.data) {
		return 0, io.EOF
	}
	if len(b) == 0 {
		return 0, nil
	}
	end := len(r.data)
	if r.pos < r.split && r.split < end {
		end = r.split
	}
	n := copy(b, r.data[r.pos:end])
	r.pos += n
	return n, nil
}

// c11Receiver: the peer's receive side in lock-step with the sender.
func c11Receiver(key, salt [32]byte, n uint64) *Machine {
	r := &Machine{}
	r.recvCipher.InitializeKeyWithSalt(salt, key)
	r.recvCipher.nonce = n
	return r
}

func c11Send(m *Machine, msg []byte) []byte {
	err := m.WriteMessage(msg)
	vAssert(err == nil, "WriteMessage accepts a message when nothing is pending")
	s := &c11Sink{}
	_, ferr := m.Flush(s)
	vAssert(ferr == nil, "Flush to a writer that accepts everything succeeds")
	return s.b
}

// VerifC11ReadOK: two messages written back to back (possibly across the key
// rotation) are read identical and in order from a stream split anywhere; the
// receiver's cipher state stays equal to the sender's.
func VerifC11ReadOK()     { c11ReadOK(3) }
func VerifC11ReadOKDeep() { c11ReadOK(7) }

func c11ReadOK(np int) {
	c11Config()
	s, key, salt, n := c11Sender()
	r := c11Receiver(key, salt, n)
	p1 := vChoice("p1", np)
	p2 := vChoice("p2", np)
	m1 := vBytes("m1", p1)
	m2 := vBytes("m2", p2)
	wire := append(append([]byte{}, c11Send(s, m1)...), c11Send(s, m2)...)
	vAssert(len(wire) == 2*(encHeaderSize+macSize)+p1+p2, "two frames pairs on the wire")
	rd := &c11Reader{data: wire, split: vChoice("split", len(wire)+1)}
	g1, e1 := r.ReadMessage(rd)
	vAssert(e1 == nil && bytes.Equal(g1, m1), "first message read identical")
	g2, e2 := r.ReadMessage(rd)
	vAssert(e2 == nil && bytes.Equal(g2, m2), "second message read identical, in order")
	vAssert(rd.pos == len(wire), "the reader consumed exactly the two messages")
	vAssert(r.recvCipher.nonce == s.sendCipher.nonce && r.recvCipher.secretKey == s.sendCipher.secretKey && r.recvCipher.salt == s.sendCipher.salt,
		"receiver key schedule stays in lock-step with the sender")
	if n >= keyRotationInterval-4 {
		vReach("read-across-rotation")
	} else {
		vReach("read-ok")
	}
	_, e3 := r.ReadMessage(rd)
	vAssert(e3 != nil, "reading past the end of the stream fails")
}

const (
	c11HdrCt = iota
	c11HdrTag
	c11BodyCt
	c11BodyTag
	c11Truncate
	c11Replay
	c11Reorder
	c11Splice
	c11Reflect
	c11Desync
	c11Kinds
)

func c11NonZero(b []byte) bool {
	var acc byte
	for _, x := range b {
		acc |= x
	}
	return acc != 0
}

func c11Xor(dst, mask []byte) {
	for i := range mask {
		dst[i] ^= mask[i]
	}
}

// VerifC11ReadTamper: every listed manipulation of the ciphertext stream makes
// the read fail and yield no data.
func VerifC11ReadTamper()     { c11ReadTamper(3) }
func VerifC11ReadTamperDeep() { c11ReadTamper(7) }

func c11ReadTamper(np int) {
	c11Config()
	vInjective("aeadmac")
	vAssumption("Poly1305 tag idealised as a collision-free function of (key, nonce, ad, ciphertext); an attacker changing both ciphertext and tag of the same frame consistently (i.e. forging) is outside")
	s, key, salt, n := c11Sender()
	r := c11Receiver(key, salt, n)
	p := vChoice("p", np)
	msg := vBytes("msg", p)
	wire := c11Send(s, msg)
	total := len(wire)
	bodyAt := encHeaderSize
	kind := vChoice("kind", c11Kinds)
	in := append([]byte{}, wire...)
	switch kind {
	case c11HdrCt:
		mask := vBytes("mask", lengthHeaderSize)
		vAssume(c11NonZero(mask))
		c11Xor(in[0:], mask)
	case c11HdrTag:
		mask := vBytes("mask", macSize)
		vAssume(c11NonZero(mask))
		c11Xor(in[lengthHeaderSize:], mask)
	case c11BodyCt:
		vAssume(p > 0)
		mask := vBytes("mask", p)
		vAssume(c11NonZero(mask))
		c11Xor(in[bodyAt:], mask)
	case c11BodyTag:
		mask := vBytes("mask", macSize)
		vAssume(c11NonZero(mask))
		c11Xor(in[bodyAt+p:], mask)
	case c11Truncate:
		in = in[:vChoice("cut", total)]
	case c11Replay:
		in = append(in, wire...)
	case c11Reorder:
		msgB := vBytes("msgB", vChoice("pB", 3))
		wireB := c11Send(s, msgB)
		in = append(append([]byte{}, wireB...), wire...)
	case c11Splice:
		// header of this message followed by the body of the next one (same length)
		wireB := c11Send(s, vBytes("msgB", p))
		in = append(append([]byte{}, wire[:bodyAt]...), wireB[bodyAt:]...)
	case c11Reflect:
		// the sender's own ciphertext comes back on its receive side, which
		// uses the other direction's key
		keyR := c11Arr32("keyR")
		vAssume(keyR != key) // the two directions' keys are distinct HKDF outputs
		nr := vU64("recvNonce")
		vAssume(nr < keyRotationInterval && nr&1 == 0)
		r = c11Receiver(keyR, c11Arr32("saltR"), nr)
	case c11Desync:
		// receiver at any other position of the same key epoch (earlier
		// message replayed later, message dropped, ...)
		nr := vU64("recvNonce")
		vAssume(nr < keyRotationInterval && nr&1 == 0 && nr != n)
		r = c11Receiver(key, salt, nr)
	}
	rd := &c11Reader{data: in, split: vChoice("split", 3) * 9}
	got, err := r.ReadMessage(rd)
	switch kind {
	case c11Replay:
		vAssert(err == nil && bytes.Equal(got, msg), "first copy is read")
		got, err = r.ReadMessage(rd)
		vAssert(err != nil && got == nil, "replayed message is rejected")
		vReach("reject-replay")
	default:
		vAssert(err != nil, "manipulated stream: read fails")
		vAssert(got == nil, "manipulated stream: no data is returned")
		switch kind {
		case c11HdrCt:
			vReach("reject-hdr-ct")
		case c11HdrTag:
			vReach("reject-hdr-tag")
		case c11BodyCt:
			vReach("reject-body-ct")
		case c11BodyTag:
			vReach("reject-body-tag")
		case c11Truncate:
			vReach("reject-truncated")
		case c11Reorder:
			vReach("reject-reorder")
		case c11Splice:
			vReach("reject-splice")
		case c11Reflect:
			vReach("reject-reflect")
		case c11Desync:
			vReach("reject-desync")
		}
	}
	if kind == c11HdrCt || kind == c11HdrTag {
		// ReadHeader on its own: error, and no length
		r2 := c11Receiver(key, salt, n)
		l, herr := r2.ReadHeader(&c11Reader{data: in})
		vAssert(herr != nil && l == 0, "ReadHeader propagates the authentication error and returns no length")
	}
}
