package brontide

// Harness for C11, DESIGN item 4: the handshake, its end (split) and what
// follows from it for the two transport directions.
//
// Unit (real lnd code, executed symbolically by gosmt):
//   (*Machine).split, (*symmetricState).mixKey (last key-mixing step before split),
//   (*cipherState).InitializeKeyWithSalt / InitializeKey / Encrypt / Decrypt / rotateKey,
//   (*Machine).WriteMessage / Flush / ReadMessage on the cipher states split() produced;
//   for the three acts: NewBrontideMachine, newHandshakeState, EphemeralGenerator,
//   GenActOne/Two/Three, RecvActOne/Two/Three, symmetricState.{InitializeSymmetric,
//   mixKey, mixHash, EncryptAndHash, DecryptAndHash}, ecdh, keychain.PrivKeyECDH.{ECDH, PubKey}.
//
// Idealised (engine models, /verif/engine/models_c11.go, models_c11b.go):
// ChaCha20-Poly1305, HKDF-SHA256, SHA-256 as uninterpreted functions; secp256k1
// scalars/points opaque with a*(b*G) = b*(a*G) by construction (ECDH
// commutative), point serialisation an uninterpreted function. Natively
// (replay) the real primitives and the real curve run.
//
// This file is self-contained (own reference functions, prefix c11s) and is
// registered as a unit of its own, so that it is compiled without
// zz_verif_c11.go. The obligations are phrased on OBSERVABLE behaviour - the
// ciphertext a side produces, what the peer's ReadMessage/Decrypt accepts -
// and not on the Go representation of cipherState.{secretKey,salt}: the salt
// of a direction is observed through the key the NEXT rotation produces. The
// only internal field touched is the message counter `nonce` (set to 998/999
// to fast-forward to the rotation point, justified by the inductive step
// entries VerifC11NonceEncrypt/Decrypt) and chainingKey (input of split).
//
// Reference (BOLT-8, independent of cipherState):
//   (k1, k2)  = HKDF-SHA256(salt = ck, ikm = "")          initiator: sk = k1, rk = k2
//                                                          responder: rk = k1, sk = k2
//   each direction carries its OWN chaining key, initially ck:
//   (ck', k') = HKDF-SHA256(salt = ck_dir, ikm = k)       after the 1000th use of k
//   nonce(n)  = 0^32 || LE64(n),  frame = ChaCha20-Poly1305(k, nonce(n), "", pt)

import (
	"bytes"
	"crypto/sha256"
	"io"

	"github.com/btcsuite/btcd/btcec/v2"
	"github.com/lightningnetwork/lnd/keychain"
	"golang.org/x/crypto/chacha20poly1305"
	"golang.org/x/crypto/hkdf"
)

// ---------------------------------------------------------------- reference

func c11sNonce(n uint64) []byte {
	nb := make([]byte, 12)
	for i := 0; i < 8; i++ {
		nb[4+i] = byte(n >> (8 * uint(i)))
	}
	return nb
}

func c11sSeal(key [32]byte, n uint64, ad, pt []byte) []byte {
	a, err := chacha20poly1305.New(key[:])
	if err != nil {
		panic(err)
	}
	return a.Seal(nil, c11sNonce(n), pt, ad)
}

// c11sHKDF: first two 32-byte blocks of HKDF-SHA256(salt, ikm, info = "").
func c11sHKDF(salt [32]byte, ikm []byte) (a, b [32]byte) {
	h := hkdf.New(sha256.New, ikm, salt[:], nil)
	var out [64]byte
	if _, err := io.ReadFull(h, out[:]); err != nil {
		panic(err)
	}
	copy(a[:], out[:32])
	copy(b[:], out[32:])
	return a, b
}

// c11sSched is the reference key schedule of ONE direction.
type c11sSched struct {
	ck  [32]byte // this direction's chaining key ("salt")
	key [32]byte
}

func (s c11sSched) rotate() c11sSched {
	ck, k := c11sHKDF(s.ck, s.key[:])
	return c11sSched{ck: ck, key: k}
}

// c11sSplitRef: the two directions after the handshake.
func c11sSplitRef(ck [32]byte) (i2r, r2i c11sSched) {
	k1, k2 := c11sHKDF(ck, nil)
	return c11sSched{ck: ck, key: k1}, c11sSched{ck: ck, key: k2}
}

// c11sWire: header frame || body frame of msg when the direction's counter is n
// (n even and < 999, so both frames use the same key).
func c11sWire(key [32]byte, n uint64, msg []byte) []byte {
	var l [2]byte
	l[0] = byte(len(msg) >> 8)
	l[1] = byte(len(msg))
	return append(c11sSeal(key, n, nil, l[:]), c11sSeal(key, n+1, nil, msg)...)
}

func c11sArr32(name string) [32]byte {
	var a [32]byte
	copy(a[:], vBytes(name, 32))
	return a
}

// c11sPipe is one direction of the connection: an unbounded FIFO of bytes
// behind io.Writer (Flush) and io.Reader (ReadMessage).
type c11sPipe struct{ b []byte }

func (p *c11sPipe) Write(x []byte) (int, error) {
	p.b = append(p.b, x...)
	return len(x), nil
}

func (p *c11sPipe) Read(x []byte) (int, error) {
	if len(p.b) == 0 {
		return 0, io.EOF
	}
	n := copy(x, p.b)
	p.b = p.b[n:]
	return n, nil
}

func c11sConfig() {
	vAssumption("fast-forward: a direction's message counter is set to 998 (999 for a bare Encrypt/Decrypt) instead of sending 499 messages; that the 998 skipped uses leave key and salt unchanged is the inductive step proved by VerifC11NonceEncrypt/Decrypt")
	vAssumption("pre-state of split(): chaining key, handshake digest, temp key arbitrary (32 symbolic bytes each); handshake cipher keyed with the temp key")
}

// c11sMachine: a Machine at the point where the last act has been processed
// and split() is about to be called: arbitrary chaining key ck, arbitrary
// handshake leftovers.
func c11sMachine(tag string, initiator bool, ck [32]byte) *Machine {
	m := &Machine{}
	m.initiator = initiator
	tk := c11sArr32(tag + ".tempKey")
	copy(m.handshakeDigest[:], vBytes(tag+".digest", 32))
	copy(m.tempKey[:], tk[:])
	m.InitializeKey(tk) // the handshake cipher (embedded cipherState), as mixKey leaves it
	copy(m.chainingKey[:], ck[:])
	return m
}

// c11sSendTo: the side writes msg and flushes it completely into w.
func c11sSendTo(m *Machine, w io.Writer, msg []byte) {
	err := m.WriteMessage(msg)
	vAssert(err == nil, "WriteMessage accepts a message when nothing is pending")
	nn, ferr := m.Flush(w)
	vAssert(ferr == nil && nn == len(msg), "Flush to a writer that accepts everything succeeds")
}

func c11sSend(m *Machine, msg []byte) []byte {
	p := &c11sPipe{}
	c11sSendTo(m, p, msg)
	return p.b
}

// ---------------------------------------------------------------- (4a) split

// VerifC11Split: split() on one Machine. Both ciphers start at counter 0 with
// the BOLT-8 key of their direction and with salt = chaining key (seen in the
// key after the first rotation), for the initiator and the responder; the
// chaining key itself is not modified by split or by later rotations.
func VerifC11Split() {
	c11sConfig()
	initiator := vChoice("role", 2) == 0
	var ck [32]byte
	var m *Machine
	if vChoice("pre", 2) == 0 {
		ck = c11sArr32("ck")
		m = c11sMachine("m", initiator, ck)
	} else {
		// one step earlier: the final mixKey(se) of act three, then split
		ck0 := c11sArr32("ck0")
		se := vBytes("se", 32)
		m = c11sMachine("m", initiator, ck0)
		m.mixKey(se)
		ck, _ = c11sHKDF(ck0, se)
		vReach("split-after-mixkey")
	}
	m.split()

	i2r, r2i := c11sSplitRef(ck)
	send, recv := i2r, r2i
	if !initiator {
		send, recv = r2i, i2r
	}
	pt := vBytes("pt", 1)

	// send direction: key and counter 0 ...
	out := m.sendCipher.Encrypt(nil, nil, pt)
	vAssert(bytes.Equal(out, c11sSeal(send.key, 0, nil, pt)),
		"split: first send frame = AEAD(HKDF(ck,'').{1 initiator, 2 responder}, nonce 0)")
	out = m.sendCipher.Encrypt(nil, nil, pt)
	vAssert(bytes.Equal(out, c11sSeal(send.key, 1, nil, pt)), "split: second send frame uses nonce 1")
	// ... and salt = ck: fast-forward to the rotation
	m.sendCipher.nonce = keyRotationInterval - 1
	out = m.sendCipher.Encrypt(nil, nil, pt)
	vAssert(bytes.Equal(out, c11sSeal(send.key, keyRotationInterval-1, nil, pt)), "split: 1000th send frame still under the first key")
	send1 := send.rotate()
	out = m.sendCipher.Encrypt(nil, nil, pt)
	vAssert(bytes.Equal(out, c11sSeal(send1.key, 0, nil, pt)),
		"split: send salt = chaining key (first rotated send key = HKDF(ck, k).2, nonce 0)")

	// receive direction, AFTER the send direction has rotated
	got, err := m.recvCipher.Decrypt(nil, nil, c11sSeal(recv.key, 0, nil, pt))
	vAssert(err == nil && bytes.Equal(got, pt),
		"split: receive side accepts AEAD(HKDF(ck,'').{2 initiator, 1 responder}, nonce 0)")
	got, err = m.recvCipher.Decrypt(nil, nil, c11sSeal(recv.key, 1, nil, pt))
	vAssert(err == nil && bytes.Equal(got, pt), "split: second received frame uses nonce 1")
	m.recvCipher.nonce = keyRotationInterval - 1
	got, err = m.recvCipher.Decrypt(nil, nil, c11sSeal(recv.key, keyRotationInterval-1, nil, pt))
	vAssert(err == nil && bytes.Equal(got, pt), "split: 1000th received frame still under the first key")
	recv1 := recv.rotate()
	got, err = m.recvCipher.Decrypt(nil, nil, c11sSeal(recv1.key, 0, nil, pt))
	vAssert(err == nil && bytes.Equal(got, pt),
		"split: receive salt = chaining key (first rotated receive key = HKDF(ck, k).2), unaffected by the send rotation")

	vAssert(bytes.Equal(m.chainingKey[:], ck[:]), "handshake chaining key is not modified by split or by transport key rotation")
	if initiator {
		vReach("split-initiator")
	} else {
		vReach("split-responder")
	}
}

// VerifC11SplitPair: initiator and responder split from the same chaining key:
// the first transport message of either side (counter 0) is read identical by
// the other; a side's own ciphertext reflected to its receive side is rejected.
func VerifC11SplitPair() {
	c11sConfig()
	vInjective("aeadmac")
	vInjective("hkdfE")
	vAssumption("reflection check only: HKDF output blocks and Poly1305 tags idealised as collision-free (k1 != k2, tags under different keys differ)")
	ck := c11sArr32("ck")
	ini := c11sMachine("I", true, ck)
	res := c11sMachine("R", false, ck)
	ini.split()
	res.split()
	p := vChoice("p", 3)
	mi := vBytes("msgI", p)
	mr := vBytes("msgR", p)
	i2r, r2i := &c11sPipe{}, &c11sPipe{}
	c11sSendTo(ini, i2r, mi)
	c11sSendTo(res, r2i, mr)
	wi := append([]byte{}, i2r.b...)
	wr := append([]byte{}, r2i.b...)
	got, err := res.ReadMessage(i2r)
	vAssert(err == nil && bytes.Equal(got, mi), "after split: responder reads the initiator's first message identical (init.send = resp.recv)")
	got, err = ini.ReadMessage(r2i)
	vAssert(err == nil && bytes.Equal(got, mr), "after split: initiator reads the responder's first message identical (resp.send = init.recv)")
	vAssert(len(i2r.b) == 0 && len(r2i.b) == 0, "exactly the message bytes are consumed")
	// second message in each direction (counters 2,3 on both ends)
	c11sSendTo(ini, i2r, mr)
	got, err = res.ReadMessage(i2r)
	vAssert(err == nil && bytes.Equal(got, mr), "after split: second message initiator->responder read identical")
	// reflection: fresh pair, each side is handed its own ciphertext
	ini2 := c11sMachine("I", true, ck)
	res2 := c11sMachine("R", false, ck)
	ini2.split()
	res2.split()
	got, err = ini2.ReadMessage(&c11sPipe{b: wi})
	vAssert(err != nil && got == nil, "initiator's own ciphertext reflected to it is rejected (send key != receive key)")
	got, err = res2.ReadMessage(&c11sPipe{b: wr})
	vAssert(err != nil && got == nil, "responder's own ciphertext reflected to it is rejected")
	vReach("pair-ok")
}

// ---------------------------------------------------------------- (4b) independence of the directions across rotation

// c11sOrders: all sequences with k sends (true) and k receives (false).
func c11sOrders(k int) [][]bool {
	var out [][]bool
	var rec func(cur []bool, s, r int)
	rec = func(cur []bool, s, r int) {
		if s == 0 && r == 0 {
			out = append(out, append([]bool(nil), cur...))
			return
		}
		if s > 0 {
			rec(append(cur, true), s-1, r)
		}
		if r > 0 {
			rec(append(cur, false), s, r-1)
		}
	}
	rec(nil, k, k)
	return out
}

// VerifC11SplitIndep: ONE side after split(); its send and receive directions
// go through `rot` rotations each, in every interleaving. Every frame sent is
// exactly the frame of the reference schedule of that direction, every frame
// of the reference schedule of the other direction is accepted - i.e. a
// rotation of one direction changes neither key nor salt of the other, and
// each direction's salt evolves as HKDF of the ORIGINAL chaining key says.
func VerifC11SplitIndep()     { c11sIndep(2, 2) }
func VerifC11SplitIndepDeep() { c11sIndep(4, 4) }

func c11sIndep(rot, np int) {
	c11sConfig()
	initiator := vChoice("role", 2) == 0
	ck := c11sArr32("ck")
	m := c11sMachine("m", initiator, ck)
	m.split()
	i2r, r2i := c11sSplitRef(ck)
	send, recv := i2r, r2i
	if !initiator {
		send, recv = r2i, i2r
	}
	orders := c11sOrders(rot)
	order := orders[vChoice("order", len(orders))]
	p := vChoice("p", np)

	doSend := func(n uint64, what string) {
		msg := vBytes("msgS", p)
		wire := c11sSend(m, msg)
		vAssert(bytes.Equal(wire, c11sWire(send.key, n, msg)), what)
	}
	doRecv := func(n uint64, what string) {
		msg := vBytes("msgR", p)
		got, err := m.ReadMessage(&c11sPipe{b: c11sWire(recv.key, n, msg)})
		vAssert(err == nil && bytes.Equal(got, msg), what)
	}
	for _, isSend := range order {
		if isSend {
			m.sendCipher.nonce = keyRotationInterval - 2
			doSend(keyRotationInterval-2, "message 499 of a send epoch = frames of the reference schedule (key, salt untouched by rotations of the receive direction)")
			send = send.rotate()
		} else {
			m.recvCipher.nonce = keyRotationInterval - 2
			doRecv(keyRotationInterval-2, "message 499 of a receive epoch of the reference schedule is accepted (key, salt untouched by rotations of the send direction)")
			recv = recv.rotate()
		}
	}
	// the state after the last rotation of each direction: key now, and salt
	// through one more rotation
	doSend(0, "first message after the last send rotation = reference")
	doRecv(0, "first message after the last receive rotation is accepted")
	m.sendCipher.nonce = keyRotationInterval - 2
	doSend(keyRotationInterval-2, "send: last message of the epoch = reference")
	send = send.rotate()
	m.recvCipher.nonce = keyRotationInterval - 2
	doRecv(keyRotationInterval-2, "receive: last message of the epoch accepted")
	recv = recv.rotate()
	doSend(0, "send salt after all rotations = reference (seen in the next key)")
	doRecv(0, "receive salt after all rotations = reference (seen in the next key)")
	vAssert(bytes.Equal(m.chainingKey[:], ck[:]), "handshake chaining key is not modified by transport key rotation")
	vReach("indep-done")
}

// VerifC11SplitLockstep: initiator and responder split from the same chaining
// key and exchange real messages over two FIFO pipes. Each side performs its
// `rot` send-rotations and `rot` receive-rotations in an order of its own
// (all pairs of orders; pairs no causal history can produce - a side would
// have to read a message not yet written - end without obligation). Purely
// behavioural: every message is read identical by the peer, whatever the
// interleaving, and afterwards both directions still work, including one
// further rotation.
func VerifC11SplitLockstep()     { c11sLockstep(2, 2) }
func VerifC11SplitLockstepDeep() { c11sLockstep(4, 2) }

type c11sSide struct {
	m     *Machine
	out   *c11sPipe // this side writes here
	in    *c11sPipe // and reads here
	order []bool
	pos   int
	sent  [][]byte // plaintexts written, in order
	nread int
}

func c11sLockstep(rot, np int) {
	c11sConfig()
	ck := c11sArr32("ck")
	a := &c11sSide{m: c11sMachine("I", true, ck)}
	b := &c11sSide{m: c11sMachine("R", false, ck)}
	a.m.split()
	b.m.split()
	a.out, b.out = &c11sPipe{}, &c11sPipe{}
	a.in, b.in = b.out, a.out
	orders := c11sOrders(rot)
	a.order = orders[vChoice("orderI", len(orders))]
	b.order = orders[vChoice("orderR", len(orders))]
	p := vChoice("p", np)

	send := func(s *c11sSide) {
		msg := vBytes("msg", p)
		c11sSendTo(s.m, s.out, msg)
		s.sent = append(s.sent, msg)
	}
	recv := func(s, peer *c11sSide, what string) {
		got, err := s.m.ReadMessage(s.in)
		vAssert(err == nil && bytes.Equal(got, peer.sent[s.nread]), what)
		s.nread++
	}
	// one step of side s: the last message of the current epoch of one of its directions
	step := func(s, peer *c11sSide) bool {
		if s.pos == len(s.order) {
			return false
		}
		if s.order[s.pos] {
			s.m.sendCipher.nonce = keyRotationInterval - 2
			send(s)
		} else {
			if len(s.in.b) == 0 {
				return false // nothing written yet by the peer
			}
			s.m.recvCipher.nonce = keyRotationInterval - 2
			recv(s, peer, "epoch-closing message is read identical by the peer whatever the order of the rotations on either side")
		}
		s.pos++
		return true
	}
	for step(a, b) || step(b, a) {
	}
	if a.pos < len(a.order) || b.pos < len(b.order) {
		vReach("lockstep-order-pair-causally-impossible")
		return
	}
	vAssert(len(a.in.b) == 0 && len(b.in.b) == 0, "all written bytes were consumed")
	// both directions after all rotations: first message of the new epoch, the
	// epoch-closing message (rotation no rot+1), first message after it
	for r := 0; r < 3; r++ {
		if r == 1 {
			a.m.sendCipher.nonce = keyRotationInterval - 2
			b.m.recvCipher.nonce = keyRotationInterval - 2
			b.m.sendCipher.nonce = keyRotationInterval - 2
			a.m.recvCipher.nonce = keyRotationInterval - 2
		}
		send(a)
		recv(b, a, "after all rotations: initiator->responder message read identical (keys and salts of both ends agree)")
		send(b)
		recv(a, b, "after all rotations: responder->initiator message read identical (keys and salts of both ends agree)")
	}
	vReach("lockstep-done")
}

// ---------------------------------------------------------------- (4c) the three acts

// c11sKey: a secp256k1 key pair from 32 symbolic bytes. Symbolically (engine
// model models_c11b.go) scalars and points are opaque and a*(b*G) = b*(a*G)
// holds by construction; natively the real curve code runs.
type c11sKey struct {
	raw  []byte
	priv *btcec.PrivateKey
	pub  *btcec.PublicKey
	ser  []byte
}

func c11sNonZero(b []byte) bool {
	var acc byte
	for _, x := range b {
		acc |= x
	}
	return acc != 0
}

func c11sNewKey(name string) c11sKey {
	b := vBytes(name, 32)
	// a private key is a value in [1, N-1]; N = 0xFFFFFFFF FFFFFFFF FFFFFFFF FFFFFFFE BAAE...,
	// so "first byte < 0xff" is a simple sufficient condition for < N
	vAssume(c11sNonZero(b) && b[0] != 0xff)
	priv, pub := btcec.PrivKeyFromBytes(b)
	return c11sKey{raw: b, priv: priv, pub: pub, ser: pub.SerializeCompressed()}
}

// c11sDH: BOLT-8 ECDH(k, rk) = SHA256(compressed(k * rk)), written against btcec.
func c11sDH(priv *btcec.PrivateKey, pub *btcec.PublicKey) []byte {
	var pj, r btcec.JacobianPoint
	pub.AsJacobian(&pj)
	btcec.ScalarMultNonConst(&priv.Key, &pj, &r)
	r.ToAffine()
	h := sha256.Sum256(btcec.NewPublicKey(&r.X, &r.Y).SerializeCompressed())
	return h[:]
}

func c11sMixHash(h [32]byte, data []byte) [32]byte {
	return sha256.Sum256(append(append([]byte{}, h[:]...), data...))
}

// c11sTranscript: the three acts and the final chaining key as BOLT-8 section
// "Handshake Exchange" prescribes them for initiator (is, ie) targeting the
// serialised responder key target, responder (rs, re). Every ECDH is computed
// from the OTHER party's private key than the code that produces the act uses.
type c11sTranscript struct {
	act1, act2 [50]byte
	act3       [66]byte
	ck         [32]byte
}

func c11sHandshakeRef(is, ie, rs, re c11sKey) (t c11sTranscript) {
	h := sha256.Sum256([]byte("Noise_XK_secp256k1_ChaChaPoly_SHA256"))
	ck := h
	h = c11sMixHash(h, []byte("lightning"))
	h = c11sMixHash(h, rs.ser)
	// act one: -> e, es
	h = c11sMixHash(h, ie.ser)
	ck, k := c11sHKDF(ck, c11sDH(rs.priv, ie.pub))
	c := c11sSeal(k, 0, h[:], nil)
	h = c11sMixHash(h, c)
	copy(t.act1[1:34], ie.ser)
	copy(t.act1[34:], c)
	// act two: <- e, ee
	h = c11sMixHash(h, re.ser)
	ck, k = c11sHKDF(ck, c11sDH(ie.priv, re.pub))
	c = c11sSeal(k, 0, h[:], nil)
	h = c11sMixHash(h, c)
	copy(t.act2[1:34], re.ser)
	copy(t.act2[34:], c)
	// act three: -> s, se
	c = c11sSeal(k, 1, h[:], is.ser)
	h = c11sMixHash(h, c)
	ck, k = c11sHKDF(ck, c11sDH(re.priv, is.pub))
	tag := c11sSeal(k, 0, h[:], nil)
	copy(t.act3[1:50], c)
	copy(t.act3[50:], tag)
	t.ck = ck
	return t
}

const (
	c11sHonest = iota
	c11sWrongStatic
	c11sAct1Version
	c11sAct1Tag
	c11sAct2Version
	c11sAct2Tag
	c11sAct3Version
	c11sAct3Key
	c11sAct3KeyTag
	c11sAct3Tag
	c11sScenarios
)

func c11sMask(dst []byte, n int) {
	mask := vBytes("mask", n)
	vAssume(c11sNonZero(mask))
	for i := range mask {
		dst[i] ^= mask[i]
	}
}

// VerifC11Handshake: two real Machines (NewBrontideMachine) with symbolic
// static and ephemeral keys run GenActOne .. RecvActThree against each other.
func VerifC11Handshake() {
	c11sConfig()
	vInjective("aeadmac")
	vInjective("sha256")
	vInjective("pubser")
	vAssumption("Poly1305 tag, SHA-256 and point serialisation idealised as collision-free (needed for the failing scenarios only)")
	vAssumption("private keys: any 32 bytes, not all zero, first byte != 0xff (a sufficient condition for a value in [1, N-1])")
	scen := vChoice("scenario", c11sScenarios)
	is, ie := c11sNewKey("initStatic"), c11sNewKey("initEphemeral")
	rs, re := c11sNewKey("respStatic"), c11sNewKey("respEphemeral")
	target := rs
	if scen == c11sWrongStatic {
		// the initiator targets some other valid key x*G, x != responder's static key
		target = c11sNewKey("targetStatic")
		vAssume(!bytes.Equal(target.raw, rs.raw))
	}
	ini := NewBrontideMachine(true, &keychain.PrivKeyECDH{PrivKey: is.priv}, target.pub,
		EphemeralGenerator(func() (*btcec.PrivateKey, error) { return ie.priv, nil }))
	res := NewBrontideMachine(false, &keychain.PrivKeyECDH{PrivKey: rs.priv}, nil,
		EphemeralGenerator(func() (*btcec.PrivateKey, error) { return re.priv, nil }))
	ref := c11sHandshakeRef(is, ie, rs, re)

	a1, err := ini.GenActOne()
	vAssert(err == nil, "GenActOne succeeds")
	switch scen {
	case c11sWrongStatic:
		err = res.RecvActOne(a1)
		vAssert(err != nil, "initiator targeting another static key: the responder rejects act one")
		vReach("hs-wrong-static-rejected")
		return
	case c11sAct1Version:
		v := vU8("version")
		vAssume(v != 0)
		a1[0] = v
	case c11sAct1Tag:
		c11sMask(a1[34:], 16)
	default:
		vAssert(a1 == ref.act1, "act one = 0 || e.pub || AEAD(HKDF(ck, ECDH(e, rs)).2, 0, h, '') (BOLT-8)")
	}
	err = res.RecvActOne(a1)
	if scen == c11sAct1Version || scen == c11sAct1Tag {
		vAssert(err != nil, "manipulated act one is rejected")
		vReach("hs-act1-rejected")
		return
	}
	vAssert(err == nil, "responder accepts act one of an initiator that targets its static key")

	a2, err := res.GenActTwo()
	vAssert(err == nil, "GenActTwo succeeds")
	switch scen {
	case c11sAct2Version:
		v := vU8("version")
		vAssume(v != 0)
		a2[0] = v
	case c11sAct2Tag:
		c11sMask(a2[34:], 16)
	default:
		vAssert(a2 == ref.act2, "act two = 0 || e.pub || AEAD(HKDF(ck, ECDH(e, re)).2, 0, h, '') (BOLT-8)")
	}
	err = ini.RecvActTwo(a2)
	if scen == c11sAct2Version || scen == c11sAct2Tag {
		vAssert(err != nil, "manipulated act two is rejected")
		vReach("hs-act2-rejected")
		return
	}
	vAssert(err == nil, "initiator accepts act two")

	a3, err := ini.GenActThree()
	vAssert(err == nil, "GenActThree succeeds")
	switch scen {
	case c11sAct3Version:
		v := vU8("version")
		vAssume(v != 0)
		a3[0] = v
	case c11sAct3Key:
		c11sMask(a3[1:34], 33)
	case c11sAct3KeyTag:
		c11sMask(a3[34:50], 16)
	case c11sAct3Tag:
		c11sMask(a3[50:], 16)
	default:
		vAssert(a3 == ref.act3, "act three = 0 || AEAD(k2, 1, h, s.pub) || AEAD(HKDF(ck, ECDH(s, re)).2, 0, h, '') (BOLT-8)")
	}
	err = res.RecvActThree(a3)
	if scen != c11sHonest {
		vAssert(err != nil, "manipulated act three is rejected")
		vReach("hs-act3-rejected")
		return
	}
	vAssert(err == nil, "responder accepts act three")
	vAssert(res.remoteStatic != nil && bytes.Equal(res.remoteStatic.SerializeCompressed(), is.ser),
		"responder learns the initiator's static key")

	// transport keys: what split() derived from the final chaining key
	i2r, r2i := c11sSplitRef(ref.ck)
	p := vChoice("p", 2)
	mi, mr := vBytes("msgI", p), vBytes("msgR", p)
	pi, pr := &c11sPipe{}, &c11sPipe{}
	c11sSendTo(ini, pi, mi)
	c11sSendTo(res, pr, mr)
	vAssert(bytes.Equal(pi.b, c11sWire(i2r.key, 0, mi)), "initiator's first message is sealed with HKDF(ck_final, '').1")
	vAssert(bytes.Equal(pr.b, c11sWire(r2i.key, 0, mr)), "responder's first message is sealed with HKDF(ck_final, '').2")
	got, err := res.ReadMessage(pi)
	vAssert(err == nil && bytes.Equal(got, mi), "after the handshake the responder reads the initiator's message identical")
	got, err = ini.ReadMessage(pr)
	vAssert(err == nil && bytes.Equal(got, mr), "after the handshake the initiator reads the responder's message identical")
	vReach("hs-complete")
}
