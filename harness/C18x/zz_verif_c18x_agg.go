package sweep

// Harness for C18x (extension of C18): input aggregation, wallet-input
// top-ups and the fee-rate ceiling of a bump request.
//
// Unit (real lnd code, executed by gosmt):
//   aggregator.go    (*BudgetAggregator).ClusterInputs / filterInputs /
//                    sortInputs / createInputSets, splitOnLocktime, isDustOutput
//   tx_input_set.go  NewBudgetInputSet / validateInputs / addInput /
//                    attachExtraBudget, (*BudgetInputSet).Budget / DeadlineHeight /
//                    Inputs / StartingFeeRate / Immediate / NeedWalletInput /
//                    AddWalletInputs / addWalletInput / hasNormalInput / inputAmts,
//                    createWalletTxInput
//   fee_bumper.go    (*BumpRequest).MaxFeeRateAllowed, calcSweepTxWeight (real
//                    weight estimator), chainfee.NewSatPerKWeight
//
// Fakes (behind interfaces lnd already has): input.Input (c18xInput),
// chainfee.Estimator (c18xEst: arbitrary relay floor), Wallet (c18xWallet:
// arbitrary confirmed UTXOs).

import (
	"errors"

	"github.com/btcsuite/btcd/btcutil/v2"
	"github.com/btcsuite/btcd/chainhash/v2"
	"github.com/btcsuite/btcd/txscript/v2"
	"github.com/btcsuite/btcd/wire/v2"
	"github.com/lightningnetwork/lnd/fn/v2"
	"github.com/lightningnetwork/lnd/input"
	"github.com/lightningnetwork/lnd/lntypes"
	"github.com/lightningnetwork/lnd/lnwallet"
	"github.com/lightningnetwork/lnd/lnwallet/chainfee"
	"github.com/lightningnetwork/lnd/tlv"
)

// 21e6 BTC in sat.
const c18xMaxSat = int64(2_100_000_000_000_000)

// fee rates: [0, 2^40) sat/kw as in C18.
const c18xMaxRate = int64(1) << 40

// ---- fake input ----

type c18xInput struct {
	op       wire.OutPoint
	wt       input.StandardWitnessType
	sd       input.SignDescriptor
	required *wire.TxOut
	hasLock  bool
	lock     uint32
}

func (i *c18xInput) OutPoint() wire.OutPoint          { return i.op }
func (i *c18xInput) RequiredTxOut() *wire.TxOut       { return i.required }
func (i *c18xInput) RequiredLockTime() (uint32, bool) { return i.lock, i.hasLock }
func (i *c18xInput) WitnessType() input.WitnessType   { return i.wt }
func (i *c18xInput) SignDesc() *input.SignDescriptor  { return &i.sd }
func (i *c18xInput) BlocksToMaturity() uint32         { return 0 }
func (i *c18xInput) HeightHint() uint32               { return 0 }
func (i *c18xInput) UnconfParent() *input.TxInfo      { return nil }
func (i *c18xInput) ResolutionBlob() fn.Option[tlv.Blob] {
	return fn.None[tlv.Blob]()
}
func (i *c18xInput) Preimage() fn.Option[lntypes.Preimage] {
	return fn.None[lntypes.Preimage]()
}
func (i *c18xInput) CraftInputScript(input.Signer, *wire.MsgTx, *txscript.TxSigHashes,
	txscript.PrevOutputFetcher, int) (*input.Script, error) {

	return &input.Script{}, nil
}

func c18xP2WSH() []byte {
	s := make([]byte, 34)
	s[0], s[1] = txscript.OP_0, txscript.OP_DATA_32
	return s
}
func c18xP2WKH() []byte {
	s := make([]byte, 22)
	s[0], s[1] = txscript.OP_0, txscript.OP_DATA_20
	return s
}

// c18xDustLimit stands in (symbolically only; the native replay runs the real
// function) for lnwallet.DustLimitForSize, whose script construction goes
// through text/template + reflect. The values are Bitcoin Core's defaults.
func c18xDustLimit(scriptSize int) btcutil.Amount {
	switch scriptSize {
	case input.P2WPKHSize:
		return 294
	case input.P2WSHSize:
		return 330
	}
	vAssert(false, "c18xDustLimit: unexpected script size")
	return 330
}

// ---- fake estimator ----

type c18xEst struct{ relay chainfee.SatPerKWeight }

func (e *c18xEst) EstimateFeePerKW(uint32) (chainfee.SatPerKWeight, error) {
	return e.relay, nil
}
func (e *c18xEst) Start() error                          { return nil }
func (e *c18xEst) Stop() error                           { return nil }
func (e *c18xEst) RelayFeePerKW() chainfee.SatPerKWeight { return e.relay }

// ---- fake wallet ----

type c18xWallet struct {
	utxos   []*lnwallet.Utxo
	listErr error
	listed  int
}

func (w *c18xWallet) PublishTransaction(*wire.MsgTx, string) error { return nil }
func (w *c18xWallet) ListUnspentWitnessFromDefaultAccount(minConfs, maxConfs int32) ([]*lnwallet.Utxo, error) {
	w.listed++
	// only confirmed coins are asked for
	vAssert(minConfs >= 1, "top-up asks the wallet for confirmed UTXOs only")
	if w.listErr != nil {
		return nil, w.listErr
	}
	return w.utxos, nil
}
func (w *c18xWallet) WithCoinSelectLock(f func() error) error { return f() }
func (w *c18xWallet) RemoveDescendants(*wire.MsgTx) error     { return nil }
func (w *c18xWallet) FetchTx(chainhash.Hash) (*wire.MsgTx, error) {
	return nil, nil
}
func (w *c18xWallet) CancelRebroadcast(chainhash.Hash)          {}
func (w *c18xWallet) CheckMempoolAcceptance(*wire.MsgTx) error { return nil }
func (w *c18xWallet) GetTransactionDetails(*chainhash.Hash) (*lnwallet.TransactionDetail, error) {
	return nil, nil
}
func (w *c18xWallet) BackEnd() string { return "c18x" }

type c18xErr string

func (e c18xErr) Error() string { return string(e) }

const c18xErrList = c18xErr("c18x: wallet cannot list")

func c18xConfig() {
	// (WeightUnit).ToVB goes through math.Ceil (assembly); in the unit it only
	// feeds log arguments (filterInputs, weight estimator traces)
	vNoop("(github.com/lightningnetwork/lnd/lntypes.WeightUnit).ToVB")
	vReplace("github.com/lightningnetwork/lnd/lnwallet.DustLimitForSize", "github.com/lightningnetwork/lnd/sweep.c18xDustLimit")
	vAssumption("input, required-output, wallet-UTXO values and per-input budgets in [0, 21e6 BTC]; fee rates (relay floor, starting rates, MaxFeeRate) in [0, 2^40) sat/kw")
	vAssumption("inputs are fakes of input.Input with real StandardWitnessTypes (sizes from the real SizeUpperBound / weight estimator); lnwallet.DustLimitForSize replaced symbolically by its constants 294 (P2WPKH) / 330 (P2WSH), the real one runs in replay")
}

// ---- (a) aggregation ----

// witness-size of the fake inputs: CommitmentTimeLock, resp. (with a required
// output) HtlcAcceptedSuccessSecondLevelInputConfirmed; input.InputSize = 41 vbytes of
// non-witness data. Literal numbers (BOLT-3 appendix A) so that the oracle does
// not read them from the code under test.
const (
	c18xWuTimeLock  = 4*41 + 156 // ToLocalTimeoutWitnessSize = 156
	c18xWuSecondLvl = 4*41 + 327 // AcceptedHtlcSuccessWitnessSize = 327
)

type c18xRaw struct {
	in       *c18xInput
	op       wire.OutPoint
	value    int64
	budget   int64
	deadline int32
	start    int64
	reqValue int64
	hasReq   bool
	excl     bool
	wu       int64
}

// c18xPasses is the oracle of filterInputs: an input is kept iff its budget
// pays the relay-floor fee and its own starting fee for its own weight
// (BOLT-3 round-down: fee = rate*wu/1000) and its required output, if any,
// is not dust.
func c18xPasses(r *c18xRaw, relay int64) (bool, int) {
	// rate < 2^40, wu < 2^10: no wrap
	if r.budget < relay*r.wu/1000 {
		return false, 1
	}
	if r.budget < r.start*r.wu/1000 {
		return false, 2
	}
	if r.hasReq && r.reqValue < 330 {
		return false, 3
	}
	return true, 0
}

func c18xCluster(nMin, nSpan int) {
	c18xConfig()
	n := vChoice("n", nSpan) + nMin
	// shapes: which inputs need a lock time / carry a required output / are
	// exclusive / have the deadline in their params; how many inputs per tx
	lockMask := vChoice("lockMask", 1<<n)
	req0 := vChoice("req", 2) == 1
	excl0 := vChoice("excl", 2) == 1
	dlMask := vChoice("dlMask", 2)
	maxInputs := []uint32{1, 2, 100}[vChoice("maxIn", 3)]

	relay := vI64("relay")
	vAssume(relay >= 0 && relay < c18xMaxRate)

	raws := make([]*c18xRaw, 0, n)
	m := make(InputsMap)
	var exclGroup uint64 = 7
	for k := 0; k < n; k++ {
		r := &c18xRaw{
			op:       wire.OutPoint{Hash: chainhash.Hash{byte(k + 1)}, Index: uint32(k)},
			value:    vI64("inValue"),
			budget:   vI64("inBudget"),
			deadline: vI32("inDeadline"),
			start:    vI64("inStart"),
			wu:       c18xWuTimeLock,
		}
		vAssume(r.value >= 0 && r.value <= c18xMaxSat)
		vAssume(r.budget >= 0 && r.budget <= c18xMaxSat)
		vAssume(r.start >= 0 && r.start < c18xMaxRate)
		in := &c18xInput{
			op: r.op,
			wt: input.CommitmentTimeLock,
			sd: input.SignDescriptor{Output: &wire.TxOut{Value: r.value, PkScript: c18xP2WSH()}},
		}
		if lockMask&(1<<k) != 0 {
			in.hasLock = true
			in.lock = vU32("inLock")
		}
		if k == 0 && req0 {
			r.hasReq = true
			r.reqValue = vI64("reqValue")
			vAssume(r.reqValue >= 0 && r.reqValue <= c18xMaxSat)
			in.wt = input.HtlcAcceptedSuccessSecondLevelInputConfirmed
			in.required = &wire.TxOut{Value: r.reqValue, PkScript: c18xP2WSH()}
			r.wu = c18xWuSecondLvl
		}
		r.in = in
		si := &SweeperInput{
			Input: in,
			params: Params{
				Budget:          btcutil.Amount(r.budget),
				Immediate:       vBool("inImmediate"),
				StartingFeeRate: fn.Some(chainfee.SatPerKWeight(r.start)),
			},
			// invariant of every SweeperInput the sweeper holds
			// (sweeper.go: DeadlineHeight = params.DeadlineHeight.UnwrapOr(default)):
			// the params option is unset or equal to the field
			DeadlineHeight: r.deadline,
		}
		if dlMask == 1 || k == 0 {
			si.params.DeadlineHeight = fn.Some(r.deadline)
		}
		if k == 0 && excl0 {
			r.excl = true
			si.params.ExclusiveGroup = &exclGroup
		}
		raws = append(raws, r)
		m[r.op] = si
	}

	agg := NewBudgetAggregator(&c18xEst{relay: chainfee.SatPerKWeight(relay)}, maxInputs, fn.None[AuxSweeper]())

	sets := agg.ClusterInputs(m)

	// ---- oracle ----
	find := func(op wire.OutPoint) *c18xRaw {
		for _, r := range raws {
			if r.op == op {
				return r
			}
		}
		return nil
	}
	count := make([]int, n)
	for _, s := range sets {
		bs, ok := s.(*BudgetInputSet)
		vAssert(ok && bs != nil, "aggregator returns budget input sets")
		ins := bs.Inputs()
		vAssert(len(ins) >= 1, "no empty set")
		vAssert(uint32(len(ins)) <= maxInputs, "a set holds at most MaxInputsPerTx inputs")
		var (
			sum      int64
			lockSeen bool
			lock     uint32
			anyImm   bool
			maxStart int64
		)
		for _, in := range ins {
			r := find(in.OutPoint())
			vAssert(r != nil, "set member is one of the offered inputs")
			if r == nil {
				return
			}
			for k := range raws {
				if raws[k] == r {
					count[k]++
				}
			}
			vAssert(in == input.Input(r.in), "set member is the offered input object")
			sum += r.budget // <= 3 * 21e14: no wrap
			vAssert(r.deadline == bs.DeadlineHeight(), "a set never mixes deadlines: member deadline == set deadline")
			if r.in.hasLock {
				if lockSeen {
					vAssert(r.in.lock == lock, "a set never mixes different lock times")
				}
				lockSeen, lock = true, r.in.lock
			}
			if r.excl {
				vReach("exclusive-alone")
				vAssert(len(ins) == 1, "an exclusive input is swept alone")
			}
			if m[r.op].params.Immediate {
				anyImm = true
			}
			if r.start > maxStart {
				maxStart = r.start
			}
		}
		vAssert(int64(bs.Budget()) == sum, "set budget == sum of the member budgets")
		vAssert(bs.Immediate() == anyImm, "set is immediate iff one member is")
		sfr := bs.StartingFeeRate()
		vAssert(int64(sfr.UnwrapOr(0)) == maxStart && sfr.IsSome() == (maxStart > 0),
			"set starting fee rate == largest member starting rate")
		if len(ins) == n {
			vReach("one-set")
		}
	}
	nKept := 0
	for k, r := range raws {
		pass, why := c18xPasses(r, relay)
		switch why {
		case 1:
			vReach("filtered-min-fee")
		case 2:
			vReach("filtered-starting-fee")
		case 3:
			vReach("filtered-dust")
		}
		if pass {
			nKept++
			vAssert(count[k] == 1, "an input that can pay its minimum fee ends in exactly one set")
		} else {
			vAssert(count[k] == 0, "an input that cannot pay its minimum fee (or has a dust required output) is in no set")
		}
	}
	if nKept == n && len(sets) >= 2 {
		same := true
		for _, r := range raws {
			if r.deadline != raws[0].deadline {
				same = false
			}
		}
		if !same {
			vReach("split-deadline")
		} else if !excl0 && uint32(n) <= maxInputs {
			vReach("split-locktime")
		} else if !excl0 && lockMask == 0 {
			vReach("split-max-inputs")
		}
	}
}

// VerifC18xCluster: 2 inputs, every shape.
func VerifC18xCluster() { c18xCluster(2, 1) }

// VerifC18xCluster3: 3 inputs.
func VerifC18xCluster3() { c18xCluster(3, 1) }

// ---- (b) wallet-input top-up ----

func VerifC18xTopUp() {
	c18xConfig()
	n := vChoice("n", 2) + 1
	reqMask := vChoice("req", 1<<n)
	nUtxo := vChoice("utxos", 3)
	// 0: all P2WKH, 1: the first listed UTXO is taproot, 2: the LAST listed UTXO has an
	// address type the sweeper does not know, 3: the wallet cannot list
	walletMode := vChoice("wallet", 4)

	deadline := vI32("deadline")
	var (
		sis        []SweeperInput
		raws       []*c18xRaw
		sumBudget  int64 // every member budget
		sumNormal  int64 // value of the inputs without a required output
		haveNormal bool
	)
	for k := 0; k < n; k++ {
		r := &c18xRaw{
			op:     wire.OutPoint{Hash: chainhash.Hash{byte(k + 1)}, Index: uint32(k)},
			value:  vI64("inValue"),
			budget: vI64("inBudget"),
		}
		vAssume(r.value >= 0 && r.value <= c18xMaxSat)
		vAssume(r.budget >= 0 && r.budget <= c18xMaxSat)
		in := &c18xInput{
			op: r.op,
			wt: input.CommitmentTimeLock,
			sd: input.SignDescriptor{Output: &wire.TxOut{Value: r.value, PkScript: c18xP2WSH()}},
		}
		if reqMask&(1<<k) != 0 {
			r.hasReq = true
			in.wt = input.HtlcAcceptedSuccessSecondLevelInputConfirmed
			// second-level HTLC: the required output carries the input's value
			in.required = &wire.TxOut{Value: r.value, PkScript: c18xP2WSH()}
		} else {
			haveNormal = true
			sumNormal += r.value
		}
		sumBudget += r.budget
		r.in = in
		raws = append(raws, r)
		sis = append(sis, SweeperInput{
			Input:          in,
			params:         Params{Budget: btcutil.Amount(r.budget), DeadlineHeight: fn.Some(deadline)},
			DeadlineHeight: deadline,
		})
	}
	set, err := NewBudgetInputSet(sis, deadline, fn.None[AuxSweeper]())
	vAssert(err == nil && set != nil, "a set of distinct inputs with one deadline is accepted")
	if set == nil {
		return
	}
	budget0 := set.Budget()
	vAssert(int64(budget0) == sumBudget, "set budget == sum of the member budgets")
	vAssert(set.DeadlineHeight() == deadline, "set deadline is the members' deadline")

	// NeedWalletInput: true exactly when the budgets (all of them: an input
	// with a required output cannot pay its own) exceed what the inputs
	// without a required output provide. No wrap: sums <= 2 * 21e14.
	need0 := set.NeedWalletInput()
	vAssert(need0 == (sumBudget > sumNormal), "NeedWalletInput <=> total budget > value of the inputs that can pay fees")
	if !need0 {
		// the sweeper asks for wallet inputs only for a set that needs them
		// (sweepPendingInputs)
		vReach("no-top-up-needed")
		return
	}

	w := &c18xWallet{}
	// own table of what the wallet lists (AddWalletInputs sorts the listed slice in place)
	var uvals []int64
	var uops []wire.OutPoint
	for k := 0; k < nUtxo; k++ {
		v := vI64("utxoValue")
		vAssume(v >= 0 && v <= c18xMaxSat)
		uvals = append(uvals, v)
		u := &lnwallet.Utxo{
			AddressType: lnwallet.WitnessPubKey,
			Value:       btcutil.Amount(v),
			PkScript:    c18xP2WKH(),
			OutPoint:    wire.OutPoint{Hash: chainhash.Hash{0xee, byte(k)}, Index: uint32(k)},
		}
		if walletMode == 1 && k == 0 {
			u.AddressType = lnwallet.TaprootPubkey
		}
		if walletMode == 2 && k == nUtxo-1 {
			u.AddressType = lnwallet.UnknownAddressType
		}
		w.utxos = append(w.utxos, u)
		uops = append(uops, u.OutPoint)
	}
	if walletMode == 3 {
		w.listErr = c18xErrList
	}

	err = set.AddWalletInputs(w)

	vAssert(w.listed == 1, "the wallet is asked once")
	ins := set.Inputs()
	// the original inputs are all still there, in front, untouched
	vAssert(len(ins) >= n, "no original input dropped by the top-up")
	if len(ins) < n {
		return
	}
	for k := 0; k < n; k++ {
		vAssert(ins[k] == input.Input(raws[k].in), "original inputs still present after the top-up")
	}
	// budget unchanged: wallet inputs carry no budget
	vAssert(set.Budget() == budget0, "top-up leaves the set budget unchanged")
	vAssert(set.DeadlineHeight() == deadline, "top-up leaves the deadline unchanged")
	// what was added: distinct wallet UTXOs, ascending by value, value as listed
	added := ins[n:]
	vAssert(len(added) <= nUtxo, "only listed wallet UTXOs are added")
	var sumAdded, prev int64
	for j, a := range added {
		hit := 0
		for k := range uops {
			if a.OutPoint() == uops[k] {
				hit++
				vAssert(a.SignDesc().Output.Value == uvals[k], "wallet input carries the UTXO's value")
			}
		}
		vAssert(hit == 1, "added input is a listed wallet UTXO")
		for j2 := 0; j2 < j; j2++ {
			vAssert(added[j2].OutPoint() != a.OutPoint(), "a wallet UTXO is added once")
		}
		vAssert(a.RequiredTxOut() == nil, "wallet input has no required output")
		v := a.SignDesc().Output.Value
		vAssert(j == 0 || v >= prev, "wallet UTXOs are taken smallest first")
		prev = v
		sumAdded += v
	}
	for _, si := range set.inputs[n:] {
		vAssert(si.params.Budget == 0, "wallet inputs carry no budget")
	}
	// every UTXO left out is at least as large as every one taken
	if len(added) > 0 && len(added) < nUtxo && err == nil {
		for k := range uops {
			taken := false
			for _, a := range added {
				if a.OutPoint() == uops[k] {
					taken = true
				}
			}
			if !taken {
				vAssert(uvals[k] >= prev, "UTXOs left in the wallet are not smaller than the ones taken")
			}
		}
	}
	needAfter := set.NeedWalletInput()
	vAssert(needAfter == (sumBudget > sumNormal+sumAdded), "NeedWalletInput after the top-up <=> budget still exceeds inputs + wallet inputs")

	if err != nil {
		vReach("top-up-failed")
		if walletMode == 3 {
			vReach("wallet-list-error")
			vAssert(errors.Is(err, c18xErrList), "wallet error handed up")
			vAssert(len(added) == 0, "nothing added when the wallet cannot list")
			return
		}
		if errors.Is(err, ErrNotEnoughInputs) {
			vReach("not-enough-inputs")
			// a refusal names a rule that is actually violated: nothing in
			// the set can pay fees and the whole wallet does not cover
			vAssert(!haveNormal && len(added) == 0 && nUtxo == 0 || (needAfter && len(added) == nUtxo),
				"ErrNotEnoughInputs only when the whole wallet was tried and the budget is still not covered")
			vAssert(!haveNormal, "ErrNotEnoughInputs only when every sweep input has a required output")
			return
		}
		vReach("unknown-utxo-type")
		vAssert(walletMode == 2, "other errors only for a UTXO type the sweeper does not know")
		return
	}
	// success
	if !needAfter {
		vReach("topped-up")
		if len(added) > 0 {
			vReach("wallet-input-added")
			// minimal: without the last (largest) added UTXO the set would still need one
			vAssert(sumBudget > sumNormal+sumAdded-prev, "top-up stops at the first UTXO that covers the budget")
		}
		if len(added) == 2 {
			vReach("two-wallet-inputs-added")
		}
	} else {
		// "sweeping anyway": allowed only when the whole wallet was used and
		// at least one input can pay fees
		vReach("under-funded-sweep-anyway")
		vAssert(len(added) == nUtxo, "an under-funded set is returned only after every wallet UTXO was added")
		vAssert(haveNormal || len(added) > 0, "an under-funded set has at least one input that can pay fees")
	}
	// whenever the wallet could cover the budget, it does
	var sumWallet int64
	for _, v := range uvals {
		sumWallet += v
	}
	if walletMode <= 1 && sumBudget <= sumNormal+sumWallet {
		vAssert(!needAfter, "wallet able to cover the budget => set no longer needs wallet inputs")
	}
}

// ---- (c) MaxFeeRateAllowed ----

// c18xWeight is the oracle weight (BOLT-3 appendix A arithmetic, literal
// numbers): n CommitmentTimeLock inputs (the first one optionally a second-level
// HTLC success input with a P2WSH required output) and one P2WKH change output.
func c18xWeight(n int, req bool) int64 {
	// version 4 + locktime 4 + #in 1 + #out 1 = 10 bytes; segwit marker+flag 2 wu
	base := int64(10)
	wit := int64(2)
	for k := 0; k < n; k++ {
		base += 41 // outpoint 36 + script len 1 + sequence 4
		if k == 0 && req {
			wit += 327 // accepted HTLC success witness
		} else {
			wit += 156 // to_local timeout witness
		}
	}
	base += 8 + 1 + 22 // P2WKH change output
	if req {
		base += 8 + 1 + 34 // P2WSH required output
	}
	return 4*base + wit
}

func c18xMaxRateEntry(maxBudget int64, exact bool) {
	c18xConfig()
	vMerge("github.com/btcsuite/btcd/btcutil/v2.round")
	n := vChoice("n", 3) + 1
	req := vChoice("req", 2) == 1
	var ins []input.Input
	for k := 0; k < n; k++ {
		v := vI64("inValue")
		vAssume(v >= 0 && v <= c18xMaxSat)
		in := &c18xInput{
			op: wire.OutPoint{Hash: chainhash.Hash{byte(k + 1)}, Index: uint32(k)},
			wt: input.CommitmentTimeLock,
			sd: input.SignDescriptor{Output: &wire.TxOut{Value: v, PkScript: c18xP2WSH()}},
		}
		if k == 0 && req {
			in.wt = input.HtlcAcceptedSuccessSecondLevelInputConfirmed
			in.required = &wire.TxOut{Value: v, PkScript: c18xP2WSH()}
		}
		ins = append(ins, in)
	}
	budget := vI64("budget")
	maxRate := vI64("maxFeeRate")
	vAssume(budget >= 0 && budget <= maxBudget)
	vAssume(maxRate >= 0 && maxRate < c18xMaxRate)
	r := &BumpRequest{
		Budget:          btcutil.Amount(budget),
		Inputs:          ins,
		DeliveryAddress: lnwallet.AddrWithKey{DeliveryAddress: c18xP2WKH()},
		MaxFeeRate:      chainfee.SatPerKWeight(maxRate),
	}
	// the weight the ceiling is computed for: real estimator == BOLT-3 arithmetic
	w, werr := calcSweepTxWeight(ins, [][]byte{r.DeliveryAddress.DeliveryAddress})
	wOracle := c18xWeight(n, req)
	vAssert(werr == nil && int64(w) == wOracle, "estimated sweep weight == BOLT-3 weight of the input shapes")

	got, err := r.MaxFeeRateAllowed()

	vAssert(err == nil, "MaxFeeRateAllowed succeeds")
	g := int64(got)
	vAssert(g >= 0 && g <= maxRate, "0 <= allowed rate <= MaxFeeRate")
	if exact {
		// budget rate = budget*1000/weight rounded to nearest: with
		// q = floor(budget*1000/w) the result is min(q or q+1, MaxFeeRate);
		// never above either bound (+1 sat/kw of rounding)
		q := budget * 1000 / wOracle // budget <= 21e14: no wrap
		if g < maxRate {
			vReach("budget-bound")
			vAssert(g == q || g == q+1, "budget-bound: allowed rate == budget*1000/weight (rounded to nearest)")
			// rounded to NEAREST: 2*|g*w - budget*1000| <= w
			d := g*wOracle - budget*1000
			vAssert(2*d <= wOracle && -2*d <= wOracle, "budget-bound: rounding error at most half a unit")
		} else {
			vReach("max-bound")
			vAssert(q+1 >= maxRate, "max-bound: budget rate is not below MaxFeeRate")
		}
		// fee at the allowed rate never exceeds the budget by more than the
		// rounding slack w/2000 sat
		vAssert(g*wOracle/1000 <= budget+wOracle/2000+1, "fee at the allowed rate <= budget + rounding slack")
	} else {
		if g < maxRate {
			vReach("budget-bound")
		} else {
			vReach("max-bound")
		}
	}
	if budget == 0 {
		vReach("zero-budget")
		vAssert(g == 0, "zero budget gives rate zero")
	}
}

// VerifC18xMaxRate: budgets up to 2^10 sat with the exact arithmetic relation
// (float64 multiplication against integer multiplication/division: the solver
// time grows steeply with the width of the budget).
func VerifC18xMaxRate() { c18xMaxRateEntry(1<<10, true) }

// VerifC18xMaxRateWide: any budget up to 21e6 BTC: weight, success, result
// within [0, MaxFeeRate], zero budget gives zero.
func VerifC18xMaxRateWide() { c18xMaxRateEntry(c18xMaxSat, false) }
