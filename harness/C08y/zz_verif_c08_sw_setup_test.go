package htlcswitch

import (
	"context"
	"crypto/sha256"
	"testing"

	"github.com/btcsuite/btcd/btcutil/v2"
	"github.com/lightningnetwork/lnd/channeldb"
	"github.com/lightningnetwork/lnd/kvdb"
	"github.com/lightningnetwork/lnd/lnwallet"
	"github.com/lightningnetwork/lnd/lnwire"
)

// vTestSetup builds the real channels of the native replay.
//
// vC08Chan: a real channel whose short channel id is the constant the symbolic
// run substitutes for (*channelLink).ShortChanID (K2, K6).
//
// vC08FreshChan: a factory (one fresh channel per replayed run) for K3: our
// side of a channel in which the peer has added one HTLC (id 0, payment hash
// sha256(c08P0)) that is locked in on both commitments - the state the
// symbolic stand-in c08Chan describes. Its DB additionally gets a forwarding
// package of another channel (c08DstScid, c08DstHeight) with one settle, so
// that the acknowledgement of a destRef is observable. vC08SrcAcked /
// vC08DstAcked read the filters of the two packages back from the DB.
func vTestSetup(t *testing.T) {
	mk := func() (*testLightningChannel, *testLightningChannel) {
		alice, bob, err := createTestChannel(
			t, alicePrivKey, bobPrivKey, 5*btcutil.SatoshiPerBitcoin,
			5*btcutil.SatoshiPerBitcoin, 0, 0,
			lnwire.NewShortChanIDFromInt(c08LinkScid),
		)
		if err != nil {
			t.Fatal(err)
		}
		return alice, bob
	}
	alice, _ := mk()
	vC08Chan = alice.channel

	// C08y: exhaust the revocation window of our side of a fresh channel: we
	// add an outgoing HTLC and sign one commitment for the peer; the peer's
	// revocation never arrives, so the next SignNextCommitment must return
	// lnwallet.ErrNoWindow (checked here on a throw-away twin, because probing
	// the replay channel itself would not change it but costs nothing either).
	vC08yCloseWindow = func(ch *lnwallet.LightningChannel) {
		out := &lnwire.UpdateAddHTLC{
			PaymentHash: sha256.Sum256([]byte("c08y outgoing")),
			Amount:      lnwire.NewMSatFromSatoshis(50_000),
			Expiry:      600,
		}
		if _, err := ch.AddHTLC(out, nil); err != nil {
			t.Fatal(err)
		}
		if _, err := ch.SignNextCommitment(context.Background()); err != nil {
			t.Fatal(err)
		}
		if _, err := ch.SignNextCommitment(context.Background()); err != lnwallet.ErrNoWindow {
			t.Fatalf("C08y setup: expected ErrNoWindow, got %v", err)
		}
	}

	vC08FreshChan = func() *lnwallet.LightningChannel {
		a, b := mk()
		htlc := &lnwire.UpdateAddHTLC{
			PaymentHash: sha256.Sum256(c08P0[:]),
			Amount:      lnwire.NewMSatFromSatoshis(100_000),
			Expiry:      500,
		}
		if _, err := b.channel.AddHTLC(htlc, nil); err != nil {
			t.Fatal(err)
		}
		if _, err := a.channel.ReceiveHTLC(htlc); err != nil {
			t.Fatal(err)
		}
		if err := lnwallet.ForceStateTransition(b.channel, a.channel); err != nil {
			t.Fatal(err)
		}
		ch := a.channel

		// the package the Add was locked in with
		pkgs, err := ch.LoadFwdPkgs()
		if err != nil {
			t.Fatal(err)
		}
		var height uint64
		found := false
		for _, p := range pkgs {
			if len(p.Adds) == 1 {
				height, found = p.Height, true
			}
		}
		if !found {
			t.Fatalf("no forwarding package with the Add (have %d)", len(pkgs))
		}
		t.Logf("VERIF-SETUP-PARAM C08SRC"+"_HEIGHT=%d", height)

		sdb, ok := ch.State().Db.(*channeldb.ChannelStateDB)
		if !ok {
			t.Fatalf("unexpected channel store %T", ch.State().Db)
		}
		db := sdb.GetParentDB()
		other := lnwire.NewShortChanIDFromInt(c08DstScid)
		packager := channeldb.NewChannelPackager(other)
		err = kvdb.Update(db, func(tx kvdb.RwTx) error {
			return packager.AddFwdPkg(tx, channeldb.NewFwdPkg(
				other, c08DstHeight, nil, []channeldb.LogUpdate{{
					UpdateMsg: &lnwire.UpdateFulfillHTLC{ID: 3, PaymentPreimage: c08P0},
				}},
			))
		}, func() {})
		if err != nil {
			t.Fatal(err)
		}

		vC08SrcAcked = func() bool {
			pkgs, err := ch.LoadFwdPkgs()
			if err != nil {
				t.Fatal(err)
			}
			for _, p := range pkgs {
				if p.Height == height {
					return p.AckFilter.Contains(0)
				}
			}
			// fully acked packages may be garbage collected
			return true
		}
		vC08DstAcked = func() bool {
			var res bool
			err := kvdb.View(db, func(tx kvdb.RTx) error {
				pkgs, err := packager.LoadFwdPkgs(tx)
				if err != nil {
					return err
				}
				for _, p := range pkgs {
					if p.Height == c08DstHeight {
						res = p.SettleFailFilter.Contains(0)
					}
				}
				return nil
			}, func() { res = false })
			if err != nil {
				t.Fatal(err)
			}
			return res
		}
		return ch
	}
}
