package htlcswitch

// Harness for C08 (htlcswitch kernels), K1: how the switch routes a settle or
// fail RESPONSE back to the incoming link.
//
// Unit (real lnd code): (*Switch).handlePacketForward, handlePacketSettle,
// handlePacketFail, closeCircuit, handleLocalResponse, ackSettleFail,
// teardownCircuit, (*circuitMap).CloseCircuit / FailCircuit / DeleteCircuits,
// (*mailOrchestrator).Deliver, (*networkResultStore).storeResult.
//
// One step (or two) from an arbitrary consistent circuit map and an arbitrary
// response packet. The oracle is the decision table of the property, computed
// from the description of the pre-state (c08Circ), never by calling lnd:
//
//   a response is handed to an incoming link  iff  a circuit with exactly the
//   packet's outgoing key (resp. incoming key, for a packet the outgoing link
//   failed locally) exists, is not yet closing, and is not a local payment;
//   it goes to that circuit's incoming channel, names that circuit's incoming
//   HTLC id, is the very packet that came in (settle stays settle WITH THE SAME
//   PREIMAGE, fail stays fail), and the circuit is closing afterwards, so no
//   second response for it is ever delivered.

import (
	"bytes"
	"errors"

	"github.com/lightningnetwork/lnd/channeldb"
	"github.com/lightningnetwork/lnd/lnwire"
)

const (
	c08KindSettle    = 0 // update_fulfill_htlc received on the outgoing link (or on-chain preimage)
	c08KindFail      = 1 // update_fail_htlc received on the outgoing link (or on-chain timeout)
	c08KindLocalFail = 2 // the outgoing link could not add the HTLC: mailbox FailAdd, hasSource = true
)

// c08Resp describes a response packet.
type c08Resp struct {
	kind     int // concrete
	out      c08K
	in       c08K // only for c08KindLocalFail
	preimage [32]byte
	reason   []byte
	hasDest  bool // concrete
	dest     channeldb.SettleFailRef
	isRes    bool
	conv     bool
}

func c08NewResp(name string, kinds int) c08Resp {
	r := c08Resp{kind: vChoice(name+".kind", kinds)}
	r.out = c08Key(name + ".out")
	switch r.kind {
	case c08KindSettle:
		copy(r.preimage[:], vBytes(name+".preimage", 32))
		r.isRes = vBool(name + ".isResolution")
	case c08KindFail:
		r.reason = vBytes(name+".reason", 3)
		r.isRes = vBool(name + ".isResolution")
		r.conv = vBool(name + ".convertedError")
	case c08KindLocalFail:
		// mailbox.FailAdd: the packet carries the incoming key of the Add it
		// answers, hasSource is set, the reason is already encrypted
		r.in = c08Key(name + ".in")
		r.reason = vBytes(name+".reason", 3)
	}
	if r.kind != c08KindLocalFail && vBool(name+".hasDestRef") {
		// a response that is locked in in a forwarding package of the outgoing
		// link; resolution messages and local fails carry none
		r.hasDest = true
		r.dest = channeldb.SettleFailRef{
			Source: lnwire.NewShortChanIDFromInt(vU64(name + ".dest.source")),
			Height: vU64(name + ".dest.height"),
			Index:  vU16(name + ".dest.index"),
		}
	}
	return r
}

// packet builds a fresh packet object the way the producers do
// (processRemoteSettleFails / the resolution-message branch of htlcForwarder /
// mailbox.FailAdd).
func (r c08Resp) packet() *htlcPacket {
	p := &htlcPacket{
		outgoingChanID: r.out.key.ChanID,
		outgoingHTLCID: r.out.id,
		isResolution:   r.isRes,
		convertedError: r.conv,
	}
	if r.hasDest {
		d := r.dest
		p.destRef = &d
	}
	switch r.kind {
	case c08KindSettle:
		p.htlc = &lnwire.UpdateFulfillHTLC{PaymentPreimage: r.preimage}
	case c08KindFail:
		p.htlc = &lnwire.UpdateFailHTLC{Reason: append(lnwire.OpaqueReason{}, r.reason...)}
	case c08KindLocalFail:
		p.incomingChanID = r.in.key.ChanID
		p.incomingHTLCID = r.in.id
		p.hasSource = true
		p.htlc = &lnwire.UpdateFailHTLC{Reason: append(lnwire.OpaqueReason{}, r.reason...)}
	}
	return p
}

// c08Abs is the abstract state the oracle tracks per circuit.
type c08Abs struct {
	present []bool // still in the circuit map
	closing []bool // a response was accepted for it (member of `closed`)
	resp    []int  // number of responses delivered to a link for it
}

func c08NewAbs(w *c08SW) *c08Abs {
	a := &c08Abs{}
	for _, e := range w.circ {
		a.present = append(a.present, true)
		a.closing = append(a.closing, e.closed)
		a.resp = append(a.resp, 0)
	}
	return a
}

func c08SwConfig() {
	vGoInline("(*github.com/lightningnetwork/lnd/htlcswitch.Switch).handleLocalResponse")
	vAssumption("C08/K1: single-threaded, one response at a time: sync mutexes are no-ops, `go s.handleLocalResponse` runs synchronously at the go statement (natively the harness waits on s.wg); NO interleaving of two responses, of a response with a link restart, or of the mailbox's own goroutine is explored")
	vAssumption("C08/K1: circuit map pre-state = any state satisfying the representation invariant of circuitMap (shown inductive in the C07 harness) with <= N circuits; kvdb is the in-memory fake of the C07 harness without injected write failures")
	vAssumption("C08/K1: links are represented by the real mailOrchestrator: one live link with a recording fake MailBox under a symbolic short channel id, every other short channel id has no live mailbox (packets are parked in unclaimedPackets); SwitchPackager and HtlcNotifier are recording fakes; error encrypter = tagging fake")
	vAssumption("C08/K1: a packet with hasSource is a fail (only mailbox.FailAdd sets the flag, on an UpdateFailHTLC) and carries no destRef; outgoing channel id of a keystone != hop.Source")
}

// c08Step feeds one response into the real switch and checks it against the
// abstract state, then advances the abstract state. It returns whether a packet
// was delivered to a link.
func c08Step(w *c08SW, a *c08Abs, r c08Resp, tag string) bool {
	s := w.s
	n := len(w.circ)

	// ---- oracle: computed from the descriptions only ----
	hit := make([]bool, n)   // the response names this circuit
	acc := make([]bool, n)   // ... and the circuit may still be answered
	local := make([]bool, n) // the circuit is a locally initiated payment
	anyHit, anyAcc, anyClosing, wantDeliver, wantLocal := false, false, false, false, false
	for i, e := range w.circ {
		if r.kind == c08KindLocalFail {
			eq := r.in.key == e.in.key
			hit[i] = a.present[i] && eq
		} else if e.hasKs {
			eq := r.out.key == e.out.key
			hit[i] = a.present[i] && eq
		}
		acc[i] = hit[i] && !a.closing[i]
		local[i] = e.in.ch == 0
		anyHit = anyHit || hit[i]
		anyAcc = anyAcc || acc[i]
		anyClosing = anyClosing || (hit[i] && a.closing[i])
		wantDeliver = wantDeliver || (acc[i] && !local[i])
		wantLocal = wantLocal || (acc[i] && local[i])
	}

	before := w.deliveries()
	nPendSF := len(s.pendingSettleFails)
	nAcked := len(w.pack.acked)
	nFwdEv := len(s.pendingFwdingEvents)
	nSettleEv, nFailEv := w.notif.settles, w.notif.fwdFails

	pkt := r.packet()
	origHtlc := pkt.htlc
	err := s.handlePacketForward(pkt)
	// natively handleLocalResponse is a goroutine
	s.wg.Wait()

	after := w.deliveries()
	nNew := len(after) - len(before)
	vAssert(nNew >= 0 && nNew <= 1, tag+": one response packet yields at most one delivery")
	delivered := nNew == 1

	// (1) delivered iff an answerable, non-local circuit is named
	vAssert(delivered == wantDeliver, tag+": a response is handed to an incoming link iff an open, not yet closing circuit exists for the key it names")

	// (2) what is delivered, and to whom
	if delivered {
		// the new delivery is the one not present before (lists only grow)
		var d c08Deliv
		found := false
		for _, x := range after {
			old := false
			for _, y := range before {
				if y.pkt == x.pkt {
					old = true
				}
			}
			if !old {
				d = x
				found = true
			}
		}
		vAssert(found && d.pkt == pkt, tag+": the delivered packet is the response packet itself")
		for i, e := range w.circ {
			ok := d.sid == e.in.key.ChanID && d.pkt.incomingChanID == e.in.key.ChanID && d.pkt.incomingHTLCID == e.in.id
			vAssert(!(acc[i] && !local[i]) || ok, tag+": the response goes to the circuit's incoming channel and names the circuit's incoming HTLC id")
			if r.kind != c08KindLocalFail {
				ref := d.pkt.sourceRef != nil && d.pkt.sourceRef.Height == e.height && d.pkt.sourceRef.Index == e.index
				vAssert(!(acc[i] && !local[i]) || (ref && d.pkt.circuit == e.c), tag+": the delivered packet carries the circuit and the AddRef of the incoming Add as sourceRef")
			}
		}
		vAssert(d.pkt.outgoingChanID == r.out.key.ChanID && d.pkt.outgoingHTLCID == r.out.id, tag+": outgoing key of the packet untouched")
		if r.hasDest {
			vAssert(d.pkt.destRef != nil && *d.pkt.destRef == r.dest, tag+": destRef of the packet untouched")
		} else {
			vAssert(d.pkt.destRef == nil, tag+": no destRef invented")
		}
		vAssert(d.pkt.htlc == origHtlc, tag+": the wire message of the packet is not replaced")
		switch m := d.pkt.htlc.(type) {
		case *lnwire.UpdateFulfillHTLC:
			vAssert(r.kind == c08KindSettle, tag+": a fail never becomes a settle")
			vAssert(m.PaymentPreimage == r.preimage, tag+": the settle delivered to the incoming link carries the preimage of the outgoing settle")
		case *lnwire.UpdateFailHTLC:
			vAssert(r.kind != c08KindSettle, tag+": a settle never becomes a fail")
			// the failure reason is re-encrypted for the previous hop
			for i, e := range w.circ {
				if r.kind == c08KindFail {
					var want []byte
					switch {
					case !e.enc:
						want = r.reason
					case r.isRes:
						want = []byte{0xA3}
					case r.conv:
						want = append([]byte{0xA2}, r.reason...)
					default:
						want = append([]byte{0xA1}, r.reason...)
					}
					same := bytes.Equal(m.Reason, want)
					vAssert(!(acc[i] && !local[i]) || same, tag+": failure reason is wrapped with the circuit's own error encrypter (first-hop / malformed / intermediate)")
				} else {
					same := bytes.Equal(m.Reason, r.reason)
					vAssert(!(acc[i] && !local[i]) || same, tag+": a locally failed Add keeps its reason")
				}
			}
		default:
			vAssert(false, tag+": delivered packet is neither settle nor fail")
		}
	}

	// (3) return value
	switch r.kind {
	case c08KindSettle:
		vAssert(err == nil, tag+": a settle is never an error for the caller (accepted, duplicate or unknown)")
	default:
		vAssert((err == nil) == anyAcc, tag+": a fail returns nil iff it was accepted")
		vAssert(!anyClosing || errors.Is(err, ErrCircuitClosing), tag+": a fail for a closing circuit is refused with ErrCircuitClosing")
	}

	// (4) a remote response that names no circuit is remembered for acking
	// (the outgoing link must stop re-forwarding it); nothing else is
	if r.kind != c08KindLocalFail && r.hasDest {
		grew := len(s.pendingSettleFails) == nPendSF+1
		same := len(s.pendingSettleFails) == nPendSF
		vAssert((grew && !anyHit) || (same && anyHit), tag+": destRef is queued for acknowledgement iff no circuit is known for the response")
		if grew {
			vAssert(s.pendingSettleFails[nPendSF] == r.dest, tag+": the queued reference is the packet's destRef")
		}
	} else {
		vAssert(len(s.pendingSettleFails) == nPendSF, tag+": nothing queued for acknowledgement without destRef")
	}

	// (5) local payment: result stored under the attempt id, destRef acked,
	// circuit torn down, nothing delivered to a link
	for i, e := range w.circ {
		bkt := w.db.find(string(networkResultStoreBucketKey))
		k := make([]byte, 8)
		c08PutU64(k, e.in.id)
		stored := bkt != nil && bkt.get(k) != nil
		vAssert(!(acc[i] && local[i]) || stored, tag+": local payment: the result is stored under the attempt id (= incoming HTLC id of the circuit)")
	}
	if r.hasDest {
		ackedNow := len(w.pack.acked) == nAcked+1
		vAssert(ackedNow == wantLocal && (ackedNow || len(w.pack.acked) == nAcked), tag+": the switch acks the destRef itself iff the response closed a local payment")
		if ackedNow {
			vAssert(w.pack.acked[nAcked] == r.dest, tag+": the acked reference is the packet's destRef")
		}
	} else {
		vAssert(len(w.pack.acked) == nAcked, tag+": nothing acked without destRef")
	}
	evs := (w.notif.settles - nSettleEv) + (w.notif.fwdFails - nFailEv)
	vAssert((evs == 1) == wantLocal && evs <= 1, tag+": exactly one settle/fail event iff a local payment was resolved")

	// (6) forwarding event (fee accounting) iff a settle was relayed
	fe := len(s.pendingFwdingEvents) - nFwdEv
	vAssert(fe == 0 || fe == 1, tag+": at most one forwarding event per response")
	vAssert((fe == 1) == (delivered && r.kind == c08KindSettle), tag+": a forwarding event is logged iff a settle was relayed to an incoming link")
	if fe == 1 {
		ev := s.pendingFwdingEvents[nFwdEv]
		for i, e := range w.circ {
			ok := ev.IncomingChanID == e.in.key.ChanID && ev.OutgoingChanID == e.out.key.ChanID &&
				uint64(ev.AmtIn) == e.inAmt && uint64(ev.AmtOut) == e.outAmt
			vAssert(!(acc[i] && !local[i]) || ok, tag+": the forwarding event names the circuit's channels and amounts")
		}
	}

	// ---- advance the abstract state, compare with the real maps ----
	for i := range w.circ {
		a.closing[i] = a.closing[i] || (acc[i] && !local[i])
		a.present[i] = a.present[i] && !(acc[i] && local[i])
	}
	for i, e := range w.circ {
		_, inClosed := w.cm.closed[e.in.key]
		pc := w.cm.LookupCircuit(e.in.key)
		vAssert((pc != nil) == a.present[i], tag+": circuit is removed iff it was a local payment that got its response")
		vAssert(pc == nil || pc == e.c, tag+": circuit object unchanged")
		vAssert(inClosed == (a.present[i] && a.closing[i]), tag+": circuit is closing iff a response was accepted for it")
		if e.hasKs {
			_, inOpened := w.cm.opened[e.out.key]
			vAssert(inOpened == a.present[i], tag+": keystone stays until the circuit is deleted")
		}
		rec := w.adds().index(c08RefKey(e.in)) >= 0
		vAssert(rec == a.present[i], tag+": circuit record is on disk iff the circuit is present")
	}
	vAssert(len(w.cm.pending) <= n, tag+": no circuit appears")
	return delivered
}

func c08RespondOnce(p c08SWParams, kinds int) {
	c08SwConfig()
	w := c08BuildSwitch(p)
	a := c08NewAbs(w)
	r := c08NewResp("r", kinds)
	delivered := c08Step(w, a, r, "respond")
	if delivered {
		switch r.kind {
		case c08KindSettle:
			vReach("settle-relayed")
		case c08KindFail:
			vReach("fail-relayed")
		case c08KindLocalFail:
			vReach("localfail-relayed")
		}
		if len(w.live.pkts) == 1 {
			vReach("to-live-mailbox")
		} else {
			vReach("to-unclaimed")
		}
	} else if len(w.cm.pending) < len(w.circ) {
		vReach("local-payment-resolved")
	} else if len(w.s.pendingSettleFails) == 1 {
		vReach("unknown-queued-for-ack")
	} else {
		vReach("dropped")
	}
}

// VerifC08SwRespond: one response (settle / fail / locally failed add) against
// an arbitrary circuit map with <= 2 circuits.
func VerifC08SwRespond() {
	c08RespondOnce(c08SWParams{nPre: 2, withEnc: true}, 3)
}

// VerifC08SwRespondDeep: <= 3 circuits.
func VerifC08SwRespondDeep() {
	c08RespondOnce(c08SWParams{nPre: 3, withEnc: true}, 3)
}

// c08RespondTwice: two responses in sequence. mode 0: the SAME response again
// (a re-forward of the forwarding package after a link restart, or a duplicate
// resolution message); mode 1: an arbitrary second response (e.g. a fail after
// a settle for the same outgoing HTLC, or a response for the other circuit).
// Across the two steps every circuit gets at most one response delivered.
func c08RespondTwice(p c08SWParams) {
	c08SwConfig()
	w := c08BuildSwitch(p)
	a := c08NewAbs(w)
	r1 := c08NewResp("r", 3)
	d1 := c08Step(w, a, r1, "first")
	mode := vChoice("second", 3)
	var r2 c08Resp
	if mode == 1 {
		r2 = c08NewResp("q", 3)
	} else {
		r2 = r1
	}
	torn := false
	if mode == 2 {
		// the incoming link has committed the response and deletes the
		// circuits it closed (ackDownStreamPackets -> DeleteCircuits); then the
		// outgoing link re-forwards the same response (its forwarding package
		// is not acked yet)
		for i, e := range w.circ {
			_, closing := w.cm.closed[e.in.key]
			if closing && !e.closed {
				if err := w.cm.DeleteCircuits(e.in.key); err != nil {
					panic("c08: DeleteCircuits: " + err.Error())
				}
				a.present[i] = false
				torn = true
			}
		}
	}
	nPresent := len(w.cm.pending)
	nQueued := len(w.s.pendingSettleFails)
	d2 := c08Step(w, a, r2, "second")
	if mode != 1 {
		vAssert(!d2, "twice: the same response fed a second time delivers nothing")
		if mode == 0 && d1 {
			vReach("replay-after-delivery-dropped")
		} else if mode == 0 && nPresent < len(w.circ) {
			// local payment resolved by the first copy: the second finds no
			// circuit and is queued for acknowledgement instead
			vReach("replay-after-local-resolution")
		}
		if torn && r1.hasDest {
			vAssert(len(w.s.pendingSettleFails) == nQueued+1, "twice: a response replayed after its circuit was torn down is queued for acknowledgement")
			vReach("replay-after-teardown-queued-for-ack")
		}
	} else if d1 && d2 {
		vReach("two-circuits-answered")
	}
	// at most one response per incoming HTLC over the whole run
	all := w.deliveries()
	for _, e := range w.circ {
		cnt := 0
		for _, d := range all {
			same := d.pkt.incomingChanID == e.in.key.ChanID && d.pkt.incomingHTLCID == e.in.id
			if same {
				cnt++
			}
		}
		vAssert(cnt <= 1, "twice: at most one response is ever delivered for one incoming HTLC")
		if e.closed {
			vAssert(cnt == 0, "twice: a circuit that was already closing gets no further response")
		}
	}
	vAssert(len(all) <= 2, "twice: two responses yield at most two deliveries")
}

// VerifC08SwRespondTwice: <= 1 circuit (quick).
func VerifC08SwRespondTwice() {
	c08RespondTwice(c08SWParams{nPre: 1, withEnc: false})
}

// VerifC08SwRespondTwiceDeep: <= 2 circuits.
func VerifC08SwRespondTwiceDeep() {
	c08RespondTwice(c08SWParams{nPre: 2, withEnc: false})
}
