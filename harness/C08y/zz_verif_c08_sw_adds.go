package htlcswitch

// Harness for C08 (htlcswitch kernels), K6: which Adds of a REPLAYED forwarding
// package (State == FwdStateProcessed: the link restarted after the package's
// forwarding decisions were persisted) the incoming link hands to the switch
// again, and as what.
//
// Unit (real lnd code): (*channelLink).processRemoteAdds (intermediate-hop
// branch), forwardBatch, (*FwdPkg).SourceRef/ID, PkgFilter.Decode/Contains,
// hop.ForwardingInfo.IsExit/NextHopChannel, experimentalAccountability.
//
// What the property needs from this step ("no HTLC or circuit is left
// dangling", "failed back only once ... never committed"): after a restart an
// Add whose response is not yet committed (not in AckFilter) and that HAD been
// forwarded (in FwdFilter) is offered to the switch again - the circuit map
// then decides: drop (circuit open), or fail back (circuit lost its packet) -
// as a packet that names THIS Add: its HTLC id as incoming key, its own
// (height, index) as sourceRef (that reference is what the eventual response
// acknowledges in the forwarding package), its own onion payload. An Add whose
// response is committed is not offered again; an Add that was not forwarded is
// not forwarded now.

import (
	"bytes"
	"io"

	"github.com/btcsuite/btcd/btcec/v2"
	"github.com/lightningnetwork/lnd/channeldb"
	"github.com/lightningnetwork/lnd/chanstate"
	"github.com/lightningnetwork/lnd/htlcswitch/hop"
	"github.com/lightningnetwork/lnd/lnwire"
)

// c08Iter is a decoded onion: a fixed intermediate-hop payload.
type c08Iter struct {
	pld *hop.Payload
}

func (it *c08Iter) HopPayload() (*hop.Payload, hop.RouteRole, error) {
	return it.pld, hop.RouteRoleCleartext, nil
}
func (it *c08Iter) EncodeNextHop(w io.Writer) error { return nil }
func (it *c08Iter) ExtractErrorEncrypter(hop.ErrorEncrypterExtracter, bool) (hop.ErrorEncrypter, lnwire.FailCode) {
	return c08Obf{}, lnwire.CodeNone
}

// c08Add describes one Add of the package.
type c08Add struct {
	id      uint64
	amt     uint64
	expiry  uint32
	hash    [32]byte
	nextHop uint64
	outAmt  uint64
	outCltv uint32
	msg     *lnwire.UpdateAddHTLC
}

type c08Decoder struct {
	adds      []c08Add
	calls     int
	reforward []bool
	nReqs     int
	unknown   int
}

// decode answers every request with the payload of the Add whose payment hash
// the request names (hashes are pairwise distinct constants), in request order.
func (d *c08Decoder) decode(id []byte, reqs []hop.DecodeHopIteratorRequest, reforward bool) ([]hop.DecodeHopIteratorResponse, error) {
	d.calls++
	d.reforward = append(d.reforward, reforward)
	d.nReqs += len(reqs)
	out := make([]hop.DecodeHopIteratorResponse, 0, len(reqs))
	for _, r := range reqs {
		var it *c08Iter
		for i := range d.adds {
			a := &d.adds[i]
			if bytes.Equal(r.RHash, a.hash[:]) {
				it = &c08Iter{pld: &hop.Payload{FwdInfo: hop.ForwardingInfo{
					NextHop:         hop.NewChannelNextHop(lnwire.NewShortChanIDFromInt(a.nextHop)),
					AmountToForward: lnwire.MilliSatoshi(a.outAmt),
					OutgoingCLTV:    a.outCltv,
				}}}
			}
		}
		if it == nil {
			d.unknown++
			out = append(out, hop.DecodeHopIteratorResponse{FailCode: lnwire.CodeTemporaryChannelFailure})
			continue
		}
		out = append(out, hop.DecodeHopIteratorResponse{HopIterator: it})
	}
	return out, nil
}

func c08Replay(max int, alignedOnly bool) {
	c08LinkConfig()
	vAssumption("C08/K6: replayed package only (State == FwdStateProcessed, or Completed); every Add is an intermediate hop (next hop != hop.Exit, no blinding, no custom records); onion decoding = fake returning a fixed payload per payment hash; the link's mailbox holds no response yet (as after a node restart)")
	n := vChoice("nadds", max+1)
	source, height := vU64("pkg.source"), vU64("pkg.height")
	completed := vBool("pkg.completed")
	dec := &c08Decoder{}
	var ups []channeldb.LogUpdate
	for i := 0; i < n; i++ {
		name := c08Name("add", i)
		a := c08Add{id: vU64(name + ".id"), amt: vU64(name + ".amt"), expiry: vU32(name + ".expiry"),
			nextHop: vU64(name + ".nextHop"), outAmt: vU64(name + ".outAmt"), outCltv: vU32(name + ".outCltv")}
		// intermediate hop
		vAssume(a.nextHop != 0)
		a.hash[0] = byte(i + 1)
		a.hash[31] = 0x5a
		for j := 0; j < i; j++ {
			// HTLC ids of one package are pairwise distinct
			vAssume(a.id != dec.adds[j].id)
		}
		a.msg = &lnwire.UpdateAddHTLC{ID: a.id, Amount: lnwire.MilliSatoshi(a.amt), Expiry: a.expiry, PaymentHash: a.hash}
		dec.adds = append(dec.adds, a)
		ups = append(ups, channeldb.LogUpdate{LogIndex: vU64(name + ".logIndex"), UpdateMsg: a.msg})
	}
	ackB, fwdB := vU8("pkg.ackFilter"), vU8("pkg.fwdFilter")
	mk := func(b byte) *channeldb.PkgFilter {
		var f channeldb.PkgFilter
		raw := []byte{0, byte(n)}
		if n > 0 {
			raw = append(raw, b)
		}
		if err := f.Decode(bytes.NewReader(raw)); err != nil {
			panic("c08: filter decode: " + err.Error())
		}
		return &f
	}
	state := channeldb.FwdStateProcessed
	if completed {
		state = channeldb.FwdStateCompleted
	}
	pkg := &channeldb.FwdPkg{
		Source:           lnwire.NewShortChanIDFromInt(source),
		Height:           height,
		State:            state,
		Adds:             ups,
		FwdFilter:        mk(fwdB),
		AckFilter:        mk(ackB),
		SettleFailFilter: chanstate.NewPkgFilter(0),
	}
	acked := func(i int) bool { return ackB&(0x80>>uint(i)) != 0 }
	fwded := func(i int) bool { return fwdB&(0x80>>uint(i)) != 0 }
	if alignedOnly {
		// RESTRICTED DOMAIN (see NOTES, CANDIDATE FINDING): no acknowledged Add
		// precedes an un-acknowledged one, i.e. position in the list of
		// un-acked Adds == index in the package.
		for i := 0; i < n; i++ {
			for j := i + 1; j < n; j++ {
				vAssume(!(acked(i) && !acked(j)))
			}
		}
		vAssumption("C08/K6 (registered variant only): no acknowledged Add precedes an un-acknowledged Add in the package; the unrestricted entry VerifC08SwReplayAdds reports a candidate finding outside this domain")
	}

	fwd := c08NewFwd()
	mb := &c08Mailbox{}
	peer := &c08Peer{}
	l := c08NewLink(fwd, mb)
	l.cfg.DecodeHopIterators = dec.decode
	l.cfg.BestHeight = func() uint32 { return 500 }
	l.cfg.ShouldFwdExpAccountability = func() bool { return false }
	l.cfg.ExtractErrorEncrypter = func(*btcec.PublicKey) (hop.ErrorEncrypter, lnwire.FailCode) {
		return c08Obf{}, lnwire.CodeNone
	}
	l.cfg.Peer = peer

	l.processRemoteAdds(pkg)

	// ---- oracle ----
	want, unacked := 0, 0
	for i := 0; i < n; i++ {
		if !completed && !acked(i) {
			unacked++
			if fwded(i) {
				want++
			}
		}
	}
	vAssert(len(fwd.pkts) == want, "replay: exactly the Adds that are not yet acknowledged and were forwarded before are offered to the switch again")
	vAssert(fwd.calls <= 1 && (fwd.calls == 1) == (want > 0), "replay: one batch, only if there is something to re-forward")
	if fwd.calls == 1 {
		vAssert(fwd.replays[0], "replay: the batch is marked as a replay")
	}
	if !completed {
		vAssert(dec.calls == 1 && dec.reforward[0] && dec.nReqs == unacked && dec.unknown == 0, "replay: the onions of exactly the un-acked Adds are decoded, as a re-forward (no replay-protection hit)")
	} else {
		vAssert(dec.calls == 0, "replay: a completed package is not processed")
	}
	j := 0
	for i := 0; i < n; i++ {
		if completed || acked(i) || !fwded(i) {
			continue
		}
		if j >= len(fwd.pkts) {
			break
		}
		p := fwd.pkts[j]
		j++
		a := dec.adds[i]
		vAssert(p.incomingChanID == lnwire.NewShortChanIDFromInt(c08LinkScid) && p.incomingHTLCID == a.id,
			"replay: the packet's incoming key is (this link, the Add's HTLC id)")
		vAssert(p.sourceRef != nil && p.sourceRef.Height == height && p.sourceRef.Index == uint16(i),
			"replay: sourceRef is the Add's own (package height, index in the package)")
		vAssert(p.outgoingChanID == lnwire.NewShortChanIDFromInt(a.nextHop) && uint64(p.amount) == a.outAmt && p.outgoingTimeout == a.outCltv,
			"replay: next hop, amount and expiry come from the Add's own onion payload")
		vAssert(uint64(p.incomingAmount) == a.amt && p.incomingTimeout == a.expiry, "replay: incoming amount / expiry are the Add's")
		out, ok := p.htlc.(*lnwire.UpdateAddHTLC)
		vAssert(ok && out.PaymentHash == a.hash && uint64(out.Amount) == a.outAmt && out.Expiry == a.outCltv,
			"replay: the outgoing update_add_htlc carries the Add's payment hash and the payload's amount / expiry")
		vAssert(p.destRef == nil && !p.hasSource && p.circuit == nil, "replay: an Add packet has no destRef / circuit yet")
	}
	vAssert(len(peer.sent) == 0, "replay: nothing is sent to the peer while replaying intermediate-hop Adds")
	switch {
	case completed:
		vReach("completed-skipped")
	case n == 0:
		vReach("no-adds")
	case want == n:
		vReach("all-reforwarded")
	case want > 0 && unacked < n:
		vReach("reforward-with-some-acked")
	case want > 0:
		vReach("some-reforwarded")
	case unacked == 0:
		vReach("all-acked")
	default:
		vReach("none-was-forwarded")
	}
}

// VerifC08SwReplayAdds: <= 2 Adds, arbitrary AckFilter / FwdFilter.
// NOT registered in a tier: it reports the candidate finding described in
// NOTES (the index of an un-acked Add is taken from the compacted list).
func VerifC08SwReplayAdds() { c08Replay(2, false) }

// VerifC08SwReplayAddsDeep: <= 3 Adds (not registered either).
func VerifC08SwReplayAddsDeep() { c08Replay(3, false) }

// VerifC08SwReplayAddsAligned: <= 2 Adds, acked Adds only behind un-acked ones.
func VerifC08SwReplayAddsAligned() { c08Replay(2, true) }

// VerifC08SwReplayAddsAlignedDeep: <= 3 Adds.
func VerifC08SwReplayAddsAlignedDeep() { c08Replay(3, true) }
