package htlcswitch

// C08y (staging copy of the C08 K3 harness, extended): WHEN is a response
// packet removed from the link's mailbox. Differences to C08:
//   * (*channelLink).updateCommitTxOrFail is NOT replaced any more: the real
//     updateCommitTxOrFail / updateCommitTx / ackDownStreamPackets run
//     symbolically; only (*LightningChannel).SignNextCommitment (fake: success
//     or lnwallet.ErrNoWindow, decided by the symbolic world flag "noWindow"),
//     NumPendingUpdates (trace argument only) and (*fn.ContextGuard).Create
//     (context plumbing) are replaced;
//   * the fake channel distinguishes references handed to the update log
//     (in memory, lost on reload) from references persisted by a signed
//     commitment;
//   * the mailbox fake records, for every AckPacket, whether a commitment had
//     been signed in the current step at that moment.
//
// Harness for C08 (htlcswitch kernels), K3: what the INCOMING link does with a
// settle / fail packet the switch delivered to it.
//
// Unit (real lnd code): (*channelLink).handleDownstreamPkt,
// processLocalUpdateFulfillHTLC, processLocalUpdateFailHTLC,
// sendIncomingHTLCFailureMsg, cleanupSpuriousResponse, newHtlcKey, getEventType.
//
// The link's *lnwallet.LightningChannel cannot be built from this package.
// Symbolically its methods SettleHTLC / FailHTLC / AckAddHtlcs / AckSettleFails
// / ChannelPoint and (*channelLink).updateCommitTxOrFail are replaced by the
// recording fakes below; the fake channel is "one incoming HTLC, id 0, payment
// hash sha256(c08P0), not yet removed" and decides exactly like lnwallet does
// (that decision itself is kernel K4 in ./lnwallet: unknown id ->
// ErrUnknownHtlcIndex, already removed -> ErrHtlcIndexAlreadySettled/Failed,
// sha256(preimage) != hash -> ErrInvalidSettlePreimage). The native replay
// runs the REAL methods on a real channel in exactly that state (fresh per
// run, zz_verif_c08_sw_setup_test.go), including the real updateCommitTx ->
// SignNextCommitment, so every assertion below is evaluated on real code
// natively; the ack references are then read from the persisted CommitDiff.

import (
	"bytes"
	"context"
	"time"

	"github.com/btcsuite/btcd/wire/v2"
	"github.com/lightningnetwork/lnd/channeldb"
	"github.com/lightningnetwork/lnd/contractcourt"
	"github.com/lightningnetwork/lnd/fn/v2"
	"github.com/lightningnetwork/lnd/graph/db/models"
	"github.com/lightningnetwork/lnd/htlcswitch/hop"
	"github.com/lightningnetwork/lnd/lntypes"
	"github.com/lightningnetwork/lnd/lnwallet"
	"github.com/lightningnetwork/lnd/lnwire"
)

// c08P0 is the preimage of the one incoming HTLC (id 0) of the replay channel.
var c08P0 = [32]byte{0x50, 0x30, 0x11, 0x22, 0x33, 0x44, 0x55, 0x66, 0x77, 0x88, 0x99, 0xaa, 0xbb, 0xcc, 0xdd, 0xee,
	0x01, 0x02, 0x03, 0x04, 0x05, 0x06, 0x07, 0x08, 0x09, 0x0a, 0x0b, 0x0c, 0x0d, 0x0e, 0x0f, 0x10}

// vC08FreshChan is set by the native replay test: a new real channel (our side)
// that has one incoming HTLC with id 0 and payment hash sha256(c08P0) locked in.
var vC08FreshChan func() *lnwallet.LightningChannel

// vC08yCloseWindow is set by the native replay test: it puts the fresh real
// channel into the "no revocation window" state (we add an outgoing HTLC and
// sign one commitment for the peer whose revocation never arrives), so that
// the next real SignNextCommitment returns lnwallet.ErrNoWindow.
var vC08yCloseWindow func(ch *lnwallet.LightningChannel)

// References the replay channel can observe: the forwarding package in which
// the incoming Add was locked in (c08SrcHeight is measured by the native setup
// and substituted by vcheck), and a forwarding package of ANOTHER channel
// (c08DstScid, c08DstHeight) holding one settle, which the setup writes into
// the same channel DB. vC08SrcAcked / vC08DstAcked read the AckFilter bit /
// SettleFailFilter bit of these packages from the real DB.
const (
	c08SrcHeight = uint64(C08SRC_HEIGHT)
	c08DstScid   = uint64(0x0000880000020003)
	c08DstHeight = uint64(9)
)

var (
	vC08SrcAcked func() bool
	vC08DstAcked func() bool
)

// c08Chan is the symbolic stand-in for that channel.
type c08Chan struct {
	modified   bool
	addAcks    []channeldb.AddRef
	sfAcks     []channeldb.SettleFailRef
	closedKeys []models.CircuitKey
	cleanAdds  []channeldb.AddRef
	cleanSFs   []channeldb.SettleFailRef
	commits    int
	// noWindow: the peer owes us a revocation, SignNextCommitment refuses.
	noWindow bool
	// what a signed commitment persisted (CommitDiff: AddAcks,
	// SettleFailAcks, ClosedCircuitKeys) - the lists above are only the
	// in-memory update log until then.
	signedAdds []channeldb.AddRef
	signedSFs  []channeldb.SettleFailRef
	signedKeys []models.CircuitKey
}

var c08Ch *c08Chan

func (c *c08Chan) accept(src *channeldb.AddRef, dst *channeldb.SettleFailRef, key *models.CircuitKey) {
	c.modified = true
	if src != nil {
		c.addAcks = append(c.addAcks, *src)
	}
	if dst != nil {
		c.sfAcks = append(c.sfAcks, *dst)
	}
	if key != nil {
		c.closedKeys = append(c.closedKeys, *key)
	}
}

func vC08SettleHTLC(lc *lnwallet.LightningChannel, preimage [32]byte, htlcIndex uint64,
	sourceRef *channeldb.AddRef, destRef *channeldb.SettleFailRef, closeKey *models.CircuitKey) error {

	if htlcIndex != 0 {
		return lnwallet.ErrUnknownHtlcIndex{}
	}
	if c08Ch.modified {
		return lnwallet.ErrHtlcIndexAlreadySettled(htlcIndex)
	}
	if preimage != c08P0 {
		return lnwallet.ErrInvalidSettlePreimage{}
	}
	c08Ch.accept(sourceRef, destRef, closeKey)
	return nil
}

func vC08FailHTLC(lc *lnwallet.LightningChannel, htlcIndex uint64, reason []byte,
	sourceRef *channeldb.AddRef, destRef *channeldb.SettleFailRef, closeKey *models.CircuitKey) error {

	if htlcIndex != 0 {
		return lnwallet.ErrUnknownHtlcIndex{}
	}
	if c08Ch.modified {
		return lnwallet.ErrHtlcIndexAlreadyFailed(htlcIndex)
	}
	c08Ch.accept(sourceRef, destRef, closeKey)
	return nil
}

func vC08AckAddHtlcs(lc *lnwallet.LightningChannel, ref channeldb.AddRef) error {
	c08Ch.cleanAdds = append(c08Ch.cleanAdds, ref)
	return nil
}

func vC08AckSettleFails(lc *lnwallet.LightningChannel, refs ...channeldb.SettleFailRef) error {
	c08Ch.cleanSFs = append(c08Ch.cleanSFs, refs...)
	return nil
}

func vC08ChannelPoint(lc *lnwallet.LightningChannel) wire.OutPoint {
	return wire.OutPoint{Index: 7}
}

// vC08ySign stands for (*LightningChannel).SignNextCommitment: without a
// revocation window it refuses with ErrNoWindow and changes nothing; otherwise
// the commitment diff (with the references and closed circuit keys of the
// update log) is persisted and an (empty) signature set is returned.
func vC08ySign(lc *lnwallet.LightningChannel, ctx context.Context) (*lnwallet.NewCommitState, error) {
	if c08Ch.noWindow {
		return nil, lnwallet.ErrNoWindow
	}
	c08Ch.commits++
	c08Ch.signedAdds = append([]channeldb.AddRef{}, c08Ch.addAcks...)
	c08Ch.signedSFs = append([]channeldb.SettleFailRef{}, c08Ch.sfAcks...)
	c08Ch.signedKeys = append([]models.CircuitKey{}, c08Ch.closedKeys...)
	return &lnwallet.NewCommitState{CommitSigs: &lnwallet.CommitSigs{}}, nil
}

// only an argument of a trace log line in updateCommitTx
func vC08yNumPending(lc *lnwallet.LightningChannel, a, b lntypes.ChannelParty) uint64 { return 1 }

// context plumbing of updateCommitTx (context.WithCancel / AfterFunc)
func vC08yCgCreate(g *fn.ContextGuard, ctx context.Context,
	options ...fn.ContextGuardOption) (context.Context, context.CancelFunc) {

	return ctx, func() {}
}

// c08yMailbox: the recording mailbox fake plus, per AckPacket, whether a
// commitment had been signed in the current step at that moment.
type c08yMailbox struct {
	*c08Mailbox
	signedNow   func() bool
	ackedSigned []bool
}

func (m *c08yMailbox) AckPacket(k CircuitKey) bool {
	m.ackedSigned = append(m.ackedSigned, m.signedNow())
	return m.c08Mailbox.AckPacket(k)
}

// c08CircMod records what the link asks of the circuit map.
type c08CircMod struct {
	deleted []CircuitKey
	opened  int
}

func (m *c08CircMod) OpenCircuits(ks ...Keystone) error { m.opened += len(ks); return nil }
func (m *c08CircMod) TrimOpenCircuits(lnwire.ShortChannelID, uint64) error {
	panic("c08: TrimOpenCircuits not expected")
}
func (m *c08CircMod) DeleteCircuits(keys ...CircuitKey) error {
	m.deleted = append(m.deleted, keys...)
	return nil
}

// c08Ticker never ticks.
type c08Ticker struct{}

func (c08Ticker) Ticks() <-chan time.Time { return nil }
func (c08Ticker) Resume()                 {}
func (c08Ticker) Pause()                  {}
func (c08Ticker) Stop()                   {}

// c08Quiescer: only CanSendUpdates is asked by the kernel.
type c08Quiescer struct {
	Quiescer
	canSend bool
}

func (q *c08Quiescer) CanSendUpdates() bool { return q.canSend }

func c08DownConfig() {
	c08LinkConfig()
	vReplace("(*github.com/lightningnetwork/lnd/lnwallet.LightningChannel).SettleHTLC", "github.com/lightningnetwork/lnd/htlcswitch.vC08SettleHTLC")
	vReplace("(*github.com/lightningnetwork/lnd/lnwallet.LightningChannel).FailHTLC", "github.com/lightningnetwork/lnd/htlcswitch.vC08FailHTLC")
	vReplace("(*github.com/lightningnetwork/lnd/lnwallet.LightningChannel).AckAddHtlcs", "github.com/lightningnetwork/lnd/htlcswitch.vC08AckAddHtlcs")
	vReplace("(*github.com/lightningnetwork/lnd/lnwallet.LightningChannel).AckSettleFails", "github.com/lightningnetwork/lnd/htlcswitch.vC08AckSettleFails")
	vReplace("(*github.com/lightningnetwork/lnd/lnwallet.LightningChannel).ChannelPoint", "github.com/lightningnetwork/lnd/htlcswitch.vC08ChannelPoint")
	vReplace("(*github.com/lightningnetwork/lnd/lnwallet.LightningChannel).SignNextCommitment", "github.com/lightningnetwork/lnd/htlcswitch.vC08ySign")
	vReplace("(*github.com/lightningnetwork/lnd/lnwallet.LightningChannel).NumPendingUpdates", "github.com/lightningnetwork/lnd/htlcswitch.vC08yNumPending")
	vReplace("(*github.com/lightningnetwork/lnd/fn/v2.ContextGuard).Create", "github.com/lightningnetwork/lnd/htlcswitch.vC08yCgCreate")
	vAssumption("C08y/K3: the real updateCommitTxOrFail/updateCommitTx/ackDownStreamPackets run symbolically; (*LightningChannel).SignNextCommitment is a fake that either refuses with lnwallet.ErrNoWindow (symbolic world flag noWindow; nothing persisted) or persists the references / closed circuit keys of the update log and returns an empty signature set; NumPendingUpdates (trace argument) and fn.ContextGuard.Create (context plumbing) are stubs. Natively the real methods run; noWindow = the real channel has an un-revoked commitment outstanding (we added an outgoing HTLC and signed once)")
	vAssumption("C08/K3: the incoming link's channel has exactly one incoming HTLC (id 0, hash sha256(P0), P0 a fixed constant) that is locked in and not yet removed; symbolically LightningChannel.SettleHTLC/FailHTLC/AckAddHtlcs/AckSettleFails/ChannelPoint are recording fakes deciding like lnwallet (K4 checks lnwallet itself), natively the real methods run on a real channel in that state; sha256 collision-free (a preimage other than P0 does not hash to the HTLC's hash)")
	vAssumption("C08/K3: sourceRef is nil or the real reference of the incoming Add, destRef is nil or one fixed reference into another channel's forwarding package (both observable in the replay channel's DB); hodl mask none; error encrypter nil or a non-blinded mock")
}

// c08DownPkt describes a response packet as the switch delivers it.
type c08DownPkt struct {
	settle   bool
	in       c08K
	preimage [32]byte
	reason   []byte
	hasSrc   bool
	src      channeldb.AddRef
	hasDst   bool
	dst      channeldb.SettleFailRef
	obf      bool
	out      c08K
}

func c08NewDownPkt(name string) c08DownPkt {
	p := c08DownPkt{settle: vChoice(name+".kind", 2) == 0}
	p.in = c08Key(name + ".in")
	p.out = c08Key(name + ".out")
	if p.settle {
		copy(p.preimage[:], vBytes(name+".preimage", 32))
	} else {
		p.reason = vBytes(name+".reason", 3)
		p.obf = vBool(name + ".obfuscator")
	}
	if vBool(name + ".hasSourceRef") {
		// circuit.AddRef of the incoming Add: (height of its package, index 0)
		p.hasSrc = true
		p.src = channeldb.AddRef{Height: c08SrcHeight, Index: 0}
	}
	if vBool(name + ".hasDestRef") {
		// the response is locked in in a forwarding package of the outgoing link
		p.hasDst = true
		p.dst = channeldb.SettleFailRef{Source: lnwire.NewShortChanIDFromInt(c08DstScid), Height: c08DstHeight, Index: 0}
	}
	return p
}

func (d c08DownPkt) packet() *htlcPacket {
	p := &htlcPacket{
		incomingChanID: d.in.key.ChanID,
		incomingHTLCID: d.in.id,
		outgoingChanID: d.out.key.ChanID,
		outgoingHTLCID: d.out.id,
	}
	if d.hasSrc {
		s := d.src
		p.sourceRef = &s
	}
	if d.hasDst {
		s := d.dst
		p.destRef = &s
	}
	if d.settle {
		p.htlc = &lnwire.UpdateFulfillHTLC{PaymentPreimage: d.preimage}
	} else {
		p.htlc = &lnwire.UpdateFailHTLC{Reason: append(lnwire.OpaqueReason{}, d.reason...)}
		if d.obf {
			p.obfuscator = c08Obf{}
		}
	}
	return p
}

type c08DownWorld struct {
	l     *channelLink
	peer  *c08Peer
	mb    *c08Mailbox
	ymb   *c08yMailbox
	circ  *c08CircMod
	notif *c08Notifier
	// position markers of the previous step
	nSent, nAck, nDel, nCommit int
	noWindow                   bool
	tip0                       uint64
	failedLink               bool
	expSrc, expDst           bool
}

func c08NewDownWorld() *c08DownWorld {
	w := &c08DownWorld{peer: &c08Peer{}, mb: &c08Mailbox{}, circ: &c08CircMod{}, notif: &c08Notifier{}}
	w.noWindow = vBool("noWindow")
	c08Ch = &c08Chan{noWindow: w.noWindow}
	ch := vC08Chan
	if vNative() && vC08FreshChan != nil {
		ch = vC08FreshChan()
		if w.noWindow {
			vC08yCloseWindow(ch)
		}
	}
	w.ymb = &c08yMailbox{c08Mailbox: w.mb, signedNow: w.signedNow}
	w.l = &channelLink{
		cfg: ChannelLinkConfig{
			Peer:                 w.peer,
			Circuits:             w.circ,
			HtlcNotifier:         w.notif,
			PendingCommitTicker:  c08Ticker{},
			NotifyContractUpdate: func(*contractcourt.ContractUpdate) error { return nil },
			OnChannelFailure: func(lnwire.ChannelID, lnwire.ShortChannelID, LinkFailureError) {
				w.failedLink = true
			},
		},
		channel:  ch,
		mailBox:  w.ymb,
		log:      log,
		cg:       fn.NewContextGuard(),
		quiescer: &c08Quiescer{canSend: true},
	}
	return w
}

// htlcMsgs: the HTLC-resolving wire messages sent since the marker (natively
// the real updateCommitTx also sends a CommitSig, which is not one).
func (w *c08DownWorld) htlcMsgs() []lnwire.Message {
	var out []lnwire.Message
	for _, m := range w.peer.sent[w.nSent:] {
		switch m.(type) {
		case *lnwire.UpdateFulfillHTLC, *lnwire.UpdateFailHTLC, *lnwire.UpdateFailMalformedHTLC:
			out = append(out, m)
		}
	}
	return out
}

// tipHeight: height of the newest commitment we signed for the peer that is
// not yet revoked by it (0: none). Native only.
func (w *c08DownWorld) tipHeight() uint64 {
	diff, err := w.l.channel.State().RemoteCommitChainTip()
	if err != nil {
		return 0
	}
	return diff.Commitment.CommitHeight
}

// signedNow: has a commitment been signed (and its diff persisted) since the
// current step began? Natively read from the real channel DB.
func (w *c08DownWorld) signedNow() bool {
	if !vNative() {
		return c08Ch.commits > w.nCommit
	}
	return w.tipHeight() > w.tip0
}

// committed: a new commitment was signed for the peer in this step.
func (w *c08DownWorld) committed() bool {
	if !vNative() {
		return c08Ch.commits > w.nCommit
	}
	for _, m := range w.peer.sent[w.nSent:] {
		if _, ok := m.(*lnwire.CommitSig); ok {
			return true
		}
	}
	return false
}

// acked: have the two observable references been acknowledged so far
// (with a commitment, or by cleanupSpuriousResponse)? Natively: read from the
// real channel DB. closedKeys: the circuit keys persisted with the commitment
// just signed.
func (w *c08DownWorld) acked() (src, dst bool) {
	if vNative() {
		return vC08SrcAcked(), vC08DstAcked()
	}
	for _, r := range c08Ch.signedAdds {
		src = src || r == (channeldb.AddRef{Height: c08SrcHeight, Index: 0})
	}
	for _, r := range c08Ch.cleanAdds {
		src = src || r == (channeldb.AddRef{Height: c08SrcHeight, Index: 0})
	}
	want := channeldb.SettleFailRef{Source: lnwire.NewShortChanIDFromInt(c08DstScid), Height: c08DstHeight, Index: 0}
	for _, r := range c08Ch.signedSFs {
		dst = dst || r == want
	}
	for _, r := range c08Ch.cleanSFs {
		dst = dst || r == want
	}
	return src, dst
}

func (w *c08DownWorld) closedKeys() []models.CircuitKey {
	if !vNative() {
		return c08Ch.signedKeys
	}
	diff, err := w.l.channel.State().RemoteCommitChainTip()
	if err != nil {
		return nil
	}
	return diff.ClosedCircuitKeys
}

func c08DownStep(w *c08DownWorld, d c08DownPkt, modified bool, tag string) bool {
	l := w.l
	inKey := d.in.key
	w.nSent, w.nAck, w.nDel, w.nCommit = len(w.peer.sent), len(w.mb.acked), len(w.circ.deleted), c08Ch.commits
	nSettleEv, nFailEv := w.notif.settles, w.notif.fwdFails+w.notif.linkFails
	nClosed := len(l.closedCircuits)
	if vNative() {
		w.tip0 = w.tipHeight()
	}

	// ---- oracle ----
	known := d.in.id == 0
	ok := known && !modified && (!d.settle || d.preimage == c08P0)

	pkt := d.packet()
	l.handleDownstreamPkt(context.Background(), pkt)

	msgs := w.htlcMsgs()
	vAssert(len(msgs) <= 1, tag+": at most one HTLC-resolving message per packet")
	vAssert((len(msgs) == 1) == ok, tag+": update_fulfill_htlc / update_fail_htlc is sent to the incoming peer iff the channel accepted the settle / fail (HTLC known, not yet removed, preimage matches its hash)")
	if len(msgs) == 1 {
		switch m := msgs[0].(type) {
		case *lnwire.UpdateFulfillHTLC:
			vAssert(d.settle, tag+": a fail packet does not produce update_fulfill_htlc")
			vAssert(m.PaymentPreimage == d.preimage, tag+": update_fulfill_htlc carries the preimage of the packet")
			vAssert(m.ID == d.in.id && m.ChanID == l.ChanID(), tag+": update_fulfill_htlc names the packet's incoming HTLC id on this channel")
		case *lnwire.UpdateFailHTLC:
			vAssert(!d.settle, tag+": a settle packet does not produce update_fail_htlc")
			vAssert(bytes.Equal(m.Reason, d.reason), tag+": update_fail_htlc carries the reason of the packet")
			vAssert(m.ID == d.in.id && m.ChanID == l.ChanID(), tag+": update_fail_htlc names the packet's incoming HTLC id on this channel")
		default:
			vAssert(false, tag+": unexpected message type for a non-blinded hop")
		}
	}
	vAssert(w.committed() == (ok && !w.noWindow), tag+": a commitment is signed iff the channel accepted the settle / fail and a revocation window is available")
	// mailbox acknowledgements of this step
	acks := w.mb.acked[w.nAck:]
	nAckIn := 0
	for i, k := range acks {
		if k == inKey {
			nAckIn++
			if ok {
				vAssert(w.ymb.ackedSigned[w.nAck+i], tag+": an accepted response is removed from the mailbox only after a commitment that includes it was signed")
			}
		}
	}
	if ok {
		keys := w.closedKeys()
		if w.noWindow {
			// accepted, but nothing could be signed: the response is only
			// in the in-memory update log, which a reload forgets. The
			// mailbox must keep the packet, the circuit must stay, and
			// nothing may be acknowledged on disk.
			for _, k := range keys {
				vAssert(k != inKey, tag+": no closed circuit key is persisted without a signed commitment")
			}
			vAssert(nAckIn == 0, tag+": an accepted response stays in the mailbox while no commitment including it could be signed (no revocation window)")
			vAssert(len(acks) == 0, tag+": nothing is removed from the mailbox without a signed commitment")
			vAssert(len(w.circ.deleted) == w.nDel, tag+": no circuit is deleted while the response is not covered by a signed commitment")
			vAssert(len(l.closedCircuits) == nClosed+1 && l.closedCircuits[nClosed] == inKey, tag+": the circuit of the packet's incoming key stays queued for deletion until a commitment is signed")
			vReach("accepted-no-window-kept-in-mailbox")
		} else {
			vAssert(len(keys) >= 1 && keys[len(keys)-1] == inKey, tag+": the closed circuit key handed to the channel is the packet's incoming key")
			vAssert(nAckIn == 1 && len(acks) == 1, tag+": once the commitment is signed exactly the accepted response (its incoming key) is removed from the mailbox, once")
			vAssert(len(w.circ.deleted) == w.nDel+1 && w.circ.deleted[w.nDel] == inKey, tag+": the circuit of the packet's incoming key is deleted once the commitment is signed")
			vAssert(len(l.closedCircuits) == 0, tag+": the deletion queue is empty after the signed commitment")
			w.expSrc = w.expSrc || d.hasSrc
			w.expDst = w.expDst || d.hasDst
			vReach("accepted-signed-then-acked")
		}
		if d.settle {
			vAssert(w.notif.settles == nSettleEv+1 && w.notif.lastPre == lntypes.Preimage(d.preimage), tag+": one settle event with the packet's preimage")
		} else {
			vAssert(w.notif.fwdFails+w.notif.linkFails == nFailEv+1, tag+": one fail event")
		}
	} else {
		vAssert(w.notif.settles == nSettleEv && w.notif.fwdFails+w.notif.linkFails == nFailEv, tag+": no settle / fail event when the channel refused")
		vAssert(nAckIn >= 1, tag+": a refused response is removed from the mailbox (no redelivery)")
		for _, k := range acks {
			vAssert(k == inKey, tag+": a refused response removes nothing but itself from the mailbox")
		}
		// spurious response for an unknown HTLC: references are cleaned up,
		// but only if the Add can be acknowledged first
		cleaned := len(w.circ.deleted) > w.nDel
		vAssert(cleaned == (!known && d.hasSrc), tag+": circuit of a spurious response is deleted iff the HTLC index is unknown and the packet has a sourceRef")
		if cleaned {
			vAssert(len(w.circ.deleted) == w.nDel+1 && w.circ.deleted[w.nDel] == inKey, tag+": cleanup deletes exactly the packet's incoming key")
		}
		vAssert(len(l.closedCircuits) == nClosed, tag+": a refused response queues no circuit deletion")
	}
	if !ok && !known && d.hasSrc {
		// cleanupSpuriousResponse acknowledges both references itself
		w.expSrc = true
		w.expDst = w.expDst || d.hasDst
	}
	src, dst := w.acked()
	vAssert(src == w.expSrc, tag+": the Add reference is acknowledged iff a response carrying it was accepted by the channel (or cleaned up as spurious)")
	vAssert(dst == w.expDst, tag+": the settle/fail reference is acknowledged iff a response carrying it was accepted by the channel (or cleaned up as spurious)")
	if !vNative() {
		// no other reference is ever handed to the channel
		srcRef := channeldb.AddRef{Height: c08SrcHeight, Index: 0}
		dstRef := channeldb.SettleFailRef{Source: lnwire.NewShortChanIDFromInt(c08DstScid), Height: c08DstHeight, Index: 0}
		for _, r := range c08Ch.addAcks {
			vAssert(r == srcRef, tag+": no Add reference other than the packet's is handed to the channel")
		}
		for _, r := range c08Ch.cleanAdds {
			vAssert(r == srcRef, tag+": no Add reference other than the packet's is cleaned up")
		}
		for _, r := range c08Ch.sfAcks {
			vAssert(r == dstRef, tag+": no settle/fail reference other than the packet's is handed to the channel")
		}
		for _, r := range c08Ch.cleanSFs {
			vAssert(r == dstRef, tag+": no settle/fail reference other than the packet's is cleaned up")
		}
	}
	vAssert(!w.failedLink, tag+": the link does not fail")
	return ok
}

// VerifC08ySwDownAck: two response packets in sequence at the incoming link
// (the second is arbitrary: same HTLC again, other kind, unknown HTLC ...).
func VerifC08ySwDownAck() {
	c08DownConfig()
	w := c08NewDownWorld()
	d1 := c08NewDownPkt("p")
	ok1 := c08DownStep(w, d1, false, "downstream")
	if ok1 && d1.settle {
		vReach("settled-upstream")
	} else if ok1 {
		vReach("failed-upstream")
	} else if d1.in.id != 0 && d1.hasSrc {
		vReach("spurious-cleaned")
	} else if d1.in.id != 0 {
		vReach("spurious-no-sourceref")
	} else {
		vReach("wrong-preimage-refused")
	}
	if vChoice("second", 2) == 1 {
		d2 := c08NewDownPkt("q")
		ok2 := c08DownStep(w, d2, ok1, "downstream-2nd")
		vAssert(!(ok1 && ok2), "downstream: one incoming HTLC gets at most one settle / fail message")
		if ok1 && d2.in.id == 0 {
			vReach("second-response-refused")
		}
		if !ok1 && ok2 {
			vReach("second-accepted-after-refusal")
		}
	}
}

// the hop package is only used for the encrypter type of the fake
var _ = hop.EncrypterTypeMock
