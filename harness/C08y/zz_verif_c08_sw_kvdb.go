package htlcswitch

// Harness for C08 (htlcswitch kernels), part 0: the fake kvdb backend.
//
// c08DB is the in-memory walletdb.DB (= kvdb.Backend) of the C07 harness,
// copied under a c08 prefix (harness files of different properties are not
// compiled together): top-level buckets as ordered key/value lists. A
// read-write transaction draws a symbolic "this transaction fails" flag only
// when the world asks for it (c08DB.inject); a failed transaction leaves the
// store exactly as it was: the atomicity kvdb promises is ASSUMED.

import (
	"bytes"
	"errors"
	"io"

	"github.com/btcsuite/btcwallet/walletdb"
)

type c08KV struct{ k, v []byte }

type c08Bucket struct {
	name string
	kvs  []c08KV
}

type c08DB struct {
	buckets  []*c08Bucket
	errWrite error
	failAtOp bool
	inject   bool
	// txs counts read-write transactions started, fails records the failure
	// flag each of them drew (environment inputs the oracles may read).
	txs   int
	fails []bool
}

func c08NewDB() *c08DB {
	return &c08DB{errWrite: errors.New("c08: injected write failure")}
}

func (d *c08DB) find(name string) *c08Bucket {
	for _, b := range d.buckets {
		if b.name == name {
			return b
		}
	}
	return nil
}

func (d *c08DB) mustBucket(name string) *c08Bucket {
	if b := d.find(name); b != nil {
		return b
	}
	b := &c08Bucket{name: name}
	d.buckets = append(d.buckets, b)
	return b
}

func c08CopyBytes(b []byte) []byte {
	if b == nil {
		return nil
	}
	c := make([]byte, len(b))
	copy(c, b)
	return c
}

// snapshot copies the bucket list and every bucket's entry list (the byte
// slices themselves are never modified in place).
func (d *c08DB) snapshot() []*c08Bucket {
	s := make([]*c08Bucket, len(d.buckets))
	for i, b := range d.buckets {
		nb := &c08Bucket{name: b.name, kvs: make([]c08KV, len(b.kvs))}
		copy(nb.kvs, b.kvs)
		s[i] = nb
	}
	return s
}

func (b *c08Bucket) index(key []byte) int {
	for i := range b.kvs {
		if bytes.Equal(b.kvs[i].k, key) {
			return i
		}
	}
	return -1
}

func (b *c08Bucket) get(key []byte) []byte {
	if i := b.index(key); i >= 0 {
		return b.kvs[i].v
	}
	return nil
}

func (d *c08DB) BeginReadTx() (walletdb.ReadTx, error) {
	panic("c08 fake kvdb: BeginReadTx is not used by the code under test")
}
func (d *c08DB) BeginReadWriteTx() (walletdb.ReadWriteTx, error) {
	panic("c08 fake kvdb: BeginReadWriteTx is not used by the code under test")
}
func (d *c08DB) Copy(w io.Writer) error { panic("c08 fake kvdb: Copy is not used by the code under test") }
func (d *c08DB) Close() error           { return nil }
func (d *c08DB) PrintStats() string     { return "" }

func (d *c08DB) View(f func(tx walletdb.ReadTx) error, reset func()) error {
	reset()
	return f(&c08Tx{db: d})
}

// Update runs one atomic read-write transaction.
func (d *c08DB) Update(f func(tx walletdb.ReadWriteTx) error, reset func()) error {
	// failure injection is switched on per entry (every injected transaction
	// forks the path)
	fail := false
	if d.inject {
		fail = vBool("db.fail")
	}
	d.txs++
	d.fails = append(d.fails, fail)
	snap := d.snapshot()
	reset()
	tx := &c08Tx{db: d, writable: true}
	if fail && d.failAtOp {
		// the failure shows either at the first Put/Delete or at commit
		tx.failOp = vBool("db.failAtFirstWrite")
	}
	err := f(tx)
	if err == nil && fail {
		err = d.errWrite
	}
	if err != nil {
		d.buckets = snap
		return err
	}
	return nil
}

type c08Tx struct {
	db       *c08DB
	writable bool
	failOp   bool
}

func (t *c08Tx) bucket(key []byte) *c08BucketH {
	b := t.db.find(string(key))
	if b == nil {
		return nil
	}
	return &c08BucketH{b: b, tx: t}
}

func (t *c08Tx) ReadBucket(key []byte) walletdb.ReadBucket {
	if h := t.bucket(key); h != nil {
		return h
	}
	return nil
}

func (t *c08Tx) ReadWriteBucket(key []byte) walletdb.ReadWriteBucket {
	if h := t.bucket(key); h != nil {
		return h
	}
	return nil
}

func (t *c08Tx) CreateTopLevelBucket(key []byte) (walletdb.ReadWriteBucket, error) {
	if !t.writable {
		return nil, walletdb.ErrTxNotWritable
	}
	return &c08BucketH{b: t.db.mustBucket(string(key)), tx: t}, nil
}

func (t *c08Tx) ForEachBucket(func(key []byte) error) error {
	panic("c08 fake kvdb: ForEachBucket is not used by the code under test")
}
func (t *c08Tx) Rollback() error { panic("c08 fake kvdb: Rollback is not used by the code under test") }
func (t *c08Tx) DeleteTopLevelBucket(key []byte) error {
	panic("c08 fake kvdb: DeleteTopLevelBucket is not used by the code under test")
}
func (t *c08Tx) Commit() error   { panic("c08 fake kvdb: Commit is not used by the code under test") }
func (t *c08Tx) OnCommit(func()) { panic("c08 fake kvdb: OnCommit is not used by the code under test") }

type c08BucketH struct {
	b  *c08Bucket
	tx *c08Tx
}

func (h *c08BucketH) ForEach(f func(k, v []byte) error) error {
	kvs := make([]c08KV, len(h.b.kvs))
	copy(kvs, h.b.kvs)
	for _, kv := range kvs {
		if err := f(c08CopyBytes(kv.k), c08CopyBytes(kv.v)); err != nil {
			return err
		}
	}
	return nil
}

func (h *c08BucketH) Get(key []byte) []byte { return c08CopyBytes(h.b.get(key)) }

func (h *c08BucketH) Put(key, value []byte) error {
	if !h.tx.writable {
		return walletdb.ErrTxNotWritable
	}
	if len(key) == 0 {
		return walletdb.ErrKeyRequired
	}
	if h.tx.failOp {
		return h.tx.db.errWrite
	}
	k, v := c08CopyBytes(key), c08CopyBytes(value)
	if v == nil {
		v = []byte{}
	}
	if i := h.b.index(key); i >= 0 {
		h.b.kvs[i].v = v
		return nil
	}
	h.b.kvs = append(h.b.kvs, c08KV{k, v})
	return nil
}

func (h *c08BucketH) Delete(key []byte) error {
	if !h.tx.writable {
		return walletdb.ErrTxNotWritable
	}
	if h.tx.failOp {
		return h.tx.db.errWrite
	}
	i := h.b.index(key)
	if i < 0 {
		return nil
	}
	n := make([]c08KV, 0, len(h.b.kvs)-1)
	n = append(n, h.b.kvs[:i]...)
	n = append(n, h.b.kvs[i+1:]...)
	h.b.kvs = n
	return nil
}

func (h *c08BucketH) NestedReadBucket(key []byte) walletdb.ReadBucket {
	panic("c08 fake kvdb: NestedReadBucket is not used by the code under test")
}
func (h *c08BucketH) ReadCursor() walletdb.ReadCursor {
	panic("c08 fake kvdb: ReadCursor is not used by the code under test")
}
func (h *c08BucketH) Sequence() uint64 {
	panic("c08 fake kvdb: Sequence is not used by the code under test")
}
func (h *c08BucketH) NestedReadWriteBucket(key []byte) walletdb.ReadWriteBucket {
	panic("c08 fake kvdb: NestedReadWriteBucket is not used by the code under test")
}
func (h *c08BucketH) CreateBucket(key []byte) (walletdb.ReadWriteBucket, error) {
	panic("c08 fake kvdb: CreateBucket is not used by the code under test")
}
func (h *c08BucketH) CreateBucketIfNotExists(key []byte) (walletdb.ReadWriteBucket, error) {
	panic("c08 fake kvdb: CreateBucketIfNotExists is not used by the code under test")
}
func (h *c08BucketH) DeleteNestedBucket(key []byte) error {
	panic("c08 fake kvdb: DeleteNestedBucket is not used by the code under test")
}
func (h *c08BucketH) ReadWriteCursor() walletdb.ReadWriteCursor {
	panic("c08 fake kvdb: ReadWriteCursor is not used by the code under test")
}
func (h *c08BucketH) Tx() walletdb.ReadWriteTx { return h.tx }
func (h *c08BucketH) NextSequence() (uint64, error) {
	panic("c08 fake kvdb: NextSequence is not used by the code under test")
}
func (h *c08BucketH) SetSequence(v uint64) error {
	panic("c08 fake kvdb: SetSequence is not used by the code under test")
}

