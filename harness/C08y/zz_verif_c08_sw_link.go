package htlcswitch

// Harness for C08 (htlcswitch kernels), K2: which settles / fails of a
// forwarding package the OUTGOING link hands to the switch, and as what.
//
// Unit (real lnd code): (*channelLink).processRemoteSettleFails, forwardBatch,
// (*chanstate.FwdPkg).DestRef, (*chanstate.PkgFilter).Decode/Contains; in the
// chained entry additionally everything of K1 behind cfg.ForwardPackets.
//
// The link is a struct literal. Its *lnwallet.LightningChannel cannot be built
// from this package (unexported fields), the only thing the kernel asks of it
// is the short channel id: symbolically (*channelLink).ShortChanID is replaced
// by a function returning the constant id of the real channel the native
// replay uses (zz_verif_c08_sw_setup_test.go), so both runs agree.

import (
	"bytes"
	"time"

	"github.com/lightningnetwork/lnd/channeldb"
	"github.com/lightningnetwork/lnd/chanstate"
	"github.com/lightningnetwork/lnd/fn/v2"
	"github.com/lightningnetwork/lnd/lnwallet"
	"github.com/lightningnetwork/lnd/lnwire"
)

// c08LinkScid is the short channel id of the link under test (the native
// replay channel is created with it).
const c08LinkScid = uint64(0x0000770000010002)

// vC08Chan is set by the native replay test to a real LightningChannel.
var vC08Chan *lnwallet.LightningChannel

func vC08Scid(l *channelLink) lnwire.ShortChannelID {
	return lnwire.NewShortChanIDFromInt(c08LinkScid)
}

// c08Fwd records what the link hands to the switch.
type c08Fwd struct {
	calls   int
	replays []bool
	pkts    []*htlcPacket
	done    chan struct{}
	// then is called for every packet (chained entry)
	then func(*htlcPacket)
}

func (f *c08Fwd) forward(q <-chan struct{}, replay bool, pkts ...*htlcPacket) error {
	f.calls++
	f.replays = append(f.replays, replay)
	for _, p := range pkts {
		f.pkts = append(f.pkts, p)
		if f.then != nil {
			f.then(p)
		}
	}
	if f.done != nil {
		f.done <- struct{}{}
	}
	return nil
}

// wait: natively forwardBatch is a goroutine the link does not track.
func (f *c08Fwd) wait() {
	if vNative() && f.done != nil {
		select {
		case <-f.done:
		case <-time.After(300 * time.Millisecond):
		}
	}
}

func c08NewFwd() *c08Fwd {
	f := &c08Fwd{}
	if vNative() {
		f.done = make(chan struct{}, 16)
	}
	return f
}

func c08LinkConfig() {
	vReplace("(*github.com/lightningnetwork/lnd/htlcswitch.channelLink).ShortChanID", "github.com/lightningnetwork/lnd/htlcswitch.vC08Scid")
	vGoInline("(*github.com/lightningnetwork/lnd/htlcswitch.channelLink).forwardBatch")
	vAssumption("C08/K2: the link is a struct literal; (*channelLink).ShortChanID is replaced by the constant short channel id of the native replay channel; `go l.forwardBatch` runs synchronously at the go statement; hodl mask = none (debug flags are outside)")
	vAssumption("C08/K2: the link's mailbox holds no packet under the empty circuit key (settle/fail packets have no incoming key yet, forwardBatch asks HasPacket((0,0)); attempt ids start at 1, sequencer.go, so no local Add is stored under (hop.Source, 0))")
}

func c08NewLink(fwd *c08Fwd, mb *c08Mailbox) *channelLink {
	return &channelLink{
		cfg: ChannelLinkConfig{
			ForwardPackets: fwd.forward,
		},
		channel: vC08Chan,
		mailBox: mb,
		log:     log,
		cg:      fn.NewContextGuard(),
	}
}

// c08SF describes one settle/fail entry of a forwarding package.
type c08SF struct {
	settle   bool // concrete
	id       uint64
	logIndex uint64
	preimage [32]byte
	reason   []byte
	conv     bool // reason has the length that marks a converted malformed error
	msg      lnwire.Message
}

type c08Pkg struct {
	pkg    *channeldb.FwdPkg
	sf     []c08SF
	source uint64
	height uint64
	state  uint8
	filter byte
}

// c08NewPkg draws an arbitrary forwarding package with n <= max settle/fails.
func c08NewPkg(max int) *c08Pkg {
	k := &c08Pkg{}
	n := vChoice("nsf", max+1)
	k.source = vU64("pkg.source")
	k.height = vU64("pkg.height")
	k.state = vU8("pkg.state")
	// FwdStateLockedIn, FwdStateProcessed, FwdStateCompleted
	vAssume(k.state <= 2)
	var ups []channeldb.LogUpdate
	for i := 0; i < n; i++ {
		name := c08Name("sf", i)
		e := c08SF{id: vU64(name + ".id"), logIndex: vU64(name + ".logIndex")}
		switch vChoice(name+".kind", 3) {
		case 0:
			e.settle = true
			copy(e.preimage[:], vBytes(name+".preimage", 32))
			e.msg = &lnwire.UpdateFulfillHTLC{ID: e.id, PaymentPreimage: e.preimage}
		case 1:
			e.reason = vBytes(name+".reason", 3)
			e.msg = &lnwire.UpdateFailHTLC{ID: e.id, Reason: append(lnwire.OpaqueReason{}, e.reason...)}
		case 2:
			// update_fail_malformed_htlc was converted by the link into a
			// fail whose reason has exactly FailureMessageLength+4 bytes
			e.conv = true
			e.reason = make([]byte, lnwire.FailureMessageLength+4)
			e.reason[0], e.reason[1] = vU8(name+".reason0"), vU8(name+".reason1")
			e.msg = &lnwire.UpdateFailHTLC{ID: e.id, Reason: append(lnwire.OpaqueReason{}, e.reason...)}
		}
		k.sf = append(k.sf, e)
		ups = append(ups, channeldb.LogUpdate{LogIndex: e.logIndex, UpdateMsg: e.msg})
	}
	// the settle-fail filter: count = n, one arbitrary byte (padding bits
	// included), through the real decoder (PkgFilter semantics: C07)
	k.filter = vU8("pkg.settleFailFilter")
	var f channeldb.PkgFilter
	raw := []byte{0, byte(n)}
	if n > 0 {
		raw = append(raw, k.filter)
	}
	if err := f.Decode(bytes.NewReader(raw)); err != nil {
		panic("c08: filter decode: " + err.Error())
	}
	k.pkg = &channeldb.FwdPkg{
		Source:           lnwire.NewShortChanIDFromInt(k.source),
		Height:           k.height,
		State:            channeldb.FwdState(k.state),
		SettleFails:      ups,
		SettleFailFilter: &f,
		FwdFilter:        chanstate.NewPkgFilter(0),
		AckFilter:        chanstate.NewPkgFilter(0),
	}
	return k
}

// acked: reference semantics of the filter (bit 7-i of the byte, i < 8).
func (k *c08Pkg) acked(i int) bool {
	return k.filter&(0x80>>uint(i)) != 0
}

// c08CheckForwarded: the packets handed over are exactly the un-acked entries,
// in order, each built from its own update.
func c08CheckForwarded(k *c08Pkg, fwd *c08Fwd) {
	completed := k.state == 2
	want := 0
	for i := range k.sf {
		if !completed && !k.acked(i) {
			want++
		}
	}
	vAssert(len(fwd.pkts) == want, "settlefails: exactly the settles/fails not yet acknowledged in the SettleFailFilter are handed to the switch (none of a completed package)")
	vAssert(fwd.calls <= 1 && (fwd.calls == 1) == (len(fwd.pkts) > 0), "settlefails: one batch, only if there is something to forward")
	if fwd.calls == 1 {
		vAssert(!fwd.replays[0], "settlefails: responses are not marked as replays")
	}
	j := 0
	for i, e := range k.sf {
		if completed || k.acked(i) {
			continue
		}
		if j >= len(fwd.pkts) {
			break
		}
		p := fwd.pkts[j]
		j++
		vAssert(p.outgoingChanID == lnwire.NewShortChanIDFromInt(c08LinkScid) && p.outgoingHTLCID == e.id,
			"settlefails: the packet's outgoing key is (this link's short channel id, the update's HTLC id)")
		vAssert(p.destRef != nil && p.destRef.Source == k.pkg.Source && p.destRef.Height == k.height && p.destRef.Index == uint16(i),
			"settlefails: destRef points at (package source, package height, index of the update)")
		vAssert(p.htlc == e.msg, "settlefails: the packet carries the update message itself")
		vAssert(p.sourceRef == nil && !p.hasSource && p.incomingChanID == (lnwire.ShortChannelID{}) && p.incomingHTLCID == 0 && p.circuit == nil,
			"settlefails: the link does not guess the incoming side; that is the circuit map's job")
		vAssert(!p.isResolution && !p.localFailure, "settlefails: a response from the peer is neither a resolution nor a local failure")
		switch m := p.htlc.(type) {
		case *lnwire.UpdateFulfillHTLC:
			vAssert(e.settle && m.PaymentPreimage == e.preimage && m.ID == e.id, "settlefails: a settle packet carries the preimage of the update_fulfill_htlc")
			vAssert(!p.convertedError, "settlefails: a settle is not a converted error")
		case *lnwire.UpdateFailHTLC:
			vAssert(!e.settle && bytes.Equal(m.Reason, e.reason) && m.ID == e.id, "settlefails: a fail packet carries the reason of the update")
			vAssert(p.convertedError == e.conv, "settlefails: convertedError iff the reason has the malformed-conversion length")
		default:
			vAssert(false, "settlefails: neither settle nor fail")
		}
	}
}

func c08SettleFails(max int) {
	c08LinkConfig()
	k := c08NewPkg(max)
	fwd := c08NewFwd()
	mb := &c08Mailbox{}
	l := c08NewLink(fwd, mb)
	l.processRemoteSettleFails(k.pkg)
	fwd.wait()
	c08CheckForwarded(k, fwd)
	switch {
	case len(k.sf) == 0:
		vReach("empty-package")
	case k.state == 2:
		vReach("completed-package-skipped")
	case len(fwd.pkts) == len(k.sf):
		vReach("all-forwarded")
	case len(fwd.pkts) == 0:
		vReach("all-acked")
	default:
		vReach("some-acked")
	}
	vAssert(len(mb.pkts) == 0 && len(mb.acked) == 0 && len(mb.failed) == 0, "settlefails: the link's own mailbox is only queried")
}

// VerifC08SwSettleFails: <= 2 settle/fails.
func VerifC08SwSettleFails() { c08SettleFails(2) }

// VerifC08SwSettleFailsDeep: <= 3 settle/fails.
func VerifC08SwSettleFailsDeep() { c08SettleFails(3) }

// c08Chain: K2 and K1 composed. cfg.ForwardPackets hands each packet to the
// real (*Switch).handlePacketForward (what Switch.ForwardPackets -> routeAsync
// -> htlcForwarder does for every non-Add packet, one at a time). End to end:
// for every update of the package,
//
//   the incoming link gets a response  iff  the update is not yet acked, the
//   package not completed, and an open, not yet closing, non-local circuit has
//   the keystone (this link, update.ID);
//
// that response is a settle with the update's preimage iff the update is an
// update_fulfill_htlc; it names the circuit's incoming key.
func c08Chain(p c08SWParams, max int) {
	c08SwConfig()
	c08LinkConfig()
	w := c08BuildSwitch(p)
	k := c08NewPkg(max)
	// HTLC ids of one package are pairwise distinct (each update removes a
	// different HTLC of the channel)
	for i := range k.sf {
		for j := 0; j < i; j++ {
			vAssume(k.sf[i].id != k.sf[j].id)
		}
	}
	fwd := c08NewFwd()
	s := w.s
	var errs []error
	fwd.then = func(pkt *htlcPacket) {
		errs = append(errs, s.handlePacketForward(pkt))
		s.wg.Wait()
	}
	l := c08NewLink(fwd, &c08Mailbox{})
	l.processRemoteSettleFails(k.pkg)
	fwd.wait()

	all := w.deliveries()
	completed := k.state == 2
	for i, u := range k.sf {
		offered := !completed && !k.acked(i)
		// which circuit does the update answer?
		want := false
		for _, e := range w.circ {
			if !e.hasKs {
				continue
			}
			m := e.out.ch == c08LinkScid && e.out.id == u.id
			want = want || (offered && m && !e.closed && e.in.ch != 0)
		}
		// what did the incoming links get for it?
		got := 0
		for _, d := range all {
			if d.pkt.htlc == u.msg {
				got++
				// find the circuit by the outgoing key of the UPDATE
				for _, e := range w.circ {
					if !e.hasKs {
						continue
					}
					m := e.out.ch == c08LinkScid && e.out.id == u.id
					ok := d.sid == e.in.key.ChanID && d.pkt.incomingChanID == e.in.key.ChanID && d.pkt.incomingHTLCID == e.in.id
					vAssert(!m || ok, "chain: the response reaches the incoming channel / HTLC id of the circuit whose keystone is (outgoing link, update id)")
				}
				switch m := d.pkt.htlc.(type) {
				case *lnwire.UpdateFulfillHTLC:
					vAssert(u.settle && m.PaymentPreimage == u.preimage, "chain: the incoming HTLC is settled only with the preimage of the outgoing update_fulfill_htlc")
				case *lnwire.UpdateFailHTLC:
					vAssert(!u.settle, "chain: an outgoing settle is not relayed as a fail")
				}
			}
		}
		vAssert(got <= 1, "chain: at most one response per update")
		vAssert((got == 1) == want, "chain: a response is relayed iff the update is un-acked and an open, not yet closing circuit exists for (outgoing link, update id)")
		if got == 1 && u.settle {
			vReach("chain-settle-relayed")
		}
		if got == 1 && !u.settle {
			vReach("chain-fail-relayed")
		}
	}
	// every delivered packet stems from an update of the package
	for _, d := range all {
		from := false
		for _, u := range k.sf {
			if d.pkt.htlc == u.msg {
				from = true
			}
		}
		vAssert(from, "chain: nothing is delivered that is not an update of the package")
	}
	// at most one response per incoming HTLC
	for _, e := range w.circ {
		cnt := 0
		for _, d := range all {
			same := d.pkt.incomingChanID == e.in.key.ChanID && d.pkt.incomingHTLCID == e.in.id
			if same {
				cnt++
			}
		}
		vAssert(cnt <= 1, "chain: at most one response per incoming HTLC")
	}
	if len(all) == 2 {
		vReach("chain-two-relayed")
	}
}

// VerifC08SwChain: <= 1 circuit, <= 2 updates (quick).
func VerifC08SwChain() { c08Chain(c08SWParams{nPre: 1}, 2) }

// VerifC08SwChainDeep: <= 2 circuits, <= 2 updates.
func VerifC08SwChainDeep() { c08Chain(c08SWParams{nPre: 2}, 2) }
