package htlcswitch

// Harness for C08 (htlcswitch kernels), part 1: the world shared by the
// entries: an arbitrary consistent circuit map (real *circuitMap over the fake
// kvdb, construction copied from the C07 harness), a real *Switch built as a
// struct literal around it, the real mailOrchestrator with one live fake
// mailbox, recording fakes for the switch packager and the HTLC notifier.

import (
	"io"

	"github.com/lightningnetwork/lnd/channeldb"
	"github.com/lightningnetwork/lnd/htlcswitch/hop"
	"github.com/lightningnetwork/lnd/kvdb"
	"github.com/lightningnetwork/lnd/lnpeer"
	"github.com/lightningnetwork/lnd/lntypes"
	"github.com/lightningnetwork/lnd/lnwallet/chainfee"
	"github.com/lightningnetwork/lnd/lnwire"
)

// ---------------------------------------------------------------------------
// keys and reference encodings (independent of the code under test)
// ---------------------------------------------------------------------------

type c08K struct {
	ch, id uint64
	key    CircuitKey
}

func c08Key(name string) c08K {
	ch, id := vU64(name+".chan"), vU64(name+".htlc")
	return c08K{ch: ch, id: id, key: CircuitKey{
		ChanID: lnwire.NewShortChanIDFromInt(ch),
		HtlcID: id,
	}}
}

func c08PutU64(b []byte, v uint64) {
	for k := 0; k < 8; k++ {
		b[k] = byte(v >> (8 * uint(7-k)))
	}
}

// c08RefKey: 8 bytes short channel id, 8 bytes htlc id, big-endian.
func c08RefKey(k c08K) []byte {
	b := make([]byte, 16)
	c08PutU64(b[0:8], k.ch)
	c08PutU64(b[8:16], k.id)
	return b
}

func c08Name(prefix string, i int) string {
	switch i {
	case 0:
		return prefix + "0"
	case 1:
		return prefix + "1"
	case 2:
		return prefix + "2"
	}
	return prefix + "3"
}

// ---------------------------------------------------------------------------
// fakes
// ---------------------------------------------------------------------------

// c08Obf is an error encrypter that tags what was asked of it.
type c08Obf struct{}

func (c08Obf) EncryptFirstHop(lnwire.FailureMessage) (lnwire.OpaqueReason, error) {
	return lnwire.OpaqueReason{0xA3}, nil
}
func (c08Obf) EncryptMalformedError(r lnwire.OpaqueReason) lnwire.OpaqueReason {
	return append(lnwire.OpaqueReason{0xA2}, r...)
}
func (c08Obf) IntermediateEncrypt(r lnwire.OpaqueReason) lnwire.OpaqueReason {
	return append(lnwire.OpaqueReason{0xA1}, r...)
}
func (c08Obf) Type() hop.EncrypterType                     { return hop.EncrypterTypeMock }
func (c08Obf) Encode(io.Writer) error                      { return nil }
func (c08Obf) Decode(io.Reader) error                      { return nil }
func (c08Obf) Reextract(hop.ErrorEncrypterExtracter) error { return nil }

// c08Mailbox records what is put into it; every other MailBox method is not
// expected to be called by the kernels under test.
type c08Mailbox struct {
	pkts   []*htlcPacket
	acked  []CircuitKey
	failed []*htlcPacket
	// has is the answer of HasPacket (environment input)
	has bool
}

func (m *c08Mailbox) AddMessage(lnwire.Message) error { panic("c08 mailbox: AddMessage not expected") }
func (m *c08Mailbox) AddPacket(p *htlcPacket) error {
	m.pkts = append(m.pkts, p)
	return nil
}
func (m *c08Mailbox) HasPacket(CircuitKey) bool { return m.has }
func (m *c08Mailbox) AckPacket(k CircuitKey) bool {
	m.acked = append(m.acked, k)
	return true
}
func (m *c08Mailbox) FailAdd(p *htlcPacket)              { m.failed = append(m.failed, p) }
func (m *c08Mailbox) MessageOutBox() chan lnwire.Message { panic("c08 mailbox: MessageOutBox not expected") }
func (m *c08Mailbox) PacketOutBox() chan *htlcPacket     { panic("c08 mailbox: PacketOutBox not expected") }
func (m *c08Mailbox) ResetMessages() error               { panic("c08 mailbox: ResetMessages not expected") }
func (m *c08Mailbox) ResetPackets() error                { panic("c08 mailbox: ResetPackets not expected") }
func (m *c08Mailbox) SetDustClosure(dustClosure)         {}
func (m *c08Mailbox) SetFeeRate(chainfee.SatPerKWeight)  {}
func (m *c08Mailbox) DustPackets() (lnwire.MilliSatoshi, lnwire.MilliSatoshi) {
	return 0, 0
}
func (m *c08Mailbox) Start() {}
func (m *c08Mailbox) Stop()  {}

// c08Peer records the wire messages a link sends; every other method of the
// (large) lnpeer.Peer interface is a nil-interface call, i.e. a reachable
// panic should the kernels start using it.
type c08Peer struct {
	lnpeer.Peer
	sent []lnwire.Message
}

func (p *c08Peer) SendMessage(sync bool, msgs ...lnwire.Message) error {
	p.sent = append(p.sent, msgs...)
	return nil
}
func (p *c08Peer) PubKey() [33]byte {
	var k [33]byte
	k[0] = 2
	return k
}

// c08Packager records the settle/fail references the switch acknowledges.
type c08Packager struct {
	acked []channeldb.SettleFailRef
}

func (p *c08Packager) AckSettleFails(tx kvdb.RwTx, refs ...channeldb.SettleFailRef) error {
	p.acked = append(p.acked, refs...)
	return nil
}
func (p *c08Packager) LoadChannelFwdPkgs(kvdb.RTx, lnwire.ShortChannelID) ([]*channeldb.FwdPkg, error) {
	panic("c08 packager: LoadChannelFwdPkgs not expected")
}

// c08Notifier records HTLC events.
type c08Notifier struct {
	settles   int
	fwdFails  int
	linkFails int
	forwards  int
	lastKey   HtlcKey
	lastPre   lntypes.Preimage
}

func (n *c08Notifier) NotifyForwardingEvent(HtlcKey, HtlcInfo, HtlcEventType) { n.forwards++ }
func (n *c08Notifier) NotifyLinkFailEvent(k HtlcKey, _ HtlcInfo, _ HtlcEventType, _ *LinkError, _ bool) {
	n.linkFails++
	n.lastKey = k
}
func (n *c08Notifier) NotifyForwardingFailEvent(k HtlcKey, _ HtlcEventType) {
	n.fwdFails++
	n.lastKey = k
}
func (n *c08Notifier) NotifySettleEvent(k HtlcKey, p lntypes.Preimage, _ HtlcEventType) {
	n.settles++
	n.lastKey = k
	n.lastPre = p
}
func (n *c08Notifier) NotifyFinalHtlcEvent(CircuitKey, channeldb.FinalHtlcInfo) {}

// ---------------------------------------------------------------------------
// arbitrary consistent circuit map + switch
// ---------------------------------------------------------------------------

type c08Circ struct {
	in, out c08K
	hasKs   bool // concrete on each path
	closed  bool // concrete on each path
	enc     bool // concrete on each path: the in-memory circuit carries an error encrypter
	height  uint64
	index   uint16
	hash    [32]byte
	inAmt   uint64
	outAmt  uint64
	c       *PaymentCircuit
}

type c08SW struct {
	s     *Switch
	cm    *circuitMap
	db    *c08DB
	circ  []*c08Circ
	live  *c08Mailbox
	liveC uint64 // short channel id of the one link that is live
	pack  *c08Packager
	notif *c08Notifier
}

type c08SWParams struct {
	nPre    int  // at most this many circuits
	withEnc bool // circuits may carry an error encrypter
}

// c08BuildSwitch draws an arbitrary state of the circuit map that satisfies its
// representation invariant (the one written out in the C07 harness, where it is
// shown to be preserved by every circuit-map operation and by restart):
//   - pending: pairwise distinct incoming keys;
//   - opened: exactly the pending circuits with a keystone, under their pairwise
//     distinct outgoing keys, outgoing channel id != hop.Source;
//   - closed: a subset of the pending keys;
//   - both buckets hold exactly the records of pending / opened.
//
// Number of circuits, keystone, membership in closed, encrypter are case
// splits; all keys, AddRefs, amounts are solver variables. The incoming
// channel id may be hop.Source (locally initiated payment).
func c08BuildSwitch(p c08SWParams) *c08SW {
	w := &c08SW{db: c08NewDB(), pack: &c08Packager{}, notif: &c08Notifier{}, live: &c08Mailbox{}}
	cm := &circuitMap{
		cfg:       &CircuitMapConfig{DB: w.db},
		pending:   make(map[CircuitKey]*PaymentCircuit),
		opened:    make(map[CircuitKey]*PaymentCircuit),
		closed:    make(map[CircuitKey]struct{}),
		hashIndex: make(map[[32]byte]map[CircuitKey]struct{}),
	}
	w.cm = cm
	adds := w.db.mustBucket(string(circuitAddKey))
	kss := w.db.mustBucket(string(circuitKeystoneKey))
	n := vChoice("npre", p.nPre+1)
	for i := 0; i < n; i++ {
		name := c08Name("c", i)
		e := &c08Circ{}
		e.in = c08Key(name + ".in")
		for _, o := range w.circ {
			vAssume(e.in.key != o.in.key)
		}
		e.height, e.index = vU64(name+".height"), vU16(name+".index")
		e.inAmt, e.outAmt = vU64(name+".inAmt"), vU64(name+".outAmt")
		copy(e.hash[:], vBytes(name+".hash", 32))
		for _, o := range w.circ {
			// distinct payment hashes (the hash index is not the subject here)
			vAssume(e.hash != o.hash)
		}
		e.c = &PaymentCircuit{
			AddRef:         channeldb.AddRef{Height: e.height, Index: e.index},
			Incoming:       e.in.key,
			PaymentHash:    e.hash,
			IncomingAmount: lnwire.MilliSatoshi(e.inAmt),
			OutgoingAmount: lnwire.MilliSatoshi(e.outAmt),
		}
		if p.withEnc && vBool(name+".enc") {
			e.enc = true
			e.c.ErrorEncrypter = c08Obf{}
		}
		if vBool(name + ".open") {
			e.hasKs = true
			e.out = c08Key(name + ".out")
			// "the outgoing channel id can never be equal to sourceHop" (circuit.go)
			vAssume(e.out.ch != 0)
			for _, o := range w.circ {
				if o.hasKs {
					vAssume(e.out.key != o.out.key)
				}
			}
			ok := e.out.key
			e.c.Outgoing = &ok
		}
		if vBool(name + ".closed") {
			e.closed = true
		}
		w.circ = append(w.circ, e)

		cm.pending[e.in.key] = e.c
		// the record's content is irrelevant here (never decoded); its key matters
		adds.kvs = append(adds.kvs, c08KV{c08RefKey(e.in), []byte{0}})
		if e.hasKs {
			cm.opened[e.out.key] = e.c
			set, ok := cm.hashIndex[e.hash]
			if !ok {
				set = make(map[CircuitKey]struct{})
				cm.hashIndex[e.hash] = set
			}
			set[e.out.key] = struct{}{}
			kss.kvs = append(kss.kvs, c08KV{c08RefKey(e.out), c08RefKey(e.in)})
		}
		if e.closed {
			cm.closed[e.in.key] = struct{}{}
		}
	}

	mo := newMailOrchestrator(&mailOrchConfig{})
	// one link is live (has a mailbox); packets for every other short channel
	// id are parked in unclaimedPackets by the real orchestrator
	w.liveC = vU64("live.chan")
	vAssume(w.liveC != 0)
	var liveCid lnwire.ChannelID
	liveCid[0] = 0x4c
	mo.mailboxes[liveCid] = w.live
	mo.liveIndex[lnwire.NewShortChanIDFromInt(w.liveC)] = liveCid

	w.s = &Switch{
		cfg: &Config{
			DB:             w.db,
			SwitchPackager: w.pack,
			HtlcNotifier:   w.notif,
		},
		circuits:         cm,
		networkResults:   newNetworkResultStore(w.db),
		mailOrchestrator: mo,
	}
	return w
}

// c08Deliv is one packet handed to an incoming link's mailbox.
type c08Deliv struct {
	sid lnwire.ShortChannelID
	pkt *htlcPacket
}

// deliveries lists every packet the orchestrator holds for any link.
func (w *c08SW) deliveries() []c08Deliv {
	var out []c08Deliv
	for _, p := range w.live.pkts {
		out = append(out, c08Deliv{lnwire.NewShortChanIDFromInt(w.liveC), p})
	}
	for sid, l := range w.s.mailOrchestrator.unclaimedPackets {
		for _, p := range l {
			out = append(out, c08Deliv{sid, p})
		}
	}
	return out
}

func (w *c08SW) adds() *c08Bucket { return w.db.find(string(circuitAddKey)) }
func (w *c08SW) kss() *c08Bucket  { return w.db.find(string(circuitKeystoneKey)) }
