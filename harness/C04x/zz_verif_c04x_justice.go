package contractcourt

// Harness for C04x: JUSTICE TRANSACTION ASSEMBLY of the breach arbitrator
// (extension of C04, which stops at newRetributionInfo / updateBreachInfo /
// convertToSecondLevelRevoke).
//
// Unit executed symbolically (real lnd code): newRetributionInfo,
// makeBreachedOutput, updateBreachInfo, convertToSecondLevelRevoke,
// input.IsHtlcSpendRevoke, (*BreachArbitrator).createJusticeTx, createSweepTx,
// sweepSpendableOutputsTxn, (StandardWitnessType).SizeUpperBound,
// input.TxWeightEstimator, chainfee.SatPerKWeight.FeeForWeight,
// (*breachedOutput).BlocksToMaturity / OutPoint / SignDesc / CraftInputScript,
// (StandardWitnessType).WitnessGenerator and the witness builders below it,
// blockchain.CheckTransactionSanity, input.MultiPrevOutFetcher,
// txscript.NewTxSigHashes (sha256 uninterpreted), fn.Any / MapOptionZ / Result.
//
// Fakes (behind interfaces / config fields lnd already has): input.Signer
// (records every SignOutputRaw call, returns a per-call distinct signature),
// chainfee.Estimator (symbolic fee rate or error), BreachConfig.GenSweepScript
// (symbolic P2TR script), AuxSweeper = None.
// Key model: as C04-K5 (public key = point with x = 32 identity bytes, y = 0;
// input.deriveRevokePubKey / TweakPubKeyWithTweak ideal functions). Native
// replay: real secp256k1 keys and derivations.
//
// Oracle: see NOTES.md. In short, for the set S of breached outputs that are
// still to be punished (after the spends that were reported), every variant
// the arbitrator builds spends exactly the outputs of its class, each once,
// with the sequence its witness type needs, pays (sum of the input values -
// fee) to the sweep script with fee = rate * weight(real estimator, witness
// sizes restated from package input constants) / 1000, signs input i with the
// sign descriptor (value, pkScript, witness script) of the breached output
// whose outpoint is input i, and is absent exactly when the class is empty or
// the fee exceeds the value.

import (
	"bytes"
	"crypto/sha256"

	"github.com/btcsuite/btcd/btcec/v2"
	"github.com/btcsuite/btcd/txscript/v2"
	"github.com/btcsuite/btcd/wire/v2"
	"github.com/decred/dcrd/dcrec/secp256k1/v4"
	"github.com/lightningnetwork/lnd/chainntnfs"
	"github.com/lightningnetwork/lnd/channeldb"
	"github.com/lightningnetwork/lnd/fn/v2"
	"github.com/lightningnetwork/lnd/input"
	"github.com/lightningnetwork/lnd/keychain"
	"github.com/lightningnetwork/lnd/lntypes"
	"github.com/lightningnetwork/lnd/lnwallet"
	"github.com/lightningnetwork/lnd/lnwallet/chainfee"
)

const (
	c04xLegacy = iota
	c04xTweakless
	c04xAnchors
	c04xTaproot
	c04xTapFinal
)

const c04xMaxSat = 2_100_000_000_000_000

var c04xZeroHash [32]byte

// c04xDustOracle: only set by the CANDIDATE entry (not part of the green set).
var c04xDustOracle bool

type c04xErr string

func (e c04xErr) Error() string { return string(e) }

// ---- key model (copied from C04-K5) ----

func c04xPub(name string) *btcec.PublicKey {
	id := vBytes(name, 32)
	if vNative() {
		h := sha256.Sum256(id)
		_, pub := btcec.PrivKeyFromBytes(h[:])

		return pub
	}
	vAssume(id[0] != 0xff)
	var x, y btcec.FieldVal
	x.SetByteSlice(id)

	return btcec.NewPublicKey(&x, &y)
}

func c04xPriv(name string) *btcec.PrivateKey {
	sec := vBytes(name, 32)
	if vNative() {
		h := sha256.Sum256(sec)
		priv, _ := btcec.PrivKeyFromBytes(h[:])

		return priv
	}
	vAssume(sec[0] != 0xff)
	// the real scalar parsing without the base-point multiplication
	return secp256k1.PrivKeyFromBytes(sec)
}

func c04xIdealKey(id []byte) *btcec.PublicKey {
	var x, y btcec.FieldVal
	x.SetByteSlice(id)

	return btcec.NewPublicKey(&x, &y)
}

func c04xDeriveRevokePubKey(sd *input.SignDescriptor) (*btcec.PublicKey, error) {
	if sd.KeyDesc.PubKey == nil {
		return nil, c04xErr("cannot generate witness with nil KeyDesc pubkey")
	}

	return c04xIdealKey(vHash("revocationpubkey", 32,
		sd.KeyDesc.PubKey.SerializeCompressed(), sd.DoubleTweak.Serialize())), nil
}

func c04xTweakPubKeyWithTweak(pub *btcec.PublicKey, tweak []byte) *btcec.PublicKey {
	return c04xIdealKey(vHash("tweakpubkey", 32, pub.SerializeCompressed(), tweak))
}

func c04xRevokeKeyBytes(sd *input.SignDescriptor) []byte {
	if vNative() {
		return input.DeriveRevocationPubkey(sd.KeyDesc.PubKey, sd.DoubleTweak.PubKey()).SerializeCompressed()
	}
	k, _ := c04xDeriveRevokePubKey(sd)

	return k.SerializeCompressed()
}

// ---- fakes ----

type c04xSig struct{ b []byte }

func (s *c04xSig) Serialize() []byte                    { return s.b }
func (s *c04xSig) Verify([]byte, *btcec.PublicKey) bool { return false }

type c04xCall struct {
	tx      *wire.MsgTx
	idx     int
	value   int64
	pk      []byte
	wscript []byte
	tweak   []byte
	method  input.SignMethod
	fetcher bool
	sig     []byte
}

type c04xSigner struct {
	input.Signer
	calls []c04xCall
}

func (s *c04xSigner) SignOutputRaw(tx *wire.MsgTx, d *input.SignDescriptor) (input.Signature, error) {
	sig := []byte{0x30, 0x06, 0x02, 0x01, byte(len(s.calls) + 1), 0x02, 0x01, 0x09}
	c := c04xCall{tx: tx, idx: d.InputIndex, wscript: d.WitnessScript, tweak: d.TapTweak,
		method: d.SignMethod, fetcher: d.PrevOutputFetcher != nil, sig: sig}
	if d.Output != nil {
		c.value, c.pk = d.Output.Value, d.Output.PkScript
	}
	s.calls = append(s.calls, c)

	return &c04xSig{b: sig}, nil
}

type c04xEstimator struct {
	rate   chainfee.SatPerKWeight
	fail   bool
	target []uint32
}

func (e *c04xEstimator) EstimateFeePerKW(n uint32) (chainfee.SatPerKWeight, error) {
	e.target = append(e.target, n)
	if e.fail {
		return 0, c04xErr("verif: no fee estimate")
	}

	return e.rate, nil
}
func (e *c04xEstimator) Start() error                          { return nil }
func (e *c04xEstimator) Stop() error                           { return nil }
func (e *c04xEstimator) RelayFeePerKW() chainfee.SatPerKWeight { return 253 }

// ---- the independent description of what has to be punished ----

const (
	c04xClsCommit = iota
	c04xClsHtlc
	c04xClsSecond
)

type c04xWant struct {
	op      wire.OutPoint
	value   int64
	pk      []byte
	wscript []byte
	tweak   []byte // taproot key spends: the tap tweak to sign with
	wt      input.StandardWitnessType
	cls     int
	seq     uint32
	revoked bool // counts as funds revoked from the counterparty
	taproot bool
}

// c04xWitnessSize restates the witness weight per witness type from the
// constants of package input (BOLT-3 appendix), independently of
// StandardWitnessType.SizeUpperBound.
func c04xWitnessSize(wt input.StandardWitnessType) lntypes.WeightUnit {
	switch wt {
	case input.CommitmentNoDelay, input.CommitSpendNoDelayTweakless:
		return input.P2WKHWitnessSize
	case input.CommitmentToRemoteConfirmed:
		return input.ToRemoteConfirmedWitnessSize
	case input.TaprootRemoteCommitSpend:
		return input.TaprootToRemoteWitnessSize
	case input.TaprootRemoteCommitSpendFinal:
		return input.TaprootToRemoteWitnessSizeFinal
	case input.CommitmentRevoke:
		return input.ToLocalPenaltyWitnessSize
	case input.TaprootCommitmentRevoke, input.TaprootCommitmentRevokeFinal:
		return input.TaprootToLocalRevokeWitnessSize
	case input.HtlcOfferedRevoke:
		return input.OfferedHtlcPenaltyWitnessSize
	case input.HtlcAcceptedRevoke:
		return input.AcceptedHtlcPenaltyWitnessSize
	case input.TaprootHtlcOfferedRevoke:
		return input.TaprootOfferedRevokeWitnessSize
	case input.TaprootHtlcAcceptedRevoke:
		return input.TaprootAcceptedRevokeWitnessSize
	case input.HtlcSecondLevelRevoke:
		return input.ToLocalPenaltyWitnessSize
	case input.TaprootHtlcSecondLevelRevoke:
		return input.TaprootSecondLevelRevokeWitnessSize
	}
	panic("verif: witness type outside the harness domain")
}

func c04xAmount(name string) int64 {
	v := vU64(name)
	vAssume(v <= c04xMaxSat)

	return int64(v)
}

func c04xPkScript(name string, kind int, wkh bool) []byte {
	switch {
	case kind >= c04xTaproot:
		return append([]byte{txscript.OP_1, txscript.OP_DATA_32}, vBytes(name, 32)...)
	case wkh:
		return append([]byte{txscript.OP_0, txscript.OP_DATA_20}, vBytes(name, 20)...)
	}

	return append([]byte{txscript.OP_0, txscript.OP_DATA_32}, vBytes(name, 32)...)
}

func c04xB(b bool) int {
	if b {
		return 1
	}

	return 0
}

func c04xSame(a, b []byte) bool { return bytes.Equal(a, b) }

// c04xCheckTx: one variant against the outputs it has to spend.
func c04xCheckTx(ctx *justiceTxCtx, want []c04xWant, signer *c04xSigner,
	rate chainfee.SatPerKWeight, sweepScript []byte) {

	vAssert(ctx != nil && ctx.justiceTx != nil, "variant with spendable outputs and value >= fee is built")
	if ctx == nil || ctx.justiceTx == nil {
		return
	}
	tx := ctx.justiceTx
	n := len(want)
	vAssert(len(tx.TxIn) == n, "justice tx has one input per breached output of the variant")
	if len(tx.TxIn) != n {
		return
	}

	// fee and output
	var we input.TxWeightEstimator
	we.AddP2TROutput()
	var total int64
	for j := range want {
		we.AddWitnessInput(c04xWitnessSize(want[j].wt))
		total += want[j].value
	}
	fee := int64(rate) * int64(we.Weight()) / 1000
	vAssert(int64(ctx.fee) == fee, "fee = fee rate * weight of the estimator for these witness types / 1000")
	vAssert(len(tx.TxOut) == 1, "justice tx has a single output")
	if len(tx.TxOut) != 1 {
		return
	}
	vAssert(tx.TxOut[0].Value == total-fee, "output value = sum of the breached output values - fee")
	vAssert(tx.TxOut[0].Value >= 0 && tx.TxOut[0].Value <= c04xMaxSat, "output value within the money range")
	vAssert(c04xSame(tx.TxOut[0].PkScript, sweepScript) && c04xSame(ctx.sweepAddr.DeliveryAddress, sweepScript),
		"output pays to the sweep script of the wallet")
	vAssert(tx.LockTime == 0 && tx.Version == 2, "version 2, no lock time")
	if c04xDustOracle {
		// P2TR dust limit at the default 3 sat/vbyte dust relay fee
		vAssert(tx.TxOut[0].Value >= 330, "CANDIDATE: the justice output is not below the dust limit (330 sat for P2TR)")
	}

	// inputs: a bijection with the breached outputs
	for j := range want {
		cnt := 0
		for i := range tx.TxIn {
			cnt += c04xB(tx.TxIn[i].PreviousOutPoint == want[j].op)
		}
		vAssert(cnt == 1, "every breached output of the variant is spent by exactly one input")
	}

	// signer calls for this transaction, by input index
	for i := range tx.TxIn {
		var call *c04xCall
		ncalls := 0
		for c := range signer.calls {
			if signer.calls[c].tx == tx && signer.calls[c].idx == i {
				call = &signer.calls[c]
				ncalls++
			}
		}
		vAssert(ncalls == 1, "one signature request per input, with that input's index")
		if ncalls != 1 {
			continue
		}
		in := tx.TxIn[i]
		vAssert(len(in.Witness) >= 1 && len(in.Witness[0]) >= len(call.sig) &&
			c04xSame(in.Witness[0][:len(call.sig)], call.sig),
			"witness of input i carries the signature requested for input i")
		vAssert(len(in.SignatureScript) == 0, "segwit input: empty sigScript")
		for j := range want {
			w := &want[j]
			m := in.PreviousOutPoint == w.op
			vAssert(!m || in.Sequence == w.seq, "sequence as the witness type needs (1 for CSV to_remote, else 0)")
			vAssert(!m || (call.value == w.value && c04xSame(call.pk, w.pk)),
				"input i is signed for (amount, pkScript) of the breached output it spends")
			vAssert(!m || c04xSame(call.wscript, w.wscript),
				"input i is signed with the witness script of the breached output it spends")
			if w.taproot {
				vAssert(!m || call.fetcher, "taproot: prev output fetcher handed to the signer")
				if w.cls != c04xClsCommit {
					vAssert(!m || (call.method == input.TaprootKeySpendSignMethod && c04xSame(call.tweak, w.tweak)),
						"taproot HTLC: key spend with the tap tweak of the output it spends")
				} else {
					vAssert(!m || call.method == input.TaprootScriptSpendSignMethod,
						"taproot commitment output: script spend")
				}
			}
			// witness shape for the script-carrying witnesses
			switch w.wt {
			case input.CommitmentRevoke, input.HtlcSecondLevelRevoke:
				vAssert(!m || (len(in.Witness) == 3 && len(in.Witness[1]) == 1 && in.Witness[1][0] == 1 &&
					c04xSame(in.Witness[2], w.wscript)), "revocation witness <sig> <1> <script of that output>")
			case input.CommitmentToRemoteConfirmed:
				vAssert(!m || (len(in.Witness) == 2 && c04xSame(in.Witness[1], w.wscript)),
					"to_remote witness <sig> <script of that output>")
			case input.HtlcOfferedRevoke, input.HtlcAcceptedRevoke:
				vAssert(!m || (len(in.Witness) == 3 && c04xSame(in.Witness[2], w.wscript)),
					"HTLC revocation witness <sig> <revocation key> <script of that output>")
			case input.TaprootCommitmentRevoke, input.TaprootCommitmentRevokeFinal,
				input.TaprootRemoteCommitSpend, input.TaprootRemoteCommitSpendFinal:
				vAssert(!m || (len(in.Witness) == 3 && c04xSame(in.Witness[1], w.wscript)),
					"taproot script spend <sig> <script of that output> <control block>")
			}
		}
	}
}

// c04xCheckVariant: the variant exists iff the class is non-empty and the fee
// does not exceed the value.
func c04xCheckVariant(ctx *justiceTxCtx, want []c04xWant, signer *c04xSigner,
	rate chainfee.SatPerKWeight, sweepScript []byte, label string) {

	if len(want) == 0 {
		vAssert(ctx == nil, "no variant for an empty class of outputs")
		return
	}
	var we input.TxWeightEstimator
	we.AddP2TROutput()
	var total int64
	for j := range want {
		we.AddWitnessInput(c04xWitnessSize(want[j].wt))
		total += want[j].value
	}
	fee := int64(rate) * int64(we.Weight()) / 1000
	if total < fee {
		vAssert(ctx == nil, "no transaction with a negative output")
		vReach(label + "-fee-exceeds-value")
		return
	}
	c04xCheckTx(ctx, want, signer, rate, sweepScript)
	if ctx != nil {
		vReach(label)
	}
}

// c04xJustice: nHtlc revoked HTLC outputs.
func c04xJustice(nHtlc int) {
	vUnwind(200)
	vReplace("github.com/lightningnetwork/lnd/input.deriveRevokePubKey",
		"github.com/lightningnetwork/lnd/contractcourt.c04xDeriveRevokePubKey")
	vReplace("github.com/lightningnetwork/lnd/input.TweakPubKeyWithTweak",
		"github.com/lightningnetwork/lnd/contractcourt.c04xTweakPubKeyWithTweak")
	vMerge("github.com/lightningnetwork/lnd/contractcourt.c04xB")
	vMerge("github.com/lightningnetwork/lnd/contractcourt.c04xSame")
	vAssumption("key model: a public key is the point (x = 32 identity bytes < P, y = 0); input.deriveRevokePubKey / TweakPubKeyWithTweak are ideal functions of (serialised key, secret / tweak); native replay: real secp256k1 keys and derivations")

	kind := vChoice("kind", 5)
	outs := vChoice("commitOuts", 3) // 0 both, 1 only their to_local, 2 only our to_remote
	hasLocal, hasRemote := outs != 1, outs != 2
	taproot := kind >= c04xTaproot
	hashType := txscript.SigHashAll
	if taproot {
		hashType = txscript.SigHashDefault
	}

	ret := &lnwallet.BreachRetribution{BreachHeight: vU32("breachHeight")}
	copy(ret.BreachTxHash[:], vBytes("breachTxid", 32))
	// a transaction id is a sha256d output; the all-zero hash is the "no
	// outpoint" sentinel (input.EmptyOutPoint, null outpoint of coinbases)
	vAssume(ret.BreachTxHash != c04xZeroHash)
	switch kind {
	case c04xTaproot:
		ret.ChanType = channeldb.SimpleTaprootFeatureBit | channeldb.AnchorOutputsBit |
			channeldb.ZeroHtlcTxFeeBit | channeldb.SingleFunderTweaklessBit
	case c04xTapFinal:
		ret.ChanType = channeldb.SimpleTaprootFeatureBit | channeldb.TaprootFinalBit |
			channeldb.AnchorOutputsBit | channeldb.ZeroHtlcTxFeeBit |
			channeldb.SingleFunderTweaklessBit
	case c04xAnchors:
		ret.ChanType = channeldb.AnchorOutputsBit | channeldb.ZeroHtlcTxFeeBit |
			channeldb.SingleFunderTweaklessBit
	case c04xTweakless:
		ret.ChanType = channeldb.SingleFunderTweaklessBit
	}

	var want []c04xWant
	if hasLocal {
		// our to_remote output on their commitment
		ret.LocalOutpoint = wire.OutPoint{Hash: ret.BreachTxHash, Index: uint32(vU16("toRemoteIndex"))}
		sd := &input.SignDescriptor{
			KeyDesc: keychain.KeyDescriptor{PubKey: c04xPub("paymentBase")},
			Output: &wire.TxOut{
				Value:    c04xAmount("toRemoteValue"),
				PkScript: c04xPkScript("toRemoteScript", kind, kind <= c04xTweakless),
			},
			HashType: hashType,
		}
		w := c04xWant{op: ret.LocalOutpoint, value: sd.Output.Value, pk: sd.Output.PkScript,
			cls: c04xClsCommit, taproot: taproot}
		switch kind {
		case c04xLegacy:
			sd.SingleTweak = vBytes("toRemoteSingleTweak", 32)
			sd.WitnessScript = append([]byte(nil), sd.Output.PkScript...)
			w.wt = input.CommitmentNoDelay
		case c04xTweakless:
			sd.WitnessScript = append([]byte(nil), sd.Output.PkScript...)
			w.wt = input.CommitSpendNoDelayTweakless
		case c04xAnchors:
			sd.WitnessScript = vBytes("toRemoteWitnessScript", 37)
			ret.LocalDelay = 1
			w.wt, w.seq = input.CommitmentToRemoteConfirmed, 1
		default:
			sd.WitnessScript = vBytes("toRemoteWitnessScript", 37)
			sd.SignMethod = input.TaprootScriptSpendSignMethod
			sd.ControlBlock = vBytes("toRemoteControlBlock", 33)
			ret.LocalDelay = 1
			w.wt, w.seq = input.TaprootRemoteCommitSpend, 1
			if kind == c04xTapFinal {
				w.wt = input.TaprootRemoteCommitSpendFinal
			}
		}
		w.wscript = sd.WitnessScript
		ret.LocalOutputSignDesc = sd
		want = append(want, w)
	}
	if hasRemote {
		// their to_local output: revocation path
		ret.RemoteOutpoint = wire.OutPoint{Hash: ret.BreachTxHash, Index: uint32(vU16("toLocalIndex"))}
		sd := &input.SignDescriptor{
			KeyDesc:       keychain.KeyDescriptor{PubKey: c04xPub("revocationBase")},
			DoubleTweak:   c04xPriv("commitSecret"),
			WitnessScript: vBytes("toLocalWitnessScript", 40),
			Output: &wire.TxOut{
				Value:    c04xAmount("toLocalValue"),
				PkScript: c04xPkScript("toLocalScript", kind, false),
			},
			HashType: hashType,
		}
		w := c04xWant{op: ret.RemoteOutpoint, value: sd.Output.Value, pk: sd.Output.PkScript,
			wscript: sd.WitnessScript, cls: c04xClsCommit, wt: input.CommitmentRevoke, revoked: true, taproot: taproot}
		if taproot {
			sd.SignMethod = input.TaprootScriptSpendSignMethod
			sd.ControlBlock = vBytes("toLocalControlBlock", 65)
			w.wt = input.TaprootCommitmentRevoke
			if kind == c04xTapFinal {
				w.wt = input.TaprootCommitmentRevokeFinal
			}
		}
		ret.RemoteOutputSignDesc = sd
		want = append(want, w)
	}
	nCommit := len(want)
	type htlcSrc struct {
		second []byte
		tweak  [32]byte
		inc    bool
	}
	src := make([]htlcSrc, nHtlc)
	for k := 0; k < nHtlc; k++ {
		s := string(rune('0' + k))
		h := &src[k]
		op := wire.OutPoint{Hash: ret.BreachTxHash, Index: uint32(vU16("htlcIndex" + s))}
		h.second = vBytes("secondLevelScript"+s, 38)
		h.inc = vChoice("htlcIncoming"+s, 2) == 1
		sd := input.SignDescriptor{
			KeyDesc:       keychain.KeyDescriptor{PubKey: c04xPub("htlcRevocationBase" + s)},
			DoubleTweak:   c04xPriv("htlcCommitSecret" + s),
			WitnessScript: vBytes("htlcWitnessScript"+s, 41),
			Output: &wire.TxOut{
				Value:    c04xAmount("htlcValue" + s),
				PkScript: c04xPkScript("htlcScript"+s, kind, false),
			},
			HashType: hashType,
		}
		w := c04xWant{op: op, value: sd.Output.Value, pk: sd.Output.PkScript, wscript: sd.WitnessScript,
			cls: c04xClsHtlc, taproot: taproot}
		switch {
		case taproot && h.inc:
			w.wt = input.TaprootHtlcAcceptedRevoke
		case taproot:
			w.wt, w.revoked = input.TaprootHtlcOfferedRevoke, true
		case h.inc:
			w.wt = input.HtlcAcceptedRevoke
		default:
			w.wt, w.revoked = input.HtlcOfferedRevoke, true
		}
		if taproot {
			sd.SignMethod = input.TaprootKeySpendSignMethod
			sd.TapTweak = vBytes("htlcTapTweak"+s, 32)
			w.tweak = append([]byte(nil), sd.TapTweak...)
			copy(h.tweak[:], vBytes("secondLevelTapTweak"+s, 32))
		}
		ret.HtlcRetributions = append(ret.HtlcRetributions, lnwallet.HtlcRetribution{
			SignDesc:                 sd,
			OutPoint:                 op,
			SecondLevelWitnessScript: append([]byte(nil), h.second...),
			SecondLevelTapTweak:      h.tweak,
			IsIncoming:               h.inc,
		})
		want = append(want, w)
	}
	// output indexes fit 16 bits: a standard transaction (<= 400k weight) has
	// fewer than 2^16 outputs (an outpoint (0..0, 0xffffffff) is the null
	// outpoint CheckTransactionSanity refuses).
	// distinct outputs of the revoked transaction
	for i := range want {
		for j := 0; j < i; j++ {
			vAssume(want[i].op.Index != want[j].op.Index)
		}
	}
	// outputs of ONE transaction: their sum is within the money supply
	var sum int64
	for i := range want {
		sum += want[i].value
	}
	vAssume(sum <= c04xMaxSat)

	var chanPoint wire.OutPoint
	copy(chanPoint.Hash[:], vBytes("fundingTxid", 32))
	info := newRetributionInfo(&chanPoint, ret)
	vAssert(len(info.breachedOutputs) == len(want), "setup: one breached output per commitment/HTLC output")
	if len(info.breachedOutputs) != len(want) {
		return
	}

	// ---- spends reported before this attempt ----
	// commitFate: 0 nothing, 1 our spendCommitOuts variant confirmed.
	// fate of HTLC k: 0 unspent, 1 taken to the second level by the cheater,
	// 2 swept by us with the revocation path.
	var (
		spends                 []spend
		wantTotal, wantRevoked int64
		remaining              []c04xWant
	)
	commitFate := vChoice("commitFate", 2)
	for j := 0; j < nCommit; j++ {
		if commitFate == 0 {
			remaining = append(remaining, want[j])
			continue
		}
		tx := wire.NewMsgTx(2)
		tx.AddTxIn(&wire.TxIn{PreviousOutPoint: want[j].op, Witness: wire.TxWitness{vBytes("cw"+string(rune('0'+j)), 8)}})
		tx.AddTxOut(&wire.TxOut{Value: int64(vU32("commitSpendOut" + string(rune('0'+j)))), PkScript: []byte{0x51, 0x20}})
		txid := tx.TxHash()
		op := want[j].op
		spends = append(spends, spend{index: j, detail: &chainntnfs.SpendDetail{
			SpentOutPoint: &op, SpenderTxHash: &txid, SpendingTx: tx, SpenderInputIndex: 0,
		}})
		wantTotal += want[j].value
		if want[j].revoked {
			wantRevoked += want[j].value
		}
	}
	for k := 0; k < nHtlc; k++ {
		s := string(rune('0' + k))
		w := want[nCommit+k]
		fate := vChoice("fate"+s, 3)
		if fate == 0 {
			remaining = append(remaining, w)
			continue
		}
		// the spending transaction: 2 inputs / 2 outputs, the HTLC at
		// input pos (SIGHASH_SINGLE|ANYONECANPAY binds it to output pos)
		pos := uint32(vChoice("spendPos"+s, 2))
		tx := wire.NewMsgTx(2)
		for j := uint32(0); j < 2; j++ {
			t := s + string(rune('a'+j))
			in := &wire.TxIn{Sequence: vU32("spendSequence" + t)}
			copy(in.PreviousOutPoint.Hash[:], vBytes("otherPrevTxid"+t, 32))
			in.PreviousOutPoint.Index = vU32("otherPrevIndex" + t)
			tx.AddTxIn(in)
			tx.AddTxOut(&wire.TxOut{Value: c04xAmount("spendOutValue" + t),
				PkScript: c04xPkScript("spendOutScript"+t, kind, false)})
		}
		in := tx.TxIn[pos]
		in.PreviousOutPoint = w.op
		bo := &info.breachedOutputs[nCommit+k]
		switch {
		case fate == 2 && taproot:
			in.Witness = wire.TxWitness{vBytes("rsig"+s, 64)}
		case fate == 2:
			in.Witness = wire.TxWitness{vBytes("rsig"+s, 72), c04xRevokeKeyBytes(&bo.signDesc), w.wscript}
		case taproot:
			in.Witness = wire.TxWitness{vBytes("w0"+s, 8), vBytes("w1"+s, 8), vBytes("w2"+s, 8), vBytes("w3"+s, 33)}
		default:
			in.Witness = wire.TxWitness{nil, vBytes("w1"+s, 8), vBytes("w2"+s, 8), vBytes("w3"+s, 32), vBytes("w4"+s, 8)}
		}
		txid := tx.TxHash()
		// a transaction does not spend an output of itself / of a
		// transaction with the same id (sha256d collision)
		vAssume(txid != ret.BreachTxHash && txid != c04xZeroHash)
		op := w.op
		spends = append(spends, spend{index: nCommit + k, detail: &chainntnfs.SpendDetail{
			SpentOutPoint: &op, SpenderTxHash: &txid, SpendingTx: tx, SpenderInputIndex: pos,
		}})
		if fate == 2 {
			wantTotal += w.value
			if w.revoked {
				wantRevoked += w.value
			}
			continue
		}
		out := tx.TxOut[pos]
		w2 := c04xWant{op: wire.OutPoint{Hash: txid, Index: pos}, value: out.Value, pk: out.PkScript,
			wscript: src[k].second, cls: c04xClsSecond, wt: input.HtlcSecondLevelRevoke, revoked: true, taproot: taproot}
		if taproot {
			w2.wt = input.TaprootHtlcSecondLevelRevoke
			w2.tweak = src[k].tweak[:]
		}
		remaining = append(remaining, w2)
	}
	if nHtlc == 2 && len(spends) >= 2 {
		a, b := spends[len(spends)-2], spends[len(spends)-1]
		if a.index >= nCommit {
			// two different second-level / justice transactions
			vAssume(*a.detail.SpenderTxHash != *b.detail.SpenderTxHash)
		}
	}
	// outputs that remain to be punished: again within the money supply
	sum = 0
	for i := range remaining {
		sum += remaining[i].value
	}
	vAssume(sum <= c04xMaxSat)

	if len(spends) > 0 {
		total, revoked := updateBreachInfo(info, spends)
		vAssert(int64(total) == wantTotal && int64(revoked) == wantRevoked,
			"funds counted as swept / revoked = outputs spent by our own justice transactions")
		vAssert(len(info.breachedOutputs) == len(remaining),
			"outputs we swept are removed, outputs taken to the second level stay")
		if len(info.breachedOutputs) != len(remaining) {
			return
		}
		vReach("after-spends")
	} else {
		vReach("fresh")
	}

	// ---- the justice transactions ----
	signer := &c04xSigner{}
	est := &c04xEstimator{rate: chainfee.SatPerKWeight(vU32("feeRate")), fail: vBool("estimatorFails")}
	sweepScript := append([]byte{txscript.OP_1, txscript.OP_DATA_32}, vBytes("sweepScript", 32)...)
	arb := &BreachArbitrator{cfg: &BreachConfig{
		Signer:    signer,
		Estimator: est,
		GenSweepScript: func() fn.Result[lnwallet.AddrWithKey] {
			return fn.Ok(lnwallet.AddrWithKey{DeliveryAddress: sweepScript})
		},
	}}
	txs, err := arb.createJusticeTx(info.breachedOutputs)

	if len(remaining) == 0 {
		vAssert(err == nil && txs != nil && txs.spendAll == nil && txs.spendCommitOuts == nil &&
			txs.spendHTLCs == nil && len(txs.spendSecondLevelHTLCs) == 0, "nothing left: no transactions")
		vReach("nothing-left")
		return
	}
	if est.fail {
		vAssert(err != nil && txs == nil, "no fee estimate: error, no transaction")
		vReach("estimator-fails")
		return
	}
	for _, t := range est.target {
		vAssert(t == 2, "fee estimate for confirmation within 2 blocks")
	}

	var commit, htlc, second []c04xWant
	for _, w := range remaining {
		switch w.cls {
		case c04xClsCommit:
			commit = append(commit, w)
		case c04xClsHtlc:
			htlc = append(htlc, w)
		default:
			second = append(second, w)
		}
	}

	// spendAll decides the result
	{
		var we input.TxWeightEstimator
		we.AddP2TROutput()
		var total int64
		for j := range remaining {
			we.AddWitnessInput(c04xWitnessSize(remaining[j].wt))
			total += remaining[j].value
		}
		if total < int64(est.rate)*int64(we.Weight())/1000 {
			vAssert(err != nil && txs == nil, "fee exceeds the total value: error instead of a transaction with a negative output")
			vReach("all-fee-exceeds-value")
			return
		}
	}
	vAssert(err == nil && txs != nil, "justice transactions are built")
	if err != nil || txs == nil {
		return
	}
	c04xCheckVariant(txs.spendAll, remaining, signer, est.rate, sweepScript, "spend-all")
	c04xCheckVariant(txs.spendCommitOuts, commit, signer, est.rate, sweepScript, "spend-commit")
	c04xCheckVariant(txs.spendHTLCs, htlc, signer, est.rate, sweepScript, "spend-htlcs")

	// one transaction per second-level output whose value covers its fee
	p := 0
	for j := range second {
		one := second[j : j+1]
		var we input.TxWeightEstimator
		we.AddP2TROutput()
		we.AddWitnessInput(c04xWitnessSize(one[0].wt))
		if one[0].value < int64(est.rate)*int64(we.Weight())/1000 {
			vReach("second-level-fee-exceeds-value")
			continue
		}
		vAssert(p < len(txs.spendSecondLevelHTLCs), "a transaction for every second-level output")
		if p >= len(txs.spendSecondLevelHTLCs) {
			return
		}
		c04xCheckVariant(txs.spendSecondLevelHTLCs[p], one, signer, est.rate, sweepScript, "spend-second-level")
		p++
	}
	vAssert(p == len(txs.spendSecondLevelHTLCs), "no other second-level transactions")

	// every output to be punished is covered by spendAll and by its class variant
	vAssert(len(commit)+len(htlc)+len(second) == len(remaining), "classes partition the outputs")
	if taproot {
		vReach("taproot")
	} else {
		vReach("segwit-v0")
	}
}

func VerifC04xJustice0() { c04xDustOracle = false; c04xJustice(0) }
func VerifC04xJustice1() { c04xDustOracle = false; c04xJustice(1) }
func VerifC04xJustice2() { c04xDustOracle = false; c04xJustice(2) }

// VerifC04xDustCandidate0: NOT in spec.json "units" (reports a violation on the
// unchanged tree, see NOTES.md): the same drive with the additional demand
// that a justice transaction that is built has no dust output.
func VerifC04xDustCandidate0() { c04xDustOracle = true; c04xJustice(0) }
