package channeldb

// Harness for C14, stage 2: the REAL persistent height-hint cache
// (channeldb/height_hint.go) refines the abstract map "watched object -> last
// committed height" that stage 1 (package chainntnfs, zz_verif_c14*.go) puts
// behind the real TxNotifier.
//
// Unit (real lnd code, executed symbolically and in native replay):
//   NewHeightHintCache / initBuckets, (*HeightHintCache).CommitSpendHint,
//   QuerySpendHint, PurgeSpendHint, CommitConfirmHint, QueryConfirmHint,
//   PurgeConfirmHint, spendHintKey, confHintKey, the CacheConfig.QueryDisable
//   switch, WriteElement/ReadElement (uint32, chainhash.Hash, wire.OutPoint),
//   graphdb.WriteOutpoint, kvdb.Batch/View, and from chainntnfs
//   NewSpendRequest / NewConfRequest (txscript.ParsePkScript, PkScript.Script).
//
// Fake: c14hDB, an in-memory walletdb.DB (= kvdb.Backend) with top-level
// buckets as key/value lists (copied from the C07 harness). A read-write
// transaction is atomic: it may be failed by injection (symbolic flag: at
// commit, or an error returned by its first Put/Delete/CreateTopLevelBucket)
// and a transaction whose closure returns an error or that fails at commit
// leaves the store exactly as it was. Atomicity of kvdb transactions is
// ASSUMED, not checked.
//
// Oracle: the reference model is a map from the WATCHED OBJECT of a request
// (the outpoint of an outpoint-based spend request, the txid of a txid-based
// confirmation request, the output script of a script-based request; spend and
// confirm side separate) to "no hint" or the height of the last successful
// Commit that named the object since the last successful Purge that named it.
// The model is kept by the harness from the inputs alone; it never looks at
// keys, buckets or encodings. After every operation every request is queried
// and compared with the model.

import (
	"bytes"
	"errors"
	"io"

	"github.com/btcsuite/btcd/wire/v2"
	"github.com/btcsuite/btcwallet/walletdb"
	"github.com/lightningnetwork/lnd/chainntnfs"
)

// ---------------------------------------------------------------------------
// fake kvdb backend
// ---------------------------------------------------------------------------

type c14hKV struct{ k, v []byte }

type c14hBucket struct {
	name string
	kvs  []c14hKV
}

type c14hDB struct {
	buckets  []*c14hBucket
	errWrite error
	// inject: read-write transactions may be failed; budget: how many more;
	// atOp: the failure may also show at the first write instead of at commit.
	inject bool
	budget int
	atOp   bool
	// environment facts the oracle may read: read-write transactions started
	// and how many of them were failed by injection.
	rwTxs int
	fails int
}

func c14hNewDB(budget int, atOp bool) *c14hDB {
	return &c14hDB{errWrite: errors.New("c14: injected write failure"), budget: budget, atOp: atOp}
}

func (d *c14hDB) find(name string) *c14hBucket {
	for _, b := range d.buckets {
		if b.name == name {
			return b
		}
	}
	return nil
}

func (d *c14hDB) mustBucket(name string) *c14hBucket {
	if b := d.find(name); b != nil {
		return b
	}
	b := &c14hBucket{name: name}
	d.buckets = append(d.buckets, b)
	return b
}

func c14hCopyBytes(b []byte) []byte {
	if b == nil {
		return nil
	}
	c := make([]byte, len(b))
	copy(c, b)
	return c
}

func (d *c14hDB) snapshot() []*c14hBucket {
	s := make([]*c14hBucket, len(d.buckets))
	for i, b := range d.buckets {
		nb := &c14hBucket{name: b.name, kvs: make([]c14hKV, len(b.kvs))}
		copy(nb.kvs, b.kvs)
		s[i] = nb
	}
	return s
}

func (b *c14hBucket) index(key []byte) int {
	for i := range b.kvs {
		if bytes.Equal(b.kvs[i].k, key) {
			return i
		}
	}
	return -1
}

func (b *c14hBucket) get(key []byte) []byte {
	if i := b.index(key); i >= 0 {
		return b.kvs[i].v
	}
	return nil
}

func (d *c14hDB) BeginReadTx() (walletdb.ReadTx, error) {
	panic("c14 fake kvdb: BeginReadTx is not used by the height hint cache")
}
func (d *c14hDB) BeginReadWriteTx() (walletdb.ReadWriteTx, error) {
	panic("c14 fake kvdb: BeginReadWriteTx is not used by the height hint cache")
}
func (d *c14hDB) Copy(w io.Writer) error {
	panic("c14 fake kvdb: Copy is not used by the height hint cache")
}
func (d *c14hDB) Close() error       { return nil }
func (d *c14hDB) PrintStats() string { return "" }

func (d *c14hDB) View(f func(tx walletdb.ReadTx) error, reset func()) error {
	reset()
	return f(&c14hTx{db: d})
}

// Update runs one atomic read-write transaction.
func (d *c14hDB) Update(f func(tx walletdb.ReadWriteTx) error, reset func()) error {
	fail := false
	if d.inject && d.budget > 0 {
		fail = vBool("db.fail")
	}
	d.rwTxs++
	snap := d.snapshot()
	reset()
	tx := &c14hTx{db: d, writable: true}
	if fail {
		d.budget--
		d.fails++
		// the failure shows either at the first Put/Delete or at commit
		if d.atOp {
			tx.failOp = vBool("db.failAtFirstWrite")
		}
	}
	err := f(tx)
	// A failure at commit fails the transaction whatever the closure
	// returned. A failed write (bbolt: Put/Delete errors do not abort the
	// transaction) fails it only if the closure passes the error on: a
	// closure that swallows it gets the rest of its writes committed.
	if err == nil && fail && !tx.opFailed {
		err = d.errWrite
	}
	if err != nil {
		d.buckets = snap
		return err
	}
	return nil
}

type c14hTx struct {
	db       *c14hDB
	writable bool
	failOp   bool // the next write fails
	opFailed bool // a write has failed
}

// writeFails delivers the injected write failure once.
func (t *c14hTx) writeFails() bool {
	if t.failOp {
		t.failOp, t.opFailed = false, true
		return true
	}
	return false
}

func (t *c14hTx) bucket(key []byte) *c14hBucketH {
	b := t.db.find(string(key))
	if b == nil {
		return nil
	}
	return &c14hBucketH{b: b, tx: t}
}

func (t *c14hTx) ReadBucket(key []byte) walletdb.ReadBucket {
	if h := t.bucket(key); h != nil {
		return h
	}
	return nil
}

func (t *c14hTx) ReadWriteBucket(key []byte) walletdb.ReadWriteBucket {
	if h := t.bucket(key); h != nil {
		return h
	}
	return nil
}

func (t *c14hTx) CreateTopLevelBucket(key []byte) (walletdb.ReadWriteBucket, error) {
	if !t.writable {
		return nil, walletdb.ErrTxNotWritable
	}
	if t.writeFails() {
		return nil, t.db.errWrite
	}
	return &c14hBucketH{b: t.db.mustBucket(string(key)), tx: t}, nil
}

func (t *c14hTx) ForEachBucket(func(key []byte) error) error {
	panic("c14 fake kvdb: ForEachBucket is not used by the height hint cache")
}
func (t *c14hTx) Rollback() error {
	panic("c14 fake kvdb: Rollback is not used by the height hint cache")
}
func (t *c14hTx) DeleteTopLevelBucket(key []byte) error {
	panic("c14 fake kvdb: DeleteTopLevelBucket is not used by the height hint cache")
}
func (t *c14hTx) Commit() error {
	panic("c14 fake kvdb: Commit is not used by the height hint cache")
}
func (t *c14hTx) OnCommit(func()) {
	panic("c14 fake kvdb: OnCommit is not used by the height hint cache")
}

type c14hBucketH struct {
	b  *c14hBucket
	tx *c14hTx
}

func (h *c14hBucketH) ForEach(f func(k, v []byte) error) error {
	kvs := make([]c14hKV, len(h.b.kvs))
	copy(kvs, h.b.kvs)
	for _, kv := range kvs {
		if err := f(c14hCopyBytes(kv.k), c14hCopyBytes(kv.v)); err != nil {
			return err
		}
	}
	return nil
}

func (h *c14hBucketH) Get(key []byte) []byte { return c14hCopyBytes(h.b.get(key)) }

func (h *c14hBucketH) Put(key, value []byte) error {
	if !h.tx.writable {
		return walletdb.ErrTxNotWritable
	}
	if len(key) == 0 {
		return walletdb.ErrKeyRequired
	}
	if h.tx.writeFails() {
		return h.tx.db.errWrite
	}
	k, v := c14hCopyBytes(key), c14hCopyBytes(value)
	if v == nil {
		v = []byte{}
	}
	if i := h.b.index(key); i >= 0 {
		h.b.kvs[i].v = v
		return nil
	}
	h.b.kvs = append(h.b.kvs, c14hKV{k, v})
	return nil
}

func (h *c14hBucketH) Delete(key []byte) error {
	if !h.tx.writable {
		return walletdb.ErrTxNotWritable
	}
	if h.tx.writeFails() {
		return h.tx.db.errWrite
	}
	i := h.b.index(key)
	if i < 0 {
		return nil
	}
	n := make([]c14hKV, 0, len(h.b.kvs)-1)
	n = append(n, h.b.kvs[:i]...)
	n = append(n, h.b.kvs[i+1:]...)
	h.b.kvs = n
	return nil
}

func (h *c14hBucketH) NestedReadBucket(key []byte) walletdb.ReadBucket {
	panic("c14 fake kvdb: NestedReadBucket is not used by the height hint cache")
}
func (h *c14hBucketH) ReadCursor() walletdb.ReadCursor {
	panic("c14 fake kvdb: ReadCursor is not used by the height hint cache")
}
func (h *c14hBucketH) Sequence() uint64 {
	panic("c14 fake kvdb: Sequence is not used by the height hint cache")
}
func (h *c14hBucketH) NestedReadWriteBucket(key []byte) walletdb.ReadWriteBucket {
	panic("c14 fake kvdb: NestedReadWriteBucket is not used by the height hint cache")
}
func (h *c14hBucketH) CreateBucket(key []byte) (walletdb.ReadWriteBucket, error) {
	panic("c14 fake kvdb: CreateBucket is not used by the height hint cache")
}
func (h *c14hBucketH) CreateBucketIfNotExists(key []byte) (walletdb.ReadWriteBucket, error) {
	panic("c14 fake kvdb: CreateBucketIfNotExists is not used by the height hint cache")
}
func (h *c14hBucketH) DeleteNestedBucket(key []byte) error {
	panic("c14 fake kvdb: DeleteNestedBucket is not used by the height hint cache")
}
func (h *c14hBucketH) ReadWriteCursor() walletdb.ReadWriteCursor {
	panic("c14 fake kvdb: ReadWriteCursor is not used by the height hint cache")
}
func (h *c14hBucketH) Tx() walletdb.ReadWriteTx { return h.tx }
func (h *c14hBucketH) NextSequence() (uint64, error) {
	panic("c14 fake kvdb: NextSequence is not used by the height hint cache")
}
func (h *c14hBucketH) SetSequence(v uint64) error {
	panic("c14 fake kvdb: SetSequence is not used by the height hint cache")
}

// ---------------------------------------------------------------------------
// requests
// ---------------------------------------------------------------------------

// c14hParams are the structural bounds of one entry.
type c14hParams struct {
	nS, nC  int  // spend / confirmation requests
	steps   int  // operations in the script
	pre     bool // arbitrary pre-state: every distinct watched object may already have a hint (any height), written by real Commit calls
	classes int  // output script classes explored for script-keyed requests (1: P2SH only)
	fails   int  // at most this many injected transaction failures per run
	atOp    bool // a failing transaction may fail at its first write (else only at commit)
	disable bool // the script may restart the cache with QueryDisable flipped
	empty   bool // calls without any request are part of the alphabet
	share   bool // a script-based confirmation request may watch the script of spend request 0
}

// Script classes (chainntnfs accepts exactly the classes txscript.PkScript
// supports; pay-to-anchor has no free bytes and is left out).
const (
	c14hP2SH   = 0 // OP_HASH160 <20> OP_EQUAL, 23 bytes
	c14hP2WSH  = 1 // OP_0 <32>, 34 bytes
	c14hP2PKH  = 2 // OP_DUP OP_HASH160 <20> OP_EQUALVERIFY OP_CHECKSIG, 25 bytes
	c14hP2WPKH = 3 // OP_0 <20>, 22 bytes
	c14hP2TR   = 4 // OP_1 <32>, 34 bytes
)

// c14hScript builds an output script of the given class around symbolic
// hash/key bytes.
func c14hScript(name string, class int) []byte {
	switch class {
	case c14hP2SH:
		b := append([]byte{0xa9, 0x14}, vBytes(name+".prog", 20)...)
		return append(b, 0x87)
	case c14hP2WSH:
		return append([]byte{0x00, 0x20}, vBytes(name+".prog", 32)...)
	case c14hP2PKH:
		b := append([]byte{0x76, 0xa9, 0x14}, vBytes(name+".prog", 20)...)
		return append(b, 0x88, 0xac)
	case c14hP2WPKH:
		return append([]byte{0x00, 0x14}, vBytes(name+".prog", 20)...)
	}
	return append([]byte{0x51, 0x20}, vBytes(name+".prog", 32)...)
}

func c14hName(prefix string, i int) string {
	switch i {
	case 0:
		return prefix + "0"
	case 1:
		return prefix + "1"
	case 2:
		return prefix + "2"
	case 3:
		return prefix + "3"
	}
	return prefix + "4"
}

// c14hSpendReq is one spend request and the description of what it watches.
type c14hSpendReq struct {
	req      chainntnfs.SpendRequest
	root     int // first request that watches the same object (itself if none)
	byScript bool
	op       wire.OutPoint
	script   []byte
}

// c14hConfReq is one confirmation request.
type c14hConfReq struct {
	req      chainntnfs.ConfRequest
	root     int
	byScript bool
	txid     [32]byte
	script   []byte
}

// c14hHint is the reference value for one watched object.
type c14hHint struct {
	has bool
	h   uint32
}

type c14hWorld struct {
	p        c14hParams
	db       *c14hDB
	cache    *HeightHintCache
	disabled bool

	spend []*c14hSpendReq
	conf  []*c14hConfReq
	mS    []c14hHint // indexed by root
	mC    []c14hHint
}

func c14hCommon() {
	vUnwind(300) // chaincfg's package initialiser decodes long hex strings
	// Package initialisers of btcd/dcrd that txscript.ParsePkScript drags in
	// (network parameter tables: genesis/checkpoint hashes, signet challenge;
	// curve constants) are re-run on every path and cost 10x the code under
	// test. ParsePkScript only reads the address-prefix constants of
	// chaincfg.MainNetParams and throws the addresses away; the four helpers
	// below only feed values nothing here reads. Symbolic run only: the
	// native replay runs the real initialisers.
	vNoop("github.com/btcsuite/btcd/chaincfg/v2.newHashFromStr")
	vNoop("github.com/btcsuite/btcd/chaincfg/v2.CustomSignetParams")
	vNoop("github.com/decred/dcrd/dcrec/secp256k1/v4.hexToFieldVal")
	vNoop("github.com/decred/dcrd/dcrec/secp256k1/v4.hexToModNScalar")
	vAssumption("kvdb read-write transactions are atomic: a failed transaction (error at the first Put/Delete/CreateTopLevelBucket or at commit) leaves the store unchanged (fake in-memory walletdb.DB without BatchDB, so kvdb.Batch runs db.Update; no real bbolt/sql backend)")
	vAssumption("read transactions do not fail; single-threaded (no concurrent Batch callers)")
	vAssumption("two requests of one side with the same non-zero outpoint (txid) carry the same output script: a hint belongs to the watched outpoint/transaction")
}

// newSpend draws spend request i: a new outpoint-based request, a new
// script-based request, or a second request for the object an earlier request
// watches (built again from the same values, so that the keys are equal).
func (w *c14hWorld) newSpend(i int) {
	name := c14hName("s", i)
	src := vChoice(name+".src", 2+i)
	r := &c14hSpendReq{root: i}
	switch {
	case src >= 2:
		e := w.spend[src-2]
		r.root, r.byScript, r.op, r.script = e.root, e.byScript, e.op, e.script
		vReach("spend-same-object")
	case src == 0:
		r.op.Index = vU32(name + ".index")
		copy(r.op.Hash[:], vBytes(name+".hash", 32))
		// an all-zero outpoint means "script-based" (src 1)
		vAssume(r.op != (wire.OutPoint{}))
		class := c14hP2SH
		if w.p.classes > 1 && vChoice(name+".taproot", 2) == 1 {
			class = c14hP2TR
		}
		// the script of an outpoint-based request is free (no relation to
		// any other script is assumed)
		r.script = c14hScript(name, class)
	default:
		r.byScript = true
		// NewSpendRequest refuses script-based Taproot requests
		class := vChoice(name+".class", c14hMin(w.p.classes, 4))
		r.script = c14hScript(name, class)
	}
	if r.root == i {
		// distinct roots watch distinct objects
		for _, e := range w.spend {
			if e.byScript != r.byScript {
				continue
			}
			if r.byScript {
				if len(e.script) == len(r.script) {
					vAssume(!bytes.Equal(e.script, r.script))
				}
			} else {
				vAssume(e.op != r.op)
			}
		}
	}
	var err error
	switch {
	case !r.byScript:
		op := r.op
		r.req, err = chainntnfs.NewSpendRequest(&op, r.script)
		vReach("spend-outpoint-keyed")
	case i%2 == 0:
		r.req, err = chainntnfs.NewSpendRequest(nil, r.script)
		vReach("spend-script-keyed")
	default:
		zero := wire.OutPoint{}
		r.req, err = chainntnfs.NewSpendRequest(&zero, r.script)
		vReach("spend-script-keyed")
	}
	vAssert(err == nil, "NewSpendRequest refuses a supported output script")
	w.spend = append(w.spend, r)
	w.mS = append(w.mS, c14hHint{})
}

func c14hMin(a, b int) int {
	if a < b {
		return a
	}
	return b
}

// newConf draws confirmation request i (txid-based, script-based, same object
// as an earlier confirmation request, or script-based on the very script of
// spend request 0 so that both buckets hold the same key).
func (w *c14hWorld) newConf(i int) {
	name := c14hName("c", i)
	n := 2 + i
	shareAt := -1
	if w.p.share && len(w.spend) > 0 {
		shareAt = n
		n++
	}
	src := vChoice(name+".src", n)
	r := &c14hConfReq{root: i}
	switch {
	case src == shareAt:
		r.byScript = true
		r.script = w.spend[0].script
		// a Taproot script is fine for a confirmation request
		vReach("conf-shares-spend-script")
	case src >= 2:
		e := w.conf[src-2]
		r.root, r.byScript, r.txid, r.script = e.root, e.byScript, e.txid, e.script
		vReach("conf-same-object")
	case src == 0:
		copy(r.txid[:], vBytes(name+".txid", 32))
		// the all-zero txid means "script-based" (src 1)
		vAssume(r.txid != [32]byte{})
		r.script = c14hScript(name, c14hP2SH)
	default:
		r.byScript = true
		class := vChoice(name+".class", w.p.classes)
		r.script = c14hScript(name, class)
	}
	if r.root == i {
		for _, e := range w.conf {
			if e.byScript != r.byScript {
				continue
			}
			if r.byScript {
				if len(e.script) == len(r.script) {
					vAssume(!bytes.Equal(e.script, r.script))
				}
			} else {
				vAssume(e.txid != r.txid)
			}
		}
	}
	var err error
	switch {
	case !r.byScript:
		var txid = chainntnfs.ZeroHash
		copy(txid[:], r.txid[:])
		r.req, err = chainntnfs.NewConfRequest(&txid, r.script)
		vReach("conf-txid-keyed")
	case i%2 == 0:
		r.req, err = chainntnfs.NewConfRequest(nil, r.script)
		vReach("conf-script-keyed")
	default:
		zero := chainntnfs.ZeroHash
		r.req, err = chainntnfs.NewConfRequest(&zero, r.script)
		vReach("conf-script-keyed")
	}
	vAssert(err == nil, "NewConfRequest refuses a supported output script")
	w.conf = append(w.conf, r)
	w.mC = append(w.mC, c14hHint{})
}

// ---------------------------------------------------------------------------
// world, operations, oracle
// ---------------------------------------------------------------------------

func c14hNewWorld(p c14hParams) *c14hWorld {
	c14hCommon()
	w := &c14hWorld{p: p, db: c14hNewDB(p.fails, p.atOp)}
	for i := 0; i < p.nS; i++ {
		w.newSpend(i)
	}
	for i := 0; i < p.nC; i++ {
		w.newConf(i)
	}
	w.open(false)
	return w
}

// open is a (re)start: a new HeightHintCache over the same store.
func (w *c14hWorld) open(disable bool) {
	inj := w.db.inject
	w.db.inject = false
	cache, err := NewHeightHintCache(CacheConfig{QueryDisable: disable}, w.db)
	w.db.inject = inj
	vAssert(err == nil && cache != nil, "NewHeightHintCache fails on a working store")
	w.cache, w.disabled = cache, disable
}

func (w *c14hWorld) spendSet(mask int) ([]chainntnfs.SpendRequest, []int) {
	var reqs []chainntnfs.SpendRequest
	var roots []int
	for i, r := range w.spend {
		if mask&(1<<uint(i)) != 0 {
			reqs = append(reqs, r.req)
			roots = append(roots, r.root)
		}
	}
	return reqs, roots
}

func (w *c14hWorld) confSet(mask int) ([]chainntnfs.ConfRequest, []int) {
	var reqs []chainntnfs.ConfRequest
	var roots []int
	for i, r := range w.conf {
		if mask&(1<<uint(i)) != 0 {
			reqs = append(reqs, r.req)
			roots = append(roots, r.root)
		}
	}
	return reqs, roots
}

// outcome relates the returned error to what the store did: an operation
// reports an error exactly when its transaction was failed, and then nothing
// of it is applied to the model.
func (w *c14hWorld) outcome(err error, fails0 int, nReqs int, what string) bool {
	if w.db.fails != fails0 {
		vAssert(err != nil, what+": a failed transaction is reported as success")
		vReach("tx-failed")
		return false
	}
	vAssert(err == nil, what+": fails on a working store")
	if nReqs == 0 {
		vReach("empty-call")
	}
	return err == nil
}

func (w *c14hWorld) commitSpend(mask int, h uint32) {
	reqs, roots := w.spendSet(mask)
	f0 := w.db.fails
	err := w.cache.CommitSpendHint(h, reqs...)
	if w.outcome(err, f0, len(reqs), "CommitSpendHint") {
		for _, r := range roots {
			if w.mS[r].has {
				vReach("spend-overwrite")
			}
			w.mS[r] = c14hHint{true, h}
		}
	}
}

func (w *c14hWorld) purgeSpend(mask int) {
	reqs, roots := w.spendSet(mask)
	f0 := w.db.fails
	err := w.cache.PurgeSpendHint(reqs...)
	if w.outcome(err, f0, len(reqs), "PurgeSpendHint") {
		for _, r := range roots {
			if w.mS[r].has {
				vReach("spend-purged")
			}
			w.mS[r] = c14hHint{}
		}
	}
}

func (w *c14hWorld) commitConf(mask int, h uint32) {
	reqs, roots := w.confSet(mask)
	f0 := w.db.fails
	err := w.cache.CommitConfirmHint(h, reqs...)
	if w.outcome(err, f0, len(reqs), "CommitConfirmHint") {
		for _, r := range roots {
			if w.mC[r].has {
				vReach("conf-overwrite")
			}
			w.mC[r] = c14hHint{true, h}
		}
	}
}

func (w *c14hWorld) purgeConf(mask int) {
	reqs, roots := w.confSet(mask)
	f0 := w.db.fails
	err := w.cache.PurgeConfirmHint(reqs...)
	if w.outcome(err, f0, len(reqs), "PurgeConfirmHint") {
		for _, r := range roots {
			if w.mC[r].has {
				vReach("conf-purged")
			}
			w.mC[r] = c14hHint{}
		}
	}
}

// check queries every request and compares with the reference.
func (w *c14hWorld) check(when string) {
	for _, r := range w.spend {
		hint, err := w.cache.QuerySpendHint(r.req)
		m := w.mS[r.root]
		switch {
		case w.disabled:
			// a disabled cache must not make a caller start a rescan
			// above height 0, whatever is stored
			vAssert(err != nil || hint == 0, when+": disabled cache returns a spend hint")
			vReach("disabled-query")
		case m.has:
			vAssert(err == nil, when+": committed spend hint is not found")
			vAssert(err != nil || hint == m.h, when+": spend hint is not the height of the last commit")
			vReach("spend-found")
		default:
			vAssert(err == chainntnfs.ErrSpendHintNotFound, when+": spend hint reported for a request without commit since the last purge")
			vReach("spend-not-found")
		}
	}
	for _, r := range w.conf {
		hint, err := w.cache.QueryConfirmHint(r.req)
		m := w.mC[r.root]
		switch {
		case w.disabled:
			vAssert(err != nil || hint == 0, when+": disabled cache returns a confirm hint")
			vReach("disabled-query")
		case m.has:
			vAssert(err == nil, when+": committed confirm hint is not found")
			vAssert(err != nil || hint == m.h, when+": confirm hint is not the height of the last commit")
			vReach("conf-found")
		default:
			vAssert(err == chainntnfs.ErrConfirmHintNotFound, when+": confirm hint reported for a request without commit since the last purge")
			vReach("conf-not-found")
		}
	}
}

// preState gives every watched object an optional hint of arbitrary height
// through the real Commit calls (one request per call, no injected failure).
func (w *c14hWorld) preState() {
	for i, r := range w.spend {
		if r.root == i && vBool(c14hName("pre.s", i)) {
			w.commitSpend(1<<uint(i), vU32(c14hName("pre.s", i)+".h"))
		}
	}
	for i, r := range w.conf {
		if r.root == i && vBool(c14hName("pre.c", i)) {
			w.commitConf(1<<uint(i), vU32(c14hName("pre.c", i)+".h"))
		}
	}
	w.check("pre-state")
}

// step runs operation k of the script.
func (w *c14hWorld) step(k int) {
	name := c14hName("op", k)
	lo := 1
	if w.p.empty {
		lo = 0
	}
	subS, subC := 0, 0
	if w.p.nS > 0 {
		subS = 1<<uint(w.p.nS) - lo
	}
	if w.p.nC > 0 {
		subC = 1<<uint(w.p.nC) - lo
	}
	total := 2*subS + 2*subC
	if w.p.disable {
		total++
	}
	op := vChoice(name, total)
	w.db.inject = true
	switch {
	case op < subS:
		w.commitSpend(op+lo, vU32(name+".h"))
	case op < 2*subS:
		w.purgeSpend(op - subS + lo)
	case op < 2*subS+subC:
		w.commitConf(op-2*subS+lo, vU32(name+".h"))
	case op < 2*subS+2*subC:
		w.purgeConf(op - 2*subS - subC + lo)
	default:
		// restart with the QueryDisable switch flipped
		w.open(!w.disabled)
		vReach("restart-flipped")
	}
	w.db.inject = false
	w.check("after an operation")
}

func c14hRun(p c14hParams) {
	w := c14hNewWorld(p)
	if p.pre {
		w.preState()
	} else {
		w.check("fresh cache")
	}
	for k := 0; k < p.steps; k++ {
		w.step(k)
	}
	// restart: a new cache (queries enabled) over the same store sees
	// exactly the committed hints, also those written while disabled.
	w.open(false)
	vReach("restart")
	w.check("after a restart")
}

// ---------------------------------------------------------------------------
// entries
// ---------------------------------------------------------------------------

// Quick tier.

// VerifC14HintStepSpend: arbitrary pre-state (every watched object with or
// without a hint of any height), then ONE operation chosen from all Commit /
// Purge calls over 2 spend requests and 1 confirmation request, at most one
// failed transaction. By induction over the script this is the refinement for
// scripts of any length over these requests.
func VerifC14HintStepSpend() {
	c14hRun(c14hParams{nS: 2, nC: 1, steps: 1, pre: true, classes: 1, fails: 1, atOp: true, share: true})
}

// VerifC14HintStepConf: the same with 1 spend and 2 confirmation requests.
func VerifC14HintStepConf() {
	c14hRun(c14hParams{nS: 1, nC: 2, steps: 1, pre: true, classes: 1, fails: 1, atOp: true, share: true})
}

// VerifC14HintSeq2: every script of 2 operations from the empty cache (no
// injected failure: failed transactions are covered by the Step entries).
func VerifC14HintSeq2() {
	c14hRun(c14hParams{nS: 2, nC: 1, steps: 2, classes: 1, share: true})
}

// VerifC14HintDisable: scripts of 2 operations with the QueryDisable restart
// and calls without requests in the alphabet.
func VerifC14HintDisable() {
	c14hRun(c14hParams{nS: 1, nC: 1, steps: 2, classes: 1, disable: true, empty: true, share: true})
}

// Thorough tier.

// VerifC14HintSeq3 / Seq3Conf: every script of 3 operations.
func VerifC14HintSeq3() {
	c14hRun(c14hParams{nS: 2, nC: 1, steps: 3, classes: 1, share: true})
}
func VerifC14HintSeq3Conf() {
	c14hRun(c14hParams{nS: 1, nC: 2, steps: 3, classes: 1, share: true})
}

// VerifC14HintStep3Spend / Step3Conf: the one-step refinement with three
// requests on one side (calls over up to three requests, all alias shapes;
// a failed transaction fails at commit).
func VerifC14HintStep3Spend() {
	c14hRun(c14hParams{nS: 3, nC: 1, steps: 1, pre: true, classes: 1, fails: 1, share: true})
}
func VerifC14HintStep3Conf() {
	c14hRun(c14hParams{nS: 1, nC: 3, steps: 1, pre: true, classes: 1, fails: 1, share: true})
}

// VerifC14HintClasses / ClassesConf: the one-step refinement over all output
// script classes chainntnfs accepts (P2SH, P2WSH, P2PKH, P2WPKH, P2TR), two
// requests of one side only (no failed transaction).
func VerifC14HintClasses() {
	c14hRun(c14hParams{nS: 2, steps: 1, pre: true, classes: 5})
}
func VerifC14HintClassesConf() {
	c14hRun(c14hParams{nC: 2, steps: 1, pre: true, classes: 5})
}

// VerifC14HintDisable3: 3 operations with QueryDisable restarts and empty
// calls.
func VerifC14HintDisable3() {
	c14hRun(c14hParams{nS: 1, nC: 1, steps: 3, classes: 1, disable: true, empty: true, share: true})
}

// VerifC14HintReorg is the reorg story of the property on the real cache:
// the notifier commits the tip height for an unspent/unconfirmed request
// (updateHints at ConnectTip), a reorg makes it commit a LOWER height
// (updateHints at DisconnectTip), the process restarts. The persisted hint
// must be the lower one, for the spend and for the confirm side, for
// outpoint/txid-based and script-based requests.
func VerifC14HintReorg() {
	w := c14hNewWorld(c14hParams{nS: 1, nC: 1, classes: 1})
	hi, lo := vU32("hi"), vU32("lo")
	vAssume(lo < hi)
	w.commitSpend(1, hi)
	w.commitConf(1, hi)
	w.check("after the tip was committed")
	w.commitSpend(1, lo)
	w.commitConf(1, lo)
	vReach("hint-lowered")
	w.check("after the reorg lowered the hints")
	w.open(false)
	w.check("after a restart")
	hs, errS := w.cache.QuerySpendHint(w.spend[0].req)
	hc, errC := w.cache.QueryConfirmHint(w.conf[0].req)
	vAssert(errS == nil && hs <= lo, "persisted spend hint stays above the height committed after the reorg")
	vAssert(errC == nil && hc <= lo, "persisted confirm hint stays above the height committed after the reorg")
}

// VerifC14HintInit: start-up on an empty store. A failed initialisation
// returns no cache and leaves nothing behind; a cache that was never
// initialised (no buckets) reports corruption instead of a hint.
func VerifC14HintInit() {
	c14hCommon()
	w := &c14hWorld{p: c14hParams{nS: 1, nC: 1, classes: 1}, db: c14hNewDB(1, true)}
	w.newSpend(0)
	w.newConf(0)

	raw := &HeightHintCache{db: w.db}
	h, err := raw.QuerySpendHint(w.spend[0].req)
	vAssert(err != nil && h == 0, "spend hint from a store without buckets")
	h, err = raw.QueryConfirmHint(w.conf[0].req)
	vAssert(err != nil && h == 0, "confirm hint from a store without buckets")
	vAssert(raw.CommitSpendHint(vU32("h0"), w.spend[0].req) != nil, "commit into a store without buckets succeeds")
	vAssert(raw.CommitConfirmHint(vU32("h1"), w.conf[0].req) != nil, "commit into a store without buckets succeeds")
	vAssert(len(w.db.buckets) == 0, "a refused commit created buckets")
	vReach("uninitialised")

	w.db.inject = true
	cache, err := NewHeightHintCache(CacheConfig{}, w.db)
	w.db.inject = false
	if w.db.fails != 0 {
		vAssert(err != nil && cache == nil, "failed initialisation returns a cache")
		vAssert(len(w.db.buckets) == 0, "failed initialisation left buckets behind")
		vReach("init-failed")
		w.open(false)
	} else {
		vAssert(err == nil && cache != nil, "NewHeightHintCache fails on a working store")
		w.cache = cache
	}
	w.check("fresh cache")
	w.commitSpend(1, vU32("h2"))
	w.commitConf(1, vU32("h3"))
	w.check("after commits")
	// a second initialisation (restart) must keep the hints
	w.open(false)
	vReach("restart")
	w.check("after a restart")
}
