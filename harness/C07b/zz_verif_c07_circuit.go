package htlcswitch

// Harness for C07, part 2: the switch's circuit map.
//
// Unit (real lnd code, executed symbolically and in native replay):
//   (*circuitMap).CommitCircuits, OpenCircuits, TrimOpenCircuits, FailCircuit,
//   CloseCircuit, DeleteCircuits, LookupCircuit, LookupOpenCircuit,
//   LookupByPaymentHash, NumPending, NumOpen, restoreMemState, decodeCircuit,
//   (*PaymentCircuit).Encode/Decode/HasKeystone/InKey/OutKey,
//   models.CircuitKey Bytes/SetBytes/Encode/Decode, kvdb.Update/Batch.
//
// Fake: c07DB, an in-memory walletdb.DB (= kvdb.Backend) with top-level
// buckets as ordered key/value lists. Every read-write transaction draws a
// symbolic "this transaction fails" flag (either at its first Put/Delete or at
// commit) and a failed transaction leaves the store exactly as it was: the
// atomicity kvdb promises is ASSUMED, not checked.
//
// Method: one step (or two, for the settle/fail arbitration) from an ARBITRARY
// CONSISTENT pre-state with at most 2 (quick) / 3 (thorough) circuits: circuit keys, keystones,
// LoadedFromDisk, membership in `closed`, payment data are symbolic; the
// representation invariant that ties pending/opened/closed/hashIndex and the
// two buckets together is written out in c07Build. The oracles below are the
// decision tables of the property, written over the abstract description of
// the pre-state (c07Circ), never by calling the code under test.

import (
	"bytes"
	"errors"
	"io"

	"github.com/btcsuite/btcwallet/walletdb"
	"github.com/lightningnetwork/lnd/channeldb"
	"github.com/lightningnetwork/lnd/lnwire"
)

// ---------------------------------------------------------------------------
// fake kvdb backend
// ---------------------------------------------------------------------------

type c07KV struct{ k, v []byte }

type c07Bucket struct {
	name string
	kvs  []c07KV
}

type c07DB struct {
	buckets  []*c07Bucket
	errWrite error
	failAtOp bool
	// txs counts read-write transactions started, fails records the failure
	// flag each of them drew (environment inputs the oracles may read).
	txs   int
	fails []bool
}

func c07NewDB() *c07DB {
	return &c07DB{errWrite: errors.New("c07: injected write failure"), failAtOp: c07P.failAtOp}
}

func (d *c07DB) find(name string) *c07Bucket {
	for _, b := range d.buckets {
		if b.name == name {
			return b
		}
	}
	return nil
}

func (d *c07DB) mustBucket(name string) *c07Bucket {
	if b := d.find(name); b != nil {
		return b
	}
	b := &c07Bucket{name: name}
	d.buckets = append(d.buckets, b)
	return b
}

func c07CopyBytes(b []byte) []byte {
	if b == nil {
		return nil
	}
	c := make([]byte, len(b))
	copy(c, b)
	return c
}

// snapshot copies the bucket list and every bucket's entry list (the byte
// slices themselves are never modified in place).
func (d *c07DB) snapshot() []*c07Bucket {
	s := make([]*c07Bucket, len(d.buckets))
	for i, b := range d.buckets {
		nb := &c07Bucket{name: b.name, kvs: make([]c07KV, len(b.kvs))}
		copy(nb.kvs, b.kvs)
		s[i] = nb
	}
	return s
}

func (b *c07Bucket) index(key []byte) int {
	for i := range b.kvs {
		if bytes.Equal(b.kvs[i].k, key) {
			return i
		}
	}
	return -1
}

func (b *c07Bucket) get(key []byte) []byte {
	if i := b.index(key); i >= 0 {
		return b.kvs[i].v
	}
	return nil
}

func (d *c07DB) BeginReadTx() (walletdb.ReadTx, error) {
	panic("c07 fake kvdb: BeginReadTx is not used by the circuit map")
}
func (d *c07DB) BeginReadWriteTx() (walletdb.ReadWriteTx, error) {
	panic("c07 fake kvdb: BeginReadWriteTx is not used by the circuit map")
}
func (d *c07DB) Copy(w io.Writer) error { panic("c07 fake kvdb: Copy is not used by the circuit map") }
func (d *c07DB) Close() error           { return nil }
func (d *c07DB) PrintStats() string     { return "" }

func (d *c07DB) View(f func(tx walletdb.ReadTx) error, reset func()) error {
	reset()
	return f(&c07Tx{db: d})
}

// Update runs one atomic read-write transaction.
func (d *c07DB) Update(f func(tx walletdb.ReadWriteTx) error, reset func()) error {
	fail := vBool("db.fail")
	d.txs++
	d.fails = append(d.fails, fail)
	snap := d.snapshot()
	reset()
	tx := &c07Tx{db: d, writable: true}
	if fail && d.failAtOp {
		// the failure shows either at the first Put/Delete or at commit
		tx.failOp = vBool("db.failAtFirstWrite")
	}
	err := f(tx)
	if err == nil && fail {
		err = d.errWrite
	}
	if err != nil {
		d.buckets = snap
		return err
	}
	return nil
}

type c07Tx struct {
	db       *c07DB
	writable bool
	failOp   bool
}

func (t *c07Tx) bucket(key []byte) *c07BucketH {
	b := t.db.find(string(key))
	if b == nil {
		return nil
	}
	return &c07BucketH{b: b, tx: t}
}

func (t *c07Tx) ReadBucket(key []byte) walletdb.ReadBucket {
	if h := t.bucket(key); h != nil {
		return h
	}
	return nil
}

func (t *c07Tx) ReadWriteBucket(key []byte) walletdb.ReadWriteBucket {
	if h := t.bucket(key); h != nil {
		return h
	}
	return nil
}

func (t *c07Tx) CreateTopLevelBucket(key []byte) (walletdb.ReadWriteBucket, error) {
	if !t.writable {
		return nil, walletdb.ErrTxNotWritable
	}
	return &c07BucketH{b: t.db.mustBucket(string(key)), tx: t}, nil
}

func (t *c07Tx) ForEachBucket(func(key []byte) error) error {
	panic("c07 fake kvdb: ForEachBucket is not used by the circuit map")
}
func (t *c07Tx) Rollback() error { panic("c07 fake kvdb: Rollback is not used by the circuit map") }
func (t *c07Tx) DeleteTopLevelBucket(key []byte) error {
	panic("c07 fake kvdb: DeleteTopLevelBucket is not used by the circuit map")
}
func (t *c07Tx) Commit() error   { panic("c07 fake kvdb: Commit is not used by the circuit map") }
func (t *c07Tx) OnCommit(func()) { panic("c07 fake kvdb: OnCommit is not used by the circuit map") }

type c07BucketH struct {
	b  *c07Bucket
	tx *c07Tx
}

func (h *c07BucketH) ForEach(f func(k, v []byte) error) error {
	kvs := make([]c07KV, len(h.b.kvs))
	copy(kvs, h.b.kvs)
	for _, kv := range kvs {
		if err := f(c07CopyBytes(kv.k), c07CopyBytes(kv.v)); err != nil {
			return err
		}
	}
	return nil
}

func (h *c07BucketH) Get(key []byte) []byte { return c07CopyBytes(h.b.get(key)) }

func (h *c07BucketH) Put(key, value []byte) error {
	if !h.tx.writable {
		return walletdb.ErrTxNotWritable
	}
	if len(key) == 0 {
		return walletdb.ErrKeyRequired
	}
	if h.tx.failOp {
		return h.tx.db.errWrite
	}
	k, v := c07CopyBytes(key), c07CopyBytes(value)
	if v == nil {
		v = []byte{}
	}
	if i := h.b.index(key); i >= 0 {
		h.b.kvs[i].v = v
		return nil
	}
	h.b.kvs = append(h.b.kvs, c07KV{k, v})
	return nil
}

func (h *c07BucketH) Delete(key []byte) error {
	if !h.tx.writable {
		return walletdb.ErrTxNotWritable
	}
	if h.tx.failOp {
		return h.tx.db.errWrite
	}
	i := h.b.index(key)
	if i < 0 {
		return nil
	}
	n := make([]c07KV, 0, len(h.b.kvs)-1)
	n = append(n, h.b.kvs[:i]...)
	n = append(n, h.b.kvs[i+1:]...)
	h.b.kvs = n
	return nil
}

func (h *c07BucketH) NestedReadBucket(key []byte) walletdb.ReadBucket {
	panic("c07 fake kvdb: NestedReadBucket is not used by the circuit map")
}
func (h *c07BucketH) ReadCursor() walletdb.ReadCursor {
	panic("c07 fake kvdb: ReadCursor is not used by the circuit map")
}
func (h *c07BucketH) Sequence() uint64 {
	panic("c07 fake kvdb: Sequence is not used by the circuit map")
}
func (h *c07BucketH) NestedReadWriteBucket(key []byte) walletdb.ReadWriteBucket {
	panic("c07 fake kvdb: NestedReadWriteBucket is not used by the circuit map")
}
func (h *c07BucketH) CreateBucket(key []byte) (walletdb.ReadWriteBucket, error) {
	panic("c07 fake kvdb: CreateBucket is not used by the circuit map")
}
func (h *c07BucketH) CreateBucketIfNotExists(key []byte) (walletdb.ReadWriteBucket, error) {
	panic("c07 fake kvdb: CreateBucketIfNotExists is not used by the circuit map")
}
func (h *c07BucketH) DeleteNestedBucket(key []byte) error {
	panic("c07 fake kvdb: DeleteNestedBucket is not used by the circuit map")
}
func (h *c07BucketH) ReadWriteCursor() walletdb.ReadWriteCursor {
	panic("c07 fake kvdb: ReadWriteCursor is not used by the circuit map")
}
func (h *c07BucketH) Tx() walletdb.ReadWriteTx { return h.tx }
func (h *c07BucketH) NextSequence() (uint64, error) {
	panic("c07 fake kvdb: NextSequence is not used by the circuit map")
}
func (h *c07BucketH) SetSequence(v uint64) error {
	panic("c07 fake kvdb: SetSequence is not used by the circuit map")
}

// ---------------------------------------------------------------------------
// reference encodings (independent of the code under test)
// ---------------------------------------------------------------------------

// c07K is a circuit key together with the two 64-bit values it was built from.
type c07K struct {
	ch, id uint64
	key    CircuitKey
}

func c07Key(name string) c07K {
	ch, id := vU64(name+".chan"), vU64(name+".htlc")
	return c07K{ch: ch, id: id, key: CircuitKey{
		ChanID: lnwire.NewShortChanIDFromInt(ch),
		HtlcID: id,
	}}
}

func c07PutU64(b []byte, v uint64) {
	for k := 0; k < 8; k++ {
		b[k] = byte(v >> (8 * uint(7-k)))
	}
}

// c07RefKey: 8 bytes short channel id, 8 bytes htlc id, big-endian.
func c07RefKey(k c07K) []byte {
	b := make([]byte, 16)
	c07PutU64(b[0:8], k.ch)
	c07PutU64(b[8:16], k.id)
	return b
}

// c07Data is the durable content of a circuit.
type c07Data struct {
	height uint64
	index  uint16
	in     c07K
	hash   [32]byte
	inAmt  uint64
	outAmt uint64
}

func c07NewData(name string, in c07K) c07Data {
	d := c07Data{height: vU64(name + ".height"), index: vU16(name + ".index"), in: in,
		inAmt: vU64(name + ".inAmt"), outAmt: vU64(name + ".outAmt")}
	copy(d.hash[:], vBytes(name+".hash", 32))
	return d
}

// c07RefCircuit is the on-disk form of a circuit without error encrypter:
// AddRef (height u64, index u16), incoming key (16), payment hash (32),
// incoming amount u64, outgoing amount u64, encrypter type byte 0.
func c07RefCircuit(d c07Data) []byte {
	b := make([]byte, 75)
	c07PutU64(b[0:8], d.height)
	b[8], b[9] = byte(d.index>>8), byte(d.index)
	copy(b[10:26], c07RefKey(d.in))
	copy(b[26:58], d.hash[:])
	c07PutU64(b[58:66], d.inAmt)
	c07PutU64(b[66:74], d.outAmt)
	b[74] = 0
	return b
}

func (d c07Data) circuit() *PaymentCircuit {
	return &PaymentCircuit{
		AddRef:         channeldb.AddRef{Height: d.height, Index: d.index},
		Incoming:       d.in.key,
		PaymentHash:    d.hash,
		IncomingAmount: lnwire.MilliSatoshi(d.inAmt),
		OutgoingAmount: lnwire.MilliSatoshi(d.outAmt),
	}
}

// c07SameDurable: the fields of c that are persisted equal d.
func c07SameDurable(c *PaymentCircuit, d c07Data) bool {
	return c.AddRef.Height == d.height && c.AddRef.Index == d.index && c.Incoming == d.in.key &&
		c.PaymentHash == d.hash && uint64(c.IncomingAmount) == d.inAmt && uint64(c.OutgoingAmount) == d.outAmt &&
		c.ErrorEncrypter == nil
}

// ---------------------------------------------------------------------------
// arbitrary consistent pre-state
// ---------------------------------------------------------------------------

// c07Params are the structural bounds of one entry (quick and thorough tier
// entries differ only in these).
type c07Params struct {
	nPre   int // at most this many circuits in the pre-state
	nBatch int // at most this many circuits / keystones per call
	// anyHash: payment hashes of different circuits may coincide (multi-part
	// payments); when false they are assumed pairwise distinct (the hash index
	// then never holds two circuits under one hash).
	anyHash bool
	// failAtOp: a failing write transaction may also fail at its first
	// Put/Delete (the closure sees the error) instead of only at commit.
	failAtOp bool
}

var c07P c07Params

func c07Quick() c07Params { return c07Params{nPre: 2, nBatch: 2, anyHash: false, failAtOp: false} }
func c07Deep() c07Params  { return c07Params{nPre: 3, nBatch: 2, anyHash: true, failAtOp: true} }
func c07Wide() c07Params  { return c07Params{nPre: 2, nBatch: 3, anyHash: true, failAtOp: true} }

// c07Circ describes one circuit of the pre-state.
type c07Circ struct {
	d      c07Data
	c      *PaymentCircuit
	hasKs  bool // concrete on each path
	out    c07K
	closed bool // concrete on each path
	loaded bool // symbolic
}

type c07World struct {
	cm   *circuitMap
	db   *c07DB
	circ []*c07Circ
}

func c07Name(prefix string, i int) string {
	switch i {
	case 0:
		return prefix + "0"
	case 1:
		return prefix + "1"
	case 2:
		return prefix + "2"
	}
	return prefix + "3"
}

func c07Config(p c07Params) {
	c07P = p
	vAssumption("kvdb write transactions are atomic: a failed transaction (error at the first Put/Delete or at commit) leaves the store unchanged (fake in-memory walletdb.DB, no real bbolt)")
	vAssumption("bucket ForEach visits entries in insertion order (bbolt: key order); results of the code under test are order-insensitive sets")
	vAssumption("single-threaded: sync.RWMutex operations are no-ops; the window between releasing mtx and the DB write is not interleaved")
	vAssumption("circuits carry no error encrypter (EncrypterTypeNone); sphinx encrypters need elliptic-curve code")
}

// c07Build draws an arbitrary pre-state that satisfies the representation
// invariant of the circuit map:
//   - pending: distinct incoming keys, pending[k].Incoming == k;
//   - opened: exactly the pending circuits with a keystone, under their
//     (pairwise distinct, non-hop.Source) outgoing keys;
//   - closed: a subset of the pending keys;
//   - hashIndex: payment hash -> outgoing keys of the opened circuits;
//   - bucket circuit-adds: incoming key -> encoded circuit, for exactly the
//     pending circuits; bucket circuit-keystones: outgoing key -> incoming
//     key, for exactly the opened circuits.
//
// Every such state is reachable (CommitCircuits, OpenCircuits, FailCircuit,
// restart in the obvious order), and every reachable quiescent state has this
// form. LoadedFromDisk is arbitrary per circuit.
func c07Build(withClosed bool) *c07World {
	w := &c07World{db: c07NewDB()}
	cm := &circuitMap{
		cfg:       &CircuitMapConfig{DB: w.db},
		pending:   make(map[CircuitKey]*PaymentCircuit),
		opened:    make(map[CircuitKey]*PaymentCircuit),
		closed:    make(map[CircuitKey]struct{}),
		hashIndex: make(map[[32]byte]map[CircuitKey]struct{}),
	}
	w.cm = cm
	adds := w.db.mustBucket(string(circuitAddKey))
	kss := w.db.mustBucket(string(circuitKeystoneKey))
	n := vChoice("npre", c07P.nPre+1)
	for i := 0; i < n; i++ {
		name := c07Name("c", i)
		e := &c07Circ{}
		in := c07Key(name + ".in")
		for _, o := range w.circ {
			vAssume(in.key != o.d.in.key)
		}
		e.d = c07NewData(name, in)
		if !c07P.anyHash {
			for _, o := range w.circ {
				vAssume(e.d.hash != o.d.hash)
			}
		}
		e.c = e.d.circuit()
		e.loaded = vBool(name + ".loaded")
		e.c.LoadedFromDisk = e.loaded
		if vBool(name + ".open") {
			e.hasKs = true
			e.out = c07Key(name + ".out")
			// "the outgoing channel id can never be equal to sourceHop" (circuit.go)
			vAssume(e.out.ch != 0)
			for _, o := range w.circ {
				if o.hasKs {
					vAssume(e.out.key != o.out.key)
				}
			}
			ok := e.out.key
			e.c.Outgoing = &ok
		}
		if withClosed && vBool(name+".closed") {
			e.closed = true
		}
		w.circ = append(w.circ, e)

		cm.pending[in.key] = e.c
		adds.kvs = append(adds.kvs, c07KV{c07RefKey(in), c07RefCircuit(e.d)})
		if e.hasKs {
			cm.opened[e.out.key] = e.c
			set, ok := cm.hashIndex[e.d.hash]
			if !ok {
				set = make(map[CircuitKey]struct{})
				cm.hashIndex[e.d.hash] = set
			}
			set[e.out.key] = struct{}{}
			kss.kvs = append(kss.kvs, c07KV{c07RefKey(e.out), c07RefKey(in)})
		}
		if e.closed {
			cm.closed[in.key] = struct{}{}
		}
	}
	return w
}

func (w *c07World) nOpen() int {
	n := 0
	for _, e := range w.circ {
		if e.hasKs {
			n++
		}
	}
	return n
}

func (w *c07World) nClosed() int {
	n := 0
	for _, e := range w.circ {
		if e.closed {
			n++
		}
	}
	return n
}

func (w *c07World) adds() *c07Bucket { return w.db.find(string(circuitAddKey)) }
func (w *c07World) kss() *c07Bucket  { return w.db.find(string(circuitKeystoneKey)) }

// c07SameBucket: same entries in the same order.
func c07SameBucket(a, b *c07Bucket) bool {
	if len(a.kvs) != len(b.kvs) {
		return false
	}
	r := true
	for i := range a.kvs {
		ek := bytes.Equal(a.kvs[i].k, b.kvs[i].k)
		ev := bytes.Equal(a.kvs[i].v, b.kvs[i].v)
		r = r && ek && ev
	}
	return r
}

func c07FindBucket(bs []*c07Bucket, name string) *c07Bucket {
	for _, b := range bs {
		if b.name == name {
			return b
		}
	}
	return nil
}

// c07StoreUnchanged compares the whole store with a snapshot.
func (w *c07World) storeUnchanged(snap []*c07Bucket) bool {
	if len(w.db.buckets) != len(snap) {
		return false
	}
	return c07SameBucket(w.adds(), c07FindBucket(snap, string(circuitAddKey))) &&
		c07SameBucket(w.kss(), c07FindBucket(snap, string(circuitKeystoneKey)))
}

// memCircuitsUnchanged: every circuit of the pre-state is still pending under
// its key with the same pointer, is opened iff it was, and its fields are the
// ones it had.
func (w *c07World) memCircuitsUnchanged(msg string) {
	cm := w.cm
	vAssert(len(cm.pending) == len(w.circ), msg+": number of pending circuits unchanged")
	vAssert(len(cm.opened) == w.nOpen(), msg+": number of opened circuits unchanged")
	for _, e := range w.circ {
		vAssert(cm.LookupCircuit(e.d.in.key) == e.c, msg+": pre-state circuit still pending (same pointer)")
		vAssert(c07SameDurable(e.c, e.d) && e.c.LoadedFromDisk == e.loaded, msg+": pre-state circuit fields unchanged")
		if e.hasKs {
			vAssert(e.c.Outgoing != nil && *e.c.Outgoing == e.out.key, msg+": keystone of pre-state circuit unchanged")
			vAssert(cm.LookupOpenCircuit(e.out.key) == e.c, msg+": pre-state circuit still opened under its keystone")
		} else {
			vAssert(e.c.Outgoing == nil, msg+": half-open pre-state circuit still has no keystone")
		}
	}
}

func (w *c07World) closedUnchanged(msg string) {
	vAssert(len(w.cm.closed) == w.nClosed(), msg+": size of closed set unchanged")
	for _, e := range w.circ {
		_, ok := w.cm.closed[e.d.in.key]
		vAssert(ok == e.closed, msg+": membership in closed unchanged")
	}
}

func c07Count(l []*PaymentCircuit, c *PaymentCircuit) int {
	n := 0
	for _, x := range l {
		if x == c {
			n++
		}
	}
	return n
}

// c07InOrder: l is a subsequence of batch (pointer-wise, in order).
func c07InOrder(l, batch []*PaymentCircuit) bool {
	j := 0
	for _, x := range l {
		for j < len(batch) && batch[j] != x {
			j++
		}
		if j == len(batch) {
			return false
		}
		j++
	}
	return true
}

// ---------------------------------------------------------------------------
// (1) CommitCircuits
// ---------------------------------------------------------------------------

// VerifC07Commit: decision table add / drop / fail, exactly one list per
// circuit, duplicates inside the batch, rollback of `pending` and of the store
// after a failed write.
func c07Commit(p c07Params) {
	c07Config(p)
	w := c07Build(true)
	cm := w.cm
	m := 1 + vChoice("batch", c07P.nBatch)
	keys := make([]c07K, m)
	data := make([]c07Data, m)
	batch := make([]*PaymentCircuit, m)
	for j := 0; j < m; j++ {
		name := c07Name("b", j)
		keys[j] = c07Key(name + ".in")
		data[j] = c07NewData(name, keys[j])
		// a circuit handed in by a link: no keystone, LoadedFromDisk never set
		// outside the circuit map (doc of PaymentCircuit.LoadedFromDisk)
		batch[j] = data[j].circuit()
	}
	snap := w.db.snapshot()

	// ---- oracle: classes from the pre-state description only ----
	isNew := make([]bool, m)
	wantDrop := make([]bool, m)
	wantFailOld := make([]bool, m)
	anyNew := false
	nNew := 0
	for j := 0; j < m; j++ {
		dupPre, dropPre, failPre := false, false, false
		for _, e := range w.circ {
			eq := keys[j].key == e.d.in.key
			dupPre = dupPre || eq
			// pending with keystone, or pending and not loaded from disk: drop
			dropPre = dropPre || (eq && (e.hasKs || !e.loaded))
			// pending, no keystone, loaded from disk: the packet was lost in the restart, fail back
			failPre = failPre || (eq && !e.hasKs && e.loaded)
		}
		dupBatch := false
		for i := 0; i < j; i++ {
			dupBatch = dupBatch || keys[i].key == keys[j].key
		}
		dupBatch = dupBatch && !dupPre
		isNew[j] = !dupPre && !dupBatch
		wantDrop[j] = dropPre || dupBatch
		wantFailOld[j] = failPre
		anyNew = anyNew || isNew[j]
		if isNew[j] {
			nNew++
		}
	}

	actions, err := cm.CommitCircuits(batch...)

	// a write transaction happens iff there is something new to record
	vAssert((w.db.txs == 1) == anyNew && w.db.txs <= 1, "commit: exactly one write transaction iff some circuit is new")
	failed := w.db.txs > 0 && w.db.fails[0]
	vAssert((err != nil) == failed, "commit: error iff the write failed")
	vAssert(actions != nil, "commit: actions are always returned")

	for j := 0; j < m; j++ {
		a, d, f := c07Count(actions.Adds, batch[j]), c07Count(actions.Drops, batch[j]), c07Count(actions.Fails, batch[j])
		vAssert(a+d+f == 1, "commit: each circuit lands in exactly one of Adds/Drops/Fails")
		vAssert((a == 1) == (isNew[j] && !failed), "commit: Adds iff not pending before and the write succeeded")
		vAssert((d == 1) == wantDrop[j], "commit: Drops iff pending with keystone, pending and not loaded from disk, or duplicate inside the batch")
		vAssert((f == 1) == (wantFailOld[j] || (isNew[j] && failed)), "commit: Fails iff pending without keystone and loaded from disk, or new and the write failed")
		if a == 1 {
			vReach("add")
			vAssert(cm.LookupCircuit(keys[j].key) == batch[j], "commit: an added circuit is pending under its key with this exact pointer")
			vAssert(bytes.Equal(w.adds().get(c07RefKey(keys[j])), c07RefCircuit(data[j])), "commit: an added circuit is durably recorded under its incoming key")
			vAssert(!batch[j].LoadedFromDisk && batch[j].Outgoing == nil, "commit: an added circuit is half-open and not marked loaded")
		}
		if d == 1 {
			vReach("drop")
		}
		if f == 1 && !failed {
			vReach("fail-lost-in-restart")
		}
		if f == 1 && failed {
			vReach("fail-write-failed")
		}
	}
	vAssert(len(actions.Adds)+len(actions.Drops)+len(actions.Fails) == m, "commit: nothing but the batch is returned")
	vAssert(c07InOrder(actions.Adds, batch) && c07InOrder(actions.Drops, batch) && c07InOrder(actions.Fails, batch), "commit: the three lists are subsequences of the batch")

	// ---- post-state ----
	if failed {
		vAssert(len(cm.pending) == len(w.circ), "commit: after a failed write pending is exactly the pre-state")
		vAssert(w.storeUnchanged(snap), "commit: after a failed write the store is exactly the pre-state")
		for j := 0; j < m; j++ {
			if c07Count(actions.Fails, batch[j]) == 1 {
				p := cm.LookupCircuit(keys[j].key)
				vAssert(p != batch[j], "commit: a circuit failed back after a failed write is not pending")
			}
		}
	} else {
		vAssert(len(cm.pending) == len(w.circ)+nNew, "commit: pending grows by exactly the new circuits")
		vAssert(len(w.adds().kvs) == len(w.circ)+nNew, "commit: the circuit bucket grows by exactly the new circuits")
		vAssert(c07SameBucket(w.kss(), c07FindBucket(snap, string(circuitKeystoneKey))), "commit: keystone bucket untouched")
		pre := c07FindBucket(snap, string(circuitAddKey))
		for i, e := range w.circ {
			vAssert(bytes.Equal(w.adds().get(c07RefKey(e.d.in)), pre.kvs[i].v), "commit: records of pre-state circuits untouched")
		}
	}
	for _, e := range w.circ {
		vAssert(cm.LookupCircuit(e.d.in.key) == e.c, "commit: pre-state circuit still pending (same pointer)")
		vAssert(c07SameDurable(e.c, e.d) && e.c.LoadedFromDisk == e.loaded, "commit: pre-state circuit fields unchanged")
		if e.hasKs {
			vAssert(e.c.Outgoing != nil && *e.c.Outgoing == e.out.key && cm.LookupOpenCircuit(e.out.key) == e.c, "commit: keystone of pre-state circuit unchanged")
		} else {
			vAssert(e.c.Outgoing == nil, "commit: half-open pre-state circuit still has no keystone")
		}
	}
	vAssert(len(cm.opened) == w.nOpen(), "commit: opened untouched")
	w.closedUnchanged("commit")
	if m >= 2 && keys[0].key == keys[1].key && isNew[0] {
		vReach("dup-in-batch")
	}
}

// ---------------------------------------------------------------------------
// (2) OpenCircuits
// ---------------------------------------------------------------------------

// VerifC07Open: ErrDuplicateKeystone / ErrUnknownCircuit in batch order, no
// change on any error including a failed write, exact bindings on success.
func c07Open(p c07Params) {
	c07Config(p)
	w := c07Build(true)
	cm := w.cm
	m := 1 + vChoice("batch", c07P.nBatch)
	ins := make([]c07K, m)
	outs := make([]c07K, m)
	kst := make([]Keystone, m)
	for j := 0; j < m; j++ {
		name := c07Name("k", j)
		ins[j] = c07Key(name + ".in")
		outs[j] = c07Key(name + ".out")
		// a link opens one keystone per packet of its batch: incoming keys are
		// distinct (one packet per circuit, mailbox de-duplicates by incoming
		// key) and outgoing keys are distinct (fresh htlc index per Add)
		for i := 0; i < j; i++ {
			vAssume(ins[i].key != ins[j].key && outs[i].key != outs[j].key)
		}
		vAssume(outs[j].ch != 0) // never hop.Source on the outgoing side
		kst[j] = Keystone{InKey: ins[j].key, OutKey: outs[j].key}
	}
	// A packet reaches an outgoing link only as an "add" of CommitCircuits or
	// from the mailbox, both keyed by incoming key; a circuit that already has a
	// keystone is dropped there (decision table of VerifC07Commit), so the link
	// never asks to open a circuit that is already open.
	for j := 0; j < m; j++ {
		for _, e := range w.circ {
			if e.hasKs {
				vAssume(ins[j].key != e.d.in.key)
			}
		}
	}
	snap := w.db.snapshot()

	// ---- oracle ----
	cls := 0 // 0 ok, 1 duplicate keystone, 2 unknown circuit
	for j := 0; j < m; j++ {
		dup, known := false, false
		for _, e := range w.circ {
			dup = dup || (e.hasKs && outs[j].key == e.out.key)
			known = known || ins[j].key == e.d.in.key
		}
		if cls == 0 && dup {
			cls = 1
		}
		if cls == 0 && !known {
			cls = 2
		}
	}

	err := cm.OpenCircuits(kst...)

	vAssert((w.db.txs == 1) == (cls == 0) && w.db.txs <= 1, "open: a write transaction iff every keystone passed the checks")
	failed := w.db.txs > 0 && w.db.fails[0]
	vAssert((err == ErrDuplicateKeystone) == (cls == 1), "open: ErrDuplicateKeystone iff the first offending keystone's out-key is already open")
	vAssert((err == ErrUnknownCircuit) == (cls == 2), "open: ErrUnknownCircuit iff the first offending keystone's in-key is not pending")
	vAssert((err == nil) == (cls == 0 && !failed), "open: success iff all checks pass and the write succeeds")

	if err != nil {
		if err == ErrDuplicateKeystone {
			vReach("dup-keystone")
		} else if err == ErrUnknownCircuit {
			vReach("unknown-circuit")
		} else {
			vReach("write-failed")
			vAssert(err == w.db.errWrite, "open: the store's error is returned")
		}
		vAssert(w.storeUnchanged(snap), "open: on error the store is unchanged")
		w.memCircuitsUnchanged("open/error")
		w.closedUnchanged("open/error")
		for j := 0; j < m; j++ {
			p := cm.LookupOpenCircuit(outs[j].key)
			if p != nil {
				vAssert(p.Outgoing != nil && *p.Outgoing == outs[j].key, "open: on error no new binding is visible")
			}
		}
		return
	}
	vReach("opened")
	vAssert(len(cm.pending) == len(w.circ), "open: pending unchanged")
	vAssert(len(cm.opened) == w.nOpen()+m, "open: opened grows by exactly the batch")
	vAssert(len(w.kss().kvs) == w.nOpen()+m, "open: keystone bucket grows by exactly the batch")
	vAssert(c07SameBucket(w.adds(), c07FindBucket(snap, string(circuitAddKey))), "open: circuit bucket untouched")
	for j := 0; j < m; j++ {
		c := cm.LookupCircuit(ins[j].key)
		vAssert(c != nil && c.Incoming == ins[j].key, "open: the circuit is still pending")
		vAssert(cm.LookupOpenCircuit(outs[j].key) == c, "open: the circuit is reachable through its new keystone")
		vAssert(c.HasKeystone() && c.OutKey() == outs[j].key, "open: the circuit's Outgoing is the new keystone")
		vAssert(bytes.Equal(w.kss().get(c07RefKey(outs[j])), c07RefKey(ins[j])), "open: the keystone is durably recorded out-key -> in-key")
		found := false
		for _, x := range cm.LookupByPaymentHash(c.PaymentHash) {
			found = found || x == c
		}
		vAssert(found, "open: the circuit is indexed by payment hash")
	}
	pre := c07FindBucket(snap, string(circuitKeystoneKey))
	k := 0
	for _, e := range w.circ {
		vAssert(cm.LookupCircuit(e.d.in.key) == e.c, "open: pre-state circuit still pending (same pointer)")
		vAssert(c07SameDurable(e.c, e.d) && e.c.LoadedFromDisk == e.loaded, "open: durable fields and LoadedFromDisk unchanged")
		if e.hasKs {
			vAssert(e.c.Outgoing != nil && *e.c.Outgoing == e.out.key && cm.LookupOpenCircuit(e.out.key) == e.c, "open: earlier keystones unchanged")
			vAssert(bytes.Equal(w.kss().get(c07RefKey(e.out)), pre.kvs[k].v), "open: earlier keystone records unchanged")
			k++
		} else {
			touched := false
			for j := 0; j < m; j++ {
				touched = touched || ins[j].key == e.d.in.key
			}
			vAssert(touched == (e.c.Outgoing != nil), "open: only the circuits named in the batch get a keystone")
		}
	}
	w.closedUnchanged("open")
}

// ---------------------------------------------------------------------------
// (3) TrimOpenCircuits
// ---------------------------------------------------------------------------

// VerifC07Trim: removes exactly the contiguous run start, start+1, ... of the
// channel's keystones, returning those circuits to half-open; no other
// channel, no other index is touched.
func c07Trim(p c07Params) {
	c07Config(p)
	w := c07Build(true)
	cm := w.cm
	chanU := vU64("trim.chan")
	start := vU64("trim.start")
	// htlc indices are update counters of one channel
	vAssume(start < 1<<62)
	chanID := lnwire.NewShortChanIDFromInt(chanU)
	snap := w.db.snapshot()

	// ---- oracle: length of the contiguous run starting at `start` ----
	run := 0
	going := true
	for d := 0; d < len(w.circ); d++ {
		o := false
		for _, e := range w.circ {
			o = o || (e.hasKs && e.out.ch == chanU && e.out.id == start+uint64(d))
		}
		going = going && o
		if going {
			run++
		}
	}
	removed := make([]bool, len(w.circ))
	for i, e := range w.circ {
		removed[i] = e.hasKs && e.out.ch == chanU && e.out.id >= start && e.out.id-start < uint64(run)
	}

	err := cm.TrimOpenCircuits(chanID, start)

	vAssert((w.db.txs == 1) == (run > 0) && w.db.txs <= 1, "trim: a write transaction iff something is trimmed")
	failed := w.db.txs > 0 && w.db.fails[0]
	vAssert((err != nil) == failed, "trim: error iff the write failed")

	nRemoved := 0
	for i, e := range w.circ {
		vAssert(cm.LookupCircuit(e.d.in.key) == e.c, "trim: every circuit stays pending (same pointer)")
		vAssert(c07SameDurable(e.c, e.d) && e.c.LoadedFromDisk == e.loaded, "trim: durable fields and LoadedFromDisk unchanged")
		if !e.hasKs {
			vAssert(e.c.Outgoing == nil, "trim: half-open circuits stay half-open")
			continue
		}
		gone := cm.LookupOpenCircuit(e.out.key) == nil
		vAssert(gone == removed[i], "trim: a keystone is removed from opened iff it lies in the contiguous run from start on that channel")
		vAssert((e.c.Outgoing == nil) == removed[i], "trim: a circuit returns to half-open iff its keystone was trimmed")
		if !gone {
			vAssert(cm.LookupOpenCircuit(e.out.key) == e.c && *e.c.Outgoing == e.out.key, "trim: untouched keystones keep their binding")
		}
		inStore := w.kss().get(c07RefKey(e.out)) != nil
		vAssert(inStore == !(removed[i] && !failed), "trim: the keystone record is deleted iff trimmed and the write succeeded")
		if gone {
			nRemoved++
			found := false
			for _, x := range cm.LookupByPaymentHash(e.d.hash) {
				found = found || x == e.c
			}
			vAssert(!found, "trim: a trimmed circuit is no longer indexed by payment hash")
		}
	}
	vAssert(len(cm.pending) == len(w.circ) && len(cm.opened) == w.nOpen()-nRemoved, "trim: map sizes")
	vAssert(c07SameBucket(w.adds(), c07FindBucket(snap, string(circuitAddKey))), "trim: circuit bucket untouched")
	if failed || run == 0 {
		vAssert(w.storeUnchanged(snap), "trim: store unchanged when nothing is trimmed or the write failed")
	} else {
		vAssert(len(w.kss().kvs) == w.nOpen()-nRemoved, "trim: keystone bucket shrinks by exactly the trimmed keystones")
	}
	w.closedUnchanged("trim")
	switch {
	case nRemoved == 0:
		vReach("trim-none")
	case nRemoved == 1:
		vReach("trim-one")
	default:
		vReach("trim-two")
	}
	if nRemoved > 0 && nRemoved < w.nOpen() {
		vReach("trim-some-kept")
	}
	if failed {
		vReach("trim-write-failed")
	}
}

// ---------------------------------------------------------------------------
// (4) CloseCircuit / FailCircuit / DeleteCircuits
// ---------------------------------------------------------------------------

// VerifC07Respond: any two calls out of CloseCircuit(out), FailCircuit(in),
// DeleteCircuits(in) with arbitrary keys, each checked against its one-step
// table; over the whole sequence every circuit lets at most one response
// through (none if one had been accepted before).
func c07Respond(p c07Params, first int) {
	c07Config(p)
	w := c07Build(true)
	cm := w.cm
	n := len(w.circ)
	present := make([]bool, n) // abstract state, symbolic
	closed := make([]bool, n)
	accepted := make([]int, n)
	for i, e := range w.circ {
		present[i] = true
		closed[i] = e.closed
		if e.closed {
			accepted[i] = 1 // a response was accepted earlier
		}
	}
	for step := 0; step < 2; step++ {
		name := c07Name("op", step)
		op := first
		if step > 0 || first < 0 {
			op = vChoice(name, 3)
		}
		k := c07Key(name + ".key")
		switch op {
		case 0: // CloseCircuit(outKey): a settle/fail came back from the outgoing link
			found, free := false, false
			for i, e := range w.circ {
				match := present[i] && e.hasKs && k.key == e.out.key
				found = found || match
				free = free || (match && !closed[i])
			}
			c, err := cm.CloseCircuit(k.key)
			vAssert((err == nil) == free, "close: accepted iff the keystone is open and no response was accepted before")
			vAssert((err == ErrUnknownCircuit) == !found, "close: ErrUnknownCircuit iff no open circuit has this keystone")
			vAssert((err == ErrCircuitClosing) == (found && !free), "close: ErrCircuitClosing iff a response was already accepted")
			vAssert((c != nil) == (err == nil), "close: a circuit is returned iff accepted")
			for i, e := range w.circ {
				match := present[i] && e.hasKs && k.key == e.out.key
				if c == e.c {
					vAssert(match, "close: the returned circuit is the one bound to the keystone")
					accepted[i]++
					vReach("close-accepted")
				}
				closed[i] = closed[i] || match
			}
			if err == ErrCircuitClosing {
				vReach("close-refused")
			}
		case 1: // FailCircuit(inKey): local failure
			found, free := false, false
			for i, e := range w.circ {
				match := present[i] && k.key == e.d.in.key
				found = found || match
				free = free || (match && !closed[i])
			}
			c, err := cm.FailCircuit(k.key)
			vAssert((err == nil) == free, "fail: accepted iff the circuit is pending and no response was accepted before")
			vAssert((err == ErrUnknownCircuit) == !found, "fail: ErrUnknownCircuit iff the circuit is not pending")
			vAssert((err == ErrCircuitClosing) == (found && !free), "fail: ErrCircuitClosing iff a response was already accepted")
			vAssert((c != nil) == (err == nil), "fail: a circuit is returned iff accepted")
			for i, e := range w.circ {
				match := present[i] && k.key == e.d.in.key
				if c == e.c {
					vAssert(match, "fail: the returned circuit is the one pending under the key")
					accepted[i]++
					vReach("fail-accepted")
				}
				closed[i] = closed[i] || match
			}
			if err == ErrCircuitClosing {
				vReach("fail-refused")
			}
		case 2: // DeleteCircuits(inKey): the response reached the incoming link's commitment
			txs := w.db.txs
			snap := w.db.snapshot()
			err := cm.DeleteCircuits(k.key)
			vAssert(w.db.txs == txs+1, "delete: one write transaction")
			failed := w.db.fails[txs]
			vAssert((err != nil) == failed, "delete: error iff the write failed")
			if failed {
				vAssert(w.storeUnchanged(snap), "delete: a failed write leaves the store unchanged")
				vReach("delete-write-failed")
			} else {
				for i, e := range w.circ {
					match := present[i] && k.key == e.d.in.key
					present[i] = present[i] && !match
					closed[i] = closed[i] && !match
					if cm.LookupCircuit(e.d.in.key) == nil && match {
						vReach("deleted")
					}
				}
			}
		}
	}
	// ---- the map and the store agree with the abstract state ----
	nP, nO, nC := 0, 0, 0
	for i, e := range w.circ {
		p := cm.LookupCircuit(e.d.in.key)
		vAssert((p == e.c) == present[i] && (p == nil) == !present[i], "respond: pending iff not deleted")
		_, isClosed := cm.closed[e.d.in.key]
		vAssert(isClosed == closed[i], "respond: closed iff a response was accepted (or had been) and the circuit is not deleted")
		vAssert((w.adds().get(c07RefKey(e.d.in)) != nil) == present[i], "respond: circuit record present iff not deleted")
		if e.hasKs {
			vAssert((cm.LookupOpenCircuit(e.out.key) == e.c) == present[i], "respond: opened iff not deleted")
			vAssert((w.kss().get(c07RefKey(e.out)) != nil) == present[i], "respond: keystone record present iff not deleted")
			vAssert(e.c.Outgoing != nil && *e.c.Outgoing == e.out.key, "respond: keystones are never altered")
		}
		if p != nil {
			nP++
			if e.hasKs {
				nO++
			}
		}
		if isClosed {
			nC++
		}
		vAssert(accepted[i] <= 1, "respond: at most one settle-or-fail is accepted per circuit")
	}
	vAssert(len(cm.pending) == nP && len(cm.opened) == nO && len(cm.closed) == nC, "respond: no other entries in pending/opened/closed")
	vAssert(len(w.adds().kvs) == nP && len(w.kss().kvs) == nO, "respond: no other records in the store")
}

// ---------------------------------------------------------------------------
// (5) restart
// ---------------------------------------------------------------------------

// VerifC07Restart: restoreMemState on the store of an arbitrary consistent
// state (plus optionally one stray keystone) rebuilds exactly the durable
// circuits as pending+LoadedFromDisk, the keystones as opened, closed empty;
// then a re-forward of a restored circuit is failed back if it has no keystone
// and dropped if it has one, and one response is accepted again.
func c07Restart(p c07Params) {
	c07Config(p)
	w := c07Build(true)
	var strayIn, strayOut c07K
	stray := vChoice("stray", 2) == 1
	if stray {
		strayIn, strayOut = c07Key("stray.in"), c07Key("stray.out")
		for _, e := range w.circ {
			vAssume(strayIn.key != e.d.in.key)
			if e.hasKs {
				vAssume(strayOut.key != e.out.key)
			}
		}
		w.kss().kvs = append(w.kss().kvs, c07KV{c07RefKey(strayOut), c07RefKey(strayIn)})
	}
	snap := w.db.snapshot()

	cm := &circuitMap{cfg: w.cm.cfg}
	err := cm.restoreMemState()

	vAssert(w.db.txs == 1, "restart: one write transaction")
	failed := w.db.fails[0]
	vAssert((err != nil) == failed, "restart: error iff the write failed")
	if failed {
		vAssert(w.storeUnchanged(snap), "restart: a failed start leaves the store unchanged")
		vReach("restart-write-failed")
		return
	}
	vReach("restored")
	vAssert(cm.NumPending() == len(w.circ), "restart: exactly the durable circuits are pending")
	vAssert(cm.NumOpen() == w.nOpen(), "restart: exactly the durable keystones (with a circuit) are opened")
	vAssert(cm.closed != nil && len(cm.closed) == 0, "restart: closed is empty")
	vAssert(c07SameBucket(w.adds(), c07FindBucket(snap, string(circuitAddKey))), "restart: circuit bucket untouched")
	for _, e := range w.circ {
		c := cm.LookupCircuit(e.d.in.key)
		vAssert(c != nil && c != e.c, "restart: the circuit is rebuilt from the store")
		vAssert(c07SameDurable(c, e.d), "restart: durable fields are the recorded ones")
		vAssert(c.LoadedFromDisk, "restart: marked LoadedFromDisk")
		vAssert(c.HasKeystone() == e.hasKs, "restart: has a keystone iff one was recorded")
		if e.hasKs {
			vAssert(c.OutKey() == e.out.key && cm.LookupOpenCircuit(e.out.key) == c, "restart: keystone restored")
			vAssert(bytes.Equal(w.kss().get(c07RefKey(e.out)), c07RefKey(e.d.in)), "restart: keystone record kept")
			found := false
			for _, x := range cm.LookupByPaymentHash(e.d.hash) {
				found = found || x == c
			}
			vAssert(found, "restart: open circuit indexed by payment hash")
		}
	}
	if stray {
		vAssert(cm.LookupOpenCircuit(strayOut.key) == nil && cm.LookupCircuit(strayIn.key) == nil, "restart: a keystone without circuit opens nothing")
		kept := w.kss().get(c07RefKey(strayOut)) != nil
		vAssert(kept == (strayOut.ch != 0), "restart: a stray keystone is pruned iff its outgoing side is hop.Source")
		if kept {
			vReach("stray-kept")
			vAssert(w.storeUnchanged(snap), "restart: store unchanged when nothing is pruned")
		} else {
			vReach("stray-pruned")
			vAssert(len(w.kss().kvs) == w.nOpen(), "restart: only the stray keystone is pruned")
		}
	} else {
		vAssert(w.storeUnchanged(snap), "restart: store unchanged")
	}

	// ---- after the restart: duplicate re-forward and one response ----
	if len(w.circ) == 0 {
		return
	}
	i := vChoice("refwd", len(w.circ))
	e := w.circ[i]
	dup := e.d.circuit()
	txs := w.db.txs
	actions, err := cm.CommitCircuits(dup)
	vAssert(err == nil && w.db.txs == txs, "restart/re-forward: nothing is written")
	if e.hasKs {
		vAssert(len(actions.Drops) == 1 && actions.Drops[0] == dup && len(actions.Adds) == 0 && len(actions.Fails) == 0,
			"restart/re-forward: a circuit whose outgoing HTLC was recorded is dropped (not forwarded twice)")
		vReach("refwd-drop")
	} else {
		vAssert(len(actions.Fails) == 1 && actions.Fails[0] == dup && len(actions.Adds) == 0 && len(actions.Drops) == 0,
			"restart/re-forward: a half-open circuit is failed back (not lost, not forwarded twice)")
		vReach("refwd-fail")
	}
	c1, err1 := cm.FailCircuit(e.d.in.key)
	c2, err2 := cm.FailCircuit(e.d.in.key)
	vAssert(err1 == nil && c1 == cm.LookupCircuit(e.d.in.key), "restart: the first response after restart is accepted")
	vAssert(err2 == ErrCircuitClosing && c2 == nil, "restart: the second one is refused")
}

// ---------------------------------------------------------------------------
// codecs
// ---------------------------------------------------------------------------

// VerifC07KeyCodec: CircuitKey.Bytes/SetBytes/Encode/Decode are the 16-byte
// big-endian layout and inverse to each other for all 2^128 keys.
func VerifC07KeyCodec() {
	k := c07Key("k")
	ref := c07RefKey(k)
	vAssert(k.key.ChanID.ToUint64() == k.ch, "key: ShortChannelID round-trips through uint64")
	vAssert(bytes.Equal(k.key.Bytes(), ref), "key: Bytes is chan id then htlc id, big-endian")
	var buf bytes.Buffer
	vAssert(k.key.Encode(&buf) == nil && bytes.Equal(buf.Bytes(), ref), "key: Encode writes the same 16 bytes")
	var a, b CircuitKey
	vAssert(a.SetBytes(ref) == nil && a == k.key, "key: SetBytes inverts Bytes")
	vAssert(b.Decode(bytes.NewReader(ref)) == nil && b == k.key, "key: Decode inverts Encode")
	// injectivity: two keys with the same bytes are the same key
	k2 := c07Key("k2")
	vAssert(bytes.Equal(k2.key.Bytes(), k.key.Bytes()) == (k2.key == k.key), "key: Bytes is injective")
	// arbitrary 16 bytes decode to the key they denote and re-encode to themselves
	in := vBytes("in", 16)
	var c CircuitKey
	vAssert(c.SetBytes(in) == nil && bytes.Equal(c.Bytes(), in), "key: SetBytes then Bytes is the identity on 16 bytes")
	n := vChoice("len", 18)
	var d CircuitKey
	vAssert((d.SetBytes(vBytes("short", n)) == nil) == (n == 16), "key: SetBytes accepts exactly 16 bytes")
	vReach("key")
}

// VerifC07CircuitCodec: PaymentCircuit.Encode is the documented layout, Decode
// inverts it, neither Outgoing nor LoadedFromDisk is persisted, truncated
// records are rejected.
func VerifC07CircuitCodec() {
	d := c07NewData("c", c07Key("c.in"))
	c := d.circuit()
	if vBool("c.open") {
		o := c07Key("c.out").key
		c.Outgoing = &o
	}
	c.LoadedFromDisk = vBool("c.loaded")
	ref := c07RefCircuit(d)
	var buf bytes.Buffer
	vAssert(c.Encode(&buf) == nil, "circuit: Encode succeeds")
	vAssert(bytes.Equal(buf.Bytes(), ref), "circuit: Encode writes addref, incoming key, hash, amounts, encrypter type")
	var g PaymentCircuit
	vAssert(g.Decode(bytes.NewReader(ref)) == nil, "circuit: Decode succeeds")
	vAssert(c07SameDurable(&g, d), "circuit: round trip keeps every persisted field")
	vAssert(g.Outgoing == nil && !g.LoadedFromDisk, "circuit: keystone and LoadedFromDisk are not part of the record")
	cm := &circuitMap{cfg: &CircuitMapConfig{}}
	h, err := cm.decodeCircuit(ref)
	vAssert(err == nil && c07SameDurable(h, d), "circuit: decodeCircuit agrees")
	n := vChoice("cut", 75)
	var t PaymentCircuit
	vAssert(t.Decode(bytes.NewReader(ref[:n])) != nil, "circuit: a truncated record is rejected")
	vReach("circuit")
}

// ---------------------------------------------------------------------------
// entries
// ---------------------------------------------------------------------------

func VerifC07Commit()  { c07Commit(c07Quick()) }
func VerifC07Open()    { c07Open(c07Quick()) }
func VerifC07Trim()    { c07Trim(c07Quick()) }
func VerifC07Restart() { c07Restart(c07Quick()) }

// the settle/fail arbitration, split by the first call of the sequence
func VerifC07RespondClose()  { c07Respond(c07Quick(), 0) }
func VerifC07RespondFail()   { c07Respond(c07Quick(), 1) }
func VerifC07RespondDelete() { c07Respond(c07Quick(), 2) }

// thorough tier: three circuits in the pre-state, equal payment hashes
// allowed, write failures also at the first Put/Delete (the two-call
// arbitration keeps two circuits: all nine call pairs, equal hashes, both
// failure points)
func VerifC07CommitDeep()  { c07Commit(c07Deep()) }
func VerifC07OpenDeep()    { c07Open(c07Deep()) }
func VerifC07TrimDeep()    { c07Trim(c07Deep()) }
func VerifC07RestartDeep() { c07Restart(c07Deep()) }
func VerifC07RespondDeep() { c07Respond(c07Wide(), -1) }

// batches of three (OpenWide is in the thorough tier; CommitWide ran clean
// once, 3872 paths, and is kept for a later round: see NOTES.md)
func VerifC07CommitWide() { c07Commit(c07Wide()) }
func VerifC07OpenWide()   { c07Open(c07Wide()) }
