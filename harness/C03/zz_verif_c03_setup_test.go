package lnwallet

import (
	"testing"

	"github.com/lightningnetwork/lnd/chanstate"
)

// vTestSetup: native replay only. The real SignNextCommitment (which the
// symbolic run replaces by its contract) needs keys, a signer and balances;
// they are taken from lnd's own test channel.
func vTestSetup(t *testing.T) {
	vC03Base = func(ct chanstate.ChannelType) *LightningChannel {
		alice, _, err := CreateTestChannels(t, ct)
		if err != nil {
			t.Fatal(err)
		}
		return alice
	}
}
