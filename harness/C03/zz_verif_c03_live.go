package lnwallet

// C03 extension (with the release clause of C06): LIVE reconnect states.
//
// The entries of zz_verif_c03_lnwallet.go start from the in-memory state a
// reload produces: local commit chain tip == tail. ProcessChanSyncMsg is a
// method of a long-lived object; on a LightningChannel that is resynchronised
// WITHOUT being re-created from the database, the local chain may hold a
// commitment that was received (ReceiveNewCommitment) but not yet revoked:
//
//	local tail = h  (== channelState.LocalCommitment.CommitHeight, the only
//	                  state on disk, the one we would broadcast)
//	local tip  = h+1 (in memory only)
//
// These entries run the same real code (ProcessChanSyncMsg, generateRevocation,
// oweCommitment, chain tip/tail) on such states, with the SAME oracle as after
// a reload, because for the peer nothing distinguishes the two: we have sent
// exactly h revocations, the last one for height h-1.
//
//  1. C06 release rule: a revoke_and_ack among the returned messages carries
//     sec(h-1) - strictly below the durable height h - never sec(h) (current)
//     or sec(h+1) (pending), with the point for h+1 (what the original
//     revoke_and_ack carried; BOLT-2: retransmit the same message);
//  2. C03: retransmission set / verdicts as in c03Reference with "number of
//     revocations sent" = tail height, for tip == tail (sanity: identical to
//     the reload entries) and tip == tail+1;
//  3. the unrevoked commitment is not counted as revoked: next_revocation_number
//     == h is "in sync", == h+1 is "we are behind", and the local chain and the
//     durable height are untouched by the call.
//
// Reachability (see NOTES.md): in this tree ProcessChanSyncMsg is only called
// from link.syncChanStates, once, as the first action of a freshly created link
// whose LightningChannel was just built by NewLightningChannel from the
// OpenChannel record; ReceiveNewCommitment and RevokeCurrentCommitment run
// back-to-back in one handler of the same goroutine. tip == tail+1 is therefore
// not reachable through lnd's own callers; the tip == tail+1 half is a
// defence-in-depth check of the exported method.

import (
	"github.com/lightningnetwork/lnd/input"
	"github.com/lightningnetwork/lnd/lnwire"
)

// c03LiveParty: symbolic choice whether an unrevoked local commitment is
// pending. Its message indices are arbitrary (ReceiveNewCommitment sets
// Remote = the peer's log index at signing time, Local = what the peer had
// acked of ours: neither is bounded by anything the unit reads).
func c03LiveParty(p *c03Party, tag string) {
	p.live = vChoice(tag+"localTip", 2) == 1
	if p.live {
		p.liveLocalIdx, p.liveRemoteIdx = vU64(tag+"localTipLocalIndex"), vU64(tag+"localTipRemoteIndex")
	}
}

func c03LiveTag(p *c03Party) string {
	if p.live {
		return "live "
	}
	return ""
}

// c03LivePair extends the consistency relation R to live states: X can only
// hold an unrevoked commitment that Y signed and that X has not revoked into,
// i.e. Y has an unacked remote tip and X's revocation count is still Y's remote
// tail (no revocation of X in flight). The receiver B always gets the case
// split; the sender A only with `both` (thorough tier: its ChanSyncMsg must not
// depend on the in-memory chain).
func c03LivePair(a, b *c03Party, dA, dB bool, both bool) {
	if both {
		c03LiveParty(a, "a")
	}
	c03LiveParty(b, "b")
	vAssume(!a.live || (b.unacked && !dA))
	vAssume(!b.live || (a.unacked && !dB))
}

func c03SecEq(got [32]byte, chain byte, h uint64) bool {
	want := c03Sec(chain, h)
	eq := true
	for i := 0; i < 32; i++ {
		eq = eq && got[i] == want[i]
	}
	return eq
}

// c03LiveCheck: the release rule of C06 stated on the returned messages, and
// "the call leaves the local chain alone". Independent of c03Check's verdict
// (it is evaluated for failures too: nothing may be released with an error).
func c03LiveCheck(tag string, p *c03Party, lc *LightningChannel, res c03Result) {
	durable := lc.channelState.LocalCommitment.CommitHeight
	vAssert(durable == p.localH, tag+"the durable local height is not changed by the resync")
	vAssert(lc.commitChains.Local.tail().height == p.localH &&
		lc.commitChains.Local.tip().height == c03Succ(p.localH, p.live),
		tag+"the local commit chain (including an unrevoked commitment) is not changed by the resync")

	for _, m := range res.msgs {
		rev, ok := m.(*lnwire.RevokeAndAck)
		if !ok {
			continue
		}
		vAssert(!c03SecEq(rev.Revocation, p.self, durable),
			tag+"C06: the secret of the commitment that is current on disk is never released")
		vAssert(!c03SecEq(rev.Revocation, p.self, durable+1),
			tag+"C06: the secret of a future (received, unrevoked) commitment is never released")
		vAssert(durable >= 1, tag+"C06: no revocation can be owed at durable height 0")
		if durable == 0 {
			continue
		}
		vAssert(c03SecEq(rev.Revocation, p.self, durable-1),
			tag+"C06: a revoke_and_ack sent on reconnect releases the secret just below the durable local commitment")
		next := input.ComputeCommitmentPoint(c03Sec(p.self, durable+1)[:])
		vAssert(rev.NextRevocationKey != nil && rev.NextRevocationKey.IsEqual(next),
			tag+"C06: the retransmitted revocation carries the point of durable height+1 (no gap, no repeat)")
		vReach(tag + "release-below-durable")
	}
}

func c03LiveConfig() {
	// "never the current / a future secret" is only meaningful if different
	// heights have different secrets
	vInjective("c03sec")
	vAssumption("C03 live: distinct (party, height) have distinct per-commitment secrets (ideal secret function injective)")
	vAssumption("C03 live: pre-state is a LightningChannel that was NOT re-created from disk: local chain tail at the durable height h and, by case split, an unrevoked tip at h+1 with arbitrary message indices; channelState.LocalCommitment.CommitHeight = h; remote chain, stores and message as in the reload entries; non-taproot channel types")
}

// VerifC03Live: decision table (states without pending updates + open window).
func VerifC03Live() {
	c03LiveConfig()
	c03Table(false, 3, true)
}

// VerifC03LiveThorough: k <= 4 stored updates.
func VerifC03LiveThorough() {
	c03LiveConfig()
	c03Table(false, 5, true)
}

// VerifC03LiveSign: states with pending updates and an open window, i.e. the
// arm that signs a fresh commitment after a retransmitted revocation. Live,
// "the peer's updates we have a signature for" are those of the tip
// (oweCommitment reads Local.tip()).
func VerifC03LiveSign() {
	c03LiveConfig()
	c03Table(true, 3, true)
}

// VerifC03LiveHonest: honest pair related by R extended to live states; A's
// message comes from the real ChanSyncMsg (which reads only the durable
// record, so it is the message A would send after a reload as well).
func VerifC03LiveHonest()     { c03LiveHonest(false) }
func VerifC03LiveHonestBoth() { c03LiveHonest(true) }

func c03LiveHonest(both bool) {
	c03Config()
	c03LiveConfig()
	vAssumption("C03 live honest pair: R of c03HonestPair plus: a party holds an unrevoked local commitment only if the peer has an unacked remote tip and no revocation of that party is in flight")
	a, b, dA, dB := c03HonestPairL(c03Succ(1, both))
	stripDLP := vBool("peerWithoutDLP")
	lcA, lcB := c03Chan(a), c03Chan(b)
	tag := c03LiveTag(b)
	m, err := lcA.channelState.ChanSyncMsg()
	vAssert(err == nil && m != nil, tag+"ChanSyncMsg succeeds on an honest state")
	if err != nil || m == nil {
		return
	}
	vAssert(m.NextLocalCommitHeight == a.localH+1 && m.RemoteCommitTailHeight == a.remTail,
		tag+"channel_reestablish announces durable local height+1 and the peer's acked height, with or without an unrevoked commitment in memory")
	if stripDLP {
		m.LocalUnrevokedCommitPoint = nil
		m.LastRemoteCommitSecret = [32]byte{}
	}
	x := &c03Msg{m: m, hasOpts: m.LocalUnrevokedCommitPoint != nil, secretCorrect: true}
	res := c03Process(lcB, m)
	c03LiveCheck(tag, b, lcB, res)
	c03Check(tag, b, x, c03Ref{oweRev: dB, oweCommit: b.unacked && !dA}, res)
}
